(* Proofs/DomCHK.v — the Cooper-Harvey-Kennedy iteration of dom.go:11-82 (model idom_chk).
   Invariants of the in-place iteration (tree shape with increasing post-order numbers, a
   low-numbered graph path under every chain link, every true dominator stays on the chain),
   totality of intersect and of a sweep, and the result:
     on every well-formed graph, with fuel >= 2V+1, idom_chk never panics, and whenever the
     outer loop stops within the fuel its result is exactly idom_spec (chk_correct_partial);
   then three more invariants and a potential argument bound the number of sweeps by V*V+1:
     with fuel >= (V+1)^2, idom_chk g r = Ok (idom_spec_list g r) for EVERY graph and root (chk_total). *)
From Coq Require Import List Arith Bool Lia PeanoNat.
From MM Require Import Base.GDGraph Spec.Dom Model.Dom Proofs.DomSpec Proofs.DomModel Proofs.DomFrontier Proofs.DomDFS.
Import ListNotations.

Lemma app_mid_eq : forall (l1 l1' l2 l2' : list nat) a b,
  l1 ++ a :: l2 = l1' ++ b :: l2' -> length l2 = length l2' -> a = b.
Proof.
  intros l1 l1' l2 l2' a b H Hl.
  assert (Hlen : length l1 = length l1').
  { apply (f_equal (@length nat)) in H. rewrite !app_length in H. simpl in H. lia. }
  assert (E1 : nth_error (l1 ++ a :: l2) (length l1) = Some a).
  { rewrite nth_error_app2 by lia. rewrite Nat.sub_diag. reflexivity. }
  assert (E2 : nth_error (l1' ++ b :: l2') (length l1) = Some b).
  { rewrite Hlen. rewrite nth_error_app2 by lia. rewrite Nat.sub_diag. reflexivity. }
  rewrite H in E1. congruence.
Qed.

Lemma nth_error_ext_eq : forall A (l l' : list A), length l = length l' ->
  (forall i, i < length l -> nth_error l i = nth_error l' i) -> l = l'.
Proof.
  intros A l. induction l as [|x l IH]; intros [|y l'] Hl H; simpl in *; try discriminate; [reflexivity|].
  f_equal.
  - specialize (H 0 (Nat.lt_0_succ _)). simpl in H. congruence.
  - apply IH; [lia|]. intros i Hi. apply (H (S i)). lia.
Qed.

(* a walk that avoids a non-dominator *)
Lemma not_dom_walk : forall g r a b, In b (reach g r) -> a <> b -> ~ dominates g r a b ->
  exists l, walk g r l b /\ ~ In a (r :: l).
Proof.
  intros g r a b Hb Hne Hnd.
  destruct (in_dec Nat.eq_dec b (reach (del g a) r)) as [Hin | Hnin].
  - apply reach_spec in Hin. destruct Hin as [l Hw]. apply walk_del in Hw. destruct Hw as [Hw [Hnl Hs]].
    exists l. split; [exact Hw|]. intros [He | Hin]; [|contradiction].
    destruct Hs as [Hs | Hs]; [|congruence]. subst l. inversion Hw; subst. congruence.
  - exfalso. apply Hnd. split; [exact Hb | right; exact Hnin].
Qed.

Lemma dominates_dec : forall g r a b, {dominates g r a b} + {~ dominates g r a b}.
Proof.
  intros g r a b. destruct (domb (reach g r) (avoid g r) a b) eqn:E.
  - left. apply domb_spec. exact E.
  - right. intros H. apply domb_spec in H. congruence.
Qed.

Section CHK.
  Variables (g : graph) (r : nat).
  Hypothesis Hwf : wf g.
  Hypothesis Hr : r < length g.
  Let n := length g.
  Let R := reach g r.

  Variables (rpo pn : list nat) (insl : list (list nat)).
  Hypothesis Hnd : NoDup rpo.
  Hypothesis Hset : forall u, In u rpo <-> In u R.
  Hypothesis Hhead : exists t, rpo = r :: t.
  Hypothesis Hpar : forall u, In u rpo -> u <> r -> exists p, before rpo p u /\ In u (succs g p).
  Hypothesis Hpnl : length pn = n.
  Hypothesis Hpn : forall l1 u l2, rpo = l1 ++ u :: l2 -> nth_error pn u = Some (length l2).
  Hypothesis Hins : forall b, b < n -> nth_error insl b = Some (ins_spec g b).

  Definition num (u : nat) : nat := nth u pn 0.

  Lemma rpo_lt : forall u, In u rpo -> u < n.
  Proof. intros u Hu. apply (reach_lt g r); [exact Hwf | exact Hr | apply Hset; exact Hu]. Qed.

  Lemma num_split : forall l1 u l2, rpo = l1 ++ u :: l2 -> num u = length l2.
  Proof. intros l1 u l2 H. unfold num. apply nth_error_nth. eapply Hpn. exact H. Qed.

  Lemma get_num : forall u, In u rpo -> get pn u = Ok (num u).
  Proof. intros u Hu. apply get_ok. unfold num. apply nth_error_nth'. rewrite Hpnl. apply rpo_lt. exact Hu. Qed.

  Lemma num_before : forall p u, before rpo p u -> num u < num p.
  Proof.
    intros p u [l1 [l2 [l3 H]]]. rewrite (num_split l1 p (l2 ++ u :: l3) H).
    assert (H' : rpo = (l1 ++ p :: l2) ++ u :: l3) by (rewrite H, <- app_assoc; reflexivity).
    rewrite (num_split _ u l3 H'). rewrite app_length. simpl. lia.
  Qed.

  Lemma num_root_max : forall u, In u rpo -> num u <= num r.
  Proof.
    intros u Hu. destruct Hhead as [t Ht]. rewrite (num_split [] r t Ht).
    rewrite Ht in Hu. destruct Hu as [Hu | Hu].
    - subst u. rewrite (num_split [] r t Ht). lia.
    - destruct (in_split _ _ Hu) as [l1 [l2 E]].
      assert (H' : rpo = (r :: l1) ++ u :: l2) by (rewrite Ht, E; reflexivity).
      rewrite (num_split _ u l2 H'). rewrite E, app_length. simpl. lia.
  Qed.

  Lemma num_root_lt : num r < n.
  Proof.
    destruct Hhead as [t Ht]. rewrite (num_split [] r t Ht).
    assert (length rpo <= length (seq 0 n)).
    { apply NoDup_incl_length; [exact Hnd|]. intros u Hu. apply in_seq. pose proof (rpo_lt u Hu). lia. }
    rewrite seq_length, Ht in H. simpl in H. lia.
  Qed.

  Lemma num_inj : forall a b, In a rpo -> In b rpo -> num a = num b -> a = b.
  Proof.
    intros a b Ha Hb He. destruct (in_split _ _ Ha) as [l1 [l2 E1]]. destruct (in_split _ _ Hb) as [l1' [l2' E2]].
    rewrite (num_split _ _ _ E1), (num_split _ _ _ E2) in He.
    apply (app_mid_eq l1 l1' l2 l2'); [congruence | exact He].
  Qed.

  (* a node with a larger number comes earlier in the sweep *)
  Lemma num_earlier : forall pre b suf p, rpo = pre ++ b :: suf -> In p rpo -> num b < num p -> In p pre.
  Proof.
    intros pre b suf p H Hp Hlt. rewrite H in Hp. apply in_app_or in Hp. destruct Hp as [Hp | [Hp | Hp]].
    - exact Hp.
    - subst p. lia.
    - exfalso. destruct (in_split _ _ Hp) as [s1 [s2 E]].
      assert (Hb : before rpo b p) by (exists pre, s1, s2; rewrite H, E; reflexivity).
      pose proof (num_before _ _ Hb). lia.
  Qed.

  (* ---------- the invariant ---------- *)
  Record Inv (idom : list (option nat)) : Prop := {
    I_len : length idom = n;
    I_root : link idom r r;
    I_reach : forall b, processed idom b -> In b rpo;
    I_up : forall b d, b <> r -> link idom b d -> processed idom d /\ num b < num d;
    I_G : forall c a, processed idom c -> chain idom c a ->
            exists l, walk g a l c /\ forall v, In v l -> num v <= num a;
    I_dom : forall c a, processed idom c -> dominates g r a c -> chain idom c a }.

  (* numbers increase strictly along a chain (needs only the tree part of the invariant) *)
  Lemma chain_mono : forall idom,
    link idom r r -> (forall b d, b <> r -> link idom b d -> processed idom d /\ num b < num d) ->
    forall c a, chain idom c a -> processed idom c -> processed idom a /\ (a = c \/ num c < num a).
  Proof.
    intros idom Hroot Hup c a H. induction H; intros Hp.
    - split; [exact Hp | left; reflexivity].
    - destruct (Nat.eq_dec b r) as [He | Hne].
      + subst b. unfold link in *. assert (p = r) by congruence. subst p.
        destruct (IHchain Hp) as [Hpa Hor]. split; [exact Hpa | exact Hor].
      + destruct (Hup b p Hne H) as [Hpp Hlt]. destruct (IHchain Hpp) as [Hpa Hor].
        split; [exact Hpa|]. right. destruct Hor as [Hor | Hor]; [subst; exact Hlt | lia].
  Qed.

  Lemma chain_inv : forall idom c a, chain idom c a -> a = c \/ exists d, link idom c d /\ chain idom d a.
  Proof. intros idom c a H. inversion H; subst; [left; reflexivity | right; exists p; split; assumption]. Qed.

  (* ---------- intersect: total, and it is the nearest common ancestor ---------- *)
  Lemma intersect_nca : forall idom, Inv idom -> forall fuel b1 b2,
    processed idom b1 -> processed idom b2 ->
    (num r - num b1) + (num r - num b2) <= fuel ->
    exists x, intersect fuel idom pn b1 b2 = Ok x /\ chain idom b1 x /\ chain idom b2 x /\
              forall a, chain idom b1 a -> chain idom b2 a -> chain idom x a.
  Proof.
    intros idom HI. induction fuel as [|f IH]; intros b1 b2 Hp1 Hp2 Hm.
    - (* no fuel: the two fingers already coincide *)
      pose proof (num_root_max b1 (I_reach _ HI _ Hp1)). pose proof (num_root_max b2 (I_reach _ HI _ Hp2)).
      assert (b1 = b2).
      { apply num_inj; [apply (I_reach _ HI); exact Hp1 | apply (I_reach _ HI); exact Hp2 | lia]. }
      subst b2. simpl. rewrite Nat.eqb_refl. exists b1. repeat split; try constructor. intros a Ha _. exact Ha.
    - simpl. destruct (b1 =? b2) eqn:E.
      + apply Nat.eqb_eq in E. subst b2. exists b1. repeat split; try constructor. intros a Ha _. exact Ha.
      + apply Nat.eqb_neq in E.
        pose proof (I_reach _ HI _ Hp1) as Hr1. pose proof (I_reach _ HI _ Hp2) as Hr2.
        rewrite (get_num b1 Hr1), (get_num b2 Hr2). simpl.
        pose proof (num_root_max b1 Hr1) as Hm1. pose proof (num_root_max b2 Hr2) as Hm2.
        destruct (num b1 <? num b2) eqn:E1.
        * apply Nat.ltb_lt in E1.
          assert (Hne : b1 <> r) by (intros He; subst b1; lia).
          destruct Hp1 as [d Hd]. destruct (I_up _ HI b1 d Hne Hd) as [Hpd Hlt].
          assert (Eg : get idom b1 = Ok (Some d)) by (apply get_ok; exact Hd). rewrite Eg. simpl.
          pose proof (num_root_max d (I_reach _ HI _ Hpd)) as Hmd.
          destruct (IH d b2 Hpd Hp2) as [x [Ex [H1 [H2 Hn]]]]; [lia|].
          exists x. split; [exact Ex|]. split; [eapply chain_step; eassumption|]. split; [exact H2|].
          intros a Ha1 Ha2. destruct (chain_inv _ _ _ Ha1) as [He | [d' [Hd' Hc]]].
          -- subst a. destruct (chain_mono idom (I_root _ HI) (I_up _ HI) _ _ Ha2 Hp2) as [_ [He | Hlt2]]; [congruence | lia].
          -- unfold link in *. assert (d' = d) by congruence. subst d'. apply Hn; assumption.
        * apply Nat.ltb_ge in E1. destruct (num b2 <? num b1) eqn:E2.
          -- apply Nat.ltb_lt in E2.
             assert (Hne : b2 <> r) by (intros He; subst b2; lia).
             destruct Hp2 as [d Hd]. destruct (I_up _ HI b2 d Hne Hd) as [Hpd Hlt].
             assert (Eg : get idom b2 = Ok (Some d)) by (apply get_ok; exact Hd). rewrite Eg. simpl.
             pose proof (num_root_max d (I_reach _ HI _ Hpd)) as Hmd.
             destruct (IH b1 d Hp1 Hpd) as [x [Ex [H1 [H2 Hn]]]]; [lia|].
             exists x. split; [exact Ex|]. split; [exact H1|]. split; [eapply chain_step; eassumption|].
             intros a Ha1 Ha2. destruct (chain_inv _ _ _ Ha2) as [He | [d' [Hd' Hc]]].
             ++ subst a. destruct (chain_mono idom (I_root _ HI) (I_up _ HI) _ _ Ha1 Hp1) as [_ [He | Hlt2]]; [congruence | lia].
             ++ unfold link in *. assert (d' = d) by congruence. subst d'. apply Hn; assumption.
          -- apply Nat.ltb_ge in E2. exfalso. apply E. apply num_inj; [exact Hr1 | exact Hr2 | lia].
  Qed.

  (* ---------- new_idom: total; its result is the nearest common ancestor of the processed preds ---------- *)
  Lemma new_idom_fold_nca : forall idom, Inv idom -> forall fuel, 2 * num r <= fuel ->
    forall ps cur, (forall p, In p ps -> p < n) -> (forall c, cur = Some c -> processed idom c) ->
    exists ni,
      fold_res (fun cur p =>
              rdo ip <- get idom p;
              match ip with
              | None => Ok cur
              | Some _ => match cur with
                          | None => Ok (Some p)
                          | Some c => rdo x <- intersect fuel idom pn p c; Ok (Some x)
                          end
              end) ps cur = Ok ni /\
      (forall x, ni = Some x -> processed idom x) /\
      (forall a, (forall c, cur = Some c -> chain idom c a) ->
                 (forall p, In p ps -> processed idom p -> chain idom p a) ->
                 forall x, ni = Some x -> chain idom x a).
  Proof.
    intros idom HI fuel Hf. induction ps as [|p ps IH]; intros cur Hlt Hcur; simpl.
    - exists cur. split; [reflexivity|]. split; [exact Hcur|]. intros a Hc _ x Hx. apply Hc. exact Hx.
    - assert (Hp : p < n) by (apply Hlt; left; reflexivity).
      destruct (get_lt _ idom p) as [ip Eg]; [rewrite (I_len _ HI); exact Hp|]. rewrite Eg. simpl.
      apply get_ok in Eg. destruct ip as [q|].
      + assert (Hpp : processed idom p) by (exists q; exact Eg).
        destruct cur as [c|].
        * pose proof (Hcur c eq_refl) as Hpc.
          pose proof (num_root_max p (I_reach _ HI _ Hpp)). pose proof (num_root_max c (I_reach _ HI _ Hpc)).
          destruct (intersect_nca idom HI fuel p c Hpp Hpc) as [x [Ex [H1 [H2 Hn]]]]; [lia|].
          rewrite Ex. simpl.
          destruct (chain_mono idom (I_root _ HI) (I_up _ HI) _ _ H1 Hpp) as [Hpx _].
          destruct (IH (Some x)) as [ni [E [Hproc Hnca]]].
          { intros p' Hp'. apply Hlt. right. exact Hp'. }
          { intros c' Hc'. inversion Hc'; subst. exact Hpx. }
          exists ni. split; [exact E|]. split; [exact Hproc|].
          intros a Hc Hps y Hy. apply (Hnca a); [| |exact Hy].
          -- intros c' Hc'. inversion Hc'; subst c'. apply Hn; [apply Hps; [left; reflexivity | exact Hpp] | apply Hc; reflexivity].
          -- intros p' Hp' Hpr. apply Hps; [right; exact Hp' | exact Hpr].
        * destruct (IH (Some p)) as [ni [E [Hproc Hnca]]].
          { intros p' Hp'. apply Hlt. right. exact Hp'. }
          { intros c' Hc'. inversion Hc'; subst. exact Hpp. }
          exists ni. split; [exact E|]. split; [exact Hproc|].
          intros a Hc Hps y Hy. apply (Hnca a); [| |exact Hy].
          -- intros c' Hc'. inversion Hc'; subst c'. apply Hps; [left; reflexivity | exact Hpp].
          -- intros p' Hp' Hpr. apply Hps; [right; exact Hp' | exact Hpr].
      + destruct (IH cur) as [ni [E [Hproc Hnca]]].
        { intros p' Hp'. apply Hlt. right. exact Hp'. } { exact Hcur. }
        exists ni. split; [exact E|]. split; [exact Hproc|].
        intros a Hc Hps y Hy. apply (Hnca a); [exact Hc | | exact Hy].
        intros p' Hp' Hpr. apply Hps; [right; exact Hp' | exact Hpr].
  Qed.

  Lemma ins_lt : forall b p, In p (ins_spec g b) -> p < n.
  Proof. intros b p H. apply ins_spec_In in H. eapply succs_lt. exact H. Qed.

  (* what the sweep computes at node b, given a processed predecessor with a larger number *)
  Lemma new_idom_spec : forall idom, Inv idom -> forall fuel, 2 * num r <= fuel ->
    forall b p0, In b (succs g p0) -> processed idom p0 -> num b < num p0 ->
    exists x, new_idom fuel idom pn (ins_spec g b) = Ok (Some x) /\
              processed idom x /\ num b < num x /\
              (forall p, In b (succs g p) -> processed idom p -> chain idom p x) /\
              (forall a, (forall p, In b (succs g p) -> processed idom p -> chain idom p a) -> chain idom x a).
  Proof.
    intros idom HI fuel Hf b p0 He0 Hp0 Hlt0.
    destruct (new_idom_fold_nca idom HI fuel Hf (ins_spec g b) None) as [ni [E [Hproc Hnca]]].
    { intros p Hp. eapply ins_lt. exact Hp. } { intros c Hc. discriminate. }
    assert (Hch : forall p, In b (succs g p) -> processed idom p -> exists d, ni = Some d /\ chain idom p d).
    { intros p Hp Hpp. apply (new_idom_chain fuel idom pn (ins_spec g b) ni E p); [apply ins_spec_In; exact Hp | exact Hpp]. }
    destruct (Hch p0 He0 Hp0) as [x [Hx Hc0]]. subst ni. exists x. split; [exact E|].
    split; [apply Hproc; reflexivity|]. split.
    - destruct (chain_mono idom (I_root _ HI) (I_up _ HI) _ _ Hc0 Hp0) as [_ [Hx | Hx]]; [subst; exact Hlt0 | lia].
    - split.
      + intros p Hp Hpp. destruct (Hch p Hp Hpp) as [d [Hd Hc]]. inversion Hd; subst d. exact Hc.
      + intros a Ha. apply (Hnca a); [intros c Hc; discriminate | | reflexivity].
        intros p Hp Hpp. apply Ha; [apply ins_spec_In; exact Hp | exact Hpp].
  Qed.

  (* ---------- one update idom[b] := x preserves the invariant ---------- *)
  Lemma update_inv : forall idom idom' b x,
    Inv idom -> In b rpo -> b <> r -> set idom b (Some x) = Ok idom' ->
    processed idom x -> num b < num x ->
    (exists p0, In b (succs g p0) /\ processed idom p0) ->
    (forall p, In b (succs g p) -> processed idom p -> chain idom p x) ->
    (forall a, (forall p, In b (succs g p) -> processed idom p -> chain idom p a) -> chain idom x a) ->
    Inv idom'.
  Proof.
    intros idom idom' b x HI Hb Hbr Hset' Hpx Hbx [p0 [He0 Hp0]] Hx1 Hx2.
    destruct (set_ok _ _ _ _ _ Hset') as [Hl' [Hn' Ho']].
    assert (Hlb : link idom' b x) by exact Hn'.
    assert (Hlo : forall c d, c <> b -> (link idom' c d <-> link idom c d)).
    { intros c d Hc. unfold link. rewrite Ho' by exact Hc. tauto. }
    assert (Hp1 : forall c, processed idom c -> processed idom' c).
    { intros c [d Hd]. destruct (Nat.eq_dec c b) as [He | Hne]; [subst c; exists x; exact Hn'|].
      exists d. apply Hlo; assumption. }
    assert (Hp2 : forall c, processed idom' c -> c = b \/ processed idom c).
    { intros c [d Hd]. destruct (Nat.eq_dec c b) as [He | Hne]; [left; exact He|].
      right. exists d. apply Hlo; assumption. }
    assert (Hroot' : link idom' r r) by (apply Hlo; [congruence | apply (I_root _ HI)]).
    assert (Hup' : forall c d, c <> r -> link idom' c d -> processed idom' d /\ num c < num d).
    { intros c d Hc Hd. destruct (Nat.eq_dec c b) as [He | Hne].
      - subst c. unfold link in *. assert (d = x) by congruence. subst d. split; [apply Hp1; exact Hpx | exact Hbx].
      - apply Hlo in Hd; [|exact Hne]. destruct (I_up _ HI c d Hc Hd) as [H1 H2]. split; [apply Hp1; exact H1 | exact H2]. }
    (* chains that start above b are untouched *)
    assert (Hlift : forall c a, chain idom c a -> num b < num c -> chain idom' c a).
    { intros c a H. induction H; intros Hlt; [constructor|].
      assert (Hcb : b0 <> b) by (intros He; subst b0; lia).
      apply chain_step with (p := p); [apply Hlo; assumption|].
      apply IHchain. destruct (Nat.eq_dec b0 r) as [He | Hne].
      - subst b0. pose proof (I_root _ HI) as Hrr. unfold link in *. assert (p = r) by congruence. subst p. exact Hlt.
      - destruct (I_up _ HI b0 p Hne H) as [_ H2]. lia. }
    (* an old chain either survives or passes through b *)
    assert (Hsplit : forall c a, chain idom c a -> chain idom' c a \/ (chain idom' c b /\ chain idom b a /\ a <> b)).
    { intros c a H. induction H.
      - left. constructor.
      - destruct (Nat.eq_dec b0 b) as [He | Hne].
        + subst b0. destruct (Nat.eq_dec a b) as [Ha | Ha].
          * subst a. left. constructor.
          * right. split; [constructor|]. split; [eapply chain_step; eassumption | exact Ha].
        + assert (Hl : link idom' b0 p) by (apply Hlo; assumption).
          destruct IHchain as [IH | [IH1 [IH2 IH3]]].
          * left. eapply chain_step; eassumption.
          * right. split; [eapply chain_step; eassumption|]. split; assumption. }
    (* the path invariant *)
    assert (HG' : forall c a, processed idom' c -> chain idom' c a ->
                   exists l, walk g a l c /\ forall v, In v l -> num v <= num a).
    { intros c a Hpc Hc. revert Hpc. induction Hc; intros Hpc.
      - exists []. split; [constructor | intros v []].
      - destruct (Nat.eq_dec b0 r) as [He | Hne].
        + subst b0. unfold link in *. assert (p = r) by congruence. subst p. apply IHHc. exact Hpc.
        + destruct (Hup' b0 p Hne H) as [Hpp Hlt].
          destruct (IHHc Hpp) as [l1 [Hw1 Hn1]].
          destruct (chain_mono idom' Hroot' Hup' _ _ Hc Hpp) as [_ Hor].
          assert (Hle : num p <= num a) by (destruct Hor as [Hor | Hor]; [subst; lia | lia]).
          assert (Hw2 : exists l2, walk g p l2 b0 /\ forall v, In v l2 -> num v <= num p).
          { destruct (Nat.eq_dec b0 b) as [Heb | Hneb].
            - subst b0. unfold link in *. assert (p = x) by congruence. subst p.
              destruct (I_G _ HI p0 x Hp0 (Hx1 p0 He0 Hp0)) as [l [Hw Hn]].
              exists (l ++ [b]). split; [eapply walk_snoc; eassumption|].
              intros v Hv. apply in_app_or in Hv. destruct Hv as [Hv | [Hv | []]]; [apply Hn; exact Hv | subst v; lia].
            - apply Hlo in H; [|exact Hneb].
              destruct (Hp2 b0 Hpc) as [Hx | Hpo]; [congruence|].
              apply (I_G _ HI b0 p Hpo). eapply chain_step; [exact H | constructor]. }
          destruct Hw2 as [l2 [Hw2 Hn2]]. exists (l1 ++ l2). split; [eapply walk_app; eassumption|].
          intros v Hv. apply in_app_or in Hv. destruct Hv as [Hv | Hv]; [apply Hn1; exact Hv|].
          specialize (Hn2 v Hv). lia. }
    (* the dominators of b are on its new chain *)
    assert (HbR : In b R) by (apply Hset; exact Hb).
    assert (Hbdom : forall a, dominates g r a b -> chain idom' b a).
    { intros a Ha. destruct (Nat.eq_dec a b) as [He | Hne]; [subst a; constructor|].
      apply chain_step with (p := x); [exact Hlb|]. apply Hlift; [|exact Hbx].
      apply Hx2. intros p Hp Hpp. apply (I_dom _ HI); [exact Hpp|].
      apply (sdom_pred g r a b p); [split; assumption | exact Hp |]. apply Hset. apply (I_reach _ HI). exact Hpp. }
    constructor.
    - rewrite Hl'. apply (I_len _ HI).
    - exact Hroot'.
    - intros c Hc. destruct (Hp2 c Hc) as [He | Hpo]; [subst c; exact Hb | apply (I_reach _ HI); exact Hpo].
    - exact Hup'.
    - exact HG'.
    - intros c a Hpc Ha. destruct (Nat.eq_dec c b) as [He | Hne]; [subst c; apply Hbdom; exact Ha|].
      destruct (Hp2 c Hpc) as [Hx | Hpo]; [congruence|].
      destruct (Hsplit c a (I_dom _ HI c a Hpo Ha)) as [H | [Hcb [Hba Hab]]]; [exact H|].
      (* a is above b on the old chain of c: then a dominates b *)
      assert (Hpb : processed idom b).
      { destruct (chain_inv _ _ _ Hba) as [Hx | [d [Hd _]]]; [congruence | exists d; exact Hd]. }
      assert (Hlt : num b < num a).
      { destruct (chain_mono idom (I_root _ HI) (I_up _ HI) _ _ Hba Hpb) as [_ [Hx | Hx]]; [congruence | exact Hx]. }
      destruct (HG' c b Hpc Hcb) as [l2 [Hw2 Hn2]].
      destruct (dominates_dec g r a b) as [Hd | Hnd'].
      + eapply chain_trans; [exact Hcb | apply Hbdom; exact Hd].
      + exfalso. destruct (not_dom_walk g r a b HbR Hab Hnd') as [l1 [Hw1 Hav]].
        apply dominates_iff_paths in Ha. destruct Ha as [_ Hall].
        specialize (Hall (l1 ++ l2) (walk_app _ _ _ _ _ _ Hw1 Hw2)).
        destruct Hall as [Hx | Hx]; [apply Hav; left; exact Hx|].
        apply in_app_or in Hx. destruct Hx as [Hx | Hx]; [apply Hav; right; exact Hx|].
        specialize (Hn2 a Hx). lia.
  Qed.

  (* ================= termination of the outer loop =================
     Three more invariants of the in-place iteration:
       MInv  the stored idom[c] is at or below the nearest common ancestor of the processed
             predecessors of c, so a re-computation can only move idom[c] UP its own chain;
       TInv  every node on the chain of c is also on the chain of each processed predecessor of c
             that has a larger number, except for nodes already visited in the current sweep
             while c itself is still to be visited (V = the nodes visited so far in this sweep);
       PInv  the processed nodes are closed under "comes earlier in the sweep".
     With them every change of the array strictly increases
       potential = sum over processed nodes of (1 + poNum[idom]),
     which is at most V*V: the loop stops after at most V*V+1 sweeps. *)
  Definition MInv (idom : list (option nat)) : Prop :=
    forall c d, c <> r -> link idom c d ->
      forall z, (forall p, In c (succs g p) -> processed idom p -> chain idom p z) -> chain idom d z.
  Definition TInv (idom : list (option nat)) (V : list nat) : Prop :=
    forall c a p, c <> r -> processed idom c -> chain idom c a -> a <> c ->
      In c (succs g p) -> processed idom p -> num c < num p ->
      chain idom p a \/ (In a V /\ ~ In c V).
  Definition PInv (idom : list (option nat)) : Prop :=
    forall c u, processed idom c -> In u rpo -> num c < num u -> processed idom u.

  Lemma chain_linear : forall idom c u v, chain idom c u -> chain idom c v -> chain idom u v \/ chain idom v u.
  Proof.
    intros idom c u v H. revert v. induction H; intros v Hv; [left; exact Hv|].
    destruct (chain_inv _ _ _ Hv) as [He | [d [Hd Hc]]].
    - subst v. right. eapply chain_step; eassumption.
    - unfold link in *. assert (d = p) by congruence. subst d. apply IHchain. exact Hc.
  Qed.

  Lemma split_notin : forall pre b suf, rpo = pre ++ b :: suf -> ~ In b pre.
  Proof.
    intros pre b suf H Hin. pose proof Hnd as Hn. rewrite H in Hn. apply NoDup_remove_2 in Hn.
    apply Hn. apply in_or_app. left. exact Hin.
  Qed.

  Lemma split_suf_notin : forall pre b suf c, rpo = pre ++ b :: suf -> In c rpo -> num c < num b -> ~ In c (pre ++ [b]).
  Proof.
    intros pre b suf c H Hc Hlt Hin. apply in_app_or in Hin. destruct Hin as [Hin | [Hin | []]]; [|subst c; lia].
    destruct (in_split _ _ Hin) as [l1 [l2 E]].
    assert (Hb : before rpo c b) by (exists l1, l2, suf; rewrite H, E, <- app_assoc; reflexivity).
    pose proof (num_before _ _ Hb). lia.
  Qed.

  Section Update.
    Variables (idom idom' : list (option nat)) (b x p0 : nat) (pre suf : list nat).
    Hypothesis HI : Inv idom.
    Hypothesis Hsplit : rpo = pre ++ b :: suf.
    Hypothesis Hbr : b <> r.
    Hypothesis Hset' : set idom b (Some x) = Ok idom'.
    Hypothesis Hpx : processed idom x.
    Hypothesis Hbx : num b < num x.
    Hypothesis He0 : In b (succs g p0).
    Hypothesis Hp0 : processed idom p0.
    Hypothesis Hlt0 : num b < num p0.
    Hypothesis Hx1 : forall p, In b (succs g p) -> processed idom p -> chain idom p x.
    Hypothesis Hx2 : forall a, (forall p, In b (succs g p) -> processed idom p -> chain idom p a) -> chain idom x a.
    Hypothesis Hpre : forall u, In u pre -> processed idom u.
    Hypothesis HM : MInv idom.
    Hypothesis HT : TInv idom pre.
    Hypothesis HP : PInv idom.

    Let Hb : In b rpo.
    Proof. rewrite Hsplit. apply in_or_app. right. left. reflexivity. Qed.
    Let HI' : Inv idom'.
    Proof. exact (update_inv idom idom' b x HI Hb Hbr Hset' Hpx Hbx (ex_intro _ p0 (conj He0 Hp0)) Hx1 Hx2). Qed.

    Lemma U_lb : link idom' b x.
    Proof. exact (proj1 (proj2 (set_ok _ _ _ _ _ Hset'))). Qed.
    Lemma U_lo : forall c d, c <> b -> (link idom' c d <-> link idom c d).
    Proof. intros c d Hc. unfold link. rewrite (proj2 (proj2 (set_ok _ _ _ _ _ Hset'))) by exact Hc. tauto. Qed.
    Lemma U_p1 : forall c, processed idom c -> processed idom' c.
    Proof.
      intros c [d Hd]. destruct (Nat.eq_dec c b) as [He | Hne]; [subst c; exists x; exact U_lb|].
      exists d. apply U_lo; assumption.
    Qed.
    Lemma U_p2 : forall c, processed idom' c -> c = b \/ processed idom c.
    Proof.
      intros c [d Hd]. destruct (Nat.eq_dec c b) as [He | Hne]; [left; exact He|].
      right. exists d. apply U_lo; assumption.
    Qed.

    Lemma U_lift : forall c a, chain idom c a -> num b < num c -> chain idom' c a.
    Proof.
      intros c a H. induction H; intros Hlt; [constructor|].
      assert (Hcb : b0 <> b) by (intros He; subst b0; lia).
      apply chain_step with (p := p); [apply U_lo; assumption|].
      apply IHchain. destruct (Nat.eq_dec b0 r) as [He | Hne].
      - subst b0. pose proof (I_root _ HI) as Hrr. unfold link in *. assert (p = r) by congruence. subst p. exact Hlt.
      - destruct (I_up _ HI b0 p Hne H) as [_ H2]. lia.
    Qed.

    Lemma U_split : forall c a, chain idom c a -> chain idom' c a \/ (chain idom' c b /\ chain idom b a /\ a <> b).
    Proof.
      intros c a H. induction H.
      - left. constructor.
      - destruct (Nat.eq_dec b0 b) as [He | Hne].
        + subst b0. destruct (Nat.eq_dec a b) as [Ha | Ha].
          * subst a. left. constructor.
          * right. split; [constructor|]. split; [eapply chain_step; eassumption | exact Ha].
        + assert (Hl : link idom' b0 p) by (apply U_lo; assumption).
          destruct IHchain as [IH | [IH1 [IH2 IH3]]].
          * left. eapply chain_step; eassumption.
          * right. split; [eapply chain_step; eassumption|]. split; assumption.
    Qed.

    (* re-computation moves idom[b] up its own chain *)
    Lemma U_old : forall d, link idom b d -> chain idom d x.
    Proof. intros d Hd. apply (HM b d Hbr Hd). exact Hx1. Qed.

    (* the new chains are contained in the old ones *)
    Lemma U_shrink : forall p z, chain idom' p z -> (p <> b \/ processed idom b) -> chain idom p z.
    Proof.
      intros p z H. induction H; intros Hor; [constructor|].
      destruct (Nat.eq_dec b0 b) as [He | Hne].
      - subst b0. destruct Hor as [Hor | [d Hd]]; [congruence|].
        pose proof U_lb as Hl. unfold link in H, Hl. assert (p = x) by congruence. subst p.
        assert (Hxz : chain idom x a) by (apply IHchain; left; intros He; subst x; lia).
        eapply chain_step; [exact Hd|]. eapply chain_trans; [apply U_old; exact Hd | exact Hxz].
      - apply U_lo in H; [|exact Hne]. eapply chain_step; [exact H|]. apply IHchain.
        destruct (Nat.eq_dec p b) as [Hpb | Hpb]; [|left; exact Hpb]. right. subst p.
        destruct (Nat.eq_dec b0 r) as [Hr0 | Hr0].
        + subst b0. pose proof (I_root _ HI) as Hrr. unfold link in *. congruence.
        + exact (proj1 (I_up _ HI b0 b Hr0 H)).
    Qed.

    (* a chain that used to pass through b now continues at x *)
    Lemma U_through : forall p, chain idom p b -> forall z, chain idom' p z -> num z <= num b \/ chain idom x z.
    Proof.
      assert (Hbcase : forall z, chain idom' b z -> num z <= num b \/ chain idom x z).
      { intros z Hz. destruct (chain_inv _ _ _ Hz) as [He | [q [Hq Hc]]]; [subst z; left; lia|].
        pose proof U_lb as Hl. unfold link in Hq, Hl. assert (q = x) by congruence. subst q.
        right. apply U_shrink; [exact Hc | left; intros He; subst x; lia]. }
      intros p H. remember b as b' eqn:Eb in H. induction H; intros z Hz.
      - subst b0. apply Hbcase. exact Hz.
      - destruct (Nat.eq_dec b0 b) as [He | Hne]; [subst b0; apply Hbcase; exact Hz|].
        destruct (chain_inv _ _ _ Hz) as [Hzz | [q [Hq Hc]]].
        + subst z. left.
          assert (Hc0 : chain idom b0 b) by (subst a; eapply chain_step; eassumption).
          destruct (chain_mono idom (I_root _ HI) (I_up _ HI) _ _ Hc0 (ex_intro _ p H)) as [_ [Hx | Hx]]; [congruence | lia].
        + apply U_lo in Hq; [|exact Hne]. unfold link in *. assert (q = p) by congruence. subst q.
          apply IHchain; [exact Eb | exact Hc].
    Qed.

    Lemma U_above : forall z, chain idom b z -> z <> b -> processed idom b /\ num b < num z.
    Proof.
      intros z Hz Hne. destruct (chain_inv _ _ _ Hz) as [He | [d [Hd _]]]; [congruence|].
      assert (Hpb : processed idom b) by (exists d; exact Hd). split; [exact Hpb|].
      destruct (chain_mono idom (I_root _ HI) (I_up _ HI) _ _ Hz Hpb) as [_ [Hx | Hx]]; [congruence | exact Hx].
    Qed.

    Lemma U_bx : processed idom b -> chain idom b x.
    Proof. intros [d Hd]. eapply chain_step; [exact Hd | apply U_old; exact Hd]. Qed.

    (* for z above b on the old chain: either z is kept (it is on the chain of x) or it is strictly between b and x *)
    Lemma U_kept_or_jumped : forall z, chain idom b z -> z <> b ->
      chain idom' b z \/ (chain idom z x /\ z <> x /\ In z pre).
    Proof.
      intros z Hz Hne. destruct (U_above z Hz Hne) as [Hpb Hlt].
      destruct (chain_linear idom b x z (U_bx Hpb) Hz) as [Hxz | Hzx].
      - left. eapply chain_step; [exact U_lb | apply U_lift; [exact Hxz | exact Hbx]].
      - destruct (Nat.eq_dec z x) as [He | Hzx'].
        + subst z. left. eapply chain_step; [exact U_lb | constructor].
        + right. split; [exact Hzx|]. split; [exact Hzx'|].
          destruct (chain_mono idom (I_root _ HI) (I_up _ HI) _ _ Hz Hpb) as [Hpz _].
          eapply num_earlier; [exact Hsplit | apply (I_reach _ HI); exact Hpz | exact Hlt].
    Qed.

    Lemma U_jumped_not_kept : forall z, chain idom z x -> z <> x -> processed idom z -> ~ chain idom x z.
    Proof.
      intros z Hzx Hne Hpz Hxz.
      destruct (chain_mono idom (I_root _ HI) (I_up _ HI) _ _ Hzx Hpz) as [_ [H1 | H1]]; [congruence|].
      destruct (chain_mono idom (I_root _ HI) (I_up _ HI) _ _ Hxz Hpx) as [_ [H2 | H2]]; [congruence | lia].
    Qed.

    (* a processed predecessor with a larger number, for any processed node *)
    Lemma higher_pred : forall c, processed idom c -> c <> r ->
      exists p, In c (succs g p) /\ processed idom p /\ num c < num p.
    Proof.
      intros c Hc Hne. destruct (Hpar c (I_reach _ HI c Hc) Hne) as [p [Hbef He]].
      exists p. split; [exact He|]. pose proof (num_before _ _ Hbef) as Hlt. split; [|exact Hlt].
      apply (HP c p Hc); [|exact Hlt]. destruct Hbef as [l1 [l2 [l3 E]]]. rewrite E. apply in_or_app. right. left. reflexivity.
    Qed.

    Lemma U_M : MInv idom'.
    Proof.
      intros c d Hcr Hd z Hz. destruct (Nat.eq_dec c b) as [He | Hne].
      - subst c. pose proof U_lb as Hl. unfold link in Hd, Hl. assert (d = x) by congruence. subst d.
        assert (Hz0 : chain idom p0 z).
        { apply U_shrink; [apply Hz; [exact He0 | apply U_p1; exact Hp0] | left; intros He; subst p0; lia]. }
        destruct (chain_mono idom (I_root _ HI) (I_up _ HI) _ _ Hz0 Hp0) as [_ Hor].
        assert (Hzb : z <> b) by (intros He; subst z; destruct Hor as [Hor | Hor]; [subst p0; lia | lia]).
        destruct (in_dec Nat.eq_dec b (succs g b)) as [Hself | Hnoself].
        + (* b is its own predecessor: its new chain already answers *)
          assert (Hbz : chain idom' b z) by (apply Hz; [exact Hself | exists x; exact U_lb]).
          destruct (chain_inv _ _ _ Hbz) as [He | [q [Hq Hc]]]; [congruence|].
          unfold link in Hq. assert (q = x) by congruence. subst q. exact Hc.
        + apply U_lift; [|exact Hbx]. apply Hx2. intros p Hp Hpp.
          apply U_shrink; [apply Hz; [exact Hp | apply U_p1; exact Hpp] | left; intros He; subst p; contradiction].
      - apply U_lo in Hd; [|exact Hne].
        assert (Hdz : chain idom d z).
        { apply (HM c d Hcr Hd). intros p Hp Hpp. apply U_shrink; [apply Hz; [exact Hp | apply U_p1; exact Hpp]|].
          destruct (Nat.eq_dec p b) as [Hpb | Hpb]; [right; subst p; exact Hpp | left; exact Hpb]. }
        destruct (U_split d z Hdz) as [H | [Hdb [Hbz Hzb]]]; [exact H|].
        destruct (U_kept_or_jumped z Hbz Hzb) as [Hk | [Hzx [Hzx' _]]]; [eapply chain_trans; eassumption|].
        exfalso.
        assert (Hpc : processed idom c) by (exists d; exact Hd).
        destruct (higher_pred c Hpc Hcr) as [pc [Hec [Hppc Hltc]]].
        destruct (U_above z Hbz Hzb) as [Hpb Hltz].
        assert (Hcb : chain idom c b).
        { eapply chain_step; [exact Hd|]. apply U_shrink; [exact Hdb | right; exact Hpb]. }
        destruct (HT c b pc Hcr Hpc Hcb (fun He => Hne (eq_sym He)) Hec Hppc Hltc) as [Hpcb | [Hin _]].
        + destruct (U_through pc Hpcb z (Hz pc Hec (U_p1 pc Hppc))) as [Hle | Hxz]; [lia|].
          destruct (chain_mono idom (I_root _ HI) (I_up _ HI) _ _ Hbz Hpb) as [Hpz _].
          exact (U_jumped_not_kept z Hzx Hzx' Hpz Hxz).
        + exact (split_notin pre b suf Hsplit Hin).
    Qed.

    Lemma U_T : TInv idom' (pre ++ [b]).
    Proof.
      intros c a p Hcr Hpc Hca Hac Hec Hpp Hlt.
      destruct (Nat.eq_dec c b) as [He | Hne].
      - (* c = b: its new chain above b is the chain of x, common to all processed predecessors *)
        subst c. left. destruct (chain_inv _ _ _ Hca) as [He | [q [Hq Hc]]]; [congruence|].
        pose proof U_lb as Hl. unfold link in Hq, Hl. assert (q = x) by congruence. subst q.
        assert (Hpb : p <> b) by (intros He; subst p; lia).
        destruct (U_p2 p Hpp) as [Hx | Hppo]; [congruence|].
        apply U_lift; [|exact Hlt]. eapply chain_trans; [apply Hx1; assumption|].
        apply U_shrink; [exact Hc | left; intros He; subst x; lia].
      - destruct (U_p2 c Hpc) as [Hx | Hpco]; [congruence|].
        assert (Hcao : chain idom c a).
        { apply U_shrink; [exact Hca | left; exact Hne]. }
        assert (Hppo : processed idom p).
        { destruct (U_p2 p Hpp) as [Hx | Hx]; [|exact Hx]. subst p. apply (HP c b Hpco Hb Hlt). }
        assert (Hcnot : num c < num b -> ~ In c (pre ++ [b])).
        { intros Hcb. apply (split_suf_notin pre b suf c Hsplit); [apply (I_reach _ HI); exact Hpco | exact Hcb]. }
        destruct (HT c a p Hcr Hpco Hcao Hac Hec Hppo Hlt) as [Hpa | [Hin Hnin]].
        + destruct (U_split p a Hpa) as [H | [Hpb [Hba Hab]]]; [left; exact H|].
          destruct (U_kept_or_jumped a Hba Hab) as [Hk | [_ [_ Hapre]]]; [left; eapply chain_trans; eassumption|].
          right. split; [apply in_or_app; left; exact Hapre|].
          apply Hcnot.
          (* p's chain passes through b, so p is at or below b, and c is below p *)
          assert (Hpbo : chain idom p b).
          { apply U_shrink; [exact Hpb|]. destruct (U_above a Hba Hab) as [Hx _]. right. exact Hx. }
          destruct (chain_mono idom (I_root _ HI) (I_up _ HI) _ _ Hpbo Hppo) as [_ [Hx | Hx]]; [subst p; exact Hlt | lia].
        + right. split; [apply in_or_app; left; exact Hin|].
          intros Hx. apply in_app_or in Hx. destruct Hx as [Hx | [Hx | []]]; [contradiction | congruence].
    Qed.

    Lemma U_P : PInv idom'.
    Proof.
      intros c u Hc Hu Hlt. destruct (U_p2 c Hc) as [He | Hco].
      - subst c. apply U_p1. apply Hpre. eapply num_earlier; eassumption.
      - apply U_p1. apply (HP c u Hco Hu Hlt).
    Qed.
  End Update.

  (* ---------- one node of the sweep ---------- *)
  Lemma sweep_node_inv : forall fuel st pre b suf, 2 * num r <= fuel -> rpo = pre ++ b :: suf ->
    Inv (fst st) -> (forall u, In u pre -> processed (fst st) u) ->
    exists st', sweep_node fuel insl pn r st b = Ok st' /\ Inv (fst st') /\
                forall u, In u (pre ++ [b]) -> processed (fst st') u.
  Proof.
    intros fuel [idom fl] pre b suf Hf Hsplit HI Hpre. simpl in *. unfold sweep_node.
    destruct (b =? r) eqn:Ebr.
    - apply Nat.eqb_eq in Ebr. subst b. exists (idom, fl). split; [reflexivity|]. split; [exact HI|].
      intros u Hu. apply in_app_or in Hu. destruct Hu as [Hu | [Hu | []]]; [apply Hpre; exact Hu|].
      subst u. exists r. apply (I_root _ HI).
    - apply Nat.eqb_neq in Ebr.
      assert (Hb : In b rpo) by (rewrite Hsplit; apply in_or_app; right; left; reflexivity).
      pose proof (rpo_lt b Hb) as Hbn.
      assert (Eg : get insl b = Ok (ins_spec g b)) by (apply get_ok; apply Hins; exact Hbn).
      rewrite Eg. simpl.
      destruct (Hpar b Hb Ebr) as [p0 [Hbef He0]].
      pose proof (num_before _ _ Hbef) as Hlt0.
      assert (Hp0r : In p0 rpo).
      { destruct Hbef as [l1 [l2 [l3 E]]]. rewrite E. apply in_or_app. right. left. reflexivity. }
      assert (Hp0 : processed idom p0) by (apply Hpre; eapply num_earlier; eassumption).
      destruct (new_idom_spec idom HI fuel Hf b p0 He0 Hp0 Hlt0) as [x [En [Hpx [Hbx [Hx1 Hx2]]]]].
      rewrite En. simpl.
      destruct (get_lt _ idom b) as [old Eo]; [rewrite (I_len _ HI); exact Hbn|]. rewrite Eo. simpl.
      apply get_ok in Eo. destruct (oeqb old (Some x)) eqn:Eq.
      + apply oeqb_eq in Eq. subst old. exists (idom, fl). split; [reflexivity|]. split; [exact HI|].
        intros u Hu. apply in_app_or in Hu. destruct Hu as [Hu | [Hu | []]]; [apply Hpre; exact Hu|].
        subst u. exists x. exact Eo.
      + destruct (set_lt _ idom b (Some x)) as [idom' Es]; [rewrite (I_len _ HI); exact Hbn|]. rewrite Es. simpl.
        exists (idom', true). split; [reflexivity|]. simpl.
        split; [exact (update_inv idom idom' b x HI Hb Ebr Es Hpx Hbx (ex_intro _ p0 (conj He0 Hp0)) Hx1 Hx2)|].
        destruct (set_ok _ _ _ _ _ Es) as [_ [Hn' Ho']].
        intros u Hu. destruct (Nat.eq_dec u b) as [He | Hne]; [subst u; exists x; exact Hn'|].
        apply in_app_or in Hu. destruct Hu as [Hu | [Hu | []]]; [|congruence].
        destruct (Hpre u Hu) as [d Hd]. exists d. rewrite Ho' by exact Hne. exact Hd.
  Qed.

  Lemma sweep_inv : forall fuel idom, 2 * num r <= fuel -> Inv idom ->
    exists st', sweep fuel insl pn rpo r idom = Ok st' /\ Inv (fst st').
  Proof.
    intros fuel idom Hf HI. unfold sweep.
    destruct (fold_res_ok _ _ (sweep_node fuel insl pn r)
                (fun pre st => Inv (fst st) /\ forall u, In u pre -> processed (fst st) u) rpo (idom, false))
      as [st' [E [HI' _]]].
    - split; [exact HI | intros u []].
    - intros pre b suf a Hsplit [HIa Hpa].
      destruct (sweep_node_inv fuel a pre b suf Hf Hsplit HIa Hpa) as [a' [Ea [HIa' Hpa']]].
      exists a'. split; [exact Ea|]. split; assumption.
    - exists st'. split; assumption.
  Qed.

  (* ---------- a sweep that changes nothing certifies a fixed point ---------- *)
  Definition fixed (fuel : nat) (idom : list (option nat)) : Prop :=
    forall b, In b rpo -> b <> r ->
      exists ni, new_idom fuel idom pn (ins_spec g b) = Ok ni /\ nth_error idom b = Some ni.

  Lemma sweep_unchanged : forall fuel idom idom',
    sweep fuel insl pn rpo r idom = Ok (idom', false) -> idom' = idom /\ fixed fuel idom.
  Proof.
    intros fuel idom idom' H. unfold sweep in H.
    pose (P := fun (pre : list nat) (st : list (option nat) * bool) =>
                 snd st = false -> fst st = idom /\
                 forall b, In b pre -> b <> r ->
                   exists ni, new_idom fuel idom pn (ins_spec g b) = Ok ni /\ nth_error idom b = Some ni).
    assert (HP : P rpo (idom', false)).
    { eapply fold_res_ind with (P := P); [| |exact H].
      - intros _. split; [reflexivity | intros b []].
      - intros pre b suf [ida fa] [idb fb] Hsplit HPa Hstep. unfold P in *. simpl in *. intros Hfb. subst fb.
        assert (Hb : In b rpo) by (rewrite Hsplit; apply in_or_app; right; left; reflexivity).
        unfold sweep_node in Hstep. simpl in Hstep. destruct (b =? r) eqn:Ebr.
        + inversion Hstep; subst. destruct (HPa eq_refl) as [H1 H2]. split; [exact H1|].
          intros b' Hb' Hne. apply in_app_or in Hb'. destruct Hb' as [Hb' | [Hb' | []]]; [apply H2; assumption|].
          subst b'. apply Nat.eqb_eq in Ebr. congruence.
        + assert (Eg : get insl b = Ok (ins_spec g b)) by (apply get_ok; apply Hins; apply rpo_lt; exact Hb).
          rewrite Eg in Hstep. simpl in Hstep.
          destruct (new_idom fuel ida pn (ins_spec g b)) as [ni| |] eqn:En; simpl in Hstep; try discriminate.
          destruct (get ida b) as [old| |] eqn:Eo; simpl in Hstep; try discriminate.
          destruct (oeqb old ni) eqn:Eq.
          * inversion Hstep; subst. destruct (HPa eq_refl) as [H1 H2]. subst idb. split; [reflexivity|].
            intros b' Hb' Hne. apply in_app_or in Hb'. destruct Hb' as [Hb' | [Hb' | []]]; [apply H2; assumption|].
            subst b'. apply oeqb_eq in Eq. subst old. exists ni. split; [exact En | apply get_ok; exact Eo].
          * destruct (set ida b ni); simpl in Hstep; discriminate. }
    exact (HP eq_refl).
  Qed.

  Lemma iterate_spec : forall k fuel idom, 2 * num r <= fuel -> Inv idom ->
    iterate k fuel insl pn rpo r idom = NoFuel \/
    exists idf, iterate k fuel insl pn rpo r idom = Ok idf /\ Inv idf /\ fixed fuel idf.
  Proof.
    induction k as [|k IH]; intros fuel idom Hf HI; simpl; [left; reflexivity|].
    destruct (sweep_inv fuel idom Hf HI) as [[idom' fl] [E HI']]. rewrite E. simpl in *.
    destruct fl.
    - apply IH; assumption.
    - right. destruct (sweep_unchanged fuel idom idom' E) as [He Hfix]. subst idom'.
      exists idom. split; [reflexivity|]. split; assumption.
  Qed.

  (* ---------- the potential ---------- *)
  Definition wgt (o : option nat) : nat := match o with None => 0 | Some d => S (num d) end.
  Definition pot (idom : list (option nat)) : nat := list_sum (map wgt idom).

  Lemma pot_set : forall l i v l' u, set l i v = Ok l' -> nth_error l i = Some u -> pot l' + wgt u = pot l + wgt v.
  Proof.
    unfold pot. induction l as [|y t IH]; intros i v l' u Hs Hn; simpl in Hs; [discriminate|].
    destruct i as [|i].
    - inversion Hs; subst. simpl in Hn. inversion Hn; subst. simpl. lia.
    - destruct (set t i v) as [t'| |] eqn:E; try discriminate. inversion Hs; subst. simpl in Hn. simpl.
      specialize (IH i v t' u E Hn). lia.
  Qed.

  Lemma list_sum_bound : forall (l : list nat) k, (forall y, In y l -> y <= k) -> list_sum l <= k * length l.
  Proof.
    induction l as [|y l IH]; intros k H; simpl; [lia|].
    assert (y <= k) by (apply H; left; reflexivity).
    assert (list_sum l <= k * length l) by (apply IH; intros z Hz; apply H; right; exact Hz). nia.
  Qed.

  Lemma pot_bound : forall idom, Inv idom -> pot idom <= n * n.
  Proof.
    intros idom HI. unfold pot. rewrite <- (I_len _ HI) at 2. rewrite <- (map_length wgt idom).
    apply list_sum_bound. intros y Hy. apply in_map_iff in Hy. destruct Hy as [o [Ho Hin]]. subst y.
    destruct o as [d|]; simpl; [|lia].
    destruct (In_nth_error _ _ Hin) as [c Hc].
    assert (Hd : In d rpo).
    { destruct (Nat.eq_dec c r) as [He | Hne].
      - subst c. pose proof (I_root _ HI) as Hrr. unfold link in Hrr. assert (d = r) by congruence. subst d.
        destruct Hhead as [t Ht]. rewrite Ht. left. reflexivity.
      - apply (I_reach _ HI). exact (proj1 (I_up _ HI c d Hne Hc)). }
    pose proof (num_root_max d Hd). pose proof num_root_lt. lia.
  Qed.

  Definition Ext (idom : list (option nat)) (V : list nat) : Prop := MInv idom /\ TInv idom V /\ PInv idom.

  Lemma T_grow : forall idom pre b,
    TInv idom pre ->
    (forall a p, b <> r -> processed idom b -> chain idom b a -> a <> b ->
                 In b (succs g p) -> processed idom p -> num b < num p -> chain idom p a) ->
    TInv idom (pre ++ [b]).
  Proof.
    intros idom pre b HT Hb c a p Hcr Hpc Hca Hac Hec Hpp Hlt.
    destruct (Nat.eq_dec c b) as [He | Hne].
    - subst c. left. apply Hb; assumption.
    - destruct (HT c a p Hcr Hpc Hca Hac Hec Hpp Hlt) as [H | [H1 H2]]; [left; exact H|].
      right. split; [apply in_or_app; left; exact H1|].
      intros Hx. apply in_app_or in Hx. destruct Hx as [Hx | [Hx | []]]; [contradiction | congruence].
  Qed.

  Lemma sweep_node_ext : forall fuel st pre b suf, 2 * num r <= fuel -> rpo = pre ++ b :: suf ->
    Inv (fst st) -> Ext (fst st) pre -> (forall u, In u pre -> processed (fst st) u) ->
    exists st', sweep_node fuel insl pn r st b = Ok st' /\ Inv (fst st') /\ Ext (fst st') (pre ++ [b]) /\
                (forall u, In u (pre ++ [b]) -> processed (fst st') u) /\
                pot (fst st) <= pot (fst st') /\
                (snd st' = true -> snd st = true \/ pot (fst st) < pot (fst st')) /\
                (snd st = true -> snd st' = true).
  Proof.
    intros fuel [idom fl] pre b suf Hf Hsplit HI [HM [HT HP]] Hpre. simpl in *. unfold sweep_node.
    destruct (b =? r) eqn:Ebr.
    - apply Nat.eqb_eq in Ebr. subst b. exists (idom, fl). split; [reflexivity|]. split; [exact HI|]. simpl.
      split.
      { split; [exact HM|]. split; [|exact HP]. apply T_grow; [exact HT|]. intros a p Hx. congruence. }
      split.
      { intros u Hu. apply in_app_or in Hu. destruct Hu as [Hu | [Hu | []]]; [apply Hpre; exact Hu|].
        subst u. exists r. apply (I_root _ HI). }
      split; [lia|]. split; [intros H; left; exact H | intros H; exact H].
    - apply Nat.eqb_neq in Ebr.
      assert (Hb : In b rpo) by (rewrite Hsplit; apply in_or_app; right; left; reflexivity).
      pose proof (rpo_lt b Hb) as Hbn.
      assert (Eg : get insl b = Ok (ins_spec g b)) by (apply get_ok; apply Hins; exact Hbn).
      rewrite Eg. simpl.
      destruct (Hpar b Hb Ebr) as [p0 [Hbef He0]].
      pose proof (num_before _ _ Hbef) as Hlt0.
      assert (Hp0r : In p0 rpo).
      { destruct Hbef as [l1 [l2 [l3 E]]]. rewrite E. apply in_or_app. right. left. reflexivity. }
      assert (Hp0 : processed idom p0) by (apply Hpre; eapply num_earlier; eassumption).
      destruct (new_idom_spec idom HI fuel Hf b p0 He0 Hp0 Hlt0) as [x [En [Hpx [Hbx [Hx1 Hx2]]]]].
      rewrite En. simpl.
      destruct (get_lt _ idom b) as [old Eo]; [rewrite (I_len _ HI); exact Hbn|]. rewrite Eo. simpl.
      apply get_ok in Eo. destruct (oeqb old (Some x)) eqn:Eq.
      + apply oeqb_eq in Eq. subst old. exists (idom, fl). split; [reflexivity|]. split; [exact HI|]. simpl.
        split.
        { split; [exact HM|]. split; [|exact HP]. apply T_grow; [exact HT|].
          intros a p _ _ Hba Hab Hep Hpp _.
          destruct (chain_inv _ _ _ Hba) as [He | [q [Hq Hc]]]; [congruence|].
          unfold link in Hq. assert (q = x) by congruence. subst q.
          eapply chain_trans; [apply Hx1; assumption | exact Hc]. }
        split.
        { intros u Hu. apply in_app_or in Hu. destruct Hu as [Hu | [Hu | []]]; [apply Hpre; exact Hu|].
          subst u. exists x. exact Eo. }
        split; [lia|]. split; [intros H; left; exact H | intros H; exact H].
      + destruct (set_lt _ idom b (Some x)) as [idom' Es]; [rewrite (I_len _ HI); exact Hbn|]. rewrite Es. simpl.
        exists (idom', true). split; [reflexivity|]. simpl.
        split; [exact (update_inv idom idom' b x HI Hb Ebr Es Hpx Hbx (ex_intro _ p0 (conj He0 Hp0)) Hx1 Hx2)|].
        split.
        { split; [exact (U_M idom idom' b x p0 pre suf HI Hsplit Ebr Es Hpx Hbx He0 Hp0 Hlt0 Hx1 Hx2 HM HT HP)|].
          split; [exact (U_T idom idom' b x p0 pre suf HI Hsplit Ebr Es Hpx Hbx Hlt0 Hx1 Hx2 HM HT HP)|].
          exact (U_P idom idom' b x pre suf Hsplit Es Hpre HP). }
        destruct (set_ok _ _ _ _ _ Es) as [_ [Hn' Ho']].
        split.
        { intros u Hu. destruct (Nat.eq_dec u b) as [He | Hne]; [subst u; exists x; exact Hn'|].
          apply in_app_or in Hu. destruct Hu as [Hu | [Hu | []]]; [|congruence].
          destruct (Hpre u Hu) as [d Hd]. exists d. rewrite Ho' by exact Hne. exact Hd. }
        (* the potential grows *)
        pose proof (pot_set idom b (Some x) idom' old Es Eo) as Hpot.
        assert (Hw : wgt old < wgt (Some x)).
        { destruct old as [d|]; simpl; [|lia].
          pose proof (U_old idom b x Ebr Hx1 HM d Eo) as Hdx.
          destruct (I_up _ HI b d Ebr Eo) as [Hpd _].
          destruct (chain_mono idom (I_root _ HI) (I_up _ HI) _ _ Hdx Hpd) as [_ [He | Hlt]]; [|lia].
          subst x. simpl in Eq. rewrite Nat.eqb_refl in Eq. discriminate. }
        split; [lia|]. split; [intros _; right; lia | intros _; reflexivity].
  Qed.

  Lemma sweep_ext : forall fuel idom, 2 * num r <= fuel -> Inv idom -> Ext idom [] ->
    exists st', sweep fuel insl pn rpo r idom = Ok st' /\ Inv (fst st') /\ Ext (fst st') rpo /\
                pot idom <= pot (fst st') /\ (snd st' = true -> pot idom < pot (fst st')).
  Proof.
    intros fuel idom Hf HI HE. unfold sweep.
    destruct (fold_res_ok _ _ (sweep_node fuel insl pn r)
                (fun pre st => Inv (fst st) /\ Ext (fst st) pre /\ (forall u, In u pre -> processed (fst st) u) /\
                               pot idom <= pot (fst st) /\ (snd st = true -> pot idom < pot (fst st)))
                rpo (idom, false))
      as [st' [E [HI' [HE' [_ [Hp1 Hp2]]]]]].
    - simpl. split; [exact HI|]. split; [exact HE|]. split; [intros u []|]. split; [lia | discriminate].
    - intros pre b suf a Hsplit [HIa [HEa [Hpa [Hq1 Hq2]]]].
      destruct (sweep_node_ext fuel a pre b suf Hf Hsplit HIa HEa Hpa) as [a' [Ea [HIa' [HEa' [Hpa' [Hle [Hfl1 Hfl2]]]]]]].
      exists a'. split; [exact Ea|]. split; [exact HIa'|]. split; [exact HEa'|]. split; [exact Hpa'|].
      split; [lia|]. intros Ht. destruct (Hfl1 Ht) as [H | H]; [specialize (Hq2 H); lia | lia].
    - exists st'. split; [exact E|]. split; [exact HI'|]. split; [exact HE'|]. split; assumption.
  Qed.

  Lemma ext_boundary : forall idom, Inv idom -> Ext idom rpo -> Ext idom [].
  Proof.
    intros idom HI [HM [HT HP]]. split; [exact HM|]. split; [|exact HP].
    intros c a p Hcr Hpc Hca Hac Hec Hpp Hlt.
    destruct (HT c a p Hcr Hpc Hca Hac Hec Hpp Hlt) as [H | [_ H]]; [left; exact H|].
    exfalso. apply H. apply (I_reach _ HI). exact Hpc.
  Qed.

  (* the outer loop stops: at most V*V - potential changes remain *)
  Lemma iterate_total : forall k fuel idom, 2 * num r <= fuel -> Inv idom -> Ext idom [] ->
    n * n - pot idom < k ->
    exists idf, iterate k fuel insl pn rpo r idom = Ok idf /\ Inv idf /\ fixed fuel idf.
  Proof.
    induction k as [|k IH]; intros fuel idom Hf HI HE Hk; [lia|]. simpl.
    destruct (sweep_ext fuel idom Hf HI HE) as [[idom' fl] [E [HI' [HE' [Hp1 Hp2]]]]]. rewrite E. simpl in *.
    destruct fl.
    - apply IH; [exact Hf | exact HI' | apply ext_boundary; assumption|].
      specialize (Hp2 eq_refl). pose proof (pot_bound idom' HI'). lia.
    - destruct (sweep_unchanged fuel idom idom' E) as [He Hfix]. subst idom'.
      exists idom. split; [reflexivity|]. split; assumption.
  Qed.

  Lemma init_ext : forall idom0, set (repeat None n) r (Some r) = Ok idom0 -> Ext idom0 [].
  Proof.
    intros idom0 Hs. destruct (set_ok _ _ _ _ _ Hs) as [Hl [Hn Ho]].
    assert (Honly : forall c d, link idom0 c d -> c = r).
    { intros c d Hd. destruct (Nat.eq_dec c r) as [He | Hne]; [exact He|]. exfalso.
      unfold link in Hd. rewrite Ho in Hd by exact Hne. apply nth_error_In in Hd. apply repeat_spec in Hd. discriminate. }
    split; [|split].
    - intros c d Hc Hd. exfalso. apply Hc. eapply Honly. exact Hd.
    - intros c a p Hc [d Hd]. exfalso. apply Hc. eapply Honly. exact Hd.
    - intros c u [d Hd] Hu Hlt. rewrite (Honly c d Hd) in Hlt. pose proof (num_root_max u Hu). lia.
  Qed.

  (* ---------- an invariant fixed point is the specification ---------- *)
  Lemma fixed_is_spec : forall fuel idf, Inv idf -> fixed fuel idf ->
    forall b, b < n -> nth_error idf b = Some (if b =? r then Some r else idom_spec g r b).
  Proof.
    intros fuel idf HI Hfix b Hb.
    assert (Hedges : forall p b', In b' (succs g p) -> exists ps, nth_error insl b' = Some ps /\ In p ps).
    { intros p b' He. exists (ins_spec g b'). split; [apply Hins; eapply Hwf; exact He | apply ins_spec_In; exact He]. }
    assert (Hfix' : forall b', In b' (reach g r) -> b' <> r ->
              exists ps ni, nth_error insl b' = Some ps /\ new_idom fuel idf pn ps = Ok ni /\ nth_error idf b' = Some ni).
    { intros b' Hb' Hne. destruct (Hfix b' (proj2 (Hset b') Hb') Hne) as [ni [E1 E2]].
      exists (ins_spec g b'), ni. split; [apply Hins; apply (reach_lt g r); assumption|]. split; assumption. }
    pose proof (chk_fixed_point_sound g r fuel insl pn idf Hedges (I_root _ HI) Hfix') as Hsound.
    pose proof (fixed_point_processed g r fuel insl pn idf Hedges (I_root _ HI) Hfix') as Hproc.
    destruct (b =? r) eqn:Ebr.
    - apply Nat.eqb_eq in Ebr. subst b. apply (I_root _ HI).
    - apply Nat.eqb_neq in Ebr. destruct (in_dec Nat.eq_dec b (reach g r)) as [HbR | HbR].
      + destruct (Hproc b HbR) as [d Hd]. rewrite Hd. f_equal. symmetry. apply idom_spec_some.
        destruct (I_up _ HI b d Ebr Hd) as [Hpd Hlt].
        assert (HdR : In d (reach g r)) by (apply Hset; apply (I_reach _ HI); exact Hpd).
        split.
        * split; [apply Hsound; [exact HbR | eapply chain_step; [exact Hd | constructor]]|].
          intros He. subst d. lia.
        * intros a [Ha Hne]. pose proof (I_dom _ HI b a (ex_intro _ d Hd) Ha) as Hc.
          destruct (chain_inv _ _ _ Hc) as [Hx | [d' [Hd' Hc']]]; [congruence|].
          unfold link in *. assert (d' = d) by congruence. subst d'. apply Hsound; assumption.
      + rewrite (idom_spec_root_unreachable g r b (or_intror HbR)).
        destruct (nth_error idf b) as [[d|]|] eqn:E.
        * exfalso. apply HbR. apply Hset. apply (I_reach _ HI). exists d. exact E.
        * reflexivity.
        * apply nth_error_None in E. rewrite (I_len _ HI) in E. lia.
  Qed.

  (* the initial array: only the root is processed *)
  Lemma init_inv : forall idom0, set (repeat None n) r (Some r) = Ok idom0 -> Inv idom0.
  Proof.
    intros idom0 Hs. destruct (set_ok _ _ _ _ _ Hs) as [Hl [Hn Ho]]. rewrite repeat_length in Hl.
    assert (Honly : forall c d, link idom0 c d -> c = r).
    { intros c d Hd. destruct (Nat.eq_dec c r) as [He | Hne]; [exact He|]. exfalso.
      unfold link in Hd. rewrite Ho in Hd by exact Hne. apply nth_error_In in Hd. apply repeat_spec in Hd. discriminate. }
    constructor.
    - exact Hl.
    - exact Hn.
    - intros c [d Hd]. rewrite (Honly c d Hd). destruct Hhead as [t Ht]. rewrite Ht. left. reflexivity.
    - intros c d Hc Hd. exfalso. apply Hc. eapply Honly. exact Hd.
    - intros c a [d Hd] Hc. rewrite (Honly c d Hd) in *. rewrite (chain_selfloop _ _ _ Hn Hc).
      exists []. split; [constructor | intros v []].
    - intros c a [d Hd] Ha. rewrite (Honly c d Hd) in *. rewrite (root_only_dominator g r a Ha). constructor.
  Qed.
End CHK.

(* ---------- IDom ---------- *)
(* On every well-formed graph and every root, with fuel >= 2V+1 the model of IDom never panics
   (no slice index out of range, no -1 followed in intersect), PostOrder, intersect and every
   sweep run to completion, and if the outer "for changed" loop stops within [fuel] sweeps the
   result is exactly idom_spec: the closest strict dominator of every reachable node other
   than the root, -1 for the root and for unreachable nodes. *)
Theorem chk_correct_partial : forall g r fuel, wf g -> r < length g -> 2 * length g + 1 <= fuel ->
  idom_chk fuel g r = NoFuel \/ idom_chk fuel g r = Ok (idom_spec_list g r).
Proof.
  intros g r fuel Hwf Hr Hf. unfold idom_chk.
  destruct (mk_ins_spec g Hwf) as [insl [Ei [_ Hins]]]. rewrite Ei. simpl.
  destruct (rpostorder_spec g Hwf fuel r Hr) as [rpo [Er [Hnd [Hset [Hhead Hpar]]]]]; [lia|]. rewrite Er. simpl.
  destruct (po_numbering_spec g rpo Hnd) as [pn [Ep [Hpnl Hpn]]].
  { intros u Hu. apply (reach_lt g r); [exact Hwf | exact Hr | apply Hset; exact Hu]. }
  rewrite Ep. simpl.
  destruct (set_lt _ (repeat (@None nat) (length g)) r (Some r)) as [idom0 E0]; [rewrite repeat_length; exact Hr|].
  rewrite E0. simpl.
  pose proof (init_inv g r rpo pn Hhead idom0 E0) as HI0.
  pose proof (num_root_lt g r Hwf Hr rpo pn Hnd Hset Hhead Hpnl Hpn) as Hnr.
  destruct (iterate_spec g r Hwf Hr rpo pn insl Hnd Hset Hhead Hpar Hpnl Hpn Hins fuel fuel idom0) as [En | [idf [Eit [HIf Hfix]]]].
  - lia.
  - exact HI0.
  - left. rewrite En. reflexivity.
  - right. rewrite Eit. simpl.
    destruct (set_lt _ idf r (@None nat)) as [out Eo]; [rewrite (I_len _ _ _ _ _ HIf); exact Hr|]. rewrite Eo. f_equal.
    destruct (set_ok _ _ _ _ _ Eo) as [Hl [Hn Ho]].
    pose proof (fixed_is_spec g r Hwf Hr rpo pn insl Hset Hpnl Hins fuel idf HIf Hfix) as Hspec.
    apply nth_error_ext_eq.
    + rewrite Hl, (I_len _ _ _ _ _ HIf). unfold idom_spec_list. rewrite map_length, seq_length. reflexivity.
    + intros i Hi. rewrite Hl, (I_len _ _ _ _ _ HIf) in Hi. rewrite (idom_spec_list_nth g r i Hi).
      destruct (Nat.eq_dec i r) as [He | Hne].
      * subst i. rewrite Hn. f_equal. symmetry. apply idom_spec_root_unreachable. left. reflexivity.
      * rewrite Ho by exact Hne. rewrite (Hspec i Hi). apply Nat.eqb_neq in Hne. rewrite Hne. reflexivity.
Qed.

(* IDom, completely: with fuel >= (V+1)^2 the model of IDom returns, on EVERY well-formed graph and
   root, exactly idom_spec — it neither panics nor fails to terminate (the outer loop makes at
   most V*V+1 sweeps, because every change strictly increases a potential bounded by V*V). *)
Theorem chk_total : forall g r fuel, wf g -> r < length g -> (length g + 1) * (length g + 1) <= fuel ->
  idom_chk fuel g r = Ok (idom_spec_list g r).
Proof.
  intros g r fuel Hwf Hr Hf. unfold idom_chk.
  destruct (mk_ins_spec g Hwf) as [insl [Ei [_ Hins]]]. rewrite Ei. simpl.
  destruct (rpostorder_spec g Hwf fuel r Hr) as [rpo [Er [Hnd [Hset [Hhead Hpar]]]]]; [nia|]. rewrite Er. simpl.
  destruct (po_numbering_spec g rpo Hnd) as [pn [Ep [Hpnl Hpn]]].
  { intros u Hu. apply (reach_lt g r); [exact Hwf | exact Hr | apply Hset; exact Hu]. }
  rewrite Ep. simpl.
  destruct (set_lt _ (repeat (@None nat) (length g)) r (Some r)) as [idom0 E0]; [rewrite repeat_length; exact Hr|].
  rewrite E0. simpl.
  pose proof (init_inv g r rpo pn Hhead idom0 E0) as HI0.
  pose proof (num_root_lt g r Hwf Hr rpo pn Hnd Hset Hhead Hpnl Hpn) as Hnr.
  destruct (iterate_total g r Hwf Hr rpo pn insl Hnd Hset Hhead Hpar Hpnl Hpn Hins fuel fuel idom0) as [idf [Eit [HIf Hfix]]].
  - nia.
  - exact HI0.
  - eapply init_ext; eassumption.
  - nia.
  - rewrite Eit. simpl.
    destruct (set_lt _ idf r (@None nat)) as [out Eo]; [rewrite (I_len _ _ _ _ _ HIf); exact Hr|]. rewrite Eo. f_equal.
    destruct (set_ok _ _ _ _ _ Eo) as [Hl [Hn Ho]].
    pose proof (fixed_is_spec g r Hwf Hr rpo pn insl Hset Hpnl Hins fuel idf HIf Hfix) as Hspec.
    apply nth_error_ext_eq.
    + rewrite Hl, (I_len _ _ _ _ _ HIf). unfold idom_spec_list. rewrite map_length, seq_length. reflexivity.
    + intros i Hi. rewrite Hl, (I_len _ _ _ _ _ HIf) in Hi. rewrite (idom_spec_list_nth g r i Hi).
      destruct (Nat.eq_dec i r) as [He | Hne].
      * subst i. rewrite Hn. f_equal. symmetry. apply idom_spec_root_unreachable. left. reflexivity.
      * rewrite Ho by exact Hne. rewrite (Hspec i Hi). apply Nat.eqb_neq in Hne. rewrite Hne. reflexivity.
Qed.

(* IDom, then DomFrontier and Dom on its result *)
Theorem idom_dom_frontier_end_to_end : forall g r fuel, wf g -> r < length g ->
  (length g + 1) * (length g + 1) <= fuel ->
  exists idom df ch,
    idom_chk fuel g r = Ok idom /\ idom = idom_spec_list g r /\
    dom_frontier fuel g r idom = Ok df /\ length df = length g /\
    (forall x, x < length g -> exists c, nth_error df x = Some c /\
       forall y, In y c <-> (In y (df_spec g r x) /\ ~ (y = r /\ indeg g r = 1))) /\
    dom_children idom = Ok ch /\ length ch = length g /\
    (forall i, i < length g -> exists c, nth_error ch i = Some c /\
       forall j, In j c <-> idom_spec g r j = Some i /\ j < length g).
Proof.
  intros g r fuel Hwf Hr Hf.
  assert (Hlen : length (idom_spec_list g r) = length g) by (unfold idom_spec_list; rewrite map_length, seq_length; reflexivity).
  destruct (dom_frontier_eq_spec g r Hwf Hr fuel) as [df [Ed [Hdl Hd]]].
  { pose proof (reach_length_le g r Hwf Hr). nia. }
  destruct (dom_children_total (idom_spec_list g r)) as [ch Ec].
  { intros j p Hj. rewrite Hlen.
    assert (Hjl : j < length g) by (rewrite <- Hlen; apply nth_error_Some; congruence).
    rewrite (idom_spec_list_nth g r j Hjl) in Hj. injection Hj as Hj.
    apply idom_spec_some in Hj. destruct Hj as [[Hdm _] _].
    apply (reach_lt g r p Hwf Hr). eapply dominator_reachable. exact Hdm. }
  destruct (dom_tree_inverts _ _ Ec) as [Hcl Hc].
  exists (idom_spec_list g r), df, ch.
  split; [apply chk_total; assumption|]. split; [reflexivity|]. split; [exact Ed|]. split; [exact Hdl|].
  split; [exact Hd|]. split; [exact Ec|]. split; [congruence|].
  intros i Hi. rewrite <- Hlen in Hi. destruct (Hc i Hi) as [c [Hn Hiff]]. exists c. split; [exact Hn|].
  intros j. rewrite Hiff. split.
  - intros Hj. assert (Hjl : j < length g) by (rewrite <- Hlen; apply nth_error_Some; congruence).
    rewrite (idom_spec_list_nth g r j Hjl) in Hj. split; [congruence | exact Hjl].
  - intros [Hj Hjl]. rewrite (idom_spec_list_nth g r j Hjl). congruence.
Qed.

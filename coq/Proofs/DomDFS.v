(* Proofs/DomDFS.v — the model of PostOrder (order.go:31-47) used by IDom:
   with fuel > number of nodes it never panics or runs out of fuel on a well-formed graph,
   it lists exactly the reachable nodes, without repetition, the root first (in reverse
   post-order), and every other node comes after one of its predecessors (its DFS parent).
   Then the post-order numbering poNum of dom.go:22-27. *)
From Coq Require Import List Arith Bool Lia PeanoNat.
From MM Require Import Base.GDGraph Spec.Dom Model.Dom Proofs.DomSpec Proofs.DomModel Proofs.DomFrontier.
Import ListNotations.

(* p occurs strictly before u in l *)
Definition before (l : list nat) (p u : nat) : Prop := exists l1 l2 l3, l = l1 ++ p :: l2 ++ u :: l3.

Lemma before_app_l : forall l l' p u, before l p u -> before (l ++ l') p u.
Proof.
  intros l l' p u [l1 [l2 [l3 H]]]. exists l1, l2, (l3 ++ l'). subst. repeat (rewrite <- app_assoc; simpl). reflexivity.
Qed.

Lemma before_app_r : forall l l' p u, before l p u -> before (l' ++ l) p u.
Proof.
  intros l l' p u [l1 [l2 [l3 H]]]. exists (l' ++ l1), l2, l3. subst. rewrite <- app_assoc. reflexivity.
Qed.

Lemma before_head : forall p l u, In u l -> before (p :: l) p u.
Proof. intros p l u H. destruct (in_split _ _ H) as [l2 [l3 E]]. exists [], l2, l3. subst. reflexivity. Qed.

Lemma before_cons : forall x l p u, before l p u -> before (x :: l) p u.
Proof. intros x l p u H. apply (before_app_r l [x]). exact H. Qed.

Lemma filter_true : forall (l : list nat), filter (fun _ => true) l = l.
Proof. induction l as [|x l IH]; simpl; [reflexivity | f_equal; exact IH]. Qed.

Section DFS.
  Variable g : graph.
  Hypothesis Hwf : wf g.
  Let n := length g.

  (* unvisited nodes *)
  Definition unvis (vis : list nat) : nat := length (filter (fun u => negb (memb u vis)) (seq 0 n)).

  Lemma unvis_le : forall vis vis', incl vis vis' -> unvis vis' <= unvis vis.
  Proof.
    intros vis vis' H. unfold unvis. apply filter_length_le. intros x _ Hx.
    apply negb_true_iff, memb_false in Hx. apply negb_true_iff, memb_false. intros Hin. apply Hx. apply H. exact Hin.
  Qed.

  Lemma unvis_lt : forall vis u, u < n -> ~ In u vis -> unvis (u :: vis) < unvis vis.
  Proof.
    intros vis u Hu Hn. unfold unvis. apply filter_length_lt.
    - intros x _ Hx. apply negb_true_iff, memb_false in Hx. apply negb_true_iff, memb_false.
      intros Hin. apply Hx. right. exact Hin.
    - exists u. split; [apply in_seq; lia|]. split.
      + apply negb_false_iff, memb_In. left. reflexivity.
      + apply negb_true_iff, memb_false. exact Hn.
  Qed.

  Definition dfs_post (n0 : nat) (vis out vis' out' : list nat) : Prop :=
    exists nw, out' = n0 :: nw ++ out /\
      (forall u, In u vis' <-> In u vis \/ u = n0 \/ In u nw) /\
      NoDup (n0 :: nw) /\ (forall u, In u (n0 :: nw) -> ~ In u vis) /\
      (forall u, In u nw -> path g n0 u) /\
      (forall u v, In u (n0 :: nw) -> In v (succs g u) -> In v vis') /\
      (forall u, In u nw -> exists p, before (n0 :: nw) p u /\ In u (succs g p)).

  Definition loop_post (ss vis out vis' out' : list nat) (n0 : nat) : Prop :=
    exists nw, out' = nw ++ out /\
      (forall u, In u vis' <-> In u vis \/ In u nw) /\
      NoDup nw /\ (forall u, In u nw -> ~ In u vis) /\
      (forall u, In u nw -> path g n0 u) /\
      (forall u v, In u nw -> In v (succs g u) -> In v vis') /\
      (forall s, In s ss -> In s vis') /\
      (forall u, In u nw -> (exists p, before nw p u /\ In u (succs g p)) \/ In u ss).

  Lemma get_succs : forall u, u < n -> get g u = Ok (succs g u).
  Proof. intros u Hu. apply get_ok. unfold succs. apply nth_error_nth'. exact Hu. Qed.

  Lemma dfs_spec : forall f n0 vis out,
    n0 < n -> ~ In n0 vis -> unvis vis < f ->
    exists vis' out', po_visit f g n0 (vis, out) = Ok (vis', out') /\ dfs_post n0 vis out vis' out'.
  Proof.
    induction f as [|f IH]; intros n0 vis out Hn0 Hnv Hf; [lia|].
    simpl. rewrite (get_succs n0 Hn0). simpl.
    (* the loop over the successors *)
    assert (Hloop : forall ss vis1 out1,
               (forall s, In s ss -> In s (succs g n0)) -> incl (n0 :: vis) vis1 ->
               exists vis' out',
                 fold_res (fun st s => if memb s (fst st) then Ok st else po_visit f g s st) ss (vis1, out1) = Ok (vis', out') /\
                 loop_post ss vis1 out1 vis' out' n0).
    { induction ss as [|s t IHt]; intros vis1 out1 Hss Hincl.
      - exists vis1, out1. split; [reflexivity|]. exists []. split; [reflexivity|].
        split; [intros u; simpl; tauto|]. split; [constructor|].
        split; [intros u []|]. split; [intros u []|]. split; [intros u v []|]. split; [intros s []|]. intros u [].
      - simpl. destruct (memb s vis1) eqn:Em.
        + apply memb_In in Em.
          destruct (IHt vis1 out1) as [vis' [out' [E [nw [Ho [Hv [Hnd [Hdis [Hp [Hcl [Hs Hpar]]]]]]]]]]].
          { intros s' Hs'. apply Hss. right. exact Hs'. } { exact Hincl. }
          exists vis', out'. split; [exact E|]. exists nw. split; [exact Ho|]. split; [exact Hv|].
          split; [exact Hnd|]. split; [exact Hdis|]. split; [exact Hp|]. split; [exact Hcl|].
          split.
          * intros s' [Hs' | Hs']; [subst s'; apply Hv; left; exact Em | apply Hs; exact Hs'].
          * intros u Hu. destruct (Hpar u Hu) as [H | H]; [left; exact H | right; right; exact H].
        + apply memb_false in Em.
          assert (Hsn : s < n) by (apply (Hwf n0); apply Hss; left; reflexivity).
          destruct (IH s vis1 out1 Hsn Em) as [vis2 [out2 [E2 [nw1 [Ho1 [Hv1 [Hnd1 [Hdis1 [Hp1 [Hcl1 Hpar1]]]]]]]]]].
          { pose proof (unvis_le _ _ Hincl). pose proof (unvis_lt vis n0 Hn0 Hnv). lia. }
          rewrite E2.
          destruct (IHt vis2 out2) as [vis' [out' [E [nw2 [Ho2 [Hv2 [Hnd2 [Hdis2 [Hp2 [Hcl2 [Hs2 Hpar2]]]]]]]]]]].
          { intros s' Hs'. apply Hss. right. exact Hs'. }
          { intros x Hx. apply Hv1. left. apply Hincl. exact Hx. }
          exists vis', out'. split; [exact E|]. exists (nw2 ++ s :: nw1).
          split; [rewrite Ho2, Ho1; rewrite <- app_assoc; reflexivity|].
          split.
          { intros u. rewrite Hv2, Hv1, in_app_iff. simpl. split.
            - intros [[H | [H | H]] | H]; [left; exact H | right; right; left; congruence | right; right; right; exact H | right; left; exact H].
            - intros [H | [H | [H | H]]]; [left; left; exact H | right; exact H | left; right; left; congruence | left; right; right; exact H]. }
          split.
          { apply NoDup_app_disj; [exact Hnd2 | exact Hnd1|].
            intros x Hx2 Hx1. apply (Hdis2 x Hx2). apply Hv1. right. destruct Hx1 as [Hx1 | Hx1]; [left; congruence | right; exact Hx1]. }
          split.
          { intros u Hu. apply in_app_or in Hu. destruct Hu as [Hu | Hu].
            - intros Hin. apply (Hdis2 u Hu). apply Hv1. left. exact Hin.
            - apply Hdis1. exact Hu. }
          split.
          { intros u Hu. apply in_app_or in Hu. destruct Hu as [Hu | [Hu | Hu]].
            - apply Hp2. exact Hu.
            - subst u. eapply path_step; [apply path_refl | apply Hss; left; reflexivity].
            - eapply path_trans; [|apply Hp1; exact Hu].
              eapply path_step; [apply path_refl | apply Hss; left; reflexivity]. }
          split.
          { intros u v Hu Hv. apply in_app_or in Hu. destruct Hu as [Hu | Hu].
            - eapply Hcl2; eassumption.
            - apply Hv2. left. eapply Hcl1; eassumption. }
          split.
          { intros s' [Hs' | Hs']; [|apply Hs2; exact Hs'].
            subst s'. apply Hv2. left. apply Hv1. right. left. reflexivity. }
          { intros u Hu. apply in_app_or in Hu. destruct Hu as [Hu | [Hu | Hu]].
            - destruct (Hpar2 u Hu) as [[p [Hb He]] | H].
              + left. exists p. split; [apply before_app_l; exact Hb | exact He].
              + right. right. exact H.
            - right. left. exact Hu.
            - destruct (Hpar1 u Hu) as [p [Hb He]]. left. exists p. split; [apply before_app_r; exact Hb | exact He]. } }
    destruct (Hloop (succs g n0) (n0 :: vis) out) as [vis' [out' [E [nw [Ho [Hv [Hnd [Hdis [Hp [Hcl [Hs Hpar]]]]]]]]]]].
    { intros s Hs. exact Hs. } { apply incl_refl. }
    simpl in E. rewrite E. simpl. exists vis', (n0 :: out'). split; [reflexivity|].
    exists nw. split; [rewrite Ho; reflexivity|].
    split.
    { intros u. rewrite Hv. simpl. split.
      - intros [[H | H] | H]; [right; left; congruence | left; exact H | right; right; exact H].
      - intros [H | [H | H]]; [left; right; exact H | left; left; congruence | right; exact H]. }
    split.
    { constructor; [|exact Hnd]. intros Hin. apply (Hdis n0 Hin). left. reflexivity. }
    split.
    { intros u [Hu | Hu]; [subst u; exact Hnv|]. intros Hin. apply (Hdis u Hu). right. exact Hin. }
    split; [exact Hp|].
    split.
    { intros u v [Hu | Hu] Hv'; [subst u; apply Hs; exact Hv' | eapply Hcl; eassumption]. }
    { intros u Hu. destruct (Hpar u Hu) as [[p [Hb He]] | H].
      - exists p. split; [apply before_cons; exact Hb | exact He].
      - exists n0. split; [apply before_head; exact Hu | exact H]. }
  Qed.

  (* the reverse post-order of the nodes reachable from r *)
  Theorem rpostorder_spec : forall fuel r, r < n -> n < fuel ->
    exists rpo, rpostorder fuel g r = Ok rpo /\
      NoDup rpo /\ (forall u, In u rpo <-> In u (reach g r)) /\
      (exists t, rpo = r :: t) /\
      (forall u, In u rpo -> u <> r -> exists p, before rpo p u /\ In u (succs g p)).
  Proof.
    intros fuel r Hr Hf. unfold rpostorder.
    destruct (dfs_spec fuel r [] [] Hr) as [vis' [out' [E [nw [Ho [Hv [Hnd [Hdis [Hp [Hcl Hpar]]]]]]]]]].
    { intros []. }
    { unfold unvis. simpl. rewrite filter_true, seq_length. exact Hf. }
    rewrite E. simpl. exists out'. split; [reflexivity|]. rewrite app_nil_r in Ho. subst out'.
    split; [exact Hnd|]. split.
    - intros u. split.
      + intros [Hu | Hu]; [subst u; apply reach_root | apply reach_spec; apply Hp; exact Hu].
      + intros Hu. apply reach_spec in Hu. destruct Hu as [l Hw].
        assert (Hc : closed g (r :: nw)).
        { intros a b Ha Hb. pose proof (Hcl a b Ha Hb) as Hin. apply Hv in Hin.
          destruct Hin as [[] | [Hin | Hin]]; [left; congruence | right; exact Hin]. }
        exact (proj1 (closed_walk _ _ _ _ _ Hc Hw (or_introl eq_refl))).
    - split; [exists nw; reflexivity|].
      intros u [Hu | Hu] Hne; [congruence|]. apply Hpar. exact Hu.
  Qed.
End DFS.

Lemma map_fst_combine_len : forall A B (l : list A) (l' : list B), length l = length l' -> map fst (combine l l') = l.
Proof.
  intros A B l. induction l as [|x l IH]; intros [|y l'] H; simpl in *; try discriminate; [reflexivity|].
  f_equal. apply IH. lia.
Qed.

(* ---------- the post-order numbering ---------- *)
(* poNum[u] = number of nodes after u in the reverse post-order *)
Lemma po_numbering_spec : forall g rpo, NoDup rpo -> (forall u, In u rpo -> u < length g) ->
  exists pn, po_numbering g (rev rpo) = Ok pn /\ length pn = length g /\
             forall l1 u l2, rpo = l1 ++ u :: l2 -> nth_error pn u = Some (length l2).
Proof.
  intros g rpo Hnd Hlt. unfold po_numbering.
  pose (po := rev rpo).
  assert (Hndpo : NoDup po) by (apply NoDup_rev; exact Hnd).
  pose (Q := fun (pre : list (nat * nat)) (pn : list nat) =>
               length pn = length g /\ forall i u, In (i, u) pre -> nth_error pn u = Some i).
  destruct (fold_res_ok _ _ (fun pn (ip : nat * nat) => set pn (snd ip) (fst ip)) Q
              (combine (seq 0 (length po)) po) (repeat 0 (length g))) as [pn [E [Hl Hq]]].
  - split; [apply repeat_length | intros i u []].
  - intros pre [i u] suf a Hsplit [Hl Hq]. simpl.
    assert (Hin : In (i, u) (combine (seq 0 (length po)) po)) by (rewrite Hsplit; apply in_or_app; right; left; reflexivity).
    apply in_combine_seq0 in Hin.
    assert (Hu : u < length g) by (apply Hlt; apply in_rev; fold po; eapply nth_error_In; exact Hin).
    destruct (set_lt _ a u i) as [a' Ea]; [lia|]. exists a'. split; [exact Ea|].
    destruct (set_ok _ _ _ _ _ Ea) as [Hl' [Hn' Ho']]. split; [congruence|].
    intros j v Hjv. apply in_app_or in Hjv. destruct Hjv as [Hjv | [Hjv | []]].
    + destruct (Nat.eq_dec v u) as [He | Hne]; [|rewrite Ho' by exact Hne; apply Hq; exact Hjv].
      (* the same node twice in po: impossible *)
      subst v. exfalso.
      assert (Hin2 : In (j, u) (combine (seq 0 (length po)) po)) by (rewrite Hsplit; apply in_or_app; left; exact Hjv).
      apply in_combine_seq0 in Hin2.
      assert (j = i) by (apply (proj1 (NoDup_nth_error po) Hndpo); [apply nth_error_Some; congruence | congruence]).
      subst j.
      assert (Hndc : NoDup (map fst (combine (seq 0 (length po)) po))).
      { rewrite map_fst_combine_len by apply seq_length. apply seq_NoDup. }
      rewrite Hsplit, map_app in Hndc. simpl in Hndc. apply NoDup_remove_2 in Hndc.
      apply Hndc. apply in_or_app. left. apply (in_map fst) in Hjv. exact Hjv.
    + inversion Hjv; subst. exact Hn'.
  - fold po. exists pn. split; [exact E|]. split; [exact Hl|].
    intros l1 u l2 Hsplit. apply Hq. apply in_combine_seq0.
    unfold po. rewrite Hsplit, rev_app_distr. simpl. rewrite <- app_assoc. simpl.
    rewrite nth_error_app2 by (rewrite rev_length; lia). rewrite rev_length, Nat.sub_diag. reflexivity.
Qed.

(* Proofs/DomFrontier.v — MakeBiGraph's In lists, and DomFrontier: given the correct idom
   (= idom_spec), the model of dom.go:87-127 returns, with enough fuel, exactly the frontier
   sets of the specification, up to the root carve-out stated in the property. *)
From Coq Require Import List Arith Bool Lia PeanoNat.
From MM Require Import Base.GDGraph Spec.Dom Model.Dom Proofs.DomSpec Proofs.DomModel.
Import ListNotations.

(* ---------- MakeBiGraph ---------- *)
(* In(b): each predecessor i (ascending) repeated once per parallel edge i -> b *)
Definition ins_spec (g : graph) (b : nat) : list nat :=
  flat_map (fun io : nat * list nat => repeat (fst io) (count_occ Nat.eq_dec (snd io) b)) (combine (seq 0 (length g)) g).
(* number of incoming edges *)
Definition indeg (g : graph) (b : nat) : nat := count_occ Nat.eq_dec (concat g) b.

Lemma repeat_snoc : forall A (x : A) k, repeat x k ++ [x] = repeat x (S k).
Proof. intros A x k. induction k; simpl; [reflexivity | f_equal; exact IHk]. Qed.

Lemma ins_inner : forall (i : nat) (out : list nat) (ins0 : list (list nat)),
  (forall j, In j out -> j < length ins0) ->
  exists ins1,
    fold_res (fun ins j => rdo c <- get ins j; set ins j (c ++ [i])) out ins0 = Ok ins1 /\
    length ins1 = length ins0 /\
    forall b c0, nth_error ins0 b = Some c0 -> nth_error ins1 b = Some (c0 ++ repeat i (count_occ Nat.eq_dec out b)).
Proof.
  intros i out. induction out as [|j out IH]; intros ins0 Hr; simpl.
  - exists ins0. split; [reflexivity|]. split; [reflexivity|]. intros b c0 H. rewrite app_nil_r. exact H.
  - destruct (get_lt _ ins0 j) as [c Ec]; [apply Hr; left; reflexivity|]. rewrite Ec. simpl.
    destruct (set_lt _ ins0 j (c ++ [i])) as [ins' Es]; [apply Hr; left; reflexivity|]. rewrite Es.
    destruct (set_ok _ _ _ _ _ Es) as [Hl [Hn Ho]]. apply get_ok in Ec.
    destruct (IH ins') as [ins1 [E1 [Hl1 H1]]]; [intros k Hk; rewrite Hl; apply Hr; right; exact Hk|].
    exists ins1. split; [exact E1|]. split; [congruence|].
    intros b c0 Hb. destruct (Nat.eq_dec j b) as [He | Hne].
    + subst b. assert (c0 = c) by congruence. subst c0.
      rewrite (H1 j (c ++ [i]) Hn).
      rewrite <- app_assoc. reflexivity.
    + apply H1. rewrite Ho by congruence. exact Hb.
Qed.

Lemma flat_map_app' : forall A B (f : A -> list B) l1 l2, flat_map f (l1 ++ l2) = flat_map f l1 ++ flat_map f l2.
Proof. intros. induction l1; simpl; [reflexivity | rewrite IHl1, app_assoc; reflexivity]. Qed.

Theorem mk_ins_spec : forall g, wf g ->
  exists insl, mk_ins g = Ok insl /\ length insl = length g /\
               forall b, b < length g -> nth_error insl b = Some (ins_spec g b).
Proof.
  intros g Hwf. unfold mk_ins.
  pose (Q := fun (pre : list (nat * list nat)) (ins : list (list nat)) =>
               length ins = length g /\
               forall b, b < length g ->
                 nth_error ins b = Some (flat_map (fun io : nat * list nat => repeat (fst io) (count_occ Nat.eq_dec (snd io) b)) pre)).
  destruct (fold_res_ok _ _
     (fun ins (io : nat * list nat) => fold_res (fun ins j => rdo c <- get ins j; set ins j (c ++ [fst io])) (snd io) ins)
     Q (combine (seq 0 (length g)) g) (repeat [] (length g))) as [insl [E [Hl Hn]]].
  - split; [apply repeat_length|]. intros b Hb. simpl. apply nth_error_repeat. exact Hb.
  - intros pre [i out] suf a Hcomb [Hl Hn]. simpl.
    assert (Hin : In (i, out) (combine (seq 0 (length g)) g)) by (rewrite Hcomb; apply in_or_app; right; left; reflexivity).
    apply in_combine_seq0 in Hin.
    destruct (ins_inner i out a) as [a' [E [Hl' Hn']]].
    { intros j Hj. rewrite Hl. apply (Hwf i). unfold succs. rewrite (nth_error_nth _ _ _ Hin). exact Hj. }
    exists a'. split; [exact E|]. split; [congruence|].
    intros b Hb. rewrite (Hn' b _ (Hn b Hb)). rewrite flat_map_app'. simpl. rewrite app_nil_r. reflexivity.
  - exists insl. split; [exact E|]. split; [exact Hl|]. intros b Hb. apply Hn. exact Hb.
Qed.

Lemma ins_spec_In : forall g b p, In p (ins_spec g b) <-> In b (succs g p).
Proof.
  intros g b p. unfold ins_spec. rewrite in_flat_map. split.
  - intros [[i out] [Hin Hrep]]. simpl in Hrep. apply in_combine_seq0 in Hin.
    pose proof (repeat_spec _ _ _ Hrep) as He. subst p.
    unfold succs. rewrite (nth_error_nth _ _ _ Hin).
    apply (count_occ_In Nat.eq_dec). destruct (count_occ Nat.eq_dec out b); [destruct Hrep | lia].
  - intros H. pose proof (succs_lt _ _ _ H) as Hp.
    exists (p, succs g p). split.
    + apply in_combine_seq0. unfold succs. apply nth_error_nth'. exact Hp.
    + simpl. apply (count_occ_In Nat.eq_dec) in H.
      destruct (count_occ Nat.eq_dec (succs g p) b); [lia | left; reflexivity].
Qed.

Lemma ins_spec_length : forall g b, length (ins_spec g b) = indeg g b.
Proof.
  intros g b. unfold ins_spec, indeg. generalize 0.
  induction g as [|out g IH]; intros s; simpl; [reflexivity|].
  rewrite app_length, repeat_length, IH, count_occ_app. reflexivity.
Qed.

Theorem make_bigraph_spec : forall g, wf g ->
  exists insl, mk_ins g = Ok insl /\ length insl = length g /\
    forall b, b < length g ->
      exists ps, nth_error insl b = Some ps /\ length ps = indeg g b /\ forall p, In p ps <-> In b (succs g p).
Proof.
  intros g Hwf. destruct (mk_ins_spec g Hwf) as [insl [E [Hl Hn]]]. exists insl. split; [exact E|]. split; [exact Hl|].
  intros b Hb. exists (ins_spec g b). split; [exact (Hn b Hb)|]. split; [apply ins_spec_length | intros p; apply ins_spec_In].
Qed.

Lemma short_list_unique : forall (l : list nat) a b, length l < 2 -> In a l -> In b l -> a = b.
Proof.
  intros [|x [|y l]] a b H Ha Hb; simpl in *; try lia; try tauto.
  all: try (destruct Ha as [Ha | []]; destruct Hb as [Hb | []]; congruence).
Qed.

(* ---------- facts about dominance used by the frontier walk ---------- *)
Lemma reach_lt : forall g r v, wf g -> r < length g -> In v (reach g r) -> v < length g.
Proof.
  intros g r v Hwf Hr Hv. apply reach_spec in Hv. destruct Hv as [l Hw].
  revert l v Hw. apply walk_ind_end; [exact Hr|].
  intros l p b _ _ Hin. eapply Hwf. exact Hin.
Qed.

Lemma reach_length_le : forall g r, wf g -> r < length g -> length (reach g r) <= length g.
Proof.
  intros g r Hwf Hr. rewrite <- (seq_length (length g) 0). apply NoDup_incl_length; [apply reach_NoDup|].
  intros v Hv. apply in_seq. pose proof (reach_lt g r v Hwf Hr Hv). lia.
Qed.

Lemma reach_succ : forall g r p y, In p (reach g r) -> In y (succs g p) -> In y (reach g r).
Proof. intros g r p y Hp Hy. apply reach_spec. apply reach_spec in Hp. eapply path_step; eassumption. Qed.

(* a strict dominator of y dominates every reachable predecessor of y *)
Lemma sdom_pred : forall g r d y p, sdominates g r d y -> In y (succs g p) -> In p (reach g r) -> dominates g r d p.
Proof.
  intros g r d y p [Hd Hne] Hedge Hp. apply dominates_iff_paths in Hd. destruct Hd as [_ Hall].
  apply dominates_iff_paths. split; [apply reach_spec; exact Hp|].
  intros l Hw. pose proof (walk_snoc _ _ _ _ _ Hw Hedge) as Hw'.
  destruct (Hall _ Hw') as [He | Hin]; [left; exact He|].
  apply in_app_or in Hin. destruct Hin as [Hin | [Hin | []]]; [right; exact Hin | congruence].
Qed.

Lemma root_only_dominator : forall g r x, dominates g r x r -> x = r.
Proof.
  intros g r x H. apply (dominates_antisym g r); [exact H|].
  apply root_dominates. eapply dominator_reachable. exact H.
Qed.

Lemma filter_length_le : forall (f h : nat -> bool) l, (forall x, In x l -> f x = true -> h x = true) ->
  length (filter f l) <= length (filter h l).
Proof.
  intros f h l. induction l as [|x l IH]; intros H; simpl; [lia|].
  assert (IH' : length (filter f l) <= length (filter h l)) by (apply IH; intros y Hy; apply H; right; exact Hy).
  destruct (f x) eqn:Ef.
  - rewrite (H x (or_introl eq_refl) Ef). simpl. lia.
  - destruct (h x); simpl; lia.
Qed.

Lemma filter_length_lt : forall (f h : nat -> bool) l, (forall x, In x l -> f x = true -> h x = true) ->
  (exists x, In x l /\ f x = false /\ h x = true) -> length (filter f l) < length (filter h l).
Proof.
  intros f h l. induction l as [|x l IH]; intros H [y [Hy [Hf Hh]]]; [destruct Hy|]. simpl.
  assert (Hle : length (filter f l) <= length (filter h l)) by (apply filter_length_le; intros z Hz; apply H; right; exact Hz).
  destruct Hy as [Hy | Hy].
  - subst y. rewrite Hf, Hh. simpl. lia.
  - assert (IH' : length (filter f l) < length (filter h l)).
    { apply IH; [intros z Hz; apply H; right; exact Hz | exists y; repeat split; assumption]. }
    destruct (f x) eqn:Ef.
    + rewrite (H x (or_introl eq_refl) Ef). simpl. lia.
    + destruct (h x); simpl; lia.
Qed.

(* the strict dominators of idom(c) are fewer than those of c *)
Lemma sdoms_idom_lt : forall g r c c', closest_sdom g r c' c ->
  length (sdoms (reach g r) (avoid g r) c') < length (sdoms (reach g r) (avoid g r) c).
Proof.
  intros g r c c' [[Hd Hne] Hall]. unfold sdoms. apply filter_length_lt.
  - intros x _ Hx. apply sdomb_spec in Hx. apply sdomb_spec. destruct Hx as [Hx Hxne].
    split; [eapply dominates_trans; eassumption|].
    intros He. subst x. apply Hne. apply (dominates_antisym g r); assumption.
  - exists c'. split; [eapply dominator_reachable; exact Hd|]. split.
    + destruct (sdomb (reach g r) (avoid g r) c' c') eqn:E; [|reflexivity].
      apply sdomb_spec in E. destruct E as [_ E]. congruence.
    + apply sdomb_spec. split; assumption.
Qed.

Lemma sdoms_lt_reach : forall g r c, In c (reach g r) ->
  length (sdoms (reach g r) (avoid g r) c) < length (reach g r).
Proof.
  intros g r c Hc. unfold sdoms.
  replace (length (reach g r)) with (length (filter (fun _ => true) (reach g r))).
  - apply filter_length_lt; [reflexivity|]. exists c. split; [exact Hc|]. split; [|reflexivity].
    destruct (sdomb (reach g r) (avoid g r) c c) eqn:E; [|reflexivity].
    apply sdomb_spec in E. destruct E as [_ E]. congruence.
  - f_equal. clear Hc. induction (reach g r) as [|x l IH]; simpl; [reflexivity | f_equal; exact IH].
Qed.

Lemma df_walk_S : forall f idom df runner bdom b,
  df_walk (S f) idom df runner bdom b =
  if oeqb runner bdom then Ok df else
  match runner with
  | None => Panic
  | Some rn => rdo cur <- get df rn;
               rdo df' <- (if memb b cur then Ok df else set df rn (cur ++ [b]));
               rdo nx <- get idom rn;
               df_walk f idom df' nx bdom b
  end.
Proof. reflexivity. Qed.

Lemma df_walk_stop : forall fuel idom df runner bdom b,
  oeqb runner bdom = true -> df_walk fuel idom df runner bdom b = Ok df.
Proof. intros fuel idom df runner bdom b H. destruct fuel; simpl; rewrite H; reflexivity. Qed.

(* ---------- the frontier walk ---------- *)
Section Frontier.
  Variables (g : graph) (r : nat).
  Hypothesis Hwf : wf g.
  Hypothesis Hr : r < length g.
  Let n := length g.
  Let R := reach g r.
  Let idom := idom_spec_list g r.
  Let D := dominates g r.

  (* "x is at or above idom(y) on the chain": the walk for y stops before such x *)
  Definition above (y x : nat) : Prop := match idom_spec g r y with None => False | Some d => D x d end.

  Definition dfrel (df : list (list nat)) (S : nat -> nat -> Prop) : Prop :=
    length df = n /\ forall x, x < n -> exists c, nth_error df x = Some c /\ forall z, In z c <-> S x z.

  Lemma dfrel_iff : forall df S S', (forall x z, S x z <-> S' x z) -> dfrel df S -> dfrel df S'.
  Proof.
    intros df S S' H [Hl Hd]. split; [exact Hl|]. intros x Hx. destruct (Hd x Hx) as [c [Hc Hi]].
    exists c. split; [exact Hc|]. intros z. rewrite Hi. apply H.
  Qed.

  Lemma idom_nth : forall b, b < n -> nth_error idom b = Some (idom_spec g r b).
  Proof. intros b Hb. apply idom_spec_list_nth. exact Hb. Qed.

  Lemma df_walk_spec : forall fuel c df0 S y,
    In c R ->
    match idom_spec g r y with None => True | Some d => D d c end ->
    length (sdoms R (avoid g r) c) < fuel ->
    dfrel df0 S ->
    exists df1, df_walk fuel idom df0 (Some c) (idom_spec g r y) y = Ok df1 /\
                dfrel df1 (fun x z => S x z \/ (z = y /\ D x c /\ ~ above y x)).
  Proof.
    induction fuel as [|f IH]; intros c df0 S y Hc Hab Hfuel Hrel; [lia|].
    assert (Hcn : c < n) by (apply (reach_lt g r); assumption).
    rewrite df_walk_S. destruct (oeqb (Some c) (idom_spec g r y)) eqn:Eeq.
    - (* runner = bdom: nothing to add *)
      apply oeqb_eq in Eeq. exists df0. split; [reflexivity|].
      eapply dfrel_iff; [|exact Hrel]. intros x z. split; [tauto|].
      intros [H | [_ [Hd Hna]]]; [exact H|]. exfalso. apply Hna. unfold above. rewrite <- Eeq. exact Hd.
    - assert (Hne : idom_spec g r y <> Some c) by (intros He; rewrite He in Eeq; simpl in Eeq; rewrite Nat.eqb_refl in Eeq; discriminate).
      destruct Hrel as [Hl Hd]. destruct (Hd c Hcn) as [cur [Hcur Hcuri]].
      assert (Eg : get df0 c = Ok cur) by (apply get_ok; exact Hcur). rewrite Eg. simpl.
      (* the state after adding y to df[c] *)
      assert (Hstep : exists df', (if memb y cur then Ok df0 else set df0 c (cur ++ [y])) = Ok df' /\
                                  dfrel df' (fun x z => S x z \/ (x = c /\ z = y))).
      { destruct (memb y cur) eqn:Em.
        - exists df0. split; [reflexivity|]. apply memb_In in Em.
          apply dfrel_iff with (S := S); [|split; assumption].
          intros x z. split; [tauto|]. intros [H | [Hx Hz]]; [exact H|]. subst. apply Hcuri. exact Em.
        - destruct (set_lt _ df0 c (cur ++ [y])) as [df' Es]; [lia|]. exists df'. split; [exact Es|].
          destruct (set_ok _ _ _ _ _ Es) as [Hl' [Hn' Ho']]. split; [congruence|].
          intros x Hx. destruct (Nat.eq_dec x c) as [He | Hxc].
          + subst x. exists (cur ++ [y]). split; [exact Hn'|]. intros z. rewrite in_app_iff, Hcuri. simpl.
            split; [intros [H | [H | []]]; [left; exact H | right; split; [reflexivity | congruence]]
                   | intros [H | [_ H]]; [left; exact H | right; left; congruence]].
          + destruct (Hd x Hx) as [c' [Hc' Hi']]. exists c'. split; [rewrite Ho' by exact Hxc; exact Hc'|].
            intros z. rewrite Hi'. split; [tauto | intros [H | [H _]]; [exact H | contradiction]]. }
      destruct Hstep as [df' [Es Hrel']]. rewrite Es. simpl.
      assert (Eid : get idom c = Ok (idom_spec g r c)) by (apply get_ok; apply idom_nth; exact Hcn).
      rewrite Eid. simpl.
      destruct (idom_spec g r c) as [c'|] eqn:Ec.
      + (* go up to c' = idom(c) *)
        apply idom_spec_some in Ec. pose proof Ec as [[Hdc' Hnec'] Hclose].
        assert (Hc' : In c' R) by (eapply dominator_reachable; exact Hdc').
        destruct (IH c' df' (fun x z => S x z \/ (x = c /\ z = y)) y Hc') as [df1 [E1 Hrel1]].
        * destruct (idom_spec g r y) as [d|] eqn:Ey; [|exact I].
          apply Hclose. split; [exact Hab | congruence].
        * pose proof (sdoms_idom_lt g r c c' Ec). fold R in H. lia.
        * exact Hrel'.
        * exists df1. split; [exact E1|]. eapply dfrel_iff; [|exact Hrel1].
          intros x z. split.
          -- intros [[H | [Hx Hz]] | [Hz [Hxd Hna]]].
             ++ left. exact H.
             ++ subst. right. split; [reflexivity|]. split; [apply dominates_refl; exact Hc|].
                unfold above. destruct (idom_spec g r y) as [d|] eqn:Ey; [|tauto].
                intros Hcd. apply Hne. f_equal. apply (dominates_antisym g r); assumption.
             ++ right. split; [exact Hz|]. split; [eapply dominates_trans; eassumption | exact Hna].
          -- intros [H | [Hz [Hxc Hna]]]; [left; left; exact H|].
             destruct (Nat.eq_dec x c) as [He | Hxne]; [left; right; split; assumption|].
             right. split; [exact Hz|]. split; [apply Hclose; split; assumption | exact Hna].
      + (* c is the root: the next runner is -1 *)
        assert (c = r).
        { destruct (Nat.eq_dec c r) as [He | Hcr]; [exact He|]. exfalso.
          destruct (idom_spec_unique g r c Hc Hcr) as [d0 [Hd0 _]]. congruence. }
        subst c. destruct (idom_spec g r y) as [d|] eqn:Ey.
        * exfalso. apply Hne. f_equal. apply (root_only_dominator g r). exact Hab.
        * exists df'. split; [apply df_walk_stop; reflexivity|]. eapply dfrel_iff; [|exact Hrel'].
          intros x z. split.
          -- intros [H | [Hx Hz]]; [left; exact H|]. subst. right. split; [reflexivity|].
             split; [apply dominates_refl; exact Hc|]. unfold above. rewrite Ey. tauto.
          -- intros [H | [Hz [Hxr _]]]; [left; exact H|]. right. split; [apply (root_only_dominator g r); exact Hxr | exact Hz].
  Qed.

  (* what one iteration of the outer loop (node y) adds *)
  Definition contrib (x y : nat) : Prop :=
    2 <= indeg g y /\ exists p, In y (succs g p) /\ In p R /\ D x p /\ ~ above y x.

  Lemma unprocessed_unreachable : forall p, p <> r -> idom_spec g r p = None -> ~ In p R.
  Proof.
    intros p Hp Hn Hin. destruct (idom_spec_unique g r p Hin Hp) as [d [Hd _]]. congruence.
  Qed.

  Lemma processed_reachable : forall p, p = r \/ idom_spec g r p <> None -> In p R.
  Proof.
    intros p [Hp | Hp]; [subst; apply reach_root|].
    destruct (idom_spec g r p) as [d|] eqn:E; [|congruence].
    apply idom_spec_some in E. destruct E as [[Hd _] _]. eapply dominates_reachable. exact Hd.
  Qed.

  Lemma df_node_spec : forall fuel insl df0 S y,
    (forall b, b < n -> nth_error insl b = Some (ins_spec g b)) ->
    length R <= fuel -> y < n -> dfrel df0 S ->
    exists df1, df_node fuel insl r idom df0 y = Ok df1 /\
                dfrel df1 (fun x z => S x z \/ (z = y /\ contrib x y)).
  Proof.
    intros fuel insl df0 S y Hins Hfuel Hy Hrel. unfold df_node.
    assert (E1 : get idom y = Ok (idom_spec g r y)) by (apply get_ok; apply idom_nth; exact Hy).
    assert (E2 : get insl y = Ok (ins_spec g y)) by (apply get_ok; apply Hins; exact Hy).
    rewrite E1, E2. simpl. destruct (length (ins_spec g y) <? 2) eqn:El.
    - apply Nat.ltb_lt in El. exists df0. split; [reflexivity|]. eapply dfrel_iff; [|exact Hrel].
      intros x z. split; [tauto|]. intros [H | [_ [H _]]]; [exact H|]. rewrite ins_spec_length in El. lia.
    - apply Nat.ltb_ge in El. rewrite ins_spec_length in El.
      pose (Q := fun (pre : list nat) (df : list (list nat)) =>
                   dfrel df (fun x z => S x z \/ (z = y /\ exists p, In p pre /\ In p R /\ D x p /\ ~ above y x))).
      destruct (fold_res_ok _ _
        (fun df pred => rdo ip <- get idom pred;
                        if negb (pred =? r) && oeqb ip None then Ok df
                        else df_walk fuel idom df (Some pred) (idom_spec g r y) y)
        Q (ins_spec g y) df0) as [df1 [E HQ]].
      + eapply dfrel_iff; [|exact Hrel]. intros x z. split; [tauto|].
        intros [H | [_ [p [[] _]]]]. exact H.
      + intros pre p suf a Hsplit HQ.
        assert (Hpin : In p (ins_spec g y)) by (rewrite Hsplit; apply in_or_app; right; left; reflexivity).
        apply ins_spec_In in Hpin. pose proof (succs_lt _ _ _ Hpin) as Hpn.
        assert (E3 : get idom p = Ok (idom_spec g r p)) by (apply get_ok; apply idom_nth; exact Hpn).
        rewrite E3. simpl. destruct (negb (p =? r) && oeqb (idom_spec g r p) None) eqn:Esk.
        * (* unreachable predecessor: skipped *)
          apply andb_true_iff in Esk. destruct Esk as [Ea Eb]. apply negb_true_iff, Nat.eqb_neq in Ea.
          apply oeqb_eq in Eb. pose proof (unprocessed_unreachable p Ea Eb) as Hun.
          exists a. split; [reflexivity|]. eapply dfrel_iff; [|exact HQ].
          intros x z. split.
          -- intros [H | [Hz [p' [Hp' Hrest]]]]; [left; exact H|]. right. split; [exact Hz|].
             exists p'. split; [apply in_or_app; left; exact Hp' | exact Hrest].
          -- intros [H | [Hz [p' [Hp' [HpR Hrest]]]]]; [left; exact H|]. right. split; [exact Hz|].
             apply in_app_or in Hp'. destruct Hp' as [Hp' | [Hp' | []]]; [|subst p'; contradiction].
             exists p'. split; [exact Hp'|]. split; assumption.
        * assert (HpR : In p R).
          { apply processed_reachable. apply andb_false_iff in Esk. destruct Esk as [Ea | Eb].
            - left. apply negb_false_iff, Nat.eqb_eq in Ea. exact Ea.
            - right. intros He. rewrite He in Eb. discriminate. }
          destruct (df_walk_spec fuel p a (fun x z => S x z \/ (z = y /\ exists p0, In p0 pre /\ In p0 R /\ D x p0 /\ ~ above y x)) y HpR) as [a' [Ew Hrel']].
          -- destruct (idom_spec g r y) as [d|] eqn:Ey; [|exact I].
             apply idom_spec_some in Ey. destruct Ey as [Hsd _]. eapply sdom_pred; eassumption.
          -- pose proof (sdoms_lt_reach g r p HpR). fold R in H. lia.
          -- exact HQ.
          -- exists a'. split; [exact Ew|]. eapply dfrel_iff; [|exact Hrel'].
             intros x z. split.
             ++ intros [[H | [Hz [p' [Hp' Hrest]]]] | [Hz [Hxd Hna]]].
                ** left. exact H.
                ** right. split; [exact Hz|]. exists p'. split; [apply in_or_app; left; exact Hp' | exact Hrest].
                ** right. split; [exact Hz|]. exists p. split; [apply in_or_app; right; left; reflexivity|].
                   split; [exact HpR|]. split; assumption.
             ++ intros [H | [Hz [p' [Hp' [Hp'R [Hxd Hna]]]]]]; [left; left; exact H|].
                apply in_app_or in Hp'. destruct Hp' as [Hp' | [Hp' | []]].
                ** left. right. split; [exact Hz|]. exists p'. split; [exact Hp'|]. split; [exact Hp'R|]. split; assumption.
                ** subst p'. right. split; [exact Hz|]. split; assumption.
      + exists df1. split; [exact E|]. eapply dfrel_iff; [|exact HQ].
        intros x z. split.
        * intros [H | [Hz [p [Hp Hrest]]]]; [left; exact H|]. right. split; [exact Hz|].
          split; [exact El|]. exists p. split; [apply ins_spec_In; exact Hp | exact Hrest].
        * intros [H | [Hz [_ [p [Hp Hrest]]]]]; [left; exact H|]. right. split; [exact Hz|].
          exists p. split; [apply ins_spec_In; exact Hp | exact Hrest].
  Qed.

  (* a reachable node other than the root all of whose incoming edges come from one node p:
     every dominator of p strictly dominates it (so it is in no frontier) *)
  Lemma single_pred : forall x y p, In y R -> y <> r -> indeg g y < 2 ->
    In y (succs g p) -> D x p -> sdominates g r x y.
  Proof.
    intros x y p Hy Hyr Hdeg Hedge Hxp.
    assert (Hall : forall p', In y (succs g p') -> p' = p).
    { intros p' Hp'. apply (short_list_unique (ins_spec g y)); [rewrite ins_spec_length; exact Hdeg | |];
        apply ins_spec_In; assumption. }
    assert (Hpy : D p y).
    { apply dominates_iff_paths. split; [apply reach_spec; exact Hy|]. intros l Hw.
      destruct (walk_inv_end _ _ _ _ Hw) as [[_ He] | [l' [p' [Hl [Hw' He]]]]]; [congruence|].
      rewrite (Hall p' He) in Hw'. pose proof (walk_end_in _ _ _ _ Hw') as Hin. subst l.
      destruct Hin as [Hin | Hin]; [left; exact Hin | right; apply in_or_app; left; exact Hin]. }
    assert (Hne : p <> y).
    { intros He. subst p.
      assert (Hno : forall k l, length l < k -> walk g r l y -> False).
      { induction k as [|k IH]; intros l Hlen Hw; [lia|].
        destruct (walk_inv_end _ _ _ _ Hw) as [[_ He] | [l' [p' [Hl [Hw' He]]]]]; [congruence|].
        rewrite (Hall p' He) in Hw'. apply (IH l'); [subst l; rewrite app_length in Hlen; simpl in Hlen; lia | exact Hw']. }
      apply reach_spec in Hy. destruct Hy as [l Hw]. apply (Hno (Datatypes.S (length l)) l); [lia | exact Hw]. }
    split; [eapply dominates_trans; eassumption|].
    intros He. subst x. apply Hne. apply (dominates_antisym g r); assumption.
  Qed.

  Lemma contrib_iff_spec : forall x y,
    (y < n /\ contrib x y) <-> (In y (df_spec g r x) /\ ~ (y = r /\ indeg g r = 1)).
  Proof.
    intros x y. rewrite df_spec_def. split.
    - intros [_ [Hdeg [p [Hedge [Hp [Hxp Hna]]]]]].
      assert (Hy : In y R) by (eapply reach_succ; eassumption).
      split; [|intros [He H1]; subst y; lia].
      split; [exact Hy|]. split; [exists p; split; [exact Hedge|]; split; assumption|].
      intros [Hxy Hne]. destruct (Nat.eq_dec y r) as [He | Hyr].
      + subst y. apply Hne. apply (root_only_dominator g r). exact Hxy.
      + destruct (idom_spec_unique g r y Hy Hyr) as [d [Ed [[_ Hclose] _]]].
        apply Hna. unfold above. rewrite Ed. apply Hclose. split; assumption.
    - intros [[Hy [[p [Hedge [Hp Hxp]]] Hns]] Hcarve].
      split; [apply (reach_lt g r); assumption|].
      assert (Hna : ~ above y x).
      { unfold above. destruct (idom_spec g r y) as [d|] eqn:Ed; [|tauto].
        apply idom_spec_some in Ed. destruct Ed as [[Hdy Hdne] _]. intros Hxd. apply Hns.
        split; [eapply dominates_trans; eassumption|]. intros He. subst x.
        apply Hdne. apply (dominates_antisym g r); assumption. }
      split; [|exists p; split; [exact Hedge|]; split; [exact Hp|]; split; assumption].
      destruct (le_lt_dec 2 (indeg g y)) as [Hge | Hlt]; [exact Hge|]. exfalso.
      destruct (Nat.eq_dec y r) as [He | Hyr].
      + apply Hcarve. split; [exact He|]. subst y.
        assert (0 < indeg g r); [|lia]. rewrite <- ins_spec_length.
        apply ins_spec_In in Hedge. destruct (ins_spec g r); [destruct Hedge | simpl; lia].
      + apply Hns. eapply single_pred; eassumption.
  Qed.

  (* DomFrontier, given the correct idom: with fuel >= the number of reachable nodes it returns,
     for EVERY node x, exactly the specified frontier of x — except that the root is not
     reported when it has exactly one incoming edge (the property's carve-out) *)
  Theorem dom_frontier_eq_spec : forall fuel, length R <= fuel ->
    exists df, dom_frontier fuel g r idom = Ok df /\ length df = n /\
      forall x, x < n -> exists c, nth_error df x = Some c /\
        forall y, In y c <-> (In y (df_spec g r x) /\ ~ (y = r /\ indeg g r = 1)).
  Proof.
    intros fuel Hfuel. unfold dom_frontier.
    destruct (mk_ins_spec g Hwf) as [insl [Ei [Hil Hin]]]. rewrite Ei. simpl.
    assert (Hlen : length idom = n) by (unfold idom, idom_spec_list; rewrite map_length, seq_length; reflexivity).
    rewrite Hlen.
    pose (Q := fun (pre : list nat) (df : list (list nat)) => dfrel df (fun x z => In z pre /\ contrib x z)).
    destruct (fold_res_ok _ _ (df_node fuel insl r idom) Q (seq 0 n) (repeat [] (length g))) as [df [E HQ]].
    - split; [apply repeat_length|]. intros x Hx. exists []. split; [apply nth_error_repeat; exact Hx|].
      intros z. simpl. tauto.
    - intros pre y suf a Hsplit HQ.
      assert (Hy : y < n).
      { assert (In y (seq 0 n)) by (rewrite Hsplit; apply in_or_app; right; left; reflexivity).
        apply in_seq in H. lia. }
      destruct (df_node_spec fuel insl a (fun x z => In z pre /\ contrib x z) y Hin Hfuel Hy HQ) as [a' [Ea Hrel]].
      exists a'. split; [exact Ea|]. eapply dfrel_iff; [|exact Hrel].
      intros x z. rewrite in_app_iff. simpl. split.
      + intros [[H1 H2] | [Hz Hc]]; [split; [left; exact H1 | exact H2] | subst z; split; [right; left; reflexivity | exact Hc]].
      + intros [[H1 | [H1 | []]] H2]; [left; split; assumption | right; subst z; split; [reflexivity | exact H2]].
    - exists df. split; [exact E|]. destruct HQ as [Hl Hd]. split; [exact Hl|].
      intros x Hx. destruct (Hd x Hx) as [c [Hc Hi]]. exists c. split; [exact Hc|].
      intros y. rewrite Hi, <- contrib_iff_spec, in_seq. split; [intros [H1 H2]; split; [lia | exact H2] | intros [H1 H2]; split; [lia | exact H2]].
  Qed.
End Frontier.

(* Proofs/DomModel.v — theorems about the algorithm model of Model/Dom.v, part 1:
   slice primitives, range loops, Dom's child lists, MakeBiGraph, and the soundness of
   every fixed point of the Cooper-Harvey-Kennedy sweep. *)
From Coq Require Import List Arith Bool Lia PeanoNat.
From MM Require Import Base.GDGraph Spec.Dom Model.Dom Proofs.DomSpec.
Import ListNotations.

(* ---------- get / set ---------- *)
Lemma get_ok : forall A (l : list A) i x, get l i = Ok x <-> nth_error l i = Some x.
Proof. intros. unfold get. destruct (nth_error l i); split; intros H; inversion H; reflexivity. Qed.

Lemma get_lt : forall A (l : list A) i, i < length l -> exists x, get l i = Ok x.
Proof.
  intros A l i H. unfold get. destruct (nth_error l i) eqn:E; [eexists; reflexivity|].
  apply nth_error_None in E. lia.
Qed.

Lemma get_not_nofuel : forall A (l : list A) i, get l i <> NoFuel.
Proof. intros. unfold get. destruct (nth_error l i); discriminate. Qed.

Lemma set_ok : forall A (l : list A) i x l', set l i x = Ok l' ->
  length l' = length l /\ nth_error l' i = Some x /\ forall j, j <> i -> nth_error l' j = nth_error l j.
Proof.
  intros A l. induction l as [|y t IH]; intros i x l' H; simpl in H; [discriminate|].
  destruct i as [|k].
  - inversion H; subst. split; [reflexivity|]. split; [reflexivity|].
    intros j Hj. destruct j; [congruence | reflexivity].
  - destruct (set t k x) as [t'| |] eqn:E; try discriminate. inversion H; subst.
    destruct (IH _ _ _ E) as [Hl [Hn Ho]]. split; [simpl; congruence|]. split; [exact Hn|].
    intros j Hj. destruct j; [reflexivity|]. simpl. apply Ho. congruence.
Qed.

Lemma set_lt : forall A (l : list A) i x, i < length l -> exists l', set l i x = Ok l'.
Proof.
  intros A l. induction l as [|y t IH]; intros i x H; simpl in H; [lia|].
  destruct i as [|k]; simpl; [eexists; reflexivity|].
  destruct (IH k x) as [t' E]; [lia|]. rewrite E. eexists; reflexivity.
Qed.

Lemma set_not_nofuel : forall A (l : list A) i x, set l i x <> NoFuel.
Proof.
  intros A l. induction l as [|y t IH]; intros i x; simpl; [discriminate|].
  destruct i; [discriminate|]. specialize (IH i x). destruct (set t i x); congruence.
Qed.

Lemma oeqb_eq : forall a b, oeqb a b = true <-> a = b.
Proof.
  intros [x|] [y|]; simpl; split; intros H; try discriminate; try reflexivity.
  - apply Nat.eqb_eq in H. congruence.
  - inversion H. apply Nat.eqb_refl.
Qed.

(* ---------- range loops ---------- *)
(* partial correctness: an invariant indexed by the prefix already processed *)
Lemma fold_res_ind : forall A B (f : A -> B -> res A) (P : list B -> A -> Prop) (l : list B) (a0 : A),
  P [] a0 ->
  (forall pre x suf a a', l = pre ++ x :: suf -> P pre a -> f a x = Ok a' -> P (pre ++ [x]) a') ->
  forall a', fold_res f l a0 = Ok a' -> P l a'.
Proof.
  intros A B f P l a0 H0 Hs.
  assert (G : forall suf pre a, l = pre ++ suf -> P pre a -> forall a', fold_res f suf a = Ok a' -> P l a').
  { induction suf as [|x suf IH]; intros pre a Hl Hp a' Hf; simpl in Hf.
    - inversion Hf; subst. rewrite app_nil_r. exact Hp.
    - destruct (f a x) as [a1| |] eqn:E; try discriminate.
      apply (IH (pre ++ [x]) a1); [rewrite <- app_assoc; exact Hl | | exact Hf].
      eapply Hs; eassumption. }
  intros a' Hf. apply (G l [] a0); [reflexivity | exact H0 | exact Hf].
Qed.

(* total correctness: every step succeeds under the invariant *)
Lemma fold_res_ok : forall A B (f : A -> B -> res A) (Q : list B -> A -> Prop) (l : list B) (a0 : A),
  Q [] a0 ->
  (forall pre x suf a, l = pre ++ x :: suf -> Q pre a -> exists a', f a x = Ok a' /\ Q (pre ++ [x]) a') ->
  exists a', fold_res f l a0 = Ok a' /\ Q l a'.
Proof.
  intros A B f Q l a0 H0 Hs.
  assert (G : forall suf pre a, l = pre ++ suf -> Q pre a -> exists a', fold_res f suf a = Ok a' /\ Q l a').
  { induction suf as [|x suf IH]; intros pre a Hl Hq; simpl.
    - exists a. split; [reflexivity|]. subst. rewrite app_nil_r. exact Hq.
    - destruct (Hs pre x suf a Hl Hq) as [a1 [E Hq1]]. rewrite E.
      apply (IH (pre ++ [x]) a1); [rewrite <- app_assoc; exact Hl | exact Hq1]. }
  apply (G l [] a0); [reflexivity | exact H0].
Qed.

Lemma in_combine_seq : forall A (l : list A) s j x,
  In (j, x) (combine (seq s (length l)) l) <-> s <= j /\ nth_error l (j - s) = Some x.
Proof.
  intros A l. induction l as [|y t IH]; intros s j x; simpl.
  - split; [intros [] | intros [_ H]; destruct (j - s); discriminate].
  - rewrite IH. split.
    + intros [H | [Hle Hn]].
      * inversion H; subst. split; [lia|]. rewrite Nat.sub_diag. reflexivity.
      * split; [lia|]. replace (j - s) with (S (j - S s)) by lia. exact Hn.
    + intros [Hle Hn]. destruct (Nat.eq_dec s j) as [He | Hne].
      * subst. rewrite Nat.sub_diag in Hn. simpl in Hn. inversion Hn. left. reflexivity.
      * right. split; [lia|]. replace (j - s) with (S (j - S s)) in Hn by lia. exact Hn.
Qed.

Lemma in_combine_seq0 : forall A (l : list A) j x,
  In (j, x) (combine (seq 0 (length l)) l) <-> nth_error l j = Some x.
Proof. intros. rewrite in_combine_seq, Nat.sub_0_r. split; [tauto | intros; split; [lia | assumption]]. Qed.

Lemma nth_error_repeat : forall A (x : A) n i, i < n -> nth_error (repeat x n) i = Some x.
Proof.
  intros A x n. induction n as [|n IH]; intros i H; [lia|].
  destruct i; simpl; [reflexivity | apply IH; lia].
Qed.

(* ---------- Dom: the child lists invert idom ---------- *)
Theorem dom_tree_inverts : forall idom ch, dom_children idom = Ok ch ->
  length ch = length idom /\
  forall i, i < length idom ->
    exists c, nth_error ch i = Some c /\ forall j, In j c <-> nth_error idom j = Some (Some i).
Proof.
  intros idom ch H. unfold dom_children in H.
  pose (P := fun (pre : list (nat * option nat)) (ch : list (list nat)) =>
               length ch = length idom /\
               forall i, i < length idom -> exists c, nth_error ch i = Some c /\ forall j, In j c <-> In (j, Some i) pre).
  assert (HP : P (combine (seq 0 (length idom)) idom) ch).
  { eapply fold_res_ind with (P := P); [| |exact H].
    - split; [apply repeat_length|]. intros i Hi. exists []. split; [apply nth_error_repeat; exact Hi|].
      intros j. simpl. tauto.
    - intros pre [j0 [p|]] suf a a' Hl [Hlen Hinv] Hf; simpl in Hf.
      + destruct (get a p) as [c| |] eqn:Eg; simpl in Hf; try discriminate.
        apply get_ok in Eg. destruct (set_ok _ _ _ _ _ Hf) as [Hl' [Hn Ho]].
        split; [congruence|]. intros i Hi. destruct (Nat.eq_dec i p) as [He | Hne].
        * subst i. exists (c ++ [j0]). split; [exact Hn|]. intros j.
          destruct (Hinv p Hi) as [c' [Hc' Hiff]]. assert (c' = c) by congruence. subst c'.
          rewrite in_app_iff, in_app_iff, Hiff. simpl. split.
          -- intros [Hx | [Hx | []]]; [left; exact Hx | right; left; subst; reflexivity].
          -- intros [Hx | [Hx | []]]; [left; exact Hx | right; left; inversion Hx; reflexivity].
        * destruct (Hinv i Hi) as [c' [Hc' Hiff]]. exists c'. split; [rewrite Ho by exact Hne; exact Hc'|].
          intros j. rewrite Hiff, in_app_iff. simpl. split; [tauto|].
          intros [Hx | [Hx | []]]; [exact Hx | inversion Hx; congruence].
      + inversion Hf; subst a'. split; [exact Hlen|]. intros i Hi.
        destruct (Hinv i Hi) as [c' [Hc' Hiff]]. exists c'. split; [exact Hc'|].
        intros j. rewrite Hiff, in_app_iff. simpl. split; [tauto|].
        intros [Hx | [Hx | []]]; [exact Hx | inversion Hx]. }
  destruct HP as [Hlen Hinv]. split; [exact Hlen|].
  intros i Hi. destruct (Hinv i Hi) as [c [Hc Hiff]]. exists c. split; [exact Hc|].
  intros j. rewrite Hiff. apply in_combine_seq0.
Qed.

(* Dom never panics on an idom slice whose entries are -1 or node numbers *)
Theorem dom_children_total : forall idom,
  (forall j p, nth_error idom j = Some (Some p) -> p < length idom) ->
  exists ch, dom_children idom = Ok ch.
Proof.
  intros idom Hr. unfold dom_children.
  destruct (fold_res_ok _ _
    (fun ch (np : nat * option nat) => match snd np with None => Ok ch
                                     | Some p => rdo c <- get ch p; set ch p (c ++ [fst np]) end)
    (fun _ ch => length ch = length idom) (combine (seq 0 (length idom)) idom) (repeat [] (length idom)))
    as [ch [E _]].
  - apply repeat_length.
  - intros pre [j0 [p|]] suf a Hl Hlen; simpl.
    + assert (Hin : In (j0, Some p) (combine (seq 0 (length idom)) idom)) by (rewrite Hl; apply in_or_app; right; left; reflexivity).
      apply in_combine_seq0 in Hin. pose proof (Hr _ _ Hin) as Hp.
      destruct (get_lt _ a p) as [c Ec]; [lia|]. rewrite Ec. simpl.
      destruct (set_lt _ a p (c ++ [j0])) as [a' Ea]; [lia|]. exists a'. split; [exact Ea|].
      destruct (set_ok _ _ _ _ _ Ea) as [Hl' _]. congruence.
    + exists a. split; [reflexivity | exact Hlen].
  - exists ch. exact E.
Qed.

(* ---------- the idom chain ---------- *)
Definition link (idom : list (option nat)) (b p : nat) : Prop := nth_error idom b = Some (Some p).

Inductive chain (idom : list (option nat)) : nat -> nat -> Prop :=
| chain_refl : forall b, chain idom b b
| chain_step : forall b p a, link idom b p -> chain idom p a -> chain idom b a.

Lemma chain_trans : forall idom a b c, chain idom a b -> chain idom b c -> chain idom a c.
Proof.
  intros idom a b c H1 H2. induction H1; [exact H2|].
  eapply chain_step; [eassumption | apply IHchain; exact H2].
Qed.

Lemma chain_selfloop : forall idom r a, link idom r r -> chain idom r a -> a = r.
Proof.
  intros idom r a Hr H. induction H; [reflexivity|].
  unfold link in *. assert (p = b) by congruence. subst. apply IHchain. exact Hr.
Qed.

(* intersect returns a node on both chains *)
Lemma intersect_chain : forall fuel idom poNum b1 b2 x,
  intersect fuel idom poNum b1 b2 = Ok x -> chain idom b1 x /\ chain idom b2 x.
Proof.
  induction fuel as [|f IH]; intros idom poNum b1 b2 x H; simpl in H.
  - destruct (b1 =? b2) eqn:E; [|discriminate]. apply Nat.eqb_eq in E. inversion H; subst.
    split; constructor.
  - destruct (b1 =? b2) eqn:E.
    + apply Nat.eqb_eq in E. inversion H; subst. split; constructor.
    + destruct (get poNum b1) as [n1| |]; simpl in H; try discriminate.
      destruct (get poNum b2) as [n2| |]; simpl in H; try discriminate.
      destruct (n1 <? n2).
      * destruct (get idom b1) as [[b1'|]| |] eqn:Eg; simpl in H; try discriminate.
        apply get_ok in Eg. destruct (IH _ _ _ _ _ H) as [H1 H2].
        split; [eapply chain_step; [exact Eg | exact H1] | exact H2].
      * destruct (n2 <? n1); [|discriminate].
        destruct (get idom b2) as [[b2'|]| |] eqn:Eg; simpl in H; try discriminate.
        apply get_ok in Eg. destruct (IH _ _ _ _ _ H) as [H1 H2].
        split; [exact H1 | eapply chain_step; [exact Eg | exact H2]].
Qed.

Definition processed (idom : list (option nat)) (p : nat) : Prop := exists q, nth_error idom p = Some (Some q).

(* the fold over the predecessors: the result lies on the chain of every processed predecessor *)
Lemma new_idom_fold_chain : forall fuel idom poNum ps cur ni,
  fold_res (fun cur p =>
              rdo ip <- get idom p;
              match ip with
              | None => Ok cur
              | Some _ => match cur with
                          | None => Ok (Some p)
                          | Some c => rdo x <- intersect fuel idom poNum p c; Ok (Some x)
                          end
              end) ps cur = Ok ni ->
  (forall c, cur = Some c -> exists d, ni = Some d /\ chain idom c d) /\
  (forall p, In p ps -> processed idom p -> exists d, ni = Some d /\ chain idom p d).
Proof.
  intros fuel idom poNum ps. induction ps as [|p ps IH]; intros cur ni H; simpl in H.
  - inversion H; subst. split.
    + intros c Hc. exists c. split; [exact Hc | constructor].
    + intros p [].
  - destruct (get idom p) as [ip| |] eqn:Eg; simpl in H; try discriminate.
    apply get_ok in Eg. destruct ip as [q|].
    + destruct cur as [c|].
      * destruct (intersect fuel idom poNum p c) as [x| |] eqn:Ei; simpl in H; try discriminate.
        destruct (intersect_chain _ _ _ _ _ _ Ei) as [Hpx Hcx].
        destruct (IH _ _ H) as [IH1 IH2]. destruct (IH1 x eq_refl) as [d [Hd Hxd]].
        split.
        -- intros c' Hc'. inversion Hc'; subst c'. exists d. split; [exact Hd | eapply chain_trans; eassumption].
        -- intros p' [Hp' | Hp'] Hproc.
           ++ subst p'. exists d. split; [exact Hd | eapply chain_trans; eassumption].
           ++ apply IH2; assumption.
      * destruct (IH _ _ H) as [IH1 IH2]. destruct (IH1 p eq_refl) as [d [Hd Hpd]].
        split; [intros c Hc; discriminate|].
        intros p' [Hp' | Hp'] Hproc; [subst p'; exists d; split; assumption | apply IH2; assumption].
    + destruct (IH _ _ H) as [IH1 IH2]. split; [exact IH1|].
      intros p' [Hp' | Hp'] Hproc; [|apply IH2; assumption].
      subst p'. destruct Hproc as [q Hq]. congruence.
Qed.

Lemma new_idom_chain : forall fuel idom poNum ps ni,
  new_idom fuel idom poNum ps = Ok ni ->
  forall p, In p ps -> processed idom p -> exists d, ni = Some d /\ chain idom p d.
Proof. intros fuel idom poNum ps ni H. exact (proj2 (new_idom_fold_chain _ _ _ _ _ _ H)). Qed.

(* ---------- every fixed point of the sweep is sound ---------- *)
(* idom is the array DURING the iteration (idom[root] = root).  If it is a fixed point of
   the per-node update at every reachable node other than the root, then every node on the
   idom chain of a reachable node b dominates b (and b has been given a dominator). *)
Section FixedPoint.
  Variables (g : graph) (r fuel : nat) (insl : list (list nat)) (poNum : list nat) (idom : list (option nat)).
  Hypothesis Hins : forall p b, In b (succs g p) -> exists ps, nth_error insl b = Some ps /\ In p ps.
  Hypothesis Hroot : link idom r r.
  Hypothesis Hfix : forall b, In b (reach g r) -> b <> r ->
    exists ps ni, nth_error insl b = Some ps /\ new_idom fuel idom poNum ps = Ok ni /\ nth_error idom b = Some ni.

  Lemma fixed_point_walk : forall l b, walk g r l b ->
    processed idom b /\ forall a, chain idom b a -> In a (r :: l).
  Proof.
    apply walk_ind_end.
    - split; [exists r; exact Hroot|]. intros a Ha. left. symmetry. eapply chain_selfloop; eassumption.
    - intros l p b Hw [Hproc Hch] Hedge.
      destruct (Nat.eq_dec b r) as [He | Hne].
      + subst b. split; [exists r; exact Hroot|]. intros a Ha. left. symmetry. eapply chain_selfloop; eassumption.
      + assert (Hb : In b (reach g r)) by (apply reach_spec; exists (l ++ [b]); eapply walk_snoc; eassumption).
        destruct (Hfix b Hb Hne) as [ps [ni [Hps [Hni Hidb]]]].
        destruct (Hins p b Hedge) as [ps' [Hps' Hin]]. assert (ps' = ps) by congruence. subst ps'.
        destruct (new_idom_chain _ _ _ _ _ Hni p Hin Hproc) as [d [Hd Hpd]]. subst ni.
        split; [exists d; exact Hidb|].
        intros a Ha. inversion Ha; subst.
        * right. apply in_or_app. right. left. reflexivity.
        * unfold link in H. assert (p0 = d) by congruence. subst p0.
          assert (Hpa : chain idom p a) by (eapply chain_trans; eassumption).
          destruct (Hch a Hpa) as [Hx | Hx]; [left; exact Hx | right; apply in_or_app; left; exact Hx].
  Qed.

  Theorem chk_fixed_point_sound : forall b a, In b (reach g r) -> chain idom b a -> dominates g r a b.
  Proof.
    intros b a Hb Hch. apply dominates_iff_paths. split; [apply reach_spec; exact Hb|].
    intros l Hw. apply (proj2 (fixed_point_walk l b Hw)). exact Hch.
  Qed.

  Lemma fixed_point_processed : forall b, In b (reach g r) -> processed idom b.
  Proof. intros b Hb. apply reach_spec in Hb. destruct Hb as [l Hw]. exact (proj1 (fixed_point_walk l b Hw)). Qed.
End FixedPoint.

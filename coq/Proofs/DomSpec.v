(* Proofs/DomSpec.v — theorems about the specification oracle of Spec/Dom.v:
   dominance by deletion = dominance by paths, dominators form a chain, the closest
   strict dominator exists and is unique and is what [idom_spec] returns, the
   frontier oracle is the set in the property's statement, the tabulated oracle used
   by the checker equals the plain one. *)
From Coq Require Import List Arith Bool Lia PeanoNat.
From MM Require Import Base.GDGraph Spec.Dom.
Import ListNotations.

(* ---------- walks: a few more facts ---------- *)
Lemma walk_end_in : forall g u l v, walk g u l v -> In v (u :: l).
Proof.
  intros g u l v H. induction H; [left; reflexivity|].
  right. exact IHwalk.
Qed.

(* split a walk at the LAST node satisfying P *)
Lemma walk_split_last : forall (P : nat -> bool) g u l v, walk g u l v ->
  (exists x, In x (u :: l) /\ P x = true) ->
  exists x l1 l2, l = l1 ++ l2 /\ walk g u l1 x /\ walk g x l2 v /\ P x = true /\
                  (forall y, In y l2 -> P y = false).
Proof.
  intros P g u l v H. induction H; intros [x [Hin HP]].
  - destruct Hin as [He | []]. subst. exists x, [], []. repeat split; try constructor; try assumption.
    intros y [].
  - destruct (existsb P (w :: l)) eqn:E.
    + apply existsb_exists in E. destruct (IHwalk E) as [x' [l1 [l2 [Hl [H1 [H2 [HP' Hall]]]]]]].
      subst. exists x', (w :: l1), l2. repeat split; try assumption. constructor; assumption.
    + assert (Hall : forall y, In y (w :: l) -> P y = false).
      { intros y Hy. destruct (P y) eqn:Ey; [|reflexivity].
        assert (existsb P (w :: l) = true) by (apply existsb_exists; exists y; split; assumption). congruence. }
      destruct Hin as [He | Hin]; [|rewrite (Hall x Hin) in HP; discriminate].
      subst. exists x, [], (w :: l). repeat split; try assumption; constructor; assumption.
Qed.

(* ---------- dominance by deletion = dominance by paths ---------- *)
Definition dom_paths (g : graph) (r a b : nat) : Prop :=
  path g r b /\ forall l, walk g r l b -> In a (r :: l).

Theorem dominates_iff_paths : forall g r a b, dominates g r a b <-> dom_paths g r a b.
Proof.
  intros g r a b. unfold dominates, dom_paths. rewrite reach_spec. split.
  - intros [Hb Ha]. split; [exact Hb|]. intros l Hw.
    destruct Ha as [He | Hn]; [subst; eapply walk_end_in; exact Hw|].
    destruct (in_dec Nat.eq_dec a (r :: l)) as [Hin | Hnin]; [exact Hin|].
    exfalso. apply Hn. apply reach_spec. exists l. apply walk_del. split; [exact Hw|].
    split; [intros Hx; apply Hnin; right; exact Hx|].
    right. intros He. apply Hnin. left. exact He.
  - intros [Hb Hall]. split; [exact Hb|].
    destruct (Nat.eq_dec a b) as [He | Hne]; [left; exact He|]. right.
    intros Hin. apply reach_spec in Hin. destruct Hin as [l Hw].
    apply walk_del in Hw. destruct Hw as [Hw [Hnl Hs]].
    destruct (Hall l Hw) as [He | Hin]; [|contradiction].
    destruct Hs as [Hs | Hs]; [|congruence].
    subst. inversion Hw; subst. congruence.
Qed.

Lemma dominates_reachable : forall g r a b, dominates g r a b -> In b (reach g r).
Proof. intros g r a b [H _]. exact H. Qed.

Lemma dominator_reachable : forall g r a b, dominates g r a b -> In a (reach g r).
Proof.
  intros g r a b H. apply dominates_iff_paths in H. destruct H as [[l Hw] Hall].
  destruct (walk_split _ _ _ _ a Hw (Hall l Hw)) as [l1 [l2 [_ [H1 _]]]].
  apply reach_spec. exists l1. exact H1.
Qed.

Lemma dominates_refl : forall g r b, In b (reach g r) -> dominates g r b b.
Proof. intros. split; [assumption | left; reflexivity]. Qed.

Lemma root_dominates : forall g r b, In b (reach g r) -> dominates g r r b.
Proof.
  intros g r b H. apply dominates_iff_paths. split; [apply reach_spec; exact H|].
  intros l _. left. reflexivity.
Qed.

Lemma dominates_trans : forall g r a b c, dominates g r a b -> dominates g r b c -> dominates g r a c.
Proof.
  intros g r a b c Hab Hbc. apply dominates_iff_paths in Hab. apply dominates_iff_paths in Hbc.
  apply dominates_iff_paths. destruct Hab as [_ Hab]. destruct Hbc as [Hc Hbc]. split; [exact Hc|].
  intros l Hw. destruct (walk_split _ _ _ _ b Hw (Hbc l Hw)) as [l1 [l2 [Hl [H1 _]]]].
  specialize (Hab l1 H1). subst. destruct Hab as [He | Hin]; [left; exact He|].
  right. apply in_or_app. left. exact Hin.
Qed.

Lemma dominates_antisym : forall g r a b, dominates g r a b -> dominates g r b a -> a = b.
Proof.
  intros g r a b Hab Hba. destruct (Nat.eq_dec a b) as [He | Hne]; [exact He|]. exfalso.
  apply dominates_iff_paths in Hab. apply dominates_iff_paths in Hba.
  destruct Hab as [[lb Hwb] Hab]. destruct Hba as [_ Hba].
  assert (Hno : forall n l x, length l < n -> (x = a \/ x = b) -> walk g r l x -> False).
  { induction n as [|n IH]; intros l x Hlen Hx Hw; [lia|].
    destruct Hx as [Hx | Hx]; subst x.
    - destruct (walk_split _ _ _ _ b Hw (Hba l Hw)) as [l1 [l2 [Hl [H1 H2]]]].
      destruct l2 as [|y l2]; [inversion H2; congruence|].
      apply (IH l1 b); [subst; rewrite app_length in Hlen; simpl in Hlen; lia | right; reflexivity | exact H1].
    - destruct (walk_split _ _ _ _ a Hw (Hab l Hw)) as [l1 [l2 [Hl [H1 H2]]]].
      destruct l2 as [|y l2]; [inversion H2; congruence|].
      apply (IH l1 a); [subst; rewrite app_length in Hlen; simpl in Hlen; lia | left; reflexivity | exact H1]. }
  apply (Hno (S (length lb)) lb b); [lia | right; reflexivity | exact Hwb].
Qed.

(* the dominators of a node are totally ordered by dominance *)
Theorem dominators_form_chain : forall g r a a' b,
  dominates g r a b -> dominates g r a' b -> dominates g r a a' \/ dominates g r a' a.
Proof.
  intros g r a a' b Ha Ha'.
  pose proof (dominator_reachable _ _ _ _ Ha) as Hra. pose proof (dominator_reachable _ _ _ _ Ha') as Hra'.
  apply dominates_iff_paths in Ha. apply dominates_iff_paths in Ha'.
  destruct Ha as [[l Hw] Hall]. destruct Ha' as [_ Hall'].
  destruct (walk_split_last (fun x => (x =? a) || (x =? a')) g r l b Hw) as [x [l1 [l2 [Hl [H1 [H2 [HP Hnone]]]]]]].
  { exists a. split; [apply Hall; exact Hw | rewrite Nat.eqb_refl; reflexivity]. }
  assert (Hn : forall y, In y l2 -> y <> a /\ y <> a').
  { intros y Hy. specialize (Hnone y Hy). apply orb_false_iff in Hnone.
    destruct Hnone as [E1 E2]. apply Nat.eqb_neq in E1. apply Nat.eqb_neq in E2. split; assumption. }
  apply orb_true_iff in HP. destruct HP as [HP | HP]; apply Nat.eqb_eq in HP; subst x.
  - (* the last of the two on the walk is a: a' dominates a *)
    right. apply dominates_iff_paths. split; [apply reach_spec; exact Hra|].
    intros w Hww. pose proof (walk_app _ _ _ _ _ _ Hww H2) as Hfull.
    destruct (Hall' _ Hfull) as [He | Hin]; [left; exact He|].
    apply in_app_or in Hin. destruct Hin as [Hin | Hin]; [right; exact Hin|].
    exfalso. apply (proj2 (Hn a' Hin)). reflexivity.
  - left. apply dominates_iff_paths. split; [apply reach_spec; exact Hra'|].
    intros w Hww. pose proof (walk_app _ _ _ _ _ _ Hww H2) as Hfull.
    destruct (Hall _ Hfull) as [He | Hin]; [left; exact He|].
    apply in_app_or in Hin. destruct Hin as [Hin | Hin]; [right; exact Hin|].
    exfalso. apply (proj1 (Hn a Hin)). reflexivity.
Qed.

(* ---------- the boolean oracle decides dominance ---------- *)
Lemma domb_spec : forall g r a b, domb (reach g r) (avoid g r) a b = true <-> dominates g r a b.
Proof.
  intros g r a b. unfold domb, dominates, avoid.
  rewrite andb_true_iff, orb_true_iff, memb_In, Nat.eqb_eq, negb_true_iff, memb_false. tauto.
Qed.

Lemma sdomb_spec : forall g r a b, sdomb (reach g r) (avoid g r) a b = true <-> sdominates g r a b.
Proof.
  intros g r a b. unfold sdomb, sdominates. rewrite andb_true_iff, domb_spec, negb_true_iff, Nat.eqb_neq. tauto.
Qed.

Lemma sdoms_spec : forall g r a b, In a (sdoms (reach g r) (avoid g r) b) <-> sdominates g r a b.
Proof.
  intros g r a b. unfold sdoms. rewrite filter_In, sdomb_spec. split; [tauto|].
  intros H. split; [|exact H]. destruct H as [H _]. eapply dominator_reachable; exact H.
Qed.

(* a finite non-empty chain has an element that all others are below *)
Lemma chain_has_top : forall (D : nat -> nat -> Prop) (L : list nat),
  L <> [] ->
  (forall x, In x L -> D x x) ->
  (forall x y z, D x y -> D y z -> D x z) ->
  (forall x y, In x L -> In y L -> D x y \/ D y x) ->
  exists d, In d L /\ forall a, In a L -> D a d.
Proof.
  intros D L. induction L as [|x L IH]; intros Hne Hrefl Htr Htot; [congruence|].
  destruct L as [|y L'].
  - exists x. split; [left; reflexivity|]. intros a [Ha | []]. subst. apply Hrefl. left. reflexivity.
  - destruct IH as [d [Hd Hall]].
    + discriminate.
    + intros z Hz. apply Hrefl. right. exact Hz.
    + exact Htr.
    + intros u v Hu Hv. apply Htot; right; assumption.
    + destruct (Htot x d) as [Hxd | Hdx]; [left; reflexivity | right; exact Hd | |].
      * exists d. split; [right; exact Hd|]. intros a [Ha | Ha]; [subst; exact Hxd | apply Hall; exact Ha].
      * exists x. split; [left; reflexivity|]. intros a [Ha | Ha].
        -- subst. apply Hrefl. left. reflexivity.
        -- eapply Htr; [apply Hall; exact Ha | exact Hdx].
Qed.

(* closest strict dominator: d strictly dominates b and every strict dominator of b dominates d *)
Definition closest_sdom (g : graph) (r d b : nat) : Prop :=
  sdominates g r d b /\ forall a, sdominates g r a b -> dominates g r a d.

Lemma closest_sdom_unique : forall g r d d' b, closest_sdom g r d b -> closest_sdom g r d' b -> d = d'.
Proof.
  intros g r d d' b [Hd Hall] [Hd' Hall'].
  apply (dominates_antisym g r); [apply Hall'; exact Hd | apply Hall; exact Hd'].
Qed.

Lemma closest_sdom_exists : forall g r b, In b (reach g r) -> b <> r -> exists d, closest_sdom g r d b.
Proof.
  intros g r b Hb Hne.
  destruct (chain_has_top (dominates g r) (sdoms (reach g r) (avoid g r) b)) as [d [Hd Hall]].
  - intros He. assert (In r (sdoms (reach g r) (avoid g r) b)).
    { apply sdoms_spec. split; [apply root_dominates; exact Hb | congruence]. }
    rewrite He in H. destruct H.
  - intros x Hx. apply sdoms_spec in Hx. apply dominates_refl. eapply dominator_reachable. exact (proj1 Hx).
  - intros x y z. apply dominates_trans.
  - intros x y Hx Hy. apply sdoms_spec in Hx. apply sdoms_spec in Hy.
    eapply dominators_form_chain; [exact (proj1 Hx) | exact (proj1 Hy)].
  - exists d. split; [apply sdoms_spec; exact Hd|].
    intros a Ha. apply Hall. apply sdoms_spec. exact Ha.
Qed.

(* what idom_spec returns *)
Lemma idom_spec_some : forall g r b d, idom_spec g r b = Some d <-> closest_sdom g r d b.
Proof.
  intros g r b d. unfold idom_spec, idom_of. split.
  - intros H. apply find_some in H. destruct H as [Hin Hall].
    rewrite forallb_forall in Hall. split; [apply sdoms_spec; exact Hin|].
    intros a Ha. apply domb_spec. apply Hall. apply sdoms_spec. exact Ha.
  - intros Hc.
    destruct (find (fun d0 => forallb (fun a => domb (reach g r) (avoid g r) a d0) (sdoms (reach g r) (avoid g r) b))
                   (sdoms (reach g r) (avoid g r) b)) as [d0|] eqn:E.
    + f_equal. apply (closest_sdom_unique g r d0 d b); [|exact Hc].
      apply find_some in E. destruct E as [Hin Hall]. rewrite forallb_forall in Hall.
      split; [apply sdoms_spec; exact Hin|]. intros a Ha. apply domb_spec. apply Hall. apply sdoms_spec. exact Ha.
    + exfalso. destruct Hc as [Hd Hall].
      pose proof (find_none _ _ E d (proj2 (sdoms_spec g r d b) Hd)) as Hf. simpl in Hf.
      assert (forallb (fun a => domb (reach g r) (avoid g r) a d) (sdoms (reach g r) (avoid g r) b) = true).
      { apply forallb_forall. intros a Ha. apply domb_spec. apply Hall. apply sdoms_spec. exact Ha. }
      congruence.
Qed.

(* IDom as the property words it: for a reachable node other than the root, the unique closest
   strict dominator *)
Theorem idom_spec_unique : forall g r b, In b (reach g r) -> b <> r ->
  exists d, idom_spec g r b = Some d /\ closest_sdom g r d b /\ forall d', closest_sdom g r d' b -> d' = d.
Proof.
  intros g r b Hb Hne. destruct (closest_sdom_exists g r b Hb Hne) as [d Hd].
  exists d. split; [apply idom_spec_some; exact Hd|]. split; [exact Hd|].
  intros d' Hd'. eapply closest_sdom_unique; eassumption.
Qed.

(* ... and -1 for the root and for unreachable nodes *)
Theorem idom_spec_root_unreachable : forall g r b, b = r \/ ~ In b (reach g r) -> idom_spec g r b = None.
Proof.
  intros g r b H. destruct (idom_spec g r b) as [d|] eqn:E; [|reflexivity]. exfalso.
  apply idom_spec_some in E. destruct E as [[Hd Hne] _].
  destruct H as [H | H].
  - subst b. apply Hne. apply (dominates_antisym g r); [exact Hd|].
    apply root_dominates. eapply dominator_reachable. exact Hd.
  - apply H. eapply dominates_reachable. exact Hd.
Qed.

Lemma idom_spec_list_nth : forall g r b, b < length g -> nth_error (idom_spec_list g r) b = Some (idom_spec g r b).
Proof.
  intros g r b H. unfold idom_spec_list. rewrite nth_error_map, nth_error_nth' with (d := 0) by (rewrite seq_length; exact H).
  rewrite seq_nth by exact H. reflexivity.
Qed.

(* ---------- the dominator tree inverts idom ---------- *)
Theorem children_of_spec : forall idom i j,
  In j (children_of idom i) <-> nth_error idom j = Some (Some i).
Proof.
  intros idom i j. unfold children_of. rewrite filter_In, in_seq. split.
  - intros [[_ Hj] H]. simpl in Hj.
    rewrite nth_error_nth' with (d := None) by exact Hj.
    destruct (nth j idom None) as [p|]; [|discriminate]. apply Nat.eqb_eq in H. subst. reflexivity.
  - intros H. assert (Hj : j < length idom) by (apply nth_error_Some; congruence).
    split; [simpl; lia|]. rewrite nth_error_nth' with (d := None) in H by exact Hj.
    injection H as H. rewrite H. apply Nat.eqb_refl.
Qed.

(* ---------- the frontier oracle is the set in the statement ---------- *)
Lemma preds_spec : forall g y p, In p (preds g y) <-> In y (succs g p).
Proof.
  intros g y p. unfold preds. rewrite filter_In, in_seq, memb_In. split; [tauto|].
  intros H. split; [|exact H]. pose proof (succs_lt _ _ _ H). lia.
Qed.

Theorem df_spec_def : forall g r x y,
  In y (df_spec g r x) <->
  In y (reach g r) /\
  (exists p, In y (succs g p) /\ In p (reach g r) /\ dominates g r x p) /\
  ~ sdominates g r x y.
Proof.
  intros g r x y. unfold df_spec, df_of. rewrite filter_In, andb_true_iff, existsb_exists, negb_true_iff.
  split.
  - intros [Hy [[p [Hp Hd]] Hs]]. split; [exact Hy|]. split.
    + exists p. apply preds_spec in Hp. apply domb_spec in Hd.
      split; [exact Hp|]. split; [eapply dominates_reachable; exact Hd | exact Hd].
    + intros Hsd. apply sdomb_spec in Hsd. congruence.
  - intros [Hy [[p [Hp [_ Hd]]] Hs]]. split; [exact Hy|]. split.
    + exists p. split; [apply preds_spec; exact Hp | apply domb_spec; exact Hd].
    + destruct (sdomb (reach g r) (avoid g r) x y) eqn:E; [|reflexivity].
      exfalso. apply Hs. apply sdomb_spec. exact E.
Qed.

(* ---------- the tabulated oracle used by the checker equals the plain one ---------- *)
Lemma lookup_table : forall g r R a, In a R -> lookup (avoid_table_on g r R) a = avoid g r a.
Proof.
  intros g r R a. unfold lookup, avoid_table_on, avoid. induction R as [|x R IH]; intros Hin; [destruct Hin|].
  simpl. destruct (x =? a) eqn:E.
  - apply Nat.eqb_eq in E. subst. reflexivity.
  - apply IH. destruct Hin as [He | Hin]; [apply Nat.eqb_neq in E; congruence | exact Hin].
Qed.

Section Ext.
  Variables (g : graph) (R : list nat) (av av' : nat -> list nat).
  Hypothesis Hext : forall a, In a R -> av a = av' a.

  Lemma domb_ext : forall a b, In a R -> domb R av a b = domb R av' a b.
  Proof. intros a b Ha. unfold domb. rewrite (Hext a Ha). reflexivity. Qed.

  Lemma filter_ext_in' : forall (f f' : nat -> bool) (l : list nat), (forall x, In x l -> f x = f' x) -> filter f l = filter f' l.
  Proof.
    intros f f' l. induction l as [|x l IH]; intros H; [reflexivity|]. simpl.
    rewrite (H x (or_introl eq_refl)). rewrite IH; [reflexivity|]. intros y Hy. apply H. right. exact Hy.
  Qed.

  Lemma sdoms_ext : forall b, sdoms R av b = sdoms R av' b.
  Proof.
    intros b. unfold sdoms. apply filter_ext_in'. intros a Ha. unfold sdomb. rewrite (domb_ext a b Ha). reflexivity.
  Qed.

  Lemma sdoms_incl : forall b a, In a (sdoms R av' b) -> In a R.
  Proof. intros b a H. unfold sdoms in H. apply filter_In in H. tauto. Qed.

  Lemma forallb_ext_in : forall (f f' : nat -> bool) (l : list nat), (forall x, In x l -> f x = f' x) -> forallb f l = forallb f' l.
  Proof.
    intros f f' l. induction l as [|x l IH]; intros H; [reflexivity|]. simpl.
    rewrite (H x (or_introl eq_refl)). rewrite IH; [reflexivity|]. intros y Hy. apply H. right. exact Hy.
  Qed.

  Lemma idom_of_ext : forall b, idom_of R av b = idom_of R av' b.
  Proof.
    intros b. unfold idom_of. rewrite sdoms_ext.
    assert (H : forall l, find (fun d => forallb (fun a => domb R av a d) (sdoms R av' b)) l
                        = find (fun d => forallb (fun a => domb R av' a d) (sdoms R av' b)) l).
    { induction l as [|x l IH]; [reflexivity|]. simpl.
      rewrite (forallb_ext_in (fun a => domb R av a x) (fun a => domb R av' a x)).
      - rewrite IH. reflexivity.
      - intros a Ha. apply domb_ext. eapply sdoms_incl. exact Ha. }
    apply H.
  Qed.

  Lemma df_of_ext : forall x, In x R -> df_of g R av x = df_of g R av' x.
  Proof.
    intros x Hx. unfold df_of. apply filter_ext_in'. intros y Hy. unfold sdomb.
    rewrite (domb_ext x y Hx). f_equal.
    induction (preds g y) as [|p l IH]; [reflexivity|]. simpl. rewrite (domb_ext x p Hx), IH. reflexivity.
  Qed.
End Ext.

(* what Check/C19.v computes is the specification *)
Theorem oracle_table_correct : forall g r,
  let R := reach g r in
  let av := lookup (avoid_table_on g r R) in
  map (idom_of R av) (seq 0 (length g)) = idom_spec_list g r /\
  forall x, In x R -> df_of g R av x = df_spec g r x.
Proof.
  intros g r R av. split.
  - unfold idom_spec_list. apply map_ext. intros b. unfold idom_spec.
    apply idom_of_ext. intros a Ha. apply lookup_table. exact Ha.
  - intros x Hx. unfold df_spec. apply df_of_ext; [|exact Hx].
    intros a Ha. apply lookup_table. exact Ha.
Qed.

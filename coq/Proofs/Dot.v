(* scratch/Dot.v -- theorems about the functional model of the Graphviz dot printer (Model/Dot.v) *)
From Coq Require Import List NArith ZArith Lia Bool.
From MM Require Import Base.GCGraph Base.GCReach Model.Dot.
Import ListNotations.

(* ------------------------------------------------------------------ *)
(* D1: unescape (dot_string s) = Some s                                *)
(* ------------------------------------------------------------------ *)

Lemma unescape_body_quote : forall r, unescape_body (34%N :: r) = Some ([], r).
Proof. intros r. reflexivity. Qed.

Lemma unescape_body_bs : forall d r,
  unescape_body (92%N :: d :: r) =
  match unescape_body r with
  | Some (s, rest) => Some ((if (d =? 110)%N then 10%N else d) :: s, rest)
  | None => None
  end.
Proof. intros d r. reflexivity. Qed.

Lemma unescape_body_plain : forall c r, c <> 34%N -> c <> 92%N ->
  unescape_body (c :: r) =
  match unescape_body r with
  | Some (s, rest) => Some (c :: s, rest)
  | None => None
  end.
Proof.
  intros c r H34 H92. cbn [unescape_body].
  apply N.eqb_neq in H34. apply N.eqb_neq in H92.
  rewrite H34, H92. reflexivity.
Qed.

Lemma dot_special_cases : forall c, dot_special c = true ->
  c = 92%N \/ c = 34%N \/ c = 123%N \/ c = 125%N \/ c = 60%N \/ c = 62%N \/ c = 124%N.
Proof.
  intros c H. unfold dot_special in H.
  repeat rewrite orb_true_iff in H. repeat rewrite N.eqb_eq in H.
  tauto.
Qed.

Lemma dot_special_not110 : forall c, dot_special c = true -> (c =? 110)%N = false.
Proof.
  intros c H. apply N.eqb_neq. apply dot_special_cases in H. lia.
Qed.

Lemma dot_plain_not_quote_bs : forall c, dot_special c = false -> c <> 34%N /\ c <> 92%N.
Proof.
  intros c H. unfold dot_special in H.
  repeat rewrite orb_false_iff in H. repeat rewrite N.eqb_neq in H.
  tauto.
Qed.

Lemma unescape_body_esc : forall s rest,
  unescape_body (flat_map dot_esc s ++ 34%N :: rest) = Some (s, rest).
Proof.
  induction s as [|c s IH]; intros rest.
  - cbn [flat_map app]. apply unescape_body_quote.
  - cbn [flat_map]. rewrite <- app_assoc. unfold dot_esc at 1.
    destruct (N.eqb_spec c 10) as [E10|E10].
    + subst c. cbn [app]. rewrite unescape_body_bs. rewrite IH. reflexivity.
    + destruct (dot_special c) eqn:Esp.
      * cbn [app]. rewrite unescape_body_bs. rewrite IH.
        rewrite (dot_special_not110 c Esp). reflexivity.
      * cbn [app]. destruct (dot_plain_not_quote_bs c Esp) as [H34 H92].
        rewrite (unescape_body_plain c _ H34 H92). rewrite IH. reflexivity.
Qed.

Theorem dot_unescape_roundtrip : forall s : bytes, unescape (dot_string s) = Some s.
Proof.
  intros s. unfold dot_string, unescape.
  change ((34 =? 34)%N) with true. cbv iota.
  rewrite unescape_body_esc. reflexivity.
Qed.

(* D2 *)
Corollary dot_string_inj : forall s t, dot_string s = dot_string t -> s = t.
Proof.
  intros s t H.
  pose proof (dot_unescape_roundtrip s) as Hs.
  pose proof (dot_unescape_roundtrip t) as Ht.
  rewrite H in Hs. rewrite Hs in Ht. injection Ht as Ht. exact Ht.
Qed.

(* ------------------------------------------------------------------ *)
(* D3: decimal printing is injective                                   *)
(* ------------------------------------------------------------------ *)

Definition undec (l : bytes) : N := fold_left (fun a c => (10 * a + (c - 48))%N) l 0%N.

Definition dstep (a c : N) : N := (10 * a + (c - 48))%N.
Definition dvalue (l : bytes) (a : N) : N := fold_left dstep l a.

Lemma dvalue_cons : forall c l a, dvalue (c :: l) a = dvalue l (10 * a + (c - 48))%N.
Proof. intros c l a. reflexivity. Qed.

Lemma dec_digits_S : forall f n acc,
  dec_digits (S f) n acc =
  if (n <? 10)%N then (48 + n mod 10)%N :: acc
  else dec_digits f (n / 10)%N ((48 + n mod 10)%N :: acc).
Proof. intros f n acc. reflexivity. Qed.

Lemma dvalue_dec_digits : forall fuel n acc,
  (n < 10 ^ N.of_nat fuel)%N -> (0 < fuel)%nat ->
  dvalue (dec_digits fuel n acc) 0%N = dvalue acc n.
Proof.
  induction fuel as [|f IH]; intros n acc Hlt Hpos.
  - lia.
  - rewrite dec_digits_S.
    destruct (N.ltb_spec n 10) as [Hn|Hn].
    + rewrite dvalue_cons. f_equal.
      rewrite (N.mod_small n 10 Hn). lia.
    + assert (Hdiv : (n / 10 < 10 ^ N.of_nat f)%N).
      { apply N.div_lt_upper_bound. lia.
        rewrite Nat2N.inj_succ, N.pow_succ_r' in Hlt. exact Hlt. }
      assert (Hf : (0 < f)%nat).
      { destruct f as [|f']. 2: lia.
        change (10 ^ N.of_nat 1)%N with 10%N in Hlt. lia. }
      rewrite (IH (n / 10)%N _ Hdiv Hf).
      rewrite dvalue_cons. f_equal.
      pose proof (N.div_mod' n 10) as Hdm. clear IH Hlt Hdiv.
      remember (n / 10)%N as q eqn:Eq. remember (n mod 10)%N as r eqn:Er. clear Eq Er. lia.
Qed.

Lemma pos_lt_pow10_size : forall p, (N.pos p < 10 ^ N.of_nat (Pos.size_nat p))%N.
Proof.
  induction p as [p IH|p IH|]; cbn [Pos.size_nat].
  - rewrite Nat2N.inj_succ, N.pow_succ_r'.
    remember (10 ^ N.of_nat (Pos.size_nat p))%N as K eqn:EK. lia.
  - rewrite Nat2N.inj_succ, N.pow_succ_r'.
    remember (10 ^ N.of_nat (Pos.size_nat p))%N as K eqn:EK. lia.
  - change (10 ^ N.of_nat 1)%N with 10%N. lia.
Qed.

Lemma N_lt_pow10_fuel : forall n, (n < 10 ^ N.of_nat (S (N.size_nat n)))%N.
Proof.
  intros n. rewrite Nat2N.inj_succ, N.pow_succ_r'.
  destruct n as [|p].
  - cbn [N.size_nat]. change (10 ^ N.of_nat 0)%N with 1%N. lia.
  - cbn [N.size_nat]. pose proof (pos_lt_pow10_size p) as H.
    remember (10 ^ N.of_nat (Pos.size_nat p))%N as K eqn:EK. lia.
Qed.

Theorem undec_dec : forall n, undec (dec_N n) = n.
Proof.
  intros n. unfold dec_N.
  change (undec (dec_digits (S (N.size_nat n)) n []))
    with (dvalue (dec_digits (S (N.size_nat n)) n []) 0%N).
  rewrite dvalue_dec_digits.
  - reflexivity.
  - apply N_lt_pow10_fuel.
  - lia.
Qed.

Corollary dec_N_inj : forall a b, dec_N a = dec_N b -> a = b.
Proof.
  intros a b H. rewrite <- (undec_dec a), <- (undec_dec b). rewrite H. reflexivity.
Qed.

(* ------------------------------------------------------------------ *)
(* D4: every node and edge is named exactly once, in order             *)
(* ------------------------------------------------------------------ *)

Definition stmt_node (s : stmt) : option N :=
  match s with SNode i _ => Some i | SEdge _ _ _ => None end.
Definition stmt_edge (s : stmt) : option (N * N) :=
  match s with SEdge i o _ => Some (i, o) | SNode _ _ => None end.
Fixpoint somes {A} (l : list (option A)) : list A :=
  match l with [] => [] | Some a :: t => a :: somes t | None :: t => somes t end.

Lemma somes_app : forall A (a b : list (option A)), somes (a ++ b) = somes a ++ somes b.
Proof.
  intros A a b. induction a as [|x a IH].
  - reflexivity.
  - destruct x as [x|]; cbn [app somes]; rewrite IH; reflexivity.
Qed.

Lemma edge_stmts_nodes : forall d i outs j, somes (map stmt_node (edge_stmts d i outs j)) = [].
Proof.
  intros d i outs. induction outs as [|o t IH]; intros j.
  - reflexivity.
  - cbn [edge_stmts map stmt_node somes]. apply IH.
Qed.

Lemma edge_stmts_edges : forall d i outs j,
  somes (map stmt_edge (edge_stmts d i outs j)) = map (fun o => (i, o)) outs.
Proof.
  intros d i outs. induction outs as [|o t IH]; intros j.
  - reflexivity.
  - cbn [edge_stmts map stmt_edge somes]. rewrite IH. reflexivity.
Qed.

Lemma dot_nodes_once_gen : forall d out (l : list N),
  somes (map stmt_node
    (flat_map (fun i => SNode i (node_attrs d i) :: edge_stmts d i (out i) 0%N) l)) = l.
Proof.
  intros d out l. induction l as [|a l IH].
  - reflexivity.
  - cbn [flat_map]. cbn [app map stmt_node somes].
    rewrite map_app, somes_app, edge_stmts_nodes, IH. reflexivity.
Qed.

Theorem dot_nodes_once : forall d out n,
  somes (map stmt_node (dot_stmts d out n)) = nodes_upto n.
Proof. intros d out n. unfold dot_stmts. apply dot_nodes_once_gen. Qed.

Lemma dot_edges_once_gen : forall d out (l : list N),
  somes (map stmt_edge
    (flat_map (fun i => SNode i (node_attrs d i) :: edge_stmts d i (out i) 0%N) l))
  = flat_map (fun i => map (fun o => (i, o)) (out i)) l.
Proof.
  intros d out l. induction l as [|a l IH].
  - reflexivity.
  - cbn [flat_map]. cbn [app map stmt_edge somes].
    rewrite map_app, somes_app, edge_stmts_edges, IH. reflexivity.
Qed.

Theorem dot_edges_once : forall d out n,
  somes (map stmt_edge (dot_stmts d out n))
  = flat_map (fun i => map (fun o => (i, o)) (out i)) (nodes_upto n).
Proof. intros d out n. unfold dot_stmts. apply dot_edges_once_gen. Qed.

Theorem dot_node_has_label : forall d i,
  existsb (fun a => bytes_eqb (fst a) str_label) (node_attrs d i) = true.
Proof.
  intros d i. unfold node_attrs.
  set (l := match d_nattrs d with Some f => f i | None => [] end).
  destruct (existsb (fun a => bytes_eqb (fst a) str_label) l) eqn:E.
  - exact E.
  - rewrite existsb_app. apply orb_true_iff. right. reflexivity.
Qed.

Theorem dot_edge_attr_index : forall d i outs j k o, nth_error outs k = Some o ->
  nth_error (edge_stmts d i outs j) k =
  Some (SEdge i o (match d_eattrs d with
                   | Some f => Some (f i (j + N.of_nat k)%N)
                   | None => None
                   end)).
Proof.
  intros d i outs. induction outs as [|o' t IH]; intros j k o Hk.
  - destruct k; discriminate Hk.
  - destruct k as [|k'].
    + cbn [nth_error] in Hk. injection Hk as Hk. subst o'.
      cbn [edge_stmts nth_error]. change (N.of_nat 0) with 0%N.
      rewrite N.add_0_r. reflexivity.
    + cbn [nth_error] in Hk. cbn [edge_stmts nth_error].
      rewrite (IH (j + 1)%N k' o Hk).
      replace (j + 1 + N.of_nat k')%N with (j + N.of_nat (S k'))%N by lia.
      reflexivity.
Qed.

(* ------------------------------------------------------------------ *)
(* D5: shape of the output                                             *)
(* ------------------------------------------------------------------ *)

Theorem dot_sprint_shape : forall d out n b, dot_sprint d out n = Some b ->
  exists body, render_all (dot_stmts d out n) = Some body /\
    b = ([100; 105; 103; 114; 97; 112; 104; 32] ++ dot_string (d_name d) ++ [32; 123; 10]
         ++ body ++ [125; 10])%N.
Proof.
  intros d out n b H. unfold dot_sprint in H.
  destruct (render_all (dot_stmts d out n)) as [body|] eqn:E.
  - exists body. split. reflexivity.
    cbn [option_map] in H. injection H as H. symmetry. exact H.
  - discriminate H.
Qed.

Theorem render_all_app : forall l1 l2 b1 b2,
  render_all l1 = Some b1 -> render_all l2 = Some b2 ->
  render_all (l1 ++ l2) = Some (b1 ++ b2).
Proof.
  induction l1 as [|s t IH]; intros l2 b1 b2 H1 H2.
  - cbn [render_all] in H1. injection H1 as H1. subst b1. exact H2.
  - cbn [app render_all]. cbn [render_all] in H1.
    destruct (render_stmt s) as [x|]; [|discriminate H1].
    destruct (render_all t) as [y|] eqn:Et; [|discriminate H1].
    cbn [opt_app] in H1. injection H1 as H1. subst b1.
    rewrite (IH l2 y b2 eq_refl H2). cbn [opt_app]. rewrite app_assoc. reflexivity.
Qed.

Lemma render_all_no_panic : forall l,
  (forall s, In s l -> render_stmt s <> None) -> render_all l <> None.
Proof.
  induction l as [|s t IH]; intros H.
  - discriminate.
  - cbn [render_all].
    assert (Hs : render_stmt s <> None) by (apply H; left; reflexivity).
    assert (Ht : render_all t <> None) by (apply IH; intros s' Hin; apply H; right; exact Hin).
    destruct (render_stmt s) as [x|]; [|congruence].
    destruct (render_all t) as [y|]; [|congruence].
    discriminate.
Qed.

Theorem dot_sprint_no_panic : forall d out n,
  (forall s, In s (dot_stmts d out n) -> render_stmt s <> None) -> dot_sprint d out n <> None.
Proof.
  intros d out n H. unfold dot_sprint.
  pose proof (render_all_no_panic _ H) as Hr.
  destruct (render_all (dot_stmts d out n)) as [body|]; [|congruence].
  discriminate.
Qed.

Print Assumptions dot_unescape_roundtrip.
Print Assumptions dot_string_inj.
Print Assumptions undec_dec.
Print Assumptions dec_N_inj.
Print Assumptions dot_nodes_once.
Print Assumptions dot_edges_once.
Print Assumptions dot_node_has_label.
Print Assumptions dot_edge_attr_index.
Print Assumptions dot_sprint_shape.
Print Assumptions render_all_app.
Print Assumptions dot_sprint_no_panic.

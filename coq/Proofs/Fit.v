(* Proofs/Fit.v — least squares, polynomial regression and LOESS (C15). *)
From MM Require Import Base.Num Model.Fit.
From Coq Require Import Field Lqa Setoid Morphisms Permutation Sorted.
Local Open Scope Q_scope.

(* ---------- small facts ---------- *)
Lemma Qeqb_true a b : Qeqb a b = true <-> a == b.
Proof. unfold Qeqb. apply Qeq_bool_iff. Qed.

Lemma veqb_Forall2 a b : veqb a b = true -> Forall2 Qeq a b.
Proof.
  revert b. induction a as [|x a IH]; intros [|y b] H; cbn in H; try discriminate; constructor.
  - apply andb_prop in H as [H _]. now apply Qeqb_true.
  - apply andb_prop in H as [_ H]. now apply IH.
Qed.

Lemma Forall2_cons_inv {A B} (R : A -> B -> Prop) x a y b : Forall2 R (x :: a) (y :: b) -> R x y /\ Forall2 R a b.
Proof. intros H. inversion H; subst. now split. Qed.
Lemma Forall2_Qeq_refl l : Forall2 Qeq l l.
Proof. induction l; constructor; [reflexivity | assumption]. Qed.
Lemma Forall2_Qeq_sym a b : Forall2 Qeq a b -> Forall2 Qeq b a.
Proof. induction 1; constructor; [now symmetry | assumption]. Qed.
Lemma Forall2_Qeq_trans a b c : Forall2 Qeq a b -> Forall2 Qeq b c -> Forall2 Qeq a c.
Proof.
  intros H; revert c. induction H as [|x y a b Hxy Hab IH]; intros c Hc; inversion Hc; subst; constructor.
  - now rewrite Hxy. - now apply IH.
Qed.

(* [dot] is the plain sum of products (the Qred inside only keeps numbers small) *)
Lemma dot_cons x a y b : dot (x :: a) (y :: b) == x * y + dot a b.
Proof. cbn [dot]. apply Qred_correct. Qed.
Lemma dot3_cons x a u w y b : dot3 (x :: a) (u :: w) (y :: b) == x * u * y + dot3 a w b.
Proof. cbn [dot3]. apply Qred_correct. Qed.
Lemma dot_nil_r a : dot a [] = 0.
Proof. destruct a; reflexivity. Qed.

Lemma dot_ext_r r a b : Forall2 Qeq a b -> dot r a == dot r b.
Proof.
  intros H; revert r. induction H as [|x y a b Hxy Hab IH]; intros [|z r]; try reflexivity.
  rewrite !dot_cons, Hxy, IH. reflexivity.
Qed.

(* ---------- solve_checked is sound (by construction: the answer is verified) ---------- *)
Lemma dot_sol_to_Q r D N : ~ inject_Z D == 0 ->
  dot r (sol_to_Q D N) == dot r (map inject_Z N) / inject_Z D.
Proof.
  intros HD. revert r. induction N as [|n N IH]; intros [|x r]; cbn [sol_to_Q map].
  - cbn. field. exact HD.
  - cbn. field. exact HD.
  - cbn. field. exact HD.
  - fold (sol_to_Q D N). rewrite !dot_cons, IH, Qred_correct. field. exact HD.
Qed.

Lemma sol_ok_sound A b N D : sol_ok A b N D = true -> (D <> 0)%Z ->
  Forall2 Qeq (mat_vec A (sol_to_Q D N)) b /\ length (sol_to_Q D N) = length b /\ length A = length b.
Proof.
  unfold sol_ok. intros H HD.
  apply andb_prop in H as [H H3]. apply andb_prop in H as [H1 H2].
  apply Nat.eqb_eq in H1. apply Nat.eqb_eq in H2.
  assert (HDq : ~ inject_Z D == 0).
  { intro E. apply HD. unfold Qeq in E. cbn in E. lia. }
  split; [|split; [unfold sol_to_Q; now rewrite map_length | exact H2]].
  apply veqb_Forall2 in H3. unfold mat_vec in *.
  clear H1 H2. revert b H3. induction A as [|r A IH]; intros b H3; cbn [map] in *.
  - inversion H3 as [E1 E2|]. destruct b; [constructor | discriminate].
  - destruct b as [|y b]; cbn [map] in H3; [inversion H3|]. apply Forall2_cons_inv in H3 as [Hhd Htl]. constructor.
    + rewrite dot_sol_to_Q by exact HDq. rewrite Hhd, Qred_correct. field. exact HDq.
    + now apply IH.
Qed.

Lemma solve_multi_Z_sound A bs Ns D : solve_multi_Z A bs = Some (Ns, D) ->
  (D <> 0)%Z /\ Forall2 (fun b N => sol_ok A b N D = true) bs Ns.
Proof.
  unfold solve_multi_Z. destruct (bareiss _ _ _) as [[M D']|]; [|discriminate].
  destruct (negb (D' =? 0)%Z && _ && _) eqn:E; [|discriminate].
  intros H; inversion H; subst; clear H.
  apply andb_prop in E as [E E3]. apply andb_prop in E as [E1 E2].
  apply negb_true_iff, Z.eqb_neq in E1. apply Nat.eqb_eq in E2. split; [exact E1|].
  rewrite forallb_forall in E3.
  remember (transpose_Z (length bs) M) as Ns. clear HeqNs. symmetry in E2.
  revert Ns E2 E3. induction bs as [|b bs IH]; intros [|N Ns] E2 E3; try discriminate; constructor.
  - apply (E3 (b, N)). now left.
  - apply IH; [now inversion E2 | intros p Hp; apply E3; now right].
Qed.

(* every answer of the multi-right-hand-side solver satisfies its system exactly *)
Lemma solve_multi_checked_sound A bs sols : solve_multi_checked A bs = Some sols ->
  Forall2 (fun b beta => Forall2 Qeq (mat_vec A beta) b /\ length beta = length b /\ length A = length b) bs sols.
Proof.
  unfold solve_multi_checked. destruct (solve_multi_Z A bs) as [[Ns D]|] eqn:E; [|discriminate].
  intros H; inversion H; subst; clear H. apply solve_multi_Z_sound in E as [HD F].
  induction F; cbn [map]; constructor; [now apply sol_ok_sound | assumption].
Qed.

Theorem solve_checked_sound A b beta : solve_checked A b = Some beta ->
  Forall2 Qeq (mat_vec A beta) b /\ length beta = length b /\ length A = length b.
Proof.
  unfold solve_checked. destruct (solve_multi_checked A [b]) as [[|s [|]]|] eqn:E; try discriminate.
  intros H; inversion H; subst. apply solve_multi_checked_sound in E. inversion E; subst. assumption.
Qed.

(* Proofs/Fit.v — least squares, polynomial regression and LOESS (C15). *)
From MM Require Import Base.Num Model.Fit.
From Coq Require Import Field Lqa Setoid Morphisms Permutation Sorted.
Local Open Scope Q_scope.

(* ---------- small facts ---------- *)
Lemma Qeqb_true a b : Qeqb a b = true <-> a == b.
Proof. unfold Qeqb. apply Qeq_bool_iff. Qed.

Lemma veqb_Forall2 a b : veqb a b = true -> Forall2 Qeq a b.
Proof.
  revert b. induction a as [|x a IH]; intros [|y b] H; cbn in H; try discriminate; constructor.
  - apply andb_prop in H as [H _]. now apply Qeqb_true.
  - apply andb_prop in H as [_ H]. now apply IH.
Qed.

Lemma Forall2_cons_inv {A B} (R : A -> B -> Prop) x a y b : Forall2 R (x :: a) (y :: b) -> R x y /\ Forall2 R a b.
Proof. intros H. inversion H; subst. now split. Qed.
Lemma Forall2_Qeq_refl l : Forall2 Qeq l l.
Proof. induction l; constructor; [reflexivity | assumption]. Qed.
Lemma Forall2_Qeq_sym a b : Forall2 Qeq a b -> Forall2 Qeq b a.
Proof. induction 1; constructor; [now symmetry | assumption]. Qed.
Lemma Forall2_Qeq_trans a b c : Forall2 Qeq a b -> Forall2 Qeq b c -> Forall2 Qeq a c.
Proof.
  intros H; revert c. induction H as [|x y a b Hxy Hab IH]; intros c Hc; inversion Hc; subst; constructor.
  - now rewrite Hxy. - now apply IH.
Qed.

(* [dot] is the plain sum of products (the Qred inside only keeps numbers small) *)
Lemma dot_cons x a y b : dot (x :: a) (y :: b) == x * y + dot a b.
Proof. cbn [dot]. apply Qred_correct. Qed.
Lemma dot3_cons x a u w y b : dot3 (x :: a) (u :: w) (y :: b) == x * u * y + dot3 a w b.
Proof. cbn [dot3]. apply Qred_correct. Qed.
Lemma dot_nil_r a : dot a [] = 0.
Proof. destruct a; reflexivity. Qed.

Lemma dot_ext_r r a b : Forall2 Qeq a b -> dot r a == dot r b.
Proof.
  intros H; revert r. induction H as [|x y a b Hxy Hab IH]; intros [|z r]; try reflexivity.
  rewrite !dot_cons, Hxy, IH. reflexivity.
Qed.

(* ---------- solve_checked is sound (by construction: the answer is verified) ---------- *)
Lemma dot_sol_to_Q r D N : ~ inject_Z D == 0 ->
  dot r (sol_to_Q D N) == dot r (map inject_Z N) / inject_Z D.
Proof.
  intros HD. revert r. induction N as [|n N IH]; intros [|x r]; cbn [sol_to_Q map].
  - cbn. field. exact HD.
  - cbn. field. exact HD.
  - cbn. field. exact HD.
  - fold (sol_to_Q D N). rewrite !dot_cons, IH, Qred_correct. field. exact HD.
Qed.

Lemma sol_ok_sound A b N D : sol_ok A b N D = true -> (D <> 0)%Z ->
  Forall2 Qeq (mat_vec A (sol_to_Q D N)) b /\ length (sol_to_Q D N) = length b /\ length A = length b.
Proof.
  unfold sol_ok. intros H HD.
  apply andb_prop in H as [H H3]. apply andb_prop in H as [H1 H2].
  apply Nat.eqb_eq in H1. apply Nat.eqb_eq in H2.
  assert (HDq : ~ inject_Z D == 0).
  { intro E. apply HD. unfold Qeq in E. cbn in E. lia. }
  split; [|split; [unfold sol_to_Q; now rewrite map_length | exact H2]].
  apply veqb_Forall2 in H3. unfold mat_vec in *.
  clear H1 H2. revert b H3. induction A as [|r A IH]; intros b H3; cbn [map] in *.
  - inversion H3 as [E1 E2|]. destruct b; [constructor | discriminate].
  - destruct b as [|y b]; cbn [map] in H3; [inversion H3|]. apply Forall2_cons_inv in H3 as [Hhd Htl]. constructor.
    + rewrite dot_sol_to_Q by exact HDq. rewrite Hhd, Qred_correct. field. exact HDq.
    + now apply IH.
Qed.

Lemma solve_multi_Z_sound A bs Ns D : solve_multi_Z A bs = Some (Ns, D) ->
  (D <> 0)%Z /\ Forall2 (fun b N => sol_ok A b N D = true) bs Ns.
Proof.
  unfold solve_multi_Z. destruct (bareiss _ _ _) as [[M D']|]; [|discriminate].
  destruct (negb (D' =? 0)%Z && _ && _) eqn:E; [|discriminate].
  intros H; inversion H; subst; clear H.
  apply andb_prop in E as [E E3]. apply andb_prop in E as [E1 E2].
  apply negb_true_iff, Z.eqb_neq in E1. apply Nat.eqb_eq in E2. split; [exact E1|].
  rewrite forallb_forall in E3.
  remember (transpose_Z (length bs) M) as Ns. clear HeqNs. symmetry in E2.
  revert Ns E2 E3. induction bs as [|b bs IH]; intros [|N Ns] E2 E3; try discriminate; constructor.
  - apply (E3 (b, N)). now left.
  - apply IH; [now inversion E2 | intros p Hp; apply E3; now right].
Qed.

(* every answer of the multi-right-hand-side solver satisfies its system exactly *)
Lemma solve_multi_checked_sound A bs sols : solve_multi_checked A bs = Some sols ->
  Forall2 (fun b beta => Forall2 Qeq (mat_vec A beta) b /\ length beta = length b /\ length A = length b) bs sols.
Proof.
  unfold solve_multi_checked. destruct (solve_multi_Z A bs) as [[Ns D]|] eqn:E; [|discriminate].
  intros H; inversion H; subst; clear H. apply solve_multi_Z_sound in E as [HD F].
  induction F; cbn [map]; constructor; [now apply sol_ok_sound | assumption].
Qed.

(* the fall-back solver (plain Gaussian elimination over Q) is verified the same way *)
Lemma gauss_len k : forall rows sol, gauss k rows = Some sol -> length sol = k.
Proof.
  induction k as [|k IH]; intros rows sol H; cbn [gauss] in H.
  - inversion H; reflexivity.
  - destruct (qfind_pivot rows) as [[[|p r] others]|]; try discriminate.
    destruct (gauss k _) as [s|] eqn:E; [|discriminate]. inversion H; subst. cbn [length]. f_equal. eapply IH; eauto.
Qed.
Lemma veqb_len a b : veqb a b = true -> length a = length b.
Proof. intros H. apply veqb_Forall2 in H. induction H; cbn; congruence. Qed.
Lemma solve_gauss_sound A b beta : solve_gauss A b = Some beta ->
  Forall2 Qeq (mat_vec A beta) b /\ length beta = length b /\ length A = length b.
Proof.
  unfold solve_gauss. destruct (gauss _ _) as [s|] eqn:E; [|discriminate].
  destruct (veqb _ _) eqn:V; [|discriminate]. intros H; inversion H; subst.
  pose proof (veqb_len _ _ V) as L. unfold mat_vec in L. rewrite map_length in L.
  apply gauss_len in E. split; [now apply veqb_Forall2 | split; congruence].
Qed.

Theorem solve_checked_sound A b beta : solve_checked A b = Some beta ->
  Forall2 Qeq (mat_vec A beta) b /\ length beta = length b /\ length A = length b.
Proof.
  unfold solve_checked. destruct (solve_multi_checked A [b]) as [[|s [|]]|] eqn:E; try apply solve_gauss_sound.
  intros H; inversion H; subst. apply solve_multi_checked_sound in E. inversion E; subst. assumption.
Qed.

(* ====================================================================== *)
(* finite sums                                                             *)
(* ====================================================================== *)
From MM Require Import Spec.Fit.

Lemma sum_n_ext f g n : (forall i, (i < n)%nat -> f i == g i) -> sum_n f n == sum_n g n.
Proof.
  revert f g. induction n as [|n IH]; intros f g H; cbn [sum_n]; [reflexivity|].
  rewrite (H O) by lia. rewrite (IH (fun i => f (S i)) (fun i => g (S i))); [reflexivity|].
  intros i Hi. apply H. lia.
Qed.
Lemma sum_n_add f g n : sum_n (fun i => f i + g i) n == sum_n f n + sum_n g n.
Proof. revert f g. induction n as [|n IH]; intros f g; cbn [sum_n]; [ring|]. rewrite IH. ring. Qed.
Lemma sum_n_scal c f n : sum_n (fun i => c * f i) n == c * sum_n f n.
Proof. revert f. induction n as [|n IH]; intros f; cbn [sum_n]; [ring|]. rewrite IH. ring. Qed.
Lemma sum_n_zero n : sum_n (fun _ => 0) n == 0.
Proof. induction n as [|n IH]; cbn [sum_n]; [reflexivity|]. rewrite IH. ring. Qed.
Lemma sum_n_swap (f : nat -> nat -> Q) n m :
  sum_n (fun i => sum_n (fun j => f i j) m) n == sum_n (fun j => sum_n (fun i => f i j) n) m.
Proof.
  revert f. induction n as [|n IH]; intros f; cbn [sum_n].
  - symmetry. apply sum_n_zero.
  - rewrite IH. rewrite <- sum_n_add. reflexivity.
Qed.
Lemma sum_n_nonneg f n : (forall i, (i < n)%nat -> 0 <= f i) -> 0 <= sum_n f n.
Proof.
  revert f. induction n as [|n IH]; intros f H; cbn [sum_n]; [apply Qle_refl|].
  assert (0 <= f O) by (apply H; lia).
  assert (0 <= sum_n (fun i => f (S i)) n) by (apply IH; intros i Hi; apply H; lia). lra.
Qed.
Lemma sum_n_zero_terms f n : (forall i, (i < n)%nat -> 0 <= f i) -> sum_n f n == 0 ->
  forall i, (i < n)%nat -> f i == 0.
Proof.
  revert f. induction n as [|n IH]; intros f H E i Hi; [lia|]. cbn [sum_n] in E.
  assert (H0 : 0 <= f O) by (apply H; lia).
  assert (H1 : 0 <= sum_n (fun i => f (S i)) n) by (apply sum_n_nonneg; intros k Hk; apply H; lia).
  destruct i as [|i]; [lra|].
  apply (IH (fun i => f (S i))); [intros k Hk; apply H; lia | lra | lia].
Qed.
Lemma sum_n_single (f : nat -> Q) n j : (j < n)%nat -> (forall i, (i < n)%nat -> i <> j -> f i == 0) ->
  sum_n f n == f j.
Proof.
  revert f j. induction n as [|n IH]; intros f j Hj H; [lia|]. cbn [sum_n]. destruct j as [|j].
  - rewrite (sum_n_ext _ (fun _ => 0)); [rewrite sum_n_zero; ring|]. intros i Hi. apply H; lia.
  - rewrite (H O) by lia. rewrite (IH (fun i => f (S i)) j); [ring | lia |]. intros i Hi Hn. apply H; lia.
Qed.

(* ---------- lists as indexed families ---------- *)
Lemma vn_cons_S x a i : vn (x :: a) (S i) = vn a i.
Proof. reflexivity. Qed.
Lemma vn_cons_O x a : vn (x :: a) O = x.
Proof. reflexivity. Qed.

Lemma dot3_sum a w b n : length a = n -> length w = n -> length b = n ->
  dot3 a w b == sum_n (fun i => vn a i * vn w i * vn b i) n.
Proof.
  revert a w b. induction n as [|n IH]; intros [|x a] [|u w] [|y b] Ha Hw Hb; try discriminate; [reflexivity|].
  rewrite dot3_cons. cbn [sum_n]. rewrite (IH a w b) by (cbn in *; lia). reflexivity.
Qed.
Lemma dot_sum a b n : length a = n -> length b = n -> dot a b == sum_n (fun i => vn a i * vn b i) n.
Proof.
  revert a b. induction n as [|n IH]; intros [|x a] [|y b] Ha Hb; try discriminate; [reflexivity|].
  rewrite dot_cons. cbn [sum_n]. rewrite (IH a b) by (cbn in *; lia). reflexivity.
Qed.
Lemma nth_map_lt {A B} (f : A -> B) (l : list A) (d : A) (d' : B) j : (j < length l)%nat ->
  nth j (map f l) d' = f (nth j l d).
Proof. intros H. rewrite (nth_indep _ d' (f d)) by (now rewrite map_length). apply map_nth. Qed.
Lemma vn_map {A} (f : A -> Q) (l : list A) (d : A) i : (i < length l)%nat -> vn (map f l) i = f (nth i l d).
Proof. intros H. unfold vn. rewrite (nth_indep _ 0 (f d)) by (now rewrite map_length). apply map_nth. Qed.

Lemma Forall2_Qeq_vn a b : Forall2 Qeq a b <-> length a = length b /\ forall i, (i < length a)%nat -> vn a i == vn b i.
Proof.
  split.
  - induction 1 as [|x y a b Hxy Hab [IHl IHv]]; [split; [reflexivity | cbn; lia]|].
    split; [cbn; now rewrite IHl|]. intros [|i] Hi; [exact Hxy | apply IHv; cbn in Hi; lia].
  - revert b. induction a as [|x a IH]; intros [|y b] [Hl Hv]; try discriminate; constructor.
    + apply (Hv O). cbn. lia.
    + apply IH. split; [cbn in Hl; lia|]. intros i Hi. apply (Hv (S i)). cbn. lia.
Qed.

(* ====================================================================== *)
(* normal equations <-> minimiser                                          *)
(* ====================================================================== *)
Section LeastSquares.
Variables (n : nat) (cols : list (list Q)) (w y : list Q).
Hypothesis Hwf : wf_design n cols w y.
Let k := length cols.

Lemma col_len j : (j < k)%nat -> length (nth j cols []) = n.
Proof. intros Hj. destruct Hwf as (_ & _ & F). rewrite Forall_forall in F. apply F, nth_In, Hj. Qed.
Lemma len_y : length y = n. Proof. apply Hwf. Qed.
Lemma len_w : length w = n. Proof. apply Hwf. Qed.

(* row j of the normal equations, in index notation *)
Lemma normal_rhs_vn j : (j < k)%nat ->
  vn (normal_rhs cols w y) j == sum_n (fun i => Xe cols j i * vn w i * vn y i) n.
Proof.
  intros Hj. unfold normal_rhs. rewrite (vn_map _ _ []) by exact Hj.
  apply dot3_sum; [now apply col_len | apply len_w | apply len_y].
Qed.
Lemma normal_lhs_vn beta j : (j < k)%nat -> length beta = k ->
  vn (mat_vec (normal_lhs cols w) beta) j == sum_n (fun i => Xe cols j i * vn w i * fit_at cols beta i) n.
Proof.
  intros Hj Hb. unfold mat_vec, normal_lhs. rewrite (vn_map _ _ []) by (now rewrite map_length).
  rewrite (nth_map_lt _ cols [] [] j Hj).
  rewrite (dot_sum _ _ k) by (rewrite ?map_length; auto).
  rewrite (sum_n_ext _ (fun l => sum_n (fun i => Xe cols j i * vn w i * (vn beta l * Xe cols l i)) n)).
  - rewrite sum_n_swap. apply sum_n_ext. intros i Hi. unfold fit_at. fold k. now rewrite sum_n_scal.
  - intros l Hl. rewrite (vn_map _ _ []) by exact Hl.
    rewrite (dot3_sum _ _ _ n) by (try apply col_len; auto; apply len_w).
    rewrite Qmult_comm, <- sum_n_scal. apply sum_n_ext. intros i Hi. unfold Xe. ring.
Qed.

(* the normal equations say exactly that the weighted residual is orthogonal to every term *)
Lemma normal_eq_orth beta : length beta = k ->
  (Forall2 Qeq (mat_vec (normal_lhs cols w) beta) (normal_rhs cols w y) <->
   forall j, (j < k)%nat -> orth_at cols w y beta j == 0).
Proof.
  intros Hb. rewrite Forall2_Qeq_vn. unfold mat_vec at 1 2, normal_lhs at 1 2, normal_rhs at 1. rewrite !map_length. fold k.
  assert (E : forall j, (j < k)%nat -> orth_at cols w y beta j ==
            vn (normal_rhs cols w y) j - vn (mat_vec (normal_lhs cols w) beta) j).
  { intros j Hj. rewrite normal_rhs_vn, normal_lhs_vn by auto. unfold orth_at. rewrite len_y.
    setoid_replace (sum_n (fun i => Xe cols j i * vn w i * vn y i) n - sum_n (fun i => Xe cols j i * vn w i * fit_at cols beta i) n)
      with (sum_n (fun i => Xe cols j i * vn w i * vn y i) n + sum_n (fun i => (-1) * (Xe cols j i * vn w i * fit_at cols beta i)) n)
      by (rewrite sum_n_scal; ring).
    rewrite <- sum_n_add. apply sum_n_ext. intros i Hi. unfold resid_at. ring. }
  split.
  - intros [_ H] j Hj. rewrite E by exact Hj. rewrite (H j Hj). ring.
  - intros H. split; [reflexivity|]. intros j Hj. specialize (H j Hj). rewrite E in H by exact Hj. lra.
Qed.

(* S(beta') = S(beta) - 2 sum_j (beta'_j - beta_j) g_j(beta) + sum_i w_i (f_{beta'-beta}(x_i))^2 *)
Definition dfit (beta beta' : list Q) (i : nat) : Q := sum_n (fun j => (vn beta' j - vn beta j) * Xe cols j i) k.

Lemma SSR_expand beta beta' :
  SSR cols w y beta' == SSR cols w y beta
     - 2 * sum_n (fun j => (vn beta' j - vn beta j) * orth_at cols w y beta j) k
     + sum_n (fun i => vn w i * (dfit beta beta' i * dfit beta beta' i)) n.
Proof.
  unfold SSR. rewrite len_y.
  assert (R : forall i, resid_at cols y beta' i == resid_at cols y beta i - dfit beta beta' i).
  { intros i. unfold resid_at, fit_at, dfit. fold k.
    setoid_replace (vn y i - sum_n (fun j => vn beta j * Xe cols j i) k - sum_n (fun j => (vn beta' j - vn beta j) * Xe cols j i) k)
      with (vn y i - (sum_n (fun j => vn beta j * Xe cols j i) k + sum_n (fun j => (vn beta' j - vn beta j) * Xe cols j i) k)) by ring.
    rewrite <- sum_n_add. apply Qplus_comp; [reflexivity|]. apply Qopp_comp. apply sum_n_ext. intros j Hj. ring. }
  assert (C : sum_n (fun j => (vn beta' j - vn beta j) * orth_at cols w y beta j) k ==
              sum_n (fun i => vn w i * (resid_at cols y beta i * dfit beta beta' i)) n).
  { unfold orth_at. rewrite len_y.
    rewrite (sum_n_ext _ (fun j => sum_n (fun i => (vn beta' j - vn beta j) * (Xe cols j i * vn w i * resid_at cols y beta i)) n))
      by (intros j Hj; now rewrite sum_n_scal).
    rewrite sum_n_swap. apply sum_n_ext. intros i Hi. unfold dfit.
    setoid_replace (vn w i * (resid_at cols y beta i * sum_n (fun j => (vn beta' j - vn beta j) * Xe cols j i) k))
      with ((vn w i * resid_at cols y beta i) * sum_n (fun j => (vn beta' j - vn beta j) * Xe cols j i) k) by ring.
    rewrite <- sum_n_scal. apply sum_n_ext. intros j Hj. ring. }
  rewrite C.
  setoid_replace (sum_n (fun i => vn w i * (resid_at cols y beta i * resid_at cols y beta i)) n
                  - 2 * sum_n (fun i => vn w i * (resid_at cols y beta i * dfit beta beta' i)) n
                  + sum_n (fun i => vn w i * (dfit beta beta' i * dfit beta beta' i)) n)
    with (sum_n (fun i => vn w i * (resid_at cols y beta i * resid_at cols y beta i)) n
          + (sum_n (fun i => (-2) * (vn w i * (resid_at cols y beta i * dfit beta beta' i))) n
          + sum_n (fun i => vn w i * (dfit beta beta' i * dfit beta beta' i)) n))
    by (rewrite sum_n_scal; ring).
  rewrite <- !sum_n_add. apply sum_n_ext. intros i Hi. rewrite R. ring.
Qed.

Hypothesis Hw : forall i, (i < n)%nat -> 0 <= vn w i.

Lemma quad_nonneg beta beta' : 0 <= sum_n (fun i => vn w i * (dfit beta beta' i * dfit beta beta' i)) n.
Proof.
  apply sum_n_nonneg. intros i Hi. apply Qmult_le_0_compat; [now apply Hw|].
  generalize (dfit beta beta' i). intros q. nra.
Qed.

(* orthogonality => minimiser *)
Lemma orth_minimises beta : (forall j, (j < k)%nat -> orth_at cols w y beta j == 0) ->
  forall beta', SSR cols w y beta <= SSR cols w y beta'.
Proof.
  intros H beta'. rewrite (SSR_expand beta beta').
  rewrite (sum_n_ext _ (fun _ => 0)) by (intros j Hj; rewrite (H j Hj); ring).
  rewrite sum_n_zero. pose proof (quad_nonneg beta beta'). lra.
Qed.

(* beta + t e_j as a list *)
Definition bump (beta : list Q) (j : nat) (t : Q) : list Q :=
  map (fun l => vn beta l + (if (l =? j)%nat then t else 0)) (seq 0 k).
Lemma bump_len beta j t : length (bump beta j t) = k.
Proof. unfold bump. now rewrite map_length, seq_length. Qed.
Lemma bump_vn beta j t l : (l < k)%nat -> vn (bump beta j t) l = vn beta l + (if (l =? j)%nat then t else 0).
Proof. intros Hl. unfold bump. rewrite (vn_map _ _ O) by (now rewrite seq_length). now rewrite seq_nth. Qed.

(* minimiser => orthogonality: move along e_j by t = g_j / (c_j + 1) *)
Lemma minimiser_orth beta :
  (forall beta', length beta' = k -> SSR cols w y beta <= SSR cols w y beta') ->
  forall j, (j < k)%nat -> orth_at cols w y beta j == 0.
Proof.
  intros Hmin j Hj.
  set (g := orth_at cols w y beta j).
  set (c := sum_n (fun i => vn w i * (Xe cols j i * Xe cols j i)) n).
  assert (Hc : 0 <= c).
  { apply sum_n_nonneg. intros i Hi. apply Qmult_le_0_compat; [now apply Hw|]. generalize (Xe cols j i). intros q. nra. }
  set (t := g / (c + 1)).
  pose proof (Hmin (bump beta j t) (bump_len _ _ _)) as M.
  rewrite (SSR_expand beta (bump beta j t)) in M.
  assert (D : forall i, dfit beta (bump beta j t) i == t * Xe cols j i).
  { intros i. unfold dfit. rewrite (sum_n_single _ k j Hj).
    - rewrite bump_vn by exact Hj. rewrite Nat.eqb_refl. ring.
    - intros l Hl Hne. rewrite bump_vn by exact Hl. apply Nat.eqb_neq in Hne. rewrite Hne. ring. }
  assert (L : sum_n (fun l => (vn (bump beta j t) l - vn beta l) * orth_at cols w y beta l) k == t * g).
  { rewrite (sum_n_single _ k j Hj).
    - rewrite bump_vn by exact Hj. rewrite Nat.eqb_refl. unfold g. ring.
    - intros l Hl Hne. rewrite bump_vn by exact Hl. apply Nat.eqb_neq in Hne. rewrite Hne. ring. }
  assert (Q2 : sum_n (fun i => vn w i * (dfit beta (bump beta j t) i * dfit beta (bump beta j t) i)) n == t * t * c).
  { unfold c. rewrite <- sum_n_scal. apply sum_n_ext. intros i Hi. rewrite D. ring. }
  rewrite L, Q2 in M.
  assert (Hineq : 0 <= - 2 * (t * g) + t * t * c) by lra.
  assert (Hc1 : ~ c + 1 == 0) by lra.
  assert (Et : - 2 * (t * g) + t * t * c == - (g * g) * (c + 2) / ((c + 1) * (c + 1))).
  { unfold t. field. exact Hc1. }
  rewrite Et in Hineq.
  assert (Hpos : 0 < (c + 1) * (c + 1)) by nra.
  assert (Hnum : 0 <= - (g * g) * (c + 2)).
  { apply Qmult_le_r with (z := / ((c + 1) * (c + 1))); [now apply Qinv_lt_0_compat|].
    rewrite Qmult_0_l. exact Hineq. }
  assert (g * g <= 0) by nra.
  nra.
Qed.

(* C15 main statement: normal equations <-> minimiser of the weighted sum of squares *)
Theorem normal_eq_iff_minimiser beta : length beta = k ->
  (Forall2 Qeq (mat_vec (normal_lhs cols w) beta) (normal_rhs cols w y) <->
   forall beta', length beta' = k -> SSR cols w y beta <= SSR cols w y beta').
Proof.
  intros Hb. rewrite (normal_eq_orth beta Hb). split.
  - intros H beta' _. now apply orth_minimises.
  - apply minimiser_orth.
Qed.

End LeastSquares.

(* ====================================================================== *)
(* LinearLeastSquares                                                      *)
(* ====================================================================== *)
Lemma Forall_vn_nonneg l : Forall (Qle 0) l -> forall i, (i < length l)%nat -> 0 <= vn l i.
Proof. intros F i Hi. rewrite Forall_forall in F. apply F. unfold vn. now apply nth_In. Qed.
Lemma Forall_repeat_1 m : Forall (Qle 0) (repeat 1 m).
Proof. induction m; cbn; constructor; [discriminate | assumption]. Qed.

Definition weights_nonneg (w : option (list Q)) : Prop :=
  match w with Some l => Forall (Qle 0) l | None => True end.

Lemma lls_ok_inv nx y w cols beta : lls nx y w cols = FOk beta ->
  let wl := weights_or_ones nx w in
  length y = nx /\ length wl = nx /\ lls_solve cols wl y = Some beta.
Proof.
  unfold lls. destruct (nx =? length y)%nat eqn:E1; cbn [negb]; [|discriminate].
  apply Nat.eqb_eq in E1. destruct w as [l|]; cbn [weights_or_ones].
  - destruct (nx =? length l)%nat eqn:E2; cbn [negb]; [|discriminate]. apply Nat.eqb_eq in E2.
    destruct (lls_solve cols l y) eqn:E3; [|discriminate]. intros H; inversion H; subst. auto.
  - destruct (lls_solve cols (repeat 1 nx) y) eqn:E3; [|discriminate]. intros H; inversion H; subst.
    rewrite repeat_length. auto.
Qed.

(* LinearLeastSquares returns a minimiser of the weighted sum of squared residuals; its weighted
   residual is orthogonal to every term *)
Theorem lls_minimises nx y w cols beta :
  lls nx y w cols = FOk beta -> Forall (fun c => length c = nx) cols -> weights_nonneg w ->
  let wl := weights_or_ones nx w in
  length beta = length cols /\
  (forall j, (j < length cols)%nat -> orth_at cols wl y beta j == 0) /\
  (forall beta', length beta' = length cols -> SSR cols wl y beta <= SSR cols wl y beta').
Proof.
  intros H Hc Hw wl. apply lls_ok_inv in H as (Hy & Hwl & Hs). fold wl in Hwl, Hs.
  unfold lls_solve in Hs. apply solve_checked_sound in Hs as (Heq & Hlb & _).
  assert (Hk : length beta = length cols) by (rewrite Hlb; unfold normal_rhs; now rewrite map_length).
  assert (Hwf : wf_design nx cols wl y) by (repeat split; assumption).
  assert (Hwn : forall i, (i < nx)%nat -> 0 <= vn wl i).
  { intros i Hi. apply Forall_vn_nonneg; [|now rewrite Hwl]. unfold wl. destruct w; [exact Hw | apply Forall_repeat_1]. }
  split; [exact Hk|]. split.
  - now apply (normal_eq_orth nx cols wl y Hwf beta Hk).
  - now apply (normal_eq_iff_minimiser nx cols wl y Hwf Hwn beta Hk).
Qed.

(* ====================================================================== *)
(* polynomials                                                             *)
(* ====================================================================== *)
Lemma qpow_pw x m : qpow x m == pw x m.
Proof. induction m as [|m IH]; cbn [qpow pw]; [reflexivity|]. rewrite Qred_correct, IH. reflexivity. Qed.

(* F evaluates the polynomial with the returned coefficients: Coefficients[i] multiplies x^i *)
Lemma F_loop_spec t x xp y : F_loop t x xp y == y + xp * poly_eval t x.
Proof.
  revert xp y. induction t as [|c t IH]; intros xp y; cbn [F_loop].
  - unfold poly_eval. cbn. ring.
  - rewrite IH, !Qred_correct. unfold poly_eval. cbn [length sum_n]. rewrite vn_cons_O. cbn [pw].
    rewrite (sum_n_ext (fun i => vn (c :: t) (S i) * pw x (S i)) (fun i => x * (vn t i * pw x i)))
      by (intros i Hi; rewrite vn_cons_S; cbn [pw]; ring).
    rewrite sum_n_scal. ring.
Qed.
Theorem F_is_poly_eval coeffs x v : polyF coeffs x = Some v -> v == poly_eval coeffs x.
Proof.
  destruct coeffs as [|c0 t]; [discriminate|]. cbn [polyF]. intros H; inversion H; subst.
  rewrite F_loop_spec. unfold poly_eval. cbn [length sum_n]. rewrite vn_cons_O. cbn [pw].
  rewrite (sum_n_ext (fun i => vn (c0 :: t) (S i) * pw x (S i)) (fun i => x * (vn t i * pw x i)))
    by (intros i Hi; rewrite vn_cons_S; cbn [pw]; ring).
  rewrite sum_n_scal. ring.
Qed.
Lemma polyF_some coeffs x : coeffs <> [] -> exists v, polyF coeffs x = Some v.
Proof. destruct coeffs; [congruence|]. intros _. eexists. reflexivity. Qed.

(* PolynomialRegression is LinearLeastSquares on the monomial basis 1, x, .., x^d *)
Theorem polyreg_is_lls_on_monomials xs y w d :
  polyreg xs y w (Z.of_nat d) = lls (length xs) y w (monomials d xs).
Proof. unfold polyreg. destruct (Z.of_nat d <? 0)%Z eqn:E; [apply Z.ltb_lt in E; lia|]. now rewrite Nat2Z.id. Qed.
Lemma monomials_len d xs : length (monomials d xs) = S d.
Proof. unfold monomials. now rewrite map_length, seq_length. Qed.
Lemma monomials_cols d xs : Forall (fun c => length c = length xs) (monomials d xs).
Proof. unfold monomials. rewrite Forall_forall. intros c Hc. apply in_map_iff in Hc as (i & <- & _). apply map_length. Qed.
Lemma monomials_Xe d xs j i : (j <= d)%nat -> (i < length xs)%nat -> Xe (monomials d xs) j i == pw (vn xs i) j.
Proof.
  intros Hj Hi. unfold Xe, monomials.
  rewrite (nth_map_lt _ _ O []) by (rewrite seq_length; lia). rewrite seq_nth by lia. cbn [plus].
  rewrite (vn_map _ _ 0) by exact Hi. apply qpow_pw.
Qed.
(* the fitted value of the monomial design is the polynomial *)
Lemma monomials_fit d xs beta i : length beta = S d -> (i < length xs)%nat ->
  fit_at (monomials d xs) beta i == poly_eval beta (vn xs i).
Proof.
  intros Hb Hi. unfold fit_at, poly_eval. rewrite monomials_len, Hb. apply sum_n_ext. intros j Hj.
  rewrite monomials_Xe by (auto; lia). reflexivity.
Qed.

(* Horner form and the factor theorem *)
Fixpoint peval (p : list Q) (x : Q) : Q := match p with [] => 0 | c :: t => c + x * peval t x end.
Lemma poly_eval_peval p x : poly_eval p x == peval p x.
Proof.
  induction p as [|c t IH]; [reflexivity|]. unfold poly_eval in *. cbn [length sum_n peval]. rewrite vn_cons_O. cbn [pw].
  rewrite (sum_n_ext (fun i => vn (c :: t) (S i) * pw x (S i)) (fun i => x * (vn t i * pw x i)))
    by (intros i Hi; rewrite vn_cons_S; cbn [pw]; ring).
  rewrite sum_n_scal, IH. ring.
Qed.
Fixpoint pquot (p : list Q) (a : Q) : list Q :=
  match p with
  | [] => []
  | c :: t => match t with [] => [] | _ => peval t a :: pquot t a end
  end.
Lemma pquot_len p a : length (pquot p a) = pred (length p).
Proof. induction p as [|c [|c' t] IH]; try reflexivity. cbn [pquot length pred] in *. now rewrite IH. Qed.
Lemma pquot_spec p a x : peval p x == (x - a) * peval (pquot p a) x + peval p a.
Proof.
  induction p as [|c [|c' t] IH]; [cbn; ring | cbn; ring |].
  change (pquot (c :: c' :: t) a) with (peval (c' :: t) a :: pquot (c' :: t) a).
  change (peval (c :: c' :: t) x) with (c + x * peval (c' :: t) x).
  change (peval (c :: c' :: t) a) with (c + a * peval (c' :: t) a).
  change (peval (peval (c' :: t) a :: pquot (c' :: t) a) x) with (peval (c' :: t) a + x * peval (pquot (c' :: t) a) x).
  rewrite IH. ring.
Qed.
Lemma pquot_zero p a : Forall (fun c => c == 0) (pquot p a) -> peval p a == 0 -> Forall (fun c => c == 0) p.
Proof.
  induction p as [|c [|c' t] IH]; intros Hq Hr; [constructor | |].
  - constructor; [|constructor]. cbn in Hr. lra.
  - change (pquot (c :: c' :: t) a) with (peval (c' :: t) a :: pquot (c' :: t) a) in Hq.
    inversion Hq as [|? ? H1 H2]; subst.
    assert (Ht : Forall (fun c => c == 0) (c' :: t)) by (apply IH; assumption).
    constructor; [|exact Ht]. change (peval (c :: c' :: t) a) with (c + a * peval (c' :: t) a) in Hr.
    rewrite H1 in Hr. lra.
Qed.
(* a polynomial with at least as many distinct roots as coefficients is zero *)
Lemma poly_roots_zero m : forall p roots, (length p <= m)%nat -> length roots = m -> distinctQ roots ->
  Forall (fun r => peval p r == 0) roots -> Forall (fun c => c == 0) p.
Proof.
  induction m as [|m IH]; intros p roots Hp Hr Hd Hz.
  - destruct p; [constructor | cbn in Hp; lia].
  - destruct roots as [|a rs]; [discriminate|]. destruct Hd as [Ha Hd]. inversion Hz as [|? ? Hza Hzr]; subst.
    apply (pquot_zero p a); [|exact Hza].
    apply (IH _ rs); [rewrite pquot_len; lia | cbn in Hr; lia | exact Hd |].
    rewrite Forall_forall in *. intros r Hin. specialize (Hzr r Hin). specialize (Ha r Hin).
    rewrite (pquot_spec p a r), Hza in Hzr.
    assert (E : (r - a) * peval (pquot p a) r == 0) by lra.
    apply Qmult_integral in E as [E|E]; [exfalso; apply Ha; lra | exact E].
Qed.

(* ====================================================================== *)
(* PolynomialRegression reproduces polynomials                             *)
(* ====================================================================== *)
Lemma SSR_nonneg n cols w y beta : length y = n -> (forall i, (i < n)%nat -> 0 <= vn w i) -> 0 <= SSR cols w y beta.
Proof.
  intros Hy Hw. unfold SSR. rewrite Hy. apply sum_n_nonneg. intros i Hi.
  apply Qmult_le_0_compat; [now apply Hw|]. generalize (resid_at cols y beta i). intros q. nra.
Qed.

(* enough distinct abscissae of positive weight: a list of d+1 indices *)
Definition enough_points (d : nat) (xs wl : list Q) : Prop :=
  exists idx : list nat, length idx = S d /\
    Forall (fun i => (i < length xs)%nat /\ 0 < vn wl i) idx /\ distinctQ (map (vn xs) idx).

Lemma seq_map_vn (f : nat -> Q) m i : (i < m)%nat -> vn (map f (seq 0 m)) i = f i.
Proof. intros H. rewrite (vn_map _ _ O) by (now rewrite seq_length). now rewrite seq_nth. Qed.

(* a least-squares polynomial of degree d that fits a polynomial of degree <= d exactly on d+1
   distinct positive-weight abscissae IS that polynomial; stated for any minimiser *)
Lemma minimiser_reproduces d xs ys wl p beta :
  length ys = length xs -> length wl = length xs -> (forall i, (i < length xs)%nat -> 0 <= vn wl i) ->
  length p = S d -> length beta = S d ->
  (forall i, (i < length xs)%nat -> vn ys i == poly_eval p (vn xs i)) ->
  SSR (monomials d xs) wl ys beta <= SSR (monomials d xs) wl ys p ->
  enough_points d xs wl ->
  Forall2 Qeq beta p.
Proof.
  intros Hy Hwl Hw Hp Hb Hdata Hmin (idx & Hil & Hidx & Hdist).
  set (cols := monomials d xs) in *. set (n := length xs) in *.
  assert (Rp : forall i, (i < n)%nat -> resid_at cols ys p i == 0).
  { intros i Hi. unfold resid_at, cols. rewrite monomials_fit by assumption. rewrite Hdata by exact Hi. ring. }
  assert (Sp : SSR cols wl ys p == 0).
  { unfold SSR. rewrite Hy. rewrite (sum_n_ext _ (fun _ => 0)); [apply sum_n_zero|].
    intros i Hi. rewrite Rp by exact Hi. ring. }
  assert (Sb : SSR cols wl ys beta == 0).
  { pose proof (SSR_nonneg n cols wl ys beta Hy Hw). lra. }
  assert (Rb : forall i, (i < n)%nat -> 0 < vn wl i -> poly_eval beta (vn xs i) == poly_eval p (vn xs i)).
  { intros i Hi Hpos. unfold SSR in Sb. rewrite Hy in Sb.
    assert (E : vn wl i * (resid_at cols ys beta i * resid_at cols ys beta i) == 0).
    { apply (sum_n_zero_terms (fun i => vn wl i * (resid_at cols ys beta i * resid_at cols ys beta i)) n); [|exact Sb|exact Hi].
      intros l Hl. apply Qmult_le_0_compat; [now apply Hw|]. generalize (resid_at cols ys beta l). intros q. nra. }
    apply Qmult_integral in E as [E|E]; [lra|].
    assert (E' : resid_at cols ys beta i == 0) by (apply Qmult_integral in E as [E|E]; exact E).
    unfold resid_at, cols in E'. rewrite monomials_fit in E' by assumption. rewrite Hdata in E' by exact Hi. lra. }
  set (delta := map (fun j => vn beta j - vn p j) (seq 0 (S d))).
  assert (Hdl : length delta = S d) by (unfold delta; now rewrite map_length, seq_length).
  assert (Ed : forall x, peval delta x == poly_eval beta x - poly_eval p x).
  { intros x. rewrite <- poly_eval_peval. unfold poly_eval. rewrite Hdl, Hb, Hp.
    setoid_replace (sum_n (fun i => vn beta i * pw x i) (S d) - sum_n (fun i => vn p i * pw x i) (S d))
      with (sum_n (fun i => vn beta i * pw x i) (S d) + sum_n (fun i => (-1) * (vn p i * pw x i)) (S d))
      by (rewrite sum_n_scal; ring).
    rewrite <- sum_n_add. apply sum_n_ext. intros j Hj. unfold delta. rewrite seq_map_vn by exact Hj. ring. }
  assert (Z : Forall (fun c => c == 0) delta).
  { apply (poly_roots_zero (S d) delta (map (vn xs) idx)); [lia | now rewrite map_length | exact Hdist |].
    rewrite Forall_forall. intros r Hr. apply in_map_iff in Hr as (i & <- & Hin).
    rewrite Forall_forall in Hidx. destruct (Hidx i Hin) as [Hi Hpos]. rewrite Ed, (Rb i Hi Hpos). ring. }
  apply Forall2_Qeq_vn. split; [now rewrite Hb, Hp|]. intros j Hj. rewrite Hb in Hj.
  rewrite Forall_forall in Z. assert (E : vn delta j == 0).
  { apply Z. unfold vn. apply nth_In. now rewrite Hdl. }
  unfold delta in E. rewrite seq_map_vn in E by exact Hj. lra.
Qed.

(* PolynomialRegression of degree d on data generated by a polynomial p of degree <= d (d+1 coefficients),
   with at least d+1 distinct abscissae of positive weight, returns p *)
Theorem polyreg_reproduces xs ys w d p beta :
  polyreg xs ys w (Z.of_nat d) = FOk beta -> weights_nonneg w -> length p = S d ->
  (forall i, (i < length xs)%nat -> vn ys i == poly_eval p (vn xs i)) ->
  enough_points d xs (weights_or_ones (length xs) w) ->
  Forall2 Qeq beta p.
Proof.
  intros H Hw Hp Hdata He. rewrite polyreg_is_lls_on_monomials in H.
  pose proof (lls_ok_inv _ _ _ _ _ H) as (Hy & Hwl & _).
  pose proof (lls_minimises _ _ _ _ _ H (monomials_cols d xs) Hw) as (Hb & _ & Hmin).
  rewrite monomials_len in Hb, Hmin.
  apply (minimiser_reproduces d xs ys (weights_or_ones (length xs) w) p beta); auto.
  intros i Hi. apply Forall_vn_nonneg; [|now rewrite Hwl].
  destruct w; [exact Hw | apply Forall_repeat_1].
Qed.

(* ====================================================================== *)
(* LOESS: the window search                                                *)
(* ====================================================================== *)
Definition mono_pred (f : nat -> bool) : Prop := forall a b, (a <= b)%nat -> f a = true -> f b = true.

Lemma half_bounds i j : (i < j)%nat -> (i <= (i + j) / 2 < j)%nat.
Proof.
  intros H. pose proof (Nat.div_mod (i + j) 2 ltac:(lia)) as E.
  pose proof (Nat.mod_upper_bound (i + j) 2 ltac:(lia)). lia.
Qed.

(* sort.Search with a monotone predicate returns the least index where it holds (or the upper end) *)
Lemma bsearch_spec f (Hm : mono_pred f) fuel : forall i j, (j - i <= fuel)%nat -> (i <= j)%nat ->
  let r := bsearch fuel f i j in
  (i <= r <= j)%nat /\ (forall l, (i <= l < r)%nat -> f l = false) /\ ((r < j)%nat -> f r = true).
Proof.
  induction fuel as [|fu IH]; intros i j Hf Hij; cbn [bsearch].
  - repeat split; try lia; intros l Hl; lia.
  - destruct (i <? j)%nat eqn:E.
    + apply Nat.ltb_lt in E. pose proof (half_bounds i j E) as Hh. set (h := ((i + j) / 2)%nat) in *.
      destruct (f h) eqn:Fh.
      * destruct (IH i h ltac:(lia) ltac:(lia)) as (B & Lo & Hi). repeat split; try lia; [exact Lo|].
        intros _. destruct (Nat.eq_dec (bsearch fu f i h) h) as [->|N]; [exact Fh | apply Hi; lia].
      * destruct (IH (S h) j ltac:(lia) ltac:(lia)) as (B & Lo & Hi). repeat split; try lia; [|exact Hi].
        intros l Hl. destruct (Nat.le_gt_cases l h) as [Hle|Hgt]; [|apply Lo; lia].
        destruct (f l) eqn:Fl; [|reflexivity]. rewrite (Hm l h Hle Fl) in Fh. discriminate.
    + apply Nat.ltb_ge in E. repeat split; try lia; intros l Hl; lia.
Qed.
Lemma search_spec f n : mono_pred f ->
  let r := search n f in (r <= n)%nat /\ (forall l, (l < r)%nat -> f l = false) /\ ((r < n)%nat -> f r = true).
Proof.
  intros Hm. unfold search. destruct (bsearch_spec f Hm n 0 n ltac:(lia) ltac:(lia)) as (B & Lo & Hi).
  repeat split; [lia | intros l Hl; apply Lo; lia | exact Hi].
Qed.

(* sortedness, by index *)
Definition sorted_idx (xs : list Q) : Prop :=
  forall i j a b, (i <= j)%nat -> nth_error xs i = Some a -> nth_error xs j = Some b -> a <= b.

Lemma sorted_idx_tail a t : sorted_idx (a :: t) -> sorted_idx t.
Proof. intros H i j x y Hij Hi Hj. apply (H (S i) (S j)); [lia | exact Hi | exact Hj]. Qed.
Lemma sorted_idx_cons a t : (forall b, In b t -> a <= b) -> sorted_idx t -> sorted_idx (a :: t).
Proof.
  intros Ha Ht [|i] [|j] x y Hij Hi Hj; cbn in Hi, Hj.
  - inversion Hi; inversion Hj; subst. apply Qle_refl.
  - inversion Hi; subst. apply Ha. eapply nth_error_In; eassumption.
  - lia.
  - apply (Ht i j); [lia | exact Hi | exact Hj].
Qed.
Lemma sortedb_sorted_idx xs : sortedb xs = true -> sorted_idx xs.
Proof.
  induction xs as [|a t IH]; intros H.
  - intros i j x y _ Hi. destruct i; discriminate.
  - destruct t as [|b t'].
    + intros [|i] [|j] x y Hij Hi Hj; cbn in Hi, Hj; try (destruct i; discriminate); try (destruct j; discriminate).
      inversion Hi; inversion Hj; subst. apply Qle_refl.
    + cbn [sortedb] in H. apply andb_prop in H as [H1 H2]. apply negb_true_iff in H1.
      assert (Hab : a <= b).
      { unfold Qltb in H1. apply negb_false_iff in H1. now apply Qle_bool_iff in H1. }
      specialize (IH H2). apply sorted_idx_cons; [|exact IH].
      intros c Hc. apply In_nth_error in Hc as [m Hm].
      apply Qle_trans with b; [exact Hab|]. apply (IH O m b c); [lia | reflexivity | exact Hm].
Qed.

Lemma window_pred_exact xs q x i a b : nth_error xs i = Some a -> nth_error xs (i + q) = Some b ->
  (window_pred 0 xs q x i = true <-> x * 2 <= a + b).
Proof.
  intros Ha Hb. unfold window_pred. rewrite Ha, Hb. rewrite Qle_bool_iff.
  setoid_replace (a + b + 0 * Qabs (a + b)) with (a + b) by ring. reflexivity.
Qed.
Lemma window_pred_mono xs q x : sorted_idx xs -> mono_pred (window_pred 0 xs q x).
Proof.
  intros Hs i i' Hii H.
  destruct (nth_error xs i') as [a'|] eqn:Ea'; [|unfold window_pred; now rewrite Ea'].
  destruct (nth_error xs (i' + q)) as [b'|] eqn:Eb'; [|unfold window_pred; now rewrite Ea', Eb'].
  assert (Hlen : (i' + q < length xs)%nat) by (apply nth_error_Some; congruence).
  destruct (nth_error xs i) as [a|] eqn:Ea; [|apply nth_error_None in Ea; lia].
  destruct (nth_error xs (i + q)) as [b|] eqn:Eb; [|apply nth_error_None in Eb; lia].
  apply (window_pred_exact xs q x i' a' b' Ea' Eb'). apply (window_pred_exact xs q x i a b Ea Eb) in H.
  pose proof (Hs i i' a a' Hii Ea Ea'). pose proof (Hs (i + q)%nat (i' + q)%nat b b' ltac:(lia) Eb Eb'). lra.
Qed.

Lemma Qabs_le_of a b : - b <= a -> a <= b -> Qabs a <= b.
Proof. intros H1 H2. apply Qabs_Qle_condition. split; assumption. Qed.

(* the window chosen by the binary search is a set of q nearest points to x:
   no point outside the window is nearer to x than a point inside *)
Theorem loess_window xs q x : sorted_idx xs -> (0 < q <= length xs)%nat ->
  let n0 := window_start 0 xs q x in
  (n0 + q <= length xs)%nat /\
  forall j k a b, (n0 <= j < n0 + q)%nat -> (k < n0 \/ n0 + q <= k)%nat ->
    nth_error xs j = Some a -> nth_error xs k = Some b -> Qabs (a - x) <= Qabs (b - x).
Proof.
  intros Hs Hq n0. unfold window_start in n0.
  destruct (q <? length xs)%nat eqn:E.
  - apply Nat.ltb_lt in E.
    destruct (search_spec (window_pred 0 xs q x) (length xs - q) (window_pred_mono xs q x Hs)) as (B & Lo & Hi).
    fold n0 in B, Lo, Hi. split; [lia|].
    intros j k a b Hj Hk Ea Eb. destruct Hk as [Hk|Hk].
    + (* a point left of the window *)
      assert (F : window_pred 0 xs q x (n0 - 1) = false) by (apply Lo; lia).
      destruct (nth_error xs (n0 - 1)) as [L|] eqn:EL; [|apply nth_error_None in EL; lia].
      destruct (nth_error xs (n0 - 1 + q)) as [R|] eqn:ER; [|apply nth_error_None in ER; lia].
      assert (HLR : ~ x * 2 <= L + R).
      { intro C. apply (window_pred_exact xs q x _ L R EL ER) in C. congruence. }
      pose proof (Hs k (n0 - 1)%nat b L ltac:(lia) Eb EL).
      pose proof (Hs (n0 - 1)%nat j L a ltac:(lia) EL Ea).
      pose proof (Hs j (n0 - 1 + q)%nat a R ltac:(lia) Ea ER).
      apply Qle_trans with (x - b); [apply Qabs_le_of; lra|].
      setoid_replace (x - b) with (- (b - x)) by ring. rewrite <- Qabs_opp. apply Qle_Qabs.
    + (* a point right of the window *)
      assert (Hk' : (k < length xs)%nat) by (apply nth_error_Some; congruence).
      assert (F : window_pred 0 xs q x n0 = true) by (apply Hi; lia).
      destruct (nth_error xs n0) as [L|] eqn:EL; [|apply nth_error_None in EL; lia].
      destruct (nth_error xs (n0 + q)) as [R|] eqn:ER; [|apply nth_error_None in ER; lia].
      apply (window_pred_exact xs q x _ L R EL ER) in F.
      pose proof (Hs (n0 + q)%nat k R b ltac:(lia) ER Eb).
      pose proof (Hs n0 j L a ltac:(lia) EL Ea).
      pose proof (Hs j (n0 + q)%nat a R ltac:(lia) Ea ER).
      apply Qle_trans with (b - x); [apply Qabs_le_of; lra | apply Qle_Qabs].
  - apply Nat.ltb_ge in E. subst n0. split; [lia|].
    intros j k a b Hj Hk Ea Eb. assert (k < length xs)%nat by (apply nth_error_Some; congruence). lia.
Qed.

(* ====================================================================== *)
(* LOESS: sorting, weights, the local fit                                  *)
(* ====================================================================== *)
Fixpoint lsorted (l : list Q) : Prop :=
  match l with [] => True | a :: t => (forall b, In b t -> a <= b) /\ lsorted t end.

Lemma lsorted_sorted_idx l : lsorted l -> sorted_idx l.
Proof.
  induction l as [|a t IH]; intros H.
  - intros i j x y _ Hi. destruct i; discriminate.
  - destruct H as [Ha Ht]. apply sorted_idx_cons; auto.
Qed.
Lemma sortedb_lsorted xs : sortedb xs = true -> lsorted xs.
Proof.
  induction xs as [|a t IH]; intros H; [exact I|]. destruct t as [|b t'].
  - split; [intros b []|exact I].
  - cbn [sortedb] in H. apply andb_prop in H as [H1 H2]. apply negb_true_iff in H1.
    assert (Hab : a <= b). { unfold Qltb in H1. apply negb_false_iff in H1. now apply Qle_bool_iff in H1. }
    specialize (IH H2). split; [|exact IH]. intros c [<-|Hc]; [exact Hab|].
    destruct IH as [Hb _]. apply Qle_trans with b; [exact Hab | now apply Hb].
Qed.
Lemma lsorted_skipn m l : lsorted l -> lsorted (skipn m l).
Proof. revert l. induction m as [|m IH]; intros [|a t] H; cbn [skipn]; auto. apply IH. apply H. Qed.
Lemma In_firstn {A} m (l : list A) z : In z (firstn m l) -> In z l.
Proof. intros H. rewrite <- (firstn_skipn m l). apply in_or_app. now left. Qed.
Lemma lsorted_firstn m l : lsorted l -> lsorted (firstn m l).
Proof.
  revert l. induction m as [|m IH]; intros [|a t] H; cbn [firstn]; try exact I.
  destruct H as [Ha Ht]. split; [|now apply IH]. intros b Hb. apply Ha. eapply In_firstn; eassumption.
Qed.
Lemma last_In (l : list Q) d : l <> [] -> In (last l d) l.
Proof.
  induction l as [|a [|b t] IH]; intros H; [congruence | now left |].
  right. apply IH. discriminate.
Qed.
Lemma lsorted_last l c : lsorted l -> In c l -> c <= last l 0.
Proof.
  induction l as [|a t IH]; intros H Hc; [destruct Hc|]. destruct H as [Ha Ht]. destruct t as [|b t'].
  - destruct Hc as [<-|[]]. apply Qle_refl.
  - change (last (a :: b :: t') 0) with (last (b :: t') 0). destruct Hc as [<-|Hc].
    + apply Ha. apply last_In. discriminate.
    + now apply IH.
Qed.

Lemma insert_pair_In p l z : In z (insert_pair p l) <-> z = p \/ In z l.
Proof.
  induction l as [|h t IH]; cbn [insert_pair].
  - cbn. intuition.
  - destruct (Qltb (fst p) (fst h)); cbn [In]; [intuition|]. rewrite IH. intuition.
Qed.
Lemma Qltb_false_le a b : Qltb a b = false -> b <= a.
Proof. unfold Qltb. intros H. apply negb_false_iff in H. now apply Qle_bool_iff. Qed.
Lemma Qltb_true_lt a b : Qltb a b = true -> a < b.
Proof. unfold Qltb. intros H. apply negb_true_iff in H. apply Qnot_le_lt. intro C. apply Qle_bool_iff in C. congruence. Qed.

Lemma insert_pair_lsorted p l : lsorted (map fst l) -> lsorted (map fst (insert_pair p l)).
Proof.
  induction l as [|h t IH]; intros H; cbn [insert_pair].
  - cbn. split; [intros b []|exact I].
  - destruct (Qltb (fst p) (fst h)) eqn:E.
    + apply Qltb_true_lt in E. cbn [map lsorted] in *. destruct H as [Hh Ht]. split; [|split; assumption].
      intros b [<-|Hb]; [now apply Qlt_le_weak|]. apply Qle_trans with (fst h); [now apply Qlt_le_weak | now apply Hh].
    + apply Qltb_false_le in E. cbn [map lsorted] in *. destruct H as [Hh Ht]. split; [|now apply IH].
      intros b Hb. apply in_map_iff in Hb as (z & <- & Hz). apply insert_pair_In in Hz as [->|Hz]; [exact E|].
      apply Hh. now apply in_map.
Qed.
Lemma sort_pairs_lsorted l : lsorted (map fst (sort_pairs l)).
Proof. induction l as [|p t IH]; cbn [sort_pairs]; [exact I | now apply insert_pair_lsorted]. Qed.
Lemma insert_pair_perm p l : Permutation (p :: l) (insert_pair p l).
Proof.
  induction l as [|h t IH]; cbn [insert_pair]; [reflexivity|].
  destruct (Qltb (fst p) (fst h)); [reflexivity|]. rewrite perm_swap. now apply perm_skip.
Qed.
Lemma sort_pairs_perm l : Permutation l (sort_pairs l).
Proof.
  induction l as [|p t IH]; cbn [sort_pairs]; [reflexivity|].
  rewrite <- insert_pair_perm. now apply perm_skip.
Qed.
Lemma combine_fst_snd (l : list (Q * Q)) : combine (map fst l) (map snd l) = l.
Proof. induction l as [|[a b] t IH]; cbn; [reflexivity | now rewrite IH]. Qed.

Lemma prepare_spec xs ys sx sy : length xs = length ys -> loess_prepare xs ys = (sx, sy) ->
  lsorted sx /\ length sx = length xs /\ length sy = length xs /\ Permutation (combine xs ys) (combine sx sy).
Proof.
  intros Hl. unfold loess_prepare. destruct (sortedb xs) eqn:E; intros H; inversion H; subst; clear H.
  - repeat split; auto. now apply sortedb_lsorted.
  - pose proof (sort_pairs_perm (combine xs ys)) as P.
    assert (L : length (sort_pairs (combine xs ys)) = length xs).
    { rewrite <- (Permutation_length P), combine_length, <- Hl. apply Nat.min_id. }
    repeat split; [apply sort_pairs_lsorted | now rewrite map_length | now rewrite map_length |].
    now rewrite combine_fst_snd.
Qed.

Lemma tricube_nonneg x d c : 0 < d -> Qabs (x - c) <= d -> 0 <= tricube x d c.
Proof.
  intros Hd Ha. unfold tricube. rewrite Qred_correct.
  set (u := Qabs (x - c) / d).
  assert (H0 : 0 <= u) by (apply Qle_shift_div_l; [exact Hd | rewrite Qmult_0_l; apply Qabs_nonneg]).
  assert (H1 : u <= 1) by (apply Qle_shift_div_r; [exact Hd | now rewrite Qmult_1_l]).
  assert (H2 : u * u <= 1) by nra.
  assert (H3 : 0 <= 1 - u * u * u) by nra.
  generalize dependent (1 - u * u * u). intros t Ht. nra.
Qed.

(* the local design: the window of q points from n0, with tricube weights relative to the distance d
   of the farthest window point *)
Lemma loess_design_spec sx sy q n0 x cx cy w : lsorted sx -> loess_design sx sy q n0 x = FOk (cx, cy, w) ->
  cx = firstn q (skipn n0 sx) /\ cy = firstn q (skipn n0 sy) /\
  exists d, 0 < d /\ (forall c, In c cx -> Qabs (x - c) <= d) /\ (exists c, In c cx /\ Qabs (x - c) == d) /\
            w = map (tricube x d) cx.
Proof.
  intros Hs. unfold loess_design. set (wx := firstn q (skipn n0 sx)). set (wy := firstn q (skipn n0 sy)).
  assert (Hws : lsorted wx) by (apply lsorted_firstn, lsorted_skipn, Hs).
  destruct wx as [|c0 rest] eqn:Ewx; [discriminate|].
  set (d0 := x - c0). set (d1 := last (c0 :: rest) 0 - x).
  set (d := if Qltb d0 d1 then d1 else d0).
  destruct (Qeqb d 0) eqn:Ed; [discriminate|]. intros H; inversion H; subst cx cy w; clear H.
  split; [reflexivity|]. split; [reflexivity|]. exists d.
  assert (Hdn : ~ d == 0) by (intro C; apply Qeqb_true in C; congruence).
  assert (Hc0 : forall c, In c (c0 :: rest) -> c0 <= c).
  { intros c [<-|Hc]; [apply Qle_refl | now apply Hws]. }
  assert (Hl : forall c, In c (c0 :: rest) -> c <= last (c0 :: rest) 0) by (intros c Hc; now apply lsorted_last).
  assert (Hsum : 0 <= d0 + d1).
  { unfold d0, d1. pose proof (Hl c0 (or_introl eq_refl)). lra. }
  assert (Hd01 : d0 <= d /\ d1 <= d /\ (d == d0 \/ d == d1)).
  { unfold d. destruct (Qltb d0 d1) eqn:E.
    - apply Qltb_true_lt in E. split; [lra | split; [lra | right; reflexivity]].
    - apply Qltb_false_le in E. split; [lra | split; [lra | left; reflexivity]]. }
  destruct Hd01 as (Hd0 & Hd1 & Hdd).
  assert (Hdpos : 0 < d) by (destruct (Qlt_le_dec 0 d) as [|C]; [assumption | exfalso; apply Hdn; lra]).
  split; [exact Hdpos|]. split; [|split; [|reflexivity]].
  - intros c Hc. specialize (Hc0 c Hc). specialize (Hl c Hc). apply Qabs_le_of; unfold d0, d1 in *; lra.
  - destruct Hdd as [E|E].
    + exists c0. split; [now left|]. rewrite E. unfold d0. apply Qabs_pos. unfold d0 in *. lra.
    + exists (last (c0 :: rest) 0). split; [apply last_In; discriminate|]. rewrite E. unfold d1.
      setoid_replace (x - last (c0 :: rest) 0) with (- (last (c0 :: rest) 0 - x)) by ring.
      rewrite Qabs_opp. apply Qabs_pos. unfold d1 in *. lra.
Qed.

Lemma loess_inv xs ys deg span x beta v : loess xs ys (Z.of_nat deg) span x = FOk (beta, v) ->
  exists sx sy cx cy w, loess_prepare xs ys = (sx, sy) /\ 0 < span /\
    let q := loess_q (length xs) span in let n0 := window_start 0 sx q x in
    loess_design sx sy q n0 x = FOk (cx, cy, w) /\
    polyreg cx cy (Some w) (Z.of_nat deg) = FOk beta /\ polyF beta x = Some v.
Proof.
  unfold loess. destruct (Z.of_nat deg <? 0)%Z; [discriminate|].
  destruct (Qle_bool span 0) eqn:Es; [discriminate|].
  destruct (loess_prepare xs ys) as [sx sy] eqn:Ep. unfold loess_at.
  destruct (loess_design sx sy _ _ x) as [[[cx cy] w]| |] eqn:Ed; try discriminate.
  destruct (polyreg cx cy (Some w) (Z.of_nat deg)) as [b| |] eqn:Er; try discriminate.
  destruct (polyF b x) as [v'|] eqn:Ef; [|discriminate]. intros H; inversion H; subst.
  exists sx, sy, cx, cy, w. repeat split; auto.
  apply Qnot_le_lt. intro C. apply Qle_bool_iff in C. congruence.
Qed.

(* LOESS(x) is the tricube-weighted least-squares polynomial of the window, evaluated at x *)
Theorem loess_is_local_tricube_fit xs ys deg span x beta v :
  length xs = length ys -> loess xs ys (Z.of_nat deg) span x = FOk (beta, v) ->
  exists sx sy cx cy w d,
    loess_prepare xs ys = (sx, sy) /\
    (let q := loess_q (length xs) span in let n0 := window_start 0 sx q x in
     cx = firstn q (skipn n0 sx) /\ cy = firstn q (skipn n0 sy)) /\
    0 < d /\ (forall c, In c cx -> Qabs (x - c) <= d) /\ (exists c, In c cx /\ Qabs (x - c) == d) /\
    w = map (tricube x d) cx /\ Forall (Qle 0) w /\
    length beta = S deg /\
    (forall beta', length beta' = S deg ->
       SSR (monomials deg cx) w cy beta <= SSR (monomials deg cx) w cy beta') /\
    v == poly_eval beta x.
Proof.
  intros Hl H. apply loess_inv in H as (sx & sy & cx & cy & w & Ep & Hspan & Hd & Hr & Hf).
  destruct (prepare_spec xs ys sx sy Hl Ep) as (Hs & _).
  destruct (loess_design_spec _ _ _ _ _ _ _ _ Hs Hd) as (Ecx & Ecy & d & Hdpos & Hdist & Hfar & Ew).
  assert (Hwn : Forall (Qle 0) w).
  { rewrite Ew, Forall_forall. intros t Ht. apply in_map_iff in Ht as (c & <- & Hc). apply tricube_nonneg; auto. }
  rewrite polyreg_is_lls_on_monomials in Hr.
  destruct (lls_minimises _ _ _ _ _ Hr (monomials_cols deg cx) Hwn) as (Hb & _ & Hmin).
  rewrite monomials_len in Hb, Hmin. cbn [weights_or_ones] in Hmin.
  exists sx, sy, cx, cy, w, d. repeat split; auto. now apply F_is_poly_eval.
Qed.

(* ====================================================================== *)
(* LOESS reproduces polynomials of degree <= its degree                    *)
(* ====================================================================== *)
Lemma combine_skipn' {A B} m (a : list A) (b : list B) : combine (skipn m a) (skipn m b) = skipn m (combine a b).
Proof. revert a b. induction m as [|m IH]; intros [|x a] [|y b]; cbn; auto. now destruct (skipn m a). Qed.
Lemma combine_firstn' {A B} m (a : list A) (b : list B) : combine (firstn m a) (firstn m b) = firstn m (combine a b).
Proof. revert a b. induction m as [|m IH]; intros [|x a] [|y b]; cbn; auto. now rewrite IH. Qed.
Lemma In_skipn {A} m (l : list A) z : In z (skipn m l) -> In z l.
Proof. intros H. rewrite <- (firstn_skipn m l). apply in_or_app. now right. Qed.
Lemma Forall_combine_vn (P : Q -> Q -> Prop) a b : length a = length b ->
  Forall (fun pr => P (fst pr) (snd pr)) (combine a b) -> forall i, (i < length a)%nat -> P (vn a i) (vn b i).
Proof.
  revert b. induction a as [|x a IH]; intros [|y b] Hl F i Hi; cbn in *; try lia.
  inversion F; subst. destruct i as [|i]; [assumption|]. apply IH; auto; lia.
Qed.
Lemma poly_eval_ext a b x : Forall2 Qeq a b -> poly_eval a x == poly_eval b x.
Proof.
  intros H. apply Forall2_Qeq_vn in H as [Hl Hv]. unfold poly_eval. rewrite <- Hl.
  apply sum_n_ext. intros i Hi. now rewrite Hv.
Qed.

Theorem loess_reproduces_poly xs ys deg span x p beta v :
  length xs = length ys ->
  loess xs ys (Z.of_nat deg) span x = FOk (beta, v) ->
  length p = S deg ->
  Forall (fun pr => snd pr == poly_eval p (fst pr)) (combine xs ys) ->
  (forall sx sy cx cy w, loess_prepare xs ys = (sx, sy) ->
     loess_design sx sy (loess_q (length xs) span) (window_start 0 sx (loess_q (length xs) span) x) x = FOk (cx, cy, w) ->
     enough_points deg cx w) ->
  Forall2 Qeq beta p /\ v == poly_eval p x.
Proof.
  intros Hl H Hp Hdata Hen.
  pose proof (loess_inv _ _ _ _ _ _ _ H) as (sx & sy & cx & cy & w & Ep & Hspan & Hd & Hr & Hf).
  cbv zeta in Hd. specialize (Hen sx sy cx cy w Ep Hd).
  destruct (prepare_spec xs ys sx sy Hl Ep) as (Hs & Hlx & Hly & Perm).
  destruct (loess_design_spec _ _ _ _ _ _ _ _ Hs Hd) as (Ecx & Ecy & d & Hdpos & Hdist & _ & Ew).
  assert (Hwn : Forall (Qle 0) w).
  { rewrite Ew, Forall_forall. intros t Ht. apply in_map_iff in Ht as (c & <- & Hc). apply tricube_nonneg; auto. }
  assert (Hlc : length cx = length cy).
  { rewrite Ecx, Ecy, !firstn_length, !skipn_length. lia. }
  assert (Hwin : forall i, (i < length cx)%nat -> vn cy i == poly_eval p (vn cx i)).
  { apply (Forall_combine_vn (fun a b => b == poly_eval p a) cx cy Hlc).
    rewrite Ecx, Ecy, combine_firstn', combine_skipn'. rewrite Forall_forall in *. intros pr Hpr.
    apply In_firstn, In_skipn in Hpr. apply Hdata. eapply Permutation_in; [symmetry; exact Perm | exact Hpr]. }
  assert (B : Forall2 Qeq beta p).
  { apply (polyreg_reproduces cx cy (Some w) deg p beta Hr Hwn Hp Hwin). exact Hen. }
  split; [exact B|]. rewrite (F_is_poly_eval _ _ _ Hf). now apply poly_eval_ext.
Qed.

(* ====================================================================== *)
(* LOESS does not depend on the order of the input (distinct abscissae)    *)
(* ====================================================================== *)
Fixpoint ssorted (l : list (Q * Q)) : Prop :=
  match l with [] => True | a :: t => (forall b, In b t -> fst a < fst b) /\ ssorted t end.

(* two strictly sorted lists with the same elements are equal *)
Lemma ssorted_perm_eq l : forall l', ssorted l -> ssorted l' -> Permutation l l' -> l = l'.
Proof.
  induction l as [|a t IH]; intros [|a' t'] Hs Hs' P.
  - reflexivity.
  - apply Permutation_nil in P. discriminate.
  - symmetry in P. apply Permutation_nil in P. discriminate.
  - destruct Hs as [Ha Ht]. destruct Hs' as [Ha' Ht'].
    assert (E : a = a').
    { assert (I1 : In a (a' :: t')) by (eapply Permutation_in; [exact P | now left]).
      assert (I2 : In a' (a :: t)) by (eapply Permutation_in; [symmetry; exact P | now left]).
      destruct I1 as [->|I1]; [reflexivity|]. destruct I2 as [->|I2]; [reflexivity|].
      specialize (Ha' a I1). specialize (Ha a' I2). exfalso. lra. }
    subst a'. f_equal. apply IH; auto. eapply Permutation_cons_inv; exact P.
Qed.

(* keys pairwise different *)
Definition keys_distinct (l : list (Q * Q)) : Prop := distinctQ (map fst l).
Lemma keys_distinct_alt l : keys_distinct l <->
  match l with [] => True | a :: t => (forall b, In b t -> ~ fst a == fst b) /\ keys_distinct t end.
Proof.
  destruct l as [|a t]; [reflexivity|]. unfold keys_distinct. cbn [map distinctQ]. rewrite Forall_forall. split.
  - intros [H1 H2]. split; [|exact H2]. intros b Hb. apply H1. now apply in_map.
  - intros [H1 H2]. split; [|exact H2]. intros r Hr. apply in_map_iff in Hr as (b & <- & Hb). now apply H1.
Qed.
Lemma keys_distinct_pairs l : keys_distinct l -> forall a b l1 l2 l3, l = l1 ++ a :: l2 ++ b :: l3 -> ~ fst a == fst b.
Proof.
  induction l as [|h t IH]; intros H a b l1 l2 l3 E; [destruct l1; discriminate|].
  apply keys_distinct_alt in H as [Hh Ht]. destruct l1 as [|h1 l1]; cbn in E; inversion E; subst.
  - apply Hh. apply in_or_app. right. now left.
  - eapply IH; eauto.
Qed.
(* distinctness is a property of the set of pairs: any two different positions have different keys *)
Definition keys_inj (l : list (Q * Q)) : Prop :=
  forall i j a b, nth_error l i = Some a -> nth_error l j = Some b -> fst a == fst b -> i = j.
Lemma keys_distinct_inj l : keys_distinct l -> keys_inj l.
Proof.
  induction l as [|h t IH]; intros H i j a b Hi Hj E; [destruct i; discriminate|].
  apply keys_distinct_alt in H as [Hh Ht].
  destruct i as [|i], j as [|j]; cbn in Hi, Hj; auto.
  - inversion Hi; subst. exfalso. apply (Hh b); [eapply nth_error_In; eassumption | exact E].
  - inversion Hj; subst. exfalso. apply (Hh a); [eapply nth_error_In; eassumption | now symmetry].
  - f_equal. eapply IH; eauto.
Qed.

Lemma insert_pair_ssorted p l : ssorted l -> (forall b, In b l -> ~ fst p == fst b) -> ssorted (insert_pair p l).
Proof.
  induction l as [|h t IH]; intros H Hp; cbn [insert_pair].
  - split; [intros b []|exact I].
  - destruct H as [Hh Ht]. destruct (Qltb (fst p) (fst h)) eqn:E.
    + apply Qltb_true_lt in E. split; [|split; assumption].
      intros b [<-|Hb]; [exact E|]. apply Qlt_trans with (fst h); [exact E | now apply Hh].
    + apply Qltb_false_le in E. split.
      * intros b Hb. apply insert_pair_In in Hb as [->|Hb]; [|now apply Hh].
        destruct (Qlt_le_dec (fst h) (fst p)) as [L|L]; [exact L|].
        exfalso. apply (Hp h); [now left | lra].
      * apply IH; [exact Ht|]. intros b Hb. apply Hp. now right.
Qed.

Lemma keys_distinct_perm l l' : Permutation l l' -> keys_distinct l -> keys_distinct l'.
Proof.
  induction 1 as [|x l l' P IH|x y l|l l' l'' P1 IH1 P2 IH2]; intros H; auto.
  - apply keys_distinct_alt in H as [Hx Hl]. apply keys_distinct_alt. split; [|now apply IH].
    intros b Hb. apply Hx. eapply Permutation_in; [symmetry; exact P | exact Hb].
  - apply keys_distinct_alt in H as [Hy H]. apply keys_distinct_alt in H as [Hx Hl].
    apply keys_distinct_alt. split.
    + intros b [<-|Hb]; [intro C; apply (Hy x); [now left | now symmetry] | now apply Hx].
    + apply keys_distinct_alt. split; [|exact Hl]. intros b Hb. apply Hy. now right.
Qed.

Lemma sort_pairs_ssorted l : keys_distinct l -> ssorted (sort_pairs l).
Proof.
  induction l as [|p t IH]; intros H; cbn [sort_pairs]; [exact I|].
  apply keys_distinct_alt in H as [Hp Ht]. apply insert_pair_ssorted; [now apply IH|].
  intros b Hb. apply Hp. eapply Permutation_in; [symmetry; apply sort_pairs_perm | exact Hb].
Qed.
Lemma Qltb_lt_true a b : a < b -> Qltb a b = true.
Proof.
  intros H. unfold Qltb. apply negb_true_iff. destruct (Qle_bool b a) eqn:E; [|reflexivity].
  apply Qle_bool_iff in E. exfalso. lra.
Qed.
Lemma sort_pairs_id l : ssorted l -> sort_pairs l = l.
Proof.
  induction l as [|p t IH]; intros H; cbn [sort_pairs]; [reflexivity|]. destruct H as [Hp Ht].
  rewrite (IH Ht). destruct t as [|h t']; [reflexivity|]. cbn [insert_pair].
  now rewrite (Qltb_lt_true _ _ (Hp h (or_introl eq_refl))).
Qed.
Lemma lsorted_distinct_ssorted l : lsorted (map fst l) -> keys_distinct l -> ssorted l.
Proof.
  induction l as [|a t IH]; intros Hs Hd; [exact I|]. cbn [map lsorted] in Hs. destruct Hs as [Ha Ht].
  apply keys_distinct_alt in Hd as [Hda Hdt]. split; [|now apply IH].
  intros b Hb. specialize (Ha (fst b) (in_map fst _ _ Hb)). specialize (Hda b Hb).
  destruct (Qlt_le_dec (fst a) (fst b)) as [L|L]; [exact L | exfalso; apply Hda; lra].
Qed.
Lemma map_fst_combine' (a b : list Q) : length a = length b -> map fst (combine a b) = a.
Proof. revert b. induction a as [|x a IH]; intros [|y b] H; cbn in *; try lia; auto. now rewrite IH by lia. Qed.
Lemma map_snd_combine' (a b : list Q) : length a = length b -> map snd (combine a b) = b.
Proof. revert b. induction a as [|x a IH]; intros [|y b] H; cbn in *; try lia; auto. now rewrite IH by lia. Qed.

(* with distinct abscissae the prepared data are THE sorted list of pairs, whether or not the input was sorted *)
Lemma prepare_canonical xs ys : length xs = length ys -> distinctQ xs ->
  loess_prepare xs ys = (map fst (sort_pairs (combine xs ys)), map snd (sort_pairs (combine xs ys))).
Proof.
  intros Hl Hd. unfold loess_prepare. destruct (sortedb xs) eqn:E; [|reflexivity].
  assert (Hk : keys_distinct (combine xs ys)) by (unfold keys_distinct; now rewrite map_fst_combine').
  rewrite sort_pairs_id.
  - now rewrite map_fst_combine', map_snd_combine'.
  - apply lsorted_distinct_ssorted; [|exact Hk]. rewrite map_fst_combine' by exact Hl. now apply sortedb_lsorted.
Qed.

(* LOESS does not depend on the order in which the (x, y) pairs are given, for distinct abscissae *)
Theorem loess_perm_invariant xs ys xs' ys' deg span x :
  length xs = length ys -> length xs' = length ys' -> distinctQ xs ->
  Permutation (combine xs ys) (combine xs' ys') ->
  loess xs ys deg span x = loess xs' ys' deg span x.
Proof.
  intros Hl Hl' Hd P.
  assert (Hk : keys_distinct (combine xs ys)) by (unfold keys_distinct; now rewrite map_fst_combine').
  assert (Hk' : keys_distinct (combine xs' ys')) by (eapply keys_distinct_perm; eassumption).
  assert (Hd' : distinctQ xs') by (unfold keys_distinct in Hk'; now rewrite map_fst_combine' in Hk').
  assert (Hn : length xs = length xs').
  { pose proof (Permutation_length P) as L. rewrite !combine_length, <- Hl, <- Hl', !Nat.min_id in L. exact L. }
  assert (ES : sort_pairs (combine xs ys) = sort_pairs (combine xs' ys')).
  { apply ssorted_perm_eq; try now apply sort_pairs_ssorted.
    rewrite <- (sort_pairs_perm (combine xs ys)), <- (sort_pairs_perm (combine xs' ys')). exact P. }
  unfold loess. rewrite (prepare_canonical xs ys Hl Hd), (prepare_canonical xs' ys' Hl' Hd'), ES, Hn. reflexivity.
Qed.

(* ====================================================================== *)
(* uniqueness of the minimiser; dependence on the window only              *)
(* ====================================================================== *)
(* two solutions of the normal equations give the same fitted value at every observation of positive
   weight; hence they coincide when the columns are independent on those observations *)
Theorem lls_unique n cols w y beta1 beta2 :
  wf_design n cols w y -> (forall i, (i < n)%nat -> 0 <= vn w i) ->
  length beta1 = length cols -> length beta2 = length cols ->
  Forall2 Qeq (mat_vec (normal_lhs cols w) beta1) (normal_rhs cols w y) ->
  Forall2 Qeq (mat_vec (normal_lhs cols w) beta2) (normal_rhs cols w y) ->
  (forall i, (i < n)%nat -> 0 < vn w i -> fit_at cols beta1 i == fit_at cols beta2 i) /\
  ((forall delta : nat -> Q,
      (forall i, (i < n)%nat -> 0 < vn w i -> sum_n (fun j => delta j * Xe cols j i) (length cols) == 0) ->
      forall j, (j < length cols)%nat -> delta j == 0) ->
   Forall2 Qeq beta1 beta2).
Proof.
  intros Hwf Hw H1 H2 N1 N2.
  pose proof (proj1 (normal_eq_orth n cols w y Hwf beta1 H1) N1) as O1.
  pose proof (proj1 (normal_eq_orth n cols w y Hwf beta2 H2) N2) as O2. clear N1 N2. rename O1 into N1. rename O2 into N2.
  pose proof (SSR_expand n cols w y Hwf beta1 beta2) as E12.
  pose proof (SSR_expand n cols w y Hwf beta2 beta1) as E21.
  rewrite (sum_n_ext _ (fun _ => 0)) in E12 by (intros j Hj; rewrite (N1 j Hj); ring).
  rewrite (sum_n_ext _ (fun _ => 0)) in E21 by (intros j Hj; rewrite (N2 j Hj); ring).
  rewrite sum_n_zero in E12, E21.
  pose proof (quad_nonneg n cols w Hw beta1 beta2) as Q12. pose proof (quad_nonneg n cols w Hw beta2 beta1) as Q21.
  assert (Z : sum_n (fun i => vn w i * (dfit cols beta1 beta2 i * dfit cols beta1 beta2 i)) n == 0) by lra.
  assert (D : forall i, (i < n)%nat -> 0 < vn w i -> dfit cols beta1 beta2 i == 0).
  { intros i Hi Hp.
    assert (E : vn w i * (dfit cols beta1 beta2 i * dfit cols beta1 beta2 i) == 0).
    { apply (sum_n_zero_terms (fun i => vn w i * (dfit cols beta1 beta2 i * dfit cols beta1 beta2 i)) n); [|exact Z|exact Hi].
      intros l Hl. apply Qmult_le_0_compat; [now apply Hw|]. generalize (dfit cols beta1 beta2 l). intros q. nra. }
    apply Qmult_integral in E as [E|E]; [lra|]. apply Qmult_integral in E as [E|E]; exact E. }
  split.
  - intros i Hi Hp. specialize (D i Hi Hp). unfold dfit in D. unfold fit_at.
    assert (S : sum_n (fun j => vn beta2 j * Xe cols j i) (length cols) ==
                sum_n (fun j => vn beta1 j * Xe cols j i) (length cols) + sum_n (fun j => (vn beta2 j - vn beta1 j) * Xe cols j i) (length cols)).
    { rewrite <- sum_n_add. apply sum_n_ext. intros j Hj. ring. }
    rewrite S, D. ring.
  - intros Hind. apply Forall2_Qeq_vn. split; [now rewrite H1, H2|]. intros j Hj. rewrite H1 in Hj.
    specialize (Hind (fun j => vn beta2 j - vn beta1 j) D j Hj). cbv beta in Hind. lra.
Qed.

(* the value of the LOESS closure is a function of the window alone *)
Theorem loess_depends_only_on_window sx sy sx' sy' deg q n0 q' n0' x :
  firstn q (skipn n0 sx) = firstn q' (skipn n0' sx') ->
  firstn q (skipn n0 sy) = firstn q' (skipn n0' sy') ->
  loess_at sx sy deg q n0 x = loess_at sx' sy' deg q' n0' x.
Proof. intros Ex Ey. unfold loess_at, loess_design. now rewrite Ex, Ey. Qed.

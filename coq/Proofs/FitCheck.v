(* Proofs/FitCheck.v — what the comparator Check/C15.v uses as "the exact answer" (the first column of
   [solve_cond], computed together with kappa in one elimination) is a verified solution of the normal
   equations, hence a minimiser, and coincides with the model's LinearLeastSquares on independent columns. *)
From MM Require Import Base.Num Model.Fit Spec.Fit Proofs.Fit Proofs.FitSolve Check.C15.
From Coq Require Import Lqa Setoid Morphisms.
Local Open Scope Q_scope.

Lemma solve_cond_sound A b beta kap : solve_cond A b = Some (beta, kap) ->
  Forall2 Qeq (mat_vec A beta) b /\ length beta = length b /\ length A = length b.
Proof.
  unfold solve_cond. destruct (solve_multi_Z A _) as [[[|N invcols] D]|] eqn:E; try discriminate.
  intros H; inversion H; subst; clear H. apply solve_multi_Z_sound in E as [HD F].
  inversion F; subst. now apply sol_ok_sound.
Qed.

(* the reference coefficients of the comparator minimise the weighted sum of squares *)
Theorem fit_cond_minimises n cols w y beta kap : fit_cond cols w y = Some (beta, kap) ->
  wf_design n cols w y -> (forall i, (i < n)%nat -> 0 <= vn w i) ->
  length beta = length cols /\
  (forall j, (j < length cols)%nat -> orth_at cols w y beta j == 0) /\
  (forall beta', length beta' = length cols -> SSR cols w y beta <= SSR cols w y beta').
Proof.
  intros H Hwf Hw. unfold fit_cond in H. apply solve_cond_sound in H as (S1 & S2 & S3).
  assert (Lb : length beta = length cols) by (rewrite S2; unfold normal_rhs; now rewrite map_length).
  split; [exact Lb|]. split.
  - now apply (normal_eq_orth n cols w y Hwf beta Lb).
  - now apply (normal_eq_iff_minimiser n cols w y Hwf Hw beta Lb).
Qed.

(* ... and are the coefficients the model's LinearLeastSquares returns, on independent columns *)
Theorem fit_cond_is_lls nx y w cols beta kap beta' :
  fit_cond cols (weights_or_ones nx w) y = Some (beta, kap) -> lls nx y w cols = FOk beta' ->
  Forall (fun c => length c = nx) cols -> weights_nonneg w -> indep_cols nx cols (weights_or_ones nx w) ->
  Forall2 Qeq beta beta'.
Proof.
  intros H L Hc Hw Hind. pose proof (lls_ok_inv _ _ _ _ _ L) as (Hy & Hwl & S). cbv zeta in *.
  set (wl := weights_or_ones nx w) in *.
  assert (Hwf : wf_design nx cols wl y) by (repeat split; auto).
  assert (Hwn : forall i, (i < nx)%nat -> 0 <= vn wl i).
  { intros i Hi. apply Forall_vn_nonneg; [|now rewrite Hwl]. unfold wl. destruct w; [exact Hw | apply Forall_repeat_1]. }
  unfold fit_cond in H. apply solve_cond_sound in H as (S1 & S2 & S3).
  unfold lls_solve in S. apply solve_checked_sound in S as (T1 & T2 & T3).
  assert (Lr : length (normal_rhs cols wl y) = length cols) by (unfold normal_rhs; now rewrite map_length).
  destruct (lls_unique nx cols wl y beta beta' Hwf Hwn ltac:(congruence) ltac:(congruence) S1 T1) as [_ U].
  exact (U Hind).
Qed.

(* LOESS: the comparator's per-query reference (loess_design + fit_cond + polyF, Check.loess_query) is the
   model's loess_at: same coefficients, same value *)
Theorem loess_query_reference sx sy deg q n0 x cx cy w beta kap beta' v' :
  loess_design sx sy q n0 x = FOk (cx, cy, w) ->
  fit_cond (monomials deg cx) w cy = Some (beta, kap) ->
  loess_at sx sy (Z.of_nat deg) q n0 x = FOk (beta', v') ->
  Forall (Qle 0) w -> enough_points deg cx w ->
  Forall2 Qeq beta beta' /\ exists e, polyF beta x = Some e /\ e == v'.
Proof.
  intros Hd Hf Ha Hw He. unfold loess_at in Ha. rewrite Hd in Ha.
  destruct (polyreg cx cy (Some w) (Z.of_nat deg)) as [b| |] eqn:Er; try discriminate.
  destruct (polyF b x) as [v|] eqn:Ev; [|discriminate]. inversion Ha; subst b v; clear Ha.
  rewrite polyreg_is_lls_on_monomials in Er.
  assert (B : Forall2 Qeq beta beta').
  { apply (fit_cond_is_lls (length cx) cy (Some w) (monomials deg cx) beta kap beta'); auto.
    - apply monomials_cols.
    - now apply enough_points_indep. }
  split; [exact B|].
  destruct (polyF_some beta x) as [e He'].
  { intro E. subst beta. inversion B; subst. discriminate Ev. }
  exists e. split; [exact He'|]. rewrite (F_is_poly_eval _ _ _ He'), (F_is_poly_eval _ _ _ Ev). now apply poly_eval_ext.
Qed.

(* Proofs/FitLoess.v — LOESS (C15): the window width q = min(n, ceil(span n)), and the precise sense
   in which the value depends on the window only. *)
From MM Require Import Base.Num Model.Fit Spec.Fit Proofs.Fit.
From Coq Require Import Lqa Setoid Morphisms Permutation.
Local Open Scope Q_scope.

(* ====================================================================== *)
(* ceilQ is the ceiling                                                    *)
(* ====================================================================== *)
Theorem ceilQ_spec q :
  q <= inject_Z (ceilQ q) /\ inject_Z (ceilQ q) < q + 1 /\ forall z, q <= inject_Z z -> (ceilQ q <= z)%Z.
Proof.
  destruct q as [n d]. unfold ceilQ. cbn [Qnum Qden].
  pose proof (Z.div_mod (- n) (Zpos d) ltac:(lia)) as E.
  pose proof (Z.mod_pos_bound (- n) (Zpos d) ltac:(lia)) as B.
  set (t := (- n / Zpos d)%Z) in *. set (r := ((- n) mod Zpos d)%Z) in *.
  assert (C : (- t * Zpos d = n + r)%Z) by lia.
  split; [|split].
  - unfold Qle, inject_Z. cbn [Qnum Qden]. lia.
  - unfold Qlt, Qplus, inject_Z. cbn [Qnum Qden]. rewrite Pos2Z.inj_mul. nia.
  - intros z Hz. unfold Qle, inject_Z in Hz. cbn [Qnum Qden] in Hz. nia.
Qed.

Lemma Qofnat_nonneg n : 0 <= Qofnat n.
Proof. unfold Qofnat, Qle, inject_Z. cbn. lia. Qed.
Lemma Qofnat_ge1 n : (1 <= n)%nat -> 1 <= Qofnat n.
Proof. intros H. unfold Qofnat, Qle, inject_Z. cbn. lia. Qed.
Lemma inject_Z_le a b : inject_Z a <= inject_Z b <-> (a <= b)%Z.
Proof. unfold Qle, inject_Z. cbn. lia. Qed.
Lemma inject_Z_lt a b : inject_Z a < inject_Z b <-> (a < b)%Z.
Proof. unfold Qlt, inject_Z. cbn. lia. Qed.

(* the window width of loess.go:45-48 *)
Theorem loess_q_spec n span : 0 < span ->
  let c := ceilQ (span * Qofnat n) in
  (span * Qofnat n <= inject_Z c /\ inject_Z c < span * Qofnat n + 1 /\
   (forall z, span * Qofnat n <= inject_Z z -> (c <= z)%Z)) /\
  Z.of_nat (loess_q n span) = Z.min (Z.of_nat n) c /\
  ((1 <= n)%nat -> (1 <= loess_q n span <= n)%nat) /\
  (span <= 1 -> Z.of_nat (loess_q n span) = c).
Proof.
  intros Hs c. pose proof (ceilQ_spec (span * Qofnat n)) as (H1 & H2 & H3). fold c in H1, H2, H3.
  pose proof (Qofnat_nonneg n) as Hn.
  assert (Hc0 : (0 <= c)%Z).
  { apply inject_Z_le. apply Qle_trans with (span * Qofnat n); [|exact H1].
    apply Qmult_le_0_compat; [apply Qlt_le_weak; exact Hs | exact Hn]. }
  assert (Hq : Z.of_nat (loess_q n span) = Z.min (Z.of_nat n) c).
  { unfold loess_q. fold c. destruct (Z.of_nat n <=? c)%Z eqn:E.
    - apply Z.leb_le in E. lia.
    - apply Z.leb_gt in E. rewrite Z2Nat.id by exact Hc0. lia. }
  split; [auto|]. split; [exact Hq|]. split.
  - intros Hn1. assert (Hc1 : (1 <= c)%Z).
    { assert (0 < c)%Z; [|lia]. apply inject_Z_lt. apply Qlt_le_trans with (span * Qofnat n); [|exact H1].
      pose proof (Qofnat_ge1 n Hn1) as G. change (inject_Z 0) with 0.
      apply Qmult_lt_0_compat; [exact Hs | apply Qlt_le_trans with 1; [reflexivity | exact G]]. }
    lia.
  - intros Hs1. assert (c <= Z.of_nat n)%Z; [|lia]. apply H3. fold (Qofnat n).
    setoid_replace (Qofnat n) with (1 * Qofnat n) at 2 by ring. apply Qmult_le_compat_r; assumption.
Qed.

(* ====================================================================== *)
(* the value depends on the data only through the window                   *)
(* ====================================================================== *)
Lemma nth_error_skipn' {A} n : forall (l : list A) i, nth_error (skipn n l) i = nth_error l (n + i).
Proof. induction n as [|n IH]; intros [|a l] i; cbn; auto. now destruct i. Qed.
Lemma nth_error_firstn' {A} q : forall (l : list A) i,
  nth_error (firstn q l) i = if (i <? q)%nat then nth_error l i else None.
Proof.
  induction q as [|q IH]; intros l i.
  - cbn. now destruct i.
  - destruct l as [|a l]; [rewrite firstn_nil; destruct (i <? S q)%nat; now destruct i|].
    destruct i as [|i]; [reflexivity|]. cbn [firstn nth_error]. rewrite IH. reflexivity.
Qed.
Lemma list_ext_nth_error {A} : forall a b : list A, (forall i, nth_error a i = nth_error b i) -> a = b.
Proof.
  induction a as [|x a IH]; intros [|y b] H; auto; try (specialize (H O); discriminate).
  pose proof (H O) as H0. inversion H0; subst. f_equal. apply IH. intros i. exact (H (S i)).
Qed.
Lemma window_ext {A} n0 q (a b : list A) : (forall i, (n0 <= i < n0 + q)%nat -> nth_error a i = nth_error b i) ->
  firstn q (skipn n0 a) = firstn q (skipn n0 b).
Proof.
  intros H. apply list_ext_nth_error. intros i. rewrite !nth_error_firstn', !nth_error_skipn'.
  destruct (i <? q)%nat eqn:E; [|reflexivity]. apply Nat.ltb_lt in E. apply H. lia.
Qed.

(* LOESS level: same number of points, same prepared window -> same value *)
Theorem loess_same_window xs ys xs' ys' deg span x sx sy sx' sy' :
  length xs = length xs' ->
  loess_prepare xs ys = (sx, sy) -> loess_prepare xs' ys' = (sx', sy') ->
  let q := loess_q (length xs) span in
  let n0 := window_start 0 sx q x in let n0' := window_start 0 sx' q x in
  firstn q (skipn n0 sx) = firstn q (skipn n0' sx') ->
  firstn q (skipn n0 sy) = firstn q (skipn n0' sy') ->
  loess xs ys deg span x = loess xs' ys' deg span x.
Proof.
  intros Hn Ep Ep' q n0 n0' Ex Ey. unfold loess. rewrite <- Hn, Ep, Ep'. fold q. fold n0 n0'.
  now rewrite (loess_depends_only_on_window sx sy sx' sy' deg q n0 q n0' x Ex Ey).
Qed.

(* the searched window start is characterised by the predicate at the two positions around it *)
Lemma window_start_char xs q x m : sorted_idx xs -> (q < length xs)%nat -> (m <= length xs - q)%nat ->
  ((0 < m)%nat -> window_pred 0 xs q x (m - 1) = false) ->
  ((m < length xs - q)%nat -> window_pred 0 xs q x m = true) ->
  window_start 0 xs q x = m.
Proof.
  intros Hs Hq Hm Hlo Hhi. unfold window_start. apply Nat.ltb_lt in Hq. rewrite Hq. apply Nat.ltb_lt in Hq.
  pose proof (window_pred_mono xs q x Hs) as Mo.
  destruct (search_spec (window_pred 0 xs q x) (length xs - q) Mo) as (B & Lo & Hi).
  set (r := search (length xs - q) (window_pred 0 xs q x)) in *.
  destruct (Nat.lt_trichotomy r m) as [C|[C|C]]; [exfalso|exact C|exfalso].
  - assert (T : window_pred 0 xs q x r = true) by (apply Hi; lia).
    assert (T' : window_pred 0 xs q x (m - 1) = true) by (apply (Mo r); [lia | exact T]).
    rewrite Hlo in T' by lia. discriminate.
  - assert (T : window_pred 0 xs q x m = true) by (apply Hhi; lia).
    rewrite (Lo m C) in T. discriminate.
Qed.

Lemma window_pred_agree xs xs' q x i : nth_error xs i = nth_error xs' i ->
  nth_error xs (i + q) = nth_error xs' (i + q) -> window_pred 0 xs q x i = window_pred 0 xs' q x i.
Proof. intros H1 H2. unfold window_pred. now rewrite H1, H2. Qed.

(* LOCALITY: if two sorted data sets of the same size agree on the searched window of the first and on the
   two points adjacent to it (they only decide that the window stays where it is), the search finds the
   same window in the second, and LOESS returns the same value: every other data point is irrelevant. *)
Theorem loess_local xs ys xs' ys' deg span x :
  sortedb xs = true -> sortedb xs' = true -> length xs = length xs' ->
  let q := loess_q (length xs) span in
  let n0 := window_start 0 xs q x in
  (forall i, (n0 - 1 <= i <= n0 + q)%nat -> nth_error xs i = nth_error xs' i) ->
  (forall i, (n0 <= i < n0 + q)%nat -> nth_error ys i = nth_error ys' i) ->
  window_start 0 xs' q x = n0 /\ loess xs ys deg span x = loess xs' ys' deg span x.
Proof.
  intros Hs Hs' Hn q n0 Hx Hy.
  assert (Ep : loess_prepare xs ys = (xs, ys)) by (unfold loess_prepare; now rewrite Hs).
  assert (Ep' : loess_prepare xs' ys' = (xs', ys')) by (unfold loess_prepare; now rewrite Hs').
  assert (W : window_start 0 xs' q x = n0).
  { destruct (q <? length xs)%nat eqn:E.
    - apply Nat.ltb_lt in E.
      pose proof (window_pred_mono xs q x (sortedb_sorted_idx xs Hs)) as Mo.
      destruct (search_spec (window_pred 0 xs q x) (length xs - q) Mo) as (B & Lo & Hi).
      assert (En0 : n0 = search (length xs - q) (window_pred 0 xs q x)).
      { unfold n0, window_start. apply Nat.ltb_lt in E. now rewrite E. }
      rewrite <- En0 in B, Lo, Hi.
      apply window_start_char; [now apply sortedb_sorted_idx | lia | lia | |].
      + intros Hpos. rewrite <- (window_pred_agree xs xs' q x (n0 - 1)) by (apply Hx; lia). apply Lo. lia.
      + intros Hlt. rewrite <- (window_pred_agree xs xs' q x n0) by (apply Hx; lia). apply Hi. lia.
    - assert (En0 : n0 = O) by (unfold n0, window_start; now rewrite E).
      unfold window_start. rewrite <- Hn, E. now rewrite En0. }
  split; [exact W|].
  apply (loess_same_window xs ys xs' ys' deg span x xs ys xs' ys' Hn Ep Ep'); fold q; fold n0; rewrite W.
  - apply window_ext. intros i Hi. apply Hx. lia.
  - apply window_ext. exact Hy.
Qed.

(* the window of the LOESS model is a set of q = min(n, ceil(span n)) nearest points of the prepared data *)
Theorem loess_window_nearest xs ys span x sx sy : length xs = length ys -> (1 <= length xs)%nat -> 0 < span ->
  loess_prepare xs ys = (sx, sy) ->
  let q := loess_q (length xs) span in
  let n0 := window_start 0 sx q x in
  Z.of_nat q = Z.min (Z.of_nat (length xs)) (ceilQ (span * Qofnat (length xs))) /\
  (1 <= q)%nat /\ (n0 + q <= length sx)%nat /\ length (firstn q (skipn n0 sx)) = q /\
  forall j k a b, (n0 <= j < n0 + q)%nat -> (k < n0 \/ n0 + q <= k)%nat ->
    nth_error sx j = Some a -> nth_error sx k = Some b -> Qabs (a - x) <= Qabs (b - x).
Proof.
  intros Hl Hn Hs Ep q n0.
  destruct (prepare_spec xs ys sx sy Hl Ep) as (Hso & Hlx & _).
  destruct (loess_q_spec (length xs) span Hs) as (_ & Hq & Hq1 & _). specialize (Hq1 Hn). fold q in Hq, Hq1.
  destruct (loess_window sx q x (lsorted_sorted_idx _ Hso) ltac:(lia)) as (B & W). fold n0 in B, W.
  split; [exact Hq|]. split; [lia|]. split; [exact B|]. split; [|exact W].
  rewrite firstn_length, skipn_length. lia.
Qed.

(* Proofs/FitSolve.v — COMPLETENESS of the exact solver of Model/Fit.v (C15):
   a regular square system always gets an answer from [solve_checked], hence LinearLeastSquares /
   PolynomialRegression / LOESS of the model return FOk whenever the design has independent columns
   on the positive-weight observations. *)
From MM Require Import Base.Num Model.Fit Spec.Fit Proofs.Fit.
From Coq Require Import Field Lqa Setoid Morphisms Permutation.
Local Open Scope Q_scope.

Definition zerov (v : list Q) : Prop := Forall (fun c => c == 0) v.

Lemma dot_zero_r r u : zerov u -> dot r u == 0.
Proof.
  intros Z; revert r; induction Z as [|c u Hc Z IH]; intros [|x r]; try reflexivity.
  rewrite dot_cons, Hc, IH. ring.
Qed.

Lemma dot_app a b c d : length a = length b -> dot (a ++ [c]) (b ++ [d]) == dot a b + c * d.
Proof.
  revert b; induction a as [|x a IH]; intros [|y b] L; try discriminate.
  - cbn [app]. rewrite dot_cons. cbn [dot]. ring.
  - cbn [app]. rewrite !dot_cons, IH by (now inversion L). ring.
Qed.

(* ---------- one elimination step ---------- *)
Lemma qaxpy_dot c : forall t r u, length t = length r -> dot (qaxpy t c r) u == dot t u - c * dot r u.
Proof.
  induction t as [|a t IH]; intros [|b r] u L; try discriminate.
  - cbn. ring.
  - destruct u as [|z u].
    + rewrite !dot_nil_r. ring.
    + cbn [qaxpy]. rewrite !dot_cons, IH by (now inversion L). rewrite Qred_correct. ring.
Qed.
Lemma qaxpy_len c : forall t r, length t = length r -> length (qaxpy t c r) = length t.
Proof. induction t as [|a t IH]; intros [|b r] L; try discriminate; cbn; [reflexivity|]. f_equal. apply IH. now inversion L. Qed.

Lemma qfind_pivot_some rows : forall pr others, qfind_pivot rows = Some (pr, others) ->
  (exists p r, pr = p :: r /\ ~ p == 0) /\
  (forall row, In row rows <-> row = pr \/ In row others) /\ length rows = S (length others).
Proof.
  induction rows as [|r rs IH]; intros pr others H; cbn [qfind_pivot] in H; [discriminate|].
  destruct r as [|p t]; [discriminate|]. destruct (Qeqb p 0) eqn:E.
  - destruct (qfind_pivot rs) as [[pr' oth']|] eqn:F; [|discriminate]. inversion H; subst.
    destruct (IH _ _ eq_refl) as (A & B & C). split; [exact A|]. split.
    + intros row. cbn [In]. rewrite B. intuition.
    + cbn [length]. now rewrite C.
  - inversion H; subst. split.
    + exists p, t. split; [reflexivity|]. intro Z. apply Qeqb_true in Z. congruence.
    + split; [|reflexivity]. intros row. cbn [In]. intuition.
Qed.

Lemma qfind_pivot_none rows : qfind_pivot rows = None -> (forall row, In row rows -> row <> []) ->
  forall row, In row rows -> exists h t, row = h :: t /\ h == 0.
Proof.
  induction rows as [|r rs IH]; intros H NE row Hin; [destruct Hin|].
  cbn [qfind_pivot] in H. destruct r as [|p t]; [exfalso; apply (NE []); [now left | reflexivity]|].
  destruct (Qeqb p 0) eqn:E.
  - destruct Hin as [<-|Hin].
    + exists p, t. split; [reflexivity | now apply Qeqb_true].
    + apply IH; auto.
      * destruct (qfind_pivot rs) as [[? ?]|]; [discriminate | reflexivity].
      * intros r' Hr'. apply NE. now right.
  - discriminate.
Qed.

(* if u' annihilates the eliminated rows, then (u0 :: u') annihilates the original rows, u0 from the pivot row *)
Lemma elim_lift p r others u' : ~ p == 0 ->
  (forall row, In row others -> length row = S (length r)) ->
  (forall row', In row' (map (fun row => match row with h :: t => qaxpy t (h / p) r | [] => [] end) others) ->
     dot row' u' == 0) ->
  forall row, row = p :: r \/ In row others -> dot row ((- dot r u' / p) :: u') == 0.
Proof.
  intros Hp Hlen H row [->|Hin].
  - rewrite dot_cons. field. exact Hp.
  - pose proof (Hlen row Hin) as L. destruct row as [|h t]; [discriminate|].
    assert (E : dot (qaxpy t (h / p) r) u' == 0).
    { apply H. apply in_map_iff. exists (h :: t). split; [reflexivity | exact Hin]. }
    rewrite qaxpy_dot in E by (now inversion L). rewrite dot_cons.
    setoid_replace (dot t u') with (h / p * dot r u') by lra. field. exact Hp.
Qed.

(* ---------- Gaussian elimination is complete on regular systems ---------- *)
(* augmented rows (k coefficients | rhs): the coefficient part has a trivial kernel *)
Definition aug_regular (k : nat) (rows : list (list Q)) : Prop :=
  forall v, length v = k -> (forall row, In row rows -> dot row (v ++ [0]) == 0) -> zerov v.

Lemma gauss_complete k : forall rows, length rows = k -> (forall row, In row rows -> length row = S k) ->
  aug_regular k rows ->
  exists sol, gauss k rows = Some sol /\ forall row, In row rows -> dot row (sol ++ [-1]) == 0.
Proof.
  induction k as [|k IH]; intros rows Hn Hl Hreg.
  - exists []. split; [reflexivity|]. destruct rows; [intros ? []|discriminate].
  - cbn [gauss]. destruct (qfind_pivot rows) as [[pr others]|] eqn:F.
    + destruct (qfind_pivot_some _ _ _ F) as ((p & r & -> & Hp) & Hin & Hlen).
      assert (Lr : length r = S k). { assert (L : length (p :: r) = S (S k)) by (apply Hl, Hin; now left). now inversion L. }
      assert (Lo : forall row, In row others -> length row = S (length r)).
      { intros row Hr. rewrite Lr. apply Hl, Hin. now right. }
      set (others' := map (fun row => match row with h :: t => qaxpy t (h / p) r | [] => [] end) others).
      assert (IHk : exists sol, gauss k others' = Some sol /\ forall row, In row others' -> dot row (sol ++ [-1]) == 0).
      { apply IH.
        - unfold others'. rewrite map_length. lia.
        - intros row' Hr'. unfold others' in Hr'. apply in_map_iff in Hr' as (row & <- & Hr).
          pose proof (Lo row Hr) as L. destruct row as [|h t]; [discriminate|].
          rewrite qaxpy_len by (now inversion L). rewrite Lr in L. now inversion L.
        - intros v' Lv' Hv'.
          assert (Z : zerov ((- dot r (v' ++ [0]) / p) :: v')).
          { apply Hreg; [cbn; now rewrite Lv'|]. intros row Hr. cbn [app].
            apply (elim_lift p r others (v' ++ [0]) Hp Lo Hv'). now apply Hin. }
          now inversion Z. }
      destruct IHk as (sol & Gs & Hs). fold others'. rewrite Gs.
      eexists. split; [reflexivity|]. intros row Hr. cbn [app].
      rewrite (dot_ext_r row _ ((- dot r (sol ++ [-1]) / p) :: (sol ++ [-1]))).
      * apply (elim_lift p r others (sol ++ [-1]) Hp Lo Hs). now apply Hin.
      * constructor; [apply Qred_correct | apply Forall2_Qeq_refl].
    + exfalso.
      assert (NE : forall row, In row rows -> row <> []).
      { intros row Hr E. apply Hl in Hr. subst row. discriminate. }
      pose proof (qfind_pivot_none rows F NE) as Hz.
      assert (Z : zerov (1 :: repeat 0 k)).
      { apply Hreg; [cbn; now rewrite repeat_length|]. intros row Hr. destruct (Hz row Hr) as (h & t & -> & Hh).
        cbn [app]. rewrite dot_cons, Hh, dot_zero_r; [ring|].
        unfold zerov. apply Forall_app. split; [|repeat constructor].
        clear. induction k; cbn; constructor; [reflexivity | assumption]. }
      inversion Z as [|? ? H1 _]. discriminate H1.
Qed.

(* ---------- square systems A.beta = b ---------- *)
(* A is regular: only the zero vector is orthogonal to every row *)
Definition regular (A : list (list Q)) : Prop :=
  forall v, length v = length A -> (forall row, In row A -> dot row v == 0) -> zerov v.
Definition square (A : list (list Q)) : Prop := Forall (fun row => length row = length A) A.

Lemma augment_one : forall A b, length b = length A ->
  augment A [b] = map (fun pr => fst pr ++ [snd pr]) (combine A b).
Proof.
  induction A as [|r A IH]; intros [|y b] L; try discriminate; [reflexivity|].
  cbn [augment map combine hd tl fst snd]. f_equal. apply IH. now inversion L.
Qed.

Lemma veqb_of_Forall2 a b : Forall2 Qeq a b -> veqb a b = true.
Proof. induction 1 as [|x y a b Hxy _ IH]; [reflexivity|]. cbn. rewrite IH, andb_true_r. now apply Qeqb_true. Qed.

Lemma solve_gauss_complete A b : square A -> length b = length A -> regular A ->
  exists beta, solve_gauss A b = Some beta.
Proof.
  intros Sq Lb Reg. unfold solve_gauss. rewrite (augment_one A b Lb).
  set (rows := map (fun pr => fst pr ++ [snd pr]) (combine A b)).
  assert (Hrows : forall row, In row rows -> exists a y, row = a ++ [y] /\ In (a, y) (combine A b) /\ length a = length A).
  { intros row Hr. apply in_map_iff in Hr as ([a y] & <- & Hin). exists a, y. repeat split; auto.
    apply in_combine_l in Hin. unfold square in Sq. rewrite Forall_forall in Sq. now apply Sq. }
  destruct (gauss_complete (length A) rows) as (sol & Gs & Hs).
  - unfold rows. rewrite map_length, combine_length. lia.
  - intros row Hr. destruct (Hrows row Hr) as (a & y & -> & _ & La). rewrite app_length. cbn. lia.
  - intros v Lv Hv. apply Reg; [exact Lv|]. intros a Ha.
    assert (exists y, In (a, y) (combine A b)) as [y Hy].
    { clear - Ha Lb. revert b Lb. induction A as [|r A IH]; intros [|y b] L; try discriminate; [destruct Ha|].
      destruct Ha as [->|Ha]; [exists y; now left|]. destruct (IH Ha b) as [y' Hy']; [now inversion L|]. exists y'. now right. }
    assert (Hr : In (a ++ [y]) rows) by (apply in_map_iff; exists (a, y); auto).
    specialize (Hv _ Hr). rewrite dot_app in Hv. 2:{ rewrite Lv. apply in_combine_l in Hy. unfold square in Sq. rewrite Forall_forall in Sq. now apply Sq. }
    lra.
  - rewrite Gs. pose proof (gauss_len _ _ _ Gs) as Ls.
    rewrite veqb_of_Forall2; [eauto|].
    unfold mat_vec. clear Gs Hrows.
    assert (H : forall a y, In (a, y) (combine A b) -> dot a sol == y).
    { intros a y Hin. assert (Hr : In (a ++ [y]) rows) by (apply in_map_iff; exists (a, y); auto).
      specialize (Hs _ Hr). rewrite dot_app in Hs. 2:{ rewrite Ls. apply in_combine_l in Hin. unfold square in Sq. rewrite Forall_forall in Sq. now apply Sq. }
      lra. }
    clear Hs Sq Reg Ls. subst rows. revert b Lb H. induction A as [|r A IH]; intros [|y b] L H; try discriminate; cbn [map]; constructor.
    + apply H. now left.
    + apply IH; [now inversion L|]. intros a y' Hin. apply H. now right.
Qed.

(* COMPLETENESS: a regular square system always gets a (verified) answer *)
Theorem solve_checked_complete A b : square A -> length b = length A -> regular A ->
  exists beta, solve_checked A b = Some beta.
Proof.
  intros Sq Lb Reg. unfold solve_checked.
  destruct (solve_multi_checked A [b]) as [[|s [|]]|]; eauto using solve_gauss_complete.
Qed.

(* ====================================================================== *)
(* the normal matrix is regular when the columns are independent           *)
(* ====================================================================== *)
Lemma dot3_zero_r a w z : zerov z -> dot3 a w z == 0.
Proof.
  intros Z; revert a w; induction Z as [|c z Hc Z IH]; intros [|x a] [|u w]; try reflexivity.
  rewrite dot3_cons, Hc, IH. ring.
Qed.
Lemma zerov_repeat m : zerov (repeat 0 m).
Proof. induction m; cbn; constructor; [reflexivity | assumption]. Qed.
Lemma Forall2_map_same {A} (f g : A -> Q) l : (forall a, In a l -> f a == g a) -> Forall2 Qeq (map f l) (map g l).
Proof. induction l as [|a l IH]; intros H; cbn; constructor; [apply H; now left | apply IH; intros; apply H; now right]. Qed.

Lemma normal_square cols w : square (normal_lhs cols w).
Proof.
  unfold square, normal_lhs. rewrite Forall_forall. intros row H.
  apply in_map_iff in H as (c & <- & _). now rewrite !map_length.
Qed.

Lemma normal_regular n cols w : Forall (fun c => length c = n) cols -> length w = n ->
  (forall i, (i < n)%nat -> 0 <= vn w i) -> indep_cols n cols w -> regular (normal_lhs cols w).
Proof.
  intros Hc Hwl Hw Hind v Lv Hv. unfold normal_lhs in Lv. rewrite map_length in Lv.
  set (y := repeat 0 n).
  assert (Hwf : wf_design n cols w y) by (repeat split; auto; apply repeat_length).
  assert (N0 : Forall2 Qeq (mat_vec (normal_lhs cols w) (repeat 0 (length cols))) (normal_rhs cols w y)).
  { unfold mat_vec, normal_lhs, normal_rhs. rewrite map_map. apply Forall2_map_same. intros c _.
    rewrite dot_zero_r by apply zerov_repeat. rewrite dot3_zero_r by apply zerov_repeat. reflexivity. }
  assert (Nv : Forall2 Qeq (mat_vec (normal_lhs cols w) v) (normal_rhs cols w y)).
  { unfold mat_vec, normal_rhs. unfold normal_lhs at 1. rewrite map_map. apply Forall2_map_same. intros c Hc'.
    rewrite dot3_zero_r by apply zerov_repeat. apply Hv. unfold normal_lhs. apply in_map_iff. exists c; auto. }
  destruct (lls_unique n cols w y (repeat 0 (length cols)) v Hwf Hw (repeat_length _ _) Lv N0 Nv) as [_ U].
  specialize (U Hind).
  remember (repeat 0 (length cols)) as z eqn:Ez. assert (Z : zerov z) by (subst; apply zerov_repeat).
  clear - U Z. induction U as [|a b z v Hab _ IH]; constructor.
  - inversion Z; subst. now rewrite <- Hab.
  - apply IH. now inversion Z.
Qed.

(* ---------- LinearLeastSquares always answers on independent columns ---------- *)
Definition weights_len (nx : nat) (w : option (list Q)) : Prop :=
  match w with Some l => length l = nx | None => True end.

Lemma weights_or_ones_len nx w : weights_len nx w -> length (weights_or_ones nx w) = nx.
Proof. destruct w; cbn; [auto | intros _; apply repeat_length]. Qed.
Lemma weights_or_ones_nonneg nx w : weights_len nx w -> weights_nonneg w ->
  forall i, (i < nx)%nat -> 0 <= vn (weights_or_ones nx w) i.
Proof.
  intros Hl Hw i Hi. apply Forall_vn_nonneg; [|now rewrite weights_or_ones_len].
  destruct w; [exact Hw | apply Forall_repeat_1].
Qed.

Theorem lls_total nx y w cols : length y = nx -> weights_len nx w ->
  Forall (fun c => length c = nx) cols -> weights_nonneg w ->
  indep_cols nx cols (weights_or_ones nx w) ->
  exists beta, lls nx y w cols = FOk beta.
Proof.
  intros Hy Hwl Hc Hw Hind.
  assert (S : exists beta, lls_solve cols (weights_or_ones nx w) y = Some beta).
  { unfold lls_solve. apply solve_checked_complete.
    - apply normal_square.
    - unfold normal_rhs, normal_lhs. now rewrite !map_length.
    - apply (normal_regular nx); auto using weights_or_ones_len, weights_or_ones_nonneg. }
  destruct S as [beta S]. exists beta. unfold lls.
  replace (nx =? length y)%nat with true by (symmetry; apply Nat.eqb_eq; auto). cbn [negb].
  destruct w as [l|]; cbn [weights_or_ones weights_len] in *.
  - replace (nx =? length l)%nat with true by (symmetry; apply Nat.eqb_eq; auto). cbn [negb]. now rewrite S.
  - now rewrite S.
Qed.

(* ---------- the minimiser is unique on independent columns (strong form) ---------- *)
Theorem minimiser_unique n cols w y beta beta' : wf_design n cols w y ->
  (forall i, (i < n)%nat -> 0 <= vn w i) -> indep_cols n cols w ->
  length beta = length cols -> length beta' = length cols ->
  (forall b, length b = length cols -> SSR cols w y beta <= SSR cols w y b) ->
  SSR cols w y beta' <= SSR cols w y beta ->
  Forall2 Qeq beta' beta.
Proof.
  intros Hwf Hw Hind Hb Hb' Hmin Hle.
  assert (Hmin' : forall b, length b = length cols -> SSR cols w y beta' <= SSR cols w y b).
  { intros b Lb. eapply Qle_trans; [exact Hle | now apply Hmin]. }
  apply (proj2 (normal_eq_iff_minimiser n cols w y Hwf Hw beta Hb)) in Hmin.
  apply (proj2 (normal_eq_iff_minimiser n cols w y Hwf Hw beta' Hb')) in Hmin'.
  destruct (lls_unique n cols w y beta' beta Hwf Hw Hb' Hb Hmin' Hmin) as [_ U]. exact (U Hind).
Qed.

(* LinearLeastSquares, unconditionally: on independent columns it returns THE minimiser *)
Theorem lls_is_the_minimiser nx y w cols : length y = nx -> weights_len nx w ->
  Forall (fun c => length c = nx) cols -> weights_nonneg w ->
  let wl := weights_or_ones nx w in
  indep_cols nx cols wl ->
  exists beta, lls nx y w cols = FOk beta /\ length beta = length cols /\
    (forall j, (j < length cols)%nat -> orth_at cols wl y beta j == 0) /\
    (forall beta', length beta' = length cols -> SSR cols wl y beta <= SSR cols wl y beta') /\
    (forall beta', length beta' = length cols -> SSR cols wl y beta' <= SSR cols wl y beta -> Forall2 Qeq beta' beta).
Proof.
  intros Hy Hwl Hc Hw wl Hind. destruct (lls_total nx y w cols Hy Hwl Hc Hw Hind) as [beta H].
  exists beta. split; [exact H|]. destruct (lls_minimises nx y w cols beta H Hc Hw) as (Lb & Ho & Hm).
  split; [exact Lb|]. split; [exact Ho|]. split; [exact Hm|]. intros beta' Lb' Hle.
  apply (minimiser_unique nx cols wl y beta beta'); auto.
  - repeat split; auto. now apply weights_or_ones_len.
  - now apply weights_or_ones_nonneg.
Qed.

(* ---------- PolynomialRegression ---------- *)
Lemma enough_points_indep d xs wl : enough_points d xs wl -> indep_cols (length xs) (monomials d xs) wl.
Proof.
  intros (idx & Hil & Hidx & Hdist) delta H j Hj. rewrite monomials_len in *.
  set (dl := map delta (seq 0 (S d))).
  assert (Ldl : length dl = S d) by (unfold dl; now rewrite map_length, seq_length).
  assert (Z : Forall (fun c => c == 0) dl).
  { apply (poly_roots_zero (S d) dl (map (vn xs) idx)); [lia | now rewrite map_length | exact Hdist |].
    rewrite Forall_forall. intros r Hr. apply in_map_iff in Hr as (i & <- & Hin).
    rewrite Forall_forall in Hidx. destruct (Hidx i Hin) as [Hi Hpos].
    rewrite <- poly_eval_peval. unfold poly_eval. rewrite Ldl.
    rewrite <- (H i Hi Hpos). apply sum_n_ext. intros l Hl. unfold dl. rewrite seq_map_vn by exact Hl.
    rewrite monomials_Xe by (auto; lia). reflexivity. }
  rewrite Forall_forall in Z. rewrite <- (seq_map_vn delta (S d) j Hj). apply Z. unfold vn. apply nth_In.
  fold dl. now rewrite Ldl.
Qed.

Theorem polyreg_total xs ys w d : length ys = length xs -> weights_len (length xs) w -> weights_nonneg w ->
  enough_points d xs (weights_or_ones (length xs) w) ->
  exists beta, polyreg xs ys w (Z.of_nat d) = FOk beta /\ length beta = S d.
Proof.
  intros Hy Hwl Hw He. rewrite polyreg_is_lls_on_monomials.
  destruct (lls_total (length xs) ys w (monomials d xs) Hy Hwl (monomials_cols d xs) Hw (enough_points_indep _ _ _ He)) as [beta H].
  exists beta. split; [exact H|].
  destruct (lls_minimises _ _ _ _ _ H (monomials_cols d xs) Hw) as (Lb & _). now rewrite monomials_len in Lb.
Qed.

(* PolynomialRegression reproduces polynomial data, unconditionally *)
Theorem polyreg_reproduces_total xs ys w d p : length ys = length xs -> weights_len (length xs) w ->
  weights_nonneg w -> length p = S d ->
  (forall i, (i < length xs)%nat -> vn ys i == poly_eval p (vn xs i)) ->
  enough_points d xs (weights_or_ones (length xs) w) ->
  exists beta, polyreg xs ys w (Z.of_nat d) = FOk beta /\ Forall2 Qeq beta p /\
    forall x, exists v, polyF beta x = Some v /\ v == poly_eval p x.
Proof.
  intros Hy Hwl Hw Hp Hdata He. destruct (polyreg_total xs ys w d Hy Hwl Hw He) as (beta & H & Lb).
  exists beta. split; [exact H|].
  assert (B : Forall2 Qeq beta p) by (eapply polyreg_reproduces; eauto).
  split; [exact B|]. intros x. destruct (polyF_some beta x) as [v Hv]; [destruct beta; discriminate|].
  exists v. split; [exact Hv|]. rewrite (F_is_poly_eval _ _ _ Hv). now apply poly_eval_ext.
Qed.

(* ---------- LOESS ---------- *)
Theorem loess_total xs ys deg span x sx sy cx cy w :
  length xs = length ys -> 0 < span -> loess_prepare xs ys = (sx, sy) ->
  loess_design sx sy (loess_q (length xs) span) (window_start 0 sx (loess_q (length xs) span) x) x = FOk (cx, cy, w) ->
  enough_points deg cx w ->
  exists beta v, loess xs ys (Z.of_nat deg) span x = FOk (beta, v).
Proof.
  intros Hl Hspan Ep Hd He.
  destruct (prepare_spec xs ys sx sy Hl Ep) as (Hs & Hlx & Hly & Perm).
  destruct (loess_design_spec _ _ _ _ _ _ _ _ Hs Hd) as (Ecx & Ecy & d & Hdpos & Hdist & _ & Ew).
  assert (Hwn : Forall (Qle 0) w).
  { rewrite Ew, Forall_forall. intros t Ht. apply in_map_iff in Ht as (c & <- & Hc). apply tricube_nonneg; auto. }
  assert (Hlc : length cy = length cx).
  { rewrite Ecx, Ecy, !firstn_length, !skipn_length. lia. }
  assert (Hlw : length w = length cx) by (rewrite Ew; apply map_length).
  destruct (polyreg_total cx cy (Some w) deg Hlc Hlw Hwn He) as (beta & Hr & Lb).
  destruct (polyF_some beta x) as [v Hv]; [destruct beta; discriminate|].
  exists beta, v. unfold loess.
  replace (Z.of_nat deg <? 0)%Z with false by (symmetry; apply Z.ltb_ge; lia).
  replace (Qle_bool span 0) with false.
  2:{ symmetry. destruct (Qle_bool span 0) eqn:E; [|reflexivity]. apply Qle_bool_iff in E. lra. }
  rewrite Ep. unfold loess_at. rewrite Hd, Hr, Hv. reflexivity.
Qed.

(* LOESS reproduces polynomial data, unconditionally *)
Theorem loess_reproduces_poly_total xs ys deg span x p sx sy cx cy w :
  length xs = length ys -> 0 < span -> length p = S deg ->
  Forall (fun pr => snd pr == poly_eval p (fst pr)) (combine xs ys) ->
  loess_prepare xs ys = (sx, sy) ->
  loess_design sx sy (loess_q (length xs) span) (window_start 0 sx (loess_q (length xs) span) x) x = FOk (cx, cy, w) ->
  enough_points deg cx w ->
  exists beta v, loess xs ys (Z.of_nat deg) span x = FOk (beta, v) /\ Forall2 Qeq beta p /\ v == poly_eval p x.
Proof.
  intros Hl Hspan Hp Hdata Ep Hd He.
  destruct (loess_total xs ys deg span x sx sy cx cy w Hl Hspan Ep Hd He) as (beta & v & H).
  exists beta, v. split; [exact H|].
  apply (loess_reproduces_poly xs ys deg span x p beta v Hl H Hp Hdata).
  intros sx' sy' cx' cy' w' Ep' Hd'. rewrite Ep in Ep'. inversion Ep'; subst sx' sy'.
  rewrite Hd in Hd'. inversion Hd'; subst. exact He.
Qed.

(* completeness and soundness together, with the notions spelled out *)
Theorem solve_checked_complete_sound A b :
  Forall (fun row => length row = length A) A -> length b = length A ->
  (forall v, length v = length A -> (forall row, In row A -> dot row v == 0) -> Forall (fun c => c == 0) v) ->
  exists beta, solve_checked A b = Some beta /\ Forall2 Qeq (mat_vec A beta) b /\ length beta = length A.
Proof.
  intros Sq Lb Reg. destruct (solve_checked_complete A b Sq Lb Reg) as [beta H]. exists beta. split; [exact H|].
  destruct (solve_checked_sound A b beta H) as (S1 & S2 & S3). split; [exact S1 | congruence].
Qed.

(* the normal matrix of a design with independent columns on the positive-weight observations is regular *)
Theorem normal_matrix_regular n cols w : Forall (fun c => length c = n) cols -> length w = n ->
  (forall i, (i < n)%nat -> 0 <= vn w i) -> indep_cols n cols w ->
  let A := normal_lhs cols w in
  length A = length cols /\ Forall (fun row => length row = length A) A /\
  (forall v, length v = length A -> (forall row, In row A -> dot row v == 0) -> Forall (fun c => c == 0) v).
Proof.
  intros Hc Hl Hw Hi A. split; [unfold A, normal_lhs; now rewrite map_length|]. split; [apply normal_square|].
  exact (normal_regular n cols w Hc Hl Hw Hi).
Qed.
(* LOESS, unconditionally: the value is p(x) for THE polynomial p of degree <= deg that minimises the
   tricube-weighted sum of squares over the window (existence and uniqueness) *)
Theorem loess_is_the_local_fit xs ys deg span x sx sy cx cy w :
  length xs = length ys -> 0 < span -> loess_prepare xs ys = (sx, sy) ->
  loess_design sx sy (loess_q (length xs) span) (window_start 0 sx (loess_q (length xs) span) x) x = FOk (cx, cy, w) ->
  enough_points deg cx w ->
  exists beta v, loess xs ys (Z.of_nat deg) span x = FOk (beta, v) /\ v == poly_eval beta x /\
    length beta = S deg /\
    (forall beta', length beta' = S deg -> SSR (monomials deg cx) w cy beta <= SSR (monomials deg cx) w cy beta') /\
    (forall beta', length beta' = S deg -> SSR (monomials deg cx) w cy beta' <= SSR (monomials deg cx) w cy beta ->
       Forall2 Qeq beta' beta).
Proof.
  intros Hl Hspan Ep Hd He.
  destruct (loess_total xs ys deg span x sx sy cx cy w Hl Hspan Ep Hd He) as (beta & v & H).
  exists beta, v. split; [exact H|].
  pose proof (loess_inv _ _ _ _ _ _ _ H) as (sx' & sy' & cx' & cy' & w' & Ep' & _ & Hd' & Hr & Hf).
  cbv zeta in Hd'. rewrite Ep in Ep'. inversion Ep'; subst sx' sy'. rewrite Hd in Hd'. inversion Hd'; subst cx' cy' w'.
  destruct (prepare_spec xs ys sx sy Hl Ep) as (Hs & Hlx & Hly & _).
  destruct (loess_design_spec _ _ _ _ _ _ _ _ Hs Hd) as (Ecx & Ecy & d & Hdpos & Hdist & _ & Ew).
  assert (Hwn : Forall (Qle 0) w).
  { rewrite Ew, Forall_forall. intros t Ht. apply in_map_iff in Ht as (c & <- & Hc). apply tricube_nonneg; auto. }
  assert (Hlc : length cy = length cx) by (rewrite Ecx, Ecy, !firstn_length, !skipn_length; lia).
  assert (Hlw : length w = length cx) by (rewrite Ew; apply map_length).
  rewrite polyreg_is_lls_on_monomials in Hr.
  destruct (lls_minimises _ _ _ _ _ Hr (monomials_cols deg cx) Hwn) as (Hb & _ & Hmin).
  rewrite monomials_len in Hb, Hmin. cbn [weights_or_ones] in Hmin.
  split; [now apply F_is_poly_eval|]. split; [exact Hb|]. split; [exact Hmin|].
  intros beta' Lb' Hle.
  apply (minimiser_unique (length cx) (monomials deg cx) w cy beta beta').
  - repeat split; auto. apply monomials_cols.
  - intros i Hi. apply Forall_vn_nonneg; [exact Hwn | now rewrite Hlw].
  - now apply enough_points_indep.
  - now rewrite monomials_len.
  - now rewrite monomials_len.
  - intros b Lb. apply Hmin. now rewrite monomials_len in Lb.
  - exact Hle.
Qed.

(* PolynomialRegression is LinearLeastSquares on the monomial terms, in one statement *)
Theorem polyreg_is_lls_on_monomials_full xs y w d :
  polyreg xs y w (Z.of_nat d) = lls (length xs) y w (monomials d xs) /\
  length (monomials d xs) = S d /\
  forall j i, (j <= d)%nat -> (i < length xs)%nat -> Xe (monomials d xs) j i == pw (vn xs i) j.
Proof. split; [apply polyreg_is_lls_on_monomials | split; [apply monomials_len | apply monomials_Xe]]. Qed.

(* Proofs/GammaGen.v — the regularized incomplete gamma functions P(a,x), Q(a,x) for every real
   shape a > 0 (RealSpec/GammaGen.v).
   1. lgam is the improper lower integral: lgam_is_improper(_gen), lgam_0, lgam_continuous,
      lgam_is_limit_of_proper.
   2. lgam_nonneg, lgam_increasing, lgam_monotone.        3. lgam_bounded.
   4. Gam_is_lim, Gam_pos, lgam_lt_Gam, lgam_lim_infty.
   5. laws of P and Q: Pgam_range, Qgam_range, Pgam_0, Qgam_0, Pgam_increasing, Pgam_monotone,
      Qgam_decreasing, Qgam_antitone, Pgam_Qgam_sum, Pgam_continuous, Pgam_is_lower,
      Qgam_is_upper, Pgam_lim_infty, Qgam_lim_infty; summary pgam_laws.
   6. agreement with RealSpec/Gamma.v at integer shape: Gam_nat (Gam (n+1) = n!),
      Pgam_nat_agree, Qgam_nat_agree, Gam_1, Pgam_1.
   7. Gam_succ (Gam (a+1) = a * Gam a), lgam_succ, Pgam_succ, Qgam_succ.
   No axioms beyond the stdlib real numbers. *)
From Coq Require Import Reals Lra Psatz ssreflect.
From Coquelicot Require Import Coquelicot.
From MM Require Import RealSpec.Gamma Proofs.GammaR Proofs.TDistR.
From MM Require Import RealSpec.GammaGen.
Open Scope R_scope.

(* ---------------------------------------------------------------------------------------- *)
(* the continuous integrand  g a t = t^a e^-t  (0 for t <= 0)                                 *)
(* ---------------------------------------------------------------------------------------- *)

Definition gext (a t : R) : R := rpow0 a t * exp (- t).

Lemma rpow0g_pw : forall a t, rpow0 a t = pw a t.
Proof. reflexivity. Qed.

Lemma rpow0_pos_eq : forall a t, 0 < t -> rpow0 a t = Rpower t a.
Proof. intros a t Ht. unfold rpow0. destruct (Rle_dec t 0); [lra | reflexivity]. Qed.

Lemma rpow0g_0 : forall a, rpow0 a 0 = 0.
Proof. intros a. unfold rpow0. destruct (Rle_dec 0 0); [reflexivity | lra]. Qed.

Lemma rpow0g_nonneg : forall a t, 0 <= rpow0 a t.
Proof.
  intros a t. unfold rpow0. destruct (Rle_dec t 0); [lra | left; apply exp_pos].
Qed.

Lemma rpow0g_continuous : forall a t, 0 < a -> continuous (rpow0 a) t.
Proof. intros a t Ha. exact (pw_continuous a t Ha). Qed.

Lemma lgam_unfold : forall a x, lgam a x = (gext a x + RInt (gext a) 0 x) / a.
Proof. reflexivity. Qed.

Lemma gext_continuous : forall a t, 0 < a -> continuous (gext a) t.
Proof.
  intros a t Ha. unfold gext.
  apply (continuous_mult (rpow0 a) (fun t => exp (- t))).
  - now apply rpow0g_continuous.
  - apply: ex_derive_continuous. auto_derive. exact I.
Qed.

Lemma gext_nonneg : forall a t, 0 <= gext a t.
Proof.
  intros a t. unfold gext. apply Rmult_le_pos; [apply rpow0g_nonneg | left; apply exp_pos].
Qed.

Lemma gext_pos : forall a t, 0 < t -> 0 < gext a t.
Proof.
  intros a t Ht. unfold gext. rewrite rpow0_pos_eq //.
  apply Rmult_lt_0_compat; apply exp_pos.
Qed.

Lemma gext_0 : forall a, gext a 0 = 0.
Proof. intros a. unfold gext. rewrite rpow0g_0. ring. Qed.

Lemma gext_ex_RInt : forall a u v, 0 < a -> ex_RInt (gext a) u v.
Proof.
  intros a u v Ha. apply: ex_RInt_continuous. intros z _. now apply gext_continuous.
Qed.

Lemma gext_RInt_ge_0 : forall a u v, 0 < a -> u <= v -> 0 <= RInt (gext a) u v.
Proof.
  intros a u v Ha Huv. apply RInt_ge_0; auto. now apply gext_ex_RInt.
  intros; apply gext_nonneg.
Qed.

Lemma gext_Chasles : forall a u v w, 0 < a ->
  RInt (gext a) u v + RInt (gext a) v w = RInt (gext a) u w.
Proof.
  intros a u v w Ha. apply (RInt_Chasles (gext a) u v w); now apply gext_ex_RInt.
Qed.

Lemma gext_RInt_continuous : forall a x, 0 < a -> continuous (fun b => RInt (gext a) 0 b) x.
Proof.
  intros a x Ha. apply: ex_derive_continuous. exists (gext a x).
  apply (is_derive_RInt (gext a) _ 0).
  - apply filter_forall. intros y. apply: RInt_correct. now apply gext_ex_RInt.
  - now apply gext_continuous.
Qed.

(* ---------------------------------------------------------------------------------------- *)
(* the kernel t^(a-1) e^-t on t > 0                                                           *)
(* ---------------------------------------------------------------------------------------- *)

Lemma gkernel_pos : forall a t, 0 < gkernel a t.
Proof. intros a t. unfold gkernel. apply Rmult_lt_0_compat; apply exp_pos. Qed.

Lemma gkernel_pos_continuous : forall a t, 0 < t -> continuous (gkernel a) t.
Proof.
  intros a t Ht. unfold gkernel, Rpower. apply: ex_derive_continuous. auto_derive. exact Ht.
Qed.

Lemma pos_between : forall u v t, 0 < u -> 0 < v -> Rmin u v <= t <= Rmax u v -> 0 < t.
Proof.
  intros u v t Hu Hv [H1 _]. apply Rlt_le_trans with (2 := H1). apply Rmin_case; lra.
Qed.

Lemma gkernel_ex_RInt : forall a u v, 0 < u -> 0 < v -> ex_RInt (gkernel a) u v.
Proof.
  intros a u v Hu Hv. apply: ex_RInt_continuous. intros z Hz.
  apply gkernel_pos_continuous. now apply (pos_between u v).
Qed.

Lemma gkernel_RInt_gt_0 : forall a u v, 0 < u -> u < v -> 0 < RInt (gkernel a) u v.
Proof.
  intros a u v Hu Huv. apply RInt_gt_0; auto.
  - intros; apply gkernel_pos.
  - intros x Hx. apply gkernel_pos_continuous. lra.
Qed.

(* d/dt ( t^a e^-t ) = a t^(a-1) e^-t - t^a e^-t   for t > 0 *)
Lemma gext_derive : forall a t, 0 < t ->
  is_derive (gext a) t (a * gkernel a t - gext a t).
Proof.
  intros a t Ht.
  apply (is_derive_ext_loc (fun t => Rpower t a * exp (- t))).
  - exists (mkposreal _ Ht). intros y Hy.
    change (Rabs (y - t) < t) in Hy. apply Rabs_def2 in Hy.
    unfold gext. rewrite rpow0_pos_eq //. lra.
  - unfold gext, gkernel. rewrite rpow0_pos_eq //. unfold Rpower.
    auto_derive; [exact Ht|].
    replace ((a - 1) * ln t) with (a * ln t + - ln t) by ring.
    rewrite exp_plus (exp_Ropp (ln t)) exp_ln //. field. lra.
Qed.

(* integration by parts, both bounds strictly positive (either order) *)
Lemma gkernel_by_parts : forall a u v, 0 < a -> 0 < u -> 0 < v ->
  a * RInt (gkernel a) u v = gext a v - gext a u + RInt (gext a) u v.
Proof.
  intros a u v Ha Hu Hv.
  set (df := fun t : R => minus (scal a (gkernel a t)) (gext a t)).
  assert (HI : is_RInt df u v (minus (gext a v) (gext a u))).
  { apply (is_RInt_derive (gext a) df).
    - intros x Hx. exact (gext_derive a x (pos_between u v x Hu Hv Hx)).
    - intros x Hx. generalize (pos_between u v x Hu Hv Hx) => Hp.
      unfold df. apply: continuous_minus.
      + apply: continuous_scal_r. now apply gkernel_pos_continuous.
      + now apply gext_continuous. }
  assert (HL : is_RInt df u v (minus (scal a (RInt (gkernel a) u v)) (RInt (gext a) u v))).
  { unfold df. apply: is_RInt_minus.
    - apply: is_RInt_scal. apply: RInt_correct. now apply gkernel_ex_RInt.
    - apply: RInt_correct. now apply gext_ex_RInt. }
  generalize (is_RInt_unique _ _ _ _ HI). rewrite (is_RInt_unique _ _ _ _ HL).
  rewrite /minus /plus /opp /scal /= /mult /=. lra.
Qed.

(* ---------------------------------------------------------------------------------------- *)
(* 1. lgam is the improper integral of the kernel                                             *)
(* ---------------------------------------------------------------------------------------- *)

Theorem lgam_is_improper_gen : forall a e x, 0 < a -> 0 < e -> 0 < x ->
  @eq R (RInt (gkernel a) e x) (lgam a x - lgam a e).
Proof.
  intros a e x Ha He Hx.
  generalize (gkernel_by_parts a e x Ha He Hx) (gext_Chasles a 0 e x Ha) => BP CH.
  rewrite !lgam_unfold.
  apply Rmult_eq_reg_l with a; [|lra]. rewrite BP. field_simplify; lra.
Qed.

Theorem lgam_is_improper : forall a e x, 0 < a -> 0 < e <= x ->
  @eq R (RInt (gkernel a) e x) (lgam a x - lgam a e).
Proof. intros a e x Ha [He Hx]. apply lgam_is_improper_gen; lra. Qed.

Theorem lgam_0 : forall a, lgam a 0 = 0.
Proof.
  intros a. rewrite lgam_unfold gext_0 (RInt_point 0 (gext a)) /zero /=. unfold Rdiv; ring.
Qed.

Theorem lgam_continuous : forall a x, 0 < a -> continuous (lgam a) x.
Proof.
  intros a x Ha.
  apply (continuous_ext (fun x => scal (/ a) (plus (gext a x) (RInt (gext a) 0 x)))).
  { intros y. rewrite lgam_unfold /scal /plus /= /mult /=. unfold Rdiv; ring. }
  apply: continuous_scal_r. apply: continuous_plus.
  - now apply gext_continuous.
  - now apply gext_RInt_continuous.
Qed.

(* hence lgam a x is the limit, as e -> 0+, of the proper integrals int_e^x t^(a-1) e^-t dt *)
Theorem lgam_is_limit_of_proper : forall a x, 0 < a -> 0 < x ->
  filterlim (fun e => RInt (gkernel a) e x) (at_right 0) (locally (lgam a x)).
Proof.
  intros a x Ha Hx.
  apply (filterlim_ext_loc (fun e => lgam a x - lgam a e)).
  - exists (mkposreal _ Hx). intros e _ He. symmetry. now apply lgam_is_improper_gen.
  - assert (HC : continuous (fun e => minus (lgam a x) (lgam a e)) 0).
    { apply: continuous_minus; [apply continuous_const | now apply lgam_continuous]. }
    unfold continuous in HC. rewrite lgam_0 /minus /plus /opp /= in HC.
    replace (lgam a x + - 0) with (lgam a x) in HC by ring.
    apply (filterlim_filter_le_1 (F := locally 0)); [apply filter_le_within|].
    exact HC.
Qed.

(* ---------------------------------------------------------------------------------------- *)
(* 2. monotone                                                                                *)
(* ---------------------------------------------------------------------------------------- *)

Theorem lgam_nonneg : forall a x, 0 < a -> 0 <= x -> 0 <= lgam a x.
Proof.
  intros a x Ha Hx. rewrite lgam_unfold.
  generalize (gext_nonneg a x) (gext_RInt_ge_0 a 0 x Ha Hx) => H1 H2.
  apply Rmult_le_pos; [lra | left; now apply Rinv_0_lt_compat].
Qed.

Lemma lgam_pos : forall a x, 0 < a -> 0 < x -> 0 < lgam a x.
Proof.
  intros a x Ha Hx. rewrite lgam_unfold.
  generalize (gext_pos a x Hx) (gext_RInt_ge_0 a 0 x Ha ltac:(lra)) => H1 H2.
  apply Rmult_lt_0_compat; [lra | now apply Rinv_0_lt_compat].
Qed.

Theorem lgam_increasing : forall a x y, 0 < a -> 0 <= x < y -> lgam a x < lgam a y.
Proof.
  intros a x y Ha [[Hx | <-] Hxy].
  - generalize (lgam_is_improper a x y Ha ltac:(lra)) (gkernel_RInt_gt_0 a x y Hx Hxy). lra.
  - rewrite lgam_0. apply lgam_pos; lra.
Qed.

Theorem lgam_monotone : forall a x y, 0 < a -> 0 <= x <= y -> lgam a x <= lgam a y.
Proof.
  intros a x y Ha [Hx [Hxy | ->]]; [left; apply lgam_increasing; lra | lra].
Qed.

(* ---------------------------------------------------------------------------------------- *)
(* 3. bounded                                                                                 *)
(* ---------------------------------------------------------------------------------------- *)

Lemma exp_le_mono_g : forall x y, x <= y -> exp x <= exp y.
Proof. intros x y [H | ->]; [left; now apply exp_increasing | lra]. Qed.

(* t^a <= 1 + t^N when a <= N *)
Lemma Rpower_le_1_plus_pow : forall a (N : nat) t, 0 < a -> a <= INR N -> 0 < t ->
  Rpower t a <= 1 + t ^ N.
Proof.
  intros a N t Ha HN Ht.
  assert (HtN : 0 <= t ^ N) by (apply pow_le; lra).
  destruct (Rle_dec t 1) as [H1 | H1].
  - assert (Rpower t a <= 1); [|lra].
    unfold Rpower. rewrite -exp_0. apply exp_le_mono_g.
    assert (ln t <= 0) by (rewrite -ln_1; apply ln_le; lra). nra.
  - assert (Rpower t a <= t ^ N); [|lra].
    rewrite -Rpower_pow //. apply Rle_Rpower; lra.
Qed.

Lemma pow_fact_le_expsum : forall n x, 0 <= x -> x ^ n / INR (fact n) <= expsum n x.
Proof.
  intros n x Hx. destruct n.
  - simpl. lra.
  - change (expsum (S n) x) with (expsum n x + x ^ S n / INR (fact (S n))).
    generalize (expsum_pos n x Hx). lra.
Qed.

(* e^-x x^n <= n! *)
Lemma gkernel_nat_le_fact : forall n x, 0 <= x -> gkernel_nat n x <= INR (fact n).
Proof.
  intros n x Hx. unfold gkernel_nat.
  generalize (pow_fact_le_expsum n x Hx) (expsum_le_exp n x Hx) (INR_fact_lt_0 n) (exp_pos (- x))
    => H1 H2 Hf He.
  assert (H3 : x ^ n <= INR (fact n) * exp x).
  { apply Rmult_le_reg_r with (/ INR (fact n)); [now apply Rinv_0_lt_compat|].
    replace (INR (fact n) * exp x * / INR (fact n)) with (exp x) by (field; lra).
    unfold Rdiv in H1. lra. }
  assert (H4 : exp (- x) * exp x = 1) by (rewrite -exp_plus; replace (- x + x) with 0 by ring; apply exp_0).
  replace (INR (fact n)) with (exp (- x) * (INR (fact n) * exp x)).
  - apply Rmult_le_compat_l; lra.
  - rewrite -Rmult_assoc (Rmult_comm (exp (- x))) Rmult_assoc H4. ring.
Qed.

Lemma gkernel_nat_ex_RInt : forall n u v, ex_RInt (gkernel_nat n) u v.
Proof.
  intros n u v. apply: ex_RInt_continuous. intros z _. apply GammaR.gkernel_continuous.
Qed.

Lemma gkernel_nat_RInt_le_fact : forall n x, 0 <= x -> RInt (gkernel_nat n) 0 x <= INR (fact n).
Proof.
  intros n x Hx. destruct (Pgamma_nat_range n x Hx) as [_ H]. unfold Pgamma_nat in H.
  generalize (INR_fact_lt_0 n) => Hf.
  apply Rmult_le_reg_r with (/ INR (fact n)); [now apply Rinv_0_lt_compat|].
  rewrite Rinv_r; [exact H | lra].
Qed.

Lemma gext_le_nat : forall a (N : nat) t, 0 < a -> a <= INR N -> 0 <= t ->
  gext a t <= gkernel_nat 0 t + gkernel_nat N t.
Proof.
  intros a N t Ha HN [Ht | <-].
  - unfold gext, gkernel_nat. rewrite rpow0_pos_eq //.
    generalize (Rpower_le_1_plus_pow a N t Ha HN Ht) (exp_pos (- t)) => H1 H2.
    simpl (t ^ 0). nra.
  - rewrite gext_0. unfold gkernel_nat.
    assert (0 <= exp (- 0) * 0 ^ N).
    { apply Rmult_le_pos; [left; apply exp_pos | apply pow_le; lra]. }
    generalize (exp_pos (- 0)) => H2. simpl (0 ^ 0). lra.
Qed.

Definition lgam_bound (a : R) (N : nat) : R := (2 + 2 * INR (fact N)) / a.

Lemma lgam_le_bound : forall a (N : nat) x, 0 < a -> a <= INR N -> 0 <= x ->
  lgam a x <= lgam_bound a N.
Proof.
  intros a N x Ha HN Hx. rewrite lgam_unfold. unfold lgam_bound.
  apply Rmult_le_compat_r; [left; now apply Rinv_0_lt_compat|].
  assert (H1 : gext a x <= 1 + INR (fact N)).
  { generalize (gext_le_nat a N x Ha HN Hx) (gkernel_nat_le_fact 0 x Hx) (gkernel_nat_le_fact N x Hx).
    simpl (INR (fact 0)). lra. }
  assert (H2 : RInt (gext a) 0 x <= 1 + INR (fact N)).
  { apply Rle_trans with (RInt (fun t => plus (gkernel_nat 0 t) (gkernel_nat N t)) 0 x).
    - apply RInt_le; auto.
      + now apply gext_ex_RInt.
      + apply: ex_RInt_plus; apply gkernel_nat_ex_RInt.
      + intros t Ht. apply gext_le_nat; lra.
    - rewrite RInt_plus; try apply gkernel_nat_ex_RInt. rewrite /plus /=.
      generalize (gkernel_nat_RInt_le_fact 0 x Hx) (gkernel_nat_RInt_le_fact N x Hx).
      simpl (INR (fact 0)). lra. }
  lra.
Qed.

Lemma nat_above : forall a, 0 <= a -> exists N : nat, a <= INR N.
Proof.
  intros a Ha. destruct (nfloor_ex a Ha) as [n [_ Hn]]. exists (S n). rewrite S_INR. lra.
Qed.

Theorem lgam_bounded : forall a, 0 < a -> exists M, forall x, 0 <= x -> lgam a x <= M.
Proof.
  intros a Ha. destruct (nat_above a ltac:(lra)) as [N HN].
  exists (lgam_bound a N). intros x Hx. now apply lgam_le_bound.
Qed.

(* ---------------------------------------------------------------------------------------- *)
(* 4. the complete gamma function  Gam a = lim lgam a n                                        *)
(* ---------------------------------------------------------------------------------------- *)

Section GamLim.
Variable a : R.
Hypothesis Ha : 0 < a.

Lemma lgam_seq_incr : forall n, lgam a (INR n) <= lgam a (INR (S n)).
Proof.
  intros n. apply lgam_monotone; [exact Ha|]. rewrite S_INR. generalize (pos_INR n). lra.
Qed.

Theorem Gam_is_lim : is_lim_seq (fun n => lgam a (INR n)) (Gam a).
Proof.
  destruct (lgam_bounded a Ha) as [M HM].
  unfold Gam. apply Lim_seq_correct'. apply (ex_finite_lim_seq_incr _ M).
  - exact lgam_seq_incr.
  - intros n. apply HM, pos_INR.
Qed.

Lemma lgam_nat_le_Gam : forall n, lgam a (INR n) <= Gam a.
Proof.
  intros n.
  exact (is_lim_seq_incr_compare (fun n => lgam a (INR n)) (Gam a) Gam_is_lim lgam_seq_incr n).
Qed.

Theorem lgam_lt_Gam : forall x, 0 <= x -> lgam a x < Gam a.
Proof.
  intros x Hx. destruct (nat_above x Hx) as [N HN].
  apply Rlt_le_trans with (lgam a (INR (S N))); [|apply lgam_nat_le_Gam].
  apply lgam_increasing; [exact Ha|]. rewrite S_INR. lra.
Qed.

Theorem Gam_pos : 0 < Gam a.
Proof. rewrite -(lgam_0 a). apply lgam_lt_Gam. lra. Qed.

(* Gam a is the limit of lgam a x as x -> +oo over the reals, not only along the integers *)
Theorem lgam_lim_infty : is_lim (lgam a) p_infty (Gam a).
Proof.
  apply is_lim_spec. intros eps. simpl.
  move: Gam_is_lim => /is_lim_seq_spec /(_ eps) [N HN].
  exists (INR N). intros x Hx. specialize (HN N (le_n N)). simpl in HN.
  apply Rabs_def2 in HN.
  generalize (pos_INR N) => HN0.
  assert (H1 : lgam a (INR N) < lgam a x) by (apply lgam_increasing; [exact Ha | lra]).
  assert (H2 : lgam a x < Gam a) by (apply lgam_lt_Gam; lra).
  apply Rabs_def1; lra.
Qed.

(* ---------------------------------------------------------------------------------------- *)
(* 5. laws of P and Q                                                                         *)
(* ---------------------------------------------------------------------------------------- *)

Theorem Pgam_range : forall x, 0 <= x -> 0 <= Pgam a x < 1.
Proof.
  intros x Hx. unfold Pgam.
  generalize Gam_pos (lgam_nonneg a x Ha Hx) (lgam_lt_Gam x Hx) => HG H1 H2. split.
  - apply Rmult_le_pos; [exact H1 | left; now apply Rinv_0_lt_compat].
  - apply Rmult_lt_reg_r with (Gam a); [exact HG|].
    unfold Rdiv. rewrite Rmult_assoc Rinv_l; lra.
Qed.

Theorem Pgam_Qgam_sum : forall x, Pgam a x + Qgam a x = 1.
Proof. intros x. unfold Qgam. ring. Qed.

Theorem Qgam_range : forall x, 0 <= x -> 0 < Qgam a x <= 1.
Proof. intros x Hx. unfold Qgam. generalize (Pgam_range x Hx). lra. Qed.

Theorem Pgam_0 : Pgam a 0 = 0.
Proof. unfold Pgam. rewrite lgam_0. unfold Rdiv; ring. Qed.

Theorem Qgam_0 : Qgam a 0 = 1.
Proof. unfold Qgam. rewrite Pgam_0. ring. Qed.

Theorem Pgam_increasing : forall x y, 0 <= x < y -> Pgam a x < Pgam a y.
Proof.
  intros x y Hxy. unfold Pgam. apply Rmult_lt_compat_r.
  - apply Rinv_0_lt_compat, Gam_pos.
  - now apply lgam_increasing.
Qed.

Theorem Pgam_monotone : forall x y, 0 <= x <= y -> Pgam a x <= Pgam a y.
Proof.
  intros x y [Hx [Hxy | ->]]; [left; apply Pgam_increasing; lra | lra].
Qed.

Theorem Qgam_decreasing : forall x y, 0 <= x < y -> Qgam a y < Qgam a x.
Proof. intros x y Hxy. unfold Qgam. generalize (Pgam_increasing x y Hxy). lra. Qed.

Theorem Qgam_antitone : forall x y, 0 <= x <= y -> Qgam a y <= Qgam a x.
Proof. intros x y Hxy. unfold Qgam. generalize (Pgam_monotone x y Hxy). lra. Qed.

Theorem Pgam_continuous : forall x, continuous (Pgam a) x.
Proof.
  intros x. unfold Pgam.
  apply (continuous_ext (fun x => scal (/ Gam a) (lgam a x))).
  { intros y. rewrite /scal /= /mult /=. unfold Rdiv; ring. }
  apply: continuous_scal_r. now apply lgam_continuous.
Qed.

(* P is the normalised LOWER integral: for 0 < e <= x the proper integral of the kernel over
   [e, x], divided by Gam a, is P(a,x) - P(a,e), and P(a,e) -> P(a,0) = 0 as e -> 0+ *)
Theorem Pgam_is_lower : forall e x, 0 < e <= x ->
  RInt (gkernel a) e x / Gam a = Pgam a x - Pgam a e.
Proof.
  intros e x Hex. rewrite (lgam_is_improper a e x Ha Hex). unfold Pgam.
  field. apply Rgt_not_eq, Gam_pos.
Qed.

(* Q is the normalised UPPER integral int_x^oo t^(a-1) e^-t dt / Gam a *)
Theorem Qgam_is_upper : forall x, 0 < x ->
  is_lim_seq (fun n => RInt (gkernel a) x (INR n) / Gam a) (Qgam a x).
Proof.
  intros x Hx. generalize Gam_pos => HG.
  apply (is_lim_seq_ext_loc (fun n => (lgam a (INR n) - lgam a x) * / Gam a)).
  - exists 1%nat. intros n Hn.
    rewrite (lgam_is_improper_gen a x (INR n) Ha Hx); [reflexivity|].
    apply (lt_INR 0). exact Hn.
  - replace (Finite (Qgam a x)) with (Rbar_mult (Finite (Gam a - lgam a x)) (Finite (/ Gam a))).
    2:{ simpl. f_equal. unfold Qgam, Pgam. field. lra. }
    apply (is_lim_seq_scal_r (fun n => lgam a (INR n) - lgam a x) (/ Gam a) (Gam a - lgam a x)).
    apply is_lim_seq_minus'; [exact Gam_is_lim | apply is_lim_seq_const].
Qed.

Theorem Pgam_lim_infty : is_lim (Pgam a) p_infty 1.
Proof.
  generalize Gam_pos => HG.
  replace (Finite 1) with (Rbar_mult (Finite (Gam a)) (Finite (/ Gam a))).
  2:{ simpl. f_equal. field. lra. }
  exact (is_lim_scal_r (lgam a) (/ Gam a) p_infty (Gam a) lgam_lim_infty).
Qed.

Theorem Qgam_lim_infty : is_lim (Qgam a) p_infty 0.
Proof.
  apply is_lim_spec. intros eps. simpl.
  move: Pgam_lim_infty => /is_lim_spec /(_ eps) /= [M HM].
  exists M. intros x Hx. specialize (HM x Hx). unfold Qgam.
  replace (1 - Pgam a x - 0) with (- (Pgam a x - 1)) by ring. now rewrite Rabs_Ropp.
Qed.

End GamLim.

Theorem pgam_laws : forall a x y, 0 < a ->
  (0 <= x -> 0 <= Pgam a x <= 1) /\
  (0 <= x <= y -> Pgam a x <= Pgam a y) /\
  Pgam a x + Qgam a x = 1 /\
  Pgam a 0 = 0.
Proof.
  intros a x y Ha. repeat split.
  - now apply Pgam_range.
  - left. now apply Pgam_range.
  - now apply Pgam_monotone.
  - now apply Pgam_Qgam_sum.
  - now apply Pgam_0.
Qed.

(* ---------------------------------------------------------------------------------------- *)
(* 6. agreement with RealSpec/Gamma.v at integer shape a = n + 1                               *)
(* ---------------------------------------------------------------------------------------- *)

Lemma gkernel_nat_derive : forall m t,
  is_derive (gkernel_nat m) t (INR m * (exp (- t) * t ^ pred m) - gkernel_nat m t).
Proof.
  intros m t. unfold gkernel_nat. auto_derive; [exact I|]. ring.
Qed.

Lemma gkernel_nat_S_0 : forall n, gkernel_nat (S n) 0 = 0.
Proof. intros n. unfold gkernel_nat. rewrite pow_i; [ring | apply Nat.lt_0_succ]. Qed.

(* integration by parts at integer shape, on [0, x] *)
Lemma gkernel_nat_by_parts : forall n x,
  INR (S n) * RInt (gkernel_nat n) 0 x = gkernel_nat (S n) x + RInt (gkernel_nat (S n)) 0 x.
Proof.
  intros n x.
  set (df := fun t : R => minus (scal (INR (S n)) (gkernel_nat n t)) (gkernel_nat (S n) t)).
  assert (HI : is_RInt df 0 x (minus (gkernel_nat (S n) x) (gkernel_nat (S n) 0))).
  { apply (is_RInt_derive (gkernel_nat (S n)) df).
    - intros t _. exact (gkernel_nat_derive (S n) t).
    - intros t _. unfold df. apply: continuous_minus.
      + apply: continuous_scal_r. apply GammaR.gkernel_continuous.
      + apply GammaR.gkernel_continuous. }
  assert (HL : is_RInt df 0 x (minus (scal (INR (S n)) (RInt (gkernel_nat n) 0 x))
                                    (RInt (gkernel_nat (S n)) 0 x))).
  { unfold df. apply: is_RInt_minus.
    - apply: is_RInt_scal. apply: RInt_correct. apply gkernel_nat_ex_RInt.
    - apply: RInt_correct. apply gkernel_nat_ex_RInt. }
  generalize (is_RInt_unique _ _ _ _ HI). rewrite (is_RInt_unique _ _ _ _ HL).
  rewrite gkernel_nat_S_0 /minus /plus /opp /scal /= /mult /=. lra.
Qed.

Lemma gext_nat_eq : forall n t, 0 <= t -> gext (INR n + 1) t = gkernel_nat (S n) t.
Proof.
  intros n t [Ht | <-].
  - unfold gext, gkernel_nat. rewrite rpow0_pos_eq // -S_INR Rpower_pow //. ring.
  - now rewrite gext_0 gkernel_nat_S_0.
Qed.

Lemma lgam_nat_shape : forall n x, 0 <= x ->
  lgam (INR n + 1) x = RInt (gkernel_nat n) 0 x.
Proof.
  intros n x Hx. rewrite lgam_unfold gext_nat_eq //.
  assert (E : @eq R (RInt (gext (INR n + 1)) 0 x) (RInt (gkernel_nat (S n)) 0 x)).
  { apply RInt_ext. intros t. rewrite Rmin_left // Rmax_right //. intros Ht.
    apply gext_nat_eq. lra. }
  rewrite E -gkernel_nat_by_parts S_INR. field.
  generalize (pos_INR n). lra.
Qed.

Lemma lgam_nat_closed : forall n x, 0 <= x ->
  lgam (INR n + 1) x = INR (fact n) * Pgamma_int n x.
Proof.
  intros n x Hx. rewrite lgam_nat_shape //.
  exact (is_RInt_unique _ _ _ _ (gkernel_is_RInt n x)).
Qed.

(* e^-x x^j / j! <= (j+1)/x *)
Lemma exp_term_le_inv : forall j x, 0 < x ->
  exp (- x) * (x ^ j / INR (fact j)) <= INR (S j) / x.
Proof.
  intros j x Hx.
  generalize (gkernel_nat_le_fact (S j) x ltac:(lra)) (INR_fact_lt_0 j) => H Hf.
  unfold gkernel_nat in H. rewrite fact_simpl mult_INR in H.
  replace (exp (- x) * (x ^ j / INR (fact j)))
    with (exp (- x) * x ^ S j * / (INR (fact j) * x)) by (simpl; field; lra).
  replace (INR (S j) / x) with (INR (S j) * INR (fact j) * / (INR (fact j) * x)) by (field; lra).
  apply Rmult_le_compat_r; [|exact H].
  left. apply Rinv_0_lt_compat. now apply Rmult_lt_0_compat.
Qed.

Lemma Qgamma_int_le_inv : forall n, exists c, 0 <= c /\ forall x, 0 < x -> Qgamma_int n x <= c / x.
Proof.
  induction n as [|n [c [Hc IH]]].
  - exists 1. split; [lra|]. intros x Hx. unfold Qgamma_int.
    generalize (exp_term_le_inv 0 x Hx). simpl. unfold Rdiv. rewrite Rinv_1. lra.
  - exists (c + INR (S (S n))). split; [generalize (pos_INR (S (S n))); lra|].
    intros x Hx. unfold Qgamma_int.
    change (expsum (S n) x) with (expsum n x + x ^ S n / INR (fact (S n))).
    generalize (IH x Hx) (exp_term_le_inv (S n) x Hx). unfold Qgamma_int.
    set (u := INR (S (S n))). intros H1 H2.
    replace ((c + u) / x) with (c / x + u / x) by (field; lra). lra.
Qed.

(* a nonnegative sequence below c/k tends to 0 *)
Lemma lim_seq_le_inv : forall (u : nat -> R) c, 0 <= c ->
  (forall k, 0 < INR k -> 0 <= u k <= c / INR k) -> is_lim_seq u 0.
Proof.
  intros u c Hc Hle.
  apply is_lim_seq_spec. intros eps. simpl.
  assert (He := cond_pos eps).
  assert (Hce0 : 0 <= c / eps).
  { apply Rmult_le_pos; [exact Hc | left; now apply Rinv_0_lt_compat]. }
  assert (Hce : 0 <= c / eps + 1) by lra.
  destruct (nat_above (c / eps + 1) Hce) as [N HN].
  exists N. intros k Hk.
  assert (HkN : INR N <= INR k) by now apply le_INR.
  assert (Hk0 : 0 < INR k) by lra.
  destruct (Hle k Hk0) as [Q0 Q1].
  rewrite Rminus_0_r Rabs_pos_eq //.
  apply Rle_lt_trans with (1 := Q1).
  apply Rmult_lt_reg_r with (INR k); [exact Hk0|].
  unfold Rdiv. rewrite Rmult_assoc Rinv_l; [|lra].
  assert (c = c / eps * eps) by (field; lra).
  assert (c / eps * eps < INR k * eps) by (apply Rmult_lt_compat_r; lra).
  lra.
Qed.

Lemma Qgamma_int_lim : forall n, is_lim_seq (fun k => Qgamma_int n (INR k)) 0.
Proof.
  intros n. destruct (Qgamma_int_le_inv n) as [c [Hc Hle]].
  apply (lim_seq_le_inv _ c Hc). intros k Hk. split.
  - apply Qgamma_int_range. lra.
  - now apply Hle.
Qed.

Theorem Gam_nat : forall n, Gam (INR n + 1) = INR (fact n).
Proof.
  intros n. unfold Gam.
  assert (H : is_lim_seq (fun k => lgam (INR n + 1) (INR k)) (INR (fact n))).
  { apply (is_lim_seq_ext (fun k => INR (fact n) - INR (fact n) * Qgamma_int n (INR k))).
    - intros k. rewrite lgam_nat_closed; [|apply pos_INR]. unfold Pgamma_int, Qgamma_int. ring.
    - replace (Finite (INR (fact n))) with (Finite (INR (fact n) - INR (fact n) * 0))
        by (f_equal; ring).
      apply is_lim_seq_minus'; [apply is_lim_seq_const|].
      exact (is_lim_seq_scal_l _ (INR (fact n)) 0 (Qgamma_int_lim n)). }
  now rewrite (is_lim_seq_unique _ _ H).
Qed.

Theorem Pgam_nat_agree : forall (n : nat) x, 0 <= x -> Pgam (INR n + 1) x = Pgamma_nat n x.
Proof.
  intros n x Hx. unfold Pgam. rewrite Gam_nat lgam_nat_closed // Pgamma_closed_form.
  field. apply INR_fact_neq_0.
Qed.

Theorem Qgam_nat_agree : forall (n : nat) x, 0 <= x -> Qgam (INR n + 1) x = Qgamma_int n x.
Proof.
  intros n x Hx. unfold Qgam. rewrite Pgam_nat_agree // Qgamma_closed_form //.
Qed.

Theorem Gam_1 : Gam 1 = 1.
Proof. generalize (Gam_nat 0). simpl. now rewrite Rplus_0_l. Qed.

Theorem Pgam_1 : forall x, 0 <= x -> Pgam 1 x = 1 - exp (- x).
Proof.
  intros x Hx. generalize (Pgam_nat_agree 0 x Hx). simpl (INR 0). rewrite Rplus_0_l => ->.
  rewrite Pgamma_closed_form. unfold Pgamma_int. simpl. ring.
Qed.

(* ---------------------------------------------------------------------------------------- *)
(* 7. the functional equation  Gam (a+1) = a * Gam a  and the recurrence of P in the shape      *)
(* ---------------------------------------------------------------------------------------- *)

(* a function continuous at a that vanishes on (a, b] vanishes at a *)
Lemma continuous_zero_right : forall (G : R -> R) a b, a < b ->
  continuous G a -> (forall x, a < x <= b -> G x = 0) -> G a = 0.
Proof.
  intros G a b Hab Hc Hz.
  destruct (Req_dec (G a) 0) as [E | E]; [exact E | exfalso].
  assert (He : 0 < Rabs (G a)) by now apply Rabs_pos_lt.
  move: Hc => /filterlim_locally /(_ (mkposreal _ He)) [d Hd].
  set (x := Rmin b (a + d / 2)).
  assert (Hx : a < x <= b).
  { unfold x. split; [apply Rmin_case; generalize (cond_pos d); lra | apply Rmin_l]. }
  assert (Hb : ball a d x).
  { change (Rabs (x - a) < d). generalize (cond_pos d) (Rmin_r b (a + d / 2)) => Hd0 Hr.
    fold x in Hr. apply Rabs_def1; lra. }
  specialize (Hd x Hb). change (Rabs (G x - G a) < Rabs (G a)) in Hd.
  rewrite (Hz x Hx) in Hd. replace (0 - G a) with (- G a) in Hd by ring.
  rewrite Rabs_Ropp in Hd. lra.
Qed.

Lemma gkernel_succ_eq : forall a t, 0 < t -> gkernel (a + 1) t = gext a t.
Proof.
  intros a t Ht. unfold gkernel, gext. rewrite rpow0_pos_eq //.
  now replace (a + 1 - 1) with a by ring.
Qed.

(* gamma(a+1, x) = int_0^x t^a e^-t dt : at shape a+1 > 1 the integral is proper *)
Lemma lgam_succ_RInt : forall a x, 0 < a -> 0 <= x ->
  @eq R (lgam (a + 1) x) (RInt (gext a) 0 x).
Proof.
  intros a x Ha [Hx | <-].
  2:{ rewrite lgam_0 (RInt_point 0 (gext a)) /zero //. }
  assert (Ha1 : 0 < a + 1) by lra.
  set (G := fun e => (lgam (a + 1) x - lgam (a + 1) e) - (RInt (gext a) 0 x - RInt (gext a) 0 e)).
  assert (HG : G 0 = 0).
  { apply (continuous_zero_right G 0 x Hx).
    - unfold G. apply: continuous_minus; apply: continuous_minus;
        try apply continuous_const; [now apply lgam_continuous | now apply gext_RInt_continuous].
    - intros e He. unfold G.
      rewrite -(lgam_is_improper (a + 1) e x Ha1 He).
      assert (E : @eq R (RInt (gkernel (a + 1)) e x) (RInt (gext a) e x)).
      { apply RInt_ext. intros t. rewrite Rmin_left ?Rmax_right; try lra. intros Ht.
        apply gkernel_succ_eq. lra. }
      rewrite E. generalize (gext_Chasles a 0 e x Ha). lra. }
  unfold G in HG. rewrite lgam_0 (RInt_point 0 (gext a)) /zero /= in HG. lra.
Qed.

Theorem lgam_succ : forall a x, 0 < a -> 0 <= x ->
  lgam (a + 1) x = a * lgam a x - rpow0 a x * exp (- x).
Proof.
  intros a x Ha Hx. apply (eq_trans (lgam_succ_RInt a x Ha Hx)).
  rewrite lgam_unfold. unfold gext. symmetry. field. lra.
Qed.

(* x^a e^-x <= c/x *)
Lemma gext_le_inv : forall a, 0 < a -> exists c, 0 <= c /\ forall t, 0 < t -> gext a t <= c / t.
Proof.
  intros a Ha. destruct (nat_above a ltac:(lra)) as [N HN].
  assert (Hk : forall j t, 0 < t -> gkernel_nat j t <= INR (fact j) * INR (S j) / t).
  { intros j t Ht. generalize (exp_term_le_inv j t Ht) (INR_fact_lt_0 j) => H Hf.
    unfold gkernel_nat.
    replace (exp (- t) * t ^ j) with (INR (fact j) * (exp (- t) * (t ^ j / INR (fact j))))
      by (field; lra).
    unfold Rdiv at 2. rewrite Rmult_assoc. apply Rmult_le_compat_l; [lra | exact H]. }
  exists (INR (fact 0) * INR 1 + INR (fact N) * INR (S N)). split.
  - generalize (pos_INR (fact 0)) (pos_INR 1) (pos_INR (fact N)) (pos_INR (S N)). nra.
  - intros t Ht.
    generalize (gext_le_nat a N t Ha HN ltac:(lra)) (Hk 0%nat t Ht) (Hk N t Ht) => H1 H2 H3.
    replace ((INR (fact 0) * INR 1 + INR (fact N) * INR (S N)) / t)
      with (INR (fact 0) * INR 1 / t + INR (fact N) * INR (S N) / t) by (field; lra).
    lra.
Qed.

Lemma gext_lim_seq : forall a, 0 < a -> is_lim_seq (fun k => gext a (INR k)) 0.
Proof.
  intros a Ha. destruct (gext_le_inv a Ha) as [c [Hc Hle]].
  apply (lim_seq_le_inv _ c Hc). intros k Hk. split; [apply gext_nonneg | now apply Hle].
Qed.

Theorem Gam_succ : forall a, 0 < a -> Gam (a + 1) = a * Gam a.
Proof.
  intros a Ha.
  assert (H : is_lim_seq (fun k => lgam (a + 1) (INR k)) (a * Gam a)).
  { apply (is_lim_seq_ext (fun k => a * lgam a (INR k) - gext a (INR k))).
    - intros k. rewrite lgam_succ //. apply pos_INR.
    - replace (Finite (a * Gam a)) with (Finite (a * Gam a - 0)) by (f_equal; ring).
      apply is_lim_seq_minus'; [|now apply gext_lim_seq].
      exact (is_lim_seq_scal_l _ a (Gam a) (Gam_is_lim a Ha)). }
  unfold Gam at 1. now rewrite (is_lim_seq_unique _ _ H).
Qed.

(* P(a+1, x) = P(a, x) - x^a e^-x / Gam (a+1) *)
Theorem Pgam_succ : forall a x, 0 < a -> 0 <= x ->
  Pgam (a + 1) x = Pgam a x - rpow0 a x * exp (- x) / Gam (a + 1).
Proof.
  intros a x Ha Hx. unfold Pgam. rewrite lgam_succ // Gam_succ //.
  generalize (Gam_pos a Ha) => HG. field. lra.
Qed.

Theorem Qgam_succ : forall a x, 0 < a -> 0 <= x ->
  Qgam (a + 1) x = Qgam a x + rpow0 a x * exp (- x) / Gam (a + 1).
Proof. intros a x Ha Hx. unfold Qgam. rewrite Pgam_succ //. ring. Qed.

Print Assumptions pgam_laws.
Print Assumptions Pgam_nat_agree.
Print Assumptions Qgam_is_upper.
Print Assumptions Gam_succ.

(* Proofs/GammaR.v — closed form of the regularized incomplete gamma function at integer shape. *)
From Coq Require Import Reals Lra Psatz.
From Coquelicot Require Import Coquelicot.
From MM Require Import RealSpec.Gamma.
Open Scope R_scope.

Lemma expsum_0 : forall x, expsum 0 x = 1.
Proof. reflexivity. Qed.

Lemma expsum_at_0 : forall n, expsum n 0 = 1.
Proof.
  induction n; [reflexivity|].
  change (expsum (S n) 0) with (expsum n 0 + 0 ^ S n / INR (fact (S n))).
  rewrite IHn, pow_i by apply Nat.lt_0_succ. unfold Rdiv; ring.
Qed.

Lemma expsum_0_derive : forall x, is_derive (expsum 0) x 0.
Proof. intros x. apply (is_derive_const (K:=R_AbsRing) (V:=R_NormedModule) 1 x). Qed.

Lemma pow_div_const_derive : forall m c x,
  is_derive (fun y => y ^ m / c) x (INR m * x ^ pred m / c).
Proof.
  intros m c x. auto_derive; [exact I|]. unfold Rdiv; ring.
Qed.

Lemma pow_div_fact_derive : forall n x,
  is_derive (fun y => y ^ S n / INR (fact (S n))) x (x ^ n / INR (fact n)).
Proof.
  intros n x.
  assert (Hn := INR_fact_neq_0 n).
  assert (H : INR (S n) <> 0) by (apply not_0_INR; discriminate).
  replace (x ^ n / INR (fact n)) with (INR (S n) * x ^ pred (S n) / INR (fact (S n))).
  - apply pow_div_const_derive.
  - rewrite Nat.pred_succ, fact_simpl, mult_INR. field. split; assumption.
Qed.

Lemma expsum_derive : forall n x, is_derive (expsum (S n)) x (expsum n x).
Proof.
  induction n; intros x.
  - apply is_derive_ext with (f := fun y => 1 + y ^ 1 / INR (fact 1)).
    + intros t; reflexivity.
    + replace (expsum 0 x) with (0 + x ^ 0 / INR (fact 0)) by (simpl; field).
      apply (is_derive_plus (K:=R_AbsRing) (V:=R_NormedModule)).
      * apply (is_derive_const (K:=R_AbsRing) (V:=R_NormedModule)).
      * apply pow_div_fact_derive.
  - apply is_derive_ext with (f := fun y => expsum (S n) y + y ^ S (S n) / INR (fact (S (S n)))).
    + intros t; reflexivity.
    + change (expsum (S n) x) with (expsum n x + x ^ S n / INR (fact (S n))).
      apply (is_derive_plus (K:=R_AbsRing) (V:=R_NormedModule)).
      * apply IHn.
      * apply pow_div_fact_derive.
Qed.

Lemma exp_neg_mult_derive : forall (g : R -> R) x dg,
  is_derive g x dg -> is_derive (fun y => exp (- y) * g y) x (exp (- x) * (dg - g x)).
Proof.
  intros g x dg H. auto_derive.
  - eexists; exact H.
  - assert (E : Derive (fun x0 : R => g x0) x = dg) by (apply is_derive_unique; exact H).
    rewrite E. ring.
Qed.

(* d/dx [ e^-x * S_n(x) ] = - e^-x x^n / n! *)
Lemma Qgamma_int_derive : forall n x,
  is_derive (Qgamma_int n) x (- (exp (- x) * x ^ n / INR (fact n))).
Proof.
  intros n x. unfold Qgamma_int.
  destruct n.
  - replace (- (exp (- x) * x ^ 0 / INR (fact 0))) with (exp (- x) * (0 - expsum 0 x))
      by (simpl; field).
    apply exp_neg_mult_derive. apply expsum_0_derive.
  - replace (- (exp (- x) * x ^ S n / INR (fact (S n))))
      with (exp (- x) * (expsum n x - expsum (S n) x)).
    + apply exp_neg_mult_derive. apply expsum_derive.
    + change (expsum (S n) x) with (expsum n x + x ^ S n / INR (fact (S n))).
      field. apply INR_fact_neq_0.
Qed.

Lemma one_minus_derive : forall (g : R -> R) x dg,
  is_derive g x dg -> is_derive (fun y => 1 - g y) x (- dg).
Proof.
  intros g x dg H. auto_derive.
  - eexists; exact H.
  - assert (E : Derive (fun x0 : R => g x0) x = dg) by (apply is_derive_unique; exact H).
    rewrite E. ring.
Qed.

Lemma const_mult_derive : forall (g : R -> R) c x dg,
  is_derive g x dg -> is_derive (fun y => c * g y) x (c * dg).
Proof.
  intros g c x dg H. auto_derive.
  - eexists; exact H.
  - assert (E : Derive (fun x0 : R => g x0) x = dg) by (apply is_derive_unique; exact H).
    rewrite E. ring.
Qed.

Lemma Pgamma_int_derive : forall n x,
  is_derive (Pgamma_int n) x (exp (- x) * x ^ n / INR (fact n)).
Proof.
  intros n x.
  apply is_derive_ext with (f := fun y => 1 - Qgamma_int n y).
  - intros t; reflexivity.
  - replace (exp (- x) * x ^ n / INR (fact n)) with (- - (exp (- x) * x ^ n / INR (fact n))) by ring.
    apply one_minus_derive, Qgamma_int_derive.
Qed.

Lemma Pgamma_int_0 : forall n, Pgamma_int n 0 = 0.
Proof.
  intros n. unfold Pgamma_int. rewrite expsum_at_0, Ropp_0, exp_0. ring.
Qed.

Lemma gkernel_continuous : forall n t, continuous (gkernel_nat n) t.
Proof.
  intros n t. apply (ex_derive_continuous (K:=R_AbsRing) (V:=R_NormedModule)).
  unfold gkernel_nat. auto_derive. exact I.
Qed.

Lemma gkernel_is_RInt : forall n x,
  is_RInt (gkernel_nat n) 0 x (INR (fact n) * Pgamma_int n x).
Proof.
  intros n x.
  assert (Hn := INR_fact_neq_0 n).
  replace (INR (fact n) * Pgamma_int n x)
    with (minus (INR (fact n) * Pgamma_int n x) (INR (fact n) * Pgamma_int n 0))
    by (rewrite Pgamma_int_0; unfold minus, plus, opp; simpl; ring).
  apply (is_RInt_derive (fun y => INR (fact n) * Pgamma_int n y) (gkernel_nat n)).
  - intros t _.
    replace (gkernel_nat n t) with (INR (fact n) * (exp (- t) * t ^ n / INR (fact n)))
      by (unfold gkernel_nat; field; exact Hn).
    apply const_mult_derive, Pgamma_int_derive.
  - intros t _. apply gkernel_continuous.
Qed.

(* MAIN: the textbook integral equals the closed form, for every real x *)
Theorem Pgamma_closed_form : forall n x, Pgamma_nat n x = Pgamma_int n x.
Proof.
  intros n x. unfold Pgamma_nat.
  rewrite (is_RInt_unique _ _ _ _ (gkernel_is_RInt n x)).
  field. apply INR_fact_neq_0.
Qed.

Lemma Pgamma_complement : forall n x, Pgamma_int n x + Qgamma_int n x = 1.
Proof. intros; unfold Pgamma_int, Qgamma_int; ring. Qed.

Lemma expsum_pos : forall n x, 0 <= x -> 0 < expsum n x.
Proof.
  induction n; intros x Hx.
  - simpl; lra.
  - change (expsum (S n) x) with (expsum n x + x ^ S n / INR (fact (S n))).
    assert (0 < expsum n x) by auto.
    assert (0 <= x ^ S n) by (apply pow_le; assumption).
    assert (0 < INR (fact (S n))) by (apply INR_fact_lt_0).
    assert (0 <= x ^ S n / INR (fact (S n))).
    { apply Rmult_le_pos; [assumption|]. left. apply Rinv_0_lt_compat. assumption. }
    lra.
Qed.

Lemma Pgamma_int_monotone : forall n x y, 0 <= x <= y -> Pgamma_int n x <= Pgamma_int n y.
Proof.
  intros n x y [Hx Hxy].
  destruct (Req_dec x y) as [->|Hne]; [lra|].
  assert (Hlt : x < y) by lra.
  destruct (MVT_gen (Pgamma_int n) x y (fun t => exp (- t) * t ^ n / INR (fact n)))
    as [c [[Hc1 Hc2] Heq]].
  - intros c Hc. apply Pgamma_int_derive.
  - intros c Hc. apply continuity_pt_filterlim.
    apply (ex_derive_continuous (K:=R_AbsRing) (V:=R_NormedModule)).
    eexists; apply Pgamma_int_derive.
  - rewrite Rmin_left, Rmax_right in * by lra.
    assert (0 <= exp (- c) * c ^ n / INR (fact n)).
    { apply Rmult_le_pos; [apply Rmult_le_pos|].
      - left; apply exp_pos.
      - apply pow_le; lra.
      - left; apply Rinv_0_lt_compat, INR_fact_lt_0. }
    nra.
Qed.

Lemma Pgamma_int_range : forall n x, 0 <= x -> 0 <= Pgamma_int n x <= 1.
Proof.
  intros n x Hx. split.
  - rewrite <- (Pgamma_int_0 n). apply Pgamma_int_monotone; lra.
  - unfold Pgamma_int.
    assert (0 < exp (- x) * expsum n x).
    { apply Rmult_lt_0_compat; [apply exp_pos | apply expsum_pos; assumption]. }
    lra.
Qed.

Lemma expsum_le_exp : forall n x, 0 <= x -> expsum n x <= exp x.
Proof.
  intros n x Hx.
  destruct (Pgamma_int_range n x Hx) as [H _]. unfold Pgamma_int in H.
  assert (He := exp_pos x).
  assert (exp (- x) * exp x = 1) by (rewrite <- exp_plus; replace (- x + x) with 0 by ring; apply exp_0).
  assert (Hm : exp x * (exp (- x) * expsum n x) <= exp x * 1) by (apply Rmult_le_compat_l; lra).
  replace (exp x * (exp (- x) * expsum n x)) with ((exp (- x) * exp x) * expsum n x) in Hm by ring.
  rewrite H0 in Hm. lra.
Qed.

Lemma Qgamma_int_range : forall n x, 0 <= x -> 0 <= Qgamma_int n x <= 1.
Proof.
  intros n x Hx. generalize (Pgamma_int_range n x Hx) (Pgamma_complement n x). lra.
Qed.

Lemma Pgamma_nat_range : forall n x, 0 <= x -> 0 <= Pgamma_nat n x <= 1.
Proof. intros; rewrite Pgamma_closed_form; apply Pgamma_int_range; assumption. Qed.

Lemma Pgamma_nat_monotone : forall n x y, 0 <= x <= y -> Pgamma_nat n x <= Pgamma_nat n y.
Proof. intros; rewrite !Pgamma_closed_form; apply Pgamma_int_monotone; assumption. Qed.

Lemma Qgamma_closed_form : forall n x, 1 - Pgamma_nat n x = Qgamma_int n x.
Proof. intros n x. rewrite Pgamma_closed_form. unfold Pgamma_int, Qgamma_int. ring. Qed.

(* recurrence in the shape: P(n+2, x) = P(n+1, x) - e^-x x^(n+1)/(n+1)! *)
Lemma Pgamma_int_step : forall n x,
  Pgamma_int (S n) x = Pgamma_int n x - exp (- x) * x ^ S n / INR (fact (S n)).
Proof.
  intros n x. unfold Pgamma_int.
  change (expsum (S n) x) with (expsum n x + x ^ S n / INR (fact (S n))).
  unfold Rdiv; ring.
Qed.

Print Assumptions Pgamma_closed_form.
Print Assumptions Pgamma_int_range.
Print Assumptions Pgamma_int_monotone.

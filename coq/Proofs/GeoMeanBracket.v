(* Proofs/GeoMeanBracket.v — (group hL, C09 item d) what the "bracket only" GeoMean test for more than 64
   values (lcm of the coefficient denominators > 64) is worth.  Over Q, no exp / ln:
   - the TRUE geometric mean of positive values (any positive g with g^n = prod x_i) lies between the least
     and the greatest value (geomean_true_in_bracket): the bracket test never rejects it, and an accepted
     observation is within  mx (1 + 1e-9) - mn (1 - 1e-9)  of it (geo_bracket_distance);
   - AM-GM: prod x_i <= (sum x_i / n)^n (am_gm), so the true geometric mean is at most the arithmetic
     mean mean_def xs (geomean_le_mean). *)
From MM Require Import Base.Num Model.Stream Proofs.Stream Check.C09 Proofs.CheckC09.
From Coq Require Import Lqa Lia.
Local Open Scope Q_scope.

(* ====================== 1. powers ====================== *)
Lemma Qpw_wd a b n : a == b -> Qpw a n == Qpw b n.
Proof. intro E. induction n as [|n IH]; cbn [Qpw]; [reflexivity | rewrite IH, E; reflexivity]. Qed.

Lemma Qpw_pos a n : 0 < a -> 0 < Qpw a n.
Proof.
  intro Ha. induction n as [|n IH]; cbn [Qpw]; [lra|].
  apply Qmult_lt_0_compat; assumption.
Qed.

Lemma Qpw_nonneg a n : 0 <= a -> 0 <= Qpw a n.
Proof.
  intro Ha. induction n as [|n IH]; cbn [Qpw]; [lra|].
  apply Qmult_le_0_compat; assumption.
Qed.

Lemma Qmult_le_compat4 a b c d : 0 <= a -> a <= b -> 0 <= c -> c <= d -> a * c <= b * d.
Proof.
  intros Ha Hab Hc Hcd.
  apply Qle_trans with (a * d).
  - rewrite (Qmult_comm a c), (Qmult_comm a d). apply Qmult_le_compat_r; assumption.
  - apply Qmult_le_compat_r; [assumption | lra].
Qed.

Lemma Qpw_le_mono a b n : 0 <= a -> a <= b -> Qpw a n <= Qpw b n.
Proof.
  intros Ha Hab. induction n as [|n IH]; cbn [Qpw]; [lra|].
  apply Qmult_le_compat4; [assumption | assumption | apply Qpw_nonneg; assumption | exact IH].
Qed.

Lemma Qpw_lt_mono a b n : 0 <= a -> a < b -> (0 < n)%nat -> Qpw a n < Qpw b n.
Proof.
  intros Ha Hab Hn. destruct n as [|n]; [lia|]. clear Hn. cbn [Qpw].
  assert (P : 0 < Qpw b n) by (apply Qpw_pos; lra).
  assert (L : Qpw a n <= Qpw b n) by (apply Qpw_le_mono; [assumption | lra]).
  assert (N : 0 <= Qpw a n) by (apply Qpw_nonneg; assumption).
  apply Qle_lt_trans with (a * Qpw b n).
  - rewrite (Qmult_comm a (Qpw a n)), (Qmult_comm a (Qpw b n)). apply Qmult_le_compat_r; assumption.
  - apply Qmult_lt_compat_r; assumption.
Qed.

Lemma Qpw_lt_inv a b n : 0 < a -> 0 < b -> (0 < n)%nat -> Qpw a n <= Qpw b n -> a <= b.
Proof.
  intros Ha Hb Hn H. apply Qnot_lt_le. intro C.
  pose proof (Qpw_lt_mono b a n ltac:(lra) C Hn). lra.
Qed.

Lemma Qpw_mult a b n : Qpw (a * b) n == Qpw a n * Qpw b n.
Proof. induction n as [|n IH]; cbn [Qpw]; [ring | rewrite IH; ring]. Qed.

(* ====================== 2. the product between the powers of the extremes ====================== *)
Lemma Qprod_pos xs : (forall x, In x xs -> 0 < x) -> 0 < Qprod xs.
Proof.
  induction xs as [|x xs IH]; intro H; cbn [Qprod]; [lra|].
  apply Qmult_lt_0_compat; [apply H; left; reflexivity | apply IH; intros y Hy; apply H; right; exact Hy].
Qed.

Lemma prod_between_powers : forall xs mn mx, (forall x, In x xs -> 0 < mn /\ mn <= x /\ x <= mx) ->
  Qpw mn (length xs) <= Qprod xs /\ Qprod xs <= Qpw mx (length xs).
Proof.
  induction xs as [|x xs IH]; intros mn mx H; cbn [length Qpw Qprod]; [split; lra|].
  destruct (H x (or_introl eq_refl)) as (H0 & H1 & H2).
  destruct (IH mn mx (fun y Hy => H y (or_intror Hy))) as [I1 I2].
  assert (P : 0 <= Qpw mn (length xs)) by (apply Qpw_nonneg; lra).
  split; apply Qmult_le_compat4; try assumption; lra.
Qed.

(* ====================== 3. the true geometric mean lies in the bracket ====================== *)
Theorem geomean_true_in_bracket : forall xs g mn mx, xs <> [] -> (forall x, In x xs -> 0 < x) -> 0 < g ->
  Qpw g (length xs) == Qprod xs -> is_min mn xs -> is_max mx xs -> mn <= g /\ g <= mx.
Proof.
  intros xs g mn mx Hne Hpos Hg Hpow [[a [Ia Ea]] Hmn] [[b [Ib Eb]] Hmx].
  assert (Pmn : 0 < mn) by (rewrite <- Ea; apply Hpos; exact Ia).
  assert (Pmx : 0 < mx) by (rewrite <- Eb; apply Hpos; exact Ib).
  assert (Hn : (0 < length xs)%nat) by (destruct xs; [congruence | cbn; lia]).
  destruct (prod_between_powers xs mn mx) as [B1 B2].
  { intros x Hx. split; [exact Pmn|]. split; [apply Hmn | apply Hmx]; exact Hx. }
  rewrite <- Hpow in B1, B2. split; eapply Qpw_lt_inv; eassumption.
Qed.

Lemma is_min_unique xs a b : is_min a xs -> is_min b xs -> a == b.
Proof.
  intros [[x [Ix Ex]] Ha] [[y [Iy Ey]] Hb].
  pose proof (Ha y Iy). pose proof (Hb x Ix). lra.
Qed.
Lemma is_max_unique xs a b : is_max a xs -> is_max b xs -> a == b.
Proof.
  intros [[x [Ix Ex]] Ha] [[y [Iy Ey]] Hb].
  pose proof (Ha y Iy). pose proof (Hb x Ix). lra.
Qed.

(* an observation accepted by the bracket test is within the width of the (1e-9 widened) bracket of the true
   geometric mean; nothing better follows from the test *)
Theorem geo_bracket_distance : forall xs g_obs g mn mx, xs <> [] -> (forall x, In x xs -> 0 < x) -> 0 < g ->
  Qpw g (length xs) == Qprod xs -> is_min mn xs -> is_max mx xs ->
  geo_bracket_ok xs g_obs ->
  Qabs (g_obs - g) <= mx * (1 + e9g) - mn * (1 - e9g).
Proof.
  intros xs g_obs g mn mx Hne Hpos Hg Hpow Hmn Hmx (mn' & mx' & Hmn' & Hmx' & L & U).
  destruct (geomean_true_in_bracket xs g mn mx Hne Hpos Hg Hpow Hmn Hmx) as [G1 G2].
  pose proof (is_min_unique xs mn mn' Hmn Hmn') as E1. pose proof (is_max_unique xs mx mx' Hmx Hmx') as E2.
  assert (Pmn : 0 < mn). { destruct Hmn as [[a [Ia Ea]] _]. rewrite <- Ea. apply Hpos. exact Ia. }
  rewrite <- E1 in L. rewrite <- E2 in U. unfold e9g in *.
  apply Qabs_Qle_condition. split; lra.
Qed.

(* the true geometric mean always passes the bracket test *)
Corollary geomean_true_accepted : forall xs g mn mx, xs <> [] -> (forall x, In x xs -> 0 < x) -> 0 < g ->
  Qpw g (length xs) == Qprod xs -> is_min mn xs -> is_max mx xs -> geo_bracket_ok xs g.
Proof.
  intros xs g mn mx Hne Hpos Hg Hpow Hmn Hmx.
  destruct (geomean_true_in_bracket xs g mn mx Hne Hpos Hg Hpow Hmn Hmx) as [G1 G2].
  assert (Pmn : 0 < mn). { destruct Hmn as [[a [Ia Ea]] _]. rewrite <- Ea. apply Hpos. exact Ia. }
  exists mn, mx. split; [exact Hmn|]. split; [exact Hmx|]. unfold e9g. split; lra.
Qed.

(* ====================== 4. AM-GM ====================== *)
Lemma Qofnat_S' (n : nat) : Qofnat (S n) == Qofnat n + 1.
Proof. unfold Qofnat. rewrite Nat2Z.inj_succ, <- Z.add_1_r, inject_Z_plus. reflexivity. Qed.
Lemma Qofnat_nonneg' (n : nat) : 0 <= Qofnat n.
Proof. unfold Qofnat. change 0 with (inject_Z 0). rewrite <- Zle_Qle. lia. Qed.
Lemma Qofnat_pos' (n : nat) : (0 < n)%nat -> 0 < Qofnat n.
Proof. intro H. unfold Qofnat. change 0 with (inject_Z 0). rewrite <- Zlt_Qlt. lia. Qed.

Lemma bernoulli : forall n t, 0 <= 1 + t -> 1 + Qofnat n * t <= Qpw (1 + t) n.
Proof.
  induction n as [|n IH]; intros t Ht.
  - cbn [Qpw]. change (Qofnat 0) with 0. lra.
  - cbn [Qpw]. rewrite Qofnat_S'. specialize (IH t Ht).
    pose proof (Qofnat_nonneg' n) as N0.
    set (P := Qpw (1 + t) n) in *. set (N := Qofnat n) in *. clearbody P N.
    assert (H1 : 0 <= (1 + t) * (P - (1 + N * t))) by (apply Qmult_le_0_compat; lra).
    assert (H2 : 0 <= N * (t * t)).
    { apply Qmult_le_0_compat; [exact N0|]. destruct (Qlt_le_dec t 0) as [C|C].
      - setoid_replace (t * t) with ((- t) * (- t)) by ring. apply Qmult_le_0_compat; lra.
      - apply Qmult_le_0_compat; lra. }
    nra.
Qed.

(* one more value: A^k x <= ((k A + x) / (k + 1))^(k + 1) *)
Lemma amgm_step k A x : 0 < A -> 0 < x ->
  Qpw A k * x <= Qpw ((Qofnat k * A + x) / Qofnat (S k)) (S k).
Proof.
  intros HA Hx.
  assert (K1 : 0 < Qofnat (S k)) by (apply Qofnat_pos'; lia).
  pose proof (Qofnat_nonneg' k) as K0.
  set (A' := (Qofnat k * A + x) / Qofnat (S k)).
  assert (PA' : 0 < A').
  { unfold A'. apply Qlt_shift_div_l; [exact K1|]. assert (0 <= Qofnat k * A) by (apply Qmult_le_0_compat; lra). lra. }
  set (r := A' / A).
  assert (Pr : 0 < r) by (unfold r; apply Qlt_shift_div_l; lra).
  pose proof (bernoulli (S k) (r - 1) ltac:(lra)) as B.
  rewrite (Qpw_wd (1 + (r - 1)) r (S k)) in B by ring.
  assert (E1 : 1 + Qofnat (S k) * (r - 1) == x / A).
  { unfold r, A'. rewrite Qofnat_S' in *. field. split; lra. }
  rewrite E1 in B.
  assert (E2 : Qpw A' (S k) == Qpw r (S k) * Qpw A (S k)).
  { rewrite <- Qpw_mult. apply Qpw_wd. unfold r. field. lra. }
  rewrite E2. cbn [Qpw] in *.
  assert (PA : 0 < Qpw A k) by (apply Qpw_pos; exact HA).
  assert (E3 : Qpw A k * x == (x / A) * (A * Qpw A k)) by (field; lra).
  rewrite E3. apply Qmult_le_compat_r; [exact B|].
  apply Qlt_le_weak. apply Qmult_lt_0_compat; assumption.
Qed.

Lemma Qsum_pos xs : xs <> [] -> (forall x, In x xs -> 0 < x) -> 0 < Qsum xs.
Proof.
  induction xs as [|x xs IH]; intros Hne H; [congruence|]. cbn [Qsum].
  pose proof (H x (or_introl eq_refl)) as Px.
  destruct xs as [|y t]; [cbn [Qsum]; lra|].
  assert (0 < Qsum (y :: t)) by (apply IH; [discriminate | intros z Hz; apply H; right; exact Hz]). lra.
Qed.

Theorem am_gm : forall xs, xs <> [] -> (forall x, In x xs -> 0 < x) ->
  Qprod xs <= Qpw (Qsum xs / Qofnat (length xs)) (length xs).
Proof.
  induction xs as [|x t IH]; intros Hne Hpos; [congruence|].
  pose proof (Hpos x (or_introl eq_refl)) as Px.
  destruct t as [|y t'].
  - cbn [Qprod Qsum length Qpw].
    assert (E : (x + 0) / Qofnat 1 == x) by (unfold Qofnat; cbn [Z.of_nat Pos.of_succ_nat]; field).
    rewrite E. lra.
  - set (t := y :: t') in *.
    assert (Ht : t <> []) by (unfold t; discriminate).
    assert (Hpt : forall z, In z t -> 0 < z) by (intros z Hz; apply Hpos; right; exact Hz).
    specialize (IH Ht Hpt).
    change (Qprod (x :: t)) with (x * Qprod t). change (Qsum (x :: t)) with (x + Qsum t).
    change (length (x :: t)) with (S (length t)).
    assert (K : 0 < Qofnat (length t)) by (apply Qofnat_pos'; unfold t; cbn; lia).
    pose proof (Qsum_pos t Ht Hpt) as PS.
    set (A := Qsum t / Qofnat (length t)) in *.
    assert (PA : 0 < A) by (unfold A; apply Qlt_shift_div_l; lra).
    pose proof (amgm_step (length t) A x PA Px) as St.
    rewrite (Qpw_wd ((Qofnat (length t) * A + x) / Qofnat (S (length t))) ((x + Qsum t) / Qofnat (S (length t)))) in St.
    2:{ assert (K1 : 0 < Qofnat (S (length t))) by (apply Qofnat_pos'; lia). unfold A. field. split; lra. }
    eapply Qle_trans; [|exact St].
    rewrite (Qmult_comm x). apply Qmult_le_compat_r; [exact IH | lra].
Qed.

(* the true geometric mean is at most the arithmetic mean (mean_def of Proofs/Stream.v) *)
Corollary geomean_le_mean : forall xs g, xs <> [] -> (forall x, In x xs -> 0 < x) -> 0 < g ->
  Qpw g (length xs) == Qprod xs -> g <= mean_def xs.
Proof.
  intros xs g Hne Hpos Hg Hpow. unfold mean_def, nQ.
  assert (Hn : (0 < length xs)%nat) by (destruct xs; [congruence | cbn; lia]).
  pose proof (Qofnat_pos' _ Hn) as K. pose proof (Qsum_pos xs Hne Hpos) as PS.
  eapply (Qpw_lt_inv g _ (length xs)); [exact Hg | apply Qlt_shift_div_l; lra | exact Hn |].
  rewrite Hpow. apply am_gm; assumption.
Qed.

(* non-vacuity: 1, 2, 4 has geometric mean 2, between 1 and 4 and below the mean 7/3 *)
Example geomean_124 : (1 <= 2 /\ 2 <= 4) /\ 2 <= mean_def [1; 2; 4].
Proof.
  assert (Hne : [1; 2; 4] <> []) by discriminate.
  assert (Hpos : forall x, In x [1; 2; 4] -> 0 < x).
  { intros x [<-|[<-|[<-|[]]]]; reflexivity. }
  assert (Hpow : Qpw 2 (length [1; 2; 4]) == Qprod [1; 2; 4]) by reflexivity.
  split.
  - apply (geomean_true_in_bracket [1; 2; 4] 2 1 4 Hne Hpos ltac:(reflexivity) Hpow).
    + split; [exists 1; split; [left; reflexivity | reflexivity]|]. intros y [<-|[<-|[<-|[]]]]; discriminate.
    + split; [exists 4; split; [right; right; left; reflexivity | reflexivity]|]. intros y [<-|[<-|[<-|[]]]]; discriminate.
  - apply (geomean_le_mean [1; 2; 4] 2 Hne Hpos ltac:(reflexivity) Hpow).
Qed.

Print Assumptions geomean_true_in_bracket.
Print Assumptions geo_bracket_distance.
Print Assumptions geomean_true_accepted.
Print Assumptions am_gm.
Print Assumptions geomean_le_mean.

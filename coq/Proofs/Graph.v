(* Graph.v — specification theorems for Model/Graph.v:
   MakeBiGraph (transpose with multiplicity, sources ascending),
   Equal (adjacency lists compared as multisets),
   SimplifyMulti (parallel edges merged, weights summed). *)
From Coq Require Import List NArith ZArith QArith FMapPositive Lia Bool Permutation Sorted.
From MM Require Import Base.GCGraph Base.GCReach Model.Graph.
Import ListNotations.

(* ================================================================== *)
(* 1. MakeBiGraph                                                      *)
(* ================================================================== *)

Lemma gm_out_empty : forall j, gm_out (PositiveMap.empty _) j = [].
Proof. intros j. unfold gm_out. rewrite PositiveMap.gempty. reflexivity. Qed.

Lemma gm_out_add_same : forall j l p, gm_out (PositiveMap.add (N.succ_pos j) l p) j = l.
Proof. intros j l p. unfold gm_out. rewrite PositiveMap.gss. reflexivity. Qed.

Lemma gm_out_add_other : forall j k l p, j <> k ->
  gm_out (PositiveMap.add (N.succ_pos j) l p) k = gm_out p k.
Proof.
  intros j k l p Hne. unfold gm_out. rewrite PositiveMap.gso. reflexivity.
  intros Heq. apply Hne. symmetry. apply succ_pos_inj. exact Heq.
Qed.

(* one source node i: i is appended to In(j) once per occurrence of j in Out(i) *)
Lemma bi_add_out : forall outs i preds j,
  gm_out (bi_add i outs preds) j = gm_out preds j ++ repeat i (count_occ N.eq_dec outs j).
Proof.
  unfold bi_add. induction outs as [|a outs IH]; intros i preds j; simpl.
  - rewrite app_nil_r. reflexivity.
  - rewrite IH. destruct (N.eq_dec a j) as [Heq|Hne].
    + subst a. rewrite gm_out_add_same. rewrite <- app_assoc. reflexivity.
    + rewrite gm_out_add_other by exact Hne. reflexivity.
Qed.

(* the list appended to In(j) by the nodes i0, i0+1, ... of g *)
Fixpoint tr_from (g : graph) (i0 : N) (j : N) : list N :=
  match g with
  | [] => []
  | outs :: t => repeat i0 (count_occ N.eq_dec outs j) ++ tr_from t (i0 + 1)%N j
  end.

Lemma bi_build_from_out : forall g i0 preds j,
  gm_out (bi_build_from g i0 preds) j = gm_out preds j ++ tr_from g i0 j.
Proof.
  induction g as [|outs t IH]; intros i0 preds j; simpl.
  - rewrite app_nil_r. reflexivity.
  - rewrite IH, bi_add_out, <- app_assoc. reflexivity.
Qed.

Lemma bi_in_tr : forall g j, bi_in g j = tr_from g 0%N j.
Proof.
  intros g j. unfold bi_in, bi_build. rewrite bi_build_from_out, gm_out_empty. reflexivity.
Qed.

Lemma count_occ_repeat_N : forall (x y : N) n,
  count_occ N.eq_dec (repeat x n) y = if N.eq_dec x y then n else 0%nat.
Proof.
  intros x y n. destruct (N.eq_dec x y) as [Heq|Hne].
  - apply count_occ_repeat_eq. symmetry. exact Heq.
  - apply count_occ_repeat_neq. intros Heq. apply Hne. symmetry. exact Heq.
Qed.

Lemma nth_nil_nil : forall (k : nat), nth k (@nil (list N)) [] = [].
Proof. intros [|k]; reflexivity. Qed.

Lemma tr_from_count : forall g i0 j i,
  count_occ N.eq_dec (tr_from g i0 j) i =
  if (i <? i0)%N then 0%nat
  else count_occ N.eq_dec (nth (N.to_nat (i - i0)) g []) j.
Proof.
  induction g as [|outs t IH]; intros i0 j i; simpl tr_from.
  - rewrite nth_nil_nil. simpl. destruct (i <? i0)%N; reflexivity.
  - rewrite count_occ_app, count_occ_repeat_N, IH.
    destruct (N.ltb_spec i i0) as [Hlt|Hge].
    + destruct (N.ltb_spec i (i0 + 1)) as [Hlt'|Hge']; [|lia].
      destruct (N.eq_dec i0 i) as [Heq|Hne]; [lia|]. reflexivity.
    + destruct (N.eq_dec i0 i) as [Heq|Hne].
      * subst i. destruct (N.ltb_spec i0 (i0 + 1)) as [Hlt'|Hge']; [|lia].
        rewrite N.sub_diag. simpl. lia.
      * destruct (N.ltb_spec i (i0 + 1)) as [Hlt'|Hge']; [lia|].
        replace (N.to_nat (i - i0)) with (S (N.to_nat (i - (i0 + 1)))) by lia.
        simpl. reflexivity.
Qed.

Theorem bi_in_count : forall g i j,
  count_occ N.eq_dec (bi_in g j) i = count_occ N.eq_dec (g_out g i) j.
Proof.
  intros g i j. rewrite bi_in_tr, tr_from_count. unfold g_out.
  destruct (N.ltb_spec i 0) as [Hlt|Hge]; [lia|].
  rewrite N.sub_0_r. reflexivity.
Qed.

Corollary bi_in_iff : forall g i j, In i (bi_in g j) <-> In j (g_out g i).
Proof.
  intros g i j. rewrite (count_occ_In N.eq_dec), (count_occ_In N.eq_dec), bi_in_count.
  reflexivity.
Qed.

Lemma repeat_app_ssorted : forall x n l,
  StronglySorted N.le l -> Forall (N.le x) l -> StronglySorted N.le (repeat x n ++ l).
Proof.
  intros x n l Hs Hf. induction n as [|n IH]; simpl.
  - exact Hs.
  - constructor. exact IH.
    apply Forall_app. split.
    + apply Forall_forall. intros y Hy. apply repeat_spec in Hy. subst y. apply N.le_refl.
    + exact Hf.
Qed.

Lemma tr_from_sorted : forall g i0 j,
  StronglySorted N.le (tr_from g i0 j) /\ Forall (N.le i0) (tr_from g i0 j).
Proof.
  induction g as [|outs t IH]; intros i0 j; simpl.
  - split; constructor.
  - destruct (IH (i0 + 1)%N j) as [Hs Hf].
    assert (Hf' : Forall (N.le i0) (tr_from t (i0 + 1)%N j)).
    { eapply Forall_impl; [|exact Hf]. intros a Ha. simpl in Ha. lia. }
    split.
    + apply repeat_app_ssorted; assumption.
    + apply Forall_app. split; [|exact Hf'].
      apply Forall_forall. intros y Hy. apply repeat_spec in Hy. subst y. apply N.le_refl.
Qed.

Theorem bi_in_sorted : forall g j, Sorted N.le (bi_in g j).
Proof.
  intros g j. rewrite bi_in_tr. apply StronglySorted_Sorted. apply tr_from_sorted.
Qed.

(* ================================================================== *)
(* 2. Equal                                                            *)
(* ================================================================== *)

Lemma ins_sorted_perm : forall x l, Permutation (x :: l) (ins_sorted x l).
Proof.
  intros x l. induction l as [|y t IH]; simpl.
  - apply Permutation_refl.
  - destruct (x <=? y)%N.
    + apply Permutation_refl.
    + eapply perm_trans; [apply perm_swap|]. apply perm_skip. exact IH.
Qed.

Lemma isort_perm : forall l, Permutation l (isort l).
Proof.
  induction l as [|x t IH]; simpl.
  - constructor.
  - eapply perm_trans; [|apply ins_sorted_perm]. apply perm_skip. exact IH.
Qed.

Lemma ins_sorted_comm : forall x y s,
  ins_sorted x (ins_sorted y s) = ins_sorted y (ins_sorted x s).
Proof.
  intros x y s. induction s as [|z t IH]; simpl.
  - destruct (N.leb_spec x y) as [H1|H1]; destruct (N.leb_spec y x) as [H2|H2];
      try reflexivity; try lia.
    assert (Heq : x = y) by lia. subst y. reflexivity.
  - destruct (N.leb_spec y z) as [H1|H1]; destruct (N.leb_spec x z) as [H2|H2]; simpl.
    + destruct (N.leb_spec x y) as [H3|H3]; destruct (N.leb_spec y x) as [H4|H4];
        try lia.
      * assert (Heq : x = y) by lia. subst y. reflexivity.
      * destruct (N.leb_spec y z) as [H5|H5]; [reflexivity|lia].
      * destruct (N.leb_spec x z) as [H5|H5]; [reflexivity|lia].
    + destruct (N.leb_spec x y) as [H3|H3]; [lia|].
      destruct (N.leb_spec x z) as [H5|H5]; [lia|].
      destruct (N.leb_spec y z) as [H6|H6]; [reflexivity|lia].
    + destruct (N.leb_spec x z) as [H5|H5]; [|lia].
      destruct (N.leb_spec y x) as [H3|H3]; [lia|].
      destruct (N.leb_spec y z) as [H6|H6]; [lia|reflexivity].
    + destruct (N.leb_spec x z) as [H5|H5]; [lia|].
      destruct (N.leb_spec y z) as [H6|H6]; [lia|].
      rewrite IH. reflexivity.
Qed.

Lemma isort_perm_eq : forall l1 l2, Permutation l1 l2 -> isort l1 = isort l2.
Proof.
  intros l1 l2 HP. induction HP as [|x l l' HP IH|x y l|l l' l'' HP1 IH1 HP2 IH2]; simpl.
  - reflexivity.
  - rewrite IH. reflexivity.
  - apply ins_sorted_comm.
  - rewrite IH1. exact IH2.
Qed.

Theorem isort_perm_iff : forall l1 l2, isort l1 = isort l2 <-> Permutation l1 l2.
Proof.
  intros l1 l2. split.
  - intros Heq. eapply perm_trans; [apply isort_perm|]. rewrite Heq.
    apply Permutation_sym. apply isort_perm.
  - apply isort_perm_eq.
Qed.

Theorem Ns_eqb_eq : forall a b, Ns_eqb a b = true <-> a = b.
Proof.
  induction a as [|x a IH]; intros [|y b]; simpl.
  - split; reflexivity.
  - split; discriminate.
  - split; discriminate.
  - rewrite andb_true_iff, N.eqb_eq, IH. split.
    + intros [H1 H2]. subst. reflexivity.
    + intros Heq. inversion Heq. split; reflexivity.
Qed.

Theorem adj_equal_spec : forall e1 e2, adj_equal e1 e2 = true <-> Permutation e1 e2.
Proof.
  intros e1 e2. unfold adj_equal.
  rewrite andb_true_iff, orb_true_iff, Nat.eqb_eq, !Ns_eqb_eq, isort_perm_iff. split.
  - intros [_ [Heq|HP]]; [subst e2; apply Permutation_refl | exact HP].
  - intros HP. split; [apply Permutation_length; exact HP | right; exact HP].
Qed.

Lemma adjs_equal_spec : forall g1 g2,
  adjs_equal g1 g2 = true <->
  (length g1 = length g2 /\ forall k, Permutation (nth k g1 []) (nth k g2 [])).
Proof.
  induction g1 as [|e1 t1 IH]; intros [|e2 t2]; simpl.
  - split; [|reflexivity]. intros _. split; [reflexivity|]. intros [|k]; constructor.
  - split; [discriminate|]. intros [Hlen _]. discriminate.
  - split; [discriminate|]. intros [Hlen _]. discriminate.
  - rewrite andb_true_iff, adj_equal_spec, IH. split.
    + intros [HP [Hlen Hk]]. split; [f_equal; exact Hlen|].
      intros [|k]; [exact HP | apply Hk].
    + intros [Hlen Hk]. split; [apply (Hk 0%nat)|]. split; [lia|].
      intros k. apply (Hk (S k)).
Qed.

Theorem g_equal_spec : forall g1 g2,
  g_equal g1 g2 = true <->
  (length g1 = length g2 /\ forall i, Permutation (g_out g1 i) (g_out g2 i)).
Proof.
  intros g1 g2. unfold g_equal, g_out.
  rewrite andb_true_iff, Nat.eqb_eq, adjs_equal_spec. split.
  - intros [_ [Hlen Hk]]. split; [exact Hlen|]. intros i. apply Hk.
  - intros [Hlen Hi]. split; [exact Hlen|]. split; [exact Hlen|].
    intros k. specialize (Hi (N.of_nat k)). rewrite Nat2N.id in Hi. exact Hi.
Qed.

(* ================================================================== *)
(* 3. SimplifyMulti                                                    *)
(* ================================================================== *)

Definition wsum (o : N) (l : wadj) : Q :=
  fold_right (fun e s => if (fst e =? o)%N then (snd e + s)%Q else s) 0%Q l.
Definition first_occ (l : list N) : list N :=
  fold_left (fun acc x => if existsb (N.eqb x) acc then acc else acc ++ [x]) l [].

Definition fo_step (acc : list N) (x : N) : list N :=
  if existsb (N.eqb x) acc then acc else acc ++ [x].
Definition sa_step (acc : wadj) (e : N * Q) : wadj := merge_edge acc (fst e) (snd e).

Lemma existsb_eqb_In : forall x l, existsb (N.eqb x) l = true <-> In x l.
Proof.
  intros x l. rewrite existsb_exists. split.
  - intros [y [Hin Heq]]. apply N.eqb_eq in Heq. subst y. exact Hin.
  - intros Hin. exists x. split; [exact Hin | apply N.eqb_refl].
Qed.

Lemma map_fst_merge : forall acc o w,
  map fst (merge_edge acc o w) = fo_step (map fst acc) o.
Proof.
  unfold fo_step. induction acc as [|[o' w'] t IH]; intros o w; simpl.
  - reflexivity.
  - rewrite (N.eqb_sym o o'). destruct (o' =? o)%N eqn:E; simpl.
    + reflexivity.
    + rewrite IH. destruct (existsb (N.eqb o) (map fst t)); reflexivity.
Qed.

Lemma map_fst_fold : forall l acc,
  map fst (fold_left sa_step l acc) = fold_left fo_step (map fst l) (map fst acc).
Proof.
  induction l as [|e l IH]; intros acc; simpl.
  - reflexivity.
  - rewrite IH. unfold sa_step. rewrite map_fst_merge. reflexivity.
Qed.

Lemma fo_step_NoDup : forall acc x, NoDup acc -> NoDup (fo_step acc x).
Proof.
  intros acc x Hnd. unfold fo_step. destruct (existsb (N.eqb x) acc) eqn:E.
  - exact Hnd.
  - eapply Permutation_NoDup; [apply Permutation_cons_append|].
    constructor; [|exact Hnd]. intros Hin. apply existsb_eqb_In in Hin.
    rewrite Hin in E. discriminate.
Qed.

Lemma fo_step_In : forall acc x o, In o (fo_step acc x) <-> In o acc \/ o = x.
Proof.
  intros acc x o. unfold fo_step. destruct (existsb (N.eqb x) acc) eqn:E.
  - apply existsb_eqb_In in E. split; [intros H; left; exact H|].
    intros [H|H]; [exact H | subst o; exact E].
  - rewrite in_app_iff. simpl. split.
    + intros [H|[H|[]]]; [left; exact H | right; symmetry; exact H].
    + intros [H|H]; [left; exact H | right; left; symmetry; exact H].
Qed.

Lemma fo_fold_NoDup : forall l acc, NoDup acc -> NoDup (fold_left fo_step l acc).
Proof.
  induction l as [|x l IH]; intros acc Hnd; simpl.
  - exact Hnd.
  - apply IH. apply fo_step_NoDup. exact Hnd.
Qed.

Lemma fo_fold_In : forall l acc o, In o (fold_left fo_step l acc) <-> In o acc \/ In o l.
Proof.
  induction l as [|x l IH]; intros acc o; simpl.
  - split; [intros H; left; exact H | intros [H|[]]; exact H].
  - rewrite IH, fo_step_In. split.
    + intros [[H|H]|H]; [left; exact H | right; left; symmetry; exact H | right; right; exact H].
    + intros [H|[H|H]]; [left; left; exact H | left; right; symmetry; exact H | right; exact H].
Qed.

(* ---- weights ---- *)
Lemma wsum_cons : forall o e l,
  (wsum o (e :: l) == (if (fst e =? o)%N then snd e else 0) + wsum o l)%Q.
Proof.
  intros o e l. unfold wsum. simpl. destruct (fst e =? o)%N.
  - reflexivity.
  - rewrite Qplus_0_l. reflexivity.
Qed.

Lemma wsum_app : forall o l1 l2, (wsum o (l1 ++ l2) == wsum o l1 + wsum o l2)%Q.
Proof.
  intros o l1 l2. induction l1 as [|e l1 IH].
  - simpl. unfold wsum at 2. simpl. rewrite Qplus_0_l. reflexivity.
  - rewrite <- app_comm_cons. rewrite !wsum_cons, IH. rewrite Qplus_assoc. reflexivity.
Qed.

Lemma wsum_merge : forall acc o' w' o,
  (wsum o (merge_edge acc o' w') == wsum o acc + (if (o' =? o)%N then w' else 0))%Q.
Proof.
  induction acc as [|[o1 w1] t IH]; intros o' w' o.
  - cbn [merge_edge]. rewrite wsum_cons. cbn [fst snd].
    unfold wsum. simpl. rewrite Qplus_comm. reflexivity.
  - cbn [merge_edge]. destruct (o1 =? o')%N eqn:E.
    + apply N.eqb_eq in E. subst o'. rewrite !wsum_cons. cbn [fst snd].
      destruct (o1 =? o)%N.
      * rewrite Qred_correct. ring.
      * ring.
    + rewrite !wsum_cons, IH. ring.
Qed.

Lemma wsum_fold : forall l acc o,
  (wsum o (fold_left sa_step l acc) == wsum o acc + wsum o l)%Q.
Proof.
  induction l as [|e l IH]; intros acc o; simpl fold_left.
  - unfold wsum at 3. simpl. rewrite Qplus_0_r. reflexivity.
  - rewrite IH. unfold sa_step. rewrite wsum_merge, wsum_cons. ring.
Qed.

Lemma wsum_notin : forall o l, ~ In o (map fst l) -> (wsum o l == 0)%Q.
Proof.
  intros o l. induction l as [|[o1 w1] t IH]; intros Hnin.
  - reflexivity.
  - rewrite wsum_cons. cbn [fst snd]. simpl in Hnin.
    destruct (o1 =? o)%N eqn:E.
    + apply N.eqb_eq in E. exfalso. apply Hnin. left. exact E.
    + rewrite IH. ring. intros Hin. apply Hnin. right. exact Hin.
Qed.

Lemma wsum_nodup : forall acc o w,
  NoDup (map fst acc) -> In (o, w) acc -> (wsum o acc == w)%Q.
Proof.
  induction acc as [|[o1 w1] t IH]; intros o w Hnd Hin.
  - destruct Hin.
  - simpl in Hnd. inversion Hnd as [|x xs Hnin Hnd' Heq]. subst x xs.
    rewrite wsum_cons. cbn [fst snd]. destruct Hin as [Heq|Hin].
    + inversion Heq. subst o1 w1. rewrite N.eqb_refl.
      rewrite (wsum_notin o t Hnin). ring.
    + assert (Hino : In o (map fst t)).
      { change o with (fst (o, w)). apply in_map. exact Hin. }
      destruct (o1 =? o)%N eqn:E.
      * apply N.eqb_eq in E. subst o1. contradiction.
      * rewrite (IH o w Hnd' Hin). ring.
Qed.

Theorem simplify_adj_spec : forall l,
  map fst (simplify_adj l) = first_occ (map fst l) /\
  NoDup (map fst (simplify_adj l)) /\
  (forall o, In o (map fst (simplify_adj l)) <-> In o (map fst l)) /\
  (forall o w, In (o, w) (simplify_adj l) -> (w == wsum o l)%Q).
Proof.
  intros l.
  assert (Hmap : map fst (simplify_adj l) = first_occ (map fst l)).
  { unfold simplify_adj, first_occ. apply (map_fst_fold l []). }
  assert (Hnd : NoDup (map fst (simplify_adj l))).
  { rewrite Hmap. unfold first_occ. apply (fo_fold_NoDup (map fst l) []). constructor. }
  split; [exact Hmap|]. split; [exact Hnd|]. split.
  - intros o. rewrite Hmap. unfold first_occ.
    rewrite (fo_fold_In (map fst l) [] o). simpl. split; [intros [[]|H]; exact H | intros H; right; exact H].
  - intros o w Hin. rewrite <- (wsum_nodup _ o w Hnd Hin).
    unfold simplify_adj. rewrite (wsum_fold l [] o). unfold wsum at 1. simpl. ring.
Qed.

Theorem simplify_multi_spec : forall g,
  length (simplify_multi g) = length g /\
  forall k l, nth_error g k = Some l -> nth_error (simplify_multi g) k = Some (simplify_adj l).
Proof.
  intros g. unfold simplify_multi. split.
  - apply map_length.
  - intros k l Hk. apply map_nth_error. exact Hk.
Qed.

Theorem unit_weights_wsum : forall l o,
  (wsum o (map (fun o => (o, 1%Q)) l) == inject_Z (Z.of_nat (count_occ N.eq_dec l o)))%Q.
Proof.
  intros l o. induction l as [|a l IH].
  - reflexivity.
  - rewrite map_cons, wsum_cons, IH. cbn [fst snd]. simpl count_occ.
    destruct (N.eq_dec a o) as [Heq|Hne].
    + subst a. rewrite N.eqb_refl. rewrite Nat2Z.inj_succ. unfold Z.succ.
      rewrite inject_Z_plus. simpl (inject_Z 1). ring.
    + apply N.eqb_neq in Hne. rewrite Hne. ring.
Qed.

Print Assumptions bi_in_count.
Print Assumptions bi_in_iff.
Print Assumptions bi_in_sorted.
Print Assumptions isort_perm_iff.
Print Assumptions Ns_eqb_eq.
Print Assumptions adj_equal_spec.
Print Assumptions g_equal_spec.
Print Assumptions simplify_adj_spec.
Print Assumptions simplify_multi_spec.
Print Assumptions unit_weights_wsum.

(* Proofs/Heap.v — frames, footprints, determinism and schedule-independence of
   array programs (C20). *)
From Coq Require Import List ZArith Bool Arith Lia.
From MM Require Import Model.Heap.
Import ListNotations.

Section HeapProofs.
Context {A : Type}.

(* ---------- basic facts ---------- *)
Lemma nth_set_nth_same (s : store A) l a : l < length s -> nth l (set_nth s l a) [] = a.
Proof. revert l. induction s as [|x s IH]; intros [|l] H; cbn in *; try lia; auto. apply IH. lia. Qed.
Lemma nth_set_nth_other (s : store A) l k a : k <> l -> nth k (set_nth s l a) [] = nth k s [].
Proof. revert l k. induction s as [|x s IH]; intros [|l] [|k] H; cbn; auto; try congruence. Qed.
Lemma length_set_nth (s : store A) l a : length (set_nth s l a) = length s.
Proof. revert l. induction s as [|x s IH]; intros [|l]; cbn; auto. Qed.
Lemma nth_app_old (s : store A) a l : l < length s -> nth l (s ++ [a]) [] = nth l s [].
Proof. intros H. now rewrite app_nth1. Qed.

Lemma mem_true_iff v l : mem v l = true <-> In v l.
Proof. induction l as [|w l IH]; cbn; [split; [discriminate|tauto]|].
  rewrite orb_true_iff, IH, Nat.eqb_eq. split; intros [H|H]; auto. Qed.

Lemma written_not_fresh (p : list (cmd A)) : forall fresh v, In v (written_args p fresh) -> mem v fresh = false.
Proof.
  induction p as [|c p IH]; intros fresh v H; cbn in H; [tauto|].
  destruct c as [dst f srcs|tgt f srcs].
  - apply IH in H. cbn in H. apply orb_false_iff in H. tauto.
  - destruct (mem tgt fresh) eqn:E.
    + now apply IH.
    + destruct H as [<-|H]; [exact E | now apply IH].
Qed.

(* ---------- the invariant of one run ---------- *)
(* n0 = size of the store when the routine was called; [fresh] = variables bound by the
   routine itself so far *)
Record Inv (n0 : nat) (fresh : list var) (e : env) (s : store A) : Prop := {
  inv_len   : n0 <= length s;
  inv_bound : forall v l, lookup e v = Some l -> l < length s;
  inv_fresh : forall v l, lookup e v = Some l -> mem v fresh = true -> n0 <= l;
  inv_alias : forall v w l, mem v fresh = true -> lookup e v = Some l -> lookup e w = Some l -> v = w
}.

Definition fresh_after (c : cmd A) (fresh : list var) : list var :=
  match c with Compute dst _ _ => dst :: fresh | Update _ _ _ => fresh end.

Lemma step_inv n0 fresh c e s :
  Inv n0 fresh e s -> let '(e', s') := step c (e, s) in Inv n0 (fresh_after c fresh) e' s'.
Proof.
  intros I. destruct c as [dst f srcs|tgt f srcs]; cbn.
  - split.
    + rewrite app_length. pose proof (inv_len _ _ _ _ I). lia.
    + intros v l H. cbn in H. rewrite app_length. cbn. destruct (Nat.eqb v dst).
      * injection H as <-. lia.
      * apply (inv_bound _ _ _ _ I) in H. lia.
    + intros v l H M. cbn in H, M. destruct (Nat.eqb v dst) eqn:E.
      * injection H as <-. apply (inv_len _ _ _ _ I).
      * cbn in M. now apply (inv_fresh _ _ _ _ I v l).
    + intros v w l M Hv Hw. cbn in Hv, Hw, M.
      destruct (Nat.eqb v dst) eqn:Ev; destruct (Nat.eqb w dst) eqn:Ew.
      * apply Nat.eqb_eq in Ev, Ew. congruence.
      * injection Hv as <-. apply (inv_bound _ _ _ _ I) in Hw. lia.
      * injection Hw as <-. apply (inv_bound _ _ _ _ I) in Hv. lia.
      * cbn in M. now apply (inv_alias _ _ _ _ I v w l).
  - destruct (lookup e tgt) as [l|] eqn:E; [|exact I]. split.
    + rewrite length_set_nth. apply (inv_len _ _ _ _ I).
    + intros v k H. rewrite length_set_nth. now apply (inv_bound _ _ _ _ I v).
    + apply (inv_fresh _ _ _ _ I).
    + apply (inv_alias _ _ _ _ I).
Qed.

(* non-fresh variables keep their binding *)
Lemma step_env_nonfresh c e s v : mem v (fresh_after c []) = false -> lookup (fst (step c (e, s))) v = lookup e v.
Proof.
  destruct c as [dst f srcs|tgt f srcs]; cbn.
  - intros H. apply orb_false_iff in H as [H _]. now rewrite H.
  - intros _. destruct (lookup e tgt); reflexivity.
Qed.

(* ---------- FRAME / FOOTPRINT ---------- *)
(* a pre-existing location that no written argument designates is unchanged *)
Theorem exec_footprint p : forall e s fresh n0 l,
  Inv n0 fresh e s -> l < n0 ->
  (forall v, In v (written_args p fresh) -> lookup e v <> Some l) ->
  nth l (snd (exec p (e, s))) [] = nth l s [].
Proof.
  induction p as [|c p IH]; intros e s fresh n0 l I Hl Hw; [reflexivity|].
  unfold exec. cbn [fold_left]. fold (exec p (step c (e, s))).
  pose proof (step_inv n0 fresh c e s I) as I'.
  destruct (step c (e, s)) as [e' s'] eqn:Es.
  destruct c as [dst f srcs|tgt f srcs]; cbn in Es.
  - injection Es as <- <-. cbn [fresh_after] in I'.
    rewrite (IH _ _ (dst :: fresh) n0 l I' Hl).
    + apply nth_app_old. pose proof (inv_len _ _ _ _ I). lia.
    + intros v Hv. pose proof (written_not_fresh _ _ _ Hv) as M. cbn in M. apply orb_false_iff in M as [M _].
      cbn. rewrite M. apply Hw. exact Hv.
  - cbn [fresh_after] in I'. cbn [written_args] in Hw.
    destruct (lookup e tgt) as [k|] eqn:E; injection Es as <- <-.
    + destruct (mem tgt fresh) eqn:M.
      * rewrite (IH _ _ fresh n0 l I' Hl Hw). apply nth_set_nth_other.
        pose proof (inv_fresh _ _ _ _ I tgt k E M). lia.
      * rewrite (IH _ _ fresh n0 l I' Hl); [|intros v Hv; apply Hw; now right].
        apply nth_set_nth_other. intros ->. apply (Hw tgt); [now left | exact E].
    + destruct (mem tgt fresh); apply (IH _ _ fresh n0 l I' Hl); intros v Hv; apply Hw; auto. now right.
Qed.

(* initial condition: every binding points into the store *)
Definition env_ok (e : env) (s : store A) : Prop := forall v l, lookup e v = Some l -> l < length s.

Lemma inv_initial e s : env_ok e s -> Inv (length s) [] e s.
Proof. intros H. split; [lia | exact H | intros v l _ M; discriminate | intros v w l M; discriminate]. Qed.

(* READ-ONLY routines leave every pre-existing array untouched *)
Corollary readonly_frame p e s : env_ok e s -> readonly p = true ->
  forall l, l < length s -> nth l (snd (exec p (e, s))) [] = nth l s [].
Proof.
  intros H R l Hl. apply (exec_footprint p e s [] (length s) l (inv_initial _ _ H) Hl).
  unfold readonly in R. destruct (written_args p []); [intros v []|discriminate].
Qed.

(* IN-PLACE routines change nothing but the arrays of their written arguments *)
Corollary inplace_footprint p e s : env_ok e s ->
  forall l, l < length s -> (forall v, In v (written_args p []) -> lookup e v <> Some l) ->
  nth l (snd (exec p (e, s))) [] = nth l s [].
Proof. intros H l Hl Hw. exact (exec_footprint p e s [] (length s) l (inv_initial _ _ H) Hl Hw). Qed.

(* ---------- DETERMINISM: the result is a function of the argument contents ---------- *)
Definition view_eq (e1 : env) (s1 : store A) (e2 : env) (s2 : store A) : Prop :=
  forall v, read s1 e1 v = read s2 e2 v.

(* targets of in-place updates are all fresh *)
Fixpoint ro (p : list (cmd A)) (fresh : list var) : bool :=
  match p with
  | [] => true
  | Compute dst _ _ :: r => ro r (dst :: fresh)
  | Update tgt _ _ :: r => mem tgt fresh && ro r fresh
  end.
Lemma ro_iff p : forall fresh, ro p fresh = true <-> written_args p fresh = [].
Proof.
  induction p as [|c p IH]; intros fresh; cbn; [tauto|]. destruct c as [dst f srcs|tgt f srcs].
  - apply IH.
  - destruct (mem tgt fresh); cbn; [apply IH | split; discriminate].
Qed.
Lemma readonly_ro p : readonly p = true <-> ro p [] = true.
Proof. rewrite ro_iff. unfold readonly. destruct (written_args p []); split; congruence. Qed.

Lemma read_after_compute e s dst a v :
  env_ok e s -> read (s ++ [a]) ((dst, length s) :: e) v = if Nat.eqb v dst then a else read s e v.
Proof.
  intros H. unfold read. cbn. destruct (Nat.eqb v dst).
  - rewrite app_nth2, Nat.sub_diag by lia. reflexivity.
  - destruct (lookup e v) as [l|] eqn:E; [|reflexivity]. apply nth_app_old. now apply (H v).
Qed.

Lemma map_read_eq e1 s1 e2 s2 srcs : view_eq e1 s1 e2 s2 -> map (read s1 e1) srcs = map (read s2 e2) srcs.
Proof. intros V. apply map_ext. intros v. apply V. Qed.

Lemma step_view n1 n2 fresh c e1 s1 e2 s2 :
  Inv n1 fresh e1 s1 -> Inv n2 fresh e2 s2 -> view_eq e1 s1 e2 s2 ->
  (forall v, lookup e1 v = None <-> lookup e2 v = None) ->
  ro [c] fresh = true ->
  let '(e1', s1') := step c (e1, s1) in let '(e2', s2') := step c (e2, s2) in
  view_eq e1' s1' e2' s2' /\ (forall v, lookup e1' v = None <-> lookup e2' v = None).
Proof.
  intros I1 I2 V D R. destruct c as [dst f srcs|tgt f srcs]; cbn in *.
  - split.
    + intros v. rewrite (read_after_compute e1 s1) by (exact (inv_bound _ _ _ _ I1)).
      rewrite (read_after_compute e2 s2) by (exact (inv_bound _ _ _ _ I2)).
      rewrite (map_read_eq _ _ _ _ srcs V). destruct (Nat.eqb v dst); [reflexivity | apply V].
    + intros v. cbn. destruct (Nat.eqb v dst); [split; discriminate | apply D].
  - rewrite andb_true_r in R.
    destruct (lookup e1 tgt) as [l1|] eqn:E1; destruct (lookup e2 tgt) as [l2|] eqn:E2.
    + split; [|exact D]. intros v.
      rewrite (map_read_eq _ _ _ _ srcs V). unfold read at 1 3.
      destruct (lookup e1 v) as [k1|] eqn:K1; destruct (lookup e2 v) as [k2|] eqn:K2.
      * destruct (Nat.eq_dec k1 l1) as [->|N1].
        -- assert (tgt = v) as <- by (apply (inv_alias _ _ _ _ I1 tgt v l1 R E1 K1)).
           rewrite E2 in K2. injection K2 as <-.
           rewrite !nth_set_nth_same; [reflexivity | apply (inv_bound _ _ _ _ I2 tgt), E2 | apply (inv_bound _ _ _ _ I1 tgt), E1].
        -- destruct (Nat.eq_dec k2 l2) as [->|N2].
           ++ assert (tgt = v) as <- by (apply (inv_alias _ _ _ _ I2 tgt v l2 R E2 K2)).
              rewrite E1 in K1. injection K1 as <-. congruence.
           ++ rewrite !nth_set_nth_other by assumption. specialize (V v). unfold read in V. now rewrite K1, K2 in V.
      * apply D in K2. congruence.
      * apply D in K1. congruence.
      * reflexivity.
    + apply D in E2. congruence.
    + apply D in E1. congruence.
    + split; assumption.
Qed.

Theorem exec_deterministic p : forall fresh n1 n2 e1 s1 e2 s2,
  Inv n1 fresh e1 s1 -> Inv n2 fresh e2 s2 -> view_eq e1 s1 e2 s2 ->
  (forall v, lookup e1 v = None <-> lookup e2 v = None) ->
  ro p fresh = true ->
  let '(e1', s1') := exec p (e1, s1) in let '(e2', s2') := exec p (e2, s2) in view_eq e1' s1' e2' s2'.
Proof.
  induction p as [|c p IH]; intros fresh n1 n2 e1 s1 e2 s2 I1 I2 V D R; [exact V|].
  unfold exec. cbn [fold_left]. fold (exec p (step c (e1, s1))). fold (exec p (step c (e2, s2))).
  assert (Rc : ro [c] fresh = true /\ ro p (fresh_after c fresh) = true).
  { destruct c as [dst f srcs|tgt f srcs]; cbn in *; [auto|]. apply andb_true_iff in R as [R1 R2]. now rewrite R1. }
  destruct Rc as [Rc Rp].
  pose proof (step_inv n1 fresh c e1 s1 I1) as I1'. pose proof (step_inv n2 fresh c e2 s2 I2) as I2'.
  pose proof (step_view n1 n2 fresh c e1 s1 e2 s2 I1 I2 V D Rc) as SV.
  destruct (step c (e1, s1)) as [e1' s1']. destruct (step c (e2, s2)) as [e2' s2'].
  destruct SV as [V' D']. exact (IH _ n1 n2 _ _ _ _ I1' I2' V' D' Rp).
Qed.

(* read-only routines called on equal argument contents return equal results, whatever the
   rest of the two stores looks like (i.e. whatever calls were made before) *)
Corollary readonly_deterministic p e1 s1 e2 s2 : env_ok e1 s1 -> env_ok e2 s2 ->
  readonly p = true -> view_eq e1 s1 e2 s2 -> (forall v, lookup e1 v = None <-> lookup e2 v = None) ->
  forall v, read (snd (exec p (e1, s1))) (fst (exec p (e1, s1))) v = read (snd (exec p (e2, s2))) (fst (exec p (e2, s2))) v.
Proof.
  intros H1 H2 R V D. apply readonly_ro in R.
  pose proof (exec_deterministic p [] _ _ e1 s1 e2 s2 (inv_initial _ _ H1) (inv_initial _ _ H2) V D R) as X.
  destruct (exec p (e1, s1)), (exec p (e2, s2)). exact X.
Qed.

(* ---------- SCHEDULES: concurrent read-only calls on shared inputs ---------- *)
Record thread := mkT { t_env : env; t_fresh : list var; t_rest : list (cmd A) }.
Definition gstate := (store A * list thread)%type.

Definition upd {B} (l : list B) (i : nat) (a : B) : list B :=
  firstn i l ++ match skipn i l with [] => [] | _ :: t => a :: t end.

Lemma nth_error_upd_same {B} (l : list B) i a x : nth_error l i = Some x -> nth_error (upd l i a) i = Some a.
Proof. revert i. induction l as [|y l IH]; intros [|i] H; cbn in *; try discriminate; auto. apply (IH i H). Qed.
Lemma upd_cons_S {B} (y : B) l i a : upd (y :: l) (S i) a = y :: upd l i a.
Proof. reflexivity. Qed.
Lemma upd_nil {B} i (a : B) : upd [] i a = [].
Proof. destruct i; reflexivity. Qed.
Lemma nth_error_upd_other {B} (l : list B) i j a : i <> j -> nth_error (upd l i a) j = nth_error l j.
Proof. revert i j. induction l as [|y l IH]; intros i j H.
  - now rewrite upd_nil.
  - destruct i as [|i]; destruct j as [|j]; try congruence; try reflexivity.
    rewrite upd_cons_S. cbn [nth_error]. apply IH. congruence. Qed.
Lemma length_upd {B} (l : list B) i a : length (upd l i a) = length l.
Proof. revert i. induction l as [|y l IH]; intros i; [now rewrite upd_nil|]. destruct i as [|i]; [reflexivity|].
  rewrite upd_cons_S. cbn [length]. now rewrite IH. Qed.

(* one scheduling decision: thread i executes its next command on the SHARED store *)
Definition gstep (i : nat) (g : gstate) : gstate :=
  let '(s, ths) := g in
  match nth_error ths i with
  | Some th =>
      match t_rest th with
      | c :: r => let '(e', s') := step c (t_env th, s) in
                  (s', upd ths i (mkT e' (fresh_after c (t_fresh th)) r))
      | [] => g
      end
  | None => g
  end.
Definition grun (sched : list nat) (g : gstate) : gstate := fold_left (fun g i => gstep i g) sched g.

(* what one thread's solo (sequential) run from the initial store produces *)
Definition TInv (n0 : nat) (s : store A) (th : thread) (solo : env * store A) : Prop :=
  Inv n0 (t_fresh th) (t_env th) s /\ ro (t_rest th) (t_fresh th) = true /\
  exists e' s', Inv n0 (t_fresh th) e' s' /\ view_eq (t_env th) s e' s' /\
                (forall v, lookup (t_env th) v = None <-> lookup e' v = None) /\
                exec (t_rest th) (e', s') = solo.
(* arrays a thread allocated itself are referenced by no other thread *)
Definition Sep (th tj : thread) : Prop :=
  forall v l, mem v (t_fresh th) = true -> lookup (t_env th) v = Some l -> forall w, lookup (t_env tj) w <> Some l.

Definition GInv (n0 : nat) (solos : list (env * store A)) (g : gstate) : Prop :=
  let '(s, ths) := g in
  (forall i th, nth_error ths i = Some th -> exists so, nth_error solos i = Some so /\ TInv n0 s th so) /\
  (forall i j th tj, i <> j -> nth_error ths i = Some th -> nth_error ths j = Some tj -> Sep th tj).

Lemma read_app_old e (s : store A) a v : env_ok e s -> read (s ++ [a]) e v = read s e v.
Proof. intros H. unfold read. destruct (lookup e v) as [l|] eqn:E; [|reflexivity]. apply nth_app_old. now apply (H v). Qed.

Lemma gstep_inv n0 solos i g : GInv n0 solos g -> GInv n0 solos (gstep i g).
Proof.
  destruct g as [s ths]. intros [HT HS]. unfold gstep.
  destruct (nth_error ths i) as [th|] eqn:Ei; [|split; assumption].
  destruct (t_rest th) as [|c r] eqn:Er; [split; assumption|].
  destruct (HT i th Ei) as (so & Eso & I & R & e' & s' & I' & V & D & X).
  rewrite Er in R, X.
  assert (Rc : ro [c] (t_fresh th) = true /\ ro r (fresh_after c (t_fresh th)) = true).
  { destruct c as [dst f srcs|tgt f srcs]; cbn in *; [auto|]. apply andb_true_iff in R as [R1 R2]. now rewrite R1. }
  destruct Rc as [Rc Rr].
  pose proof (step_inv n0 _ c _ _ I) as SI. pose proof (step_inv n0 _ c _ _ I') as SI'.
  pose proof (step_view n0 n0 _ c _ _ _ _ I I' V D Rc) as SV.
  destruct (step c (t_env th, s)) as [e1 s1] eqn:E1. destruct (step c (e', s')) as [e2 s2] eqn:E2.
  destruct SV as [V1 D1].
  (* facts about the step of thread i as seen by the others *)
  assert (Hlen : length s <= length s1).
  { destruct c as [dst f srcs|tgt f srcs]; cbn in E1.
    - injection E1 as <- <-. rewrite app_length. lia.
    - destruct (lookup (t_env th) tgt); injection E1 as <- <-; rewrite ?length_set_nth; lia. }
  split.
  - intros j tj Ej. destruct (Nat.eq_dec i j) as [<-|N].
    + rewrite (nth_error_upd_same _ _ _ _ Ei) in Ej. injection Ej as <-. exists so. split; [exact Eso|].
      cbn [t_env t_fresh t_rest]. split; [exact SI|]. split; [exact Rr|].
      exists e2, s2. split; [exact SI'|]. split; [exact V1|]. split; [exact D1|].
      rewrite <- X. unfold exec at 2. cbn [fold_left]. rewrite E2. reflexivity.
    + rewrite (nth_error_upd_other _ _ _ _ N) in Ej.
      destruct (HT j tj Ej) as (sj & Esj & Ij & Rj & ej' & sj' & Ij' & Vj & Dj & Xj).
      exists sj. split; [exact Esj|]. split; [|split; [exact Rj|]].
      * (* thread j's invariant on the new store *)
        split.
        -- pose proof (inv_len _ _ _ _ Ij). lia.
        -- intros v l H. pose proof (inv_bound _ _ _ _ Ij v l H). lia.
        -- apply (inv_fresh _ _ _ _ Ij).
        -- apply (inv_alias _ _ _ _ Ij).
      * exists ej', sj'. split; [exact Ij'|]. split; [|split; [exact Dj | exact Xj]].
        intros v. rewrite <- (Vj v).
        destruct c as [dst f srcs|tgt f srcs]; cbn in E1.
        -- injection E1 as <- <-. apply read_app_old. exact (inv_bound _ _ _ _ Ij).
        -- destruct (lookup (t_env th) tgt) as [l|] eqn:El; injection E1 as <- <-; [|reflexivity].
           unfold read. destruct (lookup (t_env tj) v) as [k|] eqn:Ek; [|reflexivity].
           apply nth_set_nth_other. intros ->.
           cbn in Rc. rewrite andb_true_r in Rc.
           exact (HS i j th tj N Ei Ej tgt l Rc El v Ek).
  - intros a b ta tb Nab Ea Eb.
    destruct (Nat.eq_dec i a) as [<-|Na]; destruct (Nat.eq_dec i b) as [<-|Nb]; try congruence.
    + (* a is the stepping thread *)
      rewrite (nth_error_upd_same _ _ _ _ Ei) in Ea. injection Ea as <-.
      rewrite (nth_error_upd_other _ _ _ _ Nb) in Eb.
      destruct (HT b tb Eb) as (sb & _ & Ib & _).
      intros v l M Hv w Hw. cbn [t_env t_fresh] in *.
      destruct c as [dst f srcs|tgt f srcs]; cbn in E1.
      * injection E1 as <- <-. cbn in M, Hv. destruct (Nat.eqb v dst).
        -- injection Hv as <-. pose proof (inv_bound _ _ _ _ Ib w _ Hw). lia.
        -- cbn in M. exact (HS i b th tb Nb Ei Eb v l M Hv w Hw).
      * cbn in M. destruct (lookup (t_env th) tgt); injection E1 as <- <-; exact (HS i b th tb Nb Ei Eb v l M Hv w Hw).
    + (* b is the stepping thread *)
      rewrite (nth_error_upd_same _ _ _ _ Ei) in Eb. injection Eb as <-.
      rewrite (nth_error_upd_other _ _ _ _ Na) in Ea.
      destruct (HT a ta Ea) as (sa & _ & Ia & _).
      intros v l M Hv w Hw. cbn [t_env] in Hw.
      destruct c as [dst f srcs|tgt f srcs]; cbn in E1.
      * injection E1 as <- <-. cbn in Hw. destruct (Nat.eqb w dst).
        -- injection Hw as <-. pose proof (inv_bound _ _ _ _ Ia v _ Hv). lia.
        -- exact (HS a i ta th Nab Ea Ei v l M Hv w Hw).
      * destruct (lookup (t_env th) tgt); injection E1 as <- <-; exact (HS a i ta th Nab Ea Ei v l M Hv w Hw).
    + rewrite (nth_error_upd_other _ _ _ _ Na) in Ea. rewrite (nth_error_upd_other _ _ _ _ Nb) in Eb.
      exact (HS a b ta tb Nab Ea Eb).
Qed.

(* initial global state: n threads, each about to run a read-only program on arguments that
   live in the shared initial store *)
Definition init_threads (calls : list (env * list (cmd A))) : list thread := map (fun c => mkT (fst c) [] (snd c)) calls.
Definition solo_runs (s0 : store A) (calls : list (env * list (cmd A))) : list (env * store A) :=
  map (fun c => exec (snd c) (fst c, s0)) calls.

Lemma ginv_init s0 calls :
  (forall c, In c calls -> env_ok (fst c) s0 /\ readonly (snd c) = true) ->
  GInv (length s0) (solo_runs s0 calls) (s0, init_threads calls).
Proof.
  intros H. split.
  - intros i th Ei. unfold init_threads in Ei. rewrite nth_error_map in Ei.
    destruct (nth_error calls i) as [c|] eqn:Ec; [|discriminate]. injection Ei as <-.
    exists (exec (snd c) (fst c, s0)). split; [unfold solo_runs; now rewrite nth_error_map, Ec|].
    destruct (H c (nth_error_In _ _ Ec)) as [Hok Hro]. cbn [t_env t_fresh t_rest].
    split; [now apply inv_initial|]. split; [now apply readonly_ro|].
    exists (fst c), s0. split; [now apply inv_initial|]. split; [intros v; reflexivity|]. split; [tauto|reflexivity].
  - intros i j th tj _ Ei _ v l M. unfold init_threads in Ei. rewrite nth_error_map in Ei.
    destruct (nth_error calls i); [|discriminate]. injection Ei as <-. discriminate.
Qed.

(* For EVERY schedule: a thread that has finished sees, through its variables, exactly what
   its sequential run on the initial store would have produced; and the shared initial
   arrays are untouched. *)
Theorem schedule_independent s0 calls sched :
  (forall c, In c calls -> env_ok (fst c) s0 /\ readonly (snd c) = true) ->
  let '(s, ths) := grun sched (s0, init_threads calls) in
  forall i th c, nth_error ths i = Some th -> nth_error calls i = Some c -> t_rest th = [] ->
    forall v, read s (t_env th) v = read (snd (exec (snd c) (fst c, s0))) (fst (exec (snd c) (fst c, s0))) v.
Proof.
  intros H. pose proof (ginv_init s0 calls H) as G.
  assert (GInv (length s0) (solo_runs s0 calls) (grun sched (s0, init_threads calls))) as G'.
  { unfold grun. revert G. generalize (s0, init_threads calls). induction sched as [|i sched IH]; intros g G; cbn [fold_left]; [exact G|].
    apply IH, gstep_inv, G. }
  destruct (grun sched (s0, init_threads calls)) as [s ths]. destruct G' as [HT _].
  intros i th c Ei Ec Hr v. destruct (HT i th Ei) as (so & Eso & _ & _ & e' & s' & _ & V & _ & X).
  unfold solo_runs in Eso. rewrite nth_error_map, Ec in Eso. injection Eso as <-.
  rewrite Hr in X. cbn in X. rewrite <- X. apply V.
Qed.

End HeapProofs.

(* every routine of the table: the read-only ones are read-only, the in-place ones write
   only their designated arguments *)
Lemma routines_effects :
  map (fun r => (r_id r, footprint r)) routines =
  [(1%Z, []); (2%Z, []); (3%Z, []); (4%Z, []); (5%Z, []); (6%Z, []); (7%Z, []); (8%Z, []); (9%Z, []); (10%Z, []);
   (11%Z, []); (12%Z, []);
   (20%Z, [0; 1]); (21%Z, [0]); (22%Z, [0]); (23%Z, [0]); (24%Z, [0]); (25%Z, [2]); (30%Z, [])].
Proof. reflexivity. Qed.

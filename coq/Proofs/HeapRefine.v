(* Proofs/HeapRefine.v — REFINEMENT of array programs (C20): what [exec] computes through
   the store (locations, allocation, in-place updates, possibly aliased arguments) equals what
   the store-free value semantics [pexec] computes from the contents the arguments had at the
   call, and the store afterwards differs from the store before only in the locations of the
   written arguments, which hold exactly the values [pexec] assigns to them.  Generic theorem
   once ([exec_refines], [routine_refines]); instantiated per routine in Proofs/HeapRoutines.v. *)
From Coq Require Import List ZArith Bool Arith Lia.
From MM Require Import Model.Heap Proofs.Heap.
Import ListNotations.

Section Refine.
Context {A : Type}.

(* argument v shares its array with no other variable *)
Definition unaliased (e : env) (v : var) : Prop :=
  forall w l, lookup e v = Some l -> lookup e w = Some l -> w = v.

Lemma written_args_not_dst (p : list (cmd A)) : forall fresh v, In v (written_args p fresh) -> ~ In v fresh.
Proof. intros fresh v H. apply written_not_fresh in H. intros I. apply mem_true_iff in I. congruence. Qed.

(* the invariant carried through a run: the store view equals the value environment *)
Lemma exec_refines_gen (p : list (cmd A)) : forall fresh bound n0 e (s : store A) (r : venv A),
  Inv n0 fresh e s ->
  (forall v, read s e v = r v) ->
  (forall v, mem v bound = true -> lookup e v <> None) ->
  targets_bound p bound = true ->
  (forall v, In v (written_args p fresh) -> unaliased e v) ->
  forall v, read (snd (exec p (e, s))) (fst (exec p (e, s))) v = pexec p r v.
Proof.
  induction p as [|c p IH]; intros fresh bound n0 e s r I V B T U v; [apply V|].
  unfold exec, pexec. cbn [fold_left]. fold (exec p (step c (e, s))). fold (pexec p (pstep c r)).
  pose proof (step_inv n0 fresh c e s I) as I'.
  destruct c as [dst f srcs|tgt f srcs]; cbn [step fresh_after] in *.
  - (* Compute *)
    cbn [targets_bound written_args] in T, U.
    apply (IH (dst :: fresh) (dst :: bound) n0); [exact I' | | | exact T | ].
    + intros w. rewrite (read_after_compute e s) by (exact (inv_bound _ _ _ _ I)).
      cbn [pstep]. unfold vupd. rewrite (map_ext _ _ V). destruct (Nat.eqb w dst); [reflexivity | apply V].
    + intros w M. cbn in M. cbn [lookup]. destruct (Nat.eqb w dst); [discriminate|]. cbn in M. now apply B.
    + intros w Hw. pose proof (written_args_not_dst _ _ _ Hw) as ND.
      assert (Nd : Nat.eqb w dst = false) by (apply Nat.eqb_neq; intros ->; apply ND; now left).
      intros x l Hl Hx. cbn [lookup] in Hl, Hx. rewrite Nd in Hl.
      destruct (Nat.eqb x dst) eqn:Ex.
      * injection Hx as <-. pose proof (inv_bound _ _ _ _ I w _ Hl). lia.
      * exact (U w Hw x l Hl Hx).
  - (* Update *)
    cbn [targets_bound] in T. apply andb_true_iff in T as [Tb T].
    destruct (lookup e tgt) as [l|] eqn:E; [|exfalso; exact (B tgt Tb E)].
    assert (Ul : forall w, lookup e w = Some l -> w = tgt).
    { intros w Hw. cbn [written_args] in U. destruct (mem tgt fresh) eqn:M.
      - symmetry. exact (inv_alias _ _ _ _ I tgt w l M E Hw).
      - exact (U tgt (or_introl eq_refl) w l E Hw). }
    apply (IH fresh bound n0); [exact I' | | | exact T | ].
    + intros w. cbn [pstep]. unfold vupd. rewrite (map_ext _ _ V).
      unfold read. destruct (lookup e w) as [k|] eqn:K.
      * destruct (Nat.eq_dec k l) as [->|N].
        -- rewrite (Ul w K), Nat.eqb_refl. apply nth_set_nth_same. exact (inv_bound _ _ _ _ I tgt l E).
        -- rewrite nth_set_nth_other by exact N.
           destruct (Nat.eqb w tgt) eqn:Ew.
           ++ apply Nat.eqb_eq in Ew. subst w. congruence.
           ++ rewrite <- V. unfold read. now rewrite K.
      * destruct (Nat.eqb w tgt) eqn:Ew.
        -- apply Nat.eqb_eq in Ew. subst w. congruence.
        -- rewrite <- V. unfold read. now rewrite K.
    + exact B.
    + intros w Hw. apply U. cbn [written_args]. destruct (mem tgt fresh); [exact Hw | now right].
Qed.

(* variables that no Compute re-binds keep their binding *)
Lemma exec_env_unshadowed (p : list (cmd A)) : forall e (s : store A) vs v,
  no_shadow p vs = true -> In v vs -> lookup (fst (exec p (e, s))) v = lookup e v.
Proof.
  induction p as [|c p IH]; intros e s vs v N Hv; [reflexivity|].
  unfold exec. cbn [fold_left]. fold (exec p (step c (e, s))).
  destruct c as [dst f srcs|tgt f srcs]; cbn [step no_shadow] in *.
  - apply andb_true_iff in N as [Nd N]. rewrite (IH _ _ vs v N Hv). cbn [lookup].
    destruct (Nat.eqb v dst) eqn:Ev; [|reflexivity].
    apply Nat.eqb_eq in Ev. subst dst. apply mem_true_iff in Hv. rewrite Hv in Nd. discriminate.
  - destruct (lookup e tgt); apply (IH _ _ vs v N Hv).
Qed.

Lemma targets_bound_mono (p : list (cmd A)) : forall b b', (forall v, mem v b = true -> mem v b' = true) ->
  targets_bound p b = true -> targets_bound p b' = true.
Proof.
  induction p as [|c p IH]; intros b b' S T; [reflexivity|]. destruct c as [dst f srcs|tgt f srcs]; cbn in *.
  - apply (IH (dst :: b)); [|exact T]. intros v. cbn. destruct (Nat.eqb v dst); cbn; auto.
  - apply andb_true_iff in T as [T1 T2]. rewrite (S _ T1). cbn. exact (IH b b' S T2).
Qed.

(* ---------- the generic refinement theorem for array programs ---------- *)
Theorem exec_refines (p : list (cmd A)) (args : list var) e (s : store A) :
  env_ok e s ->
  (forall v, In v args -> lookup e v <> None) ->
  targets_bound p args = true ->
  (forall v, In v (written_args p []) -> unaliased e v) ->
  forall v, read (snd (exec p (e, s))) (fst (exec p (e, s))) v = pexec p (read s e) v.
Proof.
  intros H B T U. apply (exec_refines_gen p [] args (length s) e s (read s e) (inv_initial _ _ H)); auto.
  intros v M. apply B. now apply mem_true_iff.
Qed.

(* ---------- and for routines (program + result function) ---------- *)
(* the routine's value semantics, as a function of the argument contents *)
Definition v_pure {R} (r : vroutine A R) (rho : venv A) : R := v_rfn r (map (pexec (v_prog r) rho) (v_rvars r)).

Theorem routine_refines {R} (r : vroutine A R) e (s : store A) :
  env_ok e s ->
  (forall v, In v (v_args r) -> lookup e v <> None) ->
  v_static_ok r = true ->
  (forall v, In v (written_args (v_prog r) []) -> unaliased e v) ->
  (* RESULT: what the run through the store returns is the value semantics applied to the
     argument contents at the call *)
  fst (v_run r e s) = v_pure r (read s e) /\
  (* FRAME: every pre-existing location that is not the array of a written argument is unchanged *)
  (forall l, l < length s -> (forall v, In v (written_args (v_prog r) []) -> lookup e v <> Some l) ->
     nth l (snd (v_run r e s)) [] = nth l s []) /\
  (* FOOTPRINT VALUE: afterwards the array of every argument holds exactly its value-semantics value *)
  (forall v l, In v (v_args r) -> lookup e v = Some l ->
     nth l (snd (v_run r e s)) [] = pexec (v_prog r) (read s e) v).
Proof.
  intros H B S U. unfold v_static_ok in S. apply andb_true_iff in S as [T N].
  pose proof (exec_refines (v_prog r) (v_args r) e s H B T U) as X.
  unfold v_run, v_pure. cbn [fst snd]. split; [|split].
  - f_equal. apply map_ext. exact X.
  - intros l Hl W. exact (inplace_footprint (v_prog r) e s H l Hl W).
  - intros v l Hv El. rewrite <- X. unfold read.
    rewrite (exec_env_unshadowed (v_prog r) e s _ v N Hv), El. reflexivity.
Qed.

(* ---------- the two statement shapes instantiated per routine ---------- *)
Definition args_bound {R} (r : vroutine A R) (e : env) : Prop := forall v, In v (v_args r) -> lookup e v <> None.

(* READ-ONLY routine r refines the pure function m of the argument contents: for every store
   and every binding of the arguments (aliased or not) the result is m of the contents at the
   call and every array that existed before the call is unchanged *)
Definition refines_readonly {R} (r : vroutine A R) (pre : venv A -> Prop) (m : venv A -> R) : Prop :=
  forall e (s : store A), env_ok e s -> args_bound r e -> pre (read s e) ->
    fst (v_run r e s) = m (read s e) /\
    forall l, l < length s -> nth l (snd (v_run r e s)) [] = nth l s [].

(* IN-PLACE routine r refines m and the updates W = [(argument, its new contents as a pure
   function of the contents at the call)]: the result is m, every pre-existing array other
   than those of the W-arguments is unchanged, and each W-argument's array holds exactly the
   stated new contents.  Premise: the W-arguments are not aliased with other variables. *)
Definition refines_inplace {R} (r : vroutine A R) (pre : venv A -> Prop) (m : venv A -> R)
    (W : list (var * (venv A -> arr A))) : Prop :=
  forall e (s : store A), env_ok e s -> args_bound r e -> pre (read s e) ->
    (forall v, In v (map fst W) -> unaliased e v) ->
    fst (v_run r e s) = m (read s e) /\
    (forall l, l < length s -> (forall v, In v (map fst W) -> lookup e v <> Some l) ->
       nth l (snd (v_run r e s)) [] = nth l s []) /\
    (forall v mv l, In (v, mv) W -> lookup e v = Some l -> nth l (snd (v_run r e s)) [] = mv (read s e)).

Lemma no_shadow_nil (p : list (cmd A)) : no_shadow p [] = true.
Proof. induction p as [|[dst f srcs|tgt f srcs] p IH]; cbn; auto. Qed.

Lemma no_shadow_In (p : list (cmd A)) vs v : no_shadow p vs = true -> In v vs -> no_shadow p [v] = true.
Proof.
  induction p as [|[dst f srcs|tgt f srcs] p IH]; cbn; auto. intros N Hv.
  apply andb_true_iff in N as [N1 N2]. rewrite (IH N2 Hv), andb_true_r, orb_false_r.
  destruct (Nat.eqb dst v) eqn:E; [|reflexivity]. apply Nat.eqb_eq in E. subst dst.
  apply mem_true_iff in Hv. rewrite Hv in N1. discriminate.
Qed.

Theorem refines_readonly_intro {R} (r : vroutine A R) (pre : venv A -> Prop) (m : venv A -> R) :
  targets_bound (v_prog r) (v_args r) = true -> readonly (v_prog r) = true ->
  (forall rho, pre rho -> v_pure r rho = m rho) -> refines_readonly r pre m.
Proof.
  intros T RO P e s H B Pre. unfold readonly in RO. destruct (written_args (v_prog r) []) eqn:W; [|discriminate].
  pose proof (exec_refines (v_prog r) (v_args r) e s H B T) as X. rewrite W in X. specialize (X (fun v (F : False) => match F with end)).
  split.
  - rewrite <- (P _ Pre). unfold v_run, v_pure. cbn [fst]. f_equal. apply map_ext. exact X.
  - intros l Hl. unfold v_run. cbn [snd]. apply (inplace_footprint (v_prog r) e s H l Hl). rewrite W. intros v [].
Qed.

Theorem refines_inplace_intro {R} (r : vroutine A R) (pre : venv A -> Prop) (m : venv A -> R)
    (W : list (var * (venv A -> arr A))) :
  v_static_ok r = true ->
  (forall v, In v (written_args (v_prog r) []) -> In v (map fst W)) ->
  (forall v, In v (map fst W) -> In v (v_args r)) ->
  (forall rho, pre rho -> v_pure r rho = m rho) ->
  (forall v mv, In (v, mv) W -> forall rho, pre rho -> pexec (v_prog r) rho v = mv rho) ->
  refines_inplace r pre m W.
Proof.
  intros S Wr Wa P PW e s H B Pre U.
  destruct (routine_refines r e s H B S (fun v Hv => U v (Wr v Hv))) as (X & F & V).
  split; [rewrite X; apply P, Pre|]. split.
  - intros l Hl N. apply F; [exact Hl|]. intros v Hv. apply N, Wr, Hv.
  - intros v mv l Hv El. rewrite <- (PW v mv Hv _ Pre). apply V; [|exact El].
    apply Wa. apply in_map_iff. exists (v, mv). split; [reflexivity | exact Hv].
Qed.

End Refine.

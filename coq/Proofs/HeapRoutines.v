(* Proofs/HeapRoutines.v — refines_<op> for every valued array program of
   Model/HeapRoutines.v (C20): instantiations of Proofs.HeapRefine.refines_readonly_intro /
   refines_inplace_intro.  Each theorem says: for every store and every binding of the
   arguments, running the array program through the store returns what the NUMERIC MODEL of
   the routine (the one the routine's own property uses) returns on the argument contents at
   the call, and leaves every pre-existing array unchanged (read-only routines) or changes
   only the designated arrays, to exactly the model's new value (in-place operations). *)
From Coq Require Import List ZArith QArith Bool Arith Lia Permutation.
From MM Require Import Base.Num Model.Heap Proofs.Heap Proofs.HeapRefine Model.HeapRoutines.
From MM Require Base.GASort Base.GESort Model.Sample Model.Quantile Model.Utest Model.QuantileCI
  Model.Fit Model.Udist Model.Graph Model.Kde Model.Stream Model.Marks Model.Order Model.Scale Model.Ticks.
Import ListNotations.
Local Open Scope nat_scope.

Ltac vcomp := cbn [v_pure v_prog v_rvars v_rfn v_args pexec pstep vupd fold_left map nth Nat.eqb
                   L1 L2 L3 a0 a1 a2 a3 copy app];
  unfold L1, L2, L3, copy, a0, a1, a2, a3; cbn [nth].
Definition no_pre {A} : venv A -> Prop := fun _ => True.

(* ---------- 1. MannWhitneyUTest ---------- *)
Theorem refines_mw_h {A} (cmp : A -> A -> comparison) cdf EL TL alt :
  refines_readonly (mw_h cmp cdf EL TL alt) no_pre
    (fun rho => Utest.mw_test cmp cdf EL TL (rho 0) (rho 1) alt).
Proof. apply refines_readonly_intro; [reflexivity | reflexivity | intros rho _; reflexivity]. Qed.

(* ---------- 2-3. Quantile, IQR, Sort ---------- *)
Lemma map_fst_insert p l :
  map fst (GASort.insert (Q * Q) GASort.pair_leb p l) = GASort.insert Q Qle_bool (fst p) (map fst l).
Proof.
  induction l as [|h t IH]; [reflexivity|]. cbn. unfold GASort.pair_leb at 1.
  destruct (Qle_bool (fst p) (fst h)); cbn; [reflexivity | now rewrite IH].
Qed.
Lemma map_fst_psort ps : map fst (GASort.psort ps) = GASort.Qsort (map fst ps).
Proof.
  unfold GASort.psort, GASort.Qsort. induction ps as [|p t IH]; [reflexivity|].
  cbn. now rewrite map_fst_insert, IH.
Qed.
Lemma map_fst_combine {X Y} (xs : list X) (ys : list Y) : length xs = length ys -> map fst (combine xs ys) = xs.
Proof. revert ys. induction xs as [|x xs IH]; intros [|y ys] H; cbn in *; try discriminate; auto. f_equal. apply IH. lia. Qed.

(* the precondition of the weighted variants: one weight per value (a Sample invariant) *)
Definition wlen (w : bool) : venv Q -> Prop := fun rho => w = true -> length (rho 0) = length (rho 1).

(* what Copy().Sort() leaves in the two fresh arrays is the model's sample_sort *)
Lemma copy_sort_is_sample_sort w rho : wlen w rho ->
  Sample.sample_sort (Sample.sample_copy (Sample.mkSample (rho 0) (wopt w (rho 1)) false)) =
  Sample.mkSample (pexec (copy_sort_cmds w) rho 10) (wopt w (pexec (copy_sort_cmds w) rho 11)) true.
Proof.
  intros L. destruct w; unfold copy_sort_cmds, sort_sample_cmds; vcomp; unfold Sample.sample_sort, Sample.sample_copy; cbn.
  - rewrite map_fst_psort, (map_fst_combine _ _ (L eq_refl)). reflexivity.
  - reflexivity.
Qed.

Theorem refines_quantile_h w sorted q :
  refines_readonly (quantile_h w sorted q) (wlen w)
    (fun rho => Quantile.quantile (Sample.mkSample (rho 0) (wopt w (rho 1)) sorted) q).
Proof.
  apply refines_readonly_intro; [destruct sorted, w; reflexivity | destruct sorted, w; reflexivity |].
  intros rho L. unfold Quantile.quantile, Quantile.quantile_c. destruct sorted.
  - reflexivity.
  - cbn [Sample.s_sorted]. rewrite (copy_sort_is_sample_sort w rho L). destruct w; reflexivity.
Qed.

Theorem refines_iqr_h w sorted :
  refines_readonly (iqr_h w sorted) (wlen w)
    (fun rho => Quantile.iqr (Sample.mkSample (rho 0) (wopt w (rho 1)) sorted)).
Proof.
  apply refines_readonly_intro; [destruct sorted, w; reflexivity | destruct sorted, w; reflexivity |].
  intros rho L. unfold Quantile.iqr, Quantile.iqr_c. destruct sorted.
  - reflexivity.
  - cbn [Sample.s_sorted]. rewrite (copy_sort_is_sample_sort w rho L). destruct w; reflexivity.
Qed.

(* Sample.Sort in place: afterwards the Xs array holds the model's sorted values and the
   Weights array the weights in the matching order; nothing else changes *)
Theorem refines_sort_h w sorted :
  refines_inplace (sort_h w sorted) (wlen w) (fun _ => tt)
    (if w then [(0, fun rho => Sample.s_xs (Sample.sample_sort (Sample.mkSample (rho 0) (Some (rho 1)) sorted)));
                (1, fun rho => match Sample.s_ws (Sample.sample_sort (Sample.mkSample (rho 0) (Some (rho 1)) sorted)) with
                               | Some ws => ws | None => [] end)]
     else [(0, fun rho => Sample.s_xs (Sample.sample_sort (Sample.mkSample (rho 0) None sorted)))]).
Proof.
  apply refines_inplace_intro.
  - destruct sorted, w; reflexivity.
  - destruct sorted, w; cbn; tauto.
  - destruct w; cbn; tauto.
  - intros rho _. reflexivity.
  - intros v mv Hv rho L. destruct w; cbn in Hv.
    + destruct Hv as [E|[E|[]]]; injection E as <- <-; destruct sorted; unfold Sample.sample_sort; cbn; try reflexivity.
      rewrite map_fst_psort, (map_fst_combine _ _ (L eq_refl)). reflexivity.
    + destruct Hv as [E|[]]; injection E as <- <-; destruct sorted; reflexivity.
Qed.

(* ---------- 4. SampleCI ---------- *)
Lemma QSort_length l : length (QuantileCI.QSort.sort l) = length l.
Proof. symmetry. apply Permutation_length, QuantileCI.QSort.Permuted_sort. Qed.

Theorem refines_sample_ci_h N lo hi sorted :
  refines_readonly (sample_ci_h N lo hi sorted) no_pre
    (fun rho => QuantileCI.sample_ci N lo hi false sorted (rho 0)).
Proof.
  apply refines_readonly_intro; [destruct sorted; reflexivity | destruct sorted; reflexivity |].
  intros rho _. destruct sorted; [reflexivity|]. unfold sample_ci_h. vcomp. unfold QuantileCI.sample_ci. cbn [orb negb].
  rewrite QSort_length. reflexivity.
Qed.

(* ---------- 5. LOESS ---------- *)
Lemma map_fst_insert_pair p l : map fst (Fit.insert_pair p l) = insert_key (fst p) (map fst l).
Proof. induction l as [|h t IH]; [reflexivity|]. cbn. destruct (Qltb (fst p) (fst h)); cbn; [reflexivity | now rewrite IH]. Qed.
Lemma map_fst_sort_pairs ps : map fst (Fit.sort_pairs ps) = sort_keys (map fst ps).
Proof. induction ps as [|p t IH]; [reflexivity|]. cbn. now rewrite map_fst_insert_pair, IH. Qed.

Theorem refines_loess_h degree span x :
  refines_readonly (loess_h degree span x) (fun rho => length (rho 0) = length (rho 1))
    (fun rho => Fit.loess (rho 0) (rho 1) degree span x).
Proof.
  apply refines_readonly_intro; [reflexivity | reflexivity |].
  intros rho L. unfold loess_h. vcomp. unfold Fit.loess.
  destruct (degree <? 0)%Z; [reflexivity|]. destruct (Qle_bool span 0); [reflexivity|].
  unfold Fit.loess_prepare. destruct (Fit.sortedb (rho 0)); cbn [fst snd]; [reflexivity|].
  rewrite map_fst_sort_pairs, (map_fst_combine _ _ L). reflexivity.
Qed.

(* ---------- 7. vec helpers ---------- *)
Theorem refines_vmap_h f : refines_readonly (vmap_h f) no_pre (fun rho => Sample.vmap f (rho 0)).
Proof. apply refines_readonly_intro; [reflexivity | reflexivity | intros rho _; reflexivity]. Qed.
Theorem refines_vconcat_h k : refines_readonly (vconcat_h k) no_pre (fun rho => Sample.vconcat (map rho (seq 0 k))).
Proof. apply refines_readonly_intro; [reflexivity | reflexivity | intros rho _; reflexivity]. Qed.
Theorem refines_vsum_h : refines_readonly vsum_h no_pre (fun rho => Sample.vsum (rho 0)).
Proof. apply refines_readonly_intro; [reflexivity | reflexivity | intros rho _; reflexivity]. Qed.

(* ---------- 8. KDE.PDF: writes the Bandwidth cell only ---------- *)
Theorem refines_kde_pdf_h scott w kern b x :
  refines_inplace (kde_pdf_h scott w kern b x) no_pre
    (fun rho => Kde.kde_pdf (Kde.mkKde (rho 0) (wopt w (rho 1)) kern
                               (Kde.bandwidth_after (cell 0%Q (rho 2)) (scott (rho 0) (wopt w (rho 1)))) b) x)
    [(2, fun rho => [Kde.bandwidth_after (cell 0%Q (rho 2)) (scott (rho 0) (wopt w (rho 1)))])].
Proof.
  apply refines_inplace_intro.
  - reflexivity.
  - cbn; tauto.
  - cbn; tauto.
  - intros rho _. reflexivity.
  - intros v mv [E|[]] rho _. injection E as <- <-. reflexivity.
Qed.

(* ---------- 9. documented in-place operations on one receiver ---------- *)
Ltac inplace1 :=
  apply refines_inplace_intro;
  [ reflexivity | cbn; tauto | cbn; tauto | intros rho _; reflexivity
  | let E := fresh in intros v mv [E|[]] rho _; injection E as <- <-; reflexivity ].

Theorem refines_reverse_h : refines_inplace reverse_h no_pre (fun _ => tt) [(0, fun rho => Order.reverse (rho 0))].
Proof. inplace1. Qed.

Theorem refines_lin_nice_h base o guess :
  refines_inplace (lin_nice_h base o guess) no_pre (fun _ => tt)
    [(0, fun rho => match Ticks.lin_nice base (nth 0 (rho 0) 0%Q) (nth 1 (rho 0) 0%Q) o guess with
                    | Ticks.NR_dom mn mx => [mn; mx] | Ticks.NR_panic => rho 0 end)].
Proof. inplace1. Qed.

Theorem refines_log_nice_h base o :
  refines_inplace (log_nice_h base o) no_pre (fun _ => tt)
    [(0, fun rho => let r := Ticks.log_nice base (nth 0 (rho 0) 0%Q) (nth 1 (rho 0) 0%Q) o in [fst r; snd r])].
Proof. inplace1. Qed.

Theorem refines_set_clamp_h c :
  refines_inplace (set_clamp_h c) (fun rho => exists s, rho 0 = [s]) (fun _ => tt)
    [(0, fun rho => map (fun s => Scale.sc_set_clamp s c) (rho 0))].
Proof.
  apply refines_inplace_intro; [reflexivity | cbn; tauto | cbn; tauto | intros rho _; reflexivity |].
  intros v mv [E|[]] rho [s Hs]. injection E as <- <-. cbn. rewrite Hs. reflexivity.
Qed.

Theorem refines_add_h x :
  refines_inplace (add_h x) (fun rho => exists s, rho 0 = [s]) (fun _ => tt)
    [(0, fun rho => map (fun s => Stream.s_add s x) (rho 0))].
Proof.
  apply refines_inplace_intro; [reflexivity | cbn; tauto | cbn; tauto | intros rho _; reflexivity |].
  intros v mv [E|[]] rho [s Hs]. injection E as <- <-. cbn. rewrite Hs. reflexivity.
Qed.

Theorem refines_combine_h :
  refines_inplace combine_h (fun rho => exists s o, rho 0 = [s] /\ rho 1 = [o]) (fun _ => tt)
    [(0, fun rho => [Stream.s_combine (cell Stream.s_init (rho 0)) (cell Stream.s_init (rho 1))])].
Proof.
  apply refines_inplace_intro; [reflexivity | cbn; tauto | cbn; tauto | intros rho _; reflexivity |].
  intros v mv [E|[]] rho (s & o & Hs & Ho). injection E as <- <-. cbn. rewrite Hs, Ho. reflexivity.
Qed.

Theorem refines_mark_h i : refines_inplace (mark_h i) no_pre (fun _ => tt) [(0, fun rho => Marks.m_mark (rho 0) i)].
Proof. inplace1. Qed.
Theorem refines_unmark_h i : refines_inplace (unmark_h i) no_pre (fun _ => tt) [(0, fun rho => Marks.m_unmark (rho 0) i)].
Proof. inplace1. Qed.

(* ---------- 6. graph.Equal: scratch buffer, the graphs' adjacency lists only read ---------- *)
Lemma g_isort_length l : length (Graph.isort l) = length l.
Proof.
  unfold Graph.isort. induction l as [|x l IH]; [reflexivity|]. cbn [fold_right length]. rewrite <- IH.
  generalize (fold_right Graph.ins_sorted [] l). intros t. induction t as [|y t IHt]; [reflexivity|].
  cbn. destruct (x <=? y)%N; cbn; [reflexivity | now rewrite IHt].
Qed.
Lemma unflag_flag b : unflag (flag b) = b.
Proof. destruct b; reflexivity. Qed.

Lemma firstn_len_app {X} (a b : list X) n : length a = n -> firstn n (a ++ b) = a.
Proof. intros <-. rewrite firstn_app, Nat.sub_diag, firstn_all. cbn. apply app_nil_r. Qed.
Lemma skipn_len_app {X} (a b : list X) n : length a = n -> skipn n (a ++ b) = b.
Proof. intros <-. rewrite skipn_app, Nat.sub_diag, skipn_all. reflexivity. Qed.

Lemma equal_node_sem i (rho : venv N) :
  pexec (equal_node i) rho 1 = flag (unflag (rho 1) && Graph.adj_equal (rho (v1 i)) (rho (v2 i))) /\
  forall v, 2 <= v -> pexec (equal_node i) rho v = rho v.
Proof.
  split.
  - unfold equal_node, v1, v2. vcomp. cbn [Nat.add Nat.eqb]. unfold halves_sorted, Graph.adj_equal.
    rewrite (firstn_len_app (rho (S (S (2 * i)))) _ _ eq_refl), (skipn_len_app (rho (S (S (2 * i)))) _ _ eq_refl).
    rewrite (firstn_len_app _ _ _ (g_isort_length _)), (skipn_len_app _ _ _ (g_isort_length _)).
    rewrite andb_assoc. reflexivity.
  - intros v Hv. unfold equal_node. vcomp. destruct v as [|[|v]]; [lia | lia | reflexivity].
Qed.

Lemma pexec_app {A} (p q : list (cmd A)) rho : pexec (p ++ q) rho = pexec q (pexec p rho).
Proof. unfold pexec. apply fold_left_app. Qed.

Lemma v1_ge i : 2 <= v1 i. Proof. unfold v1. lia. Qed.
Lemma v2_ge i : 2 <= v2 i. Proof. unfold v2. lia. Qed.

Lemma forallb_ext' {X} (f g : X -> bool) l : (forall x, f x = g x) -> forallb f l = forallb g l.
Proof. intros E. induction l as [|x l IH]; cbn; [reflexivity | now rewrite E, IH]. Qed.

Lemma equal_loop_sem (idx : list nat) : forall rho : venv N,
  unflag (pexec (flat_map equal_node idx) rho 1) =
    unflag (rho 1) && forallb (fun i => Graph.adj_equal (rho (v1 i)) (rho (v2 i))) idx /\
  forall v, 2 <= v -> pexec (flat_map equal_node idx) rho v = rho v.
Proof.
  induction idx as [|i idx IH]; intros rho.
  - cbn [flat_map forallb pexec fold_left]. rewrite andb_true_r. split; reflexivity.
  - cbn [flat_map forallb]. rewrite pexec_app. destruct (equal_node_sem i rho) as [N1 N2].
    destruct (IH (pexec (equal_node i) rho)) as [L1 L2]. split.
    + rewrite L1, N1, unflag_flag.
      rewrite (forallb_ext' _ (fun i => Graph.adj_equal (rho (v1 i)) (rho (v2 i)))).
      * now rewrite andb_assoc.
      * intros j. now rewrite (N2 _ (v1_ge j)), (N2 _ (v2_ge j)).
    + intros v Hv. now rewrite (L2 v Hv), (N2 v Hv).
Qed.

Lemma adjs_equal_map {X} (f g : X -> list N) l :
  Graph.adjs_equal (map f l) (map g l) = forallb (fun i => Graph.adj_equal (f i) (g i)) l.
Proof. induction l as [|x l IH]; cbn; [reflexivity | now rewrite IH]. Qed.

Lemma equal_tb idx : forall bound, mem 0 bound = true -> mem 1 bound = true ->
  targets_bound (flat_map equal_node idx) bound = true.
Proof. induction idx as [|i idx IH]; intros bound H0 H1; [reflexivity|]. cbn. rewrite H0, H1. cbn. now apply IH. Qed.
Lemma equal_wa idx : forall fresh, mem 0 fresh = true -> mem 1 fresh = true ->
  written_args (flat_map equal_node idx) fresh = [].
Proof. induction idx as [|i idx IH]; intros fresh H0 H1; [reflexivity|]. cbn. rewrite H0, H1. now apply IH. Qed.

(* the verdict of the array program is the model's g_equal of the two graphs whose adjacency
   lists are the argument arrays; no adjacency list (no pre-existing array at all) is changed *)
Theorem refines_equal_h n1 n2 :
  refines_readonly (equal_h n1 n2) no_pre
    (fun rho => Graph.g_equal (map rho (map v1 (seq 0 n1))) (map rho (map v2 (seq 0 n2)))).
Proof.
  apply refines_readonly_intro.
  - cbn. apply equal_tb; reflexivity.
  - unfold readonly. cbn. rewrite equal_wa; reflexivity.
  - intros rho _. unfold Graph.g_equal. rewrite !map_length, !seq_length.
    unfold v_pure. cbn [equal_h v_prog v_rvars v_rfn map]. unfold a0. cbn [nth].
    destruct (Nat.eqb_spec n1 n2) as [<-|Ne]; [|reflexivity]. cbn [andb].
    rewrite pexec_app. destruct (equal_loop_sem (seq 0 n1) (pexec [Compute 0 (fun _ => []) []; Compute 1 (fun _ => flag true) []] rho)) as [L1 L2].
    rewrite L1. rewrite !map_map, adjs_equal_map. cbn [pexec fold_left pstep vupd Nat.eqb map]. cbn [unflag flag andb].
    apply forallb_ext'. intros j. unfold v1, v2. reflexivity.
Qed.

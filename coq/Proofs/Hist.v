(* Proofs/Hist.v — theorems about Model/Hist.v (C14). *)
From MM Require Import Base.Num Model.Hist.
From Coq Require Import Qround Lia Lqa Qfield.
Local Open Scope Q_scope.

(* ====================================================================== *)
(* counters: every Add increments exactly one counter; conservation        *)
(* ====================================================================== *)
Definition valid_slot (nbins : nat) (s : slot) : Prop :=
  match s with SBin i => (i < nbins)%nat | _ => True end.

(* the counter a slot names; [None] for a bin index out of range (never a default value) *)
Definition slot_count (h : hstate) (s : slot) : option N :=
  match s with SUnder => Some (h_under h) | SBin i => nth_error (h_bins h) i | SOver => Some (h_over h) end.

Lemma dispatch_valid : forall nbins bin, valid_slot nbins (dispatch nbins bin).
Proof.
  intros nbins bin. unfold dispatch.
  destruct (bin <? 0)%Z eqn:E1; simpl; auto.
  destruct (Z.of_nat nbins <=? bin)%Z eqn:E2; simpl; auto.
  apply Z.ltb_ge in E1. apply Z.leb_gt in E2. lia.
Qed.

Lemma incr_nth_length : forall l i, length (incr_nth l i) = length l.
Proof. induction l; intros [|i]; simpl; auto. Qed.

Lemma incr_nth_same : forall l i c, nth_error l i = Some c -> nth_error (incr_nth l i) i = Some (c + 1)%N.
Proof.
  induction l as [|a t IH]; intros [|i] c H; simpl in *; try discriminate.
  - inversion H; reflexivity.
  - auto.
Qed.

Lemma incr_nth_other : forall l i j, i <> j -> nth_error (incr_nth l i) j = nth_error l j.
Proof.
  induction l as [|a t IH]; intros [|i] [|j] H; simpl in *; auto; try congruence.
Qed.

Lemma Nsum_incr_nth : forall l i, (i < length l)%nat -> Nsum (incr_nth l i) = (Nsum l + 1)%N.
Proof.
  induction l as [|c t IH]; intros i Hi; simpl in *; [lia|].
  destruct i; simpl; [lia|]. rewrite IH by lia. lia.
Qed.

(* exactly one counter grows by one, every other counter is unchanged, the number of bins
   is unchanged *)
Definition incremented_exactly (h h' : hstate) (s : slot) : Prop :=
  valid_slot (length (h_bins h)) s /\
  (exists c, slot_count h s = Some c /\ slot_count h' s = Some (c + 1)%N) /\
  (forall s', s' <> s -> slot_count h' s' = slot_count h s') /\
  length (h_bins h') = length (h_bins h).

Lemma h_incr_exactly : forall h s, valid_slot (length (h_bins h)) s -> incremented_exactly h (h_incr h s) s.
Proof.
  intros h s Hv. unfold incremented_exactly. split; [exact Hv|].
  destruct s as [|i|]; simpl in *.
  - split; [eexists; split; reflexivity|]. split; [|reflexivity].
    intros [| |] Hne; simpl; congruence.
  - destruct (nth_error (h_bins h) i) as [c|] eqn:E.
    2:{ apply nth_error_None in E. lia. }
    split; [exists c; split; [reflexivity|apply incr_nth_same; exact E]|].
    split; [|apply incr_nth_length].
    intros [|j|] Hne; simpl; auto. apply incr_nth_other. congruence.
  - split; [eexists; split; reflexivity|]. split; [|reflexivity].
    intros [| |] Hne; simpl; congruence.
Qed.

Lemma add_increments_exactly_one_lin : forall mn mx h x,
  incremented_exactly h (lin_add mn mx h x) (lin_slot mn mx (length (h_bins h)) x).
Proof. intros. apply h_incr_exactly, dispatch_valid. Qed.

Lemma add_increments_exactly_one_log : forall b m h x,
  incremented_exactly h (log_add b m h x) (log_slot b m (length (h_bins h)) x).
Proof. intros. apply h_incr_exactly, dispatch_valid. Qed.

Lemma h_incr_total : forall h s, valid_slot (length (h_bins h)) s -> h_total (h_incr h s) = (h_total h + 1)%N.
Proof.
  intros h [|i|] Hv; unfold h_total; simpl in *; try lia.
  rewrite Nsum_incr_nth by exact Hv. lia.
Qed.

Lemma Nsum_repeat0 : forall n, Nsum (repeat 0%N n) = 0%N.
Proof. induction n; simpl; auto. Qed.

(* conservation for ANY history of Adds whose slots are chosen by ANY function of state and
   value (linear and logarithmic binning are instances) *)
Lemma conservation_gen : forall (slot_of : hstate -> Q -> slot),
  (forall h x, valid_slot (length (h_bins h)) (slot_of h x)) ->
  forall xs h, h_total (fold_left (fun h x => h_incr h (slot_of h x)) xs h) = (h_total h + N.of_nat (length xs))%N.
Proof.
  intros slot_of Hv. induction xs as [|x t IH]; intros h; simpl fold_left; simpl length.
  - lia.
  - rewrite IH, h_incr_total by apply Hv. lia.
Qed.

Lemma h_empty_total : forall n, h_total (h_empty n) = 0%N.
Proof. intros n. unfold h_total, h_empty; simpl. rewrite Nsum_repeat0. reflexivity. Qed.

Lemma conservation_lin : forall mn mx nbins xs,
  h_total (lin_run mn mx nbins xs) = N.of_nat (length xs).
Proof.
  intros. unfold lin_run, lin_add.
  rewrite (conservation_gen (fun h x => lin_slot mn mx (length (h_bins h)) x)).
  - rewrite h_empty_total. lia.
  - intros. apply dispatch_valid.
Qed.

Lemma conservation_log : forall b m nbins xs,
  h_total (log_run b m nbins xs) = N.of_nat (length xs).
Proof.
  intros. unfold log_run, log_add.
  rewrite (conservation_gen (fun h x => log_slot b m (length (h_bins h)) x)).
  - rewrite h_empty_total. lia.
  - intros. apply dispatch_valid.
Qed.

(* the number of bins never changes *)
Lemma lin_run_nbins : forall mn mx nbins xs, length (h_bins (lin_run mn mx nbins xs)) = nbins.
Proof.
  intros mn mx nbins xs. unfold lin_run.
  assert (G : forall xs h, length (h_bins (fold_left (lin_add mn mx) xs h)) = length (h_bins h)).
  { induction xs0 as [|x t IH]; intros h; simpl; auto. rewrite IH.
    unfold lin_add. destruct (lin_slot mn mx (length (h_bins h)) x); simpl; auto using incr_nth_length. }
  rewrite G. simpl. apply repeat_length.
Qed.

(* ====================================================================== *)
(* linear binning: the bin of x is the one whose stated edges enclose x     *)
(* ====================================================================== *)
Lemma Qfloor_iff : forall t i, Qfloor t = i <-> inject_Z i <= t /\ t < inject_Z (i + 1).
Proof.
  intros t i. split.
  - intros <-. split; [apply Qfloor_le | apply Qlt_floor].
  - intros [H1 H2]. pose proof (Qfloor_le t) as F1. pose proof (Qlt_floor t) as F2.
    assert (A : (i < Qfloor t + 1)%Z) by (rewrite Zlt_Qlt; eapply Qle_lt_trans; eauto).
    assert (B : (Qfloor t < i + 1)%Z) by (rewrite Zlt_Qlt; eapply Qle_lt_trans; eauto).
    lia.
Qed.

Lemma Qofnat_pos : forall n, (0 < n)%nat -> 0 < Qofnat n.
Proof. intros n H. unfold Qofnat. change 0 with (inject_Z 0). rewrite <- Zlt_Qlt. lia. Qed.

Section Linear.
  Variables mn mx : Q.
  Variable nbins : nat.
  Hypothesis Hrange : mn < mx.
  Hypothesis Hn : (0 < nbins)%nat.

  Let n := Qofnat nbins.
  Let d := mx - mn.
  Let edge (k : Z) : Q := lin_bin_to_value mn mx nbins (inject_Z k).

  Lemma n_pos : 0 < n. Proof. apply Qofnat_pos, Hn. Qed.
  Lemma d_pos : 0 < d. Proof. unfold d. lra. Qed.

  (* k <= delta*(x-min)  <->  BinToValue(k) <= x ;  same with < *)
  Lemma pos_ge_edge : forall k x, inject_Z k <= lin_pos mn mx nbins x <-> edge k <= x.
  Proof.
    intros k x. unfold edge, lin_bin_to_value, lin_pos. fold n d.
    pose proof n_pos as Hn'. pose proof d_pos as Hd.
    assert (E1 : n * (x - mn) / d * d == n * (x - mn)) by (field; lra).
    assert (E2 : inject_Z k * d / n * n == inject_Z k * d) by (field; lra).
    set (a := inject_Z k) in *. set (t := n * (x - mn) / d) in *. set (e := a * d / n) in *.
    split; intro H.
    - assert (a * d <= n * (x - mn)) by (rewrite <- E1; apply Qmult_le_compat_r; lra).
      assert (e * n <= (x - mn) * n) by (rewrite E2; lra).
      apply Qmult_lt_0_le_reg_r in H1; lra.
    - assert (e * n <= (x - mn) * n) by (apply Qmult_le_compat_r; lra).
      assert (a * d <= t * d) by (rewrite E1; rewrite E2 in H0; lra).
      apply Qmult_lt_0_le_reg_r in H1; lra.
  Qed.

  Lemma pos_lt_edge : forall k x, lin_pos mn mx nbins x < inject_Z k <-> x < edge k.
  Proof.
    intros k x. pose proof (pos_ge_edge k x) as [A B].
    split; intro H.
    - apply Qnot_le_lt. intro C. apply B in C. lra.
    - apply Qnot_le_lt. intro C. apply A in C. lra.
  Qed.

  (* x lands in bin i  <->  BinToValue(i) <= x < BinToValue(i+1)  (and i is a bin) *)
  Lemma lin_bin_iff_edges : forall x i,
    lin_slot mn mx nbins x = SBin i <->
    (i < nbins)%nat /\ edge (Z.of_nat i) <= x /\ x < edge (Z.of_nat i + 1).
  Proof.
    intros x i. unfold lin_slot, dispatch, lin_bin.
    set (t := lin_pos mn mx nbins x).
    destruct (Qfloor t <? 0)%Z eqn:E1; [|destruct (Z.of_nat nbins <=? Qfloor t)%Z eqn:E2].
    - apply Z.ltb_lt in E1. split; [discriminate|].
      intros [_ [A _]]. apply pos_ge_edge in A. fold t in A.
      pose proof (Qlt_floor t) as F.
      assert ((Z.of_nat i < Qfloor t + 1)%Z) by (rewrite Zlt_Qlt; eapply Qle_lt_trans; eauto). lia.
    - apply Z.leb_le in E2. split; [discriminate|].
      intros [Hi [_ B]]. apply pos_lt_edge in B. fold t in B.
      pose proof (Qfloor_le t) as F.
      assert ((Qfloor t < Z.of_nat i + 1)%Z) by (rewrite Zlt_Qlt; eapply Qle_lt_trans; eauto). lia.
    - apply Z.ltb_ge in E1. apply Z.leb_gt in E2. split.
      + intros H. assert (Hi : Z.to_nat (Qfloor t) = i) by congruence. clear H. subst i. rewrite Z2Nat.id by lia.
        split; [lia|]. split.
        * apply pos_ge_edge. apply Qfloor_le.
        * apply pos_lt_edge. apply Qlt_floor.
      + intros [Hi [A B]]. apply pos_ge_edge in A. apply pos_lt_edge in B.
        assert (Qfloor t = Z.of_nat i) by (apply Qfloor_iff; split; assumption).
        f_equal. lia.
  Qed.

  (* under  <->  x is below the first edge *)
  Lemma lin_under_iff : forall x, lin_slot mn mx nbins x = SUnder <-> x < edge 0.
  Proof.
    intros x. unfold lin_slot, dispatch, lin_bin. set (t := lin_pos mn mx nbins x).
    rewrite <- pos_lt_edge. fold t.
    destruct (Qfloor t <? 0)%Z eqn:E1.
    - apply Z.ltb_lt in E1. split; [intros _|reflexivity].
      pose proof (Qlt_floor t) as F. eapply Qlt_le_trans; [exact F|].
      rewrite <- Zle_Qle. lia.
    - apply Z.ltb_ge in E1.
      split; [destruct (Z.of_nat nbins <=? Qfloor t)%Z; discriminate|].
      intro H. pose proof (Qfloor_le t) as F.
      assert ((Qfloor t < 0)%Z) by (rewrite Zlt_Qlt; eapply Qle_lt_trans; eauto). lia.
  Qed.

  (* over  <->  x is at or above the end of the last bin *)
  Lemma lin_over_iff : forall x, lin_slot mn mx nbins x = SOver <-> edge (Z.of_nat nbins) <= x.
  Proof.
    intros x. unfold lin_slot, dispatch, lin_bin. set (t := lin_pos mn mx nbins x).
    rewrite <- pos_ge_edge. fold t.
    destruct (Qfloor t <? 0)%Z eqn:E1.
    - apply Z.ltb_lt in E1. split; [discriminate|]. intro H.
      pose proof (Qlt_floor t) as F.
      assert ((Z.of_nat nbins < Qfloor t + 1)%Z) by (rewrite Zlt_Qlt; eapply Qle_lt_trans; eauto). lia.
    - destruct (Z.of_nat nbins <=? Qfloor t)%Z eqn:E2.
      + apply Z.leb_le in E2. split; [intros _|reflexivity].
        eapply Qle_trans; [|apply Qfloor_le]. rewrite <- Zle_Qle. exact E2.
      + apply Z.leb_gt in E2. split; [discriminate|]. intro H.
        pose proof (Qlt_floor t) as F.
        assert ((Z.of_nat nbins < Qfloor t + 1)%Z) by (rewrite Zlt_Qlt; eapply Qle_lt_trans; eauto). lia.
  Qed.

  (* the first edge is min, the last is max *)
  Lemma lin_edge_first : edge 0 == mn.
  Proof. unfold edge, lin_bin_to_value. fold n. pose proof n_pos. field. lra. Qed.
  Lemma lin_edge_last : edge (Z.of_nat nbins) == mx.
  Proof.
    unfold edge, lin_bin_to_value. change (inject_Z (Z.of_nat nbins)) with (Qofnat nbins).
    fold n. pose proof n_pos as P. field. intro E. rewrite E in P. lra.
  Qed.

  (* BinToValue is increasing ... *)
  Lemma lin_btv_increasing : forall p q, p < q -> lin_bin_to_value mn mx nbins p < lin_bin_to_value mn mx nbins q.
  Proof.
    intros p q H. unfold lin_bin_to_value. fold n d.
    pose proof n_pos. pose proof d_pos.
    assert (p * d / n < q * d / n).
    { apply Qlt_shift_div_l; [lra|].
      assert (E : p * d / n * n == p * d) by (field; lra). rewrite E.
      apply Qmult_lt_compat_r; lra. }
    lra.
  Qed.

  (* ... and interpolates linearly within a bin *)
  Lemma lin_interpolates : forall (i f : Q),
    lin_bin_to_value mn mx nbins (i + f) ==
    lin_bin_to_value mn mx nbins i + f * (lin_bin_to_value mn mx nbins (i + 1) - lin_bin_to_value mn mx nbins i).
  Proof. intros. unfold lin_bin_to_value. fold n. pose proof n_pos. field. lra. Qed.
End Linear.

Lemma lin_edges_span : forall mn mx nbins, mn < mx -> (0 < nbins)%nat ->
  lin_bin_to_value mn mx nbins (inject_Z 0) == mn /\
  lin_bin_to_value mn mx nbins (inject_Z (Z.of_nat nbins)) == mx.
Proof.
  intros mn mx nbins H1 H2. split.
  - apply lin_edge_first; assumption.
  - apply lin_edge_last; assumption.
Qed.

(* ====================================================================== *)
(* logarithmic binning, characterised by integer powers                    *)
(* ====================================================================== *)
Lemma Qpow_pos : forall q k, 0 < q -> 0 < Qpow q k.
Proof. induction k; intros; simpl; [lra|]. apply Qmult_lt_0_compat; auto. Qed.

Lemma Qpow_S_r : forall q k, Qpow q (S k) == Qpow q k * q.
Proof. intros. simpl. ring. Qed.

Lemma Qpow_add : forall q a b, Qpow q (a + b) == Qpow q a * Qpow q b.
Proof. induction a; intros; simpl; [ring|]. rewrite IHa. ring. Qed.

Lemma Qpow_mul : forall q a b, Qpow q (a * b) == Qpow (Qpow q a) b.
Proof.
  intros q a b. induction b; simpl.
  - rewrite Nat.mul_0_r. reflexivity.
  - rewrite Nat.mul_succ_r, Nat.add_comm, Qpow_add, IHb. reflexivity.
Qed.

Lemma Qpow_mult_distr : forall p q k, Qpow (p * q) k == Qpow p k * Qpow q k.
Proof. induction k; simpl; [ring|]. rewrite IHk. ring. Qed.

Global Instance Qpow_comp : Proper (Qeq ==> eq ==> Qeq) Qpow.
Proof. intros p q E k k' <-. induction k; simpl; [reflexivity|]. rewrite IHk, E. reflexivity. Qed.

Lemma Qpow_lt_S : forall b k, 1 < b -> Qpow b k < Qpow b (S k).
Proof.
  intros b k Hb. simpl. pose proof (Qpow_pos b k ltac:(lra)) as P.
  setoid_replace (Qpow b k) with (1 * Qpow b k) at 1 by ring.
  apply Qmult_lt_compat_r; assumption.
Qed.

Lemma Qpow_lt_mono : forall b i j, 1 < b -> (i < j)%nat -> Qpow b i < Qpow b j.
Proof.
  intros b i j Hb H. induction H.
  - apply Qpow_lt_S; assumption.
  - eapply Qlt_trans; [exact IHle|apply Qpow_lt_S; assumption].
Qed.

Lemma Qpow_le_mono : forall b i j, 1 < b -> (i <= j)%nat -> Qpow b i <= Qpow b j.
Proof.
  intros b i j Hb H. destruct (Nat.eq_dec i j) as [->|N]; [lra|].
  apply Qlt_le_weak, Qpow_lt_mono; [assumption|lia].
Qed.

(* x |-> x^k is strictly increasing on the positive rationals (k >= 1) *)
Lemma Qpow_base_lt : forall p q k, 0 < p -> p < q -> (0 < k)%nat -> Qpow p k < Qpow q k.
Proof.
  intros p q k Hp Hpq Hk. induction k; [lia|].
  destruct k.
  - simpl. lra.
  - assert (IH : Qpow p (S k) < Qpow q (S k)) by (apply IHk; lia).
    change (Qpow p (S (S k))) with (p * Qpow p (S k)).
    change (Qpow q (S (S k))) with (q * Qpow q (S k)).
    pose proof (Qpow_pos p (S k) Hp). pose proof (Qpow_pos q (S k) ltac:(lra)).
    apply Qlt_trans with (p * Qpow q (S k)).
    + rewrite !(Qmult_comm p). apply Qmult_lt_compat_r; assumption.
    + apply Qmult_lt_compat_r; assumption.
Qed.

Lemma Qpow_base_inj_lt : forall p q k, 0 < p -> 0 < q -> Qpow p k < Qpow q k -> p < q.
Proof.
  intros p q k Hp Hq H. apply Qnot_le_lt. intro C.
  destruct (Qle_lt_or_eq _ _ C) as [L|E].
  - destruct k; [simpl in H; lra|].
    pose proof (Qpow_base_lt q p (S k) Hq L ltac:(lia)). lra.
  - rewrite E in H. lra.
Qed.

Lemma Qpow_base_inj : forall p q k, 0 < p -> 0 < q -> (0 < k)%nat -> Qpow p k == Qpow q k -> p == q.
Proof.
  intros p q k Hp Hq Hk E.
  destruct (Q_dec p q) as [[L|G]|Eq]; [| |exact Eq].
  - pose proof (Qpow_base_lt p q k Hp L Hk). lra.
  - pose proof (Qpow_base_lt q p k Hq G Hk). lra.
Qed.

Lemma Qltb_true : forall a b, Qltb a b = true <-> a < b.
Proof.
  intros a b. unfold Qltb. rewrite negb_true_iff. split; intro H.
  - apply Qnot_le_lt. intro C. apply Qle_bool_iff in C. congruence.
  - destruct (Qle_bool b a) eqn:E; [|reflexivity]. apply Qle_bool_iff in E. lra.
Qed.
Lemma Qltb_false : forall a b, Qltb a b = false <-> b <= a.
Proof.
  intros a b. unfold Qltb. rewrite negb_false_iff. apply Qle_bool_iff.
Qed.

Lemma Qltb_comp_r : forall y e1 e2, e1 == e2 -> Qltb y e1 = Qltb y e2.
Proof.
  intros y e1 e2 E. destruct (Qltb y e2) eqn:B.
  - apply Qltb_true in B. apply Qltb_true. rewrite E. exact B.
  - apply Qltb_false in B. apply Qltb_false. rewrite E. exact B.
Qed.

Lemma log_scan_ext : forall b y f e1 e2 z, e1 == e2 -> log_scan b y e1 f z = log_scan b y e2 f z.
Proof.
  induction f; intros e1 e2 z H; simpl; [reflexivity|].
  rewrite (Qltb_comp_r y e1 e2 H). destruct (Qltb y e2); [reflexivity|].
  apply IHf. rewrite H. reflexivity.
Qed.

(* the scan returns the first index r >= i with y < b^(r+1), capped at i + fuel *)
Lemma log_scan_spec : forall b y fuel i,
  (0 <= i)%Z ->
  let r := log_scan b y (Qpow b (S (Z.to_nat i))) fuel i in
  (i <= r <= i + Z.of_nat fuel)%Z /\
  (forall j, (i < j <= r)%Z -> Qpow b (Z.to_nat j) <= y) /\
  ((r < i + Z.of_nat fuel)%Z -> y < Qpow b (S (Z.to_nat r))).
Proof.
  intros b y fuel. induction fuel as [|f IH]; intros i Hi; simpl.
  - repeat split; intros; lia.
  - destruct (Qltb y (b * Qpow b (Z.to_nat i))) eqn:E.
    + apply Qltb_true in E. repeat split; intros; try lia; exact E.
    + apply Qltb_false in E.
      assert (Hs : (0 <= i + 1)%Z) by lia.
      specialize (IH (i + 1)%Z Hs). simpl in IH.
      replace (Z.to_nat (i + 1)) with (S (Z.to_nat i)) in IH by lia.
      assert (Eq : b * Qpow b (Z.to_nat i) * b == b * Qpow b (S (Z.to_nat i))) by (simpl; ring).
      assert (Hrw : log_scan b y (b * Qpow b (Z.to_nat i) * b) f (i + 1) =
                    log_scan b y (b * Qpow b (S (Z.to_nat i))) f (i + 1)) by (apply log_scan_ext; exact Eq).
      rewrite Hrw. destruct IH as [R1 [R2 R3]].
      repeat split; try lia.
      * intros j Hj. destruct (Z.eq_dec j (i + 1)) as [->|Nj].
        -- replace (Z.to_nat (i + 1)) with (S (Z.to_nat i)) by lia. simpl. exact E.
        -- apply R2. lia.
      * intros Hr. apply R3. lia.
Qed.

Section Log.
  Variable b : Q.
  Variables m nbins : nat.
  Hypothesis Hb : 1 < b.
  Hypothesis Hm : (0 < m)%nat.

  (* for x > 0 with x^m >= 1 the capped index is min(nbins, the i with b^i <= x^m < b^(i+1)) *)
  Lemma log_capped_spec : forall x, 0 < x -> 1 <= Qpow x m ->
    let r := log_bin_capped b m nbins x in
    (0 <= r <= Z.of_nat nbins)%Z /\ Qpow b (Z.to_nat r) <= Qpow x m /\
    ((r < Z.of_nat nbins)%Z -> Qpow x m < Qpow b (S (Z.to_nat r))).
  Proof.
    intros x Hx Hy. unfold log_bin_capped.
    destruct (Qle_bool x 0) eqn:E0; [apply Qle_bool_iff in E0; lra|].
    destruct (Qltb (Qpow x m) 1) eqn:E1; [apply Qltb_true in E1; lra|].
    pose proof (log_scan_spec b (Qpow x m) nbins 0%Z ltac:(lia)) as S.
    simpl in S. assert (Eb : b * 1 == b) by ring.
    assert (Hrw : log_scan b (Qpow x m) (b * 1) nbins 0 = log_scan b (Qpow x m) b nbins 0) by (apply log_scan_ext; exact Eb).
    rewrite Hrw in S. destruct S as [R1 [R2 R3]].
    set (r := log_scan b (Qpow x m) b nbins 0) in *.
    split; [lia|]. split.
    - destruct (Z.eq_dec r 0) as [->|N]; [simpl; exact Hy|]. apply R2. lia.
    - intro H. apply R3. lia.
  Qed.

  (* x lands in bin i  <->  b^i <= x^m < b^(i+1), i.e. BinToValue(i) <= x < BinToValue(i+1)
     with BinToValue(i) = b^(i/m) *)
  Lemma log_bin_iff_edges : forall x i, 0 < x ->
    (log_slot b m nbins x = SBin i <->
     (i < nbins)%nat /\ log_edge_pow b i <= Qpow x m /\ Qpow x m < log_edge_pow b (S i)).
  Proof.
    intros x i Hx. unfold log_slot, dispatch, log_edge_pow.
    destruct (Qlt_le_dec (Qpow x m) 1) as [Lt|Ge].
    - (* below the first edge *)
      assert (log_bin_capped b m nbins x = (-1)%Z) as ->.
      { unfold log_bin_capped. destruct (Qle_bool x 0); [reflexivity|].
        apply Qltb_true in Lt. rewrite Lt. reflexivity. }
      simpl. split; [discriminate|]. intros [_ [A _]].
      pose proof (Qpow_le_mono b 0 i Hb ltac:(lia)) as P. simpl in P. lra.
    - pose proof (log_capped_spec x Hx Ge) as [R1 [R2 R3]].
      set (r := log_bin_capped b m nbins x) in *.
      destruct (r <? 0)%Z eqn:E1; [apply Z.ltb_lt in E1; lia|].
      destruct (Z.of_nat nbins <=? r)%Z eqn:E2.
      + apply Z.leb_le in E2. split; [discriminate|]. intros [Hi [_ B]].
        assert (r = Z.of_nat nbins) by lia. subst r. rewrite H in R2. rewrite Nat2Z.id in R2.
        pose proof (Qpow_le_mono b (S i) nbins Hb ltac:(lia)). lra.
      + apply Z.leb_gt in E2. specialize (R3 E2). split.
        * intro H. inversion H. subst i. split; [lia|]. split; assumption.
        * intros [Hi [A B]]. f_equal.
          destruct (Nat.lt_trichotomy (Z.to_nat r) i) as [L|[E|G]]; [|exact E|].
          -- pose proof (Qpow_le_mono b (S (Z.to_nat r)) i Hb ltac:(lia)). lra.
          -- pose proof (Qpow_le_mono b (S i) (Z.to_nat r) Hb ltac:(lia)). lra.
  Qed.

  (* under  <->  the value is below the first edge b^0 = 1 (or not positive at all) *)
  Lemma log_under_iff : forall x, log_slot b m nbins x = SUnder <-> x <= 0 \/ Qpow x m < 1.
  Proof.
    intros x. unfold log_slot, dispatch.
    destruct (Qlt_le_dec 0 x) as [Hx|Hx].
    - destruct (Qlt_le_dec (Qpow x m) 1) as [Lt|Ge].
      + assert (log_bin_capped b m nbins x = (-1)%Z) as ->.
        { unfold log_bin_capped. destruct (Qle_bool x 0); [reflexivity|].
          apply Qltb_true in Lt. rewrite Lt. reflexivity. }
        simpl. split; auto.
      + pose proof (log_capped_spec x Hx Ge) as [R1 _].
        destruct (log_bin_capped b m nbins x <? 0)%Z eqn:E1; [apply Z.ltb_lt in E1; lia|].
        split; [destruct (Z.of_nat nbins <=? _)%Z; discriminate|]. intros [A|A]; lra.
    - assert (log_bin_capped b m nbins x = (-1)%Z) as ->.
      { unfold log_bin_capped. apply Qle_bool_iff in Hx. rewrite Hx. reflexivity. }
      simpl. split; auto.
  Qed.

  (* over  <->  the value is at or above the end of the last bin *)
  Lemma log_over_iff : forall x, 0 < x -> (log_slot b m nbins x = SOver <-> log_edge_pow b nbins <= Qpow x m).
  Proof.
    intros x Hx. unfold log_slot, dispatch, log_edge_pow.
    destruct (Qlt_le_dec (Qpow x m) 1) as [Lt|Ge].
    - assert (log_bin_capped b m nbins x = (-1)%Z) as ->.
      { unfold log_bin_capped. destruct (Qle_bool x 0); [reflexivity|].
        apply Qltb_true in Lt. rewrite Lt. reflexivity. }
      simpl. split; [discriminate|]. intro A.
      pose proof (Qpow_le_mono b 0 nbins Hb ltac:(lia)) as P. simpl in P. lra.
    - pose proof (log_capped_spec x Hx Ge) as [R1 [R2 R3]].
      set (r := log_bin_capped b m nbins x) in *.
      destruct (r <? 0)%Z eqn:E1; [apply Z.ltb_lt in E1; lia|].
      destruct (Z.of_nat nbins <=? r)%Z eqn:E2.
      + apply Z.leb_le in E2. split; [intros _|reflexivity].
        assert (r = Z.of_nat nbins) by lia. rewrite H in R2. rewrite Nat2Z.id in R2. exact R2.
      + apply Z.leb_gt in E2. specialize (R3 E2). split; [discriminate|]. intro A.
        pose proof (Qpow_le_mono b (S (Z.to_nat r)) nbins Hb ltac:(lia)). lra.
  Qed.

  (* the number of bins: at most one n satisfies the defining relation of NewLogHist *)
  Lemma log_nbins_unique : forall mx n1 n2,
    log_nbins_ok b m mx n1 = true -> log_nbins_ok b m mx n2 = true -> n1 = n2.
  Proof.
    intros mx n1 n2 H1 H2. unfold log_nbins_ok in *.
    apply andb_true_iff in H1. apply andb_true_iff in H2.
    destruct H1 as [A1 B1], H2 as [A2 B2]. apply Qle_bool_iff in A1, A2.
    destruct (Nat.lt_trichotomy n1 n2) as [L|[E|G]]; [|exact E|].
    - destruct n2; [lia|]. apply Qltb_true in B2.
      pose proof (Qpow_le_mono b n1 n2 Hb ltac:(lia)). lra.
    - destruct n1; [lia|]. apply Qltb_true in B1.
      pose proof (Qpow_le_mono b n2 n1 Hb ltac:(lia)). lra.
  Qed.

  (* BinToValue on a LogHist, through its defining relation v^(m*den) = b^num: increasing *)
  Lemma log_btv_increasing : forall den n1 n2 v1 v2, (0 < den)%nat ->
    log_btv_rel b m n1 den v1 -> log_btv_rel b m n2 den v2 -> (n1 < n2)%nat -> v1 < v2.
  Proof.
    intros den n1 n2 v1 v2 Hd [P1 E1] [P2 E2] H.
    apply (Qpow_base_inj_lt v1 v2 (m * den)); try assumption.
    rewrite E1, E2. apply Qpow_lt_mono; assumption.
  Qed.

  (* the edges form a geometric progression: one more bin multiplies the m-th power by b *)
  Lemma log_edges_geometric : forall i, log_edge_pow b (S i) == b * log_edge_pow b i.
  Proof. intros. reflexivity. Qed.

  (* geometric interpolation inside bin i: if v0, v1 are the edges of the bin and v the value
     at bin + j/den, then v^den = v0^(den-j) * v1^j, i.e. v = v0^(1-f) * v1^f with f = j/den *)
  Lemma log_interpolates_geometrically : forall i den j v0 v1 v, (0 < den)%nat -> (j <= den)%nat ->
    log_btv_rel b m i 1 v0 -> log_btv_rel b m (S i) 1 v1 -> log_btv_rel b m (i * den + j) den v ->
    Qpow v den == Qpow v0 (den - j) * Qpow v1 j.
  Proof.
    intros i den j v0 v1 v Hd Hj [P0 E0] [P1 E1] [P E].
    rewrite Nat.mul_1_r in E0, E1.
    apply (Qpow_base_inj _ _ m); try assumption.
    - apply Qpow_pos; assumption.
    - apply Qmult_lt_0_compat; apply Qpow_pos; assumption.
    - rewrite <- Qpow_mul. rewrite (Nat.mul_comm den m), E.
      rewrite Qpow_mult_distr, <- !Qpow_mul.
      rewrite (Nat.mul_comm (den - j) m), (Nat.mul_comm j m), !Qpow_mul, E0, E1, <- !Qpow_mul, <- Qpow_add.
      replace (i * (den - j) + S i * j)%nat with (i * den + j)%nat by nia. reflexivity.
  Qed.
End Log.

(* ====================================================================== *)
(* HistogramQuantile                                                        *)
(* ====================================================================== *)
(* number of samples in bins 0 .. k-1 *)
Definition prefix (counts : list N) (k : nat) : N := Nsum (firstn k counts).

Lemma prefix_S : forall counts k c, nth_error counts k = Some c -> prefix counts (S k) = (prefix counts k + c)%N.
Proof.
  unfold prefix. induction counts as [|a t IH]; intros [|k] c H; simpl in *; try discriminate.
  - inversion H. destruct t; simpl; lia.
  - rewrite (IH k c H). lia.
Qed.

Lemma prefix_all : forall counts k, (length counts <= k)%nat -> prefix counts k = Nsum counts.
Proof. intros. unfold prefix. rewrite firstn_all2; auto. Qed.

(* the walk: finds the bin k0+i whose cumulative range holds [goal], and the rank inside it *)
Lemma rank_walk_spec : forall counts goal k0 i c,
  nth_error counts i = Some c ->
  (prefix counts i < goal <= prefix counts i + c)%N ->
  rank_walk counts goal k0 = QAt (k0 + i) (goal - prefix counts i) c.
Proof.
  induction counts as [|a t IH]; intros goal k0 i c Hn Hg; [destruct i; discriminate|].
  destruct i as [|i]; simpl in Hn.
  - inversion Hn; subst a. unfold prefix in *. simpl in *.
    destruct (goal <=? c)%N eqn:E; [|apply N.leb_gt in E; lia].
    rewrite Nat.add_0_r, N.sub_0_r. reflexivity.
  - unfold prefix in *. simpl in Hg. simpl rank_walk.
    destruct (goal <=? a)%N eqn:E; [apply N.leb_le in E; lia|]. apply N.leb_gt in E.
    rewrite (IH (goal - a)%N (S k0) i c Hn) by (unfold prefix; lia).
    unfold prefix. simpl. f_equal; lia.
Qed.

Lemma rank_walk_panic_iff : forall counts goal k0, (0 < goal)%N ->
  (rank_walk counts goal k0 = QPanic <-> (Nsum counts < goal)%N).
Proof.
  induction counts as [|a t IH]; intros goal k0 Hg; simpl.
  - split; [intros _; lia|reflexivity].
  - destruct (goal <=? a)%N eqn:E.
    + apply N.leb_le in E. split; [discriminate|lia].
    + apply N.leb_gt in E. rewrite IH by lia. lia.
Qed.

Lemma rank_walk_not_nan : forall counts goal k0, rank_walk counts goal k0 <> QNaN.
Proof.
  induction counts as [|a t IH]; intros goal k0; simpl; [discriminate|].
  destruct (goal <=? a)%N; [discriminate|apply IH].
Qed.

(* shape of a non-panicking walk: the reported bin exists, 1 <= j <= c (when goal >= 1), and
   goal = (samples in earlier bins) + j *)
Lemma rank_walk_At : forall counts goal k0 bin j c, (0 < goal)%N ->
  rank_walk counts goal k0 = QAt bin j c ->
  exists i, bin = (k0 + i)%nat /\ nth_error counts i = Some c /\ (1 <= j <= c)%N /\ goal = (prefix counts i + j)%N.
Proof.
  induction counts as [|a t IH]; intros goal k0 bin j c Hg H; simpl in H; [discriminate|].
  destruct (goal <=? a)%N eqn:E.
  - apply N.leb_le in E. inversion H; subst. exists 0%nat. unfold prefix. simpl.
    repeat split; try lia.
  - apply N.leb_gt in E. apply IH in H; [|lia]. destruct H as [i [H1 [H2 [H3 H4]]]].
    exists (S i). unfold prefix in *. simpl. repeat split; try lia. exact H2.
Qed.

(* cumulative number of samples below bin k, under-flow included *)
Definition below (h : hstate) (k : nat) : N := (h_under h + prefix (h_bins h) k)%N.

(* RANK: if the g-th smallest sample lies in bin k (more than g-1... i.e. below k < g <= below k + c_k)
   the result is BinToValue(k + j/c_k) with j = g - below k, the rank of the sample inside its bin *)
Lemma hist_quantile_rank : forall h g k c,
  nth_error (h_bins h) k = Some c ->
  (below h k < g <= below h k + c)%N ->
  hist_quantile_goal h g = QAt k (g - below h k) c.
Proof.
  intros h g k c Hn Hg. unfold hist_quantile_goal, below in *.
  assert (Hk : (k < length (h_bins h))%nat) by (apply nth_error_Some; congruence).
  assert (Hle : (prefix (h_bins h) k + c <= Nsum (h_bins h))%N).
  { rewrite <- (prefix_S _ _ _ Hn). unfold prefix.
    rewrite <- (firstn_skipn (S k) (h_bins h)) at 2.
    clear. generalize (firstn (S k) (h_bins h)) (skipn (S k) (h_bins h)).
    intros l l0. induction l; simpl; lia. }
  destruct (g <=? h_under h)%N eqn:E1; [apply N.leb_le in E1; lia|].
  destruct (h_total h - h_over h <? g)%N eqn:E2; [apply N.ltb_lt in E2; unfold h_total in E2; lia|].
  simpl. apply N.leb_gt in E1.
  rewrite (rank_walk_spec (h_bins h) (g - h_under h) 0 k c Hn) by lia.
  simpl. f_equal. lia.
Qed.

(* the interpolated position lies inside the bin: k < k + j/c <= k+1 *)
Lemma hist_quantile_inside_bin : forall h g k j c, (0 < g)%N ->
  hist_quantile_goal h g = QAt k j c ->
  nth_error (h_bins h) k = Some c /\ (1 <= j <= c)%N /\ g = (below h k + j)%N /\
  exists p, qres_pos (QAt k j c) = Some p /\ Qofnat k < p /\ p <= Qofnat k + 1.
Proof.
  intros h g k j c Hg0 H. unfold hist_quantile_goal in H.
  destruct (g <=? h_under h)%N eqn:E1; [discriminate|].
  destruct (h_total h - h_over h <? g)%N eqn:E2; [discriminate|]. simpl in H.
  apply N.leb_gt in E1.
  apply rank_walk_At in H; [|lia]. destruct H as [i [H1 [H2 [H3 H4]]]]. simpl in H1. subst i.
  split; [exact H2|]. split; [exact H3|]. split; [unfold below; lia|].
  eexists. split; [reflexivity|].
  assert (Pc : 0 < QofN c) by (unfold QofN; change 0 with (inject_Z 0); rewrite <- Zlt_Qlt; lia).
  assert (Pj : 0 < QofN j) by (unfold QofN; change 0 with (inject_Z 0); rewrite <- Zlt_Qlt; lia).
  assert (Pjc : QofN j <= QofN c) by (unfold QofN; rewrite <- Zle_Qle; lia).
  split.
  - assert (0 < QofN j / QofN c) by (apply Qlt_shift_div_l; lra). lra.
  - assert (QofN j / QofN c <= 1) by (apply Qle_shift_div_r; lra). lra.
Qed.

(* NaN exactly when the goal is 0, or the g-th smallest sample is in the under-flow, or in the
   over-flow (or beyond the last sample) *)
Lemma hist_quantile_nan_iff : forall h g,
  hist_quantile_goal h g = QNaN <-> (g <= h_under h)%N \/ (h_total h - h_over h < g)%N.
Proof.
  intros h g. unfold hist_quantile_goal.
  destruct (g <=? h_under h)%N eqn:E1; [apply N.leb_le in E1; simpl; split; auto|].
  destruct (h_total h - h_over h <? g)%N eqn:E2; [apply N.ltb_lt in E2; simpl; split; auto|].
  simpl. apply N.leb_gt in E1. apply N.ltb_ge in E2.
  split; [intro H; exfalso; revert H; apply rank_walk_not_nan|lia].
Qed.

(* TOTAL: the final panic("goal count not reached") is unreachable, for every goal (hence for
   every q) and every counter vector — false on the pinned tree (D8) *)
Lemma hist_quantile_total : forall h g, hist_quantile_goal h g <> QPanic.
Proof.
  intros h g. unfold hist_quantile_goal.
  destruct (g <=? h_under h)%N eqn:E1; [discriminate|].
  destruct (h_total h - h_over h <? g)%N eqn:E2; [discriminate|].
  simpl. apply N.leb_gt in E1. apply N.ltb_ge in E2. unfold h_total in E2.
  intro H. apply rank_walk_panic_iff in H; lia.
Qed.

Lemma hist_quantile_q_total : forall h q, hist_quantile h q <> QPanic.
Proof. intros. apply hist_quantile_total. Qed.

Lemma prefix_mono : forall counts i j, (i <= j)%nat -> (prefix counts i <= prefix counts j)%N.
Proof.
  unfold prefix. induction counts as [|a t IH]; intros i j H.
  - rewrite !firstn_nil. lia.
  - destruct i, j; simpl; try lia. specialize (IH i j ltac:(lia)). lia.
Qed.

(* MONOTONE: a larger goal never yields a smaller position (on non-NaN results) *)
Lemma hist_quantile_goal_monotone : forall h g1 g2 p1 p2, (g1 <= g2)%N ->
  qres_pos (hist_quantile_goal h g1) = Some p1 ->
  qres_pos (hist_quantile_goal h g2) = Some p2 -> p1 <= p2.
Proof.
  intros h g1 g2 p1 p2 Hg H1 H2.
  destruct (hist_quantile_goal h g1) as [|k1 j1 c1|] eqn:E1; try discriminate.
  destruct (hist_quantile_goal h g2) as [|k2 j2 c2|] eqn:E2; try discriminate.
  assert (G1 : (0 < g1)%N).
  { destruct (N.eq_dec g1 0) as [->|]; [|lia]. unfold hist_quantile_goal in E1.
    assert ((0 <=? h_under h)%N = true) as R by (apply N.leb_le; lia). rewrite R in E1. simpl in E1. discriminate. }
  assert (G2 : (0 < g2)%N) by lia.
  destruct (hist_quantile_inside_bin _ _ _ _ _ G1 E1) as [N1 [J1 [S1 [q1 [Q1 [L1 U1]]]]]].
  destruct (hist_quantile_inside_bin _ _ _ _ _ G2 E2) as [N2 [J2 [S2 [q2 [Q2 [L2 U2]]]]]].
  rewrite H1 in Q1. rewrite H2 in Q2. inversion Q1; inversion Q2; subst q1 q2. clear Q1 Q2.
  destruct (Nat.lt_trichotomy k1 k2) as [L|[E|G]].
  - (* earlier bin: p1 <= k1+1 <= k2 < p2 *)
    assert (Qofnat k1 + 1 <= Qofnat k2).
    { unfold Qofnat. change 1 with (inject_Z 1). rewrite <- inject_Z_plus, <- Zle_Qle. lia. }
    lra.
  - (* same bin: same count, ranks ordered *)
    subst k2. rewrite N1 in N2. inversion N2; subst c2.
    simpl in H1, H2. inversion H1; inversion H2; subst p1 p2.
    assert (Pc : 0 < QofN c1) by (unfold QofN; change 0 with (inject_Z 0); rewrite <- Zlt_Qlt; lia).
    assert (QofN j1 <= QofN j2) by (unfold QofN; rewrite <- Zle_Qle; lia).
    assert (QofN j1 / QofN c1 <= QofN j2 / QofN c1).
    { apply Qle_shift_div_l; [lra|].
      assert (E : QofN j1 / QofN c1 * QofN c1 == QofN j1) by (field; lra). rewrite E. assumption. }
    lra.
  - (* a later bin for the smaller goal is impossible *)
    exfalso. unfold below in *.
    pose proof (prefix_mono (h_bins h) (S k2) k1 ltac:(lia)) as M.
    rewrite (prefix_S _ _ _ N2) in M. lia.
Qed.

Lemma QofN_nonneg : forall n, 0 <= QofN n.
Proof. intros. unfold QofN. change 0 with (inject_Z 0). rewrite <- Zle_Qle. lia. Qed.

Lemma hist_goal_monotone : forall total q1 q2, q1 <= q2 -> (hist_goal total q1 <= hist_goal total q2)%N.
Proof.
  intros total q1 q2 H. unfold hist_goal.
  pose proof (QofN_nonneg total) as P.
  assert (QofN total * q1 <= QofN total * q2) by (rewrite !(Qmult_comm (QofN total)); apply Qmult_le_compat_r; assumption).
  pose proof (Qfloor_resp_le _ _ H0). lia.
Qed.

Lemma hist_goal_le_total : forall total q, q <= 1 -> (hist_goal total q <= total)%N.
Proof.
  intros total q H. unfold hist_goal.
  pose proof (QofN_nonneg total) as P.
  assert (A : QofN total * q <= QofN total).
  { setoid_replace (QofN total) with (QofN total * 1) at 2 by ring.
    rewrite !(Qmult_comm (QofN total)). apply Qmult_le_compat_r; assumption. }
  pose proof (Qfloor_resp_le _ _ A) as F. unfold QofN in F at 2. rewrite Qfloor_Z in F. lia.
Qed.

(* HistogramQuantile is non-decreasing in q under every increasing BinToValue *)
Lemma hist_quantile_monotone_in_q : forall (btv : Q -> Q),
  (forall a b, a <= b -> btv a <= btv b) ->
  forall h q1 q2 v1 v2, q1 <= q2 ->
  qres_value btv (hist_quantile h q1) = Some v1 ->
  qres_value btv (hist_quantile h q2) = Some v2 -> v1 <= v2.
Proof.
  intros btv Hb h q1 q2 v1 v2 Hq H1 H2. unfold qres_value, hist_quantile in *.
  destruct (qres_pos (hist_quantile_goal h (hist_goal (h_total h) q1))) as [p1|] eqn:E1; [|discriminate].
  destruct (qres_pos (hist_quantile_goal h (hist_goal (h_total h) q2))) as [p2|] eqn:E2; [|discriminate].
  inversion H1; inversion H2; subst. apply Hb.
  eapply hist_quantile_goal_monotone; [|exact E1|exact E2].
  apply hist_goal_monotone; assumption.
Qed.

(* for q in [0,1] a NaN means exactly: rank 0, or the sample is in the under- or over-flow *)
Lemma hist_quantile_nan_iff_q : forall h q, 0 <= q -> q <= 1 ->
  let g := hist_goal (h_total h) q in
  (g <= h_total h)%N /\
  (hist_quantile h q = QNaN <-> (g <= h_under h)%N \/ (h_total h - h_over h < g)%N).
Proof.
  intros h q H0 H1 g. split.
  - apply hist_goal_le_total; assumption.
  - apply hist_quantile_nan_iff.
Qed.

(* HistogramIQR is the difference of the 0.75 and 0.25 quantiles *)
Lemma hist_iqr_def : forall btv h a b,
  qres_value btv (hist_quantile h (3 # 4)) = Some a ->
  qres_value btv (hist_quantile h (1 # 4)) = Some b ->
  hist_iqr btv h = Some (a - b).
Proof. intros btv h a b Ha Hb. unfold hist_iqr. rewrite Ha, Hb. reflexivity. Qed.

(* ====================================================================== *)
(* after any history each counter holds the number of added values that     *)
(* its slot selects                                                         *)
(* ====================================================================== *)
Definition slot_eqb (a b : slot) : bool :=
  match a, b with
  | SUnder, SUnder => true
  | SOver, SOver => true
  | SBin i, SBin j => (i =? j)%nat
  | _, _ => false
  end.
Lemma slot_eqb_eq : forall a b, slot_eqb a b = true <-> a = b.
Proof.
  intros [|i|] [|j|]; simpl; split; intro H; try discriminate; try reflexivity.
  - apply Nat.eqb_eq in H. subst. reflexivity.
  - inversion H. apply Nat.eqb_refl.
Qed.

Definition count_slot (slot_of : Q -> slot) (s : slot) (xs : list Q) : N :=
  N.of_nat (length (filter (fun x => slot_eqb (slot_of x) s) xs)).

Lemma counts_gen : forall (slot_of : Q -> slot) xs h s,
  (forall x, valid_slot (length (h_bins h)) (slot_of x)) -> valid_slot (length (h_bins h)) s ->
  exists c, slot_count h s = Some c /\
  slot_count (fold_left (fun h x => h_incr h (slot_of x)) xs h) s = Some (c + count_slot slot_of s xs)%N.
Proof.
  intros slot_of. induction xs as [|x t IH]; intros h s Hv Hs.
  - destruct (h_incr_exactly h s Hs) as [_ [[c [C1 _]] _]].
    exists c. split; [exact C1|]. simpl. unfold count_slot. simpl. rewrite N.add_0_r. exact C1.
  - simpl fold_left.
    destruct (h_incr_exactly h (slot_of x) (Hv x)) as [_ [[c0 [A1 A2]] [A3 A4]]].
    assert (Hv' : forall y, valid_slot (length (h_bins (h_incr h (slot_of x)))) (slot_of y)) by (intro y; rewrite A4; apply Hv).
    assert (Hs' : valid_slot (length (h_bins (h_incr h (slot_of x)))) s) by (rewrite A4; exact Hs).
    destruct (IH (h_incr h (slot_of x)) s Hv' Hs') as [c' [B1 B2]].
    unfold count_slot in *. cbn [filter].
    destruct (slot_eqb (slot_of x) s) eqn:E.
    + apply slot_eqb_eq in E. rewrite E in *. exists c0. split; [exact A1|].
      rewrite B2. rewrite A2 in B1. inversion B1; subst c'. f_equal. simpl length. lia.
    + assert (Hne : s <> slot_of x) by (intro Eq; subst s; rewrite (proj2 (slot_eqb_eq _ _) eq_refl) in E; discriminate).
      rewrite (A3 s Hne) in B1. exists c'. split; [exact B1|exact B2].
Qed.

(* LinearHist: after any sequence of Adds, bin i holds exactly the number of added values x
   with BinToValue(i) <= x < BinToValue(i+1) (by lin_bin_iff_edges), under / over likewise *)
Lemma lin_run_counts : forall mn mx nbins xs s, valid_slot nbins s ->
  slot_count (lin_run mn mx nbins xs) s = Some (count_slot (lin_slot mn mx nbins) s xs).
Proof.
  intros mn mx nbins xs s Hs. unfold lin_run.
  assert (E : fold_left (lin_add mn mx) xs (h_empty nbins) =
              fold_left (fun h x => h_incr h (lin_slot mn mx nbins x)) xs (h_empty nbins)).
  { assert (G : forall xs h, length (h_bins h) = nbins ->
                fold_left (lin_add mn mx) xs h = fold_left (fun h x => h_incr h (lin_slot mn mx nbins x)) xs h).
    { induction xs0 as [|x t IH]; intros h Hl; [reflexivity|]. simpl. unfold lin_add at 2. rewrite Hl.
      apply IH. destruct (lin_slot mn mx nbins x); simpl; auto. rewrite incr_nth_length. exact Hl. }
    apply G. simpl. apply repeat_length. }
  rewrite E.
  assert (Hl : length (h_bins (h_empty nbins)) = nbins) by (simpl; apply repeat_length).
  destruct (counts_gen (lin_slot mn mx nbins) xs (h_empty nbins) s) as [c [C1 C2]].
  - intro x. rewrite Hl. apply dispatch_valid.
  - rewrite Hl. exact Hs.
  - rewrite C2. f_equal.
    assert (c = 0%N).
    { destruct s as [|i|]; simpl in C1; try (inversion C1; reflexivity).
      simpl in Hs. rewrite nth_error_repeat in C1 by exact Hs. inversion C1. reflexivity. }
    subst c. lia.
Qed.

Lemma log_run_counts : forall b m nbins xs s, valid_slot nbins s ->
  slot_count (log_run b m nbins xs) s = Some (count_slot (log_slot b m nbins) s xs).
Proof.
  intros b m nbins xs s Hs. unfold log_run.
  assert (E : fold_left (log_add b m) xs (h_empty nbins) =
              fold_left (fun h x => h_incr h (log_slot b m nbins x)) xs (h_empty nbins)).
  { assert (G : forall xs h, length (h_bins h) = nbins ->
                fold_left (log_add b m) xs h = fold_left (fun h x => h_incr h (log_slot b m nbins x)) xs h).
    { induction xs0 as [|x t IH]; intros h Hl; [reflexivity|]. simpl. unfold log_add at 2. rewrite Hl.
      apply IH. destruct (log_slot b m nbins x); simpl; auto. rewrite incr_nth_length. exact Hl. }
    apply G. simpl. apply repeat_length. }
  rewrite E.
  assert (Hl : length (h_bins (h_empty nbins)) = nbins) by (simpl; apply repeat_length).
  destruct (counts_gen (log_slot b m nbins) xs (h_empty nbins) s) as [c [C1 C2]].
  - intro x. rewrite Hl. apply dispatch_valid.
  - rewrite Hl. exact Hs.
  - rewrite C2. f_equal.
    assert (c = 0%N).
    { destruct s as [|i|]; simpl in C1; try (inversion C1; reflexivity).
      simpl in Hs. rewrite nth_error_repeat in C1 by exact Hs. inversion C1. reflexivity. }
    subst c. lia.
Qed.

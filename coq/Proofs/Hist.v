(* Proofs/Hist.v — theorems about Model/Hist.v (C14). *)
From MM Require Import Base.Num Model.Hist.
From Coq Require Import Qround Lia Lqa.
Local Open Scope Q_scope.

(* ---------- counters ---------- *)
Lemma Nsum_incr_nth : forall l i, (i < length l)%nat -> Nsum (incr_nth l i) = (Nsum l + 1)%N.
Proof.
  induction l as [|c t IH]; intros i Hi; simpl in *; [lia|].
  destruct i; simpl; [lia|]. rewrite IH by lia. lia.
Qed.

Lemma incr_nth_length : forall l i, length (incr_nth l i) = length l.
Proof. induction l; intros [|i]; simpl; auto. Qed.

(* Proofs/Hyperg.v — the hypergeometric model (Model/Hyperg.v) against its definition. *)
From MM Require Import Base.Num Base.GFSum Base.GFComb Model.Choose Model.Hyperg Proofs.Choose.
From Coq Require Import Lqa Lia Qround Qfield.
Local Open Scope Z_scope.

Definition hg_valid (N K n : Z) : Prop := 0 <= K <= N /\ 0 <= n <= N.

(* ---------- more facts about choose at Z level ---------- *)
Lemma choose_sym_all : forall n k, 0 <= n -> choose n k = choose n (n - k).
Proof.
  intros n k Hn. destruct (Z.ltb_spec k 0).
  - rewrite choose_neg, choose_gt by lia. reflexivity.
  - destruct (Z.ltb_spec n k).
    + rewrite choose_gt, choose_neg by lia. reflexivity.
    + apply choose_sym. lia.
Qed.

Lemma choose_succ_mul : forall n k, 0 <= n -> 0 <= k -> choose n (k + 1) * (k + 1) = choose n k * (n - k).
Proof.
  intros n k Hn Hk. rewrite !choose_Z by lia.
  replace (Z.to_nat (k + 1)) with (S (Z.to_nat k)) by lia.
  pose proof (binom_succ_mul (Z.to_nat n) (Z.to_nat k)) as H.
  rewrite Nat2Z.inj_succ, !Z2Nat.id in H by lia. unfold Z.succ in H. exact H.
Qed.

Lemma vandermonde_Z : forall K M n, 0 <= K -> 0 <= M -> 0 <= n ->
  Zsum_range (fun k => choose K k * choose M (n - k)) 0 n = choose (K + M) n.
Proof.
  intros K M n HK HM Hn. unfold Zsum_range.
  replace (Z.to_nat (n - 0 + 1)) with (S (Z.to_nat n)) by lia.
  rewrite (Zsum_n_ext _ (fun k => binom (Z.to_nat K) k * binom (Z.to_nat M) (Z.to_nat n - k))).
  - rewrite vandermonde. rewrite choose_Z by lia. f_equal. lia.
  - intros i Hi. rewrite !choose_Z by lia. f_equal; f_equal; lia.
Qed.

(* ---------- the numerators u_k = C(K,k) C(N-K,n-k) ---------- *)
Section HG.
Variables N K n : Z.
Hypothesis Hv : hg_valid N K n.
Let lo := hg_lo N K n.
Let hi := hg_hi N K n.
Let u := hg_num N K n.
Let T := choose N n.

Lemma hg_lo_hi : 0 <= lo /\ lo <= hi /\ hi <= n /\ hi <= K.
Proof. unfold lo, hi, hg_lo, hg_hi. destruct Hv. lia. Qed.

Lemma hg_T_pos : 0 < T.
Proof. unfold T. apply choose_pos. destruct Hv. lia. Qed.

Lemma hg_num_outside : forall k, k < lo \/ hi < k -> u k = 0.
Proof.
  intros k Hk. unfold u, hg_num, lo, hi, hg_lo, hg_hi in *. destruct Hv as [HK Hn].
  destruct (Z.ltb_spec k 0). { rewrite (choose_neg K k) by lia. lia. }
  destruct (Z.ltb_spec K k). { rewrite (choose_gt K k) by lia. lia. }
  destruct (Z.ltb_spec n k). { rewrite (choose_neg (N - K) (n - k)) by lia. lia. }
  rewrite (choose_gt (N - K) (n - k)) by lia. lia.
Qed.

Lemma hg_num_inside : forall k, lo <= k <= hi -> 0 < u k.
Proof.
  intros k Hk. unfold u, hg_num, lo, hi, hg_lo, hg_hi in *. destruct Hv as [HK Hn].
  apply Z.mul_pos_pos; apply choose_pos; lia.
Qed.

Lemma hg_num_total : Zsum_range u lo hi = T.
Proof.
  pose proof hg_lo_hi as [H0 [H1 [H2 H3]]]. destruct Hv as [HK Hn].
  assert (E : Zsum_range u 0 n = T).
  { unfold u, hg_num, T. rewrite vandermonde_Z by lia. f_equal. lia. }
  rewrite (Zsum_range_split u 0 lo n) in E by lia.
  rewrite (Zsum_range_split u lo (hi + 1) n) in E by lia.
  rewrite (Zsum_range_zero u 0 (lo - 1)) in E by (intros; apply hg_num_outside; lia).
  rewrite (Zsum_range_zero u (hi + 1) n) in E by (intros; apply hg_num_outside; lia).
  replace (hi + 1 - 1) with hi in E by lia. lia.
Qed.

(* consecutive numerators: u(j-1) (K-j+1)(n-j+1) = u(j) j (N-K-n+j) *)
Lemma hg_num_ratio : forall j, lo < j <= hi ->
  u (j - 1) * ((K - j + 1) * (n - j + 1)) = u j * (j * (N - K - n + j)).
Proof.
  intros j Hj. pose proof hg_lo_hi as [H0 [H1 [H2 H3]]]. destruct Hv as [HK Hn].
  unfold u, hg_num.
  pose proof (choose_succ_mul K (j - 1) ltac:(lia) ltac:(lia)) as E1.
  pose proof (choose_succ_mul (N - K) (n - j) ltac:(lia) ltac:(lia)) as E2.
  replace (j - 1 + 1) with j in E1 by lia.
  replace (n - (j - 1)) with (n - j + 1) by lia.
  set (a := choose K (j - 1)) in *. set (b := choose K j) in *.
  set (c := choose (N - K) (n - j + 1)) in *. set (d := choose (N - K) (n - j)) in *.
  transitivity ((a * (K - (j - 1))) * (c * (n - j + 1))); [ring|].
  rewrite <- E1, E2. ring.
Qed.
End HG.

(* flipping Draws to N - Draws mirrors the numerators: u'_j = u_{K-j} *)
Lemma hg_num_flip : forall N K n j, hg_valid N K n -> hg_num N K (N - n) j = hg_num N K n (K - j).
Proof.
  intros N K n j [HK Hn]. unfold hg_num.
  rewrite (choose_sym_all K j) by lia.
  rewrite (choose_sym_all (N - K) (N - n - j)) by lia.
  f_equal. f_equal. lia.
Qed.

Lemma hg_valid_flip : forall N K n, hg_valid N K n -> hg_valid N K (N - n).
Proof. unfold hg_valid. intros. lia. Qed.

(* ---------- Q level ---------- *)
Local Open Scope Q_scope.

Lemma inject_Z_nonzero : forall z, (z <> 0)%Z -> ~ inject_Z z == 0.
Proof. intros z H E. apply H. unfold Qeq in E. simpl in E. lia. Qed.

Section HGQ.
Variables N K n : Z.
Hypothesis Hv : hg_valid N K n.
Let lo := hg_lo N K n.
Let hi := hg_hi N K n.
Let P := hg_pmf_i N K n.

Lemma hg_T_nonzero : ~ inject_Z (choose N n) == 0.
Proof. apply inject_Z_nonzero. pose proof (hg_T_pos N K n Hv). lia. Qed.

Lemma hg_pmf_sum_Z : forall a b,
  Qsum_range P a b == inject_Z (Zsum_range (hg_num N K n) a b) / inject_Z (choose N n).
Proof.
  intros a b. unfold P, hg_pmf_i.
  rewrite (Qsum_range_ext _ (fun j => / inject_Z (choose N n) * inject_Z (hg_num N K n j))).
  2:{ intros j Hj. field. apply hg_T_nonzero. }
  rewrite Qsum_range_scal, Qsum_range_inject. field. apply hg_T_nonzero.
Qed.

(* Vandermonde: the PMF sums to 1 over the support *)
Theorem hg_pmf_sums_to_one : Qsum_range P lo hi == 1.
Proof.
  rewrite hg_pmf_sum_Z. unfold lo, hi. rewrite (hg_num_total N K n Hv). field. apply hg_T_nonzero.
Qed.

(* the support is exactly lo..hi *)
Theorem hg_bounds_support : forall k, ~ P k == 0 <-> (lo <= k <= hi)%Z.
Proof.
  intros k. unfold P, hg_pmf_i. split.
  - intros H. destruct (Z.ltb_spec k lo) as [L|L]; [|destruct (Z.ltb_spec hi k) as [L2|L2]; [|lia]];
      exfalso; apply H; rewrite (hg_num_outside N K n Hv k) by (fold lo hi; lia);
      field; apply hg_T_nonzero.
  - intros Hk E.
    pose proof (hg_num_inside N K n Hv k Hk) as Hp.
    apply (inject_Z_nonzero (hg_num N K n k)); [lia|].
    rewrite <- (Qmult_0_l (inject_Z (choose N n))). rewrite <- E. field. apply hg_T_nonzero.
Qed.

Lemma hg_pmf_nonneg : forall k, 0 <= P k.
Proof.
  intros k. unfold P, hg_pmf_i.
  apply Qle_shift_div_l.
  - change 0 with (inject_Z 0). rewrite <- Zlt_Qlt. apply (hg_T_pos N K n Hv).
  - rewrite Qmult_0_l. change 0 with (inject_Z 0). rewrite <- Zle_Qle.
    destruct (Z.ltb_spec k lo) as [L|L]; [|destruct (Z.ltb_spec hi k) as [L2|L2]].
    + rewrite (hg_num_outside N K n Hv k) by (fold lo hi; lia). lia.
    + rewrite (hg_num_outside N K n Hv k) by (fold lo hi; lia). lia.
    + pose proof (hg_num_inside N K n Hv k ltac:(fold lo hi; lia)). lia.
Qed.

(* the ratio the loop of sum() multiplies by *)
Lemma hg_pmf_ratio : forall j, (lo < j <= hi)%Z ->
  P (j - 1) == P j * (inject_Z j / inject_Z (n - j + 1)) * (inject_Z (N - K - n + j) / inject_Z (K - j + 1)).
Proof.
  intros j Hj. pose proof (hg_lo_hi N K n Hv) as [H0 [H1 [H2 H3]]]. fold lo hi in H0, H1, H2, H3.
  pose proof (hg_num_ratio N K n Hv j Hj) as E.
  assert (EQ : inject_Z (hg_num N K n (j - 1)) * (inject_Z (K - j + 1) * inject_Z (n - j + 1)) ==
               inject_Z (hg_num N K n j) * (inject_Z j * inject_Z (N - K - n + j))).
  { rewrite <- !inject_Z_mult. rewrite E. reflexivity. }
  assert (D1 : ~ inject_Z (n - j + 1) == 0) by (apply inject_Z_nonzero; lia).
  assert (D2 : ~ inject_Z (K - j + 1) == 0) by (apply inject_Z_nonzero; lia).
  pose proof hg_T_nonzero as D3.
  unfold P, hg_pmf_i.
  apply (Qmult_inj_r _ _ (inject_Z (K - j + 1) * inject_Z (n - j + 1))).
  { intros Z0. apply Qmult_integral in Z0. tauto. }
  transitivity (inject_Z (hg_num N K n (j - 1)) * (inject_Z (K - j + 1) * inject_Z (n - j + 1)) / inject_Z (choose N n)).
  { field. exact D3. }
  rewrite EQ. field. repeat split; assumption.
Qed.

(* invariant of the loop in sum(): after the loop, pmf(k) * sum = pmf(k) * sum0 + the next cnt terms downwards *)
Lemma hg_sum_loop_spec : forall k, (k <= hi)%Z -> forall cnt dk ak sum,
  (1 <= dk)%Z -> (dk + Z.of_nat cnt - 1 <= k - lo)%Z ->
  P k * ak == P (k - dk + 1) ->
  P k * hg_sum_loop N K n k cnt dk ak sum ==
  P k * sum + Qsum_range P (k - dk + 1 - Z.of_nat cnt) (k - dk).
Proof.
  intros k Hk. induction cnt as [|cnt IH]; intros dk ak sum H1 H2 Hak.
  - simpl hg_sum_loop. rewrite Qsum_range_empty by lia. ring.
  - cbn [hg_sum_loop].
    set (ak' := ak * (inject_Z (1 + k - dk) / inject_Z (n - k + dk))
                   * (inject_Z (N - K - n + k + 1 - dk) / inject_Z (K - k + dk))).
    assert (Hak' : P k * ak' == P (k - (dk + 1) + 1)).
    { unfold ak'. replace (k - (dk + 1) + 1)%Z with ((k - dk + 1) - 1)%Z by lia.
      rewrite (hg_pmf_ratio (k - dk + 1)) by lia.
      replace (1 + k - dk)%Z with (k - dk + 1)%Z by lia.
      replace (n - (k - dk + 1) + 1)%Z with (n - k + dk)%Z by lia.
      replace (N - K - n + (k - dk + 1))%Z with (N - K - n + k + 1 - dk)%Z by lia.
      replace (K - (k - dk + 1) + 1)%Z with (K - k + dk)%Z by lia.
      rewrite <- Hak. ring. }
    rewrite (IH (dk + 1)%Z ak' (sum + ak')) by (try lia; exact Hak').
    replace (k - (dk + 1) + 1 - Z.of_nat cnt)%Z with (k - dk + 1 - Z.of_nat (S cnt))%Z by lia.
    replace (k - (dk + 1))%Z with (k - dk - 1)%Z by lia.
    pose proof (Qsum_range_last P (k - dk + 1 - Z.of_nat (S cnt)) (k - dk - 1) ltac:(lia)) as EL.
    replace (k - dk - 1 + 1)%Z with (k - dk)%Z in EL by lia.
    rewrite EL.
    replace (k - (dk + 1) + 1)%Z with (k - dk)%Z in Hak' by lia.
    rewrite <- Hak'. ring.
Qed.

(* telescoping: pmf(k) * sum(k) is the lower partial sum of the PMF *)
Theorem hg_sum_is_cdf : forall k, (lo <= k <= hi)%Z ->
  P k * hg_sum N K n k == Qsum_range P lo k.
Proof.
  intros k Hk. unfold hg_sum. fold lo.
  rewrite (hg_sum_loop_spec k) by (try lia; replace (k - 1 + 1)%Z with k by lia; ring).
  replace (k - 1 + 1 - Z.of_nat (Z.to_nat (k - lo)))%Z with lo by lia.
  rewrite (Qsum_range_split P lo k k) by lia.
  rewrite (Qsum_range_split P k (k + 1) k) by lia.
  replace (k + 1 - 1)%Z with k by lia.
  rewrite (Qsum_range_empty P (k + 1) k) by lia.
  assert (E : Qsum_range P k k == P k).
  { unfold Qsum_range. replace (Z.to_nat (k - k + 1)) with 1%nat by lia. simpl.
    replace (k + 0)%Z with k by lia. ring. }
  rewrite E. ring.
Qed.
End HGQ.

(* both branches of CDF compute the same lower sum: the flipped tail *)
Theorem hg_flip : forall N K n k, hg_valid N K n -> (hg_lo N K n <= k < hg_hi N K n)%Z ->
  Qsum_range (hg_pmf_i N K n) (hg_lo N K n) k ==
  1 - Qsum_range (hg_pmf_i N K (N - n)) (hg_lo N K (N - n)) (K - k - 1).
Proof.
  intros N K n k Hv Hk.
  pose proof (hg_pmf_sums_to_one N K n Hv) as S1.
  rewrite (Qsum_range_split _ _ (k + 1) _) in S1 by lia.
  replace (k + 1 - 1)%Z with k in S1 by lia.
  assert (E : Qsum_range (hg_pmf_i N K (N - n)) (hg_lo N K (N - n)) (K - k - 1) ==
              Qsum_range (hg_pmf_i N K n) (k + 1) (hg_hi N K n)).
  { rewrite (hg_pmf_sum_Z N K (N - n) (hg_valid_flip _ _ _ Hv)).
    rewrite (hg_pmf_sum_Z N K n Hv).
    assert (ET : choose N (N - n) = choose N n).
    { destruct Hv. rewrite (choose_sym_all N n) by lia. reflexivity. }
    rewrite ET.
    rewrite (Zsum_range_reflect (hg_num N K n) (k + 1) (hg_hi N K n) K).
    replace (K - (k + 1))%Z with (K - k - 1)%Z by lia.
    replace (K - hg_hi N K n)%Z with (hg_lo N K (N - n)) by (unfold hg_lo, hg_hi; destruct Hv; lia).
    rewrite (Zsum_range_ext (hg_num N K (N - n)) (fun j => hg_num N K n (K - j))).
    - reflexivity.
    - intros j Hj. apply hg_num_flip. exact Hv. }
  rewrite E. rewrite <- S1. ring.
Qed.

(* ---------- the CDF as the code computes it is the sum of the PMF ---------- *)
Lemma hg_pmf_inject : forall N K n j,
  hg_pmf N K n (inject_Z j) =
  if (j <? hg_lo N K n)%Z || (hg_hi N K n <? j)%Z then 0 else hg_pmf_i N K n j.
Proof. intros. unfold hg_pmf. rewrite Qfloor_Z. reflexivity. Qed.

Theorem hg_cdf_i_is_sum : forall N K n ki, hg_valid N K n ->
  hg_cdf_i N K n ki == Qsum_range (fun j => hg_pmf N K n (inject_Z j)) (hg_lo N K n) ki.
Proof.
  intros N K n ki Hv. pose proof (hg_lo_hi N K n Hv) as [H0 [H1 [H2 H3]]].
  unfold hg_cdf_i.
  destruct (Z.ltb_spec ki (hg_lo N K n)) as [L|L].
  { rewrite Qsum_range_empty by lia. reflexivity. }
  assert (IN : forall a b, (hg_lo N K n <= a)%Z -> (b <= hg_hi N K n)%Z ->
               Qsum_range (fun j => hg_pmf N K n (inject_Z j)) a b == Qsum_range (hg_pmf_i N K n) a b).
  { intros a b Ha Hb. apply Qsum_range_ext. intros j Hj. rewrite hg_pmf_inject.
    destruct (Z.ltb_spec j (hg_lo N K n)); [lia|]. destruct (Z.ltb_spec (hg_hi N K n) j); [lia|]. reflexivity. }
  destruct (Z.leb_spec (hg_hi N K n) ki) as [L2|L2].
  - rewrite (Qsum_range_split _ _ (hg_hi N K n + 1) _) by lia.
    replace (hg_hi N K n + 1 - 1)%Z with (hg_hi N K n) by lia.
    rewrite IN by lia. rewrite (hg_pmf_sums_to_one N K n Hv).
    rewrite Qsum_range_zero; [ring|]. intros j Hj. rewrite hg_pmf_inject.
    destruct (Z.ltb_spec (hg_hi N K n) j); [|lia]. rewrite orb_true_r. reflexivity.
  - rewrite IN by lia.
    destruct (hg_flip_test N K n ki).
    + cbv zeta. rewrite (hg_flip N K n ki Hv) by lia.
      rewrite (hg_sum_is_cdf N K (N - n) (hg_valid_flip _ _ _ Hv)).
      * reflexivity.
      * unfold hg_lo, hg_hi in *. destruct Hv. lia.
    + apply (hg_sum_is_cdf N K n Hv). lia.
Qed.

Theorem hg_cdf_is_sum : forall N K n k, hg_valid N K n ->
  hg_cdf N K n k == Qsum_range (fun j => hg_pmf N K n (inject_Z j)) (hg_lo N K n) (Qfloor k).
Proof. intros. unfold hg_cdf. apply hg_cdf_i_is_sum. assumption. Qed.

Lemma hg_pmf_floor : forall N K n k, hg_pmf N K n k = hg_pmf N K n (inject_Z (Qfloor k)).
Proof. intros. unfold hg_pmf. rewrite Qfloor_Z. reflexivity. Qed.
Lemma hg_cdf_zero_below : forall N K n k, (Qfloor k < hg_lo N K n)%Z -> hg_cdf N K n k = 0.
Proof. intros. unfold hg_cdf, hg_cdf_i. destruct (Z.ltb_spec (Qfloor k) (hg_lo N K n)); [reflexivity|lia]. Qed.
Lemma hg_cdf_one_from_top : forall N K n k, hg_valid N K n -> (hg_hi N K n <= Qfloor k)%Z -> hg_cdf N K n k = 1.
Proof.
  intros N K n k Hv H. pose proof (hg_lo_hi N K n Hv). unfold hg_cdf, hg_cdf_i.
  destruct (Z.ltb_spec (Qfloor k) (hg_lo N K n)); [lia|].
  destruct (Z.leb_spec (hg_hi N K n) (Qfloor k)); [reflexivity|lia].
Qed.
Lemma hg_pmf_zero_outside : forall N K n k, (Qfloor k < hg_lo N K n \/ hg_hi N K n < Qfloor k)%Z -> hg_pmf N K n k = 0.
Proof.
  intros N K n k H. unfold hg_pmf.
  destruct (Z.ltb_spec (Qfloor k) (hg_lo N K n)); [reflexivity|].
  destruct (Z.ltb_spec (hg_hi N K n) (Qfloor k)); [reflexivity|lia].
Qed.

(* ---------- moments: Mean() and Variance() are the first two moments of the PMF ---------- *)
Local Open Scope Z_scope.

(* weighted sums over the support equal the sums over 0..n, and those are nat-indexed convolutions *)
Lemma hg_weighted_support : forall N K n (g : Z -> Z), hg_valid N K n ->
  Zsum_range (fun j => g j * hg_num N K n j) (hg_lo N K n) (hg_hi N K n) =
  Zsum_n (fun i => g (Z.of_nat i) * (binom (Z.to_nat K) i * binom (Z.to_nat (N - K)) (Z.to_nat n - i))) (S (Z.to_nat n)).
Proof.
  intros N K n g Hv. pose proof (hg_lo_hi N K n Hv) as [H0 [H1 [H2 H3]]]. destruct Hv as [HK Hn].
  set (f := fun j => g j * hg_num N K n j).
  assert (E : Zsum_range f 0 n = Zsum_range f (hg_lo N K n) (hg_hi N K n)).
  { rewrite (Zsum_range_split f 0 (hg_lo N K n) n) by lia.
    rewrite (Zsum_range_split f (hg_lo N K n) (hg_hi N K n + 1) n) by lia.
    rewrite (Zsum_range_zero f 0 (hg_lo N K n - 1)).
    2:{ intros j Hj. unfold f. rewrite (hg_num_outside N K n (conj HK Hn)) by lia. ring. }
    rewrite (Zsum_range_zero f (hg_hi N K n + 1) n).
    2:{ intros j Hj. unfold f. rewrite (hg_num_outside N K n (conj HK Hn)) by lia. ring. }
    replace (hg_hi N K n + 1 - 1) with (hg_hi N K n) by lia. lia. }
  rewrite <- E. unfold Zsum_range. replace (Z.to_nat (n - 0 + 1)) with (S (Z.to_nat n)) by lia.
  apply Zsum_n_ext. intros i Hi. unfold f, hg_num. simpl (0 + Z.of_nat i).
  rewrite !choose_Z by lia. rewrite Nat2Z.id. repeat f_equal. lia.
Qed.

Lemma hg_moment1_Z : forall N K n, hg_valid N K n ->
  Zsum_range (fun j => j * hg_num N K n j) (hg_lo N K n) (hg_hi N K n) * N = K * n * choose N n.
Proof.
  intros N K n Hv. rewrite (hg_weighted_support N K n (fun j => j) Hv). destruct Hv as [HK Hn].
  pose proof (vandermonde_moment1 (Z.to_nat K) (Z.to_nat (N - K)) (Z.to_nat n)) as H.
  replace (Z.to_nat K + Z.to_nat (N - K))%nat with (Z.to_nat N) in H by lia.
  rewrite !Z2Nat.id in H by lia. rewrite choose_Z by lia. exact H.
Qed.

Lemma hg_moment2_Z : forall N K n, hg_valid N K n ->
  Zsum_range (fun j => j * (j - 1) * hg_num N K n j) (hg_lo N K n) (hg_hi N K n) * (N * (N - 1))
  = K * (K - 1) * (n * (n - 1)) * choose N n.
Proof.
  intros N K n Hv. rewrite (hg_weighted_support N K n (fun j => j * (j - 1)) Hv). destruct Hv as [HK Hn].
  pose proof (vandermonde_moment2 (Z.to_nat K) (Z.to_nat (N - K)) (Z.to_nat n)) as H.
  replace (Z.to_nat K + Z.to_nat (N - K))%nat with (Z.to_nat N) in H by lia.
  rewrite !Z2Nat.id in H by lia. rewrite choose_Z by lia. exact H.
Qed.

Local Open Scope Q_scope.

Lemma hg_weighted_sum_Q : forall N K n (g : Z -> Z) a b, hg_valid N K n ->
  Qsum_range (fun j => inject_Z (g j) * hg_pmf_i N K n j) a b ==
  inject_Z (Zsum_range (fun j => (g j * hg_num N K n j)%Z) a b) / inject_Z (choose N n).
Proof.
  intros N K n g a b Hv. unfold hg_pmf_i.
  rewrite (Qsum_range_ext _ (fun j => / inject_Z (choose N n) * inject_Z (g j * hg_num N K n j)%Z)).
  2:{ intros j Hj. rewrite inject_Z_mult. field. apply (hg_T_nonzero N K n Hv). }
  rewrite Qsum_range_scal, Qsum_range_inject. field. apply (hg_T_nonzero N K n Hv).
Qed.

Lemma Qdiv_cross : forall a t c d, ~ t == 0 -> ~ d == 0 -> a * d == c * t -> a / t == c / d.
Proof.
  intros a t c d Ht Hd H. transitivity ((a * d) / (t * d)); [field; split; assumption|].
  rewrite H. field. split; assumption.
Qed.

Theorem hg_mean_is_first_moment : forall N K n, hg_valid N K n -> (0 < N)%Z ->
  Qsum_range (fun j => inject_Z j * hg_pmf_i N K n j) (hg_lo N K n) (hg_hi N K n) == hg_mean N K n.
Proof.
  intros N K n Hv HN. rewrite (hg_weighted_sum_Q N K n (fun j => j) _ _ Hv). unfold hg_mean.
  apply Qdiv_cross.
  - apply (hg_T_nonzero N K n Hv).
  - apply inject_Z_nonzero. lia.
  - rewrite <- !inject_Z_mult. rewrite (hg_moment1_Z N K n Hv). apply inject_Z_injective. ring.
Qed.

Theorem hg_variance_is_second_central_moment : forall N K n, hg_valid N K n -> (2 <= N)%Z ->
  Qsum_range (fun j => (inject_Z j - hg_mean N K n) * (inject_Z j - hg_mean N K n) * hg_pmf_i N K n j)
             (hg_lo N K n) (hg_hi N K n) == hg_var N K n.
Proof.
  intros N K n Hv HN.
  set (mu := hg_mean N K n).
  rewrite (Qsum_range_ext _ (fun j => inject_Z (j * (j - 1)) * hg_pmf_i N K n j
                                      + ((1 - 2 * mu) * (inject_Z j * hg_pmf_i N K n j) + mu * mu * hg_pmf_i N K n j))).
  2:{ intros j Hj. rewrite inject_Z_mult. unfold Z.sub. rewrite inject_Z_plus, inject_Z_opp. change (inject_Z 1) with 1. ring. }
  unfold Qsum_range. rewrite !Qsum_n_plus, !Qsum_n_scal.
  fold (Qsum_range (fun j => inject_Z (j * (j - 1)) * hg_pmf_i N K n j) (hg_lo N K n) (hg_hi N K n)).
  fold (Qsum_range (fun j => inject_Z j * hg_pmf_i N K n j) (hg_lo N K n) (hg_hi N K n)).
  fold (Qsum_range (hg_pmf_i N K n) (hg_lo N K n) (hg_hi N K n)).
  rewrite (hg_pmf_sums_to_one N K n Hv), (hg_mean_is_first_moment N K n Hv) by lia.
  rewrite (hg_weighted_sum_Q N K n (fun j => (j * (j - 1))%Z) _ _ Hv).
  assert (E2 : inject_Z (Zsum_range (fun j => (j * (j - 1) * hg_num N K n j)%Z) (hg_lo N K n) (hg_hi N K n))
               / inject_Z (choose N n) == inject_Z (K * (K - 1) * (n * (n - 1))) / inject_Z (N * (N - 1))).
  { apply Qdiv_cross.
    - apply (hg_T_nonzero N K n Hv).
    - apply inject_Z_nonzero. nia.
    - rewrite <- !inject_Z_mult. rewrite (hg_moment2_Z N K n Hv). reflexivity. }
  rewrite E2. unfold mu, hg_mean, hg_var.
  assert (D1 : ~ inject_Z N == 0) by (apply inject_Z_nonzero; lia).
  assert (D2 : ~ inject_Z N - 1 == 0).
  { intros E. apply (inject_Z_nonzero (N - 1)); [lia|]. unfold Z.sub. rewrite inject_Z_plus, inject_Z_opp. change (inject_Z 1) with 1. lra. }
  rewrite !inject_Z_mult. unfold Z.sub. rewrite !inject_Z_plus, !inject_Z_opp. change (inject_Z 1) with 1.
  field. split; [|assumption].
  intros E. apply D2. lra.
Qed.

(* Proofs/InvCDF.v — lemmas about Model/InvCDF.v: bracket expansion, boolean bisection, the
   piecewise family (Galois connection between pw_quantile and pw_cdf), special values, Rand. *)
From MM Require Import Base.Num Model.InvCDF.
From Coq Require Import Lqa Lia.
Local Open Scope Q_scope.
Unset Nra Cache.   (* no .nra.cache file next to the sources *)

(* ---------- boolean comparisons ---------- *)
Lemma Qleb_true a b : Qle_bool a b = true <-> a <= b.
Proof. apply Qle_bool_iff. Qed.
Lemma Qleb_false a b : Qle_bool a b = false <-> b < a.
Proof.
  split; intro H.
  - apply Qnot_le_lt. intro C. apply Qle_bool_iff in C. congruence.
  - destruct (Qle_bool a b) eqn:E; [|reflexivity]. apply Qle_bool_iff in E. lra.
Qed.
Lemma Qltb_true a b : Qltb a b = true <-> a < b.
Proof. unfold Qltb. rewrite Bool.negb_true_iff. apply Qleb_false. Qed.
Lemma Qltb_false a b : Qltb a b = false <-> b <= a.
Proof. unfold Qltb. rewrite Bool.negb_false_iff. apply Qleb_true. Qed.
Lemma Qeqb_true a b : Qeq_bool a b = true <-> a == b.
Proof. apply Qeq_bool_iff. Qed.
Lemma Qeqb_false a b : Qeq_bool a b = false <-> ~ a == b.
Proof.
  split; intro H.
  - intro C. apply Qeq_bool_iff in C. congruence.
  - destruct (Qeq_bool a b) eqn:E; [|reflexivity]. apply Qeq_bool_iff in E. contradiction.
Qed.

Lemma div_le_iff a h b : 0 < h -> (a / h <= b <-> a <= b * h).
Proof.
  intros Hh. split; intro H.
  - assert (E : a == a / h * h) by (field; lra). rewrite E. apply Qmult_le_compat_r; lra.
  - apply Qle_shift_div_r; assumption.
Qed.
Lemma le_div_iff a d b : 0 < d -> (a <= b / d <-> a * d <= b).
Proof.
  intros Hd. split; intro H.
  - assert (E : b == b / d * d) by (field; lra). rewrite E. apply Qmult_le_compat_r; lra.
  - apply Qle_shift_div_l; assumption.
Qed.

(* 2^n *)
Fixpoint qpow2 (n : nat) : Q := match n with O => 1 | S k => 2 * qpow2 k end.
Lemma qpow2_ge1 n : 1 <= qpow2 n.
Proof. induction n as [|n IH]; simpl; lra. Qed.

(* ================= generic algorithm, abstract F ================= *)
Section GenericProofs.
  Variable F : Q -> Q.
  Variables bl bh : Q.
  Definition monotone := forall a b, a <= b -> F a <= F b.

  (* ----- bracket expansion ----- *)
  Lemma expand_right_some : forall fuel y hi delta a b,
    0 < delta -> F hi < y -> expand_right F fuel y hi delta = Some (a, b) ->
    F a < y /\ y <= F b /\ a < b /\ b - a <= qpow2 fuel * delta.
  Proof.
    induction fuel as [|f IH]; intros y hi delta a b Hd Hhi E; simpl in E; [discriminate|].
    pose proof (qpow2_ge1 f) as P.
    destruct (Qltb (F (hi + delta)) y) eqn:C.
    - apply Qltb_true in C. destruct (IH y (hi + delta) (2 * delta) a b ltac:(lra) C E) as (A1 & A2 & A3 & A4).
      repeat split; try assumption. simpl.
      assert (X : 2 * qpow2 f * delta == qpow2 f * (2 * delta)) by ring. rewrite X. assumption.
    - apply Qltb_false in C. injection E as <- <-. repeat split; try assumption; try lra.
      simpl. nra.
  Qed.

  Lemma expand_left_some : forall fuel y lo delta a b,
    0 < delta -> y <= F lo -> expand_left F fuel y lo delta = Some (a, b) ->
    F a < y /\ y <= F b /\ a < b /\ b - a <= qpow2 fuel * delta.
  Proof.
    induction fuel as [|f IH]; intros y lo delta a b Hd Hlo E; simpl in E; [discriminate|].
    pose proof (qpow2_ge1 f) as P.
    destruct (Qle_bool y (F (lo - delta))) eqn:C.
    - apply Qleb_true in C. destruct (IH y (lo - delta) (2 * delta) a b ltac:(lra) C E) as (A1 & A2 & A3 & A4).
      repeat split; try assumption. simpl.
      assert (X : 2 * qpow2 f * delta == qpow2 f * (2 * delta)) by ring. rewrite X. assumption.
    - apply Qleb_false in C. injection E as <- <-. repeat split; try assumption; try lra.
      simpl. nra.
  Qed.

  Lemma expand_right_none : monotone -> forall fuel y hi delta,
    F hi < y -> expand_right F fuel y hi delta = None -> F (hi + (qpow2 fuel - 1) * delta) < y.
  Proof.
    intros M. induction fuel as [|f IH]; intros y hi delta Hhi E; simpl in *.
    - apply Qle_lt_trans with (F hi); [apply M; lra | assumption].
    - destruct (Qltb (F (hi + delta)) y) eqn:C; [|discriminate].
      apply Qltb_true in C. specialize (IH _ _ _ C E).
      apply Qle_lt_trans with (F (hi + delta + (qpow2 f - 1) * (2 * delta))); [|assumption].
      apply M. assert (X : hi + (2 * qpow2 f - 1) * delta == hi + delta + (qpow2 f - 1) * (2 * delta)) by ring.
      rewrite X. apply Qle_refl.
  Qed.

  Lemma expand_left_none : monotone -> forall fuel y lo delta,
    y <= F lo -> expand_left F fuel y lo delta = None -> y <= F (lo - (qpow2 fuel - 1) * delta).
  Proof.
    intros M. induction fuel as [|f IH]; intros y lo delta Hlo E; simpl in *.
    - apply Qle_trans with (F lo); [assumption | apply M; lra].
    - destruct (Qle_bool y (F (lo - delta))) eqn:C; [|discriminate].
      apply Qleb_true in C. specialize (IH _ _ _ C E).
      apply Qle_trans with (F (lo - delta - (qpow2 f - 1) * (2 * delta))); [assumption|].
      apply M. assert (X : lo - (2 * qpow2 f - 1) * delta == lo - delta - (qpow2 f - 1) * (2 * delta)) by ring.
      rewrite X. apply Qle_refl.
  Qed.

  (* the bracket found by doubling: F lo < y <= F hi; when the fuel runs out there is NO point with
     the missing property within 2^fuel - 1 of the origin on that side *)
  Theorem bracket_inv : monotone -> forall fuel y,
    match bracket F fuel y with
    | Some (lo, hi) => F lo < y /\ y <= F hi /\ lo < hi /\ hi - lo <= qpow2 fuel
    | None => if goes_right F y then forall x, x <= qpow2 fuel - 1 -> F x < y
              else forall x, - (qpow2 fuel - 1) <= x -> y <= F x
    end.
  Proof.
    intros M fuel y. unfold bracket, goes_right. destruct (Qltb (F 0) y) eqn:C.
    - apply Qltb_true in C. destruct (expand_right F fuel y 0 1) as [[lo hi]|] eqn:E.
      + destruct (expand_right_some fuel y 0 1 lo hi ltac:(lra) C E) as (A1 & A2 & A3 & A4).
        repeat split; try assumption. lra.
      + intros x Hx. pose proof (expand_right_none M _ _ _ _ C E) as N.
        apply Qle_lt_trans with (F (0 + (qpow2 fuel - 1) * 1)); [apply M; lra | assumption].
    - apply Qltb_false in C. destruct (expand_left F fuel y 0 1) as [[lo hi]|] eqn:E.
      + destruct (expand_left_some fuel y 0 1 lo hi ltac:(lra) C E) as (A1 & A2 & A3 & A4).
        repeat split; try assumption. lra.
      + intros x Hx. pose proof (expand_left_none M _ _ _ _ C E) as N.
        apply Qle_trans with (F (0 - (qpow2 fuel - 1) * 1)); [assumption | apply M; lra].
  Qed.

  (* enough fuel: a point below with F < y and a point above with F >= y, both within 2^fuel - 1 *)
  Theorem bracket_found : monotone -> forall fuel y a b,
    - (qpow2 fuel - 1) <= a -> F a < y -> b <= qpow2 fuel - 1 -> y <= F b ->
    exists lo hi, bracket F fuel y = Some (lo, hi).
  Proof.
    intros M fuel y a b Ha Fa Hb Fb. pose proof (bracket_inv M fuel y) as B.
    destruct (bracket F fuel y) as [[lo hi]|]; [eauto|].
    destruct (goes_right F y).
    - specialize (B b Hb). lra.
    - specialize (B a Ha). lra.
  Qed.

  (* ----- bisection: the invariant holds after EVERY number of halvings ----- *)
  Theorem bisect_inv : forall k y lo hi,
    F lo < y -> y <= F hi -> lo <= hi ->
    let '(x1, x2) := bisect_bool F k y lo hi in
    F x1 < y /\ y <= F x2 /\ (x2 - x1) * qpow2 k == hi - lo /\ lo <= x1 /\ x1 <= x2 /\ x2 <= hi.
  Proof.
    induction k as [|k IH]; intros y lo hi Hlo Hhi Hle.
    - simpl. repeat split; try assumption; try lra.
    - cbn [bisect_bool qpow2]. set (mid := Qred ((hi + lo) / 2)).
      assert (Em : mid == (hi + lo) / 2) by apply Qred_correct.
      assert (Em2 : 2 * mid == hi + lo) by (rewrite Em; field).
      destruct (Qltb (F mid) y) eqn:C.
      + apply Qltb_true in C. specialize (IH y mid hi C Hhi ltac:(lra)).
        destruct (bisect_bool F k y mid hi) as [x1 x2].
        destruct IH as (A1 & A2 & A3 & A4 & A5 & A6).
        split; [assumption|]. split; [assumption|]. split; [|lra].
        assert (X : (x2 - x1) * (2 * qpow2 k) == 2 * ((x2 - x1) * qpow2 k)) by ring.
        rewrite X, A3. lra.
      + apply Qltb_false in C. specialize (IH y lo mid Hlo C ltac:(lra)).
        destruct (bisect_bool F k y lo mid) as [x1 x2].
        destruct IH as (A1 & A2 & A3 & A4 & A5 & A6).
        split; [assumption|]. split; [assumption|]. split; [|lra].
        assert (X : (x2 - x1) * (2 * qpow2 k) == 2 * ((x2 - x1) * qpow2 k)) by ring.
        rewrite X, A3. lra.
  Qed.

  (* ----- the whole numerical part ----- *)
  Theorem invcdf_core_inv : monotone -> forall fuel k y lo hi x1 x2,
    invcdf_core F fuel k y = Some ((lo, hi), (x1, x2)) ->
    F x1 < y /\ y <= F x2 /\ x1 <= x2 /\ (x2 - x1) * qpow2 k <= qpow2 fuel.
  Proof.
    intros M fuel k y lo hi x1 x2 E. unfold invcdf_core in E.
    pose proof (bracket_inv M fuel y) as B.
    destruct (bracket F fuel y) as [[lo' hi']|]; [|discriminate].
    destruct B as (B1 & B2 & B3 & B4).
    pose proof (bisect_inv k y lo' hi' B1 B2 ltac:(lra)) as I.
    destruct (bisect_bool F k y lo' hi') as [a b]. injection E as <- <- <- <-.
    destruct I as (A1 & A2 & A3 & A4 & A5 & A6). repeat split; try assumption. rewrite A3. assumption.
  Qed.

  (* ----- special values (dist.go:123-144) ----- *)
  Theorem invcdf_special_values : forall fuel k y,
    ((y < 0 \/ 1 < y) -> invcdf_generic F bl bh fuel k y = IVal XNaN) /\
    (y == 0 -> F bl == 0 -> invcdf_generic F bl bh fuel k y = IVal (XFin bl)) /\
    (y == 0 -> ~ F bl == 0 -> invcdf_generic F bl bh fuel k y = IVal (XInf true)) /\
    (y == 1 -> F bh == 1 -> invcdf_generic F bl bh fuel k y = IVal (XFin bh)) /\
    (y == 1 -> ~ F bh == 1 -> invcdf_generic F bl bh fuel k y = IVal (XInf false)) /\
    (0 < y -> y < 1 -> inv_special F bl bh y = None).
  Proof.
    intros fuel k y. unfold invcdf_generic, inv_special.
    repeat split.
    - intros [H|H].
      + apply Qltb_true in H. rewrite H. reflexivity.
      + apply Qltb_true in H. rewrite H, Bool.orb_true_r. reflexivity.
    - intros Hy HF. assert (A : Qltb y 0 = false) by (apply Qltb_false; lra).
      assert (B : Qltb 1 y = false) by (apply Qltb_false; lra). rewrite A, B. simpl.
      apply Qeqb_true in Hy. rewrite Hy. apply Qeqb_true in HF. rewrite HF. reflexivity.
    - intros Hy HF. assert (A : Qltb y 0 = false) by (apply Qltb_false; lra).
      assert (B : Qltb 1 y = false) by (apply Qltb_false; lra). rewrite A, B. simpl.
      apply Qeqb_true in Hy. rewrite Hy. apply Qeqb_false in HF. rewrite HF. reflexivity.
    - intros Hy HF. assert (A : Qltb y 0 = false) by (apply Qltb_false; lra).
      assert (B : Qltb 1 y = false) by (apply Qltb_false; lra). rewrite A, B. simpl.
      assert (C : Qeq_bool y 0 = false) by (apply Qeqb_false; lra). rewrite C.
      apply Qeqb_true in Hy. rewrite Hy. apply Qeqb_true in HF. rewrite HF. reflexivity.
    - intros Hy HF. assert (A : Qltb y 0 = false) by (apply Qltb_false; lra).
      assert (B : Qltb 1 y = false) by (apply Qltb_false; lra). rewrite A, B. simpl.
      assert (C : Qeq_bool y 0 = false) by (apply Qeqb_false; lra). rewrite C.
      apply Qeqb_true in Hy. rewrite Hy. apply Qeqb_false in HF. rewrite HF. reflexivity.
    - intros H0 H1. assert (A : Qltb y 0 = false) by (apply Qltb_false; lra).
      assert (B : Qltb 1 y = false) by (apply Qltb_false; lra). rewrite A, B. simpl.
      assert (C : Qeq_bool y 0 = false) by (apply Qeqb_false; lra).
      assert (D : Qeq_bool y 1 = false) by (apply Qeqb_false; lra). rewrite C, D. reflexivity.
  Qed.

  (* for 0 < y < 1 the result is never NaN, never a panic: the upper end of a pair, or the
     explicit out-of-fuel result *)
  Theorem invcdf_generic_regular : monotone -> forall fuel k y, 0 < y -> y < 1 ->
    (exists lo hi x1 x2, invcdf_core F fuel k y = Some ((lo, hi), (x1, x2)) /\
        invcdf_generic F bl bh fuel k y = IVal (XFin x2) /\ F x1 < y /\ y <= F x2 /\ x1 <= x2 /\
        (x2 - x1) * qpow2 k <= qpow2 fuel)
    \/ (invcdf_core F fuel k y = None /\ invcdf_generic F bl bh fuel k y = INoBracket (negb (goes_right F y))).
  Proof.
    intros M fuel k y H0 H1. unfold invcdf_generic.
    destruct (invcdf_special_values fuel k y) as (_ & _ & _ & _ & _ & S). rewrite (S H0 H1).
    destruct (invcdf_core F fuel k y) as [[[lo hi] [x1 x2]]|] eqn:E.
    - left. exists lo, hi, x1, x2. destruct (invcdf_core_inv M _ _ _ _ _ _ _ E) as (A1 & A2 & A3 & A4). auto 10.
    - right. auto.
  Qed.
  (* ----- the value returned by the ALGORITHM is non-decreasing in y (no hypothesis on F) ----- *)
  Lemma expand_right_lo_ge : forall fuel y hi delta a b,
    0 < delta -> expand_right F fuel y hi delta = Some (a, b) -> hi <= a.
  Proof.
    induction fuel as [|f IH]; intros y hi delta a b Hd E; simpl in E; [discriminate|].
    destruct (Qltb (F (hi + delta)) y).
    - specialize (IH y (hi + delta) (2 * delta) a b ltac:(lra) E). lra.
    - injection E as <- <-. lra.
  Qed.
  Lemma expand_left_hi_le : forall fuel y lo delta a b,
    0 < delta -> expand_left F fuel y lo delta = Some (a, b) -> b <= lo.
  Proof.
    induction fuel as [|f IH]; intros y lo delta a b Hd E; simpl in E; [discriminate|].
    destruct (Qle_bool y (F (lo - delta))).
    - specialize (IH y (lo - delta) (2 * delta) a b ltac:(lra) E). lra.
    - injection E as <- <-. lra.
  Qed.

  Lemma expand_right_mono : forall fuel y1 y2 hi delta a1 b1 a2 b2,
    0 < delta -> y1 <= y2 ->
    expand_right F fuel y1 hi delta = Some (a1, b1) -> expand_right F fuel y2 hi delta = Some (a2, b2) ->
    (a1, b1) = (a2, b2) \/ b1 <= a2.
  Proof.
    induction fuel as [|f IH]; intros y1 y2 hi delta a1 b1 a2 b2 Hd Hy E1 E2; simpl in E1, E2; [discriminate|].
    destruct (Qltb (F (hi + delta)) y1) eqn:C1; destruct (Qltb (F (hi + delta)) y2) eqn:C2.
    - apply (IH y1 y2 (hi + delta) (2 * delta)); try assumption; lra.
    - apply Qltb_true in C1. apply Qltb_false in C2. lra.
    - right. injection E1 as <- <-. apply (expand_right_lo_ge f y2 (hi + delta) (2 * delta) a2 b2); [lra | assumption].
    - left. congruence.
  Qed.
  Lemma expand_left_mono : forall fuel y1 y2 lo delta a1 b1 a2 b2,
    0 < delta -> y1 <= y2 ->
    expand_left F fuel y1 lo delta = Some (a1, b1) -> expand_left F fuel y2 lo delta = Some (a2, b2) ->
    (a1, b1) = (a2, b2) \/ b1 <= a2.
  Proof.
    induction fuel as [|f IH]; intros y1 y2 lo delta a1 b1 a2 b2 Hd Hy E1 E2; simpl in E1, E2; [discriminate|].
    destruct (Qle_bool y1 (F (lo - delta))) eqn:C1; destruct (Qle_bool y2 (F (lo - delta))) eqn:C2.
    - apply (IH y1 y2 (lo - delta) (2 * delta)); try assumption; lra.
    - right. injection E2 as <- <-. apply (expand_left_hi_le f y1 (lo - delta) (2 * delta) a1 b1); [lra | assumption].
    - apply Qleb_false in C1. apply Qleb_true in C2. lra.
    - left. congruence.
  Qed.

  Lemma bisect_mono : forall k y1 y2 lo hi, y1 <= y2 -> F lo < y1 -> y2 <= F hi -> lo <= hi ->
    snd (bisect_bool F k y1 lo hi) <= snd (bisect_bool F k y2 lo hi).
  Proof.
    induction k as [|k IH]; intros y1 y2 lo hi Hy Hlo Hhi Hle.
    - simpl. lra.
    - cbn [bisect_bool]. set (mid := Qred ((hi + lo) / 2)).
      assert (Em : mid == (hi + lo) / 2) by apply Qred_correct.
      assert (Em2 : 2 * mid == hi + lo) by (rewrite Em; field).
      destruct (Qltb (F mid) y1) eqn:C1; destruct (Qltb (F mid) y2) eqn:C2.
      + apply Qltb_true in C1. apply IH; try assumption; lra.
      + apply Qltb_true in C1. apply Qltb_false in C2. lra.
      + apply Qltb_false in C1. apply Qltb_true in C2.
        pose proof (bisect_inv k y1 lo mid Hlo C1 ltac:(lra)) as I1.
        pose proof (bisect_inv k y2 mid hi C2 Hhi ltac:(lra)) as I2.
        destruct (bisect_bool F k y1 lo mid) as [u1 u2]. destruct (bisect_bool F k y2 mid hi) as [v1 v2].
        simpl. destruct I1 as (_ & _ & _ & _ & _ & I1). destruct I2 as (_ & _ & _ & I2 & I2' & _). lra.
      + apply Qltb_false in C1. apply Qltb_false in C2. apply IH; try assumption; lra.
  Qed.

  Theorem invcdf_generic_monotone_in_y : forall fuel k y1 y2 r1 r2,
    0 < y1 -> y1 <= y2 -> y2 < 1 ->
    invcdf_generic F bl bh fuel k y1 = IVal (XFin r1) -> invcdf_generic F bl bh fuel k y2 = IVal (XFin r2) ->
    r1 <= r2.
  Proof.
    intros fuel k y1 y2 r1 r2 H0 H12 H1 E1 E2. unfold invcdf_generic in E1, E2.
    destruct (invcdf_special_values fuel k y1) as (_ & _ & _ & _ & _ & S1). rewrite (S1 H0 ltac:(lra)) in E1.
    destruct (invcdf_special_values fuel k y2) as (_ & _ & _ & _ & _ & S2). rewrite (S2 ltac:(lra) H1) in E2.
    unfold invcdf_core in E1, E2.
    destruct (bracket F fuel y1) as [[lo1 hi1]|] eqn:B1; [|discriminate].
    destruct (bracket F fuel y2) as [[lo2 hi2]|] eqn:B2; [|discriminate].
    (* facts about the two brackets *)
    assert (K1 : F lo1 < y1 /\ y1 <= F hi1 /\ lo1 < hi1).
    { unfold bracket in B1. destruct (goes_right F y1) eqn:G; unfold goes_right in G.
      - apply Qltb_true in G. destruct (expand_right_some fuel y1 0 1 lo1 hi1 ltac:(lra) G B1) as (? & ? & ? & _). auto.
      - apply Qltb_false in G. destruct (expand_left_some fuel y1 0 1 lo1 hi1 ltac:(lra) G B1) as (? & ? & ? & _). auto. }
    assert (K2 : F lo2 < y2 /\ y2 <= F hi2 /\ lo2 < hi2).
    { unfold bracket in B2. destruct (goes_right F y2) eqn:G; unfold goes_right in G.
      - apply Qltb_true in G. destruct (expand_right_some fuel y2 0 1 lo2 hi2 ltac:(lra) G B2) as (? & ? & ? & _). auto.
      - apply Qltb_false in G. destruct (expand_left_some fuel y2 0 1 lo2 hi2 ltac:(lra) G B2) as (? & ? & ? & _). auto. }
    destruct K1 as (K1a & K1b & K1c). destruct K2 as (K2a & K2b & K2c).
    assert (D : (lo1, hi1) = (lo2, hi2) \/ hi1 <= lo2).
    { unfold bracket in B1, B2. destruct (goes_right F y1) eqn:G1; destruct (goes_right F y2) eqn:G2; unfold goes_right in G1, G2.
      - apply (expand_right_mono fuel y1 y2 0 1); try assumption; lra.
      - apply Qltb_true in G1. apply Qltb_false in G2. lra.
      - right. pose proof (expand_left_hi_le fuel y1 0 1 lo1 hi1 ltac:(lra) B1).
        pose proof (expand_right_lo_ge fuel y2 0 1 lo2 hi2 ltac:(lra) B2). lra.
      - apply (expand_left_mono fuel y1 y2 0 1); try assumption; lra. }
    pose proof (bisect_inv k y1 lo1 hi1 K1a K1b ltac:(lra)) as I1.
    pose proof (bisect_inv k y2 lo2 hi2 K2a K2b ltac:(lra)) as I2.
    destruct D as [D|D].
    - injection D as <- <-. pose proof (bisect_mono k y1 y2 lo1 hi1 H12 K1a K2b ltac:(lra)) as M.
      destruct (bisect_bool F k y1 lo1 hi1) as [u1 u2]. destruct (bisect_bool F k y2 lo1 hi1) as [v1 v2].
      simpl in M. injection E1 as <-. injection E2 as <-. assumption.
    - destruct (bisect_bool F k y1 lo1 hi1) as [u1 u2]. destruct (bisect_bool F k y2 lo2 hi2) as [v1 v2].
      injection E1 as <-. injection E2 as <-.
      destruct I1 as (_ & _ & _ & _ & _ & I1). destruct I2 as (_ & _ & _ & I2 & I2' & _). lra.
  Qed.
End GenericProofs.

(* ================= Rand ================= *)
Theorem rand_is_inv_of_first_nonzero : forall (R : Type) (inv : Q -> R) (zeros : list Q) (y : Q) (rest : list Q),
  (forall z, In z zeros -> z == 0) -> ~ y == 0 ->
  rand_model inv (zeros ++ y :: rest) = Some (inv y, S (length zeros)).
Proof.
  intros R inv zeros y rest. induction zeros as [|z zs IH]; intros Hz Hy; simpl.
  - apply Qeqb_false in Hy. rewrite Hy. reflexivity.
  - assert (E : Qeq_bool z 0 = true) by (apply Qeqb_true, Hz; left; reflexivity). rewrite E.
    rewrite IH; [reflexivity | intros w Hw; apply Hz; right; assumption | assumption].
Qed.

(* a source of zeros only never yields a draw (the Go loop does not terminate) *)
Theorem rand_none_iff_all_zero : forall (R : Type) (inv : Q -> R) (src : list Q),
  rand_model inv src = None <-> (forall z, In z src -> z == 0).
Proof.
  intros R inv src. induction src as [|z zs IH]; simpl.
  - split; [intros _ w [] | reflexivity].
  - destruct (Qeq_bool z 0) eqn:E.
    + apply Qeqb_true in E. destruct (rand_model inv zs) as [[r n]|].
      * split; [discriminate|]. intros H. exfalso.
        assert (X : Some (r, n) = None) by (apply IH; intros w Hw; apply H; right; assumption). discriminate.
      * split; [|reflexivity]. intros _ w [<-|Hw]; [assumption|]. apply (proj1 IH eq_refl); assumption.
    + apply Qeqb_false in E. split; [discriminate|]. intros H. exfalso. apply E, H. left. reflexivity.
Qed.

(* ================= the piecewise family ================= *)
Lemma ramp_bounds px xi pv li x : px < xi -> pv <= li -> px <= x -> x <= xi ->
  pv <= pv + (x - px) * (li - pv) / (xi - px) /\ pv + (x - px) * (li - pv) / (xi - px) <= li.
Proof.
  intros. assert (0 <= (x - px) * (li - pv) / (xi - px)) by (apply le_div_iff; [lra | nra]).
  assert ((x - px) * (li - pv) / (xi - px) <= li - pv) by (apply div_le_iff; [lra | nra]). lra.
Qed.

Lemma pw_cdf_from_range : forall rest px pv x, pw_wf_from px pv rest -> px <= x ->
  pv <= pw_cdf_from px pv rest x /\ pw_cdf_from px pv rest x <= 1.
Proof.
  induction rest as [|[[xi li] vi] r IH]; intros px pv x W Hx; simpl in *.
  - lra.
  - destruct W as (W1 & W2 & W3 & W4). destruct (Qle_bool xi x) eqn:C.
    + apply Qleb_true in C. destruct (IH _ _ _ W4 C). lra.
    + apply Qleb_false in C. destruct (ramp_bounds px xi pv li x W1 W2 Hx ltac:(lra)).
      assert (vi <= 1). { destruct (IH xi vi xi W4 ltac:(lra)). lra. } lra.
Qed.

(* the Galois connection, from a knot onwards *)
Lemma galois_from : forall rest px pv y, pw_wf_from px pv rest -> pv < y -> y <= 1 ->
  exists q, pw_q_from px pv rest y = Some q /\ px < q /\
            forall x, px <= x -> (q <= x <-> y <= pw_cdf_from px pv rest x).
Proof.
  induction rest as [|[[xi li] vi] r IH]; intros px pv y W Hy Hy1; simpl in *.
  - lra.
  - destruct W as (W1 & W2 & W3 & W4).
    destruct (Qle_bool y li) eqn:C1.
    + (* on the ramp *)
      apply Qleb_true in C1. eexists; split; [reflexivity|].
      assert (Hq : 0 < (y - pv) * (xi - px) / (li - pv)).
      { apply Qlt_shift_div_l; [lra | nra]. }
      assert (Hq2 : (y - pv) * (xi - px) / (li - pv) <= xi - px).
      { apply div_le_iff; [lra | nra]. }
      split; [lra|]. intros x Hx. destruct (Qle_bool xi x) eqn:C.
      * apply Qleb_true in C. destruct (pw_cdf_from_range r xi vi x W4 C). split; intro; lra.
      * apply Qleb_false in C.
        assert (K : (y - pv) * (xi - px) / (li - pv) <= x - px <-> y - pv <= (x - px) * (li - pv) / (xi - px)).
        { rewrite div_le_iff by lra. rewrite le_div_iff by lra. reflexivity. }
        split; intro; [assert ((y - pv) * (xi - px) / (li - pv) <= x - px) by lra; apply K in H0; lra
                      | assert (y - pv <= (x - px) * (li - pv) / (xi - px)) by lra; apply K in H0; lra].
    + apply Qleb_false in C1. destruct (Qle_bool y vi) eqn:C2.
      * (* in the jump at xi *)
        apply Qleb_true in C2. eexists; split; [reflexivity|]. split; [assumption|].
        intros x Hx. destruct (Qle_bool xi x) eqn:C.
        -- apply Qleb_true in C. destruct (pw_cdf_from_range r xi vi x W4 C). split; intro; lra.
        -- apply Qleb_false in C. destruct (ramp_bounds px xi pv li x W1 W2 Hx ltac:(lra)). split; intro; lra.
      * apply Qleb_false in C2. destruct (IH xi vi y W4 C2 Hy1) as (q & E & Hq & G).
        exists q. split; [assumption|]. split; [lra|]. intros x Hx. destruct (Qle_bool xi x) eqn:C.
        -- apply Qleb_true in C. apply G. assumption.
        -- apply Qleb_false in C. destruct (ramp_bounds px xi pv li x W1 W2 Hx ltac:(lra)). split; intro; lra.
Qed.

(* pw_quantile y <= x  <->  y <= pw_cdf x *)
Theorem galois : forall pw y, pw_wf pw -> 0 < y -> y <= 1 ->
  exists q, pw_quantile pw y = Some q /\ forall x, q <= x <-> y <= pw_cdf pw x.
Proof.
  intros [|[[x0 l0] v0] r] y W H0 H1; simpl in *; [contradiction|].
  destruct W as (W1 & W2 & W3). destruct (Qle_bool y v0) eqn:C.
  - apply Qleb_true in C. exists x0. split; [reflexivity|]. intros x. destruct (Qle_bool x0 x) eqn:D.
    + apply Qleb_true in D. destruct (pw_cdf_from_range r x0 v0 x W3 D). split; intro; lra.
    + apply Qleb_false in D. split; intro; lra.
  - apply Qleb_false in C. destruct (galois_from r x0 v0 y W3 C H1) as (q & E & Hq & G).
    exists q. split; [assumption|]. intros x. destruct (Qle_bool x0 x) eqn:D.
    + apply Qleb_true in D. apply G. assumption.
    + apply Qleb_false in D. split; intro; lra.
Qed.

Theorem pw_cdf_range : forall pw x, pw_wf pw -> 0 <= pw_cdf pw x /\ pw_cdf pw x <= 1.
Proof.
  intros [|[[x0 l0] v0] r] x W; simpl in *; [contradiction|].
  destruct W as (W1 & W2 & W3). destruct (Qle_bool x0 x) eqn:D.
  - apply Qleb_true in D. destruct (pw_cdf_from_range r x0 v0 x W3 D). lra.
  - lra.
Qed.

(* pw_quantile y is the SMALLEST x with cdf x >= y *)
Theorem pw_quantile_spec : forall pw y, pw_wf pw -> 0 < y -> y <= 1 ->
  exists q, pw_quantile pw y = Some q /\ y <= pw_cdf pw q /\ forall x, x < q -> pw_cdf pw x < y.
Proof.
  intros pw y W H0 H1. destruct (galois pw y W H0 H1) as (q & E & G). exists q. split; [assumption|]. split.
  - apply G. apply Qle_refl.
  - intros x Hx. apply Qnot_le_lt. intro C. apply G in C. lra.
Qed.

Theorem pw_cdf_monotone : forall pw, pw_wf pw -> forall a b, a <= b -> pw_cdf pw a <= pw_cdf pw b.
Proof.
  intros pw W a b Hab. destruct (pw_cdf_range pw a W) as (A0 & A1). destruct (pw_cdf_range pw b W) as (B0 & B1).
  destruct (Qlt_le_dec 0 (pw_cdf pw a)) as [P|P]; [|lra].
  destruct (galois pw (pw_cdf pw a) W P A1) as (q & E & G).
  apply G. apply Qle_trans with a; [|assumption]. apply G. apply Qle_refl.
Qed.

(* the quantile function is non-decreasing in y *)
Theorem invcdf_monotone_in_y : forall pw y1 y2 q1 q2, pw_wf pw -> 0 < y1 -> y1 <= y2 -> y2 <= 1 ->
  pw_quantile pw y1 = Some q1 -> pw_quantile pw y2 = Some q2 -> q1 <= q2.
Proof.
  intros pw y1 y2 q1 q2 W H0 H12 H1 E1 E2.
  destruct (galois pw y1 W H0 ltac:(lra)) as (a & Ea & Ga). destruct (galois pw y2 W ltac:(lra) H1) as (b & Eb & Gb).
  rewrite E1 in Ea. rewrite E2 in Eb. injection Ea as <-. injection Eb as <-.
  apply Ga. apply Qle_trans with y2; [assumption|]. apply Gb. apply Qle_refl.
Qed.

(* any pair with cdf x1 < y <= cdf x2 encloses the quantile; the bisection keeps such a pair for
   every number of halvings, so whenever it stops the returned upper end x2 is within the final
   width of the smallest x with cdf x >= y, from above *)
Theorem invcdf_enclosure : forall pw y lo hi k, pw_wf pw -> 0 < y -> y <= 1 ->
  pw_cdf pw lo < y -> y <= pw_cdf pw hi ->
  let '(x1, x2) := bisect_bool (pw_cdf pw) k y lo hi in
  exists q, pw_quantile pw y = Some q /\ x1 < q /\ q <= x2 /\ (x2 - q) * qpow2 k < hi - lo.
Proof.
  intros pw y lo hi k W H0 H1 Hlo Hhi.
  assert (Hle : lo <= hi).
  { destruct (Qlt_le_dec hi lo) as [C|C]; [|assumption].
    pose proof (pw_cdf_monotone pw W hi lo ltac:(lra)). lra. }
  pose proof (bisect_inv (pw_cdf pw) k y lo hi Hlo Hhi Hle) as I.
  destruct (bisect_bool (pw_cdf pw) k y lo hi) as [x1 x2].
  destruct I as (A1 & A2 & A3 & A4 & A5 & A6).
  destruct (galois pw y W H0 H1) as (q & E & G). exists q. split; [assumption|].
  assert (Q1 : x1 < q). { apply Qnot_le_lt. intro C. apply G in C. lra. }
  assert (Q2 : q <= x2) by (apply G; assumption).
  repeat split; try assumption.
  pose proof (qpow2_ge1 k). rewrite <- A3. apply Qmult_lt_compat_r; lra.
Qed.

(* the complete generic routine on a piecewise cdf: for 0 < y < 1 it returns a finite x2 >= the
   quantile, closer than 2^fuel / 2^k — or reports that the fuel did not suffice *)
Theorem invcdf_generic_pw : forall pw bl bh fuel k y, pw_wf pw -> 0 < y -> y < 1 ->
  (exists x2 q, invcdf_generic (pw_cdf pw) bl bh fuel k y = IVal (XFin x2) /\ pw_quantile pw y = Some q /\
                q <= x2 /\ (x2 - q) * qpow2 k < qpow2 fuel)
  \/ (exists neg, invcdf_generic (pw_cdf pw) bl bh fuel k y = INoBracket neg).
Proof.
  intros pw bl bh fuel k y W H0 H1.
  destruct (invcdf_generic_regular (pw_cdf pw) bl bh (pw_cdf_monotone pw W) fuel k y H0 H1)
    as [(lo & hi & x1 & x2 & E & R & A1 & A2 & A3 & A4) | (E & R)].
  - left. destruct (galois pw y W H0 ltac:(lra)) as (q & Eq & G). exists x2, q.
    split; [assumption|]. split; [assumption|].
    assert (Q1 : x1 < q). { apply Qnot_le_lt. intro C. apply G in C. lra. }
    assert (Q2 : q <= x2) by (apply G; assumption). split; [assumption|].
    pose proof (qpow2_ge1 k). apply Qlt_le_trans with ((x2 - x1) * qpow2 k); [|assumption].
    apply Qmult_lt_compat_r; lra.
  - right. eauto.
Qed.

(* with the break points inside (-(2^fuel - 1), 2^fuel - 1] the fuel always suffices *)
Lemma pw_cdf_below : forall pw x, pw_wf pw -> (forall k, In k pw -> x < fst (fst k)) -> pw_cdf pw x == 0.
Proof.
  intros [|[[x0 l0] v0] r] x W H; simpl in *; [contradiction|].
  assert (C : Qle_bool x0 x = false). { apply Qleb_false. apply (H (x0, l0, v0)). left. reflexivity. }
  rewrite C. reflexivity.
Qed.
Lemma pw_cdf_from_above : forall rest px pv x, pw_wf_from px pv rest -> px <= x ->
  (forall k, In k rest -> fst (fst k) <= x) -> pw_cdf_from px pv rest x == 1.
Proof.
  induction rest as [|[[xi li] vi] r IH]; intros px pv x W Hx H; simpl in *.
  - assumption.
  - destruct W as (W1 & W2 & W3 & W4).
    assert (C : Qle_bool xi x = true). { apply Qleb_true. apply (H (xi, li, vi)). left. reflexivity. }
    rewrite C. apply IH; [assumption | apply (H (xi, li, vi)); left; reflexivity |].
    intros k Hk. apply H. right. assumption.
Qed.
Lemma pw_cdf_above : forall pw x, pw_wf pw -> (forall k, In k pw -> fst (fst k) <= x) -> pw_cdf pw x == 1.
Proof.
  intros [|[[x0 l0] v0] r] x W H; simpl in *; [contradiction|]. destruct W as (W1 & W2 & W3).
  assert (C : Qle_bool x0 x = true). { apply Qleb_true. apply (H (x0, l0, v0)). left. reflexivity. }
  rewrite C. apply pw_cdf_from_above; [assumption | apply (H (x0, l0, v0)); left; reflexivity |].
  intros k Hk. apply H. right. assumption.
Qed.

Theorem invcdf_generic_pw_total : forall pw bl bh fuel k y, pw_wf pw -> 0 < y -> y < 1 ->
  (forall kn, In kn pw -> - (qpow2 fuel - 1) < fst (fst kn) /\ fst (fst kn) <= qpow2 fuel - 1) ->
  exists x2 q, invcdf_generic (pw_cdf pw) bl bh fuel k y = IVal (XFin x2) /\ pw_quantile pw y = Some q /\
               q <= x2 /\ (x2 - q) * qpow2 k < qpow2 fuel.
Proof.
  intros pw bl bh fuel k y W H0 H1 Hk.
  destruct (invcdf_generic_pw pw bl bh fuel k y W H0 H1) as [R | (neg & R)]; [assumption|]. exfalso.
  assert (A : pw_cdf pw (- (qpow2 fuel - 1)) == 0) by (apply pw_cdf_below; [assumption | intros kn Hkn; apply Hk; assumption]).
  assert (B : pw_cdf pw (qpow2 fuel - 1) == 1) by (apply pw_cdf_above; [assumption | intros kn Hkn; apply Hk; assumption]).
  destruct (bracket_found (pw_cdf pw) (pw_cdf_monotone pw W) fuel y (- (qpow2 fuel - 1)) (qpow2 fuel - 1)
              ltac:(lra) ltac:(lra) ltac:(lra) ltac:(lra)) as (lo & hi & E).
  unfold invcdf_generic in R.
  destruct (invcdf_special_values (pw_cdf pw) bl bh fuel k y) as (_ & _ & _ & _ & _ & S). rewrite (S H0 H1) in R.
  unfold invcdf_core in R. rewrite E in R. destruct (bisect_bool (pw_cdf pw) k y lo hi). discriminate.
Qed.

(* the decidable well-formedness test run by the check implies the predicate *)
Lemma pw_wfb_from_sound : forall rest px pv, pw_wfb_from px pv rest = true -> pw_wf_from px pv rest.
Proof.
  induction rest as [|[[xi li] vi] r IH]; intros px pv H; simpl in *.
  - apply Qeqb_true. assumption.
  - repeat (apply Bool.andb_true_iff in H; destruct H as [H ?]).
    repeat split; [apply Qltb_true | apply Qleb_true | apply Qleb_true | apply IH]; assumption.
Qed.
Theorem pw_wfb_sound : forall pw, pw_wfb pw = true -> pw_wf pw.
Proof.
  intros [|[[x0 l0] v0] r] H; simpl in *; [discriminate|].
  repeat (apply Bool.andb_true_iff in H; destruct H as [H ?]).
  repeat split; [apply Qeqb_true | apply Qleb_true | apply pw_wfb_from_sound]; assumption.
Qed.

(* ================= discrete oracle ================= *)
Lemma last_default_irrelevant : forall (A : Type) (l : list A) (a d1 d2 : A), last (a :: l) d1 = last (a :: l) d2.
Proof. intros A. induction l as [|b l IH]; intros a d1 d2; [reflexivity|]. simpl in *. apply (IH b). Qed.

(* disc_quantile returns the FIRST entry of the table whose cdf is >= t — every earlier entry is
   below t — or, when no entry qualifies, the last support point *)
Theorem disc_quantile_spec : forall tab t dflt,
  (exists pre c post, tab = pre ++ (disc_quantile tab t dflt, c) :: post /\ t <= c /\
                      forall k' c', In (k', c') pre -> c' < t)
  \/ ((forall k' c', In (k', c') tab -> c' < t) /\ disc_quantile tab t dflt = last (map fst tab) dflt).
Proof.
  induction tab as [|[k c] r IH]; intros t dflt; simpl.
  - right. split; [intros ? ? [] | reflexivity].
  - destruct (Qle_bool t c) eqn:C.
    + apply Qleb_true in C. left. exists [], c, r. split; [reflexivity|]. split; [assumption | intros ? ? []].
    + apply Qleb_false in C. destruct (IH t k) as [(pre & c0 & post & E & Hc & Hpre) | (Hall & E)].
      * left. exists ((k, c) :: pre), c0, post. split; [simpl; rewrite <- E; reflexivity|]. split; [assumption|].
        intros k' c' [X|X]; [injection X as <- <-; assumption | eapply Hpre; eassumption].
      * right. split.
        -- intros k' c' [X|X]; [injection X as <- <-; assumption | eapply Hall; eassumption].
        -- rewrite E. destruct r as [|[k2 c2] r2]; [reflexivity|]. simpl map. apply last_default_irrelevant.
Qed.

Lemma disc_table_keys : forall cdf cnt k, map fst (disc_table cdf k cnt) = map (fun i => (k + Z.of_nat i)%Z) (seq 0 cnt).
Proof.
  intros cdf. induction cnt as [|n IH]; intros k; simpl; [reflexivity|].
  rewrite Z.add_0_r. f_equal. rewrite IH. rewrite <- seq_shift, map_map. apply map_ext. intros i. lia.
Qed.
Lemma disc_table_values : forall cdf cnt k k' c, In (k', c) (disc_table cdf k cnt) -> c == cdf k'.
Proof.
  intros cdf. induction cnt as [|n IH]; intros k k' c H; simpl in H; [contradiction|].
  destruct H as [X|X]; [injection X as <- <-; apply Qred_correct | eapply IH; eassumption].
Qed.

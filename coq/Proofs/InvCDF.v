(* Proofs/InvCDF.v — lemmas about Model/InvCDF.v: bracket expansion, boolean bisection, the
   piecewise family (Galois connection between pw_quantile and pw_cdf), special values, Rand. *)
From MM Require Import Base.Num Model.InvCDF.
From Coq Require Import Lqa Lia.
Local Open Scope Q_scope.
Unset Nra Cache.   (* no .nra.cache file next to the sources *)

(* ---------- boolean comparisons ---------- *)
Lemma Qleb_true a b : Qle_bool a b = true <-> a <= b.
Proof. apply Qle_bool_iff. Qed.
Lemma Qleb_false a b : Qle_bool a b = false <-> b < a.
Proof.
  split; intro H.
  - apply Qnot_le_lt. intro C. apply Qle_bool_iff in C. congruence.
  - destruct (Qle_bool a b) eqn:E; [|reflexivity]. apply Qle_bool_iff in E. lra.
Qed.
Lemma Qltb_true a b : Qltb a b = true <-> a < b.
Proof. unfold Qltb. rewrite Bool.negb_true_iff. apply Qleb_false. Qed.
Lemma Qltb_false a b : Qltb a b = false <-> b <= a.
Proof. unfold Qltb. rewrite Bool.negb_false_iff. apply Qleb_true. Qed.
Lemma Qeqb_true a b : Qeq_bool a b = true <-> a == b.
Proof. apply Qeq_bool_iff. Qed.
Lemma Qeqb_false a b : Qeq_bool a b = false <-> ~ a == b.
Proof.
  split; intro H.
  - intro C. apply Qeq_bool_iff in C. congruence.
  - destruct (Qeq_bool a b) eqn:E; [|reflexivity]. apply Qeq_bool_iff in E. contradiction.
Qed.

Lemma div_le_iff a h b : 0 < h -> (a / h <= b <-> a <= b * h).
Proof.
  intros Hh. split; intro H.
  - assert (E : a == a / h * h) by (field; lra). rewrite E. apply Qmult_le_compat_r; lra.
  - apply Qle_shift_div_r; assumption.
Qed.
Lemma le_div_iff a d b : 0 < d -> (a <= b / d <-> a * d <= b).
Proof.
  intros Hd. split; intro H.
  - assert (E : b == b / d * d) by (field; lra). rewrite E. apply Qmult_le_compat_r; lra.
  - apply Qle_shift_div_l; assumption.
Qed.

(* 2^n *)
Fixpoint qpow2 (n : nat) : Q := match n with O => 1 | S k => 2 * qpow2 k end.
Lemma qpow2_ge1 n : 1 <= qpow2 n.
Proof. induction n as [|n IH]; simpl; lra. Qed.

(* ================= the probes of the bracket expansion (no F involved) ================= *)
Local Open Scope Z_scope.
(* the points at which expand_right / expand_left evaluate F, and how the loop ends *)
Fixpoint rprobes (fuel : nat) (hi delta : Z) : list Z :=
  match fuel with
  | O => []
  | S f => match f64_round_Z (hi + delta) with None => [] | Some h => h :: rprobes f h (2 * delta) end
  end.
Fixpoint rend (fuel : nat) (hi delta : Z) : bres :=
  match fuel with
  | O => BFuel
  | S f => match f64_round_Z (hi + delta) with None => BInf false | Some h => rend f h (2 * delta) end
  end.
Fixpoint lprobes (fuel : nat) (lo delta : Z) : list Z :=
  match fuel with
  | O => []
  | S f => match f64_round_Z (lo - delta) with None => [] | Some h => h :: lprobes f h (2 * delta) end
  end.
Fixpoint lend (fuel : nat) (lo delta : Z) : bres :=
  match fuel with
  | O => BFuel
  | S f => match f64_round_Z (lo - delta) with None => BInf true | Some h => lend f h (2 * delta) end
  end.

(* float64 doubling from 0 with xdelta = 1: 1, 3, ..., 2^53 - 1, 2^54, ..., 2^1023, then overflow —
   computed with the rounding function of the model, compared with the closed form *)
(* (proved by one VM conversion each; the proof terms stay small: eq_refl with a vm cast) *)
Lemma go_rprobes : rprobes go_expand_fuel 0 1 = go_probes.
Proof. vm_cast_no_check (@eq_refl (list Z) go_probes). Qed.
Lemma go_rend : rend go_expand_fuel 0 1 = BInf false.
Proof. vm_cast_no_check (@eq_refl bres (BInf false)). Qed.
Lemma go_lprobes : lprobes go_expand_fuel 0 1 = go_probes_neg.
Proof. vm_cast_no_check (@eq_refl (list Z) go_probes_neg). Qed.
Lemma go_lend : lend go_expand_fuel 0 1 = BInf true.
Proof. vm_cast_no_check (@eq_refl bres (BInf true)). Qed.
Theorem go_probes_closed_form :
  rprobes go_expand_fuel 0 1 = go_probes /\ rend go_expand_fuel 0 1 = BInf false /\
  lprobes go_expand_fuel 0 1 = go_probes_neg /\ lend go_expand_fuel 0 1 = BInf true.
Proof. exact (conj go_rprobes (conj go_rend (conj go_lprobes go_lend))). Qed.

Definition probe_closed (k : Z) : Z := if k <=? 53 then 2 ^ k - 1 else 2 ^ k.
Theorem go_probes_values : go_probes = map (fun k => probe_closed (Z.of_nat k)) (seq 1 1023).
Proof. vm_cast_no_check (@eq_refl (list Z) go_probes). Qed.

(* strictly increasing, each step at most doubles (+2), nothing beyond the last probe *)
Fixpoint chain_up (prev : Z) (ps : list Z) : bool :=
  match ps with
  | [] => true
  | p :: r => (prev <? p) && (p <=? 2 * prev + 2) && (p <=? go_last_probe) && chain_up p r
  end.
Fixpoint chain_down (prev : Z) (ps : list Z) : bool :=
  match ps with
  | [] => true
  | p :: r => (p <? prev) && (2 * prev - 2 <=? p) && (- go_last_probe <=? p) && chain_down p r
  end.
Lemma go_probes_chain_1 : chain_up 0 go_probes = true.
Proof. vm_cast_no_check (@eq_refl bool true). Qed.
Lemma go_probes_chain_2 : chain_down 0 go_probes_neg = true.
Proof. vm_cast_no_check (@eq_refl bool true). Qed.
Lemma go_probes_chain_3 : existsb (Z.eqb go_last_probe) go_probes = true.
Proof. vm_cast_no_check (@eq_refl bool true). Qed.
Lemma go_probes_chain_4 : existsb (Z.eqb (- go_last_probe)) go_probes_neg = true.
Proof. vm_cast_no_check (@eq_refl bool true). Qed.
Lemma go_probes_chain : chain_up 0 go_probes = true /\ chain_down 0 go_probes_neg = true /\
  existsb (Z.eqb go_last_probe) go_probes = true /\ existsb (Z.eqb (- go_last_probe)) go_probes_neg = true.
Proof. exact (conj go_probes_chain_1 (conj go_probes_chain_2 (conj go_probes_chain_3 go_probes_chain_4))). Qed.

Lemma chain_up_cons prev p r : chain_up prev (p :: r) = true ->
  prev < p /\ p <= 2 * prev + 2 /\ p <= go_last_probe /\ chain_up p r = true.
Proof.
  cbn [chain_up]. rewrite !Bool.andb_true_iff. intros [[[A B] C] D].
  apply Z.ltb_lt in A. apply Z.leb_le in B. apply Z.leb_le in C. auto.
Qed.
Lemma chain_down_cons prev p r : chain_down prev (p :: r) = true ->
  p < prev /\ 2 * prev - 2 <= p /\ - go_last_probe <= p /\ chain_down p r = true.
Proof.
  cbn [chain_down]. rewrite !Bool.andb_true_iff. intros [[[A B] C] D].
  apply Z.ltb_lt in A. apply Z.leb_le in B. apply Z.leb_le in C. auto.
Qed.
Lemma chain_up_adjacent : forall ps prev l1 l2 a b, chain_up prev ps = true ->
  prev :: ps = l1 ++ a :: b :: l2 -> prev <= a /\ a < b /\ b <= 2 * a + 2 /\ b <= go_last_probe.
Proof.
  induction ps as [|p r IH]; intros prev l1 l2 a b C E.
  - destruct l1 as [|x [|x' l1]]; discriminate.
  - destruct (chain_up_cons _ _ _ C) as (C1 & C2 & C3 & C4). destruct l1 as [|x l1].
    + injection E as -> -> _. lia.
    + injection E as -> E. destruct (IH p l1 l2 a b C4 E) as (? & ? & ? & ?). lia.
Qed.
Lemma chain_down_adjacent : forall ps prev l1 l2 a b, chain_down prev ps = true ->
  prev :: ps = l1 ++ a :: b :: l2 -> a <= prev /\ b < a /\ 2 * a - 2 <= b /\ - go_last_probe <= b.
Proof.
  induction ps as [|p r IH]; intros prev l1 l2 a b C E.
  - destruct l1 as [|x [|x' l1]]; discriminate.
  - destruct (chain_down_cons _ _ _ C) as (C1 & C2 & C3 & C4). destruct l1 as [|x l1].
    + injection E as -> -> _. lia.
    + injection E as -> E. destruct (IH p l1 l2 a b C4 E) as (? & ? & ? & ?). lia.
Qed.
Local Close Scope Z_scope.

(* extended reals, for "non-decreasing" including the infinite results *)
Definition xr_le (a b : xreal) : Prop :=
  match a, b with
  | XFin p, XFin q => p <= q
  | XInf true, (XFin _ | XInf _) => True
  | (XFin _ | XInf _), XInf false => True
  | _, _ => False
  end.

(* ================= generic algorithm, abstract F ================= *)
Section GenericProofs.
  Variable F : Q -> Q.
  Variables bl bh : Q.
  Definition monotone := forall a b, a <= b -> F a <= F b.
  Notation FZ z := (F (inject_Z z)).

  (* ----- the expansion is a walk over the F-independent probes ----- *)
  Lemma expand_right_walk : forall fuel y hi delta,
    expand_right F fuel y hi delta = walk_right F y hi (rprobes fuel hi delta) (rend fuel hi delta).
  Proof.
    induction fuel as [|f IH]; intros y hi delta; cbn [expand_right rprobes rend]; [reflexivity|].
    destruct (f64_round_Z (hi + delta)) as [h|]; [|reflexivity].
    cbn [walk_right]. destruct (Qltb (FZ h) y); [apply IH | reflexivity].
  Qed.
  Lemma expand_left_walk : forall fuel y lo delta,
    expand_left F fuel y lo delta = walk_left F y lo (lprobes fuel lo delta) (lend fuel lo delta).
  Proof.
    induction fuel as [|f IH]; intros y lo delta; cbn [expand_left lprobes lend]; [reflexivity|].
    destruct (f64_round_Z (lo - delta)) as [h|]; [|reflexivity].
    cbn [walk_left]. destruct (Qle_bool y (FZ h)); [apply IH | reflexivity].
  Qed.

  (* what the correspondence check executes IS the model of the Go loop, for every F and y *)
  Theorem bracket_fast_correct : forall y, bracket_fast F y = bracket F go_expand_fuel y.
  Proof.
    intros y. unfold bracket_fast, bracket. destruct go_probes_closed_form as (E1 & E2 & E3 & E4).
    destruct (goes_right F y).
    - rewrite expand_right_walk, E1, E2. reflexivity.
    - rewrite expand_left_walk, E3, E4. reflexivity.
  Qed.
  Theorem invcdf_core_fast_correct : forall k y, invcdf_core_fast F k y = invcdf_core F go_expand_fuel k y.
  Proof. intros. unfold invcdf_core_fast, invcdf_core. rewrite bracket_fast_correct. reflexivity. Qed.

  (* ----- walking to the right ----- *)
  Lemma walk_right_found : forall ps y prev b lo hi,
    FZ prev < y -> walk_right F y prev ps (BInf b) = BFound lo hi ->
    FZ lo < y /\ y <= FZ hi /\ exists l1 l2, prev :: ps = l1 ++ lo :: hi :: l2.
  Proof.
    induction ps as [|p r IH]; intros y prev b lo hi Hp E; cbn [walk_right] in E; [discriminate|].
    destruct (Qltb (FZ p) y) eqn:C.
    - apply Qltb_true in C. destruct (IH y p b lo hi C E) as (A1 & A2 & l1 & l2 & A3).
      repeat split; try assumption. exists (prev :: l1), l2. rewrite A3. reflexivity.
    - apply Qltb_false in C. injection E as <- <-. repeat split; try assumption. exists [], r. reflexivity.
  Qed.
  Lemma walk_right_inf : forall ps y prev b r,
    walk_right F y prev ps (BInf b) = r -> (forall lo hi, r <> BFound lo hi) ->
    r = BInf b /\ forall p, In p ps -> FZ p < y.
  Proof.
    induction ps as [|p r IH]; intros y prev b res E N; cbn [walk_right] in E.
    - split; [congruence | intros p []].
    - destruct (Qltb (FZ p) y) eqn:C.
      + apply Qltb_true in C. destruct (IH y p b res E N) as (A1 & A2). split; [assumption|].
        intros p' [<-|H]; [assumption | apply A2; assumption].
      + exfalso. apply (N prev p). congruence.
  Qed.
  Lemma walk_right_lo_ge : forall ps y prev b lo hi, chain_up prev ps = true ->
    walk_right F y prev ps (BInf b) = BFound lo hi -> (prev <= lo)%Z.
  Proof.
    induction ps as [|p r IH]; intros y prev b lo hi Ch E; cbn [walk_right] in E; [discriminate|].
    destruct (chain_up_cons _ _ _ Ch) as (C1 & _ & _ & C4). destruct (Qltb (FZ p) y).
    - specialize (IH y p b lo hi C4 E). lia.
    - injection E as <- <-. lia.
  Qed.
  Lemma walk_right_mono : forall ps y1 y2 prev b a1 b1 a2 b2, y1 <= y2 -> chain_up prev ps = true ->
    walk_right F y1 prev ps (BInf b) = BFound a1 b1 -> walk_right F y2 prev ps (BInf b) = BFound a2 b2 ->
    (a1 = a2 /\ b1 = b2) \/ (b1 <= a2)%Z.
  Proof.
    induction ps as [|p r IH]; intros y1 y2 prev b a1 b1 a2 b2 Hy Ch E1 E2; cbn [walk_right] in E1, E2; [discriminate|].
    destruct (chain_up_cons _ _ _ Ch) as (C1 & _ & _ & C4).
    destruct (Qltb (FZ p) y1) eqn:D1; destruct (Qltb (FZ p) y2) eqn:D2.
    - apply (IH y1 y2 p b); assumption.
    - apply Qltb_true in D1. apply Qltb_false in D2. lra.
    - right. injection E1 as <- <-. apply (walk_right_lo_ge r y2 p b a2 b2 C4 E2).
    - left. injection E1 as <- <-. injection E2 as <- <-. auto.
  Qed.
  Lemma walk_right_mono_inf : forall ps y1 y2 prev b, y1 <= y2 ->
    walk_right F y1 prev ps (BInf b) = BInf b -> walk_right F y2 prev ps (BInf b) = BInf b.
  Proof.
    induction ps as [|p r IH]; intros y1 y2 prev b Hy E; cbn [walk_right] in *; [reflexivity|].
    destruct (Qltb (FZ p) y1) eqn:D1; [|discriminate].
    apply Qltb_true in D1. assert (D2 : Qltb (FZ p) y2 = true) by (apply Qltb_true; lra).
    rewrite D2. apply (IH y1); assumption.
  Qed.

  (* ----- walking to the left ----- *)
  Lemma walk_left_found : forall ps y prev b lo hi,
    y <= FZ prev -> walk_left F y prev ps (BInf b) = BFound lo hi ->
    FZ lo < y /\ y <= FZ hi /\ exists l1 l2, prev :: ps = l1 ++ hi :: lo :: l2.
  Proof.
    induction ps as [|p r IH]; intros y prev b lo hi Hp E; cbn [walk_left] in E; [discriminate|].
    destruct (Qle_bool y (FZ p)) eqn:C.
    - apply Qleb_true in C. destruct (IH y p b lo hi C E) as (A1 & A2 & l1 & l2 & A3).
      repeat split; try assumption. exists (prev :: l1), l2. rewrite A3. reflexivity.
    - apply Qleb_false in C. injection E as <- <-. repeat split; try assumption. exists [], r. reflexivity.
  Qed.
  Lemma walk_left_inf : forall ps y prev b r,
    walk_left F y prev ps (BInf b) = r -> (forall lo hi, r <> BFound lo hi) ->
    r = BInf b /\ forall p, In p ps -> y <= FZ p.
  Proof.
    induction ps as [|p r IH]; intros y prev b res E N; cbn [walk_left] in E.
    - split; [congruence | intros p []].
    - destruct (Qle_bool y (FZ p)) eqn:C.
      + apply Qleb_true in C. destruct (IH y p b res E N) as (A1 & A2). split; [assumption|].
        intros p' [<-|H]; [assumption | apply A2; assumption].
      + exfalso. apply (N p prev). congruence.
  Qed.
  Lemma walk_left_hi_le : forall ps y prev b lo hi, chain_down prev ps = true ->
    walk_left F y prev ps (BInf b) = BFound lo hi -> (hi <= prev)%Z.
  Proof.
    induction ps as [|p r IH]; intros y prev b lo hi Ch E; cbn [walk_left] in E; [discriminate|].
    destruct (chain_down_cons _ _ _ Ch) as (C1 & _ & _ & C4). destruct (Qle_bool y (FZ p)).
    - specialize (IH y p b lo hi C4 E). lia.
    - injection E as <- <-. lia.
  Qed.
  Lemma walk_left_mono : forall ps y1 y2 prev b a1 b1 a2 b2, y1 <= y2 -> chain_down prev ps = true ->
    walk_left F y1 prev ps (BInf b) = BFound a1 b1 -> walk_left F y2 prev ps (BInf b) = BFound a2 b2 ->
    (a1 = a2 /\ b1 = b2) \/ (b1 <= a2)%Z.
  Proof.
    induction ps as [|p r IH]; intros y1 y2 prev b a1 b1 a2 b2 Hy Ch E1 E2; cbn [walk_left] in E1, E2; [discriminate|].
    destruct (chain_down_cons _ _ _ Ch) as (C1 & _ & _ & C4).
    destruct (Qle_bool y1 (FZ p)) eqn:D1; destruct (Qle_bool y2 (FZ p)) eqn:D2.
    - apply (IH y1 y2 p b); assumption.
    - right. injection E2 as <- <-. apply (walk_left_hi_le r y1 p b a1 b1 C4 E1).
    - apply Qleb_false in D1. apply Qleb_true in D2. lra.
    - left. injection E1 as <- <-. injection E2 as <- <-. auto.
  Qed.
  Lemma walk_left_mono_inf : forall ps y1 y2 prev b, y1 <= y2 ->
    walk_left F y2 prev ps (BInf b) = BInf b -> walk_left F y1 prev ps (BInf b) = BInf b.
  Proof.
    induction ps as [|p r IH]; intros y1 y2 prev b Hy E; cbn [walk_left] in *; [reflexivity|].
    destruct (Qle_bool y2 (FZ p)) eqn:D2; [|discriminate].
    apply Qleb_true in D2. assert (D1 : Qle_bool y1 (FZ p) = true) by (apply Qleb_true; lra).
    rewrite D1. apply (IH y1 y2); assumption.
  Qed.

  Lemma walk_right_not_fuel : forall ps y prev b, walk_right F y prev ps (BInf b) <> BFuel.
  Proof. induction ps as [|p r IH]; intros; cbn [walk_right]; [discriminate|]. destruct (Qltb _ _); [apply IH | discriminate]. Qed.
  Lemma walk_left_not_fuel : forall ps y prev b, walk_left F y prev ps (BInf b) <> BFuel.
  Proof. induction ps as [|p r IH]; intros; cbn [walk_left]; [discriminate|]. destruct (Qle_bool _ _); [apply IH | discriminate]. Qed.

  (* with the fuel of the model the expansion always ends the way float64 does: a bracket or an overflow *)
  Theorem go_fuel_enough : forall y, bracket F go_expand_fuel y <> BFuel.
  Proof.
    intros y. rewrite <- bracket_fast_correct. unfold bracket_fast.
    destruct (goes_right F y); [apply walk_right_not_fuel | apply walk_left_not_fuel].
  Qed.

  Local Notation LAST := (inject_Z go_last_probe).

  (* the bracket found by doubling — NO hypothesis on F: F lo < y <= F hi, lo < hi neighbours in the probe
     sequence (so the bracket is at most as wide as its distance from the origin, + 2), within the last
     probes; an infinite result says that every probe on that side failed *)
  Theorem bracket_spec : forall y,
    match bracket F go_expand_fuel y with
    | BFound lo hi => FZ lo < y /\ y <= FZ hi /\ (lo < hi)%Z /\ (- go_last_probe <= lo)%Z /\ (hi <= go_last_probe)%Z /\
                      ((goes_right F y = true /\ 0 <= lo /\ hi <= 2 * lo + 2)%Z \/ (goes_right F y = false /\ hi <= 0 /\ 2 * hi - 2 <= lo)%Z)
    | BInf false => goes_right F y = true /\ forall p, In p go_probes -> FZ p < y
    | BInf true => goes_right F y = false /\ forall p, In p go_probes_neg -> y <= FZ p
    | BFuel => False
    end.
  Proof.
    intros y. rewrite <- bracket_fast_correct. unfold bracket_fast.
    destruct go_probes_chain as (U & D & _ & _).
    destruct (goes_right F y) eqn:G; unfold goes_right in G.
    - apply Qltb_true in G. destruct (walk_right F y 0%Z go_probes (BInf false)) as [lo hi|b|] eqn:E.
      + destruct (walk_right_found _ _ _ _ _ _ G E) as (A1 & A2 & l1 & l2 & A3).
        destruct (chain_up_adjacent _ _ _ _ _ _ U A3) as (? & ? & ? & ?).
        repeat split; try assumption; try lia.
      + destruct (walk_right_inf _ _ _ _ _ E ltac:(discriminate)) as (A1 & A2). injection A1 as ->. auto.
      + exact (walk_right_not_fuel _ _ _ _ E).
    - apply Qltb_false in G. destruct (walk_left F y 0%Z go_probes_neg (BInf true)) as [lo hi|b|] eqn:E.
      + destruct (walk_left_found _ _ _ _ _ _ G E) as (A1 & A2 & l1 & l2 & A3).
        destruct (chain_down_adjacent _ _ _ _ _ _ D A3) as (? & ? & ? & ?).
        repeat split; try assumption; try lia.
      + destruct (walk_left_inf _ _ _ _ _ E ltac:(discriminate)) as (A1 & A2). injection A1 as ->. auto.
      + exact (walk_left_not_fuel _ _ _ _ E).
  Qed.

  (* for a non-decreasing F an overflow means that NO point up to 2^1023 (down to -2^1023) has the
     missing property: the infinite result is never a wrong finite value *)
  Theorem bracket_inv : monotone -> forall y,
    match bracket F go_expand_fuel y with
    | BFound lo hi => FZ lo < y /\ y <= FZ hi /\ (lo < hi)%Z
    | BInf false => forall x, x <= LAST -> F x < y
    | BInf true => forall x, - LAST <= x -> y <= F x
    | BFuel => False
    end.
  Proof.
    intros M y. pose proof (bracket_spec y) as B. destruct go_probes_chain as (_ & _ & L1 & L2).
    destruct (bracket F go_expand_fuel y) as [lo hi|[|]|].
    - destruct B as (? & ? & ? & _). auto.
    - destruct B as (_ & B). intros x Hx. apply existsb_exists in L2. destruct L2 as (p & Hp & Ep).
      apply Z.eqb_eq in Ep. subst p. apply Qle_trans with (FZ (- go_last_probe)%Z); [apply B; assumption|].
      apply M. rewrite inject_Z_opp. assumption.
    - destruct B as (_ & B). intros x Hx. apply existsb_exists in L1. destruct L1 as (p & Hp & Ep).
      apply Z.eqb_eq in Ep. subst p. apply Qle_lt_trans with (FZ go_last_probe); [apply M; assumption | apply B; assumption].
    - assumption.
  Qed.

  (* a point with F < y not below -2^1023 and a point with F >= y not above 2^1023: a bracket is found *)
  Theorem bracket_found : monotone -> forall y a b,
    - LAST <= a -> F a < y -> b <= LAST -> y <= F b ->
    exists lo hi, bracket F go_expand_fuel y = BFound lo hi.
  Proof.
    intros M y a b Ha Fa Hb Fb. pose proof (bracket_inv M y) as B.
    destruct (bracket F go_expand_fuel y) as [lo hi|[|]|]; [eauto | | | contradiction].
    - specialize (B a Ha). lra.
    - specialize (B b Hb). lra.
  Qed.

  (* ----- bisection: the invariant holds after EVERY number of halvings ----- *)
  Theorem bisect_inv : forall k y lo hi,
    F lo < y -> y <= F hi -> lo <= hi ->
    let '(x1, x2) := bisect_bool F k y lo hi in
    F x1 < y /\ y <= F x2 /\ (x2 - x1) * qpow2 k == hi - lo /\ lo <= x1 /\ x1 <= x2 /\ x2 <= hi.
  Proof.
    induction k as [|k IH]; intros y lo hi Hlo Hhi Hle.
    - simpl. repeat split; try assumption; try lra.
    - cbn [bisect_bool qpow2]. set (mid := Qred ((hi + lo) / 2)).
      assert (Em : mid == (hi + lo) / 2) by apply Qred_correct.
      assert (Em2 : 2 * mid == hi + lo) by (rewrite Em; field).
      destruct (Qltb (F mid) y) eqn:C.
      + apply Qltb_true in C. specialize (IH y mid hi C Hhi ltac:(lra)).
        destruct (bisect_bool F k y mid hi) as [x1 x2].
        destruct IH as (A1 & A2 & A3 & A4 & A5 & A6).
        split; [assumption|]. split; [assumption|]. split; [|lra].
        assert (X : (x2 - x1) * (2 * qpow2 k) == 2 * ((x2 - x1) * qpow2 k)) by ring.
        rewrite X, A3. lra.
      + apply Qltb_false in C. specialize (IH y lo mid Hlo C ltac:(lra)).
        destruct (bisect_bool F k y lo mid) as [x1 x2].
        destruct IH as (A1 & A2 & A3 & A4 & A5 & A6).
        split; [assumption|]. split; [assumption|]. split; [|lra].
        assert (X : (x2 - x1) * (2 * qpow2 k) == 2 * ((x2 - x1) * qpow2 k)) by ring.
        rewrite X, A3. lra.
  Qed.

  (* ----- special values (dist.go:123-144) ----- *)
  Theorem invcdf_special_values : forall fuel k y,
    ((y < 0 \/ 1 < y) -> invcdf_generic F bl bh fuel k y = IVal XNaN) /\
    (y == 0 -> F bl == 0 -> invcdf_generic F bl bh fuel k y = IVal (XFin bl)) /\
    (y == 0 -> ~ F bl == 0 -> invcdf_generic F bl bh fuel k y = IVal (XInf true)) /\
    (y == 1 -> F bh == 1 -> invcdf_generic F bl bh fuel k y = IVal (XFin bh)) /\
    (y == 1 -> ~ F bh == 1 -> invcdf_generic F bl bh fuel k y = IVal (XInf false)) /\
    (0 < y -> y < 1 -> inv_special F bl bh y = None).
  Proof.
    intros fuel k y. unfold invcdf_generic, inv_special.
    repeat split.
    - intros [H|H].
      + apply Qltb_true in H. rewrite H. reflexivity.
      + apply Qltb_true in H. rewrite H, Bool.orb_true_r. reflexivity.
    - intros Hy HF. assert (A : Qltb y 0 = false) by (apply Qltb_false; lra).
      assert (B : Qltb 1 y = false) by (apply Qltb_false; lra). rewrite A, B. simpl.
      apply Qeqb_true in Hy. rewrite Hy. apply Qeqb_true in HF. rewrite HF. reflexivity.
    - intros Hy HF. assert (A : Qltb y 0 = false) by (apply Qltb_false; lra).
      assert (B : Qltb 1 y = false) by (apply Qltb_false; lra). rewrite A, B. simpl.
      apply Qeqb_true in Hy. rewrite Hy. apply Qeqb_false in HF. rewrite HF. reflexivity.
    - intros Hy HF. assert (A : Qltb y 0 = false) by (apply Qltb_false; lra).
      assert (B : Qltb 1 y = false) by (apply Qltb_false; lra). rewrite A, B. simpl.
      assert (C : Qeq_bool y 0 = false) by (apply Qeqb_false; lra). rewrite C.
      apply Qeqb_true in Hy. rewrite Hy. apply Qeqb_true in HF. rewrite HF. reflexivity.
    - intros Hy HF. assert (A : Qltb y 0 = false) by (apply Qltb_false; lra).
      assert (B : Qltb 1 y = false) by (apply Qltb_false; lra). rewrite A, B. simpl.
      assert (C : Qeq_bool y 0 = false) by (apply Qeqb_false; lra). rewrite C.
      apply Qeqb_true in Hy. rewrite Hy. apply Qeqb_false in HF. rewrite HF. reflexivity.
    - intros H0 H1. assert (A : Qltb y 0 = false) by (apply Qltb_false; lra).
      assert (B : Qltb 1 y = false) by (apply Qltb_false; lra). rewrite A, B. simpl.
      assert (C : Qeq_bool y 0 = false) by (apply Qeqb_false; lra).
      assert (D : Qeq_bool y 1 = false) by (apply Qeqb_false; lra). rewrite C, D. reflexivity.
  Qed.

  (* for 0 < y < 1 and non-decreasing F the closure never returns NaN and never panics: it returns the
     upper end x2 of a pair with F x1 < y <= F x2 that is (hi - lo) / 2^k wide, or +Inf when F < y all the
     way up to 2^1023, or -Inf when F >= y all the way down to -2^1023 *)
  Theorem invcdf_generic_regular : monotone -> forall k y, 0 < y -> y < 1 ->
    (exists lo hi x1 x2, bracket F go_expand_fuel y = BFound lo hi /\
        bisect_bool F k y (inject_Z lo) (inject_Z hi) = (x1, x2) /\
        invcdf_generic F bl bh go_expand_fuel k y = IVal (XFin x2) /\ F x1 < y /\ y <= F x2 /\ x1 <= x2 /\
        (x2 - x1) * qpow2 k == inject_Z hi - inject_Z lo)
    \/ (invcdf_generic F bl bh go_expand_fuel k y = IVal (XInf false) /\ forall x, x <= LAST -> F x < y)
    \/ (invcdf_generic F bl bh go_expand_fuel k y = IVal (XInf true) /\ forall x, - LAST <= x -> y <= F x).
  Proof.
    intros M k y H0 H1. unfold invcdf_generic.
    destruct (invcdf_special_values go_expand_fuel k y) as (_ & _ & _ & _ & _ & S). rewrite (S H0 H1).
    pose proof (bracket_inv M y) as B.
    destruct (bracket F go_expand_fuel y) as [lo hi|[|]|]; [| right; right; auto | right; left; auto | contradiction].
    left. destruct B as (B1 & B2 & B3).
    assert (Hle : inject_Z lo <= inject_Z hi) by (rewrite <- Zle_Qle; lia).
    pose proof (bisect_inv k y _ _ B1 B2 Hle) as I.
    destruct (bisect_bool F k y (inject_Z lo) (inject_Z hi)) as [x1 x2] eqn:E.
    destruct I as (A1 & A2 & A3 & A4 & A5 & A6). exists lo, hi, x1, x2. simpl. auto 10.
  Qed.

  (* ----- the value returned by the ALGORITHM is non-decreasing in y (no hypothesis on F),
     infinite results included ----- *)
  Lemma bisect_mono : forall k y1 y2 lo hi, y1 <= y2 -> F lo < y1 -> y2 <= F hi -> lo <= hi ->
    snd (bisect_bool F k y1 lo hi) <= snd (bisect_bool F k y2 lo hi).
  Proof.
    induction k as [|k IH]; intros y1 y2 lo hi Hy Hlo Hhi Hle.
    - simpl. lra.
    - cbn [bisect_bool]. set (mid := Qred ((hi + lo) / 2)).
      assert (Em : mid == (hi + lo) / 2) by apply Qred_correct.
      assert (Em2 : 2 * mid == hi + lo) by (rewrite Em; field).
      destruct (Qltb (F mid) y1) eqn:C1; destruct (Qltb (F mid) y2) eqn:C2.
      + apply Qltb_true in C1. apply IH; try assumption; lra.
      + apply Qltb_true in C1. apply Qltb_false in C2. lra.
      + apply Qltb_false in C1. apply Qltb_true in C2.
        pose proof (bisect_inv k y1 lo mid Hlo C1 ltac:(lra)) as I1.
        pose proof (bisect_inv k y2 mid hi C2 Hhi ltac:(lra)) as I2.
        destruct (bisect_bool F k y1 lo mid) as [u1 u2]. destruct (bisect_bool F k y2 mid hi) as [v1 v2].
        simpl. destruct I1 as (_ & _ & _ & _ & _ & I1). destruct I2 as (_ & _ & _ & I2 & I2' & _). lra.
      + apply Qltb_false in C1. apply Qltb_false in C2. apply IH; try assumption; lra.
  Qed.

  (* two levels: the same bracket, or the lower level's bracket ends where the higher one's begins or before;
     +Inf is inherited upwards, -Inf downwards *)
  Lemma walk_right_cases : forall ps y prev b,
    (exists lo hi, walk_right F y prev ps (BInf b) = BFound lo hi) \/ walk_right F y prev ps (BInf b) = BInf b.
  Proof.
    induction ps as [|p r IH]; intros y prev b; cbn [walk_right]; [right; reflexivity|].
    destruct (Qltb (FZ p) y); [apply IH | left; eauto].
  Qed.
  Lemma walk_left_cases : forall ps y prev b,
    (exists lo hi, walk_left F y prev ps (BInf b) = BFound lo hi) \/ walk_left F y prev ps (BInf b) = BInf b.
  Proof.
    induction ps as [|p r IH]; intros y prev b; cbn [walk_left]; [right; reflexivity|].
    destruct (Qle_bool y (FZ p)); [apply IH | left; eauto].
  Qed.

  Lemma bracket_mono : forall y1 y2, y1 <= y2 ->
    match bracket F go_expand_fuel y1, bracket F go_expand_fuel y2 with
    | BFound a1 b1, BFound a2 b2 => (a1 = a2 /\ b1 = b2) \/ (b1 <= a2)%Z
    | BInf false, r2 => r2 = BInf false
    | r1, BInf true => r1 = BInf true
    | _, _ => True
    end.
  Proof.
    intros y1 y2 Hy. rewrite <- !bracket_fast_correct. unfold bracket_fast.
    destruct go_probes_chain as (U & D & _ & _).
    destruct (goes_right F y1) eqn:G1; destruct (goes_right F y2) eqn:G2; unfold goes_right in G1, G2; cbv iota.
    - destruct (walk_right_cases go_probes y1 0%Z false) as [(a1 & b1 & E1)|E1];
      destruct (walk_right_cases go_probes y2 0%Z false) as [(a2 & b2 & E2)|E2]; rewrite E1, E2; cbv iota.
      + apply (walk_right_mono go_probes y1 y2 0%Z false); assumption.
      + exact I.
      + rewrite (walk_right_mono_inf go_probes y1 y2 0%Z false Hy E1) in E2. discriminate E2.
      + reflexivity.
    - apply Qltb_true in G1. apply Qltb_false in G2. lra.
    - destruct (walk_left_cases go_probes_neg y1 0%Z true) as [(a1 & b1 & E1)|E1];
      destruct (walk_right_cases go_probes y2 0%Z false) as [(a2 & b2 & E2)|E2]; rewrite E1, E2; cbv iota.
      + right. pose proof (walk_left_hi_le _ _ _ _ _ _ D E1). pose proof (walk_right_lo_ge _ _ _ _ _ _ U E2). lia.
      + exact I.
      + exact I.
      + exact I.
    - destruct (walk_left_cases go_probes_neg y1 0%Z true) as [(a1 & b1 & E1)|E1];
      destruct (walk_left_cases go_probes_neg y2 0%Z true) as [(a2 & b2 & E2)|E2]; rewrite E1, E2; cbv iota.
      + apply (walk_left_mono go_probes_neg y1 y2 0%Z true); assumption.
      + rewrite (walk_left_mono_inf go_probes_neg y1 y2 0%Z true Hy E2) in E1. discriminate E1.
      + exact I.
      + reflexivity.
  Qed.

  Theorem invcdf_generic_monotone_in_y : forall k y1 y2, 0 < y1 -> y1 <= y2 -> y2 < 1 ->
    exists r1 r2, invcdf_generic F bl bh go_expand_fuel k y1 = IVal r1 /\
                  invcdf_generic F bl bh go_expand_fuel k y2 = IVal r2 /\ xr_le r1 r2.
  Proof.
    intros k y1 y2 H0 H12 H1. unfold invcdf_generic.
    destruct (invcdf_special_values go_expand_fuel k y1) as (_ & _ & _ & _ & _ & S1). rewrite (S1 H0 ltac:(lra)).
    destruct (invcdf_special_values go_expand_fuel k y2) as (_ & _ & _ & _ & _ & S2). rewrite (S2 ltac:(lra) H1).
    pose proof (bracket_mono y1 y2 H12) as BM.
    pose proof (bracket_spec y1) as P1. pose proof (bracket_spec y2) as P2.
    destruct (bracket F go_expand_fuel y1) as [lo1 hi1|[|]|]; destruct (bracket F go_expand_fuel y2) as [lo2 hi2|[|]|];
      cbv iota in BM; try contradiction; try (discriminate BM);
      try (eexists; eexists; split; [reflexivity|]; split; [reflexivity|]; exact I).
    destruct P1 as (K1a & K1b & K1c & _). destruct P2 as (K2a & K2b & K2c & _).
    assert (L1 : inject_Z lo1 <= inject_Z hi1) by (rewrite <- Zle_Qle; lia).
    assert (L2 : inject_Z lo2 <= inject_Z hi2) by (rewrite <- Zle_Qle; lia).
    pose proof (bisect_inv k y1 _ _ K1a K1b L1) as I1. pose proof (bisect_inv k y2 _ _ K2a K2b L2) as I2.
    eexists. eexists. split; [reflexivity|]. split; [reflexivity|]. cbn [xr_le].
    destruct BM as [[<- <-]|BM].
    - apply bisect_mono; assumption.
    - destruct (bisect_bool F k y1 (inject_Z lo1) (inject_Z hi1)) as [u1 u2].
      destruct (bisect_bool F k y2 (inject_Z lo2) (inject_Z hi2)) as [v1 v2]. cbn [snd].
      destruct I1 as (_ & _ & _ & _ & _ & I1). destruct I2 as (_ & _ & _ & I2 & I2' & _).
      rewrite Zle_Qle in BM. lra.
  Qed.
End GenericProofs.

(* ================= Rand ================= *)
Theorem rand_is_inv_of_first_nonzero : forall (R : Type) (inv : Q -> R) (zeros : list Q) (y : Q) (rest : list Q),
  (forall z, In z zeros -> z == 0) -> ~ y == 0 ->
  rand_model inv (zeros ++ y :: rest) = Some (inv y, S (length zeros)).
Proof.
  intros R inv zeros y rest. induction zeros as [|z zs IH]; intros Hz Hy; simpl.
  - apply Qeqb_false in Hy. rewrite Hy. reflexivity.
  - assert (E : Qeq_bool z 0 = true) by (apply Qeqb_true, Hz; left; reflexivity). rewrite E.
    rewrite IH; [reflexivity | intros w Hw; apply Hz; right; assumption | assumption].
Qed.

(* a source of zeros only never yields a draw (the Go loop does not terminate) *)
Theorem rand_none_iff_all_zero : forall (R : Type) (inv : Q -> R) (src : list Q),
  rand_model inv src = None <-> (forall z, In z src -> z == 0).
Proof.
  intros R inv src. induction src as [|z zs IH]; simpl.
  - split; [intros _ w [] | reflexivity].
  - destruct (Qeq_bool z 0) eqn:E.
    + apply Qeqb_true in E. destruct (rand_model inv zs) as [[r n]|].
      * split; [discriminate|]. intros H. exfalso.
        assert (X : Some (r, n) = None) by (apply IH; intros w Hw; apply H; right; assumption). discriminate.
      * split; [|reflexivity]. intros _ w [<-|Hw]; [assumption|]. apply (proj1 IH eq_refl); assumption.
    + apply Qeqb_false in E. split; [discriminate|]. intros H. exfalso. apply E, H. left. reflexivity.
Qed.

(* ================= the piecewise family ================= *)
Lemma ramp_bounds px xi pv li x : px < xi -> pv <= li -> px <= x -> x <= xi ->
  pv <= pv + (x - px) * (li - pv) / (xi - px) /\ pv + (x - px) * (li - pv) / (xi - px) <= li.
Proof.
  intros. assert (0 <= (x - px) * (li - pv) / (xi - px)) by (apply le_div_iff; [lra | nra]).
  assert ((x - px) * (li - pv) / (xi - px) <= li - pv) by (apply div_le_iff; [lra | nra]). lra.
Qed.

Lemma pw_cdf_from_range : forall rest px pv x, pw_wf_from px pv rest -> px <= x ->
  pv <= pw_cdf_from px pv rest x /\ pw_cdf_from px pv rest x <= 1.
Proof.
  induction rest as [|[[xi li] vi] r IH]; intros px pv x W Hx; simpl in *.
  - lra.
  - destruct W as (W1 & W2 & W3 & W4). destruct (Qle_bool xi x) eqn:C.
    + apply Qleb_true in C. destruct (IH _ _ _ W4 C). lra.
    + apply Qleb_false in C. destruct (ramp_bounds px xi pv li x W1 W2 Hx ltac:(lra)).
      assert (vi <= 1). { destruct (IH xi vi xi W4 ltac:(lra)). lra. } lra.
Qed.

(* the Galois connection, from a knot onwards *)
Lemma galois_from : forall rest px pv y, pw_wf_from px pv rest -> pv < y -> y <= 1 ->
  exists q, pw_q_from px pv rest y = Some q /\ px < q /\
            forall x, px <= x -> (q <= x <-> y <= pw_cdf_from px pv rest x).
Proof.
  induction rest as [|[[xi li] vi] r IH]; intros px pv y W Hy Hy1; simpl in *.
  - lra.
  - destruct W as (W1 & W2 & W3 & W4).
    destruct (Qle_bool y li) eqn:C1.
    + (* on the ramp *)
      apply Qleb_true in C1. eexists; split; [reflexivity|].
      assert (Hq : 0 < (y - pv) * (xi - px) / (li - pv)).
      { apply Qlt_shift_div_l; [lra | nra]. }
      assert (Hq2 : (y - pv) * (xi - px) / (li - pv) <= xi - px).
      { apply div_le_iff; [lra | nra]. }
      split; [lra|]. intros x Hx. destruct (Qle_bool xi x) eqn:C.
      * apply Qleb_true in C. destruct (pw_cdf_from_range r xi vi x W4 C). split; intro; lra.
      * apply Qleb_false in C.
        assert (K : (y - pv) * (xi - px) / (li - pv) <= x - px <-> y - pv <= (x - px) * (li - pv) / (xi - px)).
        { rewrite div_le_iff by lra. rewrite le_div_iff by lra. reflexivity. }
        split; intro; [assert ((y - pv) * (xi - px) / (li - pv) <= x - px) by lra; apply K in H0; lra
                      | assert (y - pv <= (x - px) * (li - pv) / (xi - px)) by lra; apply K in H0; lra].
    + apply Qleb_false in C1. destruct (Qle_bool y vi) eqn:C2.
      * (* in the jump at xi *)
        apply Qleb_true in C2. eexists; split; [reflexivity|]. split; [assumption|].
        intros x Hx. destruct (Qle_bool xi x) eqn:C.
        -- apply Qleb_true in C. destruct (pw_cdf_from_range r xi vi x W4 C). split; intro; lra.
        -- apply Qleb_false in C. destruct (ramp_bounds px xi pv li x W1 W2 Hx ltac:(lra)). split; intro; lra.
      * apply Qleb_false in C2. destruct (IH xi vi y W4 C2 Hy1) as (q & E & Hq & G).
        exists q. split; [assumption|]. split; [lra|]. intros x Hx. destruct (Qle_bool xi x) eqn:C.
        -- apply Qleb_true in C. apply G. assumption.
        -- apply Qleb_false in C. destruct (ramp_bounds px xi pv li x W1 W2 Hx ltac:(lra)). split; intro; lra.
Qed.

(* pw_quantile y <= x  <->  y <= pw_cdf x *)
Theorem galois : forall pw y, pw_wf pw -> 0 < y -> y <= 1 ->
  exists q, pw_quantile pw y = Some q /\ forall x, q <= x <-> y <= pw_cdf pw x.
Proof.
  intros [|[[x0 l0] v0] r] y W H0 H1; simpl in *; [contradiction|].
  destruct W as (W1 & W2 & W3). destruct (Qle_bool y v0) eqn:C.
  - apply Qleb_true in C. exists x0. split; [reflexivity|]. intros x. destruct (Qle_bool x0 x) eqn:D.
    + apply Qleb_true in D. destruct (pw_cdf_from_range r x0 v0 x W3 D). split; intro; lra.
    + apply Qleb_false in D. split; intro; lra.
  - apply Qleb_false in C. destruct (galois_from r x0 v0 y W3 C H1) as (q & E & Hq & G).
    exists q. split; [assumption|]. intros x. destruct (Qle_bool x0 x) eqn:D.
    + apply Qleb_true in D. apply G. assumption.
    + apply Qleb_false in D. split; intro; lra.
Qed.

Theorem pw_cdf_range : forall pw x, pw_wf pw -> 0 <= pw_cdf pw x /\ pw_cdf pw x <= 1.
Proof.
  intros [|[[x0 l0] v0] r] x W; simpl in *; [contradiction|].
  destruct W as (W1 & W2 & W3). destruct (Qle_bool x0 x) eqn:D.
  - apply Qleb_true in D. destruct (pw_cdf_from_range r x0 v0 x W3 D). lra.
  - lra.
Qed.

(* pw_quantile y is the SMALLEST x with cdf x >= y *)
Theorem pw_quantile_spec : forall pw y, pw_wf pw -> 0 < y -> y <= 1 ->
  exists q, pw_quantile pw y = Some q /\ y <= pw_cdf pw q /\ forall x, x < q -> pw_cdf pw x < y.
Proof.
  intros pw y W H0 H1. destruct (galois pw y W H0 H1) as (q & E & G). exists q. split; [assumption|]. split.
  - apply G. apply Qle_refl.
  - intros x Hx. apply Qnot_le_lt. intro C. apply G in C. lra.
Qed.

Theorem pw_cdf_monotone : forall pw, pw_wf pw -> forall a b, a <= b -> pw_cdf pw a <= pw_cdf pw b.
Proof.
  intros pw W a b Hab. destruct (pw_cdf_range pw a W) as (A0 & A1). destruct (pw_cdf_range pw b W) as (B0 & B1).
  destruct (Qlt_le_dec 0 (pw_cdf pw a)) as [P|P]; [|lra].
  destruct (galois pw (pw_cdf pw a) W P A1) as (q & E & G).
  apply G. apply Qle_trans with a; [|assumption]. apply G. apply Qle_refl.
Qed.

(* the quantile function is non-decreasing in y *)
Theorem invcdf_monotone_in_y : forall pw y1 y2 q1 q2, pw_wf pw -> 0 < y1 -> y1 <= y2 -> y2 <= 1 ->
  pw_quantile pw y1 = Some q1 -> pw_quantile pw y2 = Some q2 -> q1 <= q2.
Proof.
  intros pw y1 y2 q1 q2 W H0 H12 H1 E1 E2.
  destruct (galois pw y1 W H0 ltac:(lra)) as (a & Ea & Ga). destruct (galois pw y2 W ltac:(lra) H1) as (b & Eb & Gb).
  rewrite E1 in Ea. rewrite E2 in Eb. injection Ea as <-. injection Eb as <-.
  apply Ga. apply Qle_trans with y2; [assumption|]. apply Gb. apply Qle_refl.
Qed.

(* any pair with cdf x1 < y <= cdf x2 encloses the quantile; the bisection keeps such a pair for
   every number of halvings, so whenever it stops the returned upper end x2 is within the final
   width of the smallest x with cdf x >= y, from above *)
Theorem invcdf_enclosure : forall pw y lo hi k, pw_wf pw -> 0 < y -> y <= 1 ->
  pw_cdf pw lo < y -> y <= pw_cdf pw hi ->
  let '(x1, x2) := bisect_bool (pw_cdf pw) k y lo hi in
  exists q, pw_quantile pw y = Some q /\ x1 < q /\ q <= x2 /\ (x2 - q) * qpow2 k < hi - lo.
Proof.
  intros pw y lo hi k W H0 H1 Hlo Hhi.
  assert (Hle : lo <= hi).
  { destruct (Qlt_le_dec hi lo) as [C|C]; [|assumption].
    pose proof (pw_cdf_monotone pw W hi lo ltac:(lra)). lra. }
  pose proof (bisect_inv (pw_cdf pw) k y lo hi Hlo Hhi Hle) as I.
  destruct (bisect_bool (pw_cdf pw) k y lo hi) as [x1 x2].
  destruct I as (A1 & A2 & A3 & A4 & A5 & A6).
  destruct (galois pw y W H0 H1) as (q & E & G). exists q. split; [assumption|].
  assert (Q1 : x1 < q). { apply Qnot_le_lt. intro C. apply G in C. lra. }
  assert (Q2 : q <= x2) by (apply G; assumption).
  repeat split; try assumption.
  pose proof (qpow2_ge1 k). rewrite <- A3. apply Qmult_lt_compat_r; lra.
Qed.

(* the complete generic routine on a piecewise cdf, in terms of the quantile q (smallest x with cdf x >= y):
   - q within (-2^1023, 2^1023]: a finite x2 >= q, closer to q than (|q| + 2) / 2^k after k halvings
     (the bracket found by doubling is at most as wide as its distance from the origin, + 2);
   - q beyond 2^1023: +Inf;  q at or below -2^1023: -Inf  (float64 cannot bracket it: dist.go:163-167) *)
Theorem invcdf_generic_pw_spec : forall pw bl bh k y q, pw_wf pw -> 0 < y -> y < 1 -> pw_quantile pw y = Some q ->
  (- inject_Z go_last_probe < q -> q <= inject_Z go_last_probe ->
     exists x2, invcdf_generic (pw_cdf pw) bl bh go_expand_fuel k y = IVal (XFin x2) /\
                q <= x2 /\ (x2 - q) * qpow2 k < Qabs q + 2) /\
  (inject_Z go_last_probe < q -> invcdf_generic (pw_cdf pw) bl bh go_expand_fuel k y = IVal (XInf false)) /\
  (q <= - inject_Z go_last_probe -> invcdf_generic (pw_cdf pw) bl bh go_expand_fuel k y = IVal (XInf true)).
Proof.
  intros pw bl bh k y q W H0 H1 Eq.
  destruct (galois pw y W H0 ltac:(lra)) as (q' & Eq' & G). rewrite Eq in Eq'. injection Eq' as <-.
  pose proof (pw_cdf_monotone pw W) as M.
  assert (LP : 0 < inject_Z go_last_probe) by reflexivity.
  pose proof (bracket_spec (pw_cdf pw) y) as BS.
  destruct (invcdf_generic_regular (pw_cdf pw) bl bh M k y H0 H1)
    as [(lo & hi & x1 & x2 & EB & EBi & R & A1 & A2 & A3 & A4) | [(R & A) | (R & A)]].
  - rewrite EB in BS. destruct BS as (B1 & B2 & B3 & B4 & B5 & B6).
    assert (Q1 : x1 < q). { apply Qnot_le_lt. intro C. apply G in C. lra. }
    assert (Q2 : q <= x2) by (apply G; assumption).
    assert (Qlo : inject_Z lo < q). { apply Qnot_le_lt. intro C. apply G in C. lra. }
    assert (Qhi : q <= inject_Z hi) by (apply G; assumption).
    assert (L4 : - inject_Z go_last_probe <= inject_Z lo) by (rewrite <- inject_Z_opp, <- Zle_Qle; assumption).
    assert (L5 : inject_Z hi <= inject_Z go_last_probe) by (rewrite <- Zle_Qle; assumption).
    split; [|split].
    + intros _ _. exists x2. split; [assumption|]. split; [assumption|].
      pose proof (qpow2_ge1 k) as P.
      apply Qlt_le_trans with ((x2 - x1) * qpow2 k); [apply Qmult_lt_compat_r; lra|]. rewrite A4.
      destruct B6 as [(_ & C1 & C2) | (_ & C1 & C2)].
      * rewrite Zle_Qle in C1, C2. rewrite inject_Z_plus, inject_Z_mult in C2.
        assert (0 <= q) by (change (inject_Z 0) with 0 in C1; lra). rewrite Qabs_pos by assumption.
        change (inject_Z 2) with 2 in C2. lra.
      * rewrite Zle_Qle in C1, C2. unfold Z.sub in C2. rewrite inject_Z_plus, inject_Z_mult in C2.
        rewrite inject_Z_opp in C2. change (inject_Z 0) with 0 in C1. change (inject_Z 2) with 2 in C2.
        assert (q <= 0) by lra. rewrite Qabs_neg by assumption. lra.
    + intro C. lra.
    + intro C. lra.
  - split; [|split].
    + intros _ C. specialize (A q C). pose proof (proj1 (G q) ltac:(lra)). lra.
    + intros _. assumption.
    + intro C. specialize (A q ltac:(lra)). pose proof (proj1 (G q) ltac:(lra)). lra.
  - assert (N : q <= - inject_Z go_last_probe) by (apply G; apply A; lra).
    split; [|split].
    + intros C _. lra.
    + intro C. lra.
    + intros _. assumption.
Qed.

(* below every break point the cdf is 0, from the last one on it is 1 *)
Lemma pw_cdf_below : forall pw x, pw_wf pw -> (forall k, In k pw -> x < fst (fst k)) -> pw_cdf pw x == 0.
Proof.
  intros [|[[x0 l0] v0] r] x W H; simpl in *; [contradiction|].
  assert (C : Qle_bool x0 x = false). { apply Qleb_false. apply (H (x0, l0, v0)). left. reflexivity. }
  rewrite C. reflexivity.
Qed.
Lemma pw_cdf_from_above : forall rest px pv x, pw_wf_from px pv rest -> px <= x ->
  (forall k, In k rest -> fst (fst k) <= x) -> pw_cdf_from px pv rest x == 1.
Proof.
  induction rest as [|[[xi li] vi] r IH]; intros px pv x W Hx H; simpl in *.
  - assumption.
  - destruct W as (W1 & W2 & W3 & W4).
    assert (C : Qle_bool xi x = true). { apply Qleb_true. apply (H (xi, li, vi)). left. reflexivity. }
    rewrite C. apply IH; [assumption | apply (H (xi, li, vi)); left; reflexivity |].
    intros k Hk. apply H. right. assumption.
Qed.
Lemma pw_cdf_above : forall pw x, pw_wf pw -> (forall k, In k pw -> fst (fst k) <= x) -> pw_cdf pw x == 1.
Proof.
  intros [|[[x0 l0] v0] r] x W H; simpl in *; [contradiction|]. destruct W as (W1 & W2 & W3).
  assert (C : Qle_bool x0 x = true). { apply Qleb_true. apply (H (x0, l0, v0)). left. reflexivity. }
  rewrite C. apply pw_cdf_from_above; [assumption | apply (H (x0, l0, v0)); left; reflexivity |].
  intros k Hk. apply H. right. assumption.
Qed.

(* with every break point inside (-2^1023, 2^1023] the routine returns a finite value for every 0 < y < 1 *)
Theorem invcdf_generic_pw_total : forall pw bl bh k y, pw_wf pw -> 0 < y -> y < 1 ->
  (forall kn, In kn pw -> - inject_Z go_last_probe < fst (fst kn) /\ fst (fst kn) <= inject_Z go_last_probe) ->
  exists x2 q, invcdf_generic (pw_cdf pw) bl bh go_expand_fuel k y = IVal (XFin x2) /\ pw_quantile pw y = Some q /\
               q <= x2 /\ (x2 - q) * qpow2 k < Qabs q + 2.
Proof.
  intros pw bl bh k y W H0 H1 Hk.
  destruct (galois pw y W H0 ltac:(lra)) as (q & Eq & G).
  assert (A : pw_cdf pw (- inject_Z go_last_probe) == 0) by (apply pw_cdf_below; [assumption | intros kn Hkn; apply Hk; assumption]).
  assert (B : pw_cdf pw (inject_Z go_last_probe) == 1) by (apply pw_cdf_above; [assumption | intros kn Hkn; apply Hk; assumption]).
  assert (Q1 : - inject_Z go_last_probe < q). { apply Qnot_le_lt. intro C. apply G in C. lra. }
  assert (Q2 : q <= inject_Z go_last_probe) by (apply G; lra).
  destruct (invcdf_generic_pw_spec pw bl bh k y q W H0 H1 Eq) as (S & _ & _).
  destruct (S Q1 Q2) as (x2 & R1 & R2 & R3). exists x2, q. auto.
Qed.

(* the decidable well-formedness test run by the check implies the predicate *)
Lemma pw_wfb_from_sound : forall rest px pv, pw_wfb_from px pv rest = true -> pw_wf_from px pv rest.
Proof.
  induction rest as [|[[xi li] vi] r IH]; intros px pv H; simpl in *.
  - apply Qeqb_true. assumption.
  - repeat (apply Bool.andb_true_iff in H; destruct H as [H ?]).
    repeat split; [apply Qltb_true | apply Qleb_true | apply Qleb_true | apply IH]; assumption.
Qed.
Theorem pw_wfb_sound : forall pw, pw_wfb pw = true -> pw_wf pw.
Proof.
  intros [|[[x0 l0] v0] r] H; simpl in *; [discriminate|].
  repeat (apply Bool.andb_true_iff in H; destruct H as [H ?]).
  repeat split; [apply Qeqb_true | apply Qleb_true | apply pw_wfb_from_sound]; assumption.
Qed.

(* ================= discrete oracle ================= *)
Lemma last_default_irrelevant : forall (A : Type) (l : list A) (a d1 d2 : A), last (a :: l) d1 = last (a :: l) d2.
Proof. intros A. induction l as [|b l IH]; intros a d1 d2; [reflexivity|]. simpl in *. apply (IH b). Qed.

(* disc_quantile returns the FIRST entry of the table whose cdf is >= t — every earlier entry is
   below t — or, when no entry qualifies, the last support point *)
Theorem disc_quantile_spec : forall tab t dflt,
  (exists pre c post, tab = pre ++ (disc_quantile tab t dflt, c) :: post /\ t <= c /\
                      forall k' c', In (k', c') pre -> c' < t)
  \/ ((forall k' c', In (k', c') tab -> c' < t) /\ disc_quantile tab t dflt = last (map fst tab) dflt).
Proof.
  induction tab as [|[k c] r IH]; intros t dflt; simpl.
  - right. split; [intros ? ? [] | reflexivity].
  - destruct (Qle_bool t c) eqn:C.
    + apply Qleb_true in C. left. exists [], c, r. split; [reflexivity|]. split; [assumption | intros ? ? []].
    + apply Qleb_false in C. destruct (IH t k) as [(pre & c0 & post & E & Hc & Hpre) | (Hall & E)].
      * left. exists ((k, c) :: pre), c0, post. split; [simpl; rewrite <- E; reflexivity|]. split; [assumption|].
        intros k' c' [X|X]; [injection X as <- <-; assumption | eapply Hpre; eassumption].
      * right. split.
        -- intros k' c' [X|X]; [injection X as <- <-; assumption | eapply Hall; eassumption].
        -- rewrite E. destruct r as [|[k2 c2] r2]; [reflexivity|]. simpl map. apply last_default_irrelevant.
Qed.

Lemma disc_table_keys : forall cdf cnt k, map fst (disc_table cdf k cnt) = map (fun i => (k + Z.of_nat i)%Z) (seq 0 cnt).
Proof.
  intros cdf. induction cnt as [|n IH]; intros k; simpl; [reflexivity|].
  rewrite Z.add_0_r. f_equal. rewrite IH. rewrite <- seq_shift, map_map. apply map_ext. intros i. lia.
Qed.
Lemma disc_table_values : forall cdf cnt k k' c, In (k', c) (disc_table cdf k cnt) -> c == cdf k'.
Proof.
  intros cdf. induction cnt as [|n IH]; intros k k' c H; simpl in H; [contradiction|].
  destruct H as [X|X]; [injection X as <- <-; apply Qred_correct | eapply IH; eassumption].
Qed.

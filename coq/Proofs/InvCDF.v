(* Proofs/InvCDF.v — placeholder, replaced below *)
From MM Require Import Base.Num Model.InvCDF.
Local Open Scope Q_scope.
Lemma rand_model_nil : forall (inv : Q -> Q), rand_model inv [] = None.
Proof. reflexivity. Qed.

(* Proofs/InvCDFCheck.v — (group hG) what an ACCEPTED level of the C07 comparator means for a harness-defined
   piecewise distribution (ops 0 and 4 of Check/C07.v), stated with the mathematical specification only:
   the observed value is within the tolerance of THE LEAST x with cdf x >= y — or the matching infinity
   exactly when that x is out of float64's reach —, NaN outside [0,1], the Bounds end point / -Inf / +Inf
   at y = 0 / 1.  No function of the model (bracket, bisection, probes, pw_quantile) occurs in the conclusion. *)
From MM Require Import Base.Num Model.Choose Model.Binom Model.Hyperg Model.InvCDF Proofs.InvCDF Check.C06 Check.C07.
From Coq Require Import Lqa Lia.
Local Open Scope Q_scope.

(* x is THE LEAST point with F x >= y *)
Definition least_ge (F : Q -> Q) (y x : Q) : Prop := y <= F x /\ forall x', x' < x -> F x' < y.

Lemma xeq_fin q obs : xeq (XFin q) obs = true -> exists o, obs = XFin o /\ o == q.
Proof.
  destruct obs as [|b|o]; simpl; try discriminate. unfold within. intro H. apply Qleb_true in H.
  exists o. split; [reflexivity|]. apply Qabs_Qle_condition in H. lra.
Qed.
Lemma xeq_inf b obs : xeq (XInf b) obs = true -> obs = XInf b.
Proof. destruct obs as [|b'|o]; simpl; try discriminate. intro H. apply Bool.eqb_prop in H. congruence. Qed.
Lemma xeq_nan obs : is_nan obs = true -> obs = XNaN.
Proof. destruct obs; simpl; congruence. Qed.

Local Notation LAST := (inject_Z go_last_probe).

(* 0 < y < 1 *)
Theorem check_pw_y_sound : forall pw bl bh y st obs tag, pw_wf pw -> 0 < y -> y < 1 ->
  check_pw_y pw bl bh (XFin y) st obs = (tag, None) ->
  st = 0%Z /\ exists q, least_ge (pw_cdf pw) y q /\
    ((- LAST < q /\ q <= LAST /\ exists o, obs = XFin o /\ Qabs (o - q) <= tol_x pw y q /\ y - eps_level <= pw_cdf pw o)
     \/ (LAST < q /\ obs = XInf false)
     \/ (q <= - LAST /\ obs = XInf true)).
Proof.
  intros pw bl bh y st obs tag W H0 H1 E. unfold check_pw_y in E.
  destruct (invcdf_special_values (pw_cdf pw) bl bh go_expand_fuel 0 y) as (_ & _ & _ & _ & _ & S). rewrite (S H0 H1) in E.
  destruct (galois pw y W H0 ltac:(lra)) as (q & Eq & G). rewrite Eq in E.
  assert (LG : least_ge (pw_cdf pw) y q).
  { split; [apply G; lra|]. intros x' Hx. apply Qnot_le_lt. intro C. apply G in C. lra. }
  pose proof (pw_cdf_monotone pw W) as M.
  rewrite invcdf_core_fast_correct in E. unfold invcdf_core in E.
  pose proof (bracket_spec (pw_cdf pw) y) as BS. pose proof (bracket_inv (pw_cdf pw) M y) as BI.
  rewrite bracket_fast_correct in E.
  destruct (bracket (pw_cdf pw) go_expand_fuel y) as [lo hi|neg|].
  - destruct (bisect_bool (pw_cdf pw) model_halvings y (inject_Z lo) (inject_Z hi)) as [x1 x2].
    destruct BS as (B1 & B2 & B3 & B4 & B5 & _).
    assert (Qlo : inject_Z lo < q). { apply Qnot_le_lt. intro C. apply G in C. lra. }
    assert (Qhi : q <= inject_Z hi) by (apply G; assumption).
    assert (L4 : - LAST <= inject_Z lo) by (rewrite <- inject_Z_opp, <- Zle_Qle; assumption).
    assert (L5 : inject_Z hi <= LAST) by (rewrite <- Zle_Qle; assumption).
    destruct obs as [|b|o]; try discriminate E.
    destruct (st =? 0)%Z eqn:St; simpl in E; [|discriminate E]. apply Z.eqb_eq in St.
    destruct (within (tol_x pw y q) q o) eqn:Wi; simpl in E; [|discriminate E].
    destruct (Qle_bool (y - eps_level) (pw_cdf pw o)) eqn:Le; simpl in E; [|discriminate E].
    split; [assumption|]. exists q. split; [assumption|]. left. split; [lra|]. split; [lra|].
    exists o. split; [reflexivity|]. unfold within in Wi. apply Qleb_true in Wi. apply Qleb_true in Le. auto.
  - destruct neg.
    + destruct ((st =? 0)%Z && xeq (XInf true) obs) eqn:C; [|discriminate E].
      apply andb_prop in C. destruct C as [St X]. apply Z.eqb_eq in St. apply xeq_inf in X.
      split; [assumption|]. exists q. split; [assumption|]. right. right. split; [|assumption].
      apply G. apply BI. lra.
    + destruct ((st =? 0)%Z && xeq (XInf false) obs) eqn:C; [|discriminate E].
      apply andb_prop in C. destruct C as [St X]. apply Z.eqb_eq in St. apply xeq_inf in X.
      split; [assumption|]. exists q. split; [assumption|]. right. left. split; [|assumption].
      apply Qnot_le_lt. intro C. specialize (BI q C). destruct LG. lra.
  - discriminate E.
Qed.

(* y outside (0,1): NaN out of range, the end-point rule at 0 and 1 *)
Lemma inv_special_cases F bl bh y :
  match inv_special F bl bh y with
  | None => 0 < y /\ y < 1
  | Some r => ((y < 0 \/ 1 < y) /\ r = XNaN)
              \/ (y == 0 /\ ((F bl == 0 /\ r = XFin bl) \/ (~ F bl == 0 /\ r = XInf true)))
              \/ (y == 1 /\ ((F bh == 1 /\ r = XFin bh) \/ (~ F bh == 1 /\ r = XInf false)))
  end.
Proof.
  unfold inv_special.
  destruct (Qltb y 0) eqn:A; [apply Qltb_true in A; left; auto|]. apply Qltb_false in A.
  destruct (Qltb 1 y) eqn:B; [apply Qltb_true in B; left; auto|]. apply Qltb_false in B. cbn [orb].
  destruct (Qeq_bool y 0) eqn:C.
  - apply Qeqb_true in C. right. left. split; [assumption|].
    destruct (Qeq_bool (F bl) 0) eqn:D; [apply Qeqb_true in D | apply Qeqb_false in D]; auto.
  - apply Qeqb_false in C. destruct (Qeq_bool y 1) eqn:D.
    + apply Qeqb_true in D. right. right. split; [assumption|].
      destruct (Qeq_bool (F bh) 1) eqn:D'; [apply Qeqb_true in D' | apply Qeqb_false in D']; auto.
    + apply Qeqb_false in D. split; lra.
Qed.

Theorem check_pw_y_sound_special : forall pw bl bh y st obs tag,
  check_pw_y pw bl bh (XFin y) st obs = (tag, None) ->
  ((y < 0 \/ 1 < y) -> st = 0%Z /\ obs = XNaN) /\
  (y == 0 -> st = 0%Z /\ ((pw_cdf pw bl == 0 /\ exists o, obs = XFin o /\ o == bl) \/ (~ pw_cdf pw bl == 0 /\ obs = XInf true))) /\
  (y == 1 -> st = 0%Z /\ ((pw_cdf pw bh == 1 /\ exists o, obs = XFin o /\ o == bh) \/ (~ pw_cdf pw bh == 1 /\ obs = XInf false))).
Proof.
  intros pw bl bh y st obs tag E. unfold check_pw_y in E.
  pose proof (inv_special_cases (pw_cdf pw) bl bh y) as IS.
  destruct (inv_special (pw_cdf pw) bl bh y) as [r|].
  2: { repeat split; intros; lra. }
  destruct ((st =? 0)%Z && xeq r obs) eqn:D; [|discriminate E]. clear E.
  apply andb_prop in D. destruct D as [St X]. apply Z.eqb_eq in St.
  destruct IS as [(Hy & ->) | [(Hy & [(HF & ->) | (HF & ->)]) | (Hy & [(HF & ->) | (HF & ->)])]].
  - split; [|split]; intros H; try lra. split; [assumption|]. destruct obs; simpl in X; try discriminate X. reflexivity.
  - split; [|split]; intros H; try lra. split; [assumption|]. left. split; [assumption | apply xeq_fin; assumption].
  - split; [|split]; intros H; try lra. split; [assumption|]. right. split; [assumption | apply xeq_inf; assumption].
  - split; [|split]; intros H; try lra. split; [assumption|]. left. split; [assumption | apply xeq_fin; assumption].
  - split; [|split]; intros H; try lra. split; [assumption|]. right. split; [assumption | apply xeq_inf; assumption].
Qed.

(* "non-decreasing in y" as compared by the check: an accepted list of levels is ordered *)
Lemma mono_against_sound : forall tol rest i yi xi, mono_against tol i yi xi rest = None ->
  forall j yj xj, In (j, yj, xj) rest -> (yi <= yj -> xr_leb tol xi xj = true) /\ (yj <= yi -> xr_leb tol xj xi = true).
Proof.
  induction rest as [|[[j' yj'] xj'] r IH]; intros i yi xi E j yj xj Hin; [destruct Hin|].
  cbn [mono_against] in E.
  destruct ((Qle_bool yi yj' && negb (xr_leb tol xi xj')) || (Qle_bool yj' yi && negb (xr_leb tol xj' xi))) eqn:C; [discriminate E|].
  apply Bool.orb_false_iff in C. destruct C as [C1 C2].
  destruct Hin as [Hin|Hin].
  - injection Hin as -> -> ->. split; intro Hy; apply Qleb_true in Hy.
    + rewrite Hy in C1. simpl in C1. apply Bool.negb_false_iff in C1. assumption.
    + rewrite Hy in C2. simpl in C2. apply Bool.negb_false_iff in C2. assumption.
  - apply (IH i yi xi E j yj xj Hin).
Qed.
Theorem mono_check_sound : forall tol l, mono_check tol l = None ->
  forall l1 i yi xi l2 j yj xj l3, l = l1 ++ (i, yi, xi) :: l2 ++ (j, yj, xj) :: l3 ->
  (yi <= yj -> xr_leb tol xi xj = true) /\ (yj <= yi -> xr_leb tol xj xi = true).
Proof.
  induction l as [|[[i0 y0] x0] r IH]; intros E l1 i yi xi l2 j yj xj l3 EL.
  - destruct l1; discriminate EL.
  - cbn [mono_check] in E. destruct (mono_against tol i0 y0 x0 r) eqn:A; [discriminate E|].
    destruct l1 as [|h l1].
    + injection EL as -> -> -> ->. apply (mono_against_sound tol _ _ _ _ A j yj xj).
      apply in_or_app. right. left. reflexivity.
    + injection EL as _ EL. apply (IH E l1 i yi xi l2 j yj xj l3 EL).
Qed.

(* ---------- the whole comparator on an op-0 line (InvCDF of a harness-defined piecewise distribution) ----------
   An accepted verdict (code 0 = ok, 1 = borderline) means: the line parses into a WELL-FORMED cdf, Bounds and
   levels, every level satisfies the specification below, and the results are non-decreasing in y. *)
Definition level_spec (pw : pwf) (bl bh : Q) (it : xreal * Z * xreal) : Prop :=
  let '(y, st, obs) := it in
  match y with
  | XNaN => True                                       (* nothing is demanded for a NaN argument *)
  | XInf _ => st = 0%Z /\ obs = XNaN
  | XFin yq =>
      st = 0%Z /\
      ((yq < 0 \/ 1 < yq) -> obs = XNaN) /\
      (yq == 0 -> (pw_cdf pw bl == 0 /\ exists o, obs = XFin o /\ o == bl) \/ (~ pw_cdf pw bl == 0 /\ obs = XInf true)) /\
      (yq == 1 -> (pw_cdf pw bh == 1 /\ exists o, obs = XFin o /\ o == bh) \/ (~ pw_cdf pw bh == 1 /\ obs = XInf false)) /\
      (0 < yq -> yq < 1 -> exists q, least_ge (pw_cdf pw) yq q /\
         ((- LAST < q /\ q <= LAST /\ exists o, obs = XFin o /\ Qabs (o - q) <= tol_x pw yq q /\ yq - eps_level <= pw_cdf pw o)
          \/ (LAST < q /\ obs = XInf false) \/ (q <= - LAST /\ obs = XInf true)))
  end.

Lemma check_pw_y_level : forall pw bl bh y st obs tag, pw_wf pw ->
  check_pw_y pw bl bh y st obs = (tag, None) -> level_spec pw bl bh (y, st, obs).
Proof.
  intros pw bl bh y st obs tag W E. destruct y as [|b|yq]; cbn [level_spec].
  - exact I.
  - unfold check_pw_y in E. destruct ((st =? 0)%Z && is_nan obs) eqn:C; [|discriminate E].
    apply andb_prop in C. destruct C as [St N]. apply Z.eqb_eq in St. apply xeq_nan in N. auto.
  - destruct (check_pw_y_sound_special pw bl bh yq st obs tag E) as (S1 & S2 & S3).
    assert (St : st = 0%Z).
    { destruct (Qlt_le_dec yq 0) as [C|C]; [apply S1; auto|].
      destruct (Qlt_le_dec 1 yq) as [C'|C']; [apply S1; auto|].
      destruct (Qeq_dec yq 0) as [C0|C0]; [apply S2; assumption|].
      destruct (Qeq_dec yq 1) as [C1|C1]; [apply S3; assumption|].
      apply (check_pw_y_sound pw bl bh yq st obs tag W); try assumption; lra. }
    split; [assumption|]. split; [intro H; apply S1; assumption|].
    split; [intro H; apply S2; assumption|]. split; [intro H; apply S3; assumption|].
    intros H0 H1. apply (check_pw_y_sound pw bl bh yq st obs tag W H0 H1 E).
Qed.

Lemma run_pw_items_sound : forall pw bl bh, pw_wf pw -> forall items idx tag t,
  run_pw_items pw bl bh items idx tag = (t, None) -> Forall (level_spec pw bl bh) items.
Proof.
  intros pw bl bh W. induction items as [|[[y st] o] rest IH]; intros idx tag t E; [constructor|].
  cbn [run_pw_items] in E. destruct (check_pw_y pw bl bh y st o) as [t0 [dg|]] eqn:C; [discriminate E|].
  constructor; [apply (check_pw_y_level pw bl bh y st o t0 W C) | apply (IH _ _ _ E)].
Qed.

(* non-decreasing in y over the regular levels of the case *)
Definition levels_ordered (items : list (xreal * Z * xreal)) : Prop :=
  forall l1 i yi xi l2 j yj xj l3, mono_items 0 items = l1 ++ (i, yi, xi) :: l2 ++ (j, yj, xj) :: l3 ->
  (yi <= yj -> xr_leb 0 xi xj = true) /\ (yj <= yi -> xr_leb 0 xj xi = true).

Lemma with_mono_none : forall tol items r t, with_mono tol items r = (t, None) ->
  r = (t, None) /\ mono_check tol (mono_items 0 items) = None.
Proof.
  intros tol items [tag [d|]] t E; cbn [with_mono] in E; [discriminate E|].
  destruct (mono_check tol (mono_items 0 items)) as [[i j]|]; [discriminate E|]. auto.
Qed.

Lemma finish_accepted : forall r c tag pos diag, finish r = verdict c tag pos diag -> (c = 0 \/ c = 1)%Z ->
  exists t, r = (t, None).
Proof.
  intros [t [[idx dg]|]] c tag pos diag E Hc; [|eauto]. exfalso. cbn [finish] in E.
  assert (X : forall code, verdict code t idx dg = verdict c tag pos diag -> code = c) by (unfold verdict; intros; congruence).
  destruct dg as [|d0 dg'].
  - apply X in E. unfold V_MISMATCH in E. lia.
  - destruct dg' as [|d1 dg'']; [destruct (d0 =? 99)%Z eqn:D|].
    all: try (destruct d0 as [|p|p]; try (apply X in E; unfold V_MISMATCH, V_MALFORMED in E; lia)).
    all: try (repeat (destruct p as [p|p|]; try (apply X in E; unfold V_MISMATCH, V_MALFORMED in E; lia))).
Qed.

Theorem check_C07_op0_sound : forall rest c tag pos diag,
  check_C07 (7 :: 0 :: rest)%Z = verdict c tag pos diag -> (c = 0 \/ c = 1)%Z ->
  exists pw bl bh items,
    (do pw <- plist p_knot; do bl <- pQ; do bh <- pQ; do items <- plist p_item; pend (pw, bl, bh, items)) rest = Some ((pw, bl, bh, items), []) /\
    pw_wf pw /\ Forall (level_spec pw bl bh) items /\ levels_ordered items.
Proof.
  intros rest c tag pos diag E Hc. cbn [check_C07] in E.
  destruct ((do pw <- plist p_knot; do bl <- pQ; do bh <- pQ; do items <- plist p_item; pend (pw, bl, bh, items)) rest)
    as [[[[[pw bl] bh] items] tl]|] eqn:P.
  2: { exfalso. unfold verdict in E. injection E as E _. unfold V_MALFORMED in E. lia. }
  destruct (valid_pw pw) eqn:V; cbn [negb] in E.
  2: { exfalso. unfold verdict in E. injection E as E _. unfold V_MALFORMED in E. lia. }
  destruct (finish_accepted _ _ _ _ _ E Hc) as (t & R).
  destruct (with_mono_none _ _ _ _ R) as (R1 & R2).
  assert (W : pw_wf pw) by (apply pw_wfb_sound; exact V).
  assert (TL : tl = []).
  { unfold pbind in P.
    destruct (plist p_knot rest) as [[a0 r0]|]; [|discriminate P].
    destruct (pQ r0) as [[a1 r1]|]; [|discriminate P].
    destruct (pQ r1) as [[a2 r2]|]; [|discriminate P].
    destruct (plist p_item r2) as [[a3 r3]|]; [|discriminate P].
    unfold pend in P. destruct r3; [|discriminate P]. injection P as _ _ _ _ <-. reflexivity. }
  subst tl. exists pw, bl, bh, items. split; [reflexivity|]. split; [assumption|].
  split; [apply (run_pw_items_sound pw bl bh W items 0%Z 0%Z t R1)|].
  intros l1 i yi xi l2 j yj xj l3 EL. apply (mono_check_sound 0 _ R2 l1 i yi xi l2 j yj xj l3 EL).
Qed.

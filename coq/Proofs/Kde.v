(* Proofs/Kde.v — lemmas about Model/Kde.v (exact KDE model over Q) against Spec/Kde.v.
   Everything in this file is over Q / Z / lists and closed under the global context.
   The analytic statements (derivative pair, integrals) live over the reals in Proofs/KdeR.v
   (about RealSpec/KdeR.v) and are tied to the rational spec in Proofs/KdeQR.v. *)
From MM Require Import Base.Num Base.GASort Model.Sample Model.Quantile Model.Kde Spec.Kde.
From Coq Require Import Qround Lqa Lra Psatz.
Local Open Scope Q_scope.

(* ====================================================================== *)
(* 0. boolean tests                                                         *)
(* ====================================================================== *)
Lemma Qltb_true (a b : Q) : Qltb a b = true <-> a < b.
Proof.
  unfold Qltb. rewrite negb_true_iff. split; intro H.
  - apply Qnot_le_lt. intro L. apply Qle_bool_iff in L. congruence.
  - destruct (Qle_bool b a) eqn:E; auto. apply Qle_bool_iff in E. exfalso. apply (Qlt_not_le _ _ H E).
Qed.
Lemma Qltb_false (a b : Q) : Qltb a b = false <-> b <= a.
Proof.
  unfold Qltb. rewrite negb_false_iff. apply Qle_bool_iff.
Qed.
Lemma Qle_bool_false (a b : Q) : Qle_bool a b = false <-> b < a.
Proof.
  split; intro H.
  - apply Qnot_le_lt. intro L. apply Qle_bool_iff in L. congruence.
  - destruct (Qle_bool a b) eqn:E; auto. apply Qle_bool_iff in E. exfalso. apply (Qlt_not_le _ _ H E).
Qed.
Lemma Qeq_bool_false (a b : Q) : Qeq_bool a b = false <-> ~ a == b.
Proof.
  split; intro H.
  - intro E. apply Qeq_bool_iff in E. congruence.
  - destruct (Qeq_bool a b) eqn:E; auto. apply Qeq_bool_iff in E. contradiction.
Qed.
Lemma Qltb_comp (a b c d : Q) : a == c -> b == d -> Qltb a b = Qltb c d.
Proof. intros H1 H2. unfold Qltb. now rewrite H1, H2. Qed.

Ltac qb :=
  repeat match goal with
  | H : Qltb _ _ = true |- _ => apply Qltb_true in H
  | H : Qltb _ _ = false |- _ => apply Qltb_false in H
  | H : Qle_bool _ _ = true |- _ => apply Qle_bool_iff in H
  | H : Qle_bool _ _ = false |- _ => apply Qle_bool_false in H
  | H : Qeq_bool _ _ = true |- _ => apply Qeq_bool_iff in H
  | H : Qeq_bool _ _ = false |- _ => apply Qeq_bool_false in H
  | H : (_ && _)%bool = true |- _ => apply andb_true_iff in H; destruct H
  | H : (_ || _)%bool = false |- _ => apply orb_false_iff in H; destruct H
  end.

(* ====================================================================== *)
(* 1. Epanechnikov kernel                                                   *)
(* ====================================================================== *)
Lemma epan_pdf_nonneg (h x : Q) : 0 < h -> 0 <= epan_pdf h x.
Proof.
  intro Hh. unfold epan_pdf.
  destruct (Qltb (- h) x && Qltb x h) eqn:E; [| apply Qle_refl].
  apply andb_true_iff in E. destruct E as [E1 E2]. apply Qltb_true in E1. apply Qltb_true in E2.
  assert (Hx : x * x <= h * h) by nra.
  assert (Hhh : 0 < h * h) by nra.
  apply Qmult_le_0_compat.
  - apply Qle_shift_div_l; auto. lra.
  - assert (x * x * (1 / (h * h)) <= 1); [| lra].
    setoid_replace (x * x * (1 / (h * h))) with (x * x / (h * h)) by (field; lra).
    apply Qle_shift_div_r; auto. lra.
Qed.

(* the density vanishes outside the OPEN interval (-h, h) — literally 0 *)
Lemma epan_pdf_outside (h x : Q) : x <= - h \/ h <= x -> epan_pdf h x = 0.
Proof.
  intros [H|H]; unfold epan_pdf.
  - apply Qltb_false in H. now rewrite H.
  - apply Qltb_false in H. rewrite H. now rewrite andb_false_r.
Qed.

(* inside the support it is the parabola (3/(4h)) (1 - x^2/h^2), and strictly positive *)
Lemma epan_pdf_inside (h x : Q) : 0 < h -> - h < x -> x < h ->
  epan_pdf h x == (3 # 4) / h * (1 - x * x / (h * h)) /\ 0 < epan_pdf h x.
Proof.
  intros Hh H1 H2. unfold epan_pdf.
  apply Qltb_true in H1 as B1. apply Qltb_true in H2 as B2. rewrite B1, B2. cbn [andb].
  assert (Hhh : 0 < h * h) by nra.
  split; [field; lra|].
  apply Qmult_lt_0_compat.
  - apply Qlt_shift_div_l; auto. lra.
  - assert (x * x * (1 / (h * h)) < 1); [| lra].
    setoid_replace (x * x * (1 / (h * h))) with (x * x / (h * h)) by (field; lra).
    apply Qlt_shift_div_r; auto. nra.
Qed.

Lemma epan_pdf_zero_iff (h x : Q) : 0 < h -> (epan_pdf h x == 0 <-> x <= - h \/ h <= x).
Proof.
  intro Hh. split.
  - intro E. destruct (Qlt_le_dec (- h) x) as [A|A]; [|now left].
    destruct (Qlt_le_dec x h) as [B|B]; [|now right].
    destruct (epan_pdf_inside h x Hh A B) as [_ P]. rewrite E in P. lra.
  - intro H. now rewrite (epan_pdf_outside h x H).
Qed.

Lemma epan_pdf_comp (h x y : Q) : x == y -> epan_pdf h x == epan_pdf h y.
Proof.
  intro E. unfold epan_pdf.
  rewrite (Qltb_comp (- h) x (- h) y), (Qltb_comp x h y h) by (auto; reflexivity).
  destruct (Qltb (- h) y && Qltb y h); [now rewrite E | reflexivity].
Qed.

(* the kernel is even *)
Lemma epan_pdf_even (h x : Q) : epan_pdf h (- x) == epan_pdf h x.
Proof.
  unfold epan_pdf.
  assert (A : Qltb (- h) (- x) = Qltb x h).
  { destruct (Qltb x h) eqn:E; qb; [apply Qltb_true | apply Qltb_false]; lra. }
  assert (B : Qltb (- x) h = Qltb (- h) x).
  { destruct (Qltb (- h) x) eqn:E; qb; [apply Qltb_true | apply Qltb_false]; lra. }
  rewrite A, B, andb_comm.
  destruct (Qltb (- h) x && Qltb x h); [ring | reflexivity].
Qed.

(* distribution function: literally 0 left of the support *)
Lemma epan_cdf_left (h x : Q) : 0 <= h -> x <= - h -> epan_cdf h x = 0.
Proof.
  intros Hh H. unfold epan_cdf.
  assert (A : Qltb h x = false) by (apply Qltb_false; lra).
  assert (B : Qltb (- h) x = false) by (apply Qltb_false; lra).
  now rewrite A, B.
Qed.

Lemma epan_cdf_mid (h x : Q) : - h < x -> x <= h ->
  epan_cdf h x == (1 # 4) * (2 + 3 * (x / h) - (x / h) * (x / h) * (x / h)).
Proof.
  intros H1 H2. unfold epan_cdf.
  assert (A : Qltb h x = false) by (apply Qltb_false; lra).
  assert (B : Qltb (- h) x = true) by (apply Qltb_true; lra).
  rewrite A, B. cbv zeta. assert (h == 0 \/ ~ h == 0) as [Z|NZ].
  { destruct (Qeq_dec h 0); auto. }
  - exfalso. lra.
  - field. exact NZ.
Qed.

(* and 1 from the right end of the support on (at x = h by the polynomial) *)
Lemma epan_cdf_right (h x : Q) : 0 < h -> h <= x -> epan_cdf h x == 1.
Proof.
  intros Hh H. destruct (Qlt_le_dec h x) as [A|A].
  - unfold epan_cdf. apply Qltb_true in A. now rewrite A.
  - assert (E : x == h) by lra.
    rewrite epan_cdf_mid by lra. rewrite E. field. lra.
Qed.

Lemma epan_cdf_comp (h x y : Q) : x == y -> epan_cdf h x == epan_cdf h y.
Proof.
  intro E. unfold epan_cdf.
  rewrite (Qltb_comp h x h y), (Qltb_comp (- h) x (- h) y) by (auto; reflexivity).
  destruct (Qltb h y); [reflexivity|]. destruct (Qltb (- h) y); [|reflexivity].
  cbv zeta. now rewrite E.
Qed.

(* the polynomial piece is non-decreasing on [-1, 1]:
   P(v) - P(u) = (v - u) (3 - (u^2 + u v + v^2)) / 4 *)
Lemma epan_poly_mono (u v : Q) : -1 <= u -> u <= v -> v <= 1 ->
  (1 # 4) * (2 + 3 * u - u * u * u) <= (1 # 4) * (2 + 3 * v - v * v * v).
Proof.
  intros A B C.
  assert (E : (1 # 4) * (2 + 3 * v - v * v * v) - (1 # 4) * (2 + 3 * u - u * u * u)
              == (1 # 4) * ((v - u) * (3 - (u * u + u * v + v * v)))) by ring.
  assert (0 <= (v - u) * (3 - (u * u + u * v + v * v))); [| lra].
  apply Qmult_le_0_compat; [lra|]. nra.
Qed.

Theorem epan_cdf_mono (h a b : Q) : 0 < h -> a <= b -> epan_cdf h a <= epan_cdf h b.
Proof.
  intros Hh Hab.
  assert (Pos : forall x, - h < x -> x <= h ->
            -1 < x / h /\ x / h <= 1).
  { intros x X1 X2. split.
    - apply Qlt_shift_div_l; lra.
    - apply Qle_shift_div_r; lra. }
  assert (Range : forall x, - h < x -> x <= h -> 0 <= epan_cdf h x /\ epan_cdf h x <= 1).
  { intros x X1 X2. destruct (Pos x X1 X2) as [U1 U2]. rewrite epan_cdf_mid by assumption.
    split.
    - pose proof (epan_poly_mono (-1) (x / h)). lra.
    - pose proof (epan_poly_mono (x / h) 1). lra. }
  destruct (Qlt_le_dec (- h) a) as [A1|A1].
  - destruct (Qlt_le_dec h a) as [A2|A2].
    + rewrite (epan_cdf_right h a), (epan_cdf_right h b) by lra. lra.
    + destruct (Qlt_le_dec h b) as [B2|B2].
      * rewrite (epan_cdf_right h b) by lra. apply Range; assumption.
      * rewrite !epan_cdf_mid by lra.
        destruct (Pos a) as [U1 U2]; try lra. destruct (Pos b) as [V1 V2]; try lra.
        apply epan_poly_mono; try lra.
        apply Qle_shift_div_l; [lra|].
        setoid_replace (a / h * h) with a by (field; lra). exact Hab.
  - rewrite (epan_cdf_left h a) by lra.
    destruct (Qlt_le_dec (- h) b) as [B1|B1].
    + destruct (Qlt_le_dec h b) as [B2|B2].
      * rewrite (epan_cdf_right h b) by lra. lra.
      * apply Range; assumption.
    + rewrite (epan_cdf_left h b) by lra. lra.
Qed.

Theorem epan_cdf_range (h x : Q) : 0 < h -> 0 <= epan_cdf h x /\ epan_cdf h x <= 1.
Proof.
  intro Hh. split.
  - destruct (Qlt_le_dec x (- h)) as [A|A].
    + rewrite epan_cdf_left by lra. lra.
    + rewrite <- (epan_cdf_left h (- h)) at 1 by lra. apply epan_cdf_mono; assumption.
  - destruct (Qlt_le_dec x h) as [A|A].
    + rewrite <- (epan_cdf_right h h) by lra. apply epan_cdf_mono; lra.
    + rewrite epan_cdf_right by lra. lra.
Qed.

(* total mass of the kernel: K(h) - K(-h) = 1 *)
Theorem epan_mass_one (h : Q) : 0 < h -> epan_cdf h h - epan_cdf h (- h) == 1.
Proof.
  intro Hh. rewrite (epan_cdf_left h (- h)) by lra. rewrite epan_cdf_right by lra. ring.
Qed.

(* symmetry K(-x) = 1 - K(x) *)
Lemma epan_cdf_sym (h x : Q) : 0 < h -> epan_cdf h (- x) == 1 - epan_cdf h x.
Proof.
  intro Hh.
  destruct (Qlt_le_dec x (- h)) as [A|A].
  - rewrite (epan_cdf_left h x), (epan_cdf_right h (- x)) by lra. ring.
  - destruct (Qlt_le_dec h x) as [B|B].
    + rewrite (epan_cdf_left h (- x)), (epan_cdf_right h x) by lra. ring.
    + destruct (Qeq_dec x (- h)) as [E|NE].
      * rewrite (epan_cdf_comp h x (- h) E), (epan_cdf_comp h (- x) h) by lra.
        rewrite (epan_cdf_left h (- h)), epan_cdf_right by lra. ring.
      * destruct (Qeq_dec x h) as [E2|NE2].
        -- rewrite (epan_cdf_comp h x h E2), (epan_cdf_comp h (- x) (- h)) by lra.
           rewrite (epan_cdf_left h (- h)), epan_cdf_right by lra. ring.
        -- assert (- h < x) by (destruct (Qlt_le_dec (- h) x); auto; exfalso; apply NE; lra).
           assert (x < h) by (destruct (Qlt_le_dec x h); auto; exfalso; apply NE2; lra).
           rewrite !epan_cdf_mid by lra. field. lra.
Qed.

(* ====================================================================== *)
(* 2. the closure y = mix g: the weighted average of the kernel             *)
(* ====================================================================== *)
Lemma fold_Qred_sum {A} (t : A -> Q) (l : list A) (a : Q) :
  fold_left (fun acc p => Qred (acc + t p)) l a == a + Qsum (map t l).
Proof.
  revert a. induction l as [|p l IH]; intro a; cbn [fold_left map Qsum]; [ring|].
  rewrite IH, Qred_correct. ring.
Qed.

Lemma Qsum_ext {A} (s t : A -> Q) (l : list A) :
  (forall p, In p l -> s p == t p) -> Qsum (map s l) == Qsum (map t l).
Proof.
  induction l as [|p l IH]; intro H; cbn [map Qsum]; [reflexivity|].
  rewrite (H p (or_introl eq_refl)), IH; [reflexivity|]. intros q Hq. apply H. now right.
Qed.

Lemma Qsum_nonneg {A} (t : A -> Q) (l : list A) :
  (forall p, In p l -> 0 <= t p) -> 0 <= Qsum (map t l).
Proof.
  induction l as [|p l IH]; intro H; cbn [map Qsum]; [lra|].
  pose proof (H p (or_introl eq_refl)). assert (0 <= Qsum (map t l)); [|lra].
  apply IH. intros q Hq. apply H. now right.
Qed.

Lemma Qsum_le {A} (s t : A -> Q) (l : list A) :
  (forall p, In p l -> s p <= t p) -> Qsum (map s l) <= Qsum (map t l).
Proof.
  induction l as [|p l IH]; intro H; cbn [map Qsum]; [lra|].
  pose proof (H p (or_introl eq_refl)). assert (Qsum (map s l) <= Qsum (map t l)); [|lra].
  apply IH. intros q Hq. apply H. now right.
Qed.

(* a sum of non-negative terms is zero only if every term is *)
Lemma Qsum_zero_inv {A} (t : A -> Q) (l : list A) :
  (forall p, In p l -> 0 <= t p) -> Qsum (map t l) == 0 -> forall p, In p l -> t p == 0.
Proof.
  induction l as [|p l IH]; intros H E q Hq; [destruct Hq|].
  cbn [map Qsum] in E.
  pose proof (H p (or_introl eq_refl)) as P0.
  assert (R0 : 0 <= Qsum (map t l)) by (apply Qsum_nonneg; intros r Hr; apply H; now right).
  destruct Hq as [<-|Hq]; [lra|].
  apply IH; auto; [intros r Hr; apply H; now right | lra].
Qed.

(* well-formed weights: as many as values *)
Definition ws_wf (xs : list Q) (ws : option (list Q)) : Prop :=
  match ws with None => True | Some w => length w = length xs end.
(* ... and all positive *)
Definition ws_pos (ws : option (list Q)) : Prop :=
  match ws with None => True | Some w => Forall (fun wi => 0 < wi) w end.

Lemma map_snd_combine (xs ws : list Q) : length ws = length xs -> map snd (combine xs ws) = ws.
Proof.
  revert ws. induction xs as [|x xs IH]; intros [|w ws] H; cbn in *; try discriminate; auto.
  f_equal. apply IH. lia.
Qed.

Lemma Qofnat_S (n : nat) : Qofnat (S n) == Qofnat n + 1.
Proof. unfold Qofnat. rewrite Nat2Z.inj_succ, <- Z.add_1_r, inject_Z_plus. reflexivity. Qed.
Lemma Qofnat_nonneg (n : nat) : 0 <= Qofnat n.
Proof. unfold Qofnat. change 0 with (inject_Z 0). rewrite <- Zle_Qle. lia. Qed.

Lemma mix_sum_spec (g : Q -> Q) xs ws x : ws_wf xs ws ->
  mix_sum g xs ws x == Qsum (map (fun p => snd p * g (x - fst p)) (kpairs xs ws)).
Proof.
  intro W. unfold mix_sum, kpairs. destruct ws as [w|].
  - rewrite (fold_Qred_sum (fun p => g (x - fst p) * snd p)). rewrite Qplus_0_l.
    apply Qsum_ext. intros p _. ring.
  - rewrite (fold_Qred_sum (fun xi => g (x - xi))). rewrite Qplus_0_l, map_map. cbn [fst snd].
    apply Qsum_ext. intros p _. ring.
Qed.

Lemma mix_weight_spec xs ws : ws_wf xs ws -> mix_weight xs ws == wtotal (kpairs xs ws).
Proof.
  intro W. unfold mix_weight, kpairs, wtotal. destruct ws as [w|].
  - cbn in W. rewrite map_snd_combine by exact W.
    rewrite (fold_Qred_sum (fun wi => wi)), map_id. ring.
  - clear W. rewrite map_map. cbn [snd]. induction xs as [|x xs IH]; [reflexivity|].
    cbn [length map Qsum]. rewrite Qofnat_S, IH. ring.
Qed.

(* THE CLOSURE y OF KDE.PDF / KDE.CDF IS THE WEIGHTED AVERAGE OF THE KERNEL *)
Theorem mix_is_wavg (g : Q -> Q) xs ws x : ws_wf xs ws ->
  mix g xs ws x == wavg g (kpairs xs ws) x.
Proof.
  intro W. unfold mix, wavg. rewrite Qred_correct.
  rewrite (mix_sum_spec g xs ws x W), (mix_weight_spec xs ws W). reflexivity.
Qed.

Lemma kpairs_ok xs ws : xs <> [] -> ws_wf xs ws -> ws_pos ws -> pairs_ok (kpairs xs ws).
Proof.
  intros Hne W P. unfold kpairs. destruct ws as [w|]; split.
  - destruct xs as [|x xs]; [congruence|]. destruct w as [|w0 w]; [discriminate|]. discriminate.
  - cbn in W, P. clear Hne. revert w W P. induction xs as [|x xs IH]; intros [|w0 w] W P; cbn; auto.
    inversion P; subst. constructor; [assumption|]. apply IH; [cbn in W; lia | assumption].
  - destruct xs; [congruence | discriminate].
  - apply Forall_forall. intros p Hp. apply in_map_iff in Hp. destruct Hp as [x0 [<- _]]. cbn. lra.
Qed.

Lemma kpairs_fst xs ws : ws_wf xs ws -> map fst (kpairs xs ws) = xs.
Proof.
  unfold kpairs. destruct ws as [w|]; cbn.
  - revert w. induction xs as [|x xs IH]; intros [|w0 w] W; cbn in *; try discriminate; auto.
    f_equal. apply IH. lia.
  - intros _. rewrite map_map. cbn. apply map_id.
Qed.

Lemma wtotal_pos ps : pairs_ok ps -> 0 < wtotal ps.
Proof.
  intros [Hne Hp]. unfold wtotal. destruct ps as [|p ps]; [congruence|].
  inversion Hp as [|? ? P0 Pr]; subst. cbn [map Qsum].
  assert (0 <= Qsum (map snd ps)); [|lra].
  apply Qsum_nonneg. intros q Hq. rewrite Forall_forall in Pr. specialize (Pr q Hq). lra.
Qed.

Section Wavg.
  Variable ps : list (Q * Q).
  Hypothesis ps_ok : pairs_ok ps.

  Let Wpos : 0 < wtotal ps := wtotal_pos ps ps_ok.
  Let wnn : forall p, In p ps -> 0 < snd p.
  Proof. pose proof ps_ok as [_ F]. rewrite Forall_forall in F. exact F. Qed.

  Lemma wavg_nonneg (g : Q -> Q) x : (forall t, 0 <= g t) -> 0 <= wavg g ps x.
  Proof.
    intro G. unfold wavg. apply Qle_shift_div_l; [exact Wpos|]. rewrite Qmult_0_l.
    apply Qsum_nonneg. intros p Hp. pose proof (wnn p Hp). specialize (G (x - fst p)). nra.
  Qed.

  Lemma wavg_le (g g' : Q -> Q) x x' :
    (forall p, In p ps -> g (x - fst p) <= g' (x' - fst p)) -> wavg g ps x <= wavg g' ps x'.
  Proof.
    intro G. unfold wavg. apply Qle_shift_div_l; [exact Wpos|].
    setoid_replace (Qsum (map (fun p => snd p * g (x - fst p)) ps) / wtotal ps * wtotal ps)
      with (Qsum (map (fun p => snd p * g (x - fst p)) ps)) by (field; lra).
    apply Qsum_le. intros p Hp. pose proof (wnn p Hp). specialize (G p Hp). nra.
  Qed.

  (* a monotone kernel distribution function gives a monotone estimate *)
  Lemma wavg_mono (g : Q -> Q) a b :
    (forall s t, s <= t -> g s <= g t) -> a <= b -> wavg g ps a <= wavg g ps b.
  Proof. intros G Hab. apply wavg_le. intros p _. apply G. lra. Qed.

  Lemma wavg_const (g : Q -> Q) x c :
    (forall p, In p ps -> g (x - fst p) == c) -> wavg g ps x == c.
  Proof.
    intro G. unfold wavg.
    assert (E : Qsum (map (fun p => snd p * g (x - fst p)) ps) == c * wtotal ps).
    { unfold wtotal. clear Wpos wnn ps_ok. induction ps as [|p l IH]; cbn [map Qsum]; [ring|].
      rewrite (G p (or_introl eq_refl)), IH; [ring|]. intros q Hq. apply G. now right. }
    rewrite E. field. lra.
  Qed.

  Lemma wavg_zero_iff (g : Q -> Q) x : (forall t, 0 <= g t) ->
    (wavg g ps x == 0 <-> forall p, In p ps -> g (x - fst p) == 0).
  Proof.
    intro G. split.
    - intros E p Hp. unfold wavg in E.
      assert (S0 : Qsum (map (fun p => snd p * g (x - fst p)) ps) == 0).
      { setoid_replace (Qsum (map (fun p => snd p * g (x - fst p)) ps))
          with (Qsum (map (fun p => snd p * g (x - fst p)) ps) / wtotal ps * wtotal ps) by (field; lra).
        rewrite E. ring. }
      pose proof (Qsum_zero_inv (fun p => snd p * g (x - fst p)) ps) as Z.
      assert (T : snd p * g (x - fst p) == 0).
      { apply Z; auto. intros q Hq. pose proof (wnn q Hq). specialize (G (x - fst q)). nra. }
      pose proof (wnn p Hp). specialize (G (x - fst p)).
      assert (~ snd p == 0) by lra.
      apply Qmult_integral in T. destruct T; [contradiction | assumption].
    - intro Z. apply wavg_const. exact Z.
  Qed.

  Lemma wavg_comp (g : Q -> Q) x y :
    (forall s t, s == t -> g s == g t) -> x == y -> wavg g ps x == wavg g ps y.
  Proof.
    intros G E. unfold wavg. apply Qdiv_comp; [|reflexivity].
    apply Qsum_ext. intros p _. rewrite (G (x - fst p) (y - fst p)); [reflexivity|]. now rewrite E.
  Qed.

  (* every value within [lo, hi]: a kernel that is 0 left of -r makes the estimate 0 left of
     lo - r; a kernel distribution function that is 1 from r on makes it 1 from hi + r on *)
  Lemma wavg_zero_left (g : Q -> Q) (r lo hi x : Q) :
    pairs_within lo hi ps -> (forall t, t <= - r -> g t == 0) -> x <= lo - r -> wavg g ps x == 0.
  Proof.
    intros Hin G Hx. apply wavg_const. intros p Hp. apply G.
    unfold pairs_within in Hin. rewrite Forall_forall in Hin. specialize (Hin p Hp). lra.
  Qed.
  Lemma wavg_zero_right (g : Q -> Q) (r lo hi x : Q) :
    pairs_within lo hi ps -> (forall t, r <= t -> g t == 0) -> hi + r <= x -> wavg g ps x == 0.
  Proof.
    intros Hin G Hx. apply wavg_const. intros p Hp. apply G.
    unfold pairs_within in Hin. rewrite Forall_forall in Hin. specialize (Hin p Hp). lra.
  Qed.
  Lemma wavg_one_right (g : Q -> Q) (r lo hi x : Q) :
    pairs_within lo hi ps -> (forall t, r <= t -> g t == 1) -> hi + r <= x -> wavg g ps x == 1.
  Proof.
    intros Hin G Hx. apply wavg_const. intros p Hp. apply G.
    unfold pairs_within in Hin. rewrite Forall_forall in Hin. specialize (Hin p Hp). lra.
  Qed.
End Wavg.

(* ====================================================================== *)
(* 3. series (alg.go) in exact arithmetic                                   *)
(* ====================================================================== *)
(* "a zero term is followed only by zero terms" *)
Definition absorbing (t : nat -> Q) : Prop := forall n, t n == 0 -> t (S n) == 0.

Lemma nat_sum_absorb (t : nat -> Q) : absorbing t ->
  forall n K, (n <= K)%nat -> t n == 0 -> t K == 0 /\ nat_sum t K == nat_sum t n.
Proof.
  intros A n K L Z. induction L as [|K L [IH1 IH2]]; [split; [exact Z|reflexivity]|].
  split; [apply A, IH1|]. cbn [nat_sum]. rewrite IH2, IH1. ring.
Qed.

(* series stops at the first zero term; if zero terms are absorbing and one occurs before the
   fuel runs out, the value is the sum of ALL terms up to any later zero term *)
Lemma series_q_stop (t : nat -> Q) : absorbing t ->
  forall fuel n acc K, (n <= K)%nat -> t K == 0 -> (K < n + fuel)%nat ->
  exists s, series_q t n fuel acc = Some s /\ s + nat_sum t n == acc + nat_sum t K.
Proof.
  intros A fuel. induction fuel as [|fuel IH]; intros n acc K L Z F; [lia|].
  cbn [series_q]. destruct (Qeq_bool (t n) 0) eqn:E.
  - apply Qeq_bool_iff in E. exists acc. split; [reflexivity|].
    destruct (nat_sum_absorb t A n K L E) as [_ S]. rewrite S. reflexivity.
  - apply Qeq_bool_false in E.
    assert (n <> K) by (intro; subst; contradiction).
    destruct (IH (S n) (Qred (acc + t n)) K) as [s [S1 S2]]; [lia|exact Z|lia|].
    exists s. split; [exact S1|]. cbn [nat_sum] in S2. rewrite Qred_correct in S2. lra.
Qed.

Corollary series_q_value (t : nat -> Q) (fuel K : nat) : absorbing t -> t K == 0 -> (K < fuel)%nat ->
  exists s, series_q t 0 fuel 0 = Some s /\ forall K', (K <= K')%nat -> s == nat_sum t K'.
Proof.
  intros A Z F. destruct (series_q_stop t A fuel 0%nat 0 K) as [s [S1 S2]]; [lia|exact Z|lia|].
  exists s. split; [exact S1|]. intros K' L.
  destruct (nat_sum_absorb t A K K' L Z) as [_ E]. rewrite E. cbn [nat_sum] in S2. lra.
Qed.

(* ====================================================================== *)
(* 4. the two one-sided series of kde.go are the symmetric image sum        *)
(* ====================================================================== *)
Lemma sym_sum_ext (s t : Z -> Q) N : (forall n, s n == t n) -> sym_sum s N == sym_sum t N.
Proof. intro E. induction N as [|N IH]; cbn [sym_sum]; [apply E|]. rewrite IH, !E. reflexivity. Qed.

Lemma fold_pdf_ext (f g : Q -> Q) m M N x : (forall z, f z == g z) -> fold_pdf f m M N x == fold_pdf g m M N x.
Proof. intro E. unfold fold_pdf. apply sym_sum_ext. intro n. rewrite !E. reflexivity. Qed.
Lemma fold_cdf_ext (f g : Q -> Q) m M N x : (forall z, f z == g z) -> fold_cdf f m M N x == fold_cdf g m M N x.
Proof. intro E. unfold fold_cdf. apply sym_sum_ext. intro n. rewrite !E. reflexivity. Qed.

Lemma inject_Z_neg_S (N : nat) : inject_Z (- Z.of_nat (S N)) == - (Qofnat N + 1).
Proof. rewrite inject_Z_opp. fold (Qofnat (S N)). rewrite Qofnat_S. reflexivity. Qed.

Section FoldSeries.
  Variable y : Q -> Q.
  Hypothesis y_comp : forall s t, s == t -> y s == y t.
  Variables m M x : Q.

  Lemma pdf_upper_term (n : nat) :
    pdf_upper y m M x n ==
    y (x + inject_Z (Z.of_nat n) * period m M) + y (2 * m - x + inject_Z (Z.of_nat n) * period m M).
  Proof.
    unfold pdf_upper, img_d, img_w, period, Qofnat. apply Qplus_comp; apply y_comp; ring.
  Qed.
  Lemma pdf_lower_term (n : nat) :
    pdf_lower y m M x n ==
    y (x + inject_Z (- Z.of_nat (S n)) * period m M) + y (2 * m - x + inject_Z (- Z.of_nat (S n)) * period m M).
  Proof.
    unfold pdf_lower, img_d, img_w, period. rewrite Qplus_comm.
    apply Qplus_comp; apply y_comp; rewrite inject_Z_neg_S; ring.
  Qed.
  Lemma cdf_upper_term (n : nat) :
    cdf_upper y m M x n ==
    y (x + inject_Z (Z.of_nat n) * period m M) - y (2 * m - x + inject_Z (Z.of_nat n) * period m M).
  Proof.
    unfold cdf_upper, img_d, img_w, period, Qofnat, Qminus.
    apply Qplus_comp; [|apply Qopp_comp]; apply y_comp; ring.
  Qed.
  Lemma cdf_lower_term (n : nat) :
    cdf_lower y m M x n ==
    y (x + inject_Z (- Z.of_nat (S n)) * period m M) - y (2 * m - x + inject_Z (- Z.of_nat (S n)) * period m M).
  Proof.
    unfold cdf_lower, img_d, img_w, period, Qminus.
    apply Qplus_comp; [|apply Qopp_comp]; apply y_comp; rewrite inject_Z_neg_S; ring.
  Qed.

  (* partial sums of the two series of KDE.PDF = the symmetric truncation of the image sum *)
  Lemma fold_pdf_series (N : nat) :
    nat_sum (pdf_upper y m M x) (S N) + nat_sum (pdf_lower y m M x) N == fold_pdf y m M N x.
  Proof.
    unfold fold_pdf. induction N as [|N IH].
    - cbn [nat_sum sym_sum]. rewrite pdf_upper_term. cbn [Z.of_nat]. ring.
    - cbn [nat_sum sym_sum] in *. rewrite <- IH, (pdf_upper_term (S N)), (pdf_lower_term N). ring.
  Qed.
  Lemma fold_cdf_series (N : nat) :
    nat_sum (cdf_upper y m M x) (S N) + nat_sum (cdf_lower y m M x) N == fold_cdf y m M N x.
  Proof.
    unfold fold_cdf. induction N as [|N IH].
    - cbn [nat_sum sym_sum]. rewrite cdf_upper_term. cbn [Z.of_nat]. ring.
    - cbn [nat_sum sym_sum] in *. rewrite <- IH, (cdf_upper_term (S N)), (cdf_lower_term N). ring.
  Qed.
End FoldSeries.

(* the image sum of the distribution function: 0 at the lower boundary ... *)
Theorem fold_cdf_at_min (F : Q -> Q) (m M : Q) (N : nat) :
  (forall s t, s == t -> F s == F t) -> fold_cdf F m M N m == 0.
Proof.
  intro C. unfold fold_cdf. induction N as [|N IH]; cbn [sym_sum].
  - rewrite (C (2 * m - m + inject_Z 0 * period m M) (m + inject_Z 0 * period m M)) by ring. ring.
  - rewrite IH.
    rewrite (C (2 * m - m + inject_Z (Z.of_nat (S N)) * period m M) (m + inject_Z (Z.of_nat (S N)) * period m M)) by ring.
    rewrite (C (2 * m - m + inject_Z (- Z.of_nat (S N)) * period m M) (m + inject_Z (- Z.of_nat (S N)) * period m M)) by ring.
    ring.
Qed.

(* ... and at the upper boundary it telescopes:
   Σ_{|n|<=N} F(M + n d) - F(M + (n-1) d) = F(M + N d) - F(M - (N+1) d) *)
Theorem fold_cdf_at_max_telescopes (F : Q -> Q) (m M : Q) (N : nat) :
  (forall s t, s == t -> F s == F t) ->
  fold_cdf F m M N M == F (M + Qofnat N * period m M) - F (M - (Qofnat N + 1) * period m M).
Proof.
  intro C. unfold fold_cdf. induction N as [|N IH]; cbn [sym_sum].
  - apply Qplus_comp; [|apply Qopp_comp]; apply C; unfold period, Qofnat; cbn [Z.of_nat]; ring.
  - rewrite IH.
    rewrite (C (M + inject_Z (Z.of_nat (S N)) * period m M) (M + Qofnat (S N) * period m M)) by reflexivity.
    rewrite (C (2 * m - M + inject_Z (Z.of_nat (S N)) * period m M) (M + Qofnat N * period m M))
      by (fold (Qofnat (S N)); rewrite Qofnat_S; unfold period; ring).
    rewrite (C (M + inject_Z (- Z.of_nat (S N)) * period m M) (M - (Qofnat N + 1) * period m M))
      by (rewrite inject_Z_neg_S; ring).
    rewrite (C (2 * m - M + inject_Z (- Z.of_nat (S N)) * period m M) (M - (Qofnat (S N) + 1) * period m M))
      by (rewrite inject_Z_neg_S, Qofnat_S; unfold period; ring).
    ring.
Qed.

(* hence the folded distribution function is exactly 1 at BoundaryMax once the images have
   left the support of F (F = 0 left of m - r, F = 1 right of M + r, r <= N d) *)
Theorem fold_cdf_at_max (F : Q -> Q) (m M r : Q) (N : nat) :
  (forall s t, s == t -> F s == F t) ->
  (forall z, z <= m - r -> F z == 0) -> (forall z, M + r <= z -> F z == 1) ->
  m <= M -> r <= Qofnat N * period m M -> fold_cdf F m M N M == 1.
Proof.
  intros C F0 F1 L R. rewrite fold_cdf_at_max_telescopes by exact C.
  unfold period in *. rewrite F1 by lra. rewrite F0; [ring|].
  assert (0 <= Qofnat N) by apply Qofnat_nonneg. nra.
Qed.

(* ====================================================================== *)
(* 5. compact kernel, data inside [m, M]: `series` loses nothing            *)
(* ====================================================================== *)
Lemma sum2_zero (a b : Q) : 0 <= a -> 0 <= b -> (a + b == 0 <-> a == 0 /\ b == 0).
Proof. intros A B. split; [intro E; split; lra | intros [E1 E2]; lra]. Qed.

Section Images.
  Variable ps : list (Q * Q).
  Variables h m M x : Q.
  Hypothesis h_pos : 0 < h.
  Hypothesis ps_in : pairs_within m M ps.
  Hypothesis x_in : m <= x /\ x <= M.

  Let inps : forall p, In p ps -> m <= fst p /\ fst p <= M.
  Proof. unfold pairs_within in ps_in. rewrite Forall_forall in ps_in. exact ps_in. Qed.

  (* ---------- density ---------- *)
  Variable y : Q -> Q.
  Hypothesis y_nonneg : forall z, 0 <= y z.
  Hypothesis y_comp : forall s t, s == t -> y s == y t.
  (* y vanishes exactly where no kernel (radius h around a data point) reaches *)
  Hypothesis y_zero : forall z, y z == 0 <-> forall p, In p ps -> z - fst p <= - h \/ h <= z - fst p.

  Lemma pdf_upper_absorbing : absorbing (pdf_upper y m M x).
  Proof.
    intros n. unfold pdf_upper. rewrite !sum2_zero by apply y_nonneg. rewrite !y_zero.
    intros [Ha Hb].
    assert (Ec : Qofnat (S n) * img_d m M == Qofnat n * img_d m M + img_d m M) by (rewrite Qofnat_S; ring).
    assert (Hc : 0 <= Qofnat n * img_d m M).
    { apply Qmult_le_0_compat; [apply Qofnat_nonneg | unfold img_d; lra]. }
    set (c := Qofnat n * img_d m M) in *. set (c' := Qofnat (S n) * img_d m M) in *.
    clearbody c c'. unfold img_d, img_w in *.
    split; intros p Hp; specialize (Ha p Hp); specialize (Hb p Hp); pose proof (inps p Hp);
      right; lra.
  Qed.

  Lemma pdf_lower_absorbing : absorbing (pdf_lower y m M x).
  Proof.
    intros n. unfold pdf_lower. rewrite !sum2_zero by apply y_nonneg. rewrite !y_zero.
    intros [Ha Hb].
    assert (Ec : (Qofnat (S n) + 1) * img_d m M == (Qofnat n + 1) * img_d m M + img_d m M) by (rewrite Qofnat_S; ring).
    assert (Hc : 0 <= (Qofnat n + 1) * img_d m M).
    { apply Qmult_le_0_compat; [pose proof (Qofnat_nonneg n); lra | unfold img_d; lra]. }
    set (c := (Qofnat n + 1) * img_d m M) in *. set (c' := (Qofnat (S n) + 1) * img_d m M) in *.
    clearbody c c'. unfold img_d, img_w in *.
    split; intros p Hp; specialize (Ha p Hp); specialize (Hb p Hp); pose proof (inps p Hp);
      left; lra.
  Qed.

  (* an index from which on every image is out of reach of every kernel *)
  Variable K0 : nat.
  Hypothesis K0_big : h + img_d m M <= Qofnat K0 * img_d m M.

  Lemma pdf_upper_K0 : pdf_upper y m M x K0 == 0.
  Proof.
    unfold pdf_upper. apply sum2_zero; try apply y_nonneg. rewrite !y_zero.
    set (c := Qofnat K0 * img_d m M) in *. clearbody c. unfold img_d, img_w in *.
    split; intros p Hp; pose proof (inps p Hp); right; lra.
  Qed.
  Lemma pdf_lower_K0 : pdf_lower y m M x K0 == 0.
  Proof.
    unfold pdf_lower. apply sum2_zero; try apply y_nonneg. rewrite !y_zero.
    assert (Ec : (Qofnat K0 + 1) * img_d m M == Qofnat K0 * img_d m M + img_d m M) by ring.
    set (c := Qofnat K0 * img_d m M) in *. set (c' := (Qofnat K0 + 1) * img_d m M) in *.
    clearbody c c'. unfold img_d, img_w in *.
    split; intros p Hp; pose proof (inps p Hp); left; lra.
  Qed.

  (* KDE.PDF on a doubly bounded support IS the unbounded density folded back at both
     boundaries: the two truncated series add up to the symmetric image sum of EVERY order
     N >= K0 (beyond K0 all images are zero: the sum is the full two-sided infinite sum) *)
  Theorem two_series_pdf_is_fold (fuel : nat) : (K0 < fuel)%nat ->
    exists v, two_series fuel (pdf_upper y m M x) (pdf_lower y m M x) = Some v /\
              forall N, (K0 <= N)%nat -> v == fold_pdf y m M N x.
  Proof.
    intro F.
    destruct (series_q_value _ fuel K0 pdf_upper_absorbing pdf_upper_K0 F) as [a [A1 A2]].
    destruct (series_q_value _ fuel K0 pdf_lower_absorbing pdf_lower_K0 F) as [b [B1 B2]].
    exists (Qred (a + b)). unfold two_series. rewrite A1, B1. split; [reflexivity|].
    intros N L. rewrite Qred_correct, (A2 (S N)), (B2 N) by lia.
    apply fold_pdf_series. exact y_comp.
  Qed.

  (* ---------- distribution function ---------- *)
  Variable Y : Q -> Q.
  Hypothesis Y_comp : forall s t, s == t -> Y s == Y t.
  (* no mass between b and a exactly when no kernel meets the interval *)
  Hypothesis Y_flat : forall a b, b <= a ->
    (Y a - Y b == 0 <-> forall p, In p ps -> a == b \/ a - fst p <= - h \/ h <= b - fst p).

  Lemma cdf_upper_absorbing : absorbing (cdf_upper Y m M x).
  Proof.
    intros n. unfold cdf_upper.
    assert (Ec : Qofnat (S n) * img_d m M == Qofnat n * img_d m M + img_d m M) by (rewrite Qofnat_S; ring).
    assert (Hc : 0 <= Qofnat n * img_d m M).
    { apply Qmult_le_0_compat; [apply Qofnat_nonneg | unfold img_d; lra]. }
    set (c := Qofnat n * img_d m M) in *. set (c' := Qofnat (S n) * img_d m M) in *.
    clearbody c c'. rewrite !Y_flat by (unfold img_w; lra).
    intros Ha p Hp. specialize (Ha p Hp). pose proof (inps p Hp). unfold img_d, img_w in *.
    destruct Ha as [Ha|[Ha|Ha]]; [left; lra | right; right; lra | right; right; lra].
  Qed.

  Lemma cdf_lower_absorbing : absorbing (cdf_lower Y m M x).
  Proof.
    intros n. unfold cdf_lower.
    assert (Ec : (Qofnat (S n) + 1) * img_d m M == (Qofnat n + 1) * img_d m M + img_d m M) by (rewrite Qofnat_S; ring).
    assert (Hc : 0 <= (Qofnat n + 1) * img_d m M).
    { apply Qmult_le_0_compat; [pose proof (Qofnat_nonneg n); lra | unfold img_d; lra]. }
    set (c := (Qofnat n + 1) * img_d m M) in *. set (c' := (Qofnat (S n) + 1) * img_d m M) in *.
    clearbody c c'. rewrite !Y_flat by (unfold img_w; lra).
    intros Ha p Hp. specialize (Ha p Hp). pose proof (inps p Hp). unfold img_d, img_w in *.
    destruct Ha as [Ha|[Ha|Ha]]; [left; lra | right; left; lra | exfalso; lra].
  Qed.

  Lemma cdf_upper_K0 : cdf_upper Y m M x K0 == 0.
  Proof.
    unfold cdf_upper. set (c := Qofnat K0 * img_d m M) in *. clearbody c.
    apply Y_flat; [unfold img_w; lra|]. intros p Hp. pose proof (inps p Hp).
    unfold img_d, img_w in *. right; right; lra.
  Qed.
  Lemma cdf_lower_K0 : cdf_lower Y m M x K0 == 0.
  Proof.
    unfold cdf_lower.
    assert (Ec : (Qofnat K0 + 1) * img_d m M == Qofnat K0 * img_d m M + img_d m M) by ring.
    set (c := Qofnat K0 * img_d m M) in *. set (c' := (Qofnat K0 + 1) * img_d m M) in *.
    clearbody c c'.
    apply Y_flat; [unfold img_w; lra|]. intros p Hp. pose proof (inps p Hp).
    unfold img_d, img_w in *. right; left; lra.
  Qed.

  Theorem two_series_cdf_is_fold (fuel : nat) : (K0 < fuel)%nat ->
    exists v, two_series fuel (cdf_upper Y m M x) (cdf_lower Y m M x) = Some v /\
              forall N, (K0 <= N)%nat -> v == fold_cdf Y m M N x.
  Proof.
    intro F.
    destruct (series_q_value _ fuel K0 cdf_upper_absorbing cdf_upper_K0 F) as [a [A1 A2]].
    destruct (series_q_value _ fuel K0 cdf_lower_absorbing cdf_lower_K0 F) as [b [B1 B2]].
    exists (Qred (a + b)). unfold two_series. rewrite A1, B1. split; [reflexivity|].
    intros N L. rewrite Qred_correct, (A2 (S N)), (B2 N) by lia.
    apply fold_cdf_series. exact Y_comp.
  Qed.
End Images.

(* THE FUEL ARGUMENT: the number of images the model allots is enough *)
Lemma img_fuel_enough (r m M : Q) : 0 <= r -> m < M ->
  let K0 := (img_fuel r m M - 3)%nat in
  (K0 < img_fuel r m M)%nat /\ r + img_d m M <= Qofnat K0 * img_d m M.
Proof.
  intros Hr Hm. unfold img_fuel.
  assert (B : Qle_bool M m = false) by (apply Qle_bool_false; exact Hm). rewrite B.
  assert (Hd : 0 < img_d m M) by (unfold img_d; lra).
  set (c := Qceiling (r / img_d m M)).
  assert (Hc : r / img_d m M <= inject_Z c) by apply Qle_ceiling.
  assert (H0 : 0 <= r / img_d m M) by (apply Qle_shift_div_l; lra).
  assert (Hz : (0 <= c)%Z) by (rewrite Zle_Qle; change (inject_Z 0) with 0; lra).
  cbv zeta. split; [lia|].
  replace (Z.to_nat c + 4 - 3)%nat with (S (Z.to_nat c)) by lia.
  rewrite Qofnat_S. unfold Qofnat. rewrite Z2Nat.id by exact Hz.
  assert (r <= inject_Z c * img_d m M); [|lra].
  apply Qle_shift_div_r in Hc; [exact Hc | exact Hd] || idtac.
  setoid_replace r with (r / img_d m M * img_d m M) by (field; lra).
  apply Qmult_le_compat_r; lra.
Qed.

(* ====================================================================== *)
(* 6. the Epanechnikov estimate: weighted average of kernels                *)
(* ====================================================================== *)
Lemma Qsum_minus {A} (s t : A -> Q) (l : list A) :
  Qsum (map s l) - Qsum (map t l) == Qsum (map (fun p => s p - t p) l).
Proof. induction l as [|p l IH]; cbn [map Qsum]; [ring|]. rewrite <- IH. ring. Qed.

Lemma wavg_diff_zero_iff ps (g : Q -> Q) a b : pairs_ok ps ->
  (forall s t, s <= t -> g s <= g t) -> b <= a ->
  (wavg g ps a - wavg g ps b == 0 <-> forall p, In p ps -> g (a - fst p) == g (b - fst p)).
Proof.
  intros ok G L. pose proof (wtotal_pos ps ok) as W.
  assert (pos : forall p, In p ps -> 0 < snd p).
  { destruct ok as [_ F]. rewrite Forall_forall in F. exact F. }
  assert (E : wavg g ps a - wavg g ps b ==
              Qsum (map (fun p => snd p * (g (a - fst p) - g (b - fst p))) ps) / wtotal ps).
  { unfold wavg.
    setoid_replace (Qsum (map (fun p => snd p * (g (a - fst p) - g (b - fst p))) ps))
      with (Qsum (map (fun p => snd p * g (a - fst p)) ps) - Qsum (map (fun p => snd p * g (b - fst p)) ps)).
    - field. lra.
    - rewrite Qsum_minus. apply Qsum_ext. intros p _. ring. }
  assert (NN : forall p, In p ps -> 0 <= snd p * (g (a - fst p) - g (b - fst p))).
  { intros p Hp. pose proof (pos p Hp). pose proof (G (b - fst p) (a - fst p)). nra. }
  rewrite E. split.
  - intros Z p Hp.
    assert (S0 : Qsum (map (fun p => snd p * (g (a - fst p) - g (b - fst p))) ps) == 0).
    { setoid_replace (Qsum (map (fun p => snd p * (g (a - fst p) - g (b - fst p))) ps))
        with (Qsum (map (fun p => snd p * (g (a - fst p) - g (b - fst p))) ps) / wtotal ps * wtotal ps)
        by (field; lra).
      rewrite Z. ring. }
    pose proof (Qsum_zero_inv _ ps NN S0 p Hp) as T. pose proof (pos p Hp).
    apply Qmult_integral in T. destruct T; lra.
  - intro Z.
    assert (S0 : Qsum (map (fun p => snd p * (g (a - fst p) - g (b - fst p))) ps) == 0).
    { rewrite (Qsum_ext _ (fun _ => 0)).
      - clear. induction ps as [|p l IH]; cbn [map Qsum]; [reflexivity | rewrite IH; ring].
      - intros p Hp. rewrite (Z p Hp). ring. }
    rewrite S0. field. lra.
Qed.

(* strict monotonicity of the Epanechnikov distribution function on its support *)
Lemma epan_poly_strict (u v : Q) : -1 <= u -> u < v -> v <= 1 ->
  (1 # 4) * (2 + 3 * u - u * u * u) < (1 # 4) * (2 + 3 * v - v * v * v).
Proof.
  intros A B C.
  assert (E : (1 # 4) * (2 + 3 * v - v * v * v) - (1 # 4) * (2 + 3 * u - u * u * u)
              == (1 # 4) * ((v - u) * ((3 # 2) * ((1 - u * u) + (1 - v * v)) + (1 # 2) * ((u - v) * (u - v))))) by ring.
  assert (0 < (v - u) * ((3 # 2) * ((1 - u * u) + (1 - v * v)) + (1 # 2) * ((u - v) * (u - v)))); [| lra].
  apply Qmult_lt_0_compat; [lra|].
  assert (0 <= 1 - u * u) by nra. assert (0 <= 1 - v * v) by nra.
  assert (0 < (u - v) * (u - v)) by nra. lra.
Qed.

Lemma epan_cdf_strict (h a b : Q) : 0 < h -> - h <= a -> a < b -> b <= h -> epan_cdf h a < epan_cdf h b.
Proof.
  intros Hh A B C.
  assert (P : forall x, - h <= x -> x <= h ->
     epan_cdf h x == (1 # 4) * (2 + 3 * (x / h) - (x / h) * (x / h) * (x / h)) /\ -1 <= x / h /\ x / h <= 1).
  { intros x X1 X2. split; [|split].
    - destruct (Qlt_le_dec (- h) x) as [L|L]; [apply epan_cdf_mid; assumption|].
      assert (E : x == - h) by lra. rewrite (epan_cdf_comp h x (- h) E), epan_cdf_left by lra.
      rewrite E. field. lra.
    - apply Qle_shift_div_l; lra.
    - apply Qle_shift_div_r; lra. }
  destruct (P a) as (Ea & A1 & A2); try lra. destruct (P b) as (Eb & B1 & B2); try lra.
  rewrite Ea, Eb. apply epan_poly_strict; try lra.
  apply Qlt_shift_div_l; [lra|]. setoid_replace (a / h * h) with a by (field; lra). exact B.
Qed.

Lemma epan_cdf_flat (h s t : Q) : 0 < h -> s <= t ->
  (epan_cdf h t == epan_cdf h s <-> t == s \/ t <= - h \/ h <= s).
Proof.
  intros Hh L. split.
  - intro E.
    destruct (Qlt_le_dec (- h) t) as [T|T]; [|right; left; exact T].
    destruct (Qlt_le_dec s h) as [S|S]; [|right; right; exact S].
    destruct (Qeq_dec t s) as [Q|NQ]; [left; exact Q|]. exfalso.
    assert (Lt : s < t) by (destruct (Qlt_le_dec s t); auto; exfalso; apply NQ; lra).
    set (s' := if Qlt_le_dec s (- h) then - h else s).
    set (t' := if Qlt_le_dec h t then h else t).
    assert (S1 : s <= s' /\ - h <= s' /\ s' < h) by (unfold s'; destruct (Qlt_le_dec s (- h)); lra).
    assert (T1 : t' <= t /\ t' <= h /\ - h < t') by (unfold t'; destruct (Qlt_le_dec h t); lra).
    assert (ST : s' < t') by (unfold s', t'; destruct (Qlt_le_dec s (- h)), (Qlt_le_dec h t); lra).
    pose proof (epan_cdf_mono h s s' Hh (proj1 S1)).
    pose proof (epan_cdf_mono h t' t Hh (proj1 T1)).
    pose proof (epan_cdf_strict h s' t' Hh). lra.
  - intros [E|[E|E]].
    + apply epan_cdf_comp; exact E.
    + rewrite (epan_cdf_left h t), (epan_cdf_left h s) by lra. reflexivity.
    + rewrite (epan_cdf_right h t), (epan_cdf_right h s) by lra. reflexivity.
Qed.

Definition kde_ok (k : kde) : Prop :=
  k_xs k <> [] /\ ws_wf (k_xs k) (k_ws k) /\ ws_pos (k_ws k) /\ 0 < k_h k.
(* the (value, weight) pairs of the sample *)
Definition kde_ps (k : kde) : list (Q * Q) := kpairs (k_xs k) (k_ws k).
(* the unbounded Epanechnikov estimate of Spec/Kde.v: density and distribution function *)
Definition kde_f (k : kde) : Q -> Q := wavg (epan_pdf (k_h k)) (kde_ps k).
Definition kde_F (k : kde) : Q -> Q := wavg (epan_cdf (k_h k)) (kde_ps k).

Lemma kde_ps_ok k : kde_ok k -> pairs_ok (kde_ps k).
Proof. intros (A & B & C & _). apply kpairs_ok; assumption. Qed.

Lemma kde_pdf_epan k x : kde_ok k -> k_kernel k = KEpan ->
  kde_pdf k x = option_map XFin (reflect_pdf (mix (epan_pdf (k_h k)) (k_xs k) (k_ws k)) (k_fuel k) (k_b k) x).
Proof.
  intros (A & _ & _ & H) E. unfold kde_pdf. rewrite E.
  destruct (k_xs k) as [|x0 xs] eqn:X; [congruence|].
  assert (B : Qle_bool (k_h k) 0 = false) by (apply Qle_bool_false; exact H). rewrite B. reflexivity.
Qed.
Lemma kde_cdf_epan k x : kde_ok k -> k_kernel k = KEpan ->
  kde_cdf k x = option_map XFin (reflect_cdf (mix (epan_cdf (k_h k)) (k_xs k) (k_ws k)) (k_fuel k) (k_b k) x).
Proof.
  intros (A & _ & _ & H) E. unfold kde_cdf. rewrite E.
  destruct (k_xs k) as [|x0 xs] eqn:X; [congruence|].
  assert (B : Qle_bool (k_h k) 0 = false) by (apply Qle_bool_false; exact H). rewrite B. reflexivity.
Qed.

Section EpanEstimate.
  Variable k : kde.
  Hypothesis ok : kde_ok k.

  Let h := k_h k.
  Let h_pos : 0 < h. Proof. apply ok. Qed.
  Let wf : ws_wf (k_xs k) (k_ws k). Proof. apply ok. Qed.
  Let pok : pairs_ok (kde_ps k) := kde_ps_ok k ok.

  Lemma y_is_f z : mix (epan_pdf (k_h k)) (k_xs k) (k_ws k) z == kde_f k z.
  Proof. apply mix_is_wavg, wf. Qed.
  Lemma Y_is_F z : mix (epan_cdf (k_h k)) (k_xs k) (k_ws k) z == kde_F k z.
  Proof. apply mix_is_wavg, wf. Qed.

  Lemma kde_f_nonneg z : 0 <= kde_f k z.
  Proof. apply wavg_nonneg; [exact pok | intro t; apply epan_pdf_nonneg, h_pos]. Qed.
  Lemma kde_f_comp s t : s == t -> kde_f k s == kde_f k t.
  Proof. apply wavg_comp. intros a b. apply epan_pdf_comp. Qed.
  Lemma kde_F_comp s t : s == t -> kde_F k s == kde_F k t.
  Proof. apply wavg_comp. intros a b. apply epan_cdf_comp. Qed.
  Lemma kde_F_mono a b : a <= b -> kde_F k a <= kde_F k b.
  Proof. apply wavg_mono; [exact pok | intros s t; apply epan_cdf_mono, h_pos]. Qed.
  Lemma kde_F_range z : 0 <= kde_F k z /\ kde_F k z <= 1.
  Proof.
    split.
    - apply wavg_nonneg; [exact pok | intro t; apply epan_cdf_range, h_pos].
    - rewrite <- (wavg_const (kde_ps k) pok (fun _ => 1) z 1) by (intros; reflexivity).
      apply wavg_le; [exact pok|]. intros p _. apply epan_cdf_range, h_pos.
  Qed.
  (* the density vanishes exactly where no kernel reaches *)
  Lemma kde_f_zero z :
    kde_f k z == 0 <-> forall p, In p (kde_ps k) -> z - fst p <= - h \/ h <= z - fst p.
  Proof.
    unfold kde_f. rewrite (wavg_zero_iff _ pok) by (intro t; apply epan_pdf_nonneg, h_pos).
    split; intros H p Hp; apply (epan_pdf_zero_iff h _ h_pos), H, Hp.
  Qed.
  Lemma kde_F_flat a b : b <= a ->
    (kde_F k a - kde_F k b == 0 <->
     forall p, In p (kde_ps k) -> a == b \/ a - fst p <= - h \/ h <= b - fst p).
  Proof.
    intro L. unfold kde_F.
    rewrite (wavg_diff_zero_iff _ _ a b pok) by (auto; intros s t; apply epan_cdf_mono, h_pos).
    split; intros H p Hp; specialize (H p Hp).
    - apply (epan_cdf_flat h (b - fst p) (a - fst p) h_pos) in H; [|lra].
      destruct H as [H|[H|H]]; [left; lra | right; left; exact H | right; right; exact H].
    - apply (epan_cdf_flat h (b - fst p) (a - fst p) h_pos); [lra|].
      destruct H as [H|[H|H]]; [left; lra | right; left; exact H | right; right; exact H].
  Qed.
  (* compact support: exactly 0 left of (min - h), exactly 1 right of (max + h) *)
  Lemma kde_F_left lo hi z : pairs_within lo hi (kde_ps k) -> z <= lo - h -> kde_F k z == 0.
  Proof.
    intros Hin Hz. apply (wavg_zero_left _ pok _ h lo hi); auto.
    intros t Ht. rewrite epan_cdf_left by (fold h; lra). reflexivity.
  Qed.
  Lemma kde_F_right lo hi z : pairs_within lo hi (kde_ps k) -> hi + h <= z -> kde_F k z == 1.
  Proof.
    intros Hin Hz. apply (wavg_one_right _ pok _ h lo hi); auto.
    intros t Ht. apply epan_cdf_right; [exact h_pos | exact Ht].
  Qed.
  Lemma kde_f_outside lo hi z : pairs_within lo hi (kde_ps k) -> z <= lo - h \/ hi + h <= z -> kde_f k z == 0.
  Proof.
    intros Hin [Hz|Hz].
    - apply (wavg_zero_left _ pok _ h lo hi); auto.
      intros t Ht. rewrite epan_pdf_outside by (left; exact Ht). reflexivity.
    - apply (wavg_zero_right _ pok _ h lo hi); auto.
      intros t Ht. rewrite epan_pdf_outside by (right; exact Ht). reflexivity.
  Qed.
End EpanEstimate.

(* ====================================================================== *)
(* 7. KDE.PDF / KDE.CDF with the Epanechnikov kernel, per boundary setting  *)
(* ====================================================================== *)
Section EpanKDE.
  Variable k : kde.
  Hypothesis ok : kde_ok k.
  Hypothesis kern : k_kernel k = KEpan.

  (* no boundary: the weighted average of the kernel centred at each sample value *)
  Theorem kde_unbounded_is_average x : k_b k = BNone ->
    exists p c, kde_pdf k x = Some (XFin p) /\ kde_cdf k x = Some (XFin c) /\
                p == kde_f k x /\ c == kde_F k x.
  Proof.
    intro B. rewrite kde_pdf_epan, kde_cdf_epan by assumption. rewrite B.
    cbn [reflect_pdf reflect_cdf option_map].
    eexists; eexists; repeat split; [apply y_is_f | apply Y_is_F]; exact ok.
  Qed.

  (* support [m, +inf): nothing below m; inside, the estimate folded back at m *)
  Theorem kde_lower_reflects m x : k_b k = BLower m ->
    (x < m -> kde_pdf k x = Some (XFin 0) /\ kde_cdf k x = Some (XFin 0)) /\
    (m <= x -> exists p c, kde_pdf k x = Some (XFin p) /\ kde_cdf k x = Some (XFin c) /\
               p == kde_f k x + kde_f k (2 * m - x) /\ c == kde_F k x - kde_F k (2 * m - x)).
  Proof.
    intro B. rewrite kde_pdf_epan, kde_cdf_epan by assumption. rewrite B.
    cbn [reflect_pdf reflect_cdf option_map]. split; intro H.
    - apply Qltb_true in H. rewrite H. split; reflexivity.
    - apply Qltb_false in H. rewrite H. cbn [option_map].
      eexists; eexists; repeat split; rewrite ?y_is_f, ?Y_is_F by exact ok; reflexivity.
  Qed.
  Theorem kde_lower_cdf_at_min m : k_b k = BLower m ->
    exists c, kde_cdf k m = Some (XFin c) /\ c == 0.
  Proof.
    intro B. destruct (kde_lower_reflects m m B) as [_ H].
    destruct (H (Qle_refl m)) as (p & c & _ & C & _ & E). exists c. split; [exact C|].
    rewrite E, (kde_F_comp k (2 * m - m) m) by ring. ring.
  Qed.

  (* support (-inf, M): density 0 and distribution function 1 from M on *)
  Theorem kde_upper_reflects M x : k_b k = BUpper M ->
    (M <= x -> kde_pdf k x = Some (XFin 0) /\ kde_cdf k x = Some (XFin 1)) /\
    (x < M -> exists p c, kde_pdf k x = Some (XFin p) /\ kde_cdf k x = Some (XFin c) /\
               p == kde_f k x + kde_f k (2 * M - x) /\ c == kde_F k x + (1 - kde_F k (2 * M - x))).
  Proof.
    intro B. rewrite kde_pdf_epan, kde_cdf_epan by assumption. rewrite B.
    cbn [reflect_pdf reflect_cdf option_map]. split; intro H.
    - apply Qle_bool_iff in H. rewrite H. split; reflexivity.
    - apply Qle_bool_false in H. rewrite H. cbn [option_map].
      eexists; eexists; repeat split; rewrite ?y_is_f, ?Y_is_F by exact ok; reflexivity.
  Qed.
  (* the value 1 returned from M on continues the inside formula: F(M) + 1 - F(2M - M) = 1 *)
  Theorem kde_upper_cdf_at_max M : kde_F k M + (1 - kde_F k (2 * M - M)) == 1.
  Proof. rewrite (kde_F_comp k (2 * M - M) M) by ring. ring. Qed.

  (* support [m, M) with the data inside: the estimate folded back at BOTH boundaries.
     The value the model computes with its finite fuel is the symmetric image sum of EVERY
     order N >= k_fuel, i.e. the full two-sided infinite image sum. *)
  Theorem kde_both_is_fold m M x : k_b k = BBoth m M -> pairs_within m M (kde_ps k) ->
    (x < m -> kde_pdf k x = Some (XFin 0) /\ kde_cdf k x = Some (XFin 0)) /\
    (M <= x -> kde_pdf k x = Some (XFin 0) /\ kde_cdf k x = Some (XFin 1)) /\
    (m <= x -> x < M -> exists p c, kde_pdf k x = Some (XFin p) /\ kde_cdf k x = Some (XFin c) /\
       forall N, (k_fuel k <= N)%nat ->
         p == fold_pdf (kde_f k) m M N x /\ c == fold_cdf (kde_F k) m M N x).
  Proof.
    intros B Hin. rewrite kde_pdf_epan, kde_cdf_epan by assumption. rewrite B.
    assert (mM : m <= M).
    { pose proof (kde_ps_ok k ok) as [Hne _]. destruct (kde_ps k) as [|p0 l]; [congruence|].
      inversion Hin; subst. lra. }
    cbn [reflect_pdf reflect_cdf]. split; [|split].
    - intro H. apply Qltb_true in H. rewrite H. split; reflexivity.
    - intro H. assert (H' : Qltb x m = false) by (apply Qltb_false; lra).
      apply Qle_bool_iff in H. rewrite H, H', orb_true_r. split; reflexivity.
    - intros H1 H2. assert (H1' : Qltb x m = false) by (apply Qltb_false; lra).
      assert (H2' : Qle_bool M x = false) by (apply Qle_bool_false; lra).
      rewrite H1', H2'. cbn [orb].
      assert (Fu : k_fuel k = img_fuel (k_h k) m M) by (unfold k_fuel; rewrite B, kern; reflexivity).
      assert (hp : 0 < k_h k) by apply ok.
      destruct (img_fuel_enough (k_h k) m M) as [K1 K2]; [lra | lra |].
      set (K0 := (img_fuel (k_h k) m M - 3)%nat) in *.
      destruct (two_series_pdf_is_fold (kde_ps k) (k_h k) m M x hp Hin (conj H1 (Qlt_le_weak _ _ H2))
                  (mix (epan_pdf (k_h k)) (k_xs k) (k_ws k))) with (K0 := K0) (fuel := k_fuel k)
        as [p [P1 P2]].
      { intro z. rewrite y_is_f by exact ok. apply kde_f_nonneg, ok. }
      { intros s t E. rewrite !y_is_f by exact ok. apply kde_f_comp, E. }
      { intro z. rewrite y_is_f by exact ok. apply kde_f_zero, ok. }
      { exact K2. }
      { rewrite Fu. exact K1. }
      destruct (two_series_cdf_is_fold (kde_ps k) (k_h k) m M x hp Hin (conj H1 (Qlt_le_weak _ _ H2))
                  K0 K2 (mix (epan_cdf (k_h k)) (k_xs k) (k_ws k))) with (fuel := k_fuel k)
        as [c [C1 C2]].
      { intros s t E. rewrite !Y_is_F by exact ok. apply kde_F_comp, E. }
      { intros a b L. rewrite !Y_is_F by exact ok. apply kde_F_flat; [exact ok | exact L]. }
      { rewrite Fu. exact K1. }
      exists p, c. rewrite P1, C1. repeat split.
      + rewrite (P2 N) by lia. apply fold_pdf_ext. intro z. apply y_is_f, ok.
      + rewrite (C2 N) by lia. apply fold_cdf_ext. intro z. apply Y_is_F, ok.
  Qed.

  (* at BoundaryMin the folded distribution function is 0, at BoundaryMax it has reached 1:
     the guard values continue the inside formula *)
  Theorem kde_both_cdf_ends m M N : k_b k = BBoth m M -> pairs_within m M (kde_ps k) -> m < M ->
    (k_fuel k <= N)%nat ->
    fold_cdf (kde_F k) m M N m == 0 /\ fold_cdf (kde_F k) m M N M == 1.
  Proof.
    intros B Hin mM L. split.
    - apply fold_cdf_at_min. apply kde_F_comp.
    - apply (fold_cdf_at_max _ m M (k_h k)).
      + apply kde_F_comp.
      + intros z Hz. apply (kde_F_left k ok m M); assumption.
      + intros z Hz. apply (kde_F_right k ok m M); assumption.
      + lra.
      + assert (hp : 0 < k_h k) by apply ok.
        destruct (img_fuel_enough (k_h k) m M) as [K1 K2]; [lra | lra |].
        assert (Fu : k_fuel k = img_fuel (k_h k) m M) by (unfold k_fuel; rewrite B, kern; reflexivity).
        set (K0 := (img_fuel (k_h k) m M - 3)%nat) in *.
        assert (Qofnat K0 <= Qofnat N).
        { unfold Qofnat. rewrite <- Zle_Qle. lia. }
        unfold img_d, period in *. nra.
  Qed.
End EpanKDE.

(* ====================================================================== *)
(* 8. one formula for all boundary settings, and the laws of a distribution *)
(* ====================================================================== *)
(* the estimate the property describes, for an unbounded pair (f, F) and image order N *)
Definition pdf_spec (f : Q -> Q) (b : bconf) (N : nat) (x : Q) : Q :=
  match b with
  | BLower m => if Qltb x m then 0 else f x + f (2 * m - x)
  | BUpper M => if Qle_bool M x then 0 else f x + f (2 * M - x)
  | BBoth m M => if Qltb x m || Qle_bool M x then 0 else fold_pdf f m M N x
  | _ => f x
  end.
Definition cdf_spec (F : Q -> Q) (b : bconf) (N : nat) (x : Q) : Q :=
  match b with
  | BLower m => if Qltb x m then 0 else F x - F (2 * m - x)
  | BUpper M => if Qle_bool M x then 1 else F x + (1 - F (2 * M - x))
  | BBoth m M => if Qltb x m then 0 else if Qle_bool M x then 1 else fold_cdf F m M N x
  | _ => F x
  end.

Lemma sym_sum_nonneg t N : (forall n, 0 <= t n) -> 0 <= sym_sum t N.
Proof.
  intro H. induction N as [|N IH]; cbn [sym_sum]; [apply H|].
  pose proof (H (Z.of_nat (S N))). pose proof (H (- Z.of_nat (S N))%Z). lra.
Qed.
Lemma sym_sum_le s t N : (forall n, s n <= t n) -> sym_sum s N <= sym_sum t N.
Proof.
  intro H. induction N as [|N IH]; cbn [sym_sum]; [apply H|].
  pose proof (H (Z.of_nat (S N))). pose proof (H (- Z.of_nat (S N))%Z). lra.
Qed.

Section SpecLaws.
  Variables f F : Q -> Q.
  Hypothesis f_nonneg : forall z, 0 <= f z.
  Hypothesis F_mono : forall s t, s <= t -> F s <= F t.
  Hypothesis F_range : forall z, 0 <= F z /\ F z <= 1.

  Lemma fold_pdf_nonneg m M N x : 0 <= fold_pdf f m M N x.
  Proof.
    unfold fold_pdf. apply sym_sum_nonneg. intro n.
    pose proof (f_nonneg (x + inject_Z n * period m M)).
    pose proof (f_nonneg (2 * m - x + inject_Z n * period m M)). lra.
  Qed.
  Lemma fold_cdf_mono m M N a b : a <= b -> fold_cdf F m M N a <= fold_cdf F m M N b.
  Proof.
    intro L. unfold fold_cdf. apply sym_sum_le. intro n.
    pose proof (F_mono (a + inject_Z n * period m M) (b + inject_Z n * period m M)).
    pose proof (F_mono (2 * m - b + inject_Z n * period m M) (2 * m - a + inject_Z n * period m M)). lra.
  Qed.
  Lemma fold_cdf_nonneg m M N x : m <= x -> 0 <= fold_cdf F m M N x.
  Proof.
    intro L. unfold fold_cdf. apply sym_sum_nonneg. intro n.
    pose proof (F_mono (2 * m - x + inject_Z n * period m M) (x + inject_Z n * period m M)). lra.
  Qed.

  Variable b : bconf.
  Variable N : nat.
  (* doubly bounded: the images of order N cover the kernel, so the fold reaches 1 at M *)
  Hypothesis at_max : forall m M, b = BBoth m M -> fold_cdf F m M N M == 1.

  (* PDF >= 0 *)
  Theorem pdf_spec_nonneg x : 0 <= pdf_spec f b N x.
  Proof.
    clear at_max. unfold pdf_spec. destruct b as [|m|M|m M|]; try apply f_nonneg.
    - destruct (Qltb x m); [lra|]. pose proof (f_nonneg x). pose proof (f_nonneg (2 * m - x)). lra.
    - destruct (Qle_bool M x); [lra|]. pose proof (f_nonneg x). pose proof (f_nonneg (2 * M - x)). lra.
    - destruct (Qltb x m || Qle_bool M x); [lra | apply fold_pdf_nonneg].
  Qed.

  (* the density vanishes outside [BoundaryMin, BoundaryMax) *)
  Theorem pdf_spec_outside x : below_min b x = true \/ from_max b x = true -> pdf_spec f b N x = 0.
  Proof.
    clear at_max. unfold pdf_spec, below_min, from_max. destruct b as [|m|M|m M|]; intros [H|H]; try discriminate;
      rewrite H; try reflexivity. now rewrite orb_true_r.
  Qed.

  (* CDF is non-decreasing on the whole line ... *)
  Theorem cdf_spec_mono x x' : x <= x' -> cdf_spec F b N x <= cdf_spec F b N x'.
  Proof.
    intro L. unfold cdf_spec. destruct b as [|m|M|m M|]; try (apply F_mono; exact L).
    - destruct (Qltb x m) eqn:A, (Qltb x' m) eqn:B; qb; try lra.
      + pose proof (F_mono (2 * m - x') x'). lra.
      + pose proof (F_mono x x' L). pose proof (F_mono (2 * m - x') (2 * m - x)). lra.
    - destruct (Qle_bool M x) eqn:A, (Qle_bool M x') eqn:B; qb; try lra.
      + pose proof (F_mono x (2 * M - x)). lra.
      + pose proof (F_mono x x' L). pose proof (F_mono (2 * M - x') (2 * M - x)). lra.
    - specialize (at_max m M eq_refl).
      destruct (Qltb x m) eqn:A, (Qltb x' m) eqn:B; qb; try lra.
      + destruct (Qle_bool M x'); [lra | apply fold_cdf_nonneg; exact B].
      + destruct (Qle_bool M x) eqn:C, (Qle_bool M x') eqn:D; qb; try lra.
        * rewrite <- at_max. apply fold_cdf_mono. lra.
        * apply fold_cdf_mono. exact L.
  Qed.

  (* ... from 0 to 1 *)
  Theorem cdf_spec_range x : 0 <= cdf_spec F b N x /\ cdf_spec F b N x <= 1.
  Proof.
    unfold cdf_spec. destruct b as [|m|M|m M|]; try apply F_range.
    - destruct (Qltb x m) eqn:A; qb; [lra|].
      pose proof (F_mono (2 * m - x) x). pose proof (F_range x). pose proof (F_range (2 * m - x)). lra.
    - destruct (Qle_bool M x) eqn:A; qb; [lra|].
      pose proof (F_mono x (2 * M - x)). pose proof (F_range x). pose proof (F_range (2 * M - x)). lra.
    - specialize (at_max m M eq_refl).
      destruct (Qltb x m) eqn:A; qb; [lra|]. destruct (Qle_bool M x) eqn:C; qb; [lra|].
      split; [apply fold_cdf_nonneg; exact A|].
      rewrite <- at_max. apply fold_cdf_mono. lra.
  Qed.

  (* CDF is 0 below and AT BoundaryMin, 1 from BoundaryMax on *)
  Theorem cdf_spec_ends x : (forall s t, s == t -> F s == F t) ->
    (below_min b x = true -> cdf_spec F b N x = 0) /\
    (from_max b x = true -> below_min b x = false -> cdf_spec F b N x = 1) /\
    (match b with BLower m => x == m | BBoth m M => x == m /\ m < M | _ => False end ->
     cdf_spec F b N x == 0).
  Proof.
    clear at_max. intro C. unfold cdf_spec, below_min, from_max. destruct b as [|m|M|m M|]; repeat split; try discriminate;
      try contradiction; try (intro H; rewrite H; reflexivity).
    - intro E. assert (A : Qltb x m = false) by (apply Qltb_false; lra). rewrite A.
      rewrite (C (2 * m - x) x) by lra. ring.
    - intros H H'. rewrite H', H. reflexivity.
    - intros [E mM]. assert (A : Qltb x m = false) by (apply Qltb_false; lra). rewrite A.
      assert (D : Qle_bool M x = false) by (apply Qle_bool_false; lra). rewrite D.
      transitivity (fold_cdf F m M N m); [| apply fold_cdf_at_min; exact C].
      unfold fold_cdf. apply sym_sum_ext. intro n.
      rewrite (C (x + inject_Z n * period m M) (m + inject_Z n * period m M)) by lra.
      rewrite (C (2 * m - x + inject_Z n * period m M) (2 * m - m + inject_Z n * period m M)) by lra.
      reflexivity.
  Qed.
End SpecLaws.

(* the model computes pdf_spec / cdf_spec of the weighted kernel average *)
Definition bounds_ok (k : kde) : Prop :=
  match k_b k with BBad => False | BBoth m M => m < M /\ pairs_within m M (kde_ps k) | _ => True end.

Section EpanKDELaws.
  Variable k : kde.
  Hypothesis ok : kde_ok k.
  Hypothesis kern : k_kernel k = KEpan.
  Hypothesis bok : bounds_ok k.

  Theorem kde_matches_spec x N : (k_fuel k <= N)%nat ->
    exists p c, kde_pdf k x = Some (XFin p) /\ kde_cdf k x = Some (XFin c) /\
                p == pdf_spec (kde_f k) (k_b k) N x /\ c == cdf_spec (kde_F k) (k_b k) N x.
  Proof.
    intro L. unfold bounds_ok in bok. destruct (k_b k) as [|m|M|m M|] eqn:B; [| | | |contradiction].
    - destruct (kde_unbounded_is_average k ok kern x B) as (p & c & H). exists p, c. exact H.
    - destruct (kde_lower_reflects k ok kern m x B) as [H1 H2]. cbn [pdf_spec cdf_spec].
      destruct (Qltb x m) eqn:A; qb.
      + destruct (H1 A) as [P C]. exists 0, 0. repeat split; auto; reflexivity.
      + destruct (H2 A) as (p & c & H). exists p, c. exact H.
    - destruct (kde_upper_reflects k ok kern M x B) as [H1 H2]. cbn [pdf_spec cdf_spec].
      destruct (Qle_bool M x) eqn:A; qb.
      + destruct (H1 A) as [P C]. exists 0, 1. repeat split; auto; reflexivity.
      + destruct (H2 A) as (p & c & H). exists p, c. exact H.
    - destruct bok as [mM Hin].
      destruct (kde_both_is_fold k ok kern m M x B Hin) as (H1 & H2 & H3). cbn [pdf_spec cdf_spec].
      destruct (Qltb x m) eqn:A; qb.
      + destruct (H1 A) as [P C]. exists 0, 0. cbn [orb]. repeat split; auto; reflexivity.
      + destruct (Qle_bool M x) eqn:A2; qb.
        * destruct (H2 A2) as [P C]. exists 0, 1. cbn [orb]. repeat split; auto; reflexivity.
        * destruct (H3 A A2) as (p & c & P & C & E). exists p, c. cbn [orb].
          destruct (E N L) as [E1 E2]. repeat split; assumption.
  Qed.

  Let at_max : forall m M, k_b k = BBoth m M -> fold_cdf (kde_F k) m M (k_fuel k) M == 1.
  Proof.
    intros m M B. unfold bounds_ok in bok. rewrite B in bok. destruct bok as [mM Hin].
    apply (kde_both_cdf_ends k ok kern m M (k_fuel k) B Hin mM). lia.
  Qed.

  (* KDE.PDF is non-negative *)
  Theorem kde_pdf_nonneg x p : kde_pdf k x = Some (XFin p) -> 0 <= p.
  Proof.
    intro H. destruct (kde_matches_spec x (k_fuel k) (Nat.le_refl _)) as (p' & c' & P & _ & E & _).
    rewrite P in H. injection H as <-. rewrite E. apply pdf_spec_nonneg. apply kde_f_nonneg, ok.
  Qed.
  (* KDE.CDF is non-decreasing *)
  Theorem kde_cdf_monotone a b ca cb : a <= b ->
    kde_cdf k a = Some (XFin ca) -> kde_cdf k b = Some (XFin cb) -> ca <= cb.
  Proof.
    intros L Ha Hb.
    destruct (kde_matches_spec a (k_fuel k) (Nat.le_refl _)) as (? & ca' & _ & Ca & _ & Ea).
    destruct (kde_matches_spec b (k_fuel k) (Nat.le_refl _)) as (? & cb' & _ & Cb & _ & Eb).
    rewrite Ca in Ha. rewrite Cb in Hb. injection Ha as <-. injection Hb as <-. rewrite Ea, Eb.
    apply cdf_spec_mono; auto.
    - apply kde_F_mono, ok.
  Qed.
  (* ... with values in [0, 1] *)
  Theorem kde_cdf_range x c : kde_cdf k x = Some (XFin c) -> 0 <= c /\ c <= 1.
  Proof.
    intro H. destruct (kde_matches_spec x (k_fuel k) (Nat.le_refl _)) as (? & c' & _ & C & _ & E).
    rewrite C in H. injection H as <-. rewrite E.
    apply cdf_spec_range; auto; [apply kde_F_mono, ok | apply kde_F_range, ok].
  Qed.
  (* CDF is 0 below and at BoundaryMin and 1 from BoundaryMax on *)
  Theorem kde_cdf_ends x c : kde_cdf k x = Some (XFin c) ->
    (below_min (k_b k) x = true -> c == 0) /\
    (from_max (k_b k) x = true -> below_min (k_b k) x = false -> c == 1) /\
    (match k_b k with BLower m => x == m | BBoth m M => x == m | _ => False end -> c == 0).
  Proof.
    intro H. destruct (kde_matches_spec x (k_fuel k) (Nat.le_refl _)) as (? & c' & _ & C & _ & E).
    rewrite C in H. injection H as <-. rewrite E.
    destruct (cdf_spec_ends (kde_F k) (k_b k) (k_fuel k) x (kde_F_comp k)) as (E1 & E2 & E3).
    repeat split.
    - intro A. rewrite (E1 A). reflexivity.
    - intros A B. rewrite (E2 A B). reflexivity.
    - intro A. apply E3. unfold bounds_ok in bok. destruct (k_b k); auto. split; [exact A | apply bok].
  Qed.
  (* the density is 0 outside [BoundaryMin, BoundaryMax) *)
  Theorem kde_pdf_outside x p : kde_pdf k x = Some (XFin p) ->
    below_min (k_b k) x = true \/ from_max (k_b k) x = true -> p == 0.
  Proof.
    intros H A. destruct (kde_matches_spec x (k_fuel k) (Nat.le_refl _)) as (p' & ? & P & _ & E & _).
    rewrite P in H. injection H as <-. rewrite E, (pdf_spec_outside (kde_f k) (k_b k) (k_fuel k) x A). reflexivity.
  Qed.

  (* 0 far on the left, 1 far on the right; the kernel is compact, so EXACTLY 0 left of
     min(data) - h and EXACTLY 1 right of max(data) + h.  (On a bounded side the limit is
     kde_cdf_ends; here the sides that are not bounded, data inside the boundary.) *)
  Theorem kde_cdf_limits lo hi : pairs_within lo hi (kde_ps k) ->
    match k_b k with BNone => True | BLower m => m <= lo | BUpper M => hi <= M | _ => False end ->
    (forall x c, x <= lo - k_h k -> kde_cdf k x = Some (XFin c) -> c == 0) /\
    (forall x c, hi + k_h k <= x -> kde_cdf k x = Some (XFin c) -> c == 1).
  Proof.
    intros Hin Hb.
    assert (hp : 0 < k_h k) by apply ok.
    assert (lohi : lo <= hi).
    { pose proof (kde_ps_ok k ok) as [Hne _]. destruct (kde_ps k) as [|p0 l]; [congruence|].
      inversion Hin; subst. lra. }
    assert (R := fun z => kde_F_range k ok z). assert (Mo := kde_F_mono k ok).
    assert (Z0 := fun z => kde_F_left k ok lo hi z Hin). assert (Z1 := fun z => kde_F_right k ok lo hi z Hin).
    split; intros x c Hx H;
      destruct (kde_matches_spec x (k_fuel k) (Nat.le_refl _)) as (? & c' & _ & C & _ & E);
      rewrite C in H; injection H as <-; rewrite E; clear E C;
      unfold cdf_spec; destruct (k_b k) as [|m|M|m M|] eqn:B; try contradiction.
    - apply Z0, Hx.
    - destruct (Qltb x m) eqn:A; qb; [reflexivity|].
      pose proof (Mo (2 * m - x) x). pose proof (R (2 * m - x)). pose proof (Z0 x Hx). lra.
    - assert (A : Qle_bool M x = false) by (apply Qle_bool_false; lra). rewrite A.
      rewrite (Z0 x Hx), (Z1 (2 * M - x)) by lra. ring.
    - apply Z1, Hx.
    - assert (A : Qltb x m = false) by (apply Qltb_false; lra). rewrite A.
      rewrite (Z1 x Hx), (Z0 (2 * m - x)) by lra. ring.
    - destruct (Qle_bool M x) eqn:A; qb; [reflexivity|].
      pose proof (Mo x (2 * M - x)). pose proof (R (2 * M - x)). pose proof (Z1 x Hx). lra.
  Qed.
End EpanKDELaws.

(* ====================================================================== *)
(* 9. the delta kernel: weighted empirical distribution function            *)
(* ====================================================================== *)
Definition kde_ok_delta (k : kde) : Prop :=
  k_xs k <> [] /\ ws_wf (k_xs k) (k_ws k) /\ ws_pos (k_ws k).

Lemma kde_cdf_delta k x : k_xs k <> [] -> k_kernel k = KDelta ->
  kde_cdf k x = option_map XFin (reflect_cdf (mix delta_cdf (k_xs k) (k_ws k)) (k_fuel k) (k_b k) x).
Proof.
  intros A E. unfold kde_cdf. rewrite E. destruct (k_xs k) as [|x0 xs] eqn:X; [congruence|]. reflexivity.
Qed.
Lemma kde_pdf_delta k x : k_xs k <> [] -> k_kernel k = KDelta ->
  kde_pdf k x = option_map (fun v => if Qltb 0 v then XInf false else XFin 0)
                  (reflect_pdf (mix delta_hit (k_xs k) (k_ws k)) (k_fuel k) (k_b k) x).
Proof.
  intros A E. unfold kde_pdf. rewrite E. destruct (k_xs k) as [|x0 xs] eqn:X; [congruence|]. reflexivity.
Qed.

Lemma wavg_delta_is_wecdf ps x : wavg delta_cdf ps x == wecdf ps x.
Proof.
  unfold wavg, wecdf. apply Qdiv_comp; [|reflexivity]. apply Qsum_ext. intros p _.
  unfold delta_cdf.
  assert (E : Qle_bool 0 (x - fst p) = Qle_bool (fst p) x).
  { destruct (Qle_bool (fst p) x) eqn:A; qb; [apply Qle_bool_iff | apply Qle_bool_false]; lra. }
  rewrite E. destruct (Qle_bool (fst p) x); ring.
Qed.

Section DeltaKDE.
  Variable k : kde.
  Hypothesis ok : kde_ok_delta k.
  Hypothesis kern : k_kernel k = KDelta.

  Let ne : k_xs k <> []. Proof. apply ok. Qed.
  Let wf : ws_wf (k_xs k) (k_ws k). Proof. apply ok. Qed.
  Let pok : pairs_ok (kde_ps k). Proof. destruct ok as (A & B & C). apply kpairs_ok; assumption. Qed.

  Let Y_ecdf z : mix delta_cdf (k_xs k) (k_ws k) z == wecdf (kde_ps k) z.
  Proof. rewrite mix_is_wavg by exact wf. apply wavg_delta_is_wecdf. Qed.

  (* no boundary: CDF is the weighted empirical distribution function *)
  Theorem delta_cdf_is_weighted_ecdf x : k_b k = BNone ->
    exists c, kde_cdf k x = Some (XFin c) /\ c == wecdf (kde_ps k) x.
  Proof.
    intro B. rewrite kde_cdf_delta by assumption. rewrite B. cbn [reflect_cdf option_map].
    eexists. split; [reflexivity | apply Y_ecdf].
  Qed.

  (* the empirical distribution function has no mass left of the data and all of it from
     the largest value on *)
  Lemma wecdf_left lo hi z : pairs_within lo hi (kde_ps k) -> z < lo -> wecdf (kde_ps k) z == 0.
  Proof.
    intros Hin Hz. rewrite <- wavg_delta_is_wecdf. apply wavg_const; [exact pok|].
    intros p Hp. unfold pairs_within in Hin. rewrite Forall_forall in Hin. specialize (Hin p Hp).
    unfold delta_cdf. assert (E : Qle_bool 0 (z - fst p) = false) by (apply Qle_bool_false; lra).
    rewrite E. reflexivity.
  Qed.
  Lemma wecdf_right lo hi z : pairs_within lo hi (kde_ps k) -> hi <= z -> wecdf (kde_ps k) z == 1.
  Proof.
    intros Hin Hz. rewrite <- wavg_delta_is_wecdf. apply wavg_const; [exact pok|].
    intros p Hp. unfold pairs_within in Hin. rewrite Forall_forall in Hin. specialize (Hin p Hp).
    unfold delta_cdf. assert (E : Qle_bool 0 (z - fst p) = true) by (apply Qle_bool_iff; lra).
    rewrite E. reflexivity.
  Qed.

  (* with one boundary (data inside): 0 below and AT BoundaryMin / 1 from BoundaryMax, and the
     empirical distribution function strictly inside *)
  Theorem delta_cdf_lower m lo hi x : k_b k = BLower m -> pairs_within lo hi (kde_ps k) -> m <= lo ->
    exists c, kde_cdf k x = Some (XFin c) /\
              (x <= m -> c == 0) /\ (m < x -> c == wecdf (kde_ps k) x).
  Proof.
    intros B Hin L. rewrite kde_cdf_delta by assumption. rewrite B. cbn [reflect_cdf].
    destruct (Qltb x m) eqn:A; qb; cbn [option_map]; eexists; (split; [reflexivity|]); split; intro H;
      try reflexivity; try (exfalso; lra).
    - rewrite !Y_ecdf. assert (E : x == m) by lra.
      assert (Ws : forall s t, s == t -> wecdf (kde_ps k) s == wecdf (kde_ps k) t).
      { intros s t Est. rewrite <- !wavg_delta_is_wecdf. apply wavg_comp; [|exact Est].
        intros a b Eab. unfold delta_cdf. rewrite Eab. reflexivity. }
      rewrite (Ws (2 * m - x) x) by lra. ring.
    - rewrite !Y_ecdf. rewrite (wecdf_left lo hi (2 * m - x) Hin) by lra. ring.
  Qed.
  Theorem delta_cdf_upper M lo hi x : k_b k = BUpper M -> pairs_within lo hi (kde_ps k) -> hi <= M ->
    exists c, kde_cdf k x = Some (XFin c) /\
              (M <= x -> c == 1) /\ (x < M -> c == wecdf (kde_ps k) x).
  Proof.
    intros B Hin L. rewrite kde_cdf_delta by assumption. rewrite B. cbn [reflect_cdf].
    destruct (Qle_bool M x) eqn:A; qb; cbn [option_map]; eexists; (split; [reflexivity|]); split; intro H;
      try reflexivity; try (exfalso; lra).
    rewrite !Y_ecdf. rewrite (wecdf_right lo hi (2 * M - x) Hin) by lra. ring.
  Qed.

  (* the "density": +Inf exactly at the data points *)
  Theorem delta_pdf_unbounded x : k_b k = BNone ->
    ((exists p, In p (kde_ps k) /\ fst p == x) -> kde_pdf k x = Some (XInf false)) /\
    ((forall p, In p (kde_ps k) -> ~ fst p == x) -> kde_pdf k x = Some (XFin 0)).
  Proof.
    intro B. rewrite kde_pdf_delta by assumption. rewrite B. cbn [reflect_pdf option_map].
    assert (NN : forall t, 0 <= delta_hit t) by (intro t; unfold delta_hit; destruct (Qeq_bool t 0); lra).
    pose proof (wavg_zero_iff (kde_ps k) pok delta_hit x NN) as Z.
    pose proof (wavg_nonneg (kde_ps k) pok delta_hit x NN) as P.
    rewrite <- (mix_is_wavg delta_hit _ _ x wf) in Z, P.
    split.
    - intros (p & Hp & E).
      assert (A : Qltb 0 (mix delta_hit (k_xs k) (k_ws k) x) = true).
      { apply Qltb_true. destruct (Qeq_dec (mix delta_hit (k_xs k) (k_ws k) x) 0) as [Q0|NQ]; [|lra].
        exfalso. pose proof (proj1 Z Q0 p Hp) as D. unfold delta_hit in D.
        assert (T : Qeq_bool (x - fst p) 0 = true) by (apply Qeq_bool_iff; lra). rewrite T in D. lra. }
      rewrite A. reflexivity.
    - intro H.
      assert (A : Qltb 0 (mix delta_hit (k_xs k) (k_ws k) x) = false).
      { apply Qltb_false. assert (Q0 : mix delta_hit (k_xs k) (k_ws k) x == 0); [|lra].
        apply Z. intros p Hp. unfold delta_hit.
        assert (T : Qeq_bool (x - fst p) 0 = false).
        { apply Qeq_bool_false. intro E. apply (H p Hp). lra. }
        rewrite T. reflexivity. }
      rewrite A. reflexivity.
  Qed.
End DeltaKDE.

(* ====================================================================== *)
(* 10. lazy bandwidth, Bounds checker                                       *)
(* ====================================================================== *)
(* a non-zero Bandwidth is never touched; a zero one becomes Scott's value; a second call
   changes nothing *)
Theorem bandwidth_lazy (before scott : Q) :
  (~ before == 0 -> bandwidth_after before scott = before) /\
  (before == 0 -> bandwidth_after before scott = scott) /\
  bandwidth_after (bandwidth_after before scott) scott = bandwidth_after before scott.
Proof.
  unfold bandwidth_after. repeat split.
  - intro H. apply Qeq_bool_false in H. rewrite H. reflexivity.
  - intro H. apply Qeq_bool_iff in H. rewrite H. reflexivity.
  - destruct (Qeq_bool before 0) eqn:A.
    + destruct (Qeq_bool scott 0); reflexivity.
    + rewrite A. reflexivity.
Qed.

(* what an accepted Bounds() result means *)
Theorem kde_bounds_ok_sound (b : bconf) (lo hi : xreal) (mass : Q) :
  kde_bounds_ok b lo hi mass = true ->
  exists l h, lo = XFin l /\ hi = XFin h /\ l <= h /\ (98 # 100) <= mass /\
    match b with
    | BNone => True
    | BLower m => m <= l
    | BUpper M => h <= M
    | BBoth m M => m <= l /\ h <= M
    | BBad => False
    end.
Proof.
  unfold kde_bounds_ok. destruct lo as [| |l]; try discriminate. destruct hi as [| |h]; try discriminate.
  intro H. apply andb_true_iff in H. destruct H as [H H3]. apply andb_true_iff in H. destruct H as [H1 H2].
  qb. exists l, h. repeat split; auto.
  unfold inside_bounds in H2. destruct b; auto; qb; auto. discriminate.
Qed.

(* the delta kernel's mass of a closed interval: total weight of the data points in it *)
Theorem delta_mass_in_spec xs ws lo hi : ws_wf xs ws ->
  delta_mass_in xs ws lo hi ==
  Qsum (map (fun p => if Qle_bool lo (fst p) && Qle_bool (fst p) hi then snd p else 0) (kpairs xs ws))
  / wtotal (kpairs xs ws).
Proof.
  intro W. unfold delta_mass_in. rewrite mix_is_wavg by exact W. unfold wavg.
  apply Qdiv_comp; [|reflexivity]. apply Qsum_ext. intros p _.
  assert (E1 : Qle_bool 0 (hi - fst p) = Qle_bool (fst p) hi).
  { destruct (Qle_bool (fst p) hi) eqn:A; qb; [apply Qle_bool_iff | apply Qle_bool_false]; lra. }
  assert (E2 : Qle_bool (hi - fst p) (hi - lo) = Qle_bool lo (fst p)).
  { destruct (Qle_bool lo (fst p)) eqn:A; qb; [apply Qle_bool_iff | apply Qle_bool_false]; lra. }
  rewrite E1, E2, andb_comm. destruct (Qle_bool lo (fst p) && Qle_bool (fst p) hi); ring.
Qed.

(* ====================================================================== *)
(* 11. the pinned tree's doubly bounded density (defect D5) is NOT the fold  *)
(* ====================================================================== *)
(* sample {1,2,3}, h = 1, support [1/2, 4), x = 3: the repaired model gives the image sum 1/4,
   the pinned variant (second series with +w) puts a spurious image at 3x - 2m - d = 1 and
   gives 1/2 *)
Definition d5_kde : kde := mkKde [1; 2; 3] None KEpan 1 (BBoth (1 # 2) 4).
Theorem kde_both_D5_refuted :
  exists (k : kde) (m M x : Q) (N : nat) (p : Q),
    kde_ok k /\ k_kernel k = KEpan /\ k_b k = BBoth m M /\ pairs_within m M (kde_ps k) /\
    m <= x /\ x < M /\ (k_fuel k <= N)%nat /\
    kde_pdf k x = Some (XFin p) /\ p == fold_pdf (kde_f k) m M N x /\
    ~ p == fold_pdf_D5 (kde_f k) m M N x.
Proof.
  exists d5_kde, (1 # 2), 4, 3, 5%nat, (1 # 4).
  repeat split; try (vm_compute; congruence); try (vm_compute; lia).
  repeat constructor; cbn; lra.
Qed.

(* combined statement for Properties/C12.v *)
Lemma epan_cdf_ends (h x : Q) : 0 < h ->
  (x <= - h -> epan_cdf h x == 0) /\ (h <= x -> epan_cdf h x == 1).
Proof.
  intro Hh. split; intro H; [rewrite epan_cdf_left by lra; reflexivity | apply epan_cdf_right; assumption].
Qed.
(* the exact polynomial pieces: K is a cubic with K' = k on the open support *)
Lemma epan_pieces (h x : Q) : 0 < h -> - h < x -> x < h ->
  epan_pdf h x == (3 # 4) / h * (1 - x * x / (h * h)) /\
  epan_cdf h x == (1 # 4) * (2 + 3 * (x / h) - (x / h) * (x / h) * (x / h)).
Proof.
  intros Hh A B. split; [apply epan_pdf_inside; assumption | apply epan_cdf_mid; lra].
Qed.

(* ====================================================================== *)
(* 12. the delta kernel between two boundaries                              *)
(* ====================================================================== *)
Section DeltaBoth.
  Variable k : kde.
  Hypothesis ok : kde_ok_delta k.
  Hypothesis kern : k_kernel k = KDelta.
  Variables m M : Q.
  Hypothesis B : k_b k = BBoth m M.
  Hypothesis Hin : pairs_within m M (kde_ps k).
  Hypothesis mM : m < M.

  Let Y := mix delta_cdf (k_xs k) (k_ws k).
  Let wf : ws_wf (k_xs k) (k_ws k). Proof. apply ok. Qed.
  Let Y_ecdf z : Y z == wecdf (kde_ps k) z.
  Proof. unfold Y. rewrite mix_is_wavg by exact wf. apply wavg_delta_is_wecdf. Qed.
  Let Y0 z : z < m -> Y z == 0.
  Proof. intro H. rewrite Y_ecdf. apply (wecdf_left k ok m M z Hin H). Qed.
  Let Y1 z : M <= z -> Y z == 1.
  Proof. intro H. rewrite Y_ecdf. apply (wecdf_right k ok m M z Hin H). Qed.
  Let Y_comp s t : s == t -> Y s == Y t.
  Proof.
    intro E. unfold Y. rewrite !mix_is_wavg by exact wf. apply wavg_comp; [|exact E].
    intros a b Eab. unfold delta_cdf. rewrite Eab. reflexivity.
  Qed.

  Variable x : Q.
  Hypothesis x_in : m <= x /\ x < M.

  Let up_tail n : cdf_upper Y m M x (S n) == 0.
  Proof.
    unfold cdf_upper.
    assert (Hc : 0 <= Qofnat n * img_d m M).
    { apply Qmult_le_0_compat; [apply Qofnat_nonneg | unfold img_d; lra]. }
    assert (Ec : Qofnat (S n) * img_d m M == Qofnat n * img_d m M + img_d m M) by (rewrite Qofnat_S; ring).
    set (c := Qofnat n * img_d m M) in *. set (c' := Qofnat (S n) * img_d m M) in *. clearbody c c'.
    unfold img_d, img_w in *. rewrite !Y1 by lra. ring.
  Qed.
  Let lo_all n : cdf_lower Y m M x n == 0.
  Proof.
    unfold cdf_lower.
    assert (Hc : 0 <= Qofnat n * img_d m M).
    { apply Qmult_le_0_compat; [apply Qofnat_nonneg | unfold img_d; lra]. }
    assert (Ec : (Qofnat n + 1) * img_d m M == Qofnat n * img_d m M + img_d m M) by ring.
    set (c := Qofnat n * img_d m M) in *. set (c' := (Qofnat n + 1) * img_d m M) in *. clearbody c c'.
    unfold img_d, img_w in *. rewrite !Y0 by lra. ring.
  Qed.

  (* between the boundaries the folded step function is the empirical distribution function
     (0 AT BoundaryMin, even if a data point sits there) *)
  Theorem delta_cdf_both :
    exists c, kde_cdf k x = Some (XFin c) /\
              (x == m -> c == 0) /\ (m < x -> c == wecdf (kde_ps k) x).
  Proof.
    rewrite kde_cdf_delta by (assumption || apply ok). rewrite B. cbn [reflect_cdf].
    destruct x_in as [X1 X2].
    assert (A1 : Qltb x m = false) by (apply Qltb_false; lra).
    assert (A2 : Qle_bool M x = false) by (apply Qle_bool_false; lra). rewrite A1, A2.
    assert (Fu : (1 < k_fuel k)%nat).
    { unfold k_fuel. rewrite B, kern. unfold img_fuel.
      assert (E : Qle_bool M m = false) by (apply Qle_bool_false; lra). rewrite E. lia. }
    destruct (series_q_value (cdf_upper Y m M x) (k_fuel k) 1) as [a [S1 S2]];
      [intros n _; apply up_tail | apply up_tail | exact Fu |].
    destruct (series_q_value (cdf_lower Y m M x) (k_fuel k) 0) as [b [T1 T2]];
      [intros n _; apply lo_all | apply lo_all | lia |].
    fold Y. unfold two_series. rewrite S1, T1. cbn [option_map].
    eexists. split; [reflexivity|].
    assert (Ea : a == Y x - Y (2 * m - x)).
    { rewrite (S2 1%nat) by lia. cbn [nat_sum]. unfold cdf_upper, img_d, img_w.
      rewrite (Y_comp (x + Qofnat 0 * (2 * (M - m))) x) by (unfold Qofnat; cbn; ring).
      rewrite (Y_comp (x + Qofnat 0 * (2 * (M - m)) - 2 * (x - m)) (2 * m - x)) by (unfold Qofnat; cbn; ring).
      ring. }
    assert (Eb : b == 0) by (rewrite (T2 0%nat) by lia; reflexivity).
    rewrite Qred_correct, Ea, Eb. split; intro H.
    - rewrite (Y_comp (2 * m - x) x) by lra. ring.
    - rewrite (Y0 (2 * m - x)) by lra. rewrite Y_ecdf. ring.
  Qed.
End DeltaBoth.

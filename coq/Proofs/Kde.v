(* Proofs/Kde.v — lemmas about Model/Kde.v (exact KDE model over Q) against Spec/Kde.v.
   Everything in this file is over Q / Z / lists and closed under the global context.
   The analytic statements (derivative pair, integrals) live over the reals in Proofs/KdeR.v
   (about RealSpec/KdeR.v) and are tied to the rational spec in Proofs/KdeQR.v. *)
From MM Require Import Base.Num Base.GASort Model.Sample Model.Quantile Model.Kde Spec.Kde.
From Coq Require Import Qround Lqa Lra Psatz.
Local Open Scope Q_scope.

(* ====================================================================== *)
(* 0. boolean tests                                                         *)
(* ====================================================================== *)
Lemma Qltb_true (a b : Q) : Qltb a b = true <-> a < b.
Proof.
  unfold Qltb. rewrite negb_true_iff. split; intro H.
  - apply Qnot_le_lt. intro L. apply Qle_bool_iff in L. congruence.
  - destruct (Qle_bool b a) eqn:E; auto. apply Qle_bool_iff in E. exfalso. apply (Qlt_not_le _ _ H E).
Qed.
Lemma Qltb_false (a b : Q) : Qltb a b = false <-> b <= a.
Proof.
  unfold Qltb. rewrite negb_false_iff. apply Qle_bool_iff.
Qed.
Lemma Qle_bool_false (a b : Q) : Qle_bool a b = false <-> b < a.
Proof.
  split; intro H.
  - apply Qnot_le_lt. intro L. apply Qle_bool_iff in L. congruence.
  - destruct (Qle_bool a b) eqn:E; auto. apply Qle_bool_iff in E. exfalso. apply (Qlt_not_le _ _ H E).
Qed.
Lemma Qeq_bool_false (a b : Q) : Qeq_bool a b = false <-> ~ a == b.
Proof.
  split; intro H.
  - intro E. apply Qeq_bool_iff in E. congruence.
  - destruct (Qeq_bool a b) eqn:E; auto. apply Qeq_bool_iff in E. contradiction.
Qed.
Lemma Qltb_comp (a b c d : Q) : a == c -> b == d -> Qltb a b = Qltb c d.
Proof. intros H1 H2. unfold Qltb. now rewrite H1, H2. Qed.

Ltac qb :=
  repeat match goal with
  | H : Qltb _ _ = true |- _ => apply Qltb_true in H
  | H : Qltb _ _ = false |- _ => apply Qltb_false in H
  | H : Qle_bool _ _ = true |- _ => apply Qle_bool_iff in H
  | H : Qle_bool _ _ = false |- _ => apply Qle_bool_false in H
  | H : Qeq_bool _ _ = true |- _ => apply Qeq_bool_iff in H
  | H : Qeq_bool _ _ = false |- _ => apply Qeq_bool_false in H
  | H : (_ && _)%bool = true |- _ => apply andb_true_iff in H; destruct H
  | H : (_ || _)%bool = false |- _ => apply orb_false_iff in H; destruct H
  end.

(* ====================================================================== *)
(* 1. Epanechnikov kernel                                                   *)
(* ====================================================================== *)
Lemma epan_pdf_nonneg (h x : Q) : 0 < h -> 0 <= epan_pdf h x.
Proof.
  intro Hh. unfold epan_pdf.
  destruct (Qltb (- h) x && Qltb x h) eqn:E; [| apply Qle_refl].
  apply andb_true_iff in E. destruct E as [E1 E2]. apply Qltb_true in E1. apply Qltb_true in E2.
  assert (Hx : x * x <= h * h) by nra.
  assert (Hhh : 0 < h * h) by nra.
  apply Qmult_le_0_compat.
  - apply Qle_shift_div_l; auto. lra.
  - assert (x * x * (1 / (h * h)) <= 1); [| lra].
    setoid_replace (x * x * (1 / (h * h))) with (x * x / (h * h)) by (field; lra).
    apply Qle_shift_div_r; auto. lra.
Qed.

(* the density vanishes outside the OPEN interval (-h, h) — literally 0 *)
Lemma epan_pdf_outside (h x : Q) : x <= - h \/ h <= x -> epan_pdf h x = 0.
Proof.
  intros [H|H]; unfold epan_pdf.
  - apply Qltb_false in H. now rewrite H.
  - apply Qltb_false in H. rewrite H. now rewrite andb_false_r.
Qed.

(* inside the support it is the parabola (3/(4h)) (1 - x^2/h^2), and strictly positive *)
Lemma epan_pdf_inside (h x : Q) : 0 < h -> - h < x -> x < h ->
  epan_pdf h x == (3 # 4) / h * (1 - x * x / (h * h)) /\ 0 < epan_pdf h x.
Proof.
  intros Hh H1 H2. unfold epan_pdf.
  apply Qltb_true in H1 as B1. apply Qltb_true in H2 as B2. rewrite B1, B2. cbn [andb].
  assert (Hhh : 0 < h * h) by nra.
  split; [field; lra|].
  apply Qmult_lt_0_compat.
  - apply Qlt_shift_div_l; auto. lra.
  - assert (x * x * (1 / (h * h)) < 1); [| lra].
    setoid_replace (x * x * (1 / (h * h))) with (x * x / (h * h)) by (field; lra).
    apply Qlt_shift_div_r; auto. nra.
Qed.

Lemma epan_pdf_zero_iff (h x : Q) : 0 < h -> (epan_pdf h x == 0 <-> x <= - h \/ h <= x).
Proof.
  intro Hh. split.
  - intro E. destruct (Qlt_le_dec (- h) x) as [A|A]; [|now left].
    destruct (Qlt_le_dec x h) as [B|B]; [|now right].
    destruct (epan_pdf_inside h x Hh A B) as [_ P]. rewrite E in P. lra.
  - intro H. now rewrite (epan_pdf_outside h x H).
Qed.

Lemma epan_pdf_comp (h x y : Q) : x == y -> epan_pdf h x == epan_pdf h y.
Proof.
  intro E. unfold epan_pdf.
  rewrite (Qltb_comp (- h) x (- h) y), (Qltb_comp x h y h) by (auto; reflexivity).
  destruct (Qltb (- h) y && Qltb y h); [now rewrite E | reflexivity].
Qed.

(* the kernel is even *)
Lemma epan_pdf_even (h x : Q) : epan_pdf h (- x) == epan_pdf h x.
Proof.
  unfold epan_pdf.
  assert (A : Qltb (- h) (- x) = Qltb x h).
  { destruct (Qltb x h) eqn:E; qb; [apply Qltb_true | apply Qltb_false]; lra. }
  assert (B : Qltb (- x) h = Qltb (- h) x).
  { destruct (Qltb (- h) x) eqn:E; qb; [apply Qltb_true | apply Qltb_false]; lra. }
  rewrite A, B, andb_comm.
  destruct (Qltb (- h) x && Qltb x h); [ring | reflexivity].
Qed.

(* distribution function: literally 0 left of the support *)
Lemma epan_cdf_left (h x : Q) : 0 <= h -> x <= - h -> epan_cdf h x = 0.
Proof.
  intros Hh H. unfold epan_cdf.
  assert (A : Qltb h x = false) by (apply Qltb_false; lra).
  assert (B : Qltb (- h) x = false) by (apply Qltb_false; lra).
  now rewrite A, B.
Qed.

Lemma epan_cdf_mid (h x : Q) : - h < x -> x <= h ->
  epan_cdf h x == (1 # 4) * (2 + 3 * (x / h) - (x / h) * (x / h) * (x / h)).
Proof.
  intros H1 H2. unfold epan_cdf.
  assert (A : Qltb h x = false) by (apply Qltb_false; lra).
  assert (B : Qltb (- h) x = true) by (apply Qltb_true; lra).
  rewrite A, B. cbv zeta. assert (h == 0 \/ ~ h == 0) as [Z|NZ].
  { destruct (Qeq_dec h 0); auto. }
  - exfalso. lra.
  - field. exact NZ.
Qed.

(* and 1 from the right end of the support on (at x = h by the polynomial) *)
Lemma epan_cdf_right (h x : Q) : 0 < h -> h <= x -> epan_cdf h x == 1.
Proof.
  intros Hh H. destruct (Qlt_le_dec h x) as [A|A].
  - unfold epan_cdf. apply Qltb_true in A. now rewrite A.
  - assert (E : x == h) by lra.
    rewrite epan_cdf_mid by lra. rewrite E. field. lra.
Qed.

Lemma epan_cdf_comp (h x y : Q) : x == y -> epan_cdf h x == epan_cdf h y.
Proof.
  intro E. unfold epan_cdf.
  rewrite (Qltb_comp h x h y), (Qltb_comp (- h) x (- h) y) by (auto; reflexivity).
  destruct (Qltb h y); [reflexivity|]. destruct (Qltb (- h) y); [|reflexivity].
  cbv zeta. now rewrite E.
Qed.

(* the polynomial piece is non-decreasing on [-1, 1]:
   P(v) - P(u) = (v - u) (3 - (u^2 + u v + v^2)) / 4 *)
Lemma epan_poly_mono (u v : Q) : -1 <= u -> u <= v -> v <= 1 ->
  (1 # 4) * (2 + 3 * u - u * u * u) <= (1 # 4) * (2 + 3 * v - v * v * v).
Proof.
  intros A B C.
  assert (E : (1 # 4) * (2 + 3 * v - v * v * v) - (1 # 4) * (2 + 3 * u - u * u * u)
              == (1 # 4) * ((v - u) * (3 - (u * u + u * v + v * v)))) by ring.
  assert (0 <= (v - u) * (3 - (u * u + u * v + v * v))); [| lra].
  apply Qmult_le_0_compat; [lra|]. nra.
Qed.

Theorem epan_cdf_mono (h a b : Q) : 0 < h -> a <= b -> epan_cdf h a <= epan_cdf h b.
Proof.
  intros Hh Hab.
  assert (Pos : forall x, - h < x -> x <= h ->
            -1 < x / h /\ x / h <= 1).
  { intros x X1 X2. split.
    - apply Qlt_shift_div_l; lra.
    - apply Qle_shift_div_r; lra. }
  assert (Range : forall x, - h < x -> x <= h -> 0 <= epan_cdf h x /\ epan_cdf h x <= 1).
  { intros x X1 X2. destruct (Pos x X1 X2) as [U1 U2]. rewrite epan_cdf_mid by assumption.
    split.
    - pose proof (epan_poly_mono (-1) (x / h)). lra.
    - pose proof (epan_poly_mono (x / h) 1). lra. }
  destruct (Qlt_le_dec (- h) a) as [A1|A1].
  - destruct (Qlt_le_dec h a) as [A2|A2].
    + rewrite (epan_cdf_right h a), (epan_cdf_right h b) by lra. lra.
    + destruct (Qlt_le_dec h b) as [B2|B2].
      * rewrite (epan_cdf_right h b) by lra. apply Range; assumption.
      * rewrite !epan_cdf_mid by lra.
        destruct (Pos a) as [U1 U2]; try lra. destruct (Pos b) as [V1 V2]; try lra.
        apply epan_poly_mono; try lra.
        apply Qle_shift_div_l; [lra|].
        setoid_replace (a / h * h) with a by (field; lra). exact Hab.
  - rewrite (epan_cdf_left h a) by lra.
    destruct (Qlt_le_dec (- h) b) as [B1|B1].
    + destruct (Qlt_le_dec h b) as [B2|B2].
      * rewrite (epan_cdf_right h b) by lra. lra.
      * apply Range; assumption.
    + rewrite (epan_cdf_left h b) by lra. lra.
Qed.

Theorem epan_cdf_range (h x : Q) : 0 < h -> 0 <= epan_cdf h x /\ epan_cdf h x <= 1.
Proof.
  intro Hh. split.
  - destruct (Qlt_le_dec x (- h)) as [A|A].
    + rewrite epan_cdf_left by lra. lra.
    + rewrite <- (epan_cdf_left h (- h)) at 1 by lra. apply epan_cdf_mono; assumption.
  - destruct (Qlt_le_dec x h) as [A|A].
    + rewrite <- (epan_cdf_right h h) by lra. apply epan_cdf_mono; lra.
    + rewrite epan_cdf_right by lra. lra.
Qed.

(* total mass of the kernel: K(h) - K(-h) = 1 *)
Theorem epan_mass_one (h : Q) : 0 < h -> epan_cdf h h - epan_cdf h (- h) == 1.
Proof.
  intro Hh. rewrite (epan_cdf_left h (- h)) by lra. rewrite epan_cdf_right by lra. ring.
Qed.

(* symmetry K(-x) = 1 - K(x) *)
Lemma epan_cdf_sym (h x : Q) : 0 < h -> epan_cdf h (- x) == 1 - epan_cdf h x.
Proof.
  intro Hh.
  destruct (Qlt_le_dec x (- h)) as [A|A].
  - rewrite (epan_cdf_left h x), (epan_cdf_right h (- x)) by lra. ring.
  - destruct (Qlt_le_dec h x) as [B|B].
    + rewrite (epan_cdf_left h (- x)), (epan_cdf_right h x) by lra. ring.
    + destruct (Qeq_dec x (- h)) as [E|NE].
      * rewrite (epan_cdf_comp h x (- h) E), (epan_cdf_comp h (- x) h) by lra.
        rewrite (epan_cdf_left h (- h)), epan_cdf_right by lra. ring.
      * destruct (Qeq_dec x h) as [E2|NE2].
        -- rewrite (epan_cdf_comp h x h E2), (epan_cdf_comp h (- x) (- h)) by lra.
           rewrite (epan_cdf_left h (- h)), epan_cdf_right by lra. ring.
        -- assert (- h < x) by (destruct (Qlt_le_dec (- h) x); auto; exfalso; apply NE; lra).
           assert (x < h) by (destruct (Qlt_le_dec x h); auto; exfalso; apply NE2; lra).
           rewrite !epan_cdf_mid by lra. field. lra.
Qed.

(* ====================================================================== *)
(* 2. the closure y = mix g: the weighted average of the kernel             *)
(* ====================================================================== *)
Lemma fold_Qred_sum {A} (t : A -> Q) (l : list A) (a : Q) :
  fold_left (fun acc p => Qred (acc + t p)) l a == a + Qsum (map t l).
Proof.
  revert a. induction l as [|p l IH]; intro a; cbn [fold_left map Qsum]; [ring|].
  rewrite IH, Qred_correct. ring.
Qed.

Lemma Qsum_ext {A} (s t : A -> Q) (l : list A) :
  (forall p, In p l -> s p == t p) -> Qsum (map s l) == Qsum (map t l).
Proof.
  induction l as [|p l IH]; intro H; cbn [map Qsum]; [reflexivity|].
  rewrite (H p (or_introl eq_refl)), IH; [reflexivity|]. intros q Hq. apply H. now right.
Qed.

Lemma Qsum_nonneg {A} (t : A -> Q) (l : list A) :
  (forall p, In p l -> 0 <= t p) -> 0 <= Qsum (map t l).
Proof.
  induction l as [|p l IH]; intro H; cbn [map Qsum]; [lra|].
  pose proof (H p (or_introl eq_refl)). assert (0 <= Qsum (map t l)); [|lra].
  apply IH. intros q Hq. apply H. now right.
Qed.

Lemma Qsum_le {A} (s t : A -> Q) (l : list A) :
  (forall p, In p l -> s p <= t p) -> Qsum (map s l) <= Qsum (map t l).
Proof.
  induction l as [|p l IH]; intro H; cbn [map Qsum]; [lra|].
  pose proof (H p (or_introl eq_refl)). assert (Qsum (map s l) <= Qsum (map t l)); [|lra].
  apply IH. intros q Hq. apply H. now right.
Qed.

(* a sum of non-negative terms is zero only if every term is *)
Lemma Qsum_zero_inv {A} (t : A -> Q) (l : list A) :
  (forall p, In p l -> 0 <= t p) -> Qsum (map t l) == 0 -> forall p, In p l -> t p == 0.
Proof.
  induction l as [|p l IH]; intros H E q Hq; [destruct Hq|].
  cbn [map Qsum] in E.
  pose proof (H p (or_introl eq_refl)) as P0.
  assert (R0 : 0 <= Qsum (map t l)) by (apply Qsum_nonneg; intros r Hr; apply H; now right).
  destruct Hq as [<-|Hq]; [lra|].
  apply IH; auto; [intros r Hr; apply H; now right | lra].
Qed.

(* well-formed weights: as many as values *)
Definition ws_wf (xs : list Q) (ws : option (list Q)) : Prop :=
  match ws with None => True | Some w => length w = length xs end.
(* ... and all positive *)
Definition ws_pos (ws : option (list Q)) : Prop :=
  match ws with None => True | Some w => Forall (fun wi => 0 < wi) w end.

Lemma map_snd_combine (xs ws : list Q) : length ws = length xs -> map snd (combine xs ws) = ws.
Proof.
  revert ws. induction xs as [|x xs IH]; intros [|w ws] H; cbn in *; try discriminate; auto.
  f_equal. apply IH. lia.
Qed.

Lemma Qofnat_S (n : nat) : Qofnat (S n) == Qofnat n + 1.
Proof. unfold Qofnat. rewrite Nat2Z.inj_succ, <- Z.add_1_r, inject_Z_plus. reflexivity. Qed.
Lemma Qofnat_nonneg (n : nat) : 0 <= Qofnat n.
Proof. unfold Qofnat. change 0 with (inject_Z 0). rewrite <- Zle_Qle. lia. Qed.

Lemma mix_sum_spec (g : Q -> Q) xs ws x : ws_wf xs ws ->
  mix_sum g xs ws x == Qsum (map (fun p => snd p * g (x - fst p)) (kpairs xs ws)).
Proof.
  intro W. unfold mix_sum, kpairs. destruct ws as [w|].
  - rewrite (fold_Qred_sum (fun p => g (x - fst p) * snd p)). rewrite Qplus_0_l.
    apply Qsum_ext. intros p _. ring.
  - rewrite (fold_Qred_sum (fun xi => g (x - xi))). rewrite Qplus_0_l, map_map. cbn [fst snd].
    apply Qsum_ext. intros p _. ring.
Qed.

Lemma mix_weight_spec xs ws : ws_wf xs ws -> mix_weight xs ws == wtotal (kpairs xs ws).
Proof.
  intro W. unfold mix_weight, kpairs, wtotal. destruct ws as [w|].
  - cbn in W. rewrite map_snd_combine by exact W.
    rewrite (fold_Qred_sum (fun wi => wi)), map_id. ring.
  - clear W. rewrite map_map. cbn [snd]. induction xs as [|x xs IH]; [reflexivity|].
    cbn [length map Qsum]. rewrite Qofnat_S, IH. ring.
Qed.

(* THE CLOSURE y OF KDE.PDF / KDE.CDF IS THE WEIGHTED AVERAGE OF THE KERNEL *)
Theorem mix_is_wavg (g : Q -> Q) xs ws x : ws_wf xs ws ->
  mix g xs ws x == wavg g (kpairs xs ws) x.
Proof.
  intro W. unfold mix, wavg. rewrite Qred_correct.
  rewrite (mix_sum_spec g xs ws x W), (mix_weight_spec xs ws W). reflexivity.
Qed.

Lemma kpairs_ok xs ws : xs <> [] -> ws_wf xs ws -> ws_pos ws -> pairs_ok (kpairs xs ws).
Proof.
  intros Hne W P. unfold kpairs. destruct ws as [w|]; split.
  - destruct xs as [|x xs]; [congruence|]. destruct w as [|w0 w]; [discriminate|]. discriminate.
  - cbn in W, P. clear Hne. revert w W P. induction xs as [|x xs IH]; intros [|w0 w] W P; cbn; auto.
    inversion P; subst. constructor; [assumption|]. apply IH; [cbn in W; lia | assumption].
  - destruct xs; [congruence | discriminate].
  - apply Forall_forall. intros p Hp. apply in_map_iff in Hp. destruct Hp as [x0 [<- _]]. cbn. lra.
Qed.

Lemma kpairs_fst xs ws : ws_wf xs ws -> map fst (kpairs xs ws) = xs.
Proof.
  unfold kpairs. destruct ws as [w|]; cbn.
  - revert w. induction xs as [|x xs IH]; intros [|w0 w] W; cbn in *; try discriminate; auto.
    f_equal. apply IH. lia.
  - intros _. rewrite map_map. cbn. apply map_id.
Qed.

Lemma wtotal_pos ps : pairs_ok ps -> 0 < wtotal ps.
Proof.
  intros [Hne Hp]. unfold wtotal. destruct ps as [|p ps]; [congruence|].
  inversion Hp as [|? ? P0 Pr]; subst. cbn [map Qsum].
  assert (0 <= Qsum (map snd ps)); [|lra].
  apply Qsum_nonneg. intros q Hq. rewrite Forall_forall in Pr. specialize (Pr q Hq). lra.
Qed.

Section Wavg.
  Variable ps : list (Q * Q).
  Hypothesis ps_ok : pairs_ok ps.

  Let Wpos : 0 < wtotal ps := wtotal_pos ps ps_ok.
  Let wnn : forall p, In p ps -> 0 < snd p.
  Proof. pose proof ps_ok as [_ F]. rewrite Forall_forall in F. exact F. Qed.

  Lemma wavg_nonneg (g : Q -> Q) x : (forall t, 0 <= g t) -> 0 <= wavg g ps x.
  Proof.
    intro G. unfold wavg. apply Qle_shift_div_l; [exact Wpos|]. rewrite Qmult_0_l.
    apply Qsum_nonneg. intros p Hp. pose proof (wnn p Hp). specialize (G (x - fst p)). nra.
  Qed.

  Lemma wavg_le (g g' : Q -> Q) x x' :
    (forall p, In p ps -> g (x - fst p) <= g' (x' - fst p)) -> wavg g ps x <= wavg g' ps x'.
  Proof.
    intro G. unfold wavg. apply Qle_shift_div_l; [exact Wpos|].
    setoid_replace (Qsum (map (fun p => snd p * g (x - fst p)) ps) / wtotal ps * wtotal ps)
      with (Qsum (map (fun p => snd p * g (x - fst p)) ps)) by (field; lra).
    apply Qsum_le. intros p Hp. pose proof (wnn p Hp). specialize (G p Hp). nra.
  Qed.

  (* a monotone kernel distribution function gives a monotone estimate *)
  Lemma wavg_mono (g : Q -> Q) a b :
    (forall s t, s <= t -> g s <= g t) -> a <= b -> wavg g ps a <= wavg g ps b.
  Proof. intros G Hab. apply wavg_le. intros p _. apply G. lra. Qed.

  Lemma wavg_const (g : Q -> Q) x c :
    (forall p, In p ps -> g (x - fst p) == c) -> wavg g ps x == c.
  Proof.
    intro G. unfold wavg.
    assert (E : Qsum (map (fun p => snd p * g (x - fst p)) ps) == c * wtotal ps).
    { unfold wtotal. clear Wpos wnn ps_ok. induction ps as [|p l IH]; cbn [map Qsum]; [ring|].
      rewrite (G p (or_introl eq_refl)), IH; [ring|]. intros q Hq. apply G. now right. }
    rewrite E. field. lra.
  Qed.

  Lemma wavg_zero_iff (g : Q -> Q) x : (forall t, 0 <= g t) ->
    (wavg g ps x == 0 <-> forall p, In p ps -> g (x - fst p) == 0).
  Proof.
    intro G. split.
    - intros E p Hp. unfold wavg in E.
      assert (S0 : Qsum (map (fun p => snd p * g (x - fst p)) ps) == 0).
      { setoid_replace (Qsum (map (fun p => snd p * g (x - fst p)) ps))
          with (Qsum (map (fun p => snd p * g (x - fst p)) ps) / wtotal ps * wtotal ps) by (field; lra).
        rewrite E. ring. }
      pose proof (Qsum_zero_inv (fun p => snd p * g (x - fst p)) ps) as Z.
      assert (T : snd p * g (x - fst p) == 0).
      { apply Z; auto. intros q Hq. pose proof (wnn q Hq). specialize (G (x - fst q)). nra. }
      pose proof (wnn p Hp). specialize (G (x - fst p)).
      assert (~ snd p == 0) by lra.
      apply Qmult_integral in T. destruct T; [contradiction | assumption].
    - intro Z. apply wavg_const. exact Z.
  Qed.

  Lemma wavg_comp (g : Q -> Q) x y :
    (forall s t, s == t -> g s == g t) -> x == y -> wavg g ps x == wavg g ps y.
  Proof.
    intros G E. unfold wavg. apply Qdiv_comp; [|reflexivity].
    apply Qsum_ext. intros p _. rewrite (G (x - fst p) (y - fst p)); [reflexivity|]. now rewrite E.
  Qed.

  (* every value within [lo, hi]: a kernel that is 0 left of -r makes the estimate 0 left of
     lo - r; a kernel distribution function that is 1 from r on makes it 1 from hi + r on *)
  Lemma wavg_zero_left (g : Q -> Q) (r lo hi x : Q) :
    pairs_within lo hi ps -> (forall t, t <= - r -> g t == 0) -> x <= lo - r -> wavg g ps x == 0.
  Proof.
    intros Hin G Hx. apply wavg_const. intros p Hp. apply G.
    unfold pairs_within in Hin. rewrite Forall_forall in Hin. specialize (Hin p Hp). lra.
  Qed.
  Lemma wavg_zero_right (g : Q -> Q) (r lo hi x : Q) :
    pairs_within lo hi ps -> (forall t, r <= t -> g t == 0) -> hi + r <= x -> wavg g ps x == 0.
  Proof.
    intros Hin G Hx. apply wavg_const. intros p Hp. apply G.
    unfold pairs_within in Hin. rewrite Forall_forall in Hin. specialize (Hin p Hp). lra.
  Qed.
  Lemma wavg_one_right (g : Q -> Q) (r lo hi x : Q) :
    pairs_within lo hi ps -> (forall t, r <= t -> g t == 1) -> hi + r <= x -> wavg g ps x == 1.
  Proof.
    intros Hin G Hx. apply wavg_const. intros p Hp. apply G.
    unfold pairs_within in Hin. rewrite Forall_forall in Hin. specialize (Hin p Hp). lra.
  Qed.
End Wavg.

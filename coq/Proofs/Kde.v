(* Proofs/Kde.v — lemmas about Model/Kde.v (exact KDE model over Q) against Spec/Kde.v.
   Everything in this file is over Q / Z / lists and closed under the global context.
   The analytic statements (derivative pair, integrals) live over the reals in Proofs/KdeR.v
   (about RealSpec/KdeR.v) and are tied to the rational spec in Proofs/KdeQR.v. *)
From MM Require Import Base.Num Base.GASort Model.Sample Model.Quantile Model.Kde Spec.Kde.
From Coq Require Import Qround Lqa Lra Psatz.
Local Open Scope Q_scope.

(* ====================================================================== *)
(* 0. boolean tests                                                         *)
(* ====================================================================== *)
Lemma Qltb_true (a b : Q) : Qltb a b = true <-> a < b.
Proof.
  unfold Qltb. rewrite negb_true_iff. split; intro H.
  - apply Qnot_le_lt. intro L. apply Qle_bool_iff in L. congruence.
  - destruct (Qle_bool b a) eqn:E; auto. apply Qle_bool_iff in E. exfalso. apply (Qlt_not_le _ _ H E).
Qed.
Lemma Qltb_false (a b : Q) : Qltb a b = false <-> b <= a.
Proof.
  unfold Qltb. rewrite negb_false_iff. apply Qle_bool_iff.
Qed.
Lemma Qle_bool_false (a b : Q) : Qle_bool a b = false <-> b < a.
Proof.
  split; intro H.
  - apply Qnot_le_lt. intro L. apply Qle_bool_iff in L. congruence.
  - destruct (Qle_bool a b) eqn:E; auto. apply Qle_bool_iff in E. exfalso. apply (Qlt_not_le _ _ H E).
Qed.
Lemma Qeq_bool_false (a b : Q) : Qeq_bool a b = false <-> ~ a == b.
Proof.
  split; intro H.
  - intro E. apply Qeq_bool_iff in E. congruence.
  - destruct (Qeq_bool a b) eqn:E; auto. apply Qeq_bool_iff in E. contradiction.
Qed.
Lemma Qltb_comp (a b c d : Q) : a == c -> b == d -> Qltb a b = Qltb c d.
Proof. intros H1 H2. unfold Qltb. now rewrite H1, H2. Qed.

Ltac qb :=
  repeat match goal with
  | H : Qltb _ _ = true |- _ => apply Qltb_true in H
  | H : Qltb _ _ = false |- _ => apply Qltb_false in H
  | H : Qle_bool _ _ = true |- _ => apply Qle_bool_iff in H
  | H : Qle_bool _ _ = false |- _ => apply Qle_bool_false in H
  | H : Qeq_bool _ _ = true |- _ => apply Qeq_bool_iff in H
  | H : Qeq_bool _ _ = false |- _ => apply Qeq_bool_false in H
  | H : (_ && _)%bool = true |- _ => apply andb_true_iff in H; destruct H
  | H : (_ || _)%bool = false |- _ => apply orb_false_iff in H; destruct H
  end.

(* ====================================================================== *)
(* 1. Epanechnikov kernel                                                   *)
(* ====================================================================== *)
Lemma epan_pdf_nonneg (h x : Q) : 0 < h -> 0 <= epan_pdf h x.
Proof.
  intro Hh. unfold epan_pdf.
  destruct (Qltb (- h) x && Qltb x h) eqn:E; [| apply Qle_refl].
  apply andb_true_iff in E. destruct E as [E1 E2]. apply Qltb_true in E1. apply Qltb_true in E2.
  assert (Hx : x * x <= h * h) by nra.
  assert (Hhh : 0 < h * h) by nra.
  apply Qmult_le_0_compat.
  - apply Qle_shift_div_l; auto. lra.
  - assert (x * x * (1 / (h * h)) <= 1); [| lra].
    setoid_replace (x * x * (1 / (h * h))) with (x * x / (h * h)) by (field; lra).
    apply Qle_shift_div_r; auto. lra.
Qed.

(* the density vanishes outside the OPEN interval (-h, h) — literally 0 *)
Lemma epan_pdf_outside (h x : Q) : x <= - h \/ h <= x -> epan_pdf h x = 0.
Proof.
  intros [H|H]; unfold epan_pdf.
  - apply Qltb_false in H. now rewrite H.
  - apply Qltb_false in H. rewrite H. now rewrite andb_false_r.
Qed.

(* inside the support it is the parabola (3/(4h)) (1 - x^2/h^2), and strictly positive *)
Lemma epan_pdf_inside (h x : Q) : 0 < h -> - h < x -> x < h ->
  epan_pdf h x == (3 # 4) / h * (1 - x * x / (h * h)) /\ 0 < epan_pdf h x.
Proof.
  intros Hh H1 H2. unfold epan_pdf.
  apply Qltb_true in H1 as B1. apply Qltb_true in H2 as B2. rewrite B1, B2. cbn [andb].
  assert (Hhh : 0 < h * h) by nra.
  split; [field; lra|].
  apply Qmult_lt_0_compat.
  - apply Qlt_shift_div_l; auto. lra.
  - assert (x * x * (1 / (h * h)) < 1); [| lra].
    setoid_replace (x * x * (1 / (h * h))) with (x * x / (h * h)) by (field; lra).
    apply Qlt_shift_div_r; auto. nra.
Qed.

Lemma epan_pdf_zero_iff (h x : Q) : 0 < h -> (epan_pdf h x == 0 <-> x <= - h \/ h <= x).
Proof.
  intro Hh. split.
  - intro E. destruct (Qlt_le_dec (- h) x) as [A|A]; [|now left].
    destruct (Qlt_le_dec x h) as [B|B]; [|now right].
    destruct (epan_pdf_inside h x Hh A B) as [_ P]. rewrite E in P. lra.
  - intro H. now rewrite (epan_pdf_outside h x H).
Qed.

Lemma epan_pdf_comp (h x y : Q) : x == y -> epan_pdf h x == epan_pdf h y.
Proof.
  intro E. unfold epan_pdf.
  rewrite (Qltb_comp (- h) x (- h) y), (Qltb_comp x h y h) by (auto; reflexivity).
  destruct (Qltb (- h) y && Qltb y h); [now rewrite E | reflexivity].
Qed.

(* the kernel is even *)
Lemma epan_pdf_even (h x : Q) : epan_pdf h (- x) == epan_pdf h x.
Proof.
  unfold epan_pdf.
  assert (A : Qltb (- h) (- x) = Qltb x h).
  { destruct (Qltb x h) eqn:E; qb; [apply Qltb_true | apply Qltb_false]; lra. }
  assert (B : Qltb (- x) h = Qltb (- h) x).
  { destruct (Qltb (- h) x) eqn:E; qb; [apply Qltb_true | apply Qltb_false]; lra. }
  rewrite A, B, andb_comm.
  destruct (Qltb (- h) x && Qltb x h); [ring | reflexivity].
Qed.

(* distribution function: literally 0 left of the support *)
Lemma epan_cdf_left (h x : Q) : 0 <= h -> x <= - h -> epan_cdf h x = 0.
Proof.
  intros Hh H. unfold epan_cdf.
  assert (A : Qltb h x = false) by (apply Qltb_false; lra).
  assert (B : Qltb (- h) x = false) by (apply Qltb_false; lra).
  now rewrite A, B.
Qed.

Lemma epan_cdf_mid (h x : Q) : - h < x -> x <= h ->
  epan_cdf h x == (1 # 4) * (2 + 3 * (x / h) - (x / h) * (x / h) * (x / h)).
Proof.
  intros H1 H2. unfold epan_cdf.
  assert (A : Qltb h x = false) by (apply Qltb_false; lra).
  assert (B : Qltb (- h) x = true) by (apply Qltb_true; lra).
  rewrite A, B. cbv zeta. assert (h == 0 \/ ~ h == 0) as [Z|NZ].
  { destruct (Qeq_dec h 0); auto. }
  - exfalso. lra.
  - field. exact NZ.
Qed.

(* and 1 from the right end of the support on (at x = h by the polynomial) *)
Lemma epan_cdf_right (h x : Q) : 0 < h -> h <= x -> epan_cdf h x == 1.
Proof.
  intros Hh H. destruct (Qlt_le_dec h x) as [A|A].
  - unfold epan_cdf. apply Qltb_true in A. now rewrite A.
  - assert (E : x == h) by lra.
    rewrite epan_cdf_mid by lra. rewrite E. field. lra.
Qed.

Lemma epan_cdf_comp (h x y : Q) : x == y -> epan_cdf h x == epan_cdf h y.
Proof.
  intro E. unfold epan_cdf.
  rewrite (Qltb_comp h x h y), (Qltb_comp (- h) x (- h) y) by (auto; reflexivity).
  destruct (Qltb h y); [reflexivity|]. destruct (Qltb (- h) y); [|reflexivity].
  cbv zeta. now rewrite E.
Qed.

(* the polynomial piece is non-decreasing on [-1, 1]:
   P(v) - P(u) = (v - u) (3 - (u^2 + u v + v^2)) / 4 *)
Lemma epan_poly_mono (u v : Q) : -1 <= u -> u <= v -> v <= 1 ->
  (1 # 4) * (2 + 3 * u - u * u * u) <= (1 # 4) * (2 + 3 * v - v * v * v).
Proof.
  intros A B C.
  assert (E : (1 # 4) * (2 + 3 * v - v * v * v) - (1 # 4) * (2 + 3 * u - u * u * u)
              == (1 # 4) * ((v - u) * (3 - (u * u + u * v + v * v)))) by ring.
  assert (0 <= (v - u) * (3 - (u * u + u * v + v * v))); [| lra].
  apply Qmult_le_0_compat; [lra|]. nra.
Qed.

Theorem epan_cdf_mono (h a b : Q) : 0 < h -> a <= b -> epan_cdf h a <= epan_cdf h b.
Proof.
  intros Hh Hab.
  assert (Pos : forall x, - h < x -> x <= h ->
            -1 < x / h /\ x / h <= 1).
  { intros x X1 X2. split.
    - apply Qlt_shift_div_l; lra.
    - apply Qle_shift_div_r; lra. }
  assert (Range : forall x, - h < x -> x <= h -> 0 <= epan_cdf h x /\ epan_cdf h x <= 1).
  { intros x X1 X2. destruct (Pos x X1 X2) as [U1 U2]. rewrite epan_cdf_mid by assumption.
    split.
    - pose proof (epan_poly_mono (-1) (x / h)). lra.
    - pose proof (epan_poly_mono (x / h) 1). lra. }
  destruct (Qlt_le_dec (- h) a) as [A1|A1].
  - destruct (Qlt_le_dec h a) as [A2|A2].
    + rewrite (epan_cdf_right h a), (epan_cdf_right h b) by lra. lra.
    + destruct (Qlt_le_dec h b) as [B2|B2].
      * rewrite (epan_cdf_right h b) by lra. apply Range; assumption.
      * rewrite !epan_cdf_mid by lra.
        destruct (Pos a) as [U1 U2]; try lra. destruct (Pos b) as [V1 V2]; try lra.
        apply epan_poly_mono; try lra.
        apply Qle_shift_div_l; [lra|].
        setoid_replace (a / h * h) with a by (field; lra). exact Hab.
  - rewrite (epan_cdf_left h a) by lra.
    destruct (Qlt_le_dec (- h) b) as [B1|B1].
    + destruct (Qlt_le_dec h b) as [B2|B2].
      * rewrite (epan_cdf_right h b) by lra. lra.
      * apply Range; assumption.
    + rewrite (epan_cdf_left h b) by lra. lra.
Qed.

Theorem epan_cdf_range (h x : Q) : 0 < h -> 0 <= epan_cdf h x /\ epan_cdf h x <= 1.
Proof.
  intro Hh. split.
  - destruct (Qlt_le_dec x (- h)) as [A|A].
    + rewrite epan_cdf_left by lra. lra.
    + rewrite <- (epan_cdf_left h (- h)) at 1 by lra. apply epan_cdf_mono; assumption.
  - destruct (Qlt_le_dec x h) as [A|A].
    + rewrite <- (epan_cdf_right h h) by lra. apply epan_cdf_mono; lra.
    + rewrite epan_cdf_right by lra. lra.
Qed.

(* total mass of the kernel: K(h) - K(-h) = 1 *)
Theorem epan_mass_one (h : Q) : 0 < h -> epan_cdf h h - epan_cdf h (- h) == 1.
Proof.
  intro Hh. rewrite (epan_cdf_left h (- h)) by lra. rewrite epan_cdf_right by lra. ring.
Qed.

(* symmetry K(-x) = 1 - K(x) *)
Lemma epan_cdf_sym (h x : Q) : 0 < h -> epan_cdf h (- x) == 1 - epan_cdf h x.
Proof.
  intro Hh.
  destruct (Qlt_le_dec x (- h)) as [A|A].
  - rewrite (epan_cdf_left h x), (epan_cdf_right h (- x)) by lra. ring.
  - destruct (Qlt_le_dec h x) as [B|B].
    + rewrite (epan_cdf_left h (- x)), (epan_cdf_right h x) by lra. ring.
    + destruct (Qeq_dec x (- h)) as [E|NE].
      * rewrite (epan_cdf_comp h x (- h) E), (epan_cdf_comp h (- x) h) by lra.
        rewrite (epan_cdf_left h (- h)), epan_cdf_right by lra. ring.
      * destruct (Qeq_dec x h) as [E2|NE2].
        -- rewrite (epan_cdf_comp h x h E2), (epan_cdf_comp h (- x) (- h)) by lra.
           rewrite (epan_cdf_left h (- h)), epan_cdf_right by lra. ring.
        -- assert (- h < x) by (destruct (Qlt_le_dec (- h) x); auto; exfalso; apply NE; lra).
           assert (x < h) by (destruct (Qlt_le_dec x h); auto; exfalso; apply NE2; lra).
           rewrite !epan_cdf_mid by lra. field. lra.
Qed.

(* ====================================================================== *)
(* 2. the closure y = mix g: the weighted average of the kernel             *)
(* ====================================================================== *)
Lemma fold_Qred_sum {A} (t : A -> Q) (l : list A) (a : Q) :
  fold_left (fun acc p => Qred (acc + t p)) l a == a + Qsum (map t l).
Proof.
  revert a. induction l as [|p l IH]; intro a; cbn [fold_left map Qsum]; [ring|].
  rewrite IH, Qred_correct. ring.
Qed.

Lemma Qsum_ext {A} (s t : A -> Q) (l : list A) :
  (forall p, In p l -> s p == t p) -> Qsum (map s l) == Qsum (map t l).
Proof.
  induction l as [|p l IH]; intro H; cbn [map Qsum]; [reflexivity|].
  rewrite (H p (or_introl eq_refl)), IH; [reflexivity|]. intros q Hq. apply H. now right.
Qed.

Lemma Qsum_nonneg {A} (t : A -> Q) (l : list A) :
  (forall p, In p l -> 0 <= t p) -> 0 <= Qsum (map t l).
Proof.
  induction l as [|p l IH]; intro H; cbn [map Qsum]; [lra|].
  pose proof (H p (or_introl eq_refl)). assert (0 <= Qsum (map t l)); [|lra].
  apply IH. intros q Hq. apply H. now right.
Qed.

Lemma Qsum_le {A} (s t : A -> Q) (l : list A) :
  (forall p, In p l -> s p <= t p) -> Qsum (map s l) <= Qsum (map t l).
Proof.
  induction l as [|p l IH]; intro H; cbn [map Qsum]; [lra|].
  pose proof (H p (or_introl eq_refl)). assert (Qsum (map s l) <= Qsum (map t l)); [|lra].
  apply IH. intros q Hq. apply H. now right.
Qed.

(* a sum of non-negative terms is zero only if every term is *)
Lemma Qsum_zero_inv {A} (t : A -> Q) (l : list A) :
  (forall p, In p l -> 0 <= t p) -> Qsum (map t l) == 0 -> forall p, In p l -> t p == 0.
Proof.
  induction l as [|p l IH]; intros H E q Hq; [destruct Hq|].
  cbn [map Qsum] in E.
  pose proof (H p (or_introl eq_refl)) as P0.
  assert (R0 : 0 <= Qsum (map t l)) by (apply Qsum_nonneg; intros r Hr; apply H; now right).
  destruct Hq as [<-|Hq]; [lra|].
  apply IH; auto; [intros r Hr; apply H; now right | lra].
Qed.

(* well-formed weights: as many as values *)
Definition ws_wf (xs : list Q) (ws : option (list Q)) : Prop :=
  match ws with None => True | Some w => length w = length xs end.
(* ... and all positive *)
Definition ws_pos (ws : option (list Q)) : Prop :=
  match ws with None => True | Some w => Forall (fun wi => 0 < wi) w end.

Lemma map_snd_combine (xs ws : list Q) : length ws = length xs -> map snd (combine xs ws) = ws.
Proof.
  revert ws. induction xs as [|x xs IH]; intros [|w ws] H; cbn in *; try discriminate; auto.
  f_equal. apply IH. lia.
Qed.

Lemma Qofnat_S (n : nat) : Qofnat (S n) == Qofnat n + 1.
Proof. unfold Qofnat. rewrite Nat2Z.inj_succ, <- Z.add_1_r, inject_Z_plus. reflexivity. Qed.
Lemma Qofnat_nonneg (n : nat) : 0 <= Qofnat n.
Proof. unfold Qofnat. change 0 with (inject_Z 0). rewrite <- Zle_Qle. lia. Qed.

Lemma mix_sum_spec (g : Q -> Q) xs ws x : ws_wf xs ws ->
  mix_sum g xs ws x == Qsum (map (fun p => snd p * g (x - fst p)) (kpairs xs ws)).
Proof.
  intro W. unfold mix_sum, kpairs. destruct ws as [w|].
  - rewrite (fold_Qred_sum (fun p => g (x - fst p) * snd p)). rewrite Qplus_0_l.
    apply Qsum_ext. intros p _. ring.
  - rewrite (fold_Qred_sum (fun xi => g (x - xi))). rewrite Qplus_0_l, map_map. cbn [fst snd].
    apply Qsum_ext. intros p _. ring.
Qed.

Lemma mix_weight_spec xs ws : ws_wf xs ws -> mix_weight xs ws == wtotal (kpairs xs ws).
Proof.
  intro W. unfold mix_weight, kpairs, wtotal. destruct ws as [w|].
  - cbn in W. rewrite map_snd_combine by exact W.
    rewrite (fold_Qred_sum (fun wi => wi)), map_id. ring.
  - clear W. rewrite map_map. cbn [snd]. induction xs as [|x xs IH]; [reflexivity|].
    cbn [length map Qsum]. rewrite Qofnat_S, IH. ring.
Qed.

(* THE CLOSURE y OF KDE.PDF / KDE.CDF IS THE WEIGHTED AVERAGE OF THE KERNEL *)
Theorem mix_is_wavg (g : Q -> Q) xs ws x : ws_wf xs ws ->
  mix g xs ws x == wavg g (kpairs xs ws) x.
Proof.
  intro W. unfold mix, wavg. rewrite Qred_correct.
  rewrite (mix_sum_spec g xs ws x W), (mix_weight_spec xs ws W). reflexivity.
Qed.

Lemma kpairs_ok xs ws : xs <> [] -> ws_wf xs ws -> ws_pos ws -> pairs_ok (kpairs xs ws).
Proof.
  intros Hne W P. unfold kpairs. destruct ws as [w|]; split.
  - destruct xs as [|x xs]; [congruence|]. destruct w as [|w0 w]; [discriminate|]. discriminate.
  - cbn in W, P. clear Hne. revert w W P. induction xs as [|x xs IH]; intros [|w0 w] W P; cbn; auto.
    inversion P; subst. constructor; [assumption|]. apply IH; [cbn in W; lia | assumption].
  - destruct xs; [congruence | discriminate].
  - apply Forall_forall. intros p Hp. apply in_map_iff in Hp. destruct Hp as [x0 [<- _]]. cbn. lra.
Qed.

Lemma kpairs_fst xs ws : ws_wf xs ws -> map fst (kpairs xs ws) = xs.
Proof.
  unfold kpairs. destruct ws as [w|]; cbn.
  - revert w. induction xs as [|x xs IH]; intros [|w0 w] W; cbn in *; try discriminate; auto.
    f_equal. apply IH. lia.
  - intros _. rewrite map_map. cbn. apply map_id.
Qed.

Lemma wtotal_pos ps : pairs_ok ps -> 0 < wtotal ps.
Proof.
  intros [Hne Hp]. unfold wtotal. destruct ps as [|p ps]; [congruence|].
  inversion Hp as [|? ? P0 Pr]; subst. cbn [map Qsum].
  assert (0 <= Qsum (map snd ps)); [|lra].
  apply Qsum_nonneg. intros q Hq. rewrite Forall_forall in Pr. specialize (Pr q Hq). lra.
Qed.

Section Wavg.
  Variable ps : list (Q * Q).
  Hypothesis ps_ok : pairs_ok ps.

  Let Wpos : 0 < wtotal ps := wtotal_pos ps ps_ok.
  Let wnn : forall p, In p ps -> 0 < snd p.
  Proof. pose proof ps_ok as [_ F]. rewrite Forall_forall in F. exact F. Qed.

  Lemma wavg_nonneg (g : Q -> Q) x : (forall t, 0 <= g t) -> 0 <= wavg g ps x.
  Proof.
    intro G. unfold wavg. apply Qle_shift_div_l; [exact Wpos|]. rewrite Qmult_0_l.
    apply Qsum_nonneg. intros p Hp. pose proof (wnn p Hp). specialize (G (x - fst p)). nra.
  Qed.

  Lemma wavg_le (g g' : Q -> Q) x x' :
    (forall p, In p ps -> g (x - fst p) <= g' (x' - fst p)) -> wavg g ps x <= wavg g' ps x'.
  Proof.
    intro G. unfold wavg. apply Qle_shift_div_l; [exact Wpos|].
    setoid_replace (Qsum (map (fun p => snd p * g (x - fst p)) ps) / wtotal ps * wtotal ps)
      with (Qsum (map (fun p => snd p * g (x - fst p)) ps)) by (field; lra).
    apply Qsum_le. intros p Hp. pose proof (wnn p Hp). specialize (G p Hp). nra.
  Qed.

  (* a monotone kernel distribution function gives a monotone estimate *)
  Lemma wavg_mono (g : Q -> Q) a b :
    (forall s t, s <= t -> g s <= g t) -> a <= b -> wavg g ps a <= wavg g ps b.
  Proof. intros G Hab. apply wavg_le. intros p _. apply G. lra. Qed.

  Lemma wavg_const (g : Q -> Q) x c :
    (forall p, In p ps -> g (x - fst p) == c) -> wavg g ps x == c.
  Proof.
    intro G. unfold wavg.
    assert (E : Qsum (map (fun p => snd p * g (x - fst p)) ps) == c * wtotal ps).
    { unfold wtotal. clear Wpos wnn ps_ok. induction ps as [|p l IH]; cbn [map Qsum]; [ring|].
      rewrite (G p (or_introl eq_refl)), IH; [ring|]. intros q Hq. apply G. now right. }
    rewrite E. field. lra.
  Qed.

  Lemma wavg_zero_iff (g : Q -> Q) x : (forall t, 0 <= g t) ->
    (wavg g ps x == 0 <-> forall p, In p ps -> g (x - fst p) == 0).
  Proof.
    intro G. split.
    - intros E p Hp. unfold wavg in E.
      assert (S0 : Qsum (map (fun p => snd p * g (x - fst p)) ps) == 0).
      { setoid_replace (Qsum (map (fun p => snd p * g (x - fst p)) ps))
          with (Qsum (map (fun p => snd p * g (x - fst p)) ps) / wtotal ps * wtotal ps) by (field; lra).
        rewrite E. ring. }
      pose proof (Qsum_zero_inv (fun p => snd p * g (x - fst p)) ps) as Z.
      assert (T : snd p * g (x - fst p) == 0).
      { apply Z; auto. intros q Hq. pose proof (wnn q Hq). specialize (G (x - fst q)). nra. }
      pose proof (wnn p Hp). specialize (G (x - fst p)).
      assert (~ snd p == 0) by lra.
      apply Qmult_integral in T. destruct T; [contradiction | assumption].
    - intro Z. apply wavg_const. exact Z.
  Qed.

  Lemma wavg_comp (g : Q -> Q) x y :
    (forall s t, s == t -> g s == g t) -> x == y -> wavg g ps x == wavg g ps y.
  Proof.
    intros G E. unfold wavg. apply Qdiv_comp; [|reflexivity].
    apply Qsum_ext. intros p _. rewrite (G (x - fst p) (y - fst p)); [reflexivity|]. now rewrite E.
  Qed.

  (* every value within [lo, hi]: a kernel that is 0 left of -r makes the estimate 0 left of
     lo - r; a kernel distribution function that is 1 from r on makes it 1 from hi + r on *)
  Lemma wavg_zero_left (g : Q -> Q) (r lo hi x : Q) :
    pairs_within lo hi ps -> (forall t, t <= - r -> g t == 0) -> x <= lo - r -> wavg g ps x == 0.
  Proof.
    intros Hin G Hx. apply wavg_const. intros p Hp. apply G.
    unfold pairs_within in Hin. rewrite Forall_forall in Hin. specialize (Hin p Hp). lra.
  Qed.
  Lemma wavg_zero_right (g : Q -> Q) (r lo hi x : Q) :
    pairs_within lo hi ps -> (forall t, r <= t -> g t == 0) -> hi + r <= x -> wavg g ps x == 0.
  Proof.
    intros Hin G Hx. apply wavg_const. intros p Hp. apply G.
    unfold pairs_within in Hin. rewrite Forall_forall in Hin. specialize (Hin p Hp). lra.
  Qed.
  Lemma wavg_one_right (g : Q -> Q) (r lo hi x : Q) :
    pairs_within lo hi ps -> (forall t, r <= t -> g t == 1) -> hi + r <= x -> wavg g ps x == 1.
  Proof.
    intros Hin G Hx. apply wavg_const. intros p Hp. apply G.
    unfold pairs_within in Hin. rewrite Forall_forall in Hin. specialize (Hin p Hp). lra.
  Qed.
End Wavg.

(* ====================================================================== *)
(* 3. series (alg.go) in exact arithmetic                                   *)
(* ====================================================================== *)
(* "a zero term is followed only by zero terms" *)
Definition absorbing (t : nat -> Q) : Prop := forall n, t n == 0 -> t (S n) == 0.

Lemma nat_sum_absorb (t : nat -> Q) : absorbing t ->
  forall n K, (n <= K)%nat -> t n == 0 -> t K == 0 /\ nat_sum t K == nat_sum t n.
Proof.
  intros A n K L Z. induction L as [|K L [IH1 IH2]]; [split; [exact Z|reflexivity]|].
  split; [apply A, IH1|]. cbn [nat_sum]. rewrite IH2, IH1. ring.
Qed.

(* series stops at the first zero term; if zero terms are absorbing and one occurs before the
   fuel runs out, the value is the sum of ALL terms up to any later zero term *)
Lemma series_q_stop (t : nat -> Q) : absorbing t ->
  forall fuel n acc K, (n <= K)%nat -> t K == 0 -> (K < n + fuel)%nat ->
  exists s, series_q t n fuel acc = Some s /\ s + nat_sum t n == acc + nat_sum t K.
Proof.
  intros A fuel. induction fuel as [|fuel IH]; intros n acc K L Z F; [lia|].
  cbn [series_q]. destruct (Qeq_bool (t n) 0) eqn:E.
  - apply Qeq_bool_iff in E. exists acc. split; [reflexivity|].
    destruct (nat_sum_absorb t A n K L E) as [_ S]. rewrite S. reflexivity.
  - apply Qeq_bool_false in E.
    assert (n <> K) by (intro; subst; contradiction).
    destruct (IH (S n) (Qred (acc + t n)) K) as [s [S1 S2]]; [lia|exact Z|lia|].
    exists s. split; [exact S1|]. cbn [nat_sum] in S2. rewrite Qred_correct in S2. lra.
Qed.

Corollary series_q_value (t : nat -> Q) (fuel K : nat) : absorbing t -> t K == 0 -> (K < fuel)%nat ->
  exists s, series_q t 0 fuel 0 = Some s /\ forall K', (K <= K')%nat -> s == nat_sum t K'.
Proof.
  intros A Z F. destruct (series_q_stop t A fuel 0%nat 0 K) as [s [S1 S2]]; [lia|exact Z|lia|].
  exists s. split; [exact S1|]. intros K' L.
  destruct (nat_sum_absorb t A K K' L Z) as [_ E]. rewrite E. cbn [nat_sum] in S2. lra.
Qed.

(* ====================================================================== *)
(* 4. the two one-sided series of kde.go are the symmetric image sum        *)
(* ====================================================================== *)
Lemma sym_sum_ext (s t : Z -> Q) N : (forall n, s n == t n) -> sym_sum s N == sym_sum t N.
Proof. intro E. induction N as [|N IH]; cbn [sym_sum]; [apply E|]. rewrite IH, !E. reflexivity. Qed.

Lemma fold_pdf_ext (f g : Q -> Q) m M N x : (forall z, f z == g z) -> fold_pdf f m M N x == fold_pdf g m M N x.
Proof. intro E. unfold fold_pdf. apply sym_sum_ext. intro n. rewrite !E. reflexivity. Qed.
Lemma fold_cdf_ext (f g : Q -> Q) m M N x : (forall z, f z == g z) -> fold_cdf f m M N x == fold_cdf g m M N x.
Proof. intro E. unfold fold_cdf. apply sym_sum_ext. intro n. rewrite !E. reflexivity. Qed.

Lemma inject_Z_neg_S (N : nat) : inject_Z (- Z.of_nat (S N)) == - (Qofnat N + 1).
Proof. rewrite inject_Z_opp. fold (Qofnat (S N)). rewrite Qofnat_S. reflexivity. Qed.

Section FoldSeries.
  Variable y : Q -> Q.
  Hypothesis y_comp : forall s t, s == t -> y s == y t.
  Variables m M x : Q.

  Lemma pdf_upper_term (n : nat) :
    pdf_upper y m M x n ==
    y (x + inject_Z (Z.of_nat n) * period m M) + y (2 * m - x + inject_Z (Z.of_nat n) * period m M).
  Proof.
    unfold pdf_upper, img_d, img_w, period, Qofnat. apply Qplus_comp; apply y_comp; ring.
  Qed.
  Lemma pdf_lower_term (n : nat) :
    pdf_lower y m M x n ==
    y (x + inject_Z (- Z.of_nat (S n)) * period m M) + y (2 * m - x + inject_Z (- Z.of_nat (S n)) * period m M).
  Proof.
    unfold pdf_lower, img_d, img_w, period. rewrite Qplus_comm.
    apply Qplus_comp; apply y_comp; rewrite inject_Z_neg_S; ring.
  Qed.
  Lemma cdf_upper_term (n : nat) :
    cdf_upper y m M x n ==
    y (x + inject_Z (Z.of_nat n) * period m M) - y (2 * m - x + inject_Z (Z.of_nat n) * period m M).
  Proof.
    unfold cdf_upper, img_d, img_w, period, Qofnat, Qminus.
    apply Qplus_comp; [|apply Qopp_comp]; apply y_comp; ring.
  Qed.
  Lemma cdf_lower_term (n : nat) :
    cdf_lower y m M x n ==
    y (x + inject_Z (- Z.of_nat (S n)) * period m M) - y (2 * m - x + inject_Z (- Z.of_nat (S n)) * period m M).
  Proof.
    unfold cdf_lower, img_d, img_w, period, Qminus.
    apply Qplus_comp; [|apply Qopp_comp]; apply y_comp; rewrite inject_Z_neg_S; ring.
  Qed.

  (* partial sums of the two series of KDE.PDF = the symmetric truncation of the image sum *)
  Lemma fold_pdf_series (N : nat) :
    nat_sum (pdf_upper y m M x) (S N) + nat_sum (pdf_lower y m M x) N == fold_pdf y m M N x.
  Proof.
    unfold fold_pdf. induction N as [|N IH].
    - cbn [nat_sum sym_sum]. rewrite pdf_upper_term. cbn [Z.of_nat]. ring.
    - cbn [nat_sum sym_sum] in *. rewrite <- IH, (pdf_upper_term (S N)), (pdf_lower_term N). ring.
  Qed.
  Lemma fold_cdf_series (N : nat) :
    nat_sum (cdf_upper y m M x) (S N) + nat_sum (cdf_lower y m M x) N == fold_cdf y m M N x.
  Proof.
    unfold fold_cdf. induction N as [|N IH].
    - cbn [nat_sum sym_sum]. rewrite cdf_upper_term. cbn [Z.of_nat]. ring.
    - cbn [nat_sum sym_sum] in *. rewrite <- IH, (cdf_upper_term (S N)), (cdf_lower_term N). ring.
  Qed.
End FoldSeries.

(* the image sum of the distribution function: 0 at the lower boundary ... *)
Theorem fold_cdf_at_min (F : Q -> Q) (m M : Q) (N : nat) :
  (forall s t, s == t -> F s == F t) -> fold_cdf F m M N m == 0.
Proof.
  intro C. unfold fold_cdf. induction N as [|N IH]; cbn [sym_sum].
  - rewrite (C (2 * m - m + inject_Z 0 * period m M) (m + inject_Z 0 * period m M)) by ring. ring.
  - rewrite IH.
    rewrite (C (2 * m - m + inject_Z (Z.of_nat (S N)) * period m M) (m + inject_Z (Z.of_nat (S N)) * period m M)) by ring.
    rewrite (C (2 * m - m + inject_Z (- Z.of_nat (S N)) * period m M) (m + inject_Z (- Z.of_nat (S N)) * period m M)) by ring.
    ring.
Qed.

(* ... and at the upper boundary it telescopes:
   Σ_{|n|<=N} F(M + n d) - F(M + (n-1) d) = F(M + N d) - F(M - (N+1) d) *)
Theorem fold_cdf_at_max_telescopes (F : Q -> Q) (m M : Q) (N : nat) :
  (forall s t, s == t -> F s == F t) ->
  fold_cdf F m M N M == F (M + Qofnat N * period m M) - F (M - (Qofnat N + 1) * period m M).
Proof.
  intro C. unfold fold_cdf. induction N as [|N IH]; cbn [sym_sum].
  - apply Qplus_comp; [|apply Qopp_comp]; apply C; unfold period, Qofnat; cbn [Z.of_nat]; ring.
  - rewrite IH.
    rewrite (C (M + inject_Z (Z.of_nat (S N)) * period m M) (M + Qofnat (S N) * period m M)) by reflexivity.
    rewrite (C (2 * m - M + inject_Z (Z.of_nat (S N)) * period m M) (M + Qofnat N * period m M))
      by (fold (Qofnat (S N)); rewrite Qofnat_S; unfold period; ring).
    rewrite (C (M + inject_Z (- Z.of_nat (S N)) * period m M) (M - (Qofnat N + 1) * period m M))
      by (rewrite inject_Z_neg_S; ring).
    rewrite (C (2 * m - M + inject_Z (- Z.of_nat (S N)) * period m M) (M - (Qofnat (S N) + 1) * period m M))
      by (rewrite inject_Z_neg_S, Qofnat_S; unfold period; ring).
    ring.
Qed.

(* hence the folded distribution function is exactly 1 at BoundaryMax once the images have
   left the support of F (F = 0 left of m - r, F = 1 right of M + r, r <= N d) *)
Theorem fold_cdf_at_max (F : Q -> Q) (m M r : Q) (N : nat) :
  (forall s t, s == t -> F s == F t) ->
  (forall z, z <= m - r -> F z == 0) -> (forall z, M + r <= z -> F z == 1) ->
  m <= M -> r <= Qofnat N * period m M -> fold_cdf F m M N M == 1.
Proof.
  intros C F0 F1 L R. rewrite fold_cdf_at_max_telescopes by exact C.
  unfold period in *. rewrite F1 by lra. rewrite F0; [ring|].
  assert (0 <= Qofnat N) by apply Qofnat_nonneg. nra.
Qed.

(* ====================================================================== *)
(* 5. compact kernel, data inside [m, M]: `series` loses nothing            *)
(* ====================================================================== *)
Lemma sum2_zero (a b : Q) : 0 <= a -> 0 <= b -> (a + b == 0 <-> a == 0 /\ b == 0).
Proof. intros A B. split; [intro E; split; lra | intros [E1 E2]; lra]. Qed.

Section Images.
  Variable ps : list (Q * Q).
  Variables h m M x : Q.
  Hypothesis h_pos : 0 < h.
  Hypothesis ps_in : pairs_within m M ps.
  Hypothesis x_in : m <= x /\ x <= M.

  Let inps : forall p, In p ps -> m <= fst p /\ fst p <= M.
  Proof. unfold pairs_within in ps_in. rewrite Forall_forall in ps_in. exact ps_in. Qed.

  (* ---------- density ---------- *)
  Variable y : Q -> Q.
  Hypothesis y_nonneg : forall z, 0 <= y z.
  Hypothesis y_comp : forall s t, s == t -> y s == y t.
  (* y vanishes exactly where no kernel (radius h around a data point) reaches *)
  Hypothesis y_zero : forall z, y z == 0 <-> forall p, In p ps -> z - fst p <= - h \/ h <= z - fst p.

  Lemma pdf_upper_absorbing : absorbing (pdf_upper y m M x).
  Proof.
    intros n. unfold pdf_upper. rewrite !sum2_zero by apply y_nonneg. rewrite !y_zero.
    intros [Ha Hb].
    assert (Ec : Qofnat (S n) * img_d m M == Qofnat n * img_d m M + img_d m M) by (rewrite Qofnat_S; ring).
    assert (Hc : 0 <= Qofnat n * img_d m M).
    { apply Qmult_le_0_compat; [apply Qofnat_nonneg | unfold img_d; lra]. }
    set (c := Qofnat n * img_d m M) in *. set (c' := Qofnat (S n) * img_d m M) in *.
    clearbody c c'. unfold img_d, img_w in *.
    split; intros p Hp; specialize (Ha p Hp); specialize (Hb p Hp); pose proof (inps p Hp);
      right; lra.
  Qed.

  Lemma pdf_lower_absorbing : absorbing (pdf_lower y m M x).
  Proof.
    intros n. unfold pdf_lower. rewrite !sum2_zero by apply y_nonneg. rewrite !y_zero.
    intros [Ha Hb].
    assert (Ec : (Qofnat (S n) + 1) * img_d m M == (Qofnat n + 1) * img_d m M + img_d m M) by (rewrite Qofnat_S; ring).
    assert (Hc : 0 <= (Qofnat n + 1) * img_d m M).
    { apply Qmult_le_0_compat; [pose proof (Qofnat_nonneg n); lra | unfold img_d; lra]. }
    set (c := (Qofnat n + 1) * img_d m M) in *. set (c' := (Qofnat (S n) + 1) * img_d m M) in *.
    clearbody c c'. unfold img_d, img_w in *.
    split; intros p Hp; specialize (Ha p Hp); specialize (Hb p Hp); pose proof (inps p Hp);
      left; lra.
  Qed.

  (* an index from which on every image is out of reach of every kernel *)
  Variable K0 : nat.
  Hypothesis K0_big : h + img_d m M <= Qofnat K0 * img_d m M.

  Lemma pdf_upper_K0 : pdf_upper y m M x K0 == 0.
  Proof.
    unfold pdf_upper. apply sum2_zero; try apply y_nonneg. rewrite !y_zero.
    set (c := Qofnat K0 * img_d m M) in *. clearbody c. unfold img_d, img_w in *.
    split; intros p Hp; pose proof (inps p Hp); right; lra.
  Qed.
  Lemma pdf_lower_K0 : pdf_lower y m M x K0 == 0.
  Proof.
    unfold pdf_lower. apply sum2_zero; try apply y_nonneg. rewrite !y_zero.
    assert (Ec : (Qofnat K0 + 1) * img_d m M == Qofnat K0 * img_d m M + img_d m M) by ring.
    set (c := Qofnat K0 * img_d m M) in *. set (c' := (Qofnat K0 + 1) * img_d m M) in *.
    clearbody c c'. unfold img_d, img_w in *.
    split; intros p Hp; pose proof (inps p Hp); left; lra.
  Qed.

  (* KDE.PDF on a doubly bounded support IS the unbounded density folded back at both
     boundaries: the two truncated series add up to the symmetric image sum of EVERY order
     N >= K0 (beyond K0 all images are zero: the sum is the full two-sided infinite sum) *)
  Theorem two_series_pdf_is_fold (fuel : nat) : (K0 < fuel)%nat ->
    exists v, two_series fuel (pdf_upper y m M x) (pdf_lower y m M x) = Some v /\
              forall N, (K0 <= N)%nat -> v == fold_pdf y m M N x.
  Proof.
    intro F.
    destruct (series_q_value _ fuel K0 pdf_upper_absorbing pdf_upper_K0 F) as [a [A1 A2]].
    destruct (series_q_value _ fuel K0 pdf_lower_absorbing pdf_lower_K0 F) as [b [B1 B2]].
    exists (Qred (a + b)). unfold two_series. rewrite A1, B1. split; [reflexivity|].
    intros N L. rewrite Qred_correct, (A2 (S N)), (B2 N) by lia.
    apply fold_pdf_series. exact y_comp.
  Qed.

  (* ---------- distribution function ---------- *)
  Variable Y : Q -> Q.
  Hypothesis Y_comp : forall s t, s == t -> Y s == Y t.
  (* no mass between b and a exactly when no kernel meets the interval *)
  Hypothesis Y_flat : forall a b, b <= a ->
    (Y a - Y b == 0 <-> forall p, In p ps -> a == b \/ a - fst p <= - h \/ h <= b - fst p).

  Lemma cdf_upper_absorbing : absorbing (cdf_upper Y m M x).
  Proof.
    intros n. unfold cdf_upper.
    assert (Ec : Qofnat (S n) * img_d m M == Qofnat n * img_d m M + img_d m M) by (rewrite Qofnat_S; ring).
    assert (Hc : 0 <= Qofnat n * img_d m M).
    { apply Qmult_le_0_compat; [apply Qofnat_nonneg | unfold img_d; lra]. }
    set (c := Qofnat n * img_d m M) in *. set (c' := Qofnat (S n) * img_d m M) in *.
    clearbody c c'. rewrite !Y_flat by (unfold img_w; lra).
    intros Ha p Hp. specialize (Ha p Hp). pose proof (inps p Hp). unfold img_d, img_w in *.
    destruct Ha as [Ha|[Ha|Ha]]; [left; lra | right; right; lra | right; right; lra].
  Qed.

  Lemma cdf_lower_absorbing : absorbing (cdf_lower Y m M x).
  Proof.
    intros n. unfold cdf_lower.
    assert (Ec : (Qofnat (S n) + 1) * img_d m M == (Qofnat n + 1) * img_d m M + img_d m M) by (rewrite Qofnat_S; ring).
    assert (Hc : 0 <= (Qofnat n + 1) * img_d m M).
    { apply Qmult_le_0_compat; [pose proof (Qofnat_nonneg n); lra | unfold img_d; lra]. }
    set (c := (Qofnat n + 1) * img_d m M) in *. set (c' := (Qofnat (S n) + 1) * img_d m M) in *.
    clearbody c c'. rewrite !Y_flat by (unfold img_w; lra).
    intros Ha p Hp. specialize (Ha p Hp). pose proof (inps p Hp). unfold img_d, img_w in *.
    destruct Ha as [Ha|[Ha|Ha]]; [left; lra | right; left; lra | exfalso; lra].
  Qed.

  Lemma cdf_upper_K0 : cdf_upper Y m M x K0 == 0.
  Proof.
    unfold cdf_upper. set (c := Qofnat K0 * img_d m M) in *. clearbody c.
    apply Y_flat; [unfold img_w; lra|]. intros p Hp. pose proof (inps p Hp).
    unfold img_d, img_w in *. right; right; lra.
  Qed.
  Lemma cdf_lower_K0 : cdf_lower Y m M x K0 == 0.
  Proof.
    unfold cdf_lower.
    assert (Ec : (Qofnat K0 + 1) * img_d m M == Qofnat K0 * img_d m M + img_d m M) by ring.
    set (c := Qofnat K0 * img_d m M) in *. set (c' := (Qofnat K0 + 1) * img_d m M) in *.
    clearbody c c'.
    apply Y_flat; [unfold img_w; lra|]. intros p Hp. pose proof (inps p Hp).
    unfold img_d, img_w in *. right; left; lra.
  Qed.

  Theorem two_series_cdf_is_fold (fuel : nat) : (K0 < fuel)%nat ->
    exists v, two_series fuel (cdf_upper Y m M x) (cdf_lower Y m M x) = Some v /\
              forall N, (K0 <= N)%nat -> v == fold_cdf Y m M N x.
  Proof.
    intro F.
    destruct (series_q_value _ fuel K0 cdf_upper_absorbing cdf_upper_K0 F) as [a [A1 A2]].
    destruct (series_q_value _ fuel K0 cdf_lower_absorbing cdf_lower_K0 F) as [b [B1 B2]].
    exists (Qred (a + b)). unfold two_series. rewrite A1, B1. split; [reflexivity|].
    intros N L. rewrite Qred_correct, (A2 (S N)), (B2 N) by lia.
    apply fold_cdf_series. exact Y_comp.
  Qed.
End Images.

(* THE FUEL ARGUMENT: the number of images the model allots is enough *)
Lemma img_fuel_enough (r m M : Q) : 0 <= r -> m < M ->
  let K0 := (img_fuel r m M - 3)%nat in
  (K0 < img_fuel r m M)%nat /\ r + img_d m M <= Qofnat K0 * img_d m M.
Proof.
  intros Hr Hm. unfold img_fuel.
  assert (B : Qle_bool M m = false) by (apply Qle_bool_false; exact Hm). rewrite B.
  assert (Hd : 0 < img_d m M) by (unfold img_d; lra).
  set (c := Qceiling (r / img_d m M)).
  assert (Hc : r / img_d m M <= inject_Z c) by apply Qle_ceiling.
  assert (H0 : 0 <= r / img_d m M) by (apply Qle_shift_div_l; lra).
  assert (Hz : (0 <= c)%Z) by (rewrite Zle_Qle; change (inject_Z 0) with 0; lra).
  cbv zeta. split; [lia|].
  replace (Z.to_nat c + 4 - 3)%nat with (S (Z.to_nat c)) by lia.
  rewrite Qofnat_S. unfold Qofnat. rewrite Z2Nat.id by exact Hz.
  assert (r <= inject_Z c * img_d m M); [|lra].
  apply Qle_shift_div_r in Hc; [exact Hc | exact Hd] || idtac.
  setoid_replace r with (r / img_d m M * img_d m M) by (field; lra).
  apply Qmult_le_compat_r; lra.
Qed.

(* ====================================================================== *)
(* 6. the Epanechnikov estimate: weighted average of kernels                *)
(* ====================================================================== *)
Lemma Qsum_minus {A} (s t : A -> Q) (l : list A) :
  Qsum (map s l) - Qsum (map t l) == Qsum (map (fun p => s p - t p) l).
Proof. induction l as [|p l IH]; cbn [map Qsum]; [ring|]. rewrite <- IH. ring. Qed.

Lemma wavg_diff_zero_iff ps (g : Q -> Q) a b : pairs_ok ps ->
  (forall s t, s <= t -> g s <= g t) -> b <= a ->
  (wavg g ps a - wavg g ps b == 0 <-> forall p, In p ps -> g (a - fst p) == g (b - fst p)).
Proof.
  intros ok G L. pose proof (wtotal_pos ps ok) as W.
  assert (pos : forall p, In p ps -> 0 < snd p).
  { destruct ok as [_ F]. rewrite Forall_forall in F. exact F. }
  assert (E : wavg g ps a - wavg g ps b ==
              Qsum (map (fun p => snd p * (g (a - fst p) - g (b - fst p))) ps) / wtotal ps).
  { unfold wavg.
    setoid_replace (Qsum (map (fun p => snd p * (g (a - fst p) - g (b - fst p))) ps))
      with (Qsum (map (fun p => snd p * g (a - fst p)) ps) - Qsum (map (fun p => snd p * g (b - fst p)) ps)).
    - field. lra.
    - rewrite Qsum_minus. apply Qsum_ext. intros p _. ring. }
  assert (NN : forall p, In p ps -> 0 <= snd p * (g (a - fst p) - g (b - fst p))).
  { intros p Hp. pose proof (pos p Hp). pose proof (G (b - fst p) (a - fst p)). nra. }
  rewrite E. split.
  - intros Z p Hp.
    assert (S0 : Qsum (map (fun p => snd p * (g (a - fst p) - g (b - fst p))) ps) == 0).
    { setoid_replace (Qsum (map (fun p => snd p * (g (a - fst p) - g (b - fst p))) ps))
        with (Qsum (map (fun p => snd p * (g (a - fst p) - g (b - fst p))) ps) / wtotal ps * wtotal ps)
        by (field; lra).
      rewrite Z. ring. }
    pose proof (Qsum_zero_inv _ ps NN S0 p Hp) as T. pose proof (pos p Hp).
    apply Qmult_integral in T. destruct T; lra.
  - intro Z.
    assert (S0 : Qsum (map (fun p => snd p * (g (a - fst p) - g (b - fst p))) ps) == 0).
    { rewrite (Qsum_ext _ (fun _ => 0)).
      - clear. induction ps as [|p l IH]; cbn [map Qsum]; [reflexivity | rewrite IH; ring].
      - intros p Hp. rewrite (Z p Hp). ring. }
    rewrite S0. field. lra.
Qed.

(* strict monotonicity of the Epanechnikov distribution function on its support *)
Lemma epan_poly_strict (u v : Q) : -1 <= u -> u < v -> v <= 1 ->
  (1 # 4) * (2 + 3 * u - u * u * u) < (1 # 4) * (2 + 3 * v - v * v * v).
Proof.
  intros A B C.
  assert (E : (1 # 4) * (2 + 3 * v - v * v * v) - (1 # 4) * (2 + 3 * u - u * u * u)
              == (1 # 4) * ((v - u) * ((3 # 2) * ((1 - u * u) + (1 - v * v)) + (1 # 2) * ((u - v) * (u - v))))) by ring.
  assert (0 < (v - u) * ((3 # 2) * ((1 - u * u) + (1 - v * v)) + (1 # 2) * ((u - v) * (u - v)))); [| lra].
  apply Qmult_lt_0_compat; [lra|].
  assert (0 <= 1 - u * u) by nra. assert (0 <= 1 - v * v) by nra.
  assert (0 < (u - v) * (u - v)) by nra. lra.
Qed.

Lemma epan_cdf_strict (h a b : Q) : 0 < h -> - h <= a -> a < b -> b <= h -> epan_cdf h a < epan_cdf h b.
Proof.
  intros Hh A B C.
  assert (P : forall x, - h <= x -> x <= h ->
     epan_cdf h x == (1 # 4) * (2 + 3 * (x / h) - (x / h) * (x / h) * (x / h)) /\ -1 <= x / h /\ x / h <= 1).
  { intros x X1 X2. split; [|split].
    - destruct (Qlt_le_dec (- h) x) as [L|L]; [apply epan_cdf_mid; assumption|].
      assert (E : x == - h) by lra. rewrite (epan_cdf_comp h x (- h) E), epan_cdf_left by lra.
      rewrite E. field. lra.
    - apply Qle_shift_div_l; lra.
    - apply Qle_shift_div_r; lra. }
  destruct (P a) as (Ea & A1 & A2); try lra. destruct (P b) as (Eb & B1 & B2); try lra.
  rewrite Ea, Eb. apply epan_poly_strict; try lra.
  apply Qlt_shift_div_l; [lra|]. setoid_replace (a / h * h) with a by (field; lra). exact B.
Qed.

Lemma epan_cdf_flat (h s t : Q) : 0 < h -> s <= t ->
  (epan_cdf h t == epan_cdf h s <-> t == s \/ t <= - h \/ h <= s).
Proof.
  intros Hh L. split.
  - intro E.
    destruct (Qlt_le_dec (- h) t) as [T|T]; [|right; left; exact T].
    destruct (Qlt_le_dec s h) as [S|S]; [|right; right; exact S].
    destruct (Qeq_dec t s) as [Q|NQ]; [left; exact Q|]. exfalso.
    assert (Lt : s < t) by (destruct (Qlt_le_dec s t); auto; exfalso; apply NQ; lra).
    set (s' := if Qlt_le_dec s (- h) then - h else s).
    set (t' := if Qlt_le_dec h t then h else t).
    assert (S1 : s <= s' /\ - h <= s' /\ s' < h) by (unfold s'; destruct (Qlt_le_dec s (- h)); lra).
    assert (T1 : t' <= t /\ t' <= h /\ - h < t') by (unfold t'; destruct (Qlt_le_dec h t); lra).
    assert (ST : s' < t') by (unfold s', t'; destruct (Qlt_le_dec s (- h)), (Qlt_le_dec h t); lra).
    pose proof (epan_cdf_mono h s s' Hh (proj1 S1)).
    pose proof (epan_cdf_mono h t' t Hh (proj1 T1)).
    pose proof (epan_cdf_strict h s' t' Hh). lra.
  - intros [E|[E|E]].
    + apply epan_cdf_comp; exact E.
    + rewrite (epan_cdf_left h t), (epan_cdf_left h s) by lra. reflexivity.
    + rewrite (epan_cdf_right h t), (epan_cdf_right h s) by lra. reflexivity.
Qed.

Definition kde_ok (k : kde) : Prop :=
  k_xs k <> [] /\ ws_wf (k_xs k) (k_ws k) /\ ws_pos (k_ws k) /\ 0 < k_h k.
(* the (value, weight) pairs of the sample *)
Definition kde_ps (k : kde) : list (Q * Q) := kpairs (k_xs k) (k_ws k).
(* the unbounded Epanechnikov estimate of Spec/Kde.v: density and distribution function *)
Definition kde_f (k : kde) : Q -> Q := wavg (epan_pdf (k_h k)) (kde_ps k).
Definition kde_F (k : kde) : Q -> Q := wavg (epan_cdf (k_h k)) (kde_ps k).

Lemma kde_ps_ok k : kde_ok k -> pairs_ok (kde_ps k).
Proof. intros (A & B & C & _). apply kpairs_ok; assumption. Qed.

Lemma kde_pdf_epan k x : kde_ok k -> k_kernel k = KEpan ->
  kde_pdf k x = option_map XFin (reflect_pdf (mix (epan_pdf (k_h k)) (k_xs k) (k_ws k)) (k_fuel k) (k_b k) x).
Proof.
  intros (A & _ & _ & H) E. unfold kde_pdf. rewrite E.
  destruct (k_xs k) as [|x0 xs] eqn:X; [congruence|].
  assert (B : Qle_bool (k_h k) 0 = false) by (apply Qle_bool_false; exact H). rewrite B. reflexivity.
Qed.
Lemma kde_cdf_epan k x : kde_ok k -> k_kernel k = KEpan ->
  kde_cdf k x = option_map XFin (reflect_cdf (mix (epan_cdf (k_h k)) (k_xs k) (k_ws k)) (k_fuel k) (k_b k) x).
Proof.
  intros (A & _ & _ & H) E. unfold kde_cdf. rewrite E.
  destruct (k_xs k) as [|x0 xs] eqn:X; [congruence|].
  assert (B : Qle_bool (k_h k) 0 = false) by (apply Qle_bool_false; exact H). rewrite B. reflexivity.
Qed.

Section EpanEstimate.
  Variable k : kde.
  Hypothesis ok : kde_ok k.

  Let h := k_h k.
  Let h_pos : 0 < h. Proof. apply ok. Qed.
  Let wf : ws_wf (k_xs k) (k_ws k). Proof. apply ok. Qed.
  Let pok : pairs_ok (kde_ps k) := kde_ps_ok k ok.

  Lemma y_is_f z : mix (epan_pdf (k_h k)) (k_xs k) (k_ws k) z == kde_f k z.
  Proof. apply mix_is_wavg, wf. Qed.
  Lemma Y_is_F z : mix (epan_cdf (k_h k)) (k_xs k) (k_ws k) z == kde_F k z.
  Proof. apply mix_is_wavg, wf. Qed.

  Lemma kde_f_nonneg z : 0 <= kde_f k z.
  Proof. apply wavg_nonneg; [exact pok | intro t; apply epan_pdf_nonneg, h_pos]. Qed.
  Lemma kde_f_comp s t : s == t -> kde_f k s == kde_f k t.
  Proof. apply wavg_comp. intros a b. apply epan_pdf_comp. Qed.
  Lemma kde_F_comp s t : s == t -> kde_F k s == kde_F k t.
  Proof. apply wavg_comp. intros a b. apply epan_cdf_comp. Qed.
  Lemma kde_F_mono a b : a <= b -> kde_F k a <= kde_F k b.
  Proof. apply wavg_mono; [exact pok | intros s t; apply epan_cdf_mono, h_pos]. Qed.
  Lemma kde_F_range z : 0 <= kde_F k z /\ kde_F k z <= 1.
  Proof.
    split.
    - apply wavg_nonneg; [exact pok | intro t; apply epan_cdf_range, h_pos].
    - rewrite <- (wavg_const (kde_ps k) pok (fun _ => 1) z 1) by (intros; reflexivity).
      apply wavg_le; [exact pok|]. intros p _. apply epan_cdf_range, h_pos.
  Qed.
  (* the density vanishes exactly where no kernel reaches *)
  Lemma kde_f_zero z :
    kde_f k z == 0 <-> forall p, In p (kde_ps k) -> z - fst p <= - h \/ h <= z - fst p.
  Proof.
    unfold kde_f. rewrite (wavg_zero_iff _ pok) by (intro t; apply epan_pdf_nonneg, h_pos).
    split; intros H p Hp; apply (epan_pdf_zero_iff h _ h_pos), H, Hp.
  Qed.
  Lemma kde_F_flat a b : b <= a ->
    (kde_F k a - kde_F k b == 0 <->
     forall p, In p (kde_ps k) -> a == b \/ a - fst p <= - h \/ h <= b - fst p).
  Proof.
    intro L. unfold kde_F.
    rewrite (wavg_diff_zero_iff _ _ a b pok) by (auto; intros s t; apply epan_cdf_mono, h_pos).
    split; intros H p Hp; specialize (H p Hp).
    - apply (epan_cdf_flat h (b - fst p) (a - fst p) h_pos) in H; [|lra].
      destruct H as [H|[H|H]]; [left; lra | right; left; exact H | right; right; exact H].
    - apply (epan_cdf_flat h (b - fst p) (a - fst p) h_pos); [lra|].
      destruct H as [H|[H|H]]; [left; lra | right; left; exact H | right; right; exact H].
  Qed.
  (* compact support: exactly 0 left of (min - h), exactly 1 right of (max + h) *)
  Lemma kde_F_left lo hi z : pairs_within lo hi (kde_ps k) -> z <= lo - h -> kde_F k z == 0.
  Proof.
    intros Hin Hz. apply (wavg_zero_left _ pok _ h lo hi); auto.
    intros t Ht. rewrite epan_cdf_left by (fold h; lra). reflexivity.
  Qed.
  Lemma kde_F_right lo hi z : pairs_within lo hi (kde_ps k) -> hi + h <= z -> kde_F k z == 1.
  Proof.
    intros Hin Hz. apply (wavg_one_right _ pok _ h lo hi); auto.
    intros t Ht. apply epan_cdf_right; [exact h_pos | exact Ht].
  Qed.
  Lemma kde_f_outside lo hi z : pairs_within lo hi (kde_ps k) -> z <= lo - h \/ hi + h <= z -> kde_f k z == 0.
  Proof.
    intros Hin [Hz|Hz].
    - apply (wavg_zero_left _ pok _ h lo hi); auto.
      intros t Ht. rewrite epan_pdf_outside by (left; exact Ht). reflexivity.
    - apply (wavg_zero_right _ pok _ h lo hi); auto.
      intros t Ht. rewrite epan_pdf_outside by (right; exact Ht). reflexivity.
  Qed.
End EpanEstimate.

(* Proofs/Kde.v — lemmas about Model/Kde.v (exact KDE model over Q). *)
From MM Require Import Base.Num Base.GASort Model.Sample Model.Quantile Model.Kde.
From Coq Require Import Qround Lqa Lra Psatz.
Local Open Scope Q_scope.

Lemma Qltb_true (a b : Q) : Qltb a b = true <-> a < b.
Proof.
  unfold Qltb. rewrite negb_true_iff. split; intro H.
  - apply Qnot_le_lt. intro L. apply Qle_bool_iff in L. congruence.
  - destruct (Qle_bool b a) eqn:E; auto. apply Qle_bool_iff in E. exfalso. apply (Qlt_not_le _ _ H E).
Qed.
Lemma Qltb_false (a b : Q) : Qltb a b = false <-> b <= a.
Proof.
  unfold Qltb. rewrite negb_false_iff. apply Qle_bool_iff.
Qed.

(* ---------- Epanechnikov kernel ---------- *)
Lemma epan_pdf_nonneg (h x : Q) : 0 < h -> 0 <= epan_pdf h x.
Proof.
  intro Hh. unfold epan_pdf.
  destruct (Qltb (- h) x && Qltb x h) eqn:E; [| apply Qle_refl].
  apply andb_true_iff in E. destruct E as [E1 E2]. apply Qltb_true in E1. apply Qltb_true in E2.
  assert (Hx : x * x <= h * h) by nra.
  assert (Hhh : 0 < h * h) by nra.
  apply Qmult_le_0_compat.
  - apply Qle_shift_div_l; auto. lra.
  - assert (x * x * (1 / (h * h)) <= 1); [| lra].
    setoid_replace (x * x * (1 / (h * h))) with (x * x / (h * h)) by (field; lra).
    apply Qle_shift_div_r; auto. lra.
Qed.

(* Proofs/KdeBounds.v — the exact search of KDE.Bounds() (Model/KdeBounds.v) produces only
   intervals the acceptance test kde_bounds_ok (Model/Kde.v) accepts, and never reaches the
   panic of bisect, for every non-decreasing distribution function that is 0 at BoundaryMin and
   1 at BoundaryMax; instances: the model's Epanechnikov and delta-kernel KDE.CDF.
   Everything over Q, closed under the global context. *)
From Coq Require Import QArith Lqa Lia.
From MM Require Import Base.Num Model.Sample Model.Quantile Model.Kde Model.KdeBounds Spec.Kde Proofs.Kde.
Local Open Scope Q_scope.

(* ====================================================================== *)
(* 1. bisect                                                                *)
(* ====================================================================== *)
Lemma within_tol_iff (tol v : Q) : within_tol tol v = true <-> - tol <= v /\ v <= tol.
Proof.
  unfold within_tol. rewrite andb_true_iff, !Qle_bool_iff. tauto.
Qed.

Lemma qsign_comp (a b : Q) : a == b -> qsign a = qsign b.
Proof.
  intro E. unfold qsign.
  destruct (Qeq_bool a 0) eqn:A, (Qeq_bool b 0) eqn:B; qb; try reflexivity; try (exfalso; lra).
  destruct (Qltb a 0) eqn:C, (Qltb b 0) eqn:D; qb; try reflexivity; exfalso; lra.
Qed.
Lemma qsign_neg (a : Q) : a < 0 -> qsign a = (-1)%Z.
Proof.
  intro H. unfold qsign. destruct (Qeq_bool a 0) eqn:A; qb; [exfalso; lra|].
  destruct (Qltb a 0) eqn:C; qb; [reflexivity | exfalso; lra].
Qed.
Lemma qsign_pos (a : Q) : 0 < a -> qsign a = 1%Z.
Proof.
  intro H. unfold qsign. destruct (Qeq_bool a 0) eqn:A; qb; [exfalso; lra|].
  destruct (Qltb a 0) eqn:C; qb; [exfalso; lra | reflexivity].
Qed.

Section Bisect.
  Variable f : Q -> Q.
  Hypothesis f_comp : forall s t : Q, s == t -> f s == f t.
  Variable tol : Q.

  (* the loop keeps the bracket invariant Sign(f low) <> Sign(f high); under it the exit
     `mid == high || mid == low` (in Q: low == high, hence f low == f high) is unreachable, so
     every returned point is within the tolerance; the loop itself never panics *)
  Lemma bisect_loop_sound (fuel : nat) : forall low high flow fhigh : Q,
    flow == f low -> fhigh == f high -> qsign flow <> qsign fhigh ->
    match bisect_loop f tol fuel low high flow fhigh with
    | BisRet x found => (- tol <= f x /\ f x <= tol) /\ found = true
    | BisPanic => False
    | BisFuel => True
    end.
  Proof.
    induction fuel as [|n IH]; intros low high flow fhigh Hl Hh Hs; cbn [bisect_loop]; [exact I|].
    set (mid := Qred ((high + low) / 2)).
    assert (Em : 2 * mid == high + low) by (unfold mid; rewrite Qred_correct; field).
    destruct (within_tol tol (f mid)) eqn:T.
    { apply within_tol_iff in T. split; [exact T | reflexivity]. }
    destruct (Qeq_bool mid high || Qeq_bool mid low) eqn:X.
    { exfalso. apply Hs. apply qsign_comp. rewrite Hl, Hh. apply f_comp.
      apply orb_true_iff in X. destruct X as [X|X]; qb; lra. }
    destruct (Z.eqb (qsign (f mid)) (qsign flow)) eqn:S.
    - apply IH; [reflexivity | exact Hh |]. apply Z.eqb_eq in S. rewrite S. exact Hs.
    - apply IH; [exact Hl | reflexivity |]. apply Z.eqb_neq in S. intro E. apply S. symmetry. exact E.
  Qed.

  Theorem bisect_sound (low high : Q) (fuel : nat) :
    match bisect f low high tol fuel with
    | BisRet x found => (- tol <= f x /\ f x <= tol) /\ found = true
    | BisPanic => qsign (f low) = qsign (f high)
    | BisFuel => True
    end.
  Proof.
    unfold bisect.
    destruct (within_tol tol (f low)) eqn:A. { apply within_tol_iff in A. split; [exact A | reflexivity]. }
    destruct (within_tol tol (f high)) eqn:B. { apply within_tol_iff in B. split; [exact B | reflexivity]. }
    destruct (Z.eqb (qsign (f low)) (qsign (f high))) eqn:S. { apply Z.eqb_eq in S. exact S. }
    apply Z.eqb_neq in S.
    pose proof (bisect_loop_sound fuel low high (f low) (f high) (Qeq_refl _) (Qeq_refl _) S) as H.
    destruct (bisect_loop f tol fuel low high (f low) (f high)); [exact H | contradiction | exact I].
  Qed.
End Bisect.

(* ====================================================================== *)
(* 2. the search, for any non-decreasing F                                  *)
(* ====================================================================== *)
(* what the clipping needs of F: 0 AT BoundaryMin, 1 AT BoundaryMax, where they exist *)
Definition cdf_at_bounds (F : Q -> Q) (b : bconf) : Prop :=
  match b with
  | BNone => True
  | BLower m => F m == 0
  | BUpper M => F M == 1
  | BBoth m M => F m == 0 /\ F M == 1
  | BBad => False
  end.

Section Search.
  Variable F : Q -> Q.
  Hypothesis F_mono : forall a b : Q, a <= b -> F a <= F b.

  (* a monotone function respects == *)
  Lemma mono_comp (s t : Q) : s == t -> F s == F t.
  Proof.
    intro E. assert (A : s <= t) by lra. assert (B : t <= s) by lra.
    pose proof (F_mono s t A). pose proof (F_mono t s B). lra.
  Qed.

  Lemma expand_low_post (fuel : nat) : forall lowX highX r : Q,
    expand_low F fuel lowX highX = Some r -> F r <= lowY.
  Proof.
    induction fuel as [|n IH]; intros lowX highX r; cbn [expand_low]; [discriminate|].
    destruct (Qltb lowY (F lowX)) eqn:A; [apply IH|]. intro H. injection H as <-. qb. exact A.
  Qed.
  Lemma expand_high_post (fuel : nat) : forall lowX highX r : Q,
    expand_high F fuel lowX highX = Some r -> highY <= F r.
  Proof.
    induction fuel as [|n IH]; intros lowX highX r; cbn [expand_high]; [discriminate|].
    destruct (Qltb (F highX) highY) eqn:A; [apply IH|]. intro H. injection H as <-. qb. exact A.
  Qed.

  (* margin + clipping keep  F(low) <= 0.006 < 0.994 <= F(high) ; the acceptance test follows *)
  Lemma margin_clip_sound (b : bconf) (low high : Q) :
    cdf_at_bounds F b -> F low <= 6 # 1000 -> 994 # 1000 <= F high ->
    exists lo hi : Q, margin_clip b low high = BrOk lo hi /\
      F lo <= 6 # 1000 /\ 994 # 1000 <= F hi /\
      kde_bounds_ok b (XFin lo) (XFin hi) (F hi - F lo) = true.
  Proof.
    intros Hb Hl Hh.
    assert (W : low < high).
    { destruct (Qlt_le_dec low high) as [L|L]; [exact L|]. pose proof (F_mono high low L). lra. }
    assert (OK : forall lo hi : Q, F lo <= 6 # 1000 -> 994 # 1000 <= F hi -> inside_bounds b lo hi = true ->
                 kde_bounds_ok b (XFin lo) (XFin hi) (F hi - F lo) = true).
    { intros lo hi A B C. unfold kde_bounds_ok. rewrite C.
      assert (L : lo <= hi).
      { destruct (Qlt_le_dec hi lo) as [L|L]; [|exact L].
        assert (L' : hi <= lo) by lra. pose proof (F_mono hi lo L'). lra. }
      apply Qle_bool_iff in L. rewrite L. cbn [andb]. apply Qle_bool_iff. lra. }
    unfold margin_clip.
    set (low1 := low - (1 # 10) * (high - low)). set (high1 := high + (1 # 10) * (high - low)).
    assert (A1 : F low1 <= 6 # 1000).
    { assert (L : low1 <= low) by (unfold low1; lra). pose proof (F_mono low1 low L). lra. }
    assert (B1 : 994 # 1000 <= F high1).
    { assert (L : high <= high1) by (unfold high1; lra). pose proof (F_mono high high1 L). lra. }
    assert (A2 : forall m : Q, F m == 0 -> F (Qmaxb low1 m) <= 6 # 1000).
    { intros m E. unfold Qmaxb. destruct (Qle_bool low1 m); [lra | exact A1]. }
    assert (B2 : forall M : Q, F M == 1 -> 994 # 1000 <= F (Qminb high1 M)).
    { intros M E. unfold Qminb. destruct (Qle_bool high1 M); [exact B1 | lra]. }
    assert (A3 : forall m : Q, Qle_bool m (Qmaxb low1 m) = true).
    { intro m. apply Qle_bool_iff. unfold Qmaxb. destruct (Qle_bool low1 m) eqn:E; qb; lra. }
    assert (B3 : forall M : Q, Qle_bool (Qminb high1 M) M = true).
    { intro M. apply Qle_bool_iff. unfold Qminb. destruct (Qle_bool high1 M) eqn:E; qb; lra. }
    destruct b as [|m|M|m M|]; cbn [cdf_at_bounds] in Hb; [| | | |contradiction].
    - exists low1, high1. repeat split; auto.
    - exists (Qmaxb low1 m), high1. repeat split; auto. apply OK; auto. cbn. apply A3.
    - exists low1, (Qminb high1 M). repeat split; auto. apply OK; auto. cbn. apply B3.
    - destruct Hb as [E0 E1]. exists (Qmaxb low1 m), (Qminb high1 M). repeat split; auto.
      apply OK; auto. cbn. rewrite A3, B3. reflexivity.
  Qed.

  (* the search: an interval it returns passes the acceptance test (ordered, inside the
     boundaries, F hi - F lo >= 0.98 - in fact >= 0.988), and bisect never panics *)
  Theorem bounds_search_sound (b : bconf) (fuel : nat) (xs : list Q) :
    cdf_at_bounds F b ->
    bounds_search F b fuel xs <> BrPanic /\
    forall lo hi : Q, bounds_search F b fuel xs = BrOk lo hi ->
      kde_bounds_ok b (XFin lo) (XFin hi) (F hi - F lo) = true /\
      F lo <= 6 # 1000 /\ 994 # 1000 <= F hi.
  Proof.
    intro Hb.
    assert (G : match bounds_search F b fuel xs with
                | BrOk lo hi => kde_bounds_ok b (XFin lo) (XFin hi) (F hi - F lo) = true /\
                                F lo <= 6 # 1000 /\ 994 # 1000 <= F hi
                | BrPanic => False
                | _ => True
                end).
    { unfold bounds_search. destruct xs as [|x0 t]; [exact I|].
      assert (Hb' : b <> BBad) by (intro E; rewrite E in Hb; exact Hb).
      assert (G : match
                    (let '(lowX0, highX0) := start_points x0 t in
                     match expand_low F fuel lowX0 highX0 with
                     | None => BrFuel
                     | Some lowX =>
                         match expand_high F fuel lowX highX0 with
                         | None => BrFuel
                         | Some highX =>
                             match bisect (fun x => F x - lowY) lowX highX tolerance fuel with
                             | BisFuel => BrFuel
                             | BisPanic => BrPanic
                             | BisRet low _ =>
                                 match bisect (fun x => F x - highY) lowX highX tolerance fuel with
                                 | BisFuel => BrFuel
                                 | BisPanic => BrPanic
                                 | BisRet high _ => margin_clip b low high
                                 end
                             end
                         end
                     end)
                  with
                  | BrOk lo hi => kde_bounds_ok b (XFin lo) (XFin hi) (F hi - F lo) = true /\
                                  F lo <= 6 # 1000 /\ 994 # 1000 <= F hi
                  | BrPanic => False
                  | _ => True
                  end); [|destruct b; try exact G; contradiction].
      destruct (start_points x0 t) as [lowX0 highX0].
      destruct (expand_low F fuel lowX0 highX0) as [lowX|] eqn:EL; [|exact I].
      destruct (expand_high F fuel lowX highX0) as [highX|] eqn:EH; [|exact I].
      apply expand_low_post in EL. apply expand_high_post in EH.
      unfold lowY in EL. unfold highY in EH.
      assert (C1 : forall s t : Q, s == t -> F s - lowY == F t - lowY).
      { intros s t' E. rewrite (mono_comp s t' E). reflexivity. }
      assert (C2 : forall s t : Q, s == t -> F s - highY == F t - highY).
      { intros s t' E. rewrite (mono_comp s t' E). reflexivity. }
      pose proof (bisect_sound (fun x => F x - lowY) C1 tolerance lowX highX fuel) as S1.
      pose proof (bisect_sound (fun x => F x - highY) C2 tolerance lowX highX fuel) as S2.
      cbv beta in S1, S2.
      destruct (bisect (fun x => F x - lowY) lowX highX tolerance fuel) as [low ok1| |] eqn:B1; [| |exact I].
      2:{ (* no panic: f(lowX) <= 0, f(highX) >= 0.99 *)
          unfold bisect in B1. cbv beta zeta in B1.
          destruct (within_tol tolerance (F lowX - lowY)) eqn:T1; [discriminate|].
          destruct (within_tol tolerance (F highX - lowY)) eqn:T2; [discriminate|].
          assert (N1 : F lowX - lowY < 0).
          { destruct (Qlt_le_dec (F lowX - lowY) (- tolerance)) as [L|L]; [unfold tolerance in L; lra|].
            assert (X : within_tol tolerance (F lowX - lowY) = true).
            { apply within_tol_iff. unfold lowY, tolerance in *. lra. }
            congruence. }
          assert (P1 : 0 < F highX - lowY) by (unfold lowY; lra).
          rewrite (qsign_neg _ N1), (qsign_pos _ P1) in S1. discriminate. }
      destruct (bisect (fun x => F x - highY) lowX highX tolerance fuel) as [high ok2| |] eqn:B2; [| |exact I].
      2:{ unfold bisect in B2. cbv beta zeta in B2.
          destruct (within_tol tolerance (F lowX - highY)) eqn:T1; [discriminate|].
          destruct (within_tol tolerance (F highX - highY)) eqn:T2; [discriminate|].
          assert (N1 : F lowX - highY < 0) by (unfold highY; lra).
          assert (P1 : 0 < F highX - highY).
          { destruct (Qlt_le_dec tolerance (F highX - highY)) as [L|L]; [unfold tolerance in L; lra|].
            assert (X : within_tol tolerance (F highX - highY) = true).
            { apply within_tol_iff. unfold highY, tolerance in *. lra. }
            congruence. }
          rewrite (qsign_neg _ N1), (qsign_pos _ P1) in S2. discriminate. }
      destruct S1 as [[_ S1] _]. destruct S2 as [[S2 _] _]. unfold lowY, highY, tolerance in S1, S2.
      assert (Hl : F low <= 6 # 1000) by lra. assert (Hh : 994 # 1000 <= F high) by lra.
      destruct (margin_clip_sound b low high Hb Hl Hh) as (lo & hi & E & A & B & C).
      rewrite E. auto. }
    split.
    - intro E. rewrite E in G. exact G.
    - intros lo hi E. rewrite E in G. exact G.
  Qed.
End Search.

(* ====================================================================== *)
(* 3. instance: the model's Epanechnikov KDE                                *)
(* ====================================================================== *)
Section EpanBounds.
  Variable k : kde.
  Hypothesis ok : kde_ok k.
  Hypothesis kern : k_kernel k = KEpan.
  Hypothesis bok : bounds_ok k.

  (* the total wrapper is the model's KDE.CDF *)
  Lemma kde_cdf_q_epan (x : Q) : kde_cdf k x = Some (XFin (kde_cdf_q k x)).
  Proof.
    destruct (kde_matches_spec k ok kern bok x (k_fuel k) (Nat.le_refl _)) as (p & c & _ & C & _).
    unfold kde_cdf_q. rewrite C. reflexivity.
  Qed.
  Lemma kde_cdf_q_epan_mono (a b : Q) : a <= b -> kde_cdf_q k a <= kde_cdf_q k b.
  Proof.
    intro L. apply (kde_cdf_monotone k ok kern bok a b _ _ L (kde_cdf_q_epan a) (kde_cdf_q_epan b)).
  Qed.
  Lemma kde_cdf_q_epan_bounds : cdf_at_bounds (kde_cdf_q k) (k_b k).
  Proof.
    pose proof bok as bok'. unfold bounds_ok in bok'. unfold cdf_at_bounds.
    destruct (k_b k) as [|m|M|m M|] eqn:B; [exact I| | | |exact bok'].
    - destruct (kde_cdf_ends k ok kern bok m _ (kde_cdf_q_epan m)) as (_ & _ & E). rewrite B in E.
      apply E. reflexivity.
    - destruct (kde_cdf_ends k ok kern bok M _ (kde_cdf_q_epan M)) as (_ & E & _). rewrite B in E.
      apply E; [cbn; apply Qle_bool_iff; lra | reflexivity].
    - destruct bok' as [mM _]. split.
      + destruct (kde_cdf_ends k ok kern bok m _ (kde_cdf_q_epan m)) as (_ & _ & E). rewrite B in E.
        apply E. reflexivity.
      + destruct (kde_cdf_ends k ok kern bok M _ (kde_cdf_q_epan M)) as (_ & E & _). rewrite B in E.
        apply E; [cbn; apply Qle_bool_iff; lra | cbn; apply Qltb_false; lra].
  Qed.

  Theorem kde_bounds_search_epan (fuel : nat) :
    kde_bounds_search k fuel <> BrPanic /\
    forall lo hi : Q, kde_bounds_search k fuel = BrOk lo hi ->
      exists clo chi : Q, kde_cdf k lo = Some (XFin clo) /\ kde_cdf k hi = Some (XFin chi) /\
        kde_bounds_ok (k_b k) (XFin lo) (XFin hi) (chi - clo) = true.
  Proof.
    unfold kde_bounds_search. rewrite kern.
    destruct (bounds_search_sound (kde_cdf_q k) kde_cdf_q_epan_mono (k_b k) fuel (k_xs k) kde_cdf_q_epan_bounds)
      as [NP S].
    split; [exact NP|]. intros lo hi E. destruct (S lo hi E) as (A & _).
    exists (kde_cdf_q k lo), (kde_cdf_q k hi). repeat split; [apply kde_cdf_q_epan | apply kde_cdf_q_epan | exact A].
  Qed.
End EpanBounds.

(* ====================================================================== *)
(* 4. instance: the delta kernel (weighted empirical distribution function) *)
(* ====================================================================== *)
(* data inside the boundaries (the property's quantifier) *)
Definition bounds_ok_delta (k : kde) : Prop :=
  match k_b k with
  | BNone => True
  | BLower m => exists hi : Q, pairs_within m hi (kde_ps k)
  | BUpper M => exists lo : Q, pairs_within lo M (kde_ps k)
  | BBoth m M => m < M /\ pairs_within m M (kde_ps k)
  | BBad => False
  end.

Lemma Qsum_zeros {A} (l : list A) : Qsum (map (fun _ : A => 0) l) == 0.
Proof. induction l as [|q l IH]; cbn [map Qsum]; [reflexivity | rewrite IH; ring]. Qed.

Section DeltaBounds.
  Variable k : kde.
  Hypothesis ok : kde_ok_delta k.
  Hypothesis kern : k_kernel k = KDelta.
  Hypothesis bok : bounds_ok_delta k.

  Let pok : pairs_ok (kde_ps k). Proof. destruct ok as (A & B & C). apply kpairs_ok; assumption. Qed.
  Let E := wecdf (kde_ps k).

  Let E_mono a b : a <= b -> E a <= E b.
  Proof.
    intro L. unfold E. rewrite <- !wavg_delta_is_wecdf. apply wavg_mono; [exact pok | | exact L].
    intros s t Lst. unfold delta_cdf.
    destruct (Qle_bool 0 s) eqn:A, (Qle_bool 0 t) eqn:B; qb; lra.
  Qed.
  Let E_range x : 0 <= E x /\ E x <= 1.
  Proof.
    unfold E. rewrite <- !wavg_delta_is_wecdf. split.
    - apply wavg_nonneg; [exact pok|]. intro t. unfold delta_cdf. destruct (Qle_bool 0 t); lra.
    - rewrite <- (wavg_const (kde_ps k) pok (fun _ => 1) x 1) by (intros; reflexivity).
      apply wavg_le; [exact pok|]. intros p _. unfold delta_cdf. destruct (Qle_bool 0 (x - fst p)); lra.
  Qed.

  (* one description for all settings: 0 up to and AT BoundaryMin, 1 from BoundaryMax, the
     weighted empirical distribution function in between *)
  Lemma kde_cdf_q_delta (x : Q) :
    kde_cdf k x = Some (XFin (kde_cdf_q k x)) /\
    match k_b k with
    | BNone => kde_cdf_q k x == E x
    | BLower m => (x <= m -> kde_cdf_q k x == 0) /\ (m < x -> kde_cdf_q k x == E x)
    | BUpper M => (M <= x -> kde_cdf_q k x == 1) /\ (x < M -> kde_cdf_q k x == E x)
    | BBoth m M => (x <= m -> kde_cdf_q k x == 0) /\ (M <= x -> kde_cdf_q k x == 1) /\
                   (m < x -> x < M -> kde_cdf_q k x == E x)
    | BBad => False
    end.
  Proof.
    pose proof bok as bok'. unfold bounds_ok_delta in bok'. unfold kde_cdf_q.
    destruct (k_b k) as [|m|M|m M|] eqn:B; [| | | |contradiction].
    - destruct (delta_cdf_is_weighted_ecdf k ok kern x B) as (c & C & Ec). rewrite C. auto.
    - destruct bok' as [hi Hin].
      destruct (delta_cdf_lower k ok kern m m hi x B Hin (Qle_refl m)) as (c & C & E1 & E2). rewrite C. auto.
    - destruct bok' as [lo Hin].
      destruct (delta_cdf_upper k ok kern M lo M x B Hin (Qle_refl M)) as (c & C & E1 & E2). rewrite C. auto.
    - destruct bok' as [mM Hin].
      destruct (Qlt_le_dec x m) as [L1|L1].
      { rewrite kde_cdf_delta by (apply ok || exact kern). rewrite B. cbn [reflect_cdf].
        assert (A : Qltb x m = true) by (apply Qltb_true; exact L1). rewrite A. cbn [option_map].
        repeat split; try reflexivity; intros; exfalso; lra. }
      destruct (Qlt_le_dec x M) as [L2|L2].
      2:{ rewrite kde_cdf_delta by (apply ok || exact kern). rewrite B. cbn [reflect_cdf].
          assert (A : Qltb x m = false) by (apply Qltb_false; exact L1).
          assert (A' : Qle_bool M x = true) by (apply Qle_bool_iff; exact L2). rewrite A, A'. cbn [option_map].
          repeat split; try reflexivity; intros; exfalso; lra. }
      destruct (delta_cdf_both k ok kern m M B Hin mM x (conj L1 L2)) as (c & C & E1 & E2). rewrite C.
      repeat split; auto.
      + intro H. apply E1. lra.
      + intros; exfalso; lra.
  Qed.

  Lemma kde_cdf_q_delta_mono (a b : Q) : a <= b -> kde_cdf_q k a <= kde_cdf_q k b.
  Proof.
    intro L. destruct (kde_cdf_q_delta a) as [_ Da]. destruct (kde_cdf_q_delta b) as [_ Db].
    pose proof (E_mono a b L) as Mo. pose proof (E_range a) as Ra. pose proof (E_range b) as Rb.
    destruct (k_b k) as [|m|M|m M|]; [lra| | | |contradiction].
    - destruct Da as [A1 A2], Db as [B1 B2].
      destruct (Qlt_le_dec m a) as [La|La]; [rewrite (A2 La) | rewrite (A1 La)];
        (destruct (Qlt_le_dec m b) as [Lb|Lb]; [rewrite (B2 Lb) | rewrite (B1 Lb)]); lra.
    - destruct Da as [A1 A2], Db as [B1 B2].
      destruct (Qlt_le_dec a M) as [La|La]; [rewrite (A2 La) | rewrite (A1 La)];
        (destruct (Qlt_le_dec b M) as [Lb|Lb]; [rewrite (B2 Lb) | rewrite (B1 Lb)]); lra.
    - destruct Da as (A1 & A2 & A3), Db as (B1 & B2 & B3).
      destruct (Qlt_le_dec m a) as [La|La]; [|rewrite (A1 La)];
        (destruct (Qlt_le_dec m b) as [Lb|Lb]; [|rewrite (B1 Lb)]);
        (destruct (Qlt_le_dec a M) as [La'|La']; [try rewrite (A3 La La') | try rewrite (A2 La')]);
        (destruct (Qlt_le_dec b M) as [Lb'|Lb']; [try rewrite (B3 Lb Lb') | try rewrite (B2 Lb')]); lra.
  Qed.
  Lemma kde_cdf_q_delta_bounds : cdf_at_bounds (kde_cdf_q k) (k_b k).
  Proof.
    unfold cdf_at_bounds.
    destruct (k_b k) as [|m|M|m M|] eqn:B; [exact I| | | |].
    - destruct (kde_cdf_q_delta m) as [_ D]. rewrite B in D. apply D. lra.
    - destruct (kde_cdf_q_delta M) as [_ D]. rewrite B in D. apply D. lra.
    - split.
      + destruct (kde_cdf_q_delta m) as [_ D]. rewrite B in D. apply D. lra.
      + destruct (kde_cdf_q_delta M) as [_ D]. rewrite B in D. apply D. lra.
    - unfold bounds_ok_delta in bok. rewrite B in bok. exact bok.
  Qed.

  (* the acceptance test with the CDF difference, which is the mass of (lo, hi]; the mass of
     the closed interval [lo, hi] (delta_mass_in, what Check/C12.v uses) is at least that
     without boundaries *)
  Theorem kde_bounds_search_delta (fuel : nat) :
    kde_bounds_search k fuel <> BrPanic /\
    forall lo hi : Q, kde_bounds_search k fuel = BrOk lo hi ->
      exists clo chi : Q, kde_cdf k lo = Some (XFin clo) /\ kde_cdf k hi = Some (XFin chi) /\
        kde_bounds_ok (k_b k) (XFin lo) (XFin hi) (chi - clo) = true.
  Proof.
    unfold kde_bounds_search. rewrite kern.
    destruct (bounds_search_sound (kde_cdf_q k) kde_cdf_q_delta_mono (k_b k) fuel (k_xs k) kde_cdf_q_delta_bounds)
      as [NP S].
    split; [exact NP|]. intros lo hi H. destruct (S lo hi H) as (A & _).
    exists (kde_cdf_q k lo), (kde_cdf_q k hi). repeat split; [apply kde_cdf_q_delta | apply kde_cdf_q_delta | exact A].
  Qed.

  (* ---- the mass of the CLOSED interval [lo, hi] (delta_mass_in: what Check/C12.v puts into
     the acceptance test for the delta kernel) is at least the CDF difference ---- *)
  Let wf : ws_wf (k_xs k) (k_ws k). Proof. apply ok. Qed.
  Let Wpos : 0 < wtotal (kde_ps k) := wtotal_pos (kde_ps k) pok.
  Let wpos p : In p (kde_ps k) -> 0 < snd p.
  Proof. pose proof pok as [_ Fa]. rewrite Forall_forall in Fa. apply Fa. Qed.
  (* left limit of the empirical distribution function: weight of the data points < x *)
  Let E' (x : Q) : Q :=
    Qsum (map (fun p => if Qle_bool x (fst p) then 0 else snd p) (kde_ps k)) / wtotal (kde_ps k).

  Let div_le (a b : Q) : a <= b -> a / wtotal (kde_ps k) <= b / wtotal (kde_ps k).
  Proof.
    intro L. unfold Qdiv. pose proof (Qinv_lt_0_compat _ Wpos) as I. set (i := / wtotal (kde_ps k)) in *. nra.
  Qed.

  Let mass_ge (lo hi : Q) : E hi - E' lo <= delta_mass_in (k_xs k) (k_ws k) lo hi.
  Proof.
    rewrite (delta_mass_in_spec (k_xs k) (k_ws k) lo hi wf). fold (kde_ps k). unfold E, E', wecdf.
    set (W := wtotal (kde_ps k)).
    setoid_replace (Qsum (map (fun p => if Qle_bool (fst p) hi then snd p else 0) (kde_ps k)) / W -
                    Qsum (map (fun p => if Qle_bool lo (fst p) then 0 else snd p) (kde_ps k)) / W)
      with ((Qsum (map (fun p => if Qle_bool (fst p) hi then snd p else 0) (kde_ps k)) -
             Qsum (map (fun p => if Qle_bool lo (fst p) then 0 else snd p) (kde_ps k))) / W)
      by (unfold Qdiv; ring).
    apply div_le. rewrite Qsum_minus. apply Qsum_le. intros p Hp. pose proof (wpos p Hp).
    destruct (Qle_bool (fst p) hi), (Qle_bool lo (fst p)); cbn [andb]; lra.
  Qed.
  Let E'_le_E (x : Q) : E' x <= E x.
  Proof.
    unfold E, E', wecdf. apply div_le. apply Qsum_le. intros p Hp. pose proof (wpos p Hp).
    destruct (Qle_bool x (fst p)) eqn:A, (Qle_bool (fst p) x) eqn:B; qb; lra.
  Qed.
  Let E'_zero (lo hi x : Q) : pairs_within lo hi (kde_ps k) -> x <= lo -> E' x <= 0.
  Proof.
    intros Hin L. unfold E'.
    pose proof (Qsum_zeros (kde_ps k)) as Z.
    assert (L2 : Qsum (map (fun p => if Qle_bool x (fst p) then 0 else snd p) (kde_ps k)) <= 0).
    { apply Qle_trans with (Qsum (map (fun _ : Q * Q => 0) (kde_ps k))); [|rewrite Z; lra].
      apply Qsum_le. intros p Hp. unfold pairs_within in Hin. rewrite Forall_forall in Hin.
      specialize (Hin p Hp). assert (A : Qle_bool x (fst p) = true) by (apply Qle_bool_iff; lra). rewrite A. lra. }
    pose proof (div_le _ 0 L2) as L3. unfold Qdiv in L3 |- *. lra.
  Qed.

  Let F_ge_left (lo : Q) : E' lo <= kde_cdf_q k lo.
  Proof.
    destruct (kde_cdf_q_delta lo) as [_ D]. pose proof (E'_le_E lo) as L1. pose proof (E_range lo) as R.
    pose proof bok as bok'. unfold bounds_ok_delta in bok'.
    destruct (k_b k) as [|m|M|m M|]; [lra| | | |contradiction].
    - destruct bok' as [hi0 Hin]. destruct D as [D1 D2].
      destruct (Qlt_le_dec m lo) as [A|A]; [rewrite (D2 A); lra | rewrite (D1 A); apply (E'_zero m hi0 lo Hin A)].
    - destruct D as [D1 D2].
      destruct (Qlt_le_dec lo M) as [A|A]; [rewrite (D2 A); lra | rewrite (D1 A); lra].
    - destruct bok' as [mM Hin]. destruct D as (D1 & D2 & D3).
      destruct (Qlt_le_dec m lo) as [A|A]; [|rewrite (D1 A); apply (E'_zero m M lo Hin A)].
      destruct (Qlt_le_dec lo M) as [A'|A']; [rewrite (D3 A A'); lra | rewrite (D2 A'); lra].
  Qed.
  Let F_le_right (hi : Q) : kde_cdf_q k hi <= E hi.
  Proof.
    destruct (kde_cdf_q_delta hi) as [_ D]. pose proof (E_range hi) as R.
    pose proof bok as bok'. unfold bounds_ok_delta in bok'.
    destruct (k_b k) as [|m|M|m M|]; [lra| | | |contradiction].
    - destruct D as [D1 D2].
      destruct (Qlt_le_dec m hi) as [A|A]; [rewrite (D2 A); lra | rewrite (D1 A); lra].
    - destruct bok' as [lo0 Hin]. destruct D as [D1 D2].
      destruct (Qlt_le_dec hi M) as [A|A]; [rewrite (D2 A); lra|]. rewrite (D1 A).
      unfold E. rewrite (wecdf_right k ok lo0 M hi Hin A). lra.
    - destruct bok' as [mM Hin]. destruct D as (D1 & D2 & D3).
      destruct (Qlt_le_dec m hi) as [A|A]; [|rewrite (D1 A); lra].
      destruct (Qlt_le_dec hi M) as [A'|A']; [rewrite (D3 A A'); lra|]. rewrite (D2 A').
      unfold E. rewrite (wecdf_right k ok m M hi Hin A'). lra.
  Qed.

  Theorem kde_bounds_search_delta_mass (fuel : nat) (lo hi : Q) :
    kde_bounds_search k fuel = BrOk lo hi ->
    kde_bounds_ok (k_b k) (XFin lo) (XFin hi) (delta_mass_in (k_xs k) (k_ws k) lo hi) = true.
  Proof.
    intro H. destruct (kde_bounds_search_delta fuel) as [_ S].
    destruct (S lo hi H) as (clo & chi & Clo & Chi & B).
    destruct (kde_cdf_q_delta lo) as [Clo' _]. destruct (kde_cdf_q_delta hi) as [Chi' _].
    rewrite Clo in Clo'. rewrite Chi in Chi'. injection Clo' as ->. injection Chi' as ->.
    pose proof (mass_ge lo hi) as M1. pose proof (F_ge_left lo) as M2. pose proof (F_le_right hi) as M3.
    unfold kde_bounds_ok in *. apply andb_true_iff in B. destruct B as [B1 B2]. rewrite B1. cbn [andb].
    apply Qle_bool_iff. apply Qle_bool_iff in B2. lra.
  Qed.
End DeltaBounds.

(* ====================================================================== *)
(* 5. grouped for Properties/C12.v                                          *)
(* ====================================================================== *)
(* bisect + the search, generic *)
Lemma G_bounds_search_sound :
  (forall (f : Q -> Q) (tol low high : Q) (fuel : nat), (forall s t : Q, s == t -> f s == f t) ->
     match bisect f low high tol fuel with
     | BisRet x found => (- tol <= f x /\ f x <= tol) /\ found = true
     | BisPanic => qsign (f low) = qsign (f high)
     | BisFuel => True
     end) /\
  (forall F : Q -> Q, (forall a b : Q, a <= b -> F a <= F b) ->
   forall (b : bconf) (fuel : nat) (xs : list Q),
     match b with
     | BNone => True
     | BLower m => F m == 0
     | BUpper M => F M == 1
     | BBoth m M => F m == 0 /\ F M == 1
     | BBad => False
     end ->
     bounds_search F b fuel xs <> BrPanic /\
     forall lo hi : Q, bounds_search F b fuel xs = BrOk lo hi ->
       kde_bounds_ok b (XFin lo) (XFin hi) (F hi - F lo) = true /\
       F lo <= 6 # 1000 /\ 994 # 1000 <= F hi).
Proof.
  split.
  - intros f tol low high fuel C. apply bisect_sound. exact C.
  - intros F Mo b fuel xs Hb. apply bounds_search_sound; assumption.
Qed.

(* the model's KDEs *)
Lemma G_bounds_search_kde :
  (forall k : kde, kde_ok k -> k_kernel k = KEpan -> bounds_ok k -> forall fuel : nat,
     kde_bounds_search k fuel <> BrPanic /\
     forall lo hi : Q, kde_bounds_search k fuel = BrOk lo hi ->
       exists clo chi : Q, kde_cdf k lo = Some (XFin clo) /\ kde_cdf k hi = Some (XFin chi) /\
         kde_bounds_ok (k_b k) (XFin lo) (XFin hi) (chi - clo) = true) /\
  (forall k : kde, kde_ok_delta k -> k_kernel k = KDelta -> bounds_ok_delta k -> forall fuel : nat,
     kde_bounds_search k fuel <> BrPanic /\
     forall lo hi : Q, kde_bounds_search k fuel = BrOk lo hi ->
       (exists clo chi : Q, kde_cdf k lo = Some (XFin clo) /\ kde_cdf k hi = Some (XFin chi) /\
          kde_bounds_ok (k_b k) (XFin lo) (XFin hi) (chi - clo) = true) /\
       kde_bounds_ok (k_b k) (XFin lo) (XFin hi) (delta_mass_in (k_xs k) (k_ws k) lo hi) = true).
Proof.
  split.
  - intros k ok kern bok fuel. apply kde_bounds_search_epan; assumption.
  - intros k ok kern bok fuel. destruct (kde_bounds_search_delta k ok kern bok fuel) as [NP S].
    split; [exact NP|]. intros lo hi H. split; [apply S; exact H|].
    apply (kde_bounds_search_delta_mass k ok kern bok fuel lo hi H).
Qed.

(* the KDEs of the non-vacuity Examples: sample {0,1,2}, h = 1 *)
Definition ex_bk (kn : kernel) (b : bconf) : kde := mkKde [0; 1; 2] None kn 1 b.
(* weights 5 : 990 : 5 put the jumps of the delta kernel's CDF exactly on 0.005 and 0.995 *)
Definition ex_bk_w : kde := mkKde [0; 1; 2] (Some [5; 990; 5]) KDelta 1 BNone.
(* for the Examples: the search returns an interval and the acceptance test, fed with the
   model's own CDF values at its ends, accepts it *)
Definition search_accepted (k : kde) (fuel : nat) : bool :=
  match kde_bounds_search k fuel with
  | BrOk lo hi =>
      match kde_cdf k lo, kde_cdf k hi with
      | Some (XFin a), Some (XFin b) => kde_bounds_ok (k_b k) (XFin lo) (XFin hi) (b - a)
      | _, _ => false
      end
  | _ => false
  end.

(* Proofs/KdeBoundsTerm.v — TERMINATION of the exact search of KDE.Bounds() (Model/KdeBounds.v):
   for a Lipschitz distribution function that is <= 0.005 far left and >= 0.995 far right every
   loop of the search ends within an explicit number of steps, so the search returns an interval
   (BrOk) for every sufficiently large fuel; instance: the model's Epanechnikov KDE.CDF without
   boundaries (Lipschitz constant 3/(4h)).  Over Q, closed under the global context. *)
From Coq Require Import QArith Qround Lqa Lia.
From MM Require Import Base.Num Model.Sample Model.Quantile Model.Kde Model.KdeBounds Spec.Kde Proofs.Kde Proofs.KdeBounds.
Local Open Scope Q_scope.

(* ====================================================================== *)
(* 0. small facts                                                           *)
(* ====================================================================== *)
Lemma qpow2_pos (n : nat) : 0 < qpow 2 n.
Proof. induction n as [|n IH]; cbn [qpow]; lra. Qed.
Lemma qpow2_lin (n : nat) : Qofnat n + 1 <= qpow 2 n.
Proof.
  induction n as [|n IH]; [cbn [qpow]; change (Qofnat 0) with 0; lra|]. cbn [qpow]. rewrite Qofnat_S. pose proof (Qofnat_nonneg n). lra.
Qed.
(* Archimedes: every rational is below a natural number, hence below a power of two *)
Lemma Qofnat_above (q : Q) : exists n : nat, q <= Qofnat n.
Proof.
  exists (Z.to_nat (Qceiling q)). pose proof (Qle_ceiling q) as C. unfold Qofnat.
  destruct (Qceiling q) as [|p|p].
  - exact C.
  - rewrite Z2Nat.id by lia. exact C.
  - cbn [Z.to_nat Z.of_nat].
    assert (H : inject_Z (Z.neg p) <= inject_Z 0) by (rewrite <- Zle_Qle; lia).
    apply (Qle_trans _ _ _ C H).
Qed.
Lemma qpow2_above (q : Q) : exists n : nat, q <= qpow 2 n.
Proof. destruct (Qofnat_above q) as [n H]. exists n. pose proof (qpow2_lin n). lra. Qed.

Lemma div_le_mult (a b c : Q) : 0 < b -> a / b <= c -> a <= c * b.
Proof.
  intros Hb H. assert (E : a == a / b * b) by (field; lra). rewrite E.
  apply Qmult_le_compat_r; [exact H | lra].
Qed.

Lemma Qlmin_le (l : list Q) : forall d : Q, Qlmin d l <= d.
Proof.
  induction l as [|a l IH]; intro d; cbn; [lra|]. change (Qlmin (Qminb d a) l <= d).
  pose proof (IH (Qminb d a)). unfold Qminb in *. destruct (Qle_bool d a) eqn:E; qb; lra.
Qed.
Lemma Qlmax_ge (l : list Q) : forall d : Q, d <= Qlmax d l.
Proof.
  induction l as [|a l IH]; intro d; cbn; [lra|]. change (d <= Qlmax (Qmaxb d a) l).
  pose proof (IH (Qmaxb d a)). unfold Qmaxb in *. destruct (Qle_bool d a) eqn:E; qb; lra.
Qed.
Lemma Qlmin_In (l : list Q) : forall d x : Q, In x l -> Qlmin d l <= x.
Proof.
  induction l as [|a l IH]; intros d x H; [destruct H|]. change (Qlmin (Qminb d a) l <= x).
  destruct H as [<-|H]; [|apply IH, H].
  pose proof (Qlmin_le l (Qminb d a)). unfold Qminb in *. destruct (Qle_bool d a) eqn:E; qb; lra.
Qed.
Lemma Qlmax_In (l : list Q) : forall d x : Q, In x l -> x <= Qlmax d l.
Proof.
  induction l as [|a l IH]; intros d x H; [destruct H|]. change (x <= Qlmax (Qmaxb d a) l).
  destruct H as [<-|H]; [|apply IH, H].
  pose proof (Qlmax_ge l (Qmaxb d a)). unfold Qmaxb in *. destruct (Qle_bool d a) eqn:E; qb; lra.
Qed.
Lemma start_points_lt (x0 : Q) (t : list Q) : fst (start_points x0 t) < snd (start_points x0 t).
Proof.
  unfold start_points. pose proof (Qlmin_le t x0). pose proof (Qlmax_ge t x0).
  destruct (Qeq_bool (Qlmin x0 t) (Qlmax x0 t)) eqn:E; qb; cbn [fst snd]; lra.
Qed.

(* ====================================================================== *)
(* 1. bisect terminates on a Lipschitz function                             *)
(* ====================================================================== *)
Section BisectTerm.
  Variable f : Q -> Q.
  Variables L tol : Q.
  Hypothesis L_pos : 0 < L.
  Hypothesis tol_pos : 0 < tol.
  Hypothesis f_lip : forall x y : Q, x <= y -> f y - f x <= L * (y - x).

  (* bracket invariant: f low < -tol, tol < f high; then L (high - low) > 2 tol, while the width
     halves at every step: n steps suffice when (high - low) L <= 2 tol 2^n *)
  Lemma bisect_loop_terminates (fuel : nat) : forall (n : nat) (low high flow fhigh : Q),
    (n < fuel)%nat -> flow == f low -> fhigh == f high -> f low < - tol -> tol < f high -> low <= high ->
    (high - low) * L <= 2 * tol * qpow 2 n ->
    exists x : Q, bisect_loop f tol fuel low high flow fhigh = BisRet x true.
  Proof.
    induction fuel as [|k IH]; intros n low high flow fhigh Hn Hl Hh Nl Ph Le W; [lia|].
    cbn [bisect_loop]. set (mid := Qred ((high + low) / 2)).
    assert (Em : 2 * mid == high + low) by (unfold mid; rewrite Qred_correct; field).
    pose proof (f_lip low high Le) as Lip.
    assert (Wd : 2 * tol < (high - low) * L) by lra.
    assert (LH : low < high) by nra.
    destruct (within_tol tol (f mid)) eqn:T; [eexists; reflexivity|].
    assert (X : Qeq_bool mid high || Qeq_bool mid low = false).
    { apply orb_false_iff. split; apply Qeq_bool_false; intro E; lra. }
    rewrite X.
    destruct n as [|n']; [cbn [qpow] in W; lra|]. cbn [qpow] in W.
    assert (Out : f mid < - tol \/ tol < f mid).
    { destruct (Qlt_le_dec (f mid) (- tol)) as [A|A]; [left; exact A|].
      destruct (Qlt_le_dec tol (f mid)) as [B|B]; [right; exact B|].
      assert (T' : within_tol tol (f mid) = true) by (apply within_tol_iff; split; assumption). congruence. }
    assert (Sl : qsign flow = (-1)%Z) by (apply qsign_neg; lra).
    destruct Out as [A|A].
    - assert (S : qsign (f mid) = (-1)%Z) by (apply qsign_neg; lra).
      rewrite S, Sl. cbn [Z.eqb Pos.eqb].
      apply (IH n'); [lia | reflexivity | exact Hh | exact A | exact Ph | lra | nra].
    - assert (S : qsign (f mid) = 1%Z) by (apply qsign_pos; lra).
      rewrite S, Sl. cbn [Z.eqb].
      apply (IH n'); [lia | exact Hl | reflexivity | exact Nl | exact A | lra | nra].
  Qed.

  (* bisect itself: no panic, and a point is returned *)
  Lemma bisect_terminates (low high : Q) (n fuel : nat) :
    low <= high -> f low <= tol -> - tol <= f high -> (n < fuel)%nat ->
    (high - low) * L <= 2 * tol * qpow 2 n ->
    exists x : Q, bisect f low high tol fuel = BisRet x true.
  Proof.
    intros Le A B Hn W. unfold bisect.
    destruct (within_tol tol (f low)) eqn:T1; [eexists; reflexivity|].
    destruct (within_tol tol (f high)) eqn:T2; [eexists; reflexivity|].
    assert (Nl : f low < - tol).
    { destruct (Qlt_le_dec (f low) (- tol)) as [C|C]; [exact C|].
      assert (T' : within_tol tol (f low) = true) by (apply within_tol_iff; split; assumption). congruence. }
    assert (Ph : tol < f high).
    { destruct (Qlt_le_dec tol (f high)) as [C|C]; [exact C|].
      assert (T' : within_tol tol (f high) = true) by (apply within_tol_iff; split; assumption). congruence. }
    rewrite (qsign_neg (f low)), (qsign_pos (f high)) by lra. cbn [Z.eqb].
    apply (bisect_loop_terminates fuel n); auto; reflexivity.
  Qed.
End BisectTerm.

(* ====================================================================== *)
(* 2. the bracket expansion and the whole search                            *)
(* ====================================================================== *)
(* more fuel does not change a result *)
Lemma expand_low_fuel_mono (F : Q -> Q) (fuel : nat) : forall (fuel' : nat) (lowX highX r : Q),
  expand_low F fuel lowX highX = Some r -> (fuel <= fuel')%nat -> expand_low F fuel' lowX highX = Some r.
Proof.
  induction fuel as [|k IH]; intros fuel' lowX highX r H Le; cbn [expand_low] in H; [discriminate|].
  destruct fuel' as [|k']; [lia|]. cbn [expand_low].
  destruct (Qltb lowY (F lowX)); [apply IH; [exact H | lia] | exact H].
Qed.
Lemma expand_high_fuel_mono (F : Q -> Q) (fuel : nat) : forall (fuel' : nat) (lowX highX r : Q),
  expand_high F fuel lowX highX = Some r -> (fuel <= fuel')%nat -> expand_high F fuel' lowX highX = Some r.
Proof.
  induction fuel as [|k IH]; intros fuel' lowX highX r H Le; cbn [expand_high] in H; [discriminate|].
  destruct fuel' as [|k']; [lia|]. cbn [expand_high].
  destruct (Qltb (F highX) highY); [apply IH; [exact H | lia] | exact H].
Qed.

Section SearchTerm.
  Variable F : Q -> Q.
  Variables L A B : Q.
  Hypothesis L_pos : 0 < L.
  Hypothesis F_lip : forall x y : Q, x <= y -> F y - F x <= L * (y - x).
  Hypothesis F_left : forall x : Q, x <= A -> F x <= lowY.
  Hypothesis F_right : forall x : Q, B <= x -> highY <= F x.

  (* each step subtracts at least the initial width: n steps reach A when lowX - n w <= A *)
  Lemma expand_low_terminates (fuel : nat) : forall (n : nat) (lowX highX : Q),
    (n < fuel)%nat -> lowX < highX -> lowX - Qofnat n * (highX - lowX) <= A ->
    exists r : Q, expand_low F fuel lowX highX = Some r /\ r <= lowX /\ F r <= lowY.
  Proof.
    induction fuel as [|k IH]; intros n lowX highX Hn Lt Reach; [lia|]. cbn [expand_low].
    destruct (Qltb lowY (F lowX)) eqn:C; qb.
    2:{ exists lowX. split; [reflexivity|]. split; [lra | exact C]. }
    destruct n as [|n'].
    { exfalso. change (Qofnat 0) with 0 in Reach. assert (lowX <= A) by lra. pose proof (F_left lowX H). lra. }
    set (l' := Qred (lowX - (highX - lowX))).
    assert (El : l' == lowX - (highX - lowX)) by (unfold l'; apply Qred_correct).
    destruct (IH n' l' highX) as (r & R1 & R2 & R3); [lia | lra | |].
    - rewrite Qofnat_S in Reach. pose proof (Qofnat_nonneg n') as N0.
      rewrite El. set (q := Qofnat n') in *. nra.
    - exists r. split; [exact R1|]. split; [lra | exact R3].
  Qed.
  Lemma expand_high_terminates (fuel : nat) : forall (n : nat) (lowX highX : Q),
    (n < fuel)%nat -> lowX < highX -> B <= highX + Qofnat n * (highX - lowX) ->
    exists r : Q, expand_high F fuel lowX highX = Some r /\ highX <= r /\ highY <= F r.
  Proof.
    induction fuel as [|k IH]; intros n lowX highX Hn Lt Reach; [lia|]. cbn [expand_high].
    destruct (Qltb (F highX) highY) eqn:C; qb.
    2:{ exists highX. split; [reflexivity|]. split; [lra | exact C]. }
    destruct n as [|n'].
    { exfalso. change (Qofnat 0) with 0 in Reach. assert (B <= highX) by lra. pose proof (F_right highX H). lra. }
    set (h' := Qred (highX + (highX - lowX))).
    assert (Eh : h' == highX + (highX - lowX)) by (unfold h'; apply Qred_correct).
    destruct (IH n' lowX h') as (r & R1 & R2 & R3); [lia | lra | |].
    - rewrite Qofnat_S in Reach. pose proof (Qofnat_nonneg n') as N0.
      rewrite Eh. set (q := Qofnat n') in *. nra.
    - exists r. split; [exact R1|]. split; [lra | exact R3].
  Qed.

  (* the whole search returns an interval for every sufficiently large fuel *)
  Theorem bounds_search_terminates (b : bconf) (xs : list Q) : b <> BBad -> xs <> [] ->
    exists fuel0 : nat, forall fuel : nat, (fuel0 <= fuel)%nat ->
      exists lo hi : Q, bounds_search F b fuel xs = BrOk lo hi.
  Proof.
    intros Hb Hx. destruct xs as [|x0 t]; [congruence|].
    pose proof (start_points_lt x0 t) as SP.
    destruct (start_points x0 t) as [l0 h0] eqn:ES. cbn [fst snd] in SP.
    (* numbers of steps *)
    destruct (Qofnat_above ((l0 - A) / (h0 - l0))) as [n1 N1].
    assert (R1 : l0 - Qofnat n1 * (h0 - l0) <= A).
    { apply div_le_mult in N1; [|lra]. lra. }
    destruct (expand_low_terminates (S n1) n1 l0 h0 (Nat.lt_succ_diag_r _) SP R1) as (lX & E1 & LX & FL).
    destruct (Qofnat_above ((B - h0) / (h0 - lX))) as [n2 N2].
    assert (SP2 : lX < h0) by lra.
    assert (R2 : B <= h0 + Qofnat n2 * (h0 - lX)).
    { apply div_le_mult in N2; [|lra]. lra. }
    destruct (expand_high_terminates (S n2) n2 lX h0 (Nat.lt_succ_diag_r _) SP2 R2) as (hX & E2 & HX & FH).
    destruct (qpow2_above ((hX - lX) * L / (2 * tolerance))) as [n3 N3].
    assert (R3 : (hX - lX) * L <= 2 * tolerance * qpow 2 n3).
    { apply div_le_mult in N3; [|unfold tolerance; lra]. lra. }
    exists (S (n1 + n2 + n3)). intros fuel Hf.
    unfold bounds_search. rewrite ES.
    assert (G : exists lo hi : Q,
              (let '(lowX0, highX0) := (l0, h0) in
               match expand_low F fuel lowX0 highX0 with
               | None => BrFuel
               | Some lowX =>
                   match expand_high F fuel lowX highX0 with
                   | None => BrFuel
                   | Some highX =>
                       match bisect (fun x => F x - lowY) lowX highX tolerance fuel with
                       | BisFuel => BrFuel
                       | BisPanic => BrPanic
                       | BisRet low _ =>
                           match bisect (fun x => F x - highY) lowX highX tolerance fuel with
                           | BisFuel => BrFuel
                           | BisPanic => BrPanic
                           | BisRet high _ => margin_clip b low high
                           end
                       end
                   end
               end) = BrOk lo hi); [|destruct b; try exact G; congruence].
    rewrite (expand_low_fuel_mono F (S n1) fuel l0 h0 lX E1) by lia.
    rewrite (expand_high_fuel_mono F (S n2) fuel lX h0 hX E2) by lia.
    assert (Le : lX <= hX) by lra.
    assert (T0 : 0 < tolerance) by (unfold tolerance; lra).
    assert (Lip1 : forall x y : Q, x <= y -> (F y - lowY) - (F x - lowY) <= L * (y - x)).
    { intros x y H. pose proof (F_lip x y H). lra. }
    assert (Lip2 : forall x y : Q, x <= y -> (F y - highY) - (F x - highY) <= L * (y - x)).
    { intros x y H. pose proof (F_lip x y H). lra. }
    destruct (bisect_terminates (fun x => F x - lowY) L tolerance L_pos T0 Lip1 lX hX n3 fuel Le) as [low B1];
      [unfold lowY, highY, tolerance in *; lra | unfold lowY, highY, tolerance in *; lra | lia | exact R3 |].
    destruct (bisect_terminates (fun x => F x - highY) L tolerance L_pos T0 Lip2 lX hX n3 fuel Le) as [high B2];
      [unfold lowY, highY, tolerance in *; lra | unfold lowY, highY, tolerance in *; lra | lia | exact R3 |].
    rewrite B1, B2. unfold margin_clip. destruct b; try (eexists; eexists; reflexivity). congruence.
  Qed.
End SearchTerm.

(* Proofs/KdeBoundsTerm.v — TERMINATION of the exact search of KDE.Bounds() (Model/KdeBounds.v):
   for a Lipschitz distribution function that is <= 0.005 far left and >= 0.995 far right every
   loop of the search ends within an explicit number of steps, so the search returns an interval
   (BrOk) for every sufficiently large fuel; instance: the model's Epanechnikov KDE.CDF without
   boundaries (Lipschitz constant 3/(4h)).  Over Q, closed under the global context. *)
From Coq Require Import QArith Qround Lqa Lia.
From MM Require Import Base.Num Model.Sample Model.Quantile Model.Kde Model.KdeBounds Spec.Kde Proofs.Kde Proofs.KdeBounds.
Local Open Scope Q_scope.

(* ====================================================================== *)
(* 0. small facts                                                           *)
(* ====================================================================== *)
Lemma qpow2_pos (n : nat) : 0 < qpow 2 n.
Proof. induction n as [|n IH]; cbn [qpow]; lra. Qed.
Lemma qpow2_lin (n : nat) : Qofnat n + 1 <= qpow 2 n.
Proof.
  induction n as [|n IH]; [cbn [qpow]; change (Qofnat 0) with 0; lra|]. cbn [qpow]. rewrite Qofnat_S. pose proof (Qofnat_nonneg n). lra.
Qed.
(* Archimedes: every rational is below a natural number, hence below a power of two *)
Lemma Qofnat_above (q : Q) : exists n : nat, q <= Qofnat n.
Proof.
  exists (Z.to_nat (Qceiling q)). pose proof (Qle_ceiling q) as C. unfold Qofnat.
  destruct (Qceiling q) as [|p|p].
  - exact C.
  - rewrite Z2Nat.id by lia. exact C.
  - cbn [Z.to_nat Z.of_nat].
    assert (H : inject_Z (Z.neg p) <= inject_Z 0) by (rewrite <- Zle_Qle; lia).
    apply (Qle_trans _ _ _ C H).
Qed.
Lemma qpow2_above (q : Q) : exists n : nat, q <= qpow 2 n.
Proof. destruct (Qofnat_above q) as [n H]. exists n. pose proof (qpow2_lin n). lra. Qed.

Lemma div_le_mult (a b c : Q) : 0 < b -> a / b <= c -> a <= c * b.
Proof.
  intros Hb H. assert (E : a == a / b * b) by (field; lra). rewrite E.
  apply Qmult_le_compat_r; [exact H | lra].
Qed.

Lemma Qlmin_le (l : list Q) : forall d : Q, Qlmin d l <= d.
Proof.
  induction l as [|a l IH]; intro d; cbn; [lra|]. change (Qlmin (Qminb d a) l <= d).
  pose proof (IH (Qminb d a)). unfold Qminb in *. destruct (Qle_bool d a) eqn:E; qb; lra.
Qed.
Lemma Qlmax_ge (l : list Q) : forall d : Q, d <= Qlmax d l.
Proof.
  induction l as [|a l IH]; intro d; cbn; [lra|]. change (d <= Qlmax (Qmaxb d a) l).
  pose proof (IH (Qmaxb d a)). unfold Qmaxb in *. destruct (Qle_bool d a) eqn:E; qb; lra.
Qed.
Lemma Qlmin_In (l : list Q) : forall d x : Q, In x l -> Qlmin d l <= x.
Proof.
  induction l as [|a l IH]; intros d x H; [destruct H|]. change (Qlmin (Qminb d a) l <= x).
  destruct H as [<-|H]; [|apply IH, H].
  pose proof (Qlmin_le l (Qminb d a)). unfold Qminb in *. destruct (Qle_bool d a) eqn:E; qb; lra.
Qed.
Lemma Qlmax_In (l : list Q) : forall d x : Q, In x l -> x <= Qlmax d l.
Proof.
  induction l as [|a l IH]; intros d x H; [destruct H|]. change (x <= Qlmax (Qmaxb d a) l).
  destruct H as [<-|H]; [|apply IH, H].
  pose proof (Qlmax_ge l (Qmaxb d a)). unfold Qmaxb in *. destruct (Qle_bool d a) eqn:E; qb; lra.
Qed.
Lemma start_points_lt (x0 : Q) (t : list Q) : fst (start_points x0 t) < snd (start_points x0 t).
Proof.
  unfold start_points. pose proof (Qlmin_le t x0). pose proof (Qlmax_ge t x0).
  destruct (Qeq_bool (Qlmin x0 t) (Qlmax x0 t)) eqn:E; qb; cbn [fst snd]; lra.
Qed.

(* ====================================================================== *)
(* 1. bisect terminates on a Lipschitz function                             *)
(* ====================================================================== *)
Section BisectTerm.
  Variable f : Q -> Q.
  Variables L tol : Q.
  Hypothesis L_pos : 0 < L.
  Hypothesis tol_pos : 0 < tol.
  Hypothesis f_lip : forall x y : Q, x <= y -> f y - f x <= L * (y - x).

  (* bracket invariant: f low < -tol, tol < f high; then L (high - low) > 2 tol, while the width
     halves at every step: n steps suffice when (high - low) L <= 2 tol 2^n *)
  Lemma bisect_loop_terminates (fuel : nat) : forall (n : nat) (low high flow fhigh : Q),
    (n < fuel)%nat -> flow == f low -> fhigh == f high -> f low < - tol -> tol < f high -> low <= high ->
    (high - low) * L <= 2 * tol * qpow 2 n ->
    exists x : Q, bisect_loop f tol fuel low high flow fhigh = BisRet x true.
  Proof.
    induction fuel as [|k IH]; intros n low high flow fhigh Hn Hl Hh Nl Ph Le W; [lia|].
    cbn [bisect_loop]. set (mid := Qred ((high + low) / 2)).
    assert (Em : 2 * mid == high + low) by (unfold mid; rewrite Qred_correct; field).
    pose proof (f_lip low high Le) as Lip.
    assert (Wd : 2 * tol < (high - low) * L) by lra.
    assert (LH : low < high) by nra.
    destruct (within_tol tol (f mid)) eqn:T; [eexists; reflexivity|].
    assert (X : Qeq_bool mid high || Qeq_bool mid low = false).
    { apply orb_false_iff. split; apply Qeq_bool_false; intro E; lra. }
    rewrite X.
    destruct n as [|n']; [cbn [qpow] in W; lra|]. cbn [qpow] in W.
    assert (Out : f mid < - tol \/ tol < f mid).
    { destruct (Qlt_le_dec (f mid) (- tol)) as [A|A]; [left; exact A|].
      destruct (Qlt_le_dec tol (f mid)) as [B|B]; [right; exact B|].
      assert (T' : within_tol tol (f mid) = true) by (apply within_tol_iff; split; assumption). congruence. }
    assert (Sl : qsign flow = (-1)%Z) by (apply qsign_neg; lra).
    destruct Out as [A|A].
    - assert (S : qsign (f mid) = (-1)%Z) by (apply qsign_neg; lra).
      rewrite S, Sl. cbn [Z.eqb Pos.eqb].
      apply (IH n'); [lia | reflexivity | exact Hh | exact A | exact Ph | lra | nra].
    - assert (S : qsign (f mid) = 1%Z) by (apply qsign_pos; lra).
      rewrite S, Sl. cbn [Z.eqb].
      apply (IH n'); [lia | exact Hl | reflexivity | exact Nl | exact A | lra | nra].
  Qed.

  (* bisect itself: no panic, and a point is returned *)
  Lemma bisect_terminates (low high : Q) (n fuel : nat) :
    low <= high -> f low <= tol -> - tol <= f high -> (n < fuel)%nat ->
    (high - low) * L <= 2 * tol * qpow 2 n ->
    exists x : Q, bisect f low high tol fuel = BisRet x true.
  Proof.
    intros Le A B Hn W. unfold bisect.
    destruct (within_tol tol (f low)) eqn:T1; [eexists; reflexivity|].
    destruct (within_tol tol (f high)) eqn:T2; [eexists; reflexivity|].
    assert (Nl : f low < - tol).
    { destruct (Qlt_le_dec (f low) (- tol)) as [C|C]; [exact C|].
      assert (T' : within_tol tol (f low) = true) by (apply within_tol_iff; split; assumption). congruence. }
    assert (Ph : tol < f high).
    { destruct (Qlt_le_dec tol (f high)) as [C|C]; [exact C|].
      assert (T' : within_tol tol (f high) = true) by (apply within_tol_iff; split; assumption). congruence. }
    rewrite (qsign_neg (f low)), (qsign_pos (f high)) by lra. cbn [Z.eqb].
    apply (bisect_loop_terminates fuel n); auto; reflexivity.
  Qed.
End BisectTerm.

(* ====================================================================== *)
(* 2. the bracket expansion and the whole search                            *)
(* ====================================================================== *)
(* more fuel does not change a result *)
Lemma expand_low_fuel_mono (F : Q -> Q) (fuel : nat) : forall (fuel' : nat) (lowX highX r : Q),
  expand_low F fuel lowX highX = Some r -> (fuel <= fuel')%nat -> expand_low F fuel' lowX highX = Some r.
Proof.
  induction fuel as [|k IH]; intros fuel' lowX highX r H Le; cbn [expand_low] in H; [discriminate|].
  destruct fuel' as [|k']; [lia|]. cbn [expand_low].
  destruct (Qltb lowY (F lowX)); [apply IH; [exact H | lia] | exact H].
Qed.
Lemma expand_high_fuel_mono (F : Q -> Q) (fuel : nat) : forall (fuel' : nat) (lowX highX r : Q),
  expand_high F fuel lowX highX = Some r -> (fuel <= fuel')%nat -> expand_high F fuel' lowX highX = Some r.
Proof.
  induction fuel as [|k IH]; intros fuel' lowX highX r H Le; cbn [expand_high] in H; [discriminate|].
  destruct fuel' as [|k']; [lia|]. cbn [expand_high].
  destruct (Qltb (F highX) highY); [apply IH; [exact H | lia] | exact H].
Qed.

Section SearchTerm.
  Variable F : Q -> Q.
  Variables L A B : Q.
  Hypothesis L_pos : 0 < L.
  Hypothesis F_lip : forall x y : Q, x <= y -> F y - F x <= L * (y - x).
  Hypothesis F_left : forall x : Q, x <= A -> F x <= lowY.
  Hypothesis F_right : forall x : Q, B <= x -> highY <= F x.

  (* each step subtracts at least the initial width: n steps reach A when lowX - n w <= A *)
  Lemma expand_low_terminates (fuel : nat) : forall (n : nat) (lowX highX : Q),
    (n < fuel)%nat -> lowX < highX -> lowX - Qofnat n * (highX - lowX) <= A ->
    exists r : Q, expand_low F fuel lowX highX = Some r /\ r <= lowX /\ F r <= lowY.
  Proof.
    induction fuel as [|k IH]; intros n lowX highX Hn Lt Reach; [lia|]. cbn [expand_low].
    destruct (Qltb lowY (F lowX)) eqn:C; qb.
    2:{ exists lowX. split; [reflexivity|]. split; [lra | exact C]. }
    destruct n as [|n'].
    { exfalso. change (Qofnat 0) with 0 in Reach. assert (lowX <= A) by lra. pose proof (F_left lowX H). lra. }
    set (l' := Qred (lowX - (highX - lowX))).
    assert (El : l' == lowX - (highX - lowX)) by (unfold l'; apply Qred_correct).
    destruct (IH n' l' highX) as (r & R1 & R2 & R3); [lia | lra | |].
    - rewrite Qofnat_S in Reach. pose proof (Qofnat_nonneg n') as N0.
      rewrite El. set (q := Qofnat n') in *. nra.
    - exists r. split; [exact R1|]. split; [lra | exact R3].
  Qed.
  Lemma expand_high_terminates (fuel : nat) : forall (n : nat) (lowX highX : Q),
    (n < fuel)%nat -> lowX < highX -> B <= highX + Qofnat n * (highX - lowX) ->
    exists r : Q, expand_high F fuel lowX highX = Some r /\ highX <= r /\ highY <= F r.
  Proof.
    induction fuel as [|k IH]; intros n lowX highX Hn Lt Reach; [lia|]. cbn [expand_high].
    destruct (Qltb (F highX) highY) eqn:C; qb.
    2:{ exists highX. split; [reflexivity|]. split; [lra | exact C]. }
    destruct n as [|n'].
    { exfalso. change (Qofnat 0) with 0 in Reach. assert (B <= highX) by lra. pose proof (F_right highX H). lra. }
    set (h' := Qred (highX + (highX - lowX))).
    assert (Eh : h' == highX + (highX - lowX)) by (unfold h'; apply Qred_correct).
    destruct (IH n' lowX h') as (r & R1 & R2 & R3); [lia | lra | |].
    - rewrite Qofnat_S in Reach. pose proof (Qofnat_nonneg n') as N0.
      rewrite Eh. set (q := Qofnat n') in *. nra.
    - exists r. split; [exact R1|]. split; [lra | exact R3].
  Qed.

  (* the whole search returns an interval for every sufficiently large fuel *)
  Theorem bounds_search_terminates (b : bconf) (xs : list Q) : b <> BBad -> xs <> [] ->
    exists fuel0 : nat, forall fuel : nat, (fuel0 <= fuel)%nat ->
      exists lo hi : Q, bounds_search F b fuel xs = BrOk lo hi.
  Proof.
    intros Hb Hx. destruct xs as [|x0 t]; [congruence|].
    pose proof (start_points_lt x0 t) as SP.
    destruct (start_points x0 t) as [l0 h0] eqn:ES. cbn [fst snd] in SP.
    (* numbers of steps *)
    destruct (Qofnat_above ((l0 - A) / (h0 - l0))) as [n1 N1].
    assert (R1 : l0 - Qofnat n1 * (h0 - l0) <= A).
    { apply div_le_mult in N1; [|lra]. lra. }
    destruct (expand_low_terminates (S n1) n1 l0 h0 (Nat.lt_succ_diag_r _) SP R1) as (lX & E1 & LX & FL).
    destruct (Qofnat_above ((B - h0) / (h0 - lX))) as [n2 N2].
    assert (SP2 : lX < h0) by lra.
    assert (R2 : B <= h0 + Qofnat n2 * (h0 - lX)).
    { apply div_le_mult in N2; [|lra]. lra. }
    destruct (expand_high_terminates (S n2) n2 lX h0 (Nat.lt_succ_diag_r _) SP2 R2) as (hX & E2 & HX & FH).
    destruct (qpow2_above ((hX - lX) * L / (2 * tolerance))) as [n3 N3].
    assert (R3 : (hX - lX) * L <= 2 * tolerance * qpow 2 n3).
    { apply div_le_mult in N3; [|unfold tolerance; lra]. lra. }
    exists (S (n1 + n2 + n3)). intros fuel Hf.
    unfold bounds_search. rewrite ES.
    assert (G : exists lo hi : Q,
              (let '(lowX0, highX0) := (l0, h0) in
               match expand_low F fuel lowX0 highX0 with
               | None => BrFuel
               | Some lowX =>
                   match expand_high F fuel lowX highX0 with
                   | None => BrFuel
                   | Some highX =>
                       match bisect (fun x => F x - lowY) lowX highX tolerance fuel with
                       | BisFuel => BrFuel
                       | BisPanic => BrPanic
                       | BisRet low _ =>
                           match bisect (fun x => F x - highY) lowX highX tolerance fuel with
                           | BisFuel => BrFuel
                           | BisPanic => BrPanic
                           | BisRet high _ => margin_clip b low high
                           end
                       end
                   end
               end) = BrOk lo hi); [|destruct b; try exact G; congruence].
    rewrite (expand_low_fuel_mono F (S n1) fuel l0 h0 lX E1) by lia.
    rewrite (expand_high_fuel_mono F (S n2) fuel lX h0 hX E2) by lia.
    assert (Le : lX <= hX) by lra.
    assert (T0 : 0 < tolerance) by (unfold tolerance; lra).
    assert (Lip1 : forall x y : Q, x <= y -> (F y - lowY) - (F x - lowY) <= L * (y - x)).
    { intros x y H. pose proof (F_lip x y H). lra. }
    assert (Lip2 : forall x y : Q, x <= y -> (F y - highY) - (F x - highY) <= L * (y - x)).
    { intros x y H. pose proof (F_lip x y H). lra. }
    destruct (bisect_terminates (fun x => F x - lowY) L tolerance L_pos T0 Lip1 lX hX n3 fuel Le) as [low B1];
      [unfold lowY, highY, tolerance in *; lra | unfold lowY, highY, tolerance in *; lra | lia | exact R3 |].
    destruct (bisect_terminates (fun x => F x - highY) L tolerance L_pos T0 Lip2 lX hX n3 fuel Le) as [high B2];
      [unfold lowY, highY, tolerance in *; lra | unfold lowY, highY, tolerance in *; lra | lia | exact R3 |].
    rewrite B1, B2. unfold margin_clip. destruct b; try (eexists; eexists; reflexivity). congruence.
  Qed.
End SearchTerm.

(* ====================================================================== *)
(* 3. the Epanechnikov distribution function is Lipschitz with constant 3/(4h) *)
(* ====================================================================== *)
(* P(v) - P(u) = (v - u) (3 - (u^2 + u v + v^2)) / 4 <= 3/4 (v - u)  for u <= v *)
Lemma epan_poly_lip (u v : Q) : u <= v ->
  (1 # 4) * (2 + 3 * v - v * v * v) - (1 # 4) * (2 + 3 * u - u * u * u) <= (3 # 4) * (v - u).
Proof.
  intro H.
  assert (E : (3 # 4) * (v - u) - ((1 # 4) * (2 + 3 * v - v * v * v) - (1 # 4) * (2 + 3 * u - u * u * u))
              == (1 # 4) * ((v - u) * (u * u + u * v + v * v))) by ring.
  assert (0 <= (v - u) * (u * u + u * v + v * v)); [|lra].
  apply Qmult_le_0_compat; [lra|]. nra.
Qed.

(* epan_cdf h x = P(u) with u = x/h clamped to [-1, 1] *)
Lemma epan_cdf_clamp (h x : Q) : 0 < h ->
  exists u : Q, epan_cdf h x == (1 # 4) * (2 + 3 * u - u * u * u) /\
    ((x <= - h /\ u == -1) \/ (- h < x /\ x <= h /\ u * h == x) \/ (h < x /\ u == 1)).
Proof.
  intro Hh. destruct (Qlt_le_dec (- h) x) as [A|A].
  - destruct (Qlt_le_dec h x) as [B|B].
    + exists 1. split; [rewrite epan_cdf_right by lra; ring | right; right; split; [exact B | reflexivity]].
    + exists (x / h). split; [apply epan_cdf_mid; assumption|]. right; left.
      split; [exact A|]. split; [exact B | field; lra].
  - exists (-1). split; [rewrite epan_cdf_left by lra; ring | left; split; [exact A | reflexivity]].
Qed.

Theorem epan_cdf_lipschitz (h s t : Q) : 0 < h -> s <= t ->
  epan_cdf h t - epan_cdf h s <= (3 # 4) / h * (t - s).
Proof.
  intros Hh Hst.
  destruct (epan_cdf_clamp h s Hh) as (u & Eu & Cu). destruct (epan_cdf_clamp h t Hh) as (v & Ev & Cv).
  rewrite Eu, Ev.
  assert (K : u <= v /\ (v - u) * h <= t - s).
  { destruct Cu as [[S1 U]|[(S1 & S2 & U)|[S1 U]]]; destruct Cv as [[T1 V]|[(T1 & T2 & V)|[T1 V]]];
      try (exfalso; lra).
    - rewrite U, V. split; lra.
    - rewrite U. assert (-1 < v) by nra. split; [lra|]. lra.
    - rewrite U, V. split; lra.
    - assert (u <= v) by nra. split; [lra|]. lra.
    - rewrite V. assert (u <= 1) by nra. split; [lra|]. lra.
    - rewrite U, V. split; lra. }
  destruct K as [K1 K2].
  apply Qle_trans with ((3 # 4) * (v - u)); [apply epan_poly_lip; exact K1|].
  assert (E : (3 # 4) / h * (t - s) == (3 # 4) * ((t - s) / h)) by (field; lra). rewrite E.
  assert (v - u <= (t - s) / h) by (apply Qle_shift_div_l; assumption). lra.
Qed.

(* a weighted average of L-Lipschitz functions is L-Lipschitz *)
Lemma Qsum_scal {A} (w : A -> Q) (c : Q) (l : list A) :
  Qsum (map (fun p => w p * c) l) == c * Qsum (map w l).
Proof. induction l as [|p l IH]; cbn [map Qsum]; [ring | rewrite IH; ring]. Qed.

Lemma wavg_lipschitz (ps : list (Q * Q)) (g : Q -> Q) (L : Q) : pairs_ok ps ->
  (forall s t : Q, s <= t -> g t - g s <= L * (t - s)) ->
  forall x y : Q, x <= y -> wavg g ps y - wavg g ps x <= L * (y - x).
Proof.
  intros ok G x y Hxy. pose proof (wtotal_pos ps ok) as Wp.
  assert (wpos : forall p, In p ps -> 0 < snd p).
  { destruct ok as [_ Fa]. rewrite Forall_forall in Fa. exact Fa. }
  unfold wavg.
  assert (S : Qsum (map (fun p => snd p * g (y - fst p)) ps) - Qsum (map (fun p => snd p * g (x - fst p)) ps)
              <= L * (y - x) * wtotal ps).
  { rewrite Qsum_minus. unfold wtotal. rewrite <- (Qsum_scal snd (L * (y - x)) ps).
    apply Qsum_le. intros p Hp. pose proof (wpos p Hp) as W.
    assert (H : x - fst p <= y - fst p) by lra. pose proof (G _ _ H) as H'.
    assert (E : L * (y - fst p - (x - fst p)) == L * (y - x)) by ring. rewrite E in H'.
    set (c := L * (y - x)) in *. set (a := g (y - fst p)) in *. set (b := g (x - fst p)) in *. nra. }
  set (W := wtotal ps) in *.
  set (a := Qsum (map (fun p => snd p * g (y - fst p)) ps)) in *.
  set (b := Qsum (map (fun p => snd p * g (x - fst p)) ps)) in *.
  assert (E : a / W - b / W == (a - b) / W) by (field; lra). rewrite E.
  apply Qle_shift_div_r; [exact Wp | exact S].
Qed.

(* ====================================================================== *)
(* 4. instance: the model's Epanechnikov KDE, no boundary or one boundary   *)
(* ====================================================================== *)
(* reflection at one boundary doubles the Lipschitz constant *)
Lemma refl_low_lipschitz (G F : Q -> Q) (L m : Q) : 0 < L ->
  (forall x y : Q, x <= y -> G y - G x <= L * (y - x)) ->
  (forall x : Q, (x < m -> F x == 0) /\ (m <= x -> F x == G x - G (2 * m - x))) ->
  forall x y : Q, x <= y -> F y - F x <= 2 * L * (y - x).
Proof.
  intros HL Lip D x y Hxy. destruct (D x) as [X1 X2]. destruct (D y) as [Y1 Y2].
  destruct (Qlt_le_dec x m) as [A|A]; destruct (Qlt_le_dec y m) as [B|B].
  - rewrite (X1 A), (Y1 B). nra.
  - rewrite (X1 A), (Y2 B). assert (Hr : 2 * m - y <= y) by lra. pose proof (Lip _ _ Hr). nra.
  - exfalso. lra.
  - rewrite (X2 A), (Y2 B). pose proof (Lip x y Hxy). assert (Hr : 2 * m - y <= 2 * m - x) by lra.
    pose proof (Lip _ _ Hr). nra.
Qed.
Lemma refl_high_lipschitz (G F : Q -> Q) (L M : Q) : 0 < L ->
  (forall x y : Q, x <= y -> G y - G x <= L * (y - x)) ->
  (forall x : Q, (M <= x -> F x == 1) /\ (x < M -> F x == G x + (1 - G (2 * M - x)))) ->
  forall x y : Q, x <= y -> F y - F x <= 2 * L * (y - x).
Proof.
  intros HL Lip D x y Hxy. destruct (D x) as [X1 X2]. destruct (D y) as [Y1 Y2].
  destruct (Qlt_le_dec x M) as [A|A]; destruct (Qlt_le_dec y M) as [B|B].
  - rewrite (X2 A), (Y2 B). pose proof (Lip x y Hxy). assert (Hr : 2 * M - y <= 2 * M - x) by lra.
    pose proof (Lip _ _ Hr). nra.
  - rewrite (X2 A), (Y1 B). assert (Hr : x <= 2 * M - x) by lra. pose proof (Lip _ _ Hr). nra.
  - exfalso. lra.
  - rewrite (X1 A), (Y1 B). nra.
Qed.

Lemma pairs_within_exists (ps : list (Q * Q)) : exists lo hi : Q, pairs_within lo hi ps.
Proof.
  induction ps as [|p ps (lo & hi & IH)]; [exists 0, 0; constructor|].
  exists (Qminb lo (fst p)), (Qmaxb hi (fst p)). constructor.
  - unfold Qminb, Qmaxb. destruct (Qle_bool lo (fst p)) eqn:A, (Qle_bool hi (fst p)) eqn:B; qb; lra.
  - unfold pairs_within in *. eapply Forall_impl; [|exact IH]. cbv beta. intros q [Q1 Q2].
    unfold Qminb, Qmaxb. destruct (Qle_bool lo (fst p)) eqn:A, (Qle_bool hi (fst p)) eqn:B; qb; lra.
Qed.

(* the data inside the one boundary, if there is one (the property's quantifier); two
   boundaries are not covered here *)
Definition bounds_ok_half (k : kde) : Prop :=
  match k_b k with
  | BNone => True
  | BLower m => exists hi : Q, pairs_within m hi (kde_ps k)
  | BUpper M => exists lo : Q, pairs_within lo M (kde_ps k)
  | _ => False
  end.

Section EpanTerm.
  Variable k : kde.
  Hypothesis ok : kde_ok k.
  Hypothesis kern : k_kernel k = KEpan.
  Hypothesis hok : bounds_ok_half k.

  Let h_pos : 0 < k_h k. Proof. apply ok. Qed.
  Let bok : bounds_ok k.
  Proof. unfold bounds_ok. unfold bounds_ok_half in hok. destruct (k_b k); try exact I; contradiction. Qed.
  Let L := (3 # 4) / k_h k.
  Let L_pos : 0 < L. Proof. unfold L. apply Qlt_shift_div_l; lra. Qed.
  Let G_lip : forall x y : Q, x <= y -> kde_F k y - kde_F k x <= L * (y - x).
  Proof.
    apply wavg_lipschitz; [apply kde_ps_ok, ok|]. intros s t. apply epan_cdf_lipschitz, h_pos.
  Qed.

  (* KDE.CDF of the model is Lipschitz: 3/(4h) without boundary, 3/(2h) with one *)
  Lemma kde_cdf_q_lipschitz : forall x y : Q, x <= y -> kde_cdf_q k y - kde_cdf_q k x <= 2 * L * (y - x).
  Proof.
    unfold bounds_ok_half in hok. destruct (k_b k) as [|m|M|m M|] eqn:B; try contradiction.
    - intros x y Hxy.
      destruct (kde_unbounded_is_average k ok kern x B) as (? & cx & _ & Cx & _ & Ex).
      destruct (kde_unbounded_is_average k ok kern y B) as (? & cy & _ & Cy & _ & Ey).
      unfold kde_cdf_q. rewrite Cx, Cy, Ex, Ey. pose proof (G_lip x y Hxy). nra.
    - apply (refl_low_lipschitz (kde_F k) (kde_cdf_q k) L m L_pos G_lip). intro x.
      destruct (kde_lower_reflects k ok kern m x B) as [H1 H2]. unfold kde_cdf_q. split; intro H.
      + destruct (H1 H) as [_ C]. rewrite C. reflexivity.
      + destruct (H2 H) as (? & c & _ & C & _ & E). rewrite C. exact E.
    - apply (refl_high_lipschitz (kde_F k) (kde_cdf_q k) L M L_pos G_lip). intro x.
      destruct (kde_upper_reflects k ok kern M x B) as [H1 H2]. unfold kde_cdf_q. split; intro H.
      + destruct (H1 H) as [_ C]. rewrite C. reflexivity.
      + destruct (H2 H) as (? & c & _ & C & _ & E). rewrite C. exact E.
  Qed.

  (* far left the CDF is 0, far right it is 1 *)
  Lemma kde_cdf_q_tails : exists A B : Q,
    (forall x : Q, x <= A -> kde_cdf_q k x <= lowY) /\ (forall x : Q, B <= x -> highY <= kde_cdf_q k x).
  Proof.
    assert (W : exists lo hi : Q, pairs_within lo hi (kde_ps k) /\
              match k_b k with BNone => True | BLower m => m <= lo | BUpper M => hi <= M | _ => False end).
    { unfold bounds_ok_half in hok. destruct (k_b k) as [|m|M|m M|]; try contradiction.
      - destruct (pairs_within_exists (kde_ps k)) as (lo & hi & H). exists lo, hi. split; [exact H | exact I].
      - destruct hok as [hi H]. exists m, hi. split; [exact H | lra].
      - destruct hok as [lo H]. exists lo, M. split; [exact H | lra]. }
    destruct W as (lo & hi & Hin & Hb).
    destruct (kde_cdf_limits k ok kern bok lo hi Hin Hb) as [T0 T1].
    exists (lo - k_h k), (hi + k_h k). split; intros x Hx.
    - rewrite (T0 x _ Hx (kde_cdf_q_epan k ok kern bok x)). unfold lowY. lra.
    - rewrite (T1 x _ Hx (kde_cdf_q_epan k ok kern bok x)). unfold highY. lra.
  Qed.

  Theorem kde_bounds_search_terminates :
    exists fuel0 : nat, forall fuel : nat, (fuel0 <= fuel)%nat ->
      exists lo hi clo chi : Q, kde_bounds_search k fuel = BrOk lo hi /\
        kde_cdf k lo = Some (XFin clo) /\ kde_cdf k hi = Some (XFin chi) /\
        kde_bounds_ok (k_b k) (XFin lo) (XFin hi) (chi - clo) = true.
  Proof.
    destruct kde_cdf_q_tails as (A & B & TA & TB).
    assert (L2 : 0 < 2 * L) by lra.
    assert (Hb : k_b k <> BBad). { unfold bounds_ok_half in hok. destruct (k_b k); try discriminate. contradiction. }
    assert (Hx : k_xs k <> []) by apply ok.
    destruct (bounds_search_terminates (kde_cdf_q k) (2 * L) A B L2 kde_cdf_q_lipschitz TA TB (k_b k) (k_xs k) Hb Hx)
      as [fuel0 T].
    exists fuel0. intros fuel Hf. destruct (T fuel Hf) as (lo & hi & E).
    assert (E' : kde_bounds_search k fuel = BrOk lo hi) by (unfold kde_bounds_search; rewrite kern; exact E).
    destruct (kde_bounds_search_epan k ok kern bok fuel) as [_ S].
    destruct (S lo hi E') as (clo & chi & C1 & C2 & Acc).
    exists lo, hi, clo, chi. auto.
  Qed.
End EpanTerm.

(* ====================================================================== *)
(* 5. grouped for Properties/C12.v                                          *)
(* ====================================================================== *)
Lemma G_bounds_search_terminates :
  (* bisect on a Lipschitz function: n halvings suffice when (high - low) L <= 2 tol 2^n *)
  (forall (f : Q -> Q) (L tol : Q), 0 < L -> 0 < tol ->
     (forall x y : Q, x <= y -> f y - f x <= L * (y - x)) ->
     forall (low high : Q) (n fuel : nat), low <= high -> f low <= tol -> - tol <= f high -> (n < fuel)%nat ->
       (high - low) * L <= 2 * tol * qpow 2 n ->
       exists x : Q, bisect f low high tol fuel = BisRet x true) /\
  (forall (F : Q -> Q) (L A B : Q), 0 < L ->
     (forall x y : Q, x <= y -> F y - F x <= L * (y - x)) ->
     (forall x : Q, x <= A -> F x <= lowY) -> (forall x : Q, B <= x -> highY <= F x) ->
     (* the bracket expansion: n steps suffice when n initial widths reach A resp. B *)
     (forall (fuel n : nat) (lowX highX : Q), (n < fuel)%nat -> lowX < highX ->
        lowX - Qofnat n * (highX - lowX) <= A ->
        exists r : Q, expand_low F fuel lowX highX = Some r /\ r <= lowX /\ F r <= lowY) /\
     (forall (fuel n : nat) (lowX highX : Q), (n < fuel)%nat -> lowX < highX ->
        B <= highX + Qofnat n * (highX - lowX) ->
        exists r : Q, expand_high F fuel lowX highX = Some r /\ highX <= r /\ highY <= F r) /\
     (* the whole search *)
     (forall (b : bconf) (xs : list Q), b <> BBad -> xs <> [] ->
        exists fuel0 : nat, forall fuel : nat, (fuel0 <= fuel)%nat ->
          exists lo hi : Q, bounds_search F b fuel xs = BrOk lo hi)) /\
  (forall h s t : Q, 0 < h -> s <= t -> epan_cdf h t - epan_cdf h s <= (3 # 4) / h * (t - s)) /\
  (forall k : kde, kde_ok k -> k_kernel k = KEpan -> bounds_ok_half k ->
     (forall x y : Q, x <= y -> kde_cdf_q k y - kde_cdf_q k x <= 2 * ((3 # 4) / k_h k) * (y - x)) /\
     exists fuel0 : nat, forall fuel : nat, (fuel0 <= fuel)%nat ->
       exists lo hi clo chi : Q, kde_bounds_search k fuel = BrOk lo hi /\
         kde_cdf k lo = Some (XFin clo) /\ kde_cdf k hi = Some (XFin chi) /\
         kde_bounds_ok (k_b k) (XFin lo) (XFin hi) (chi - clo) = true).
Proof.
  split; [|split; [|split]].
  - intros f L tol HL Ht Lip low high n fuel. apply (bisect_terminates f L tol HL Ht Lip).
  - intros F L A B HL Lip TA TB. split; [|split].
    + intros fuel. apply (expand_low_terminates F A TA fuel).
    + intros fuel. apply (expand_high_terminates F B TB fuel).
    + apply (bounds_search_terminates F L A B HL Lip TA TB).
  - exact epan_cdf_lipschitz.
  - intros k ok kern hok. split; [apply kde_cdf_q_lipschitz; assumption | apply kde_bounds_search_terminates; assumption].
Qed.

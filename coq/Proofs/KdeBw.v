(* Proofs/KdeBw.v — the bandwidth rules of Model/Kde.v (BandwidthSilverman, BandwidthScott)
   against the textbook sample variance (var_def of Proofs/Stream.v, shared with C09/C13).
   The model returns the 10th power of the bandwidth (no roots in Q):
      (1.06 * s * n^(-1/5))^10 = 1.06^10 * (s^2)^5 / n^2  =  rule10 (s^2) n. *)
From MM Require Import Base.Num Base.GASort Model.Stream Proofs.Stream Model.Sample Spec.Sample Proofs.Sample.
From MM Require Import Model.Quantile Spec.Quantile Proofs.Quantile Model.Kde Spec.Kde.
From Coq Require Import Lqa Lia.
Local Open Scope Q_scope.

Lemma kvar_loop_eq xs : forall n mean m2, kvar_loop xs n mean m2 = var_loop xs n mean m2.
Proof. induction xs as [|x xs IH]; intros; cbn [kvar_loop var_loop]; [reflexivity | apply IH]. Qed.

(* the Welford loop of Sample.Variance computes the textbook (n-1)-variance *)
Lemma kvariance_spec xs : (2 <= length xs)%nat -> exists v, kvariance xs = Some v /\ v == var_def xs.
Proof.
  intro L. destruct (welford_var_eq xs L) as [v [V1 V2]].
  destruct xs as [|x0 [|x1 t]]; [cbn in L; lia | cbn in L; lia |].
  set (l := x0 :: x1 :: t) in *.
  change (variance l) with (FVal (snd (var_loop l 0 0 0) / Qofnat (length l - 1))) in V1.
  change (kvariance l) with (Some (Qred (snd (kvar_loop l 0 0 0) / Qofnat (length l - 1)))).
  rewrite kvar_loop_eq.
  assert (E : snd (var_loop l 0 0 0) / Qofnat (length l - 1) = v) by congruence.
  eexists. split; [reflexivity|]. rewrite Qred_correct, E. exact V2.
Qed.

Lemma qpow_is_power q n : qpow q n = Qpower_nat q n.
Proof. induction n as [|n IH]; cbn; [reflexivity | now rewrite IH]. Qed.
Lemma Qpower_nat_comp a b n : a == b -> Qpower_nat a n == Qpower_nat b n.
Proof. intro E. induction n as [|n IH]; cbn; [reflexivity | rewrite IH, E; reflexivity]. Qed.

Lemma bw10_is_rule10 v v' n : v == v' -> bw10 v n == rule10 v' n.
Proof.
  intro E. unfold bw10, rule10, c106. rewrite !qpow_is_power, (Qpower_nat_comp v v' 5 E). reflexivity.
Qed.

(* BandwidthSilverman = 1.06 * s * n^(-1/5), in 10th powers *)
Theorem silverman_rule (s : sample) : s_ws s = None -> (2 <= length (s_xs s))%nat ->
  exists v, bandwidth_silverman10 s = BwPow10 v /\
            v == rule10 (var_def (s_xs s)) (Qofnat (length (s_xs s))).
Proof.
  intros W L. destruct (kvariance_spec (s_xs s) L) as [v [V1 V2]].
  unfold bandwidth_silverman10. rewrite W.
  destruct (s_xs s) as [|x0 xs] eqn:X; [cbn in L; lia|]. rewrite V1.
  eexists. split; [reflexivity|]. apply bw10_is_rule10. exact V2.
Qed.

(* BandwidthScott = 1.06 * min(s, IQR/1.349) * n^(-1/5), in 10th powers: the smaller of the
   variance and the squared robust estimate (both estimates are non-negative, so comparing
   squares is comparing the estimates) *)
Theorem scott_rule (s : sample) (a b : Q) : s_ws s = None -> (2 <= length (s_xs s))%nat ->
  quantile s (3 # 4) = RVal a -> quantile s (1 # 4) = RVal b ->
  exists v, bandwidth_scott10 s = BwPow10 v /\
            let r := (a - b) / (1349 # 1000) in
            v == rule10 (Qminb (var_def (s_xs s)) (r * r)) (Qofnat (length (s_xs s))).
Proof.
  intros W L Qa Qb. destruct (kvariance_spec (s_xs s) L) as [v [V1 V2]].
  unfold bandwidth_scott10. rewrite W, Qa, Qb.
  destruct (s_xs s) as [|x0 xs] eqn:X; [cbn in L; lia|]. rewrite V1. cbv zeta. fold c1349.
  set (r := (a - b) / c1349). unfold Qminb.
  destruct (Qltb v (r * r)) eqn:A; eexists; (split; [reflexivity|]).
  - assert (B : Qle_bool (var_def (x0 :: xs)) (r * r) = true).
    { apply Qle_bool_iff. unfold Qltb in A. apply negb_true_iff in A.
      destruct (Qlt_le_dec v (r * r)) as [Lt|Le]; [rewrite <- V2; apply Qlt_le_weak, Lt|].
      apply Qle_bool_iff in Le. congruence. }
    rewrite B. apply bw10_is_rule10. exact V2.
  - unfold Qltb in A. apply negb_false_iff in A. apply Qle_bool_iff in A.
    destruct (Qle_bool (var_def (x0 :: xs)) (r * r)) eqn:B.
    + apply Qle_bool_iff in B. apply bw10_is_rule10. rewrite <- V2 in B.
      apply Qle_antisym; [exact A | exact B] || (rewrite <- V2; apply Qle_antisym; assumption).
    + apply bw10_is_rule10. reflexivity.
Qed.

(* for a plain unweighted sample the two quantiles exist (Hyndman-Fan type 8 with the code's
   float constant for 1/3: hf_def third_f, C10), the inter-quartile range is non-negative, and
   Scott's rule is the formula *)
Theorem scott_rule_unsorted (xs : list Q) : (2 <= length xs)%nat ->
  exists a b v : Q,
    quantile (unsorted xs) (3 # 4) = RVal a /\ quantile (unsorted xs) (1 # 4) = RVal b /\
    a == hf_def third_f xs (3 # 4) /\ b == hf_def third_f xs (1 # 4) /\ b <= a /\
    bandwidth_scott10 (unsorted xs) = BwPow10 v /\
    let r := (a - b) / (1349 # 1000) in
    v == rule10 (Qminb (var_def xs) (r * r)) (Qofnat (length xs)).
Proof.
  intro L. assert (Hne : xs <> []) by (destruct xs; [cbn in L; lia | discriminate]).
  destruct (quantile_code_hf xs (3 # 4) Hne) as [a [A1 A2]].
  destruct (quantile_code_hf xs (1 # 4) Hne) as [b [B1 B2]].
  destruct (scott_rule (unsorted xs) a b eq_refl L A1 B1) as [v [V1 V2]].
  exists a, b, v. repeat split; try assumption.
  apply (quantile_monotone_in_q xs (1 # 4) (3 # 4) b a); [discriminate | exact B1 | exact A1].
Qed.

(* Sample.Sorted (on ascending data) does not change the rules: same squared scale estimate *)
Theorem bandwidth_rules_sorted_flag (xs : list Q) : (2 <= length xs)%nat -> ascending xs ->
  bandwidth_silverman10 (marked_sorted xs) = bandwidth_silverman10 (unsorted xs) /\
  exists v v' : Q, bandwidth_scott10 (marked_sorted xs) = BwPow10 v /\
                   bandwidth_scott10 (unsorted xs) = BwPow10 v' /\ v == v'.
Proof.
  intros L A. split; [reflexivity|].
  assert (Hne : xs <> []) by (destruct xs; [cbn in L; lia | discriminate]).
  destruct third_f_range as [T0 T1].
  destruct (quantile_sorted_hf third_f xs (3 # 4) T0 T1 Hne A) as [a [A1 A2]].
  destruct (quantile_sorted_hf third_f xs (1 # 4) T0 T1 Hne A) as [b [B1 B2]].
  destruct (quantile_code_hf xs (3 # 4) Hne) as [a' [A1' A2']].
  destruct (quantile_code_hf xs (1 # 4) Hne) as [b' [B1' B2']].
  destruct (scott_rule (marked_sorted xs) a b eq_refl L A1 B1) as [v [V1 V2]].
  destruct (scott_rule (unsorted xs) a' b' eq_refl L A1' B1') as [v' [V1' V2']].
  exists v, v'. split; [exact V1|]. split; [exact V1'|].
  cbv zeta in V2, V2'. rewrite V2, V2'. cbn [s_xs marked_sorted unsorted].
  assert (Ea : a == a') by (rewrite A2, A2'; reflexivity).
  assert (Eb : b == b') by (rewrite B2, B2'; reflexivity).
  assert (Er : (a - b) / (1349 # 1000) * ((a - b) / (1349 # 1000)) == (a' - b') / (1349 # 1000) * ((a' - b') / (1349 # 1000)))
    by (rewrite Ea, Eb; reflexivity).
  unfold rule10. apply Qdiv_comp; [|reflexivity]. apply Qmult_comp; [reflexivity|].
  apply Qpower_nat_comp. unfold Qminb.
  destruct (Qle_bool (var_def xs) ((a - b) / (1349 # 1000) * ((a - b) / (1349 # 1000)))) eqn:C1;
    destruct (Qle_bool (var_def xs) ((a' - b') / (1349 # 1000) * ((a' - b') / (1349 # 1000)))) eqn:C2;
    try reflexivity; try exact Er; try (symmetry; exact Er);
    rewrite Er in C1; congruence.
Qed.

(* the rules are not defined for an empty sample (NaN) and panic for a weighted one
   (Sample.StdDev: "not implemented") *)
Theorem bandwidth_rules_undefined :
  (forall ws b, bandwidth_scott10 (mkSample [] ws b) = BwNaN /\ bandwidth_silverman10 (mkSample [] ws b) = BwNaN) /\
  (forall x xs w b, bandwidth_scott10 (mkSample (x :: xs) (Some w) b) = BwPanic /\
                    bandwidth_silverman10 (mkSample (x :: xs) (Some w) b) = BwPanic).
Proof. split; intros; split; reflexivity. Qed.

(* non-vacuity: the hypotheses of scott_rule are met by {1,2,4,8,16} *)
Example scott_rule_example :
  let s := mkSample [1; 2; 4; 8; 16] None false in
  exists a b, s_ws s = None /\ (2 <= length (s_xs s))%nat /\
              quantile s (3 # 4) = RVal a /\ quantile s (1 # 4) = RVal b.
Proof. cbv zeta. eexists; eexists. repeat split; try (cbn; lia); vm_compute; reflexivity. Qed.

(* Proofs/KdeCap.v — capstone of C12: the values the executable model (Model/Kde.v) computes
   for the Epanechnikov kernel are, in every boundary setting, the values at rational points
   of a pair of REAL functions (fR, FR) that is a genuine probability distribution:
   FR' = fR everywhere, fR >= 0 and continuous, FR non-decreasing, integral of fR over any
   interval = difference of FR, total mass on the support = 1.
   Combines Proofs/Kde.v (model = rational spec, axiom-free) with Proofs/KdeQR.v (rational spec
   = real spec at rational points) and Proofs/KdeR.v (analysis of the real spec). *)
From Coq Require Import Reals QArith Qreals Lia.
From Coquelicot Require Import Coquelicot.
From MM Require Import Base.Num Model.Kde Spec.Kde Proofs.Kde.
From MM Require RealSpec.KdeR Proofs.KdeR Proofs.KdeQR.

Section Capstone.
  Variable k : kde.
  Hypothesis ok : kde_ok k.
  Hypothesis kern : k_kernel k = KEpan.

  Let h := k_h k.
  Let ps := kde_ps k.
  Let pok : pairs_ok ps := kde_ps_ok k ok.
  Let hpos : (0 < h)%Q. Proof. apply ok. Qed.

  (* no boundary *)
  Theorem model_proper_unbounded : k_b k = BNone ->
    exists fR FR : R -> R,
      KdeQR.proper_pair fR FR /\ (forall x : R, (0 <= FR x <= 1)%R) /\
      (forall lo hi : Q, pairs_within lo hi ps ->
         (forall x : R, (x <= Q2R lo - Q2R h)%R -> FR x = 0%R) /\
         (forall x : R, (Q2R hi + Q2R h <= x)%R -> FR x = 1%R) /\
         RInt fR (Q2R lo - Q2R h) (Q2R hi + Q2R h) = 1%R) /\
      forall x : Q, exists p c : Q,
        kde_pdf k x = Some (XFin p) /\ kde_cdf k x = Some (XFin c) /\
        Q2R p = fR (Q2R x) /\ Q2R c = FR (Q2R x).
  Proof.
    intro B. destruct (KdeQR.epan_kde_Q_proper ps h pok hpos) as (A1 & A2 & PP & Rg & Lim).
    eexists; eexists. split; [exact PP|]. split; [exact Rg|]. split; [exact Lim|].
    intro x. destruct (kde_unbounded_is_average k ok kern x B) as (p & c & P & C & E1 & E2).
    exists p, c. repeat split; try assumption.
    - rewrite (Qeq_eqR _ _ E1). apply A1.
    - rewrite (Qeq_eqR _ _ E2). apply A2.
  Qed.

  (* support [m, +inf) *)
  Theorem model_proper_lower (m : Q) : k_b k = BLower m ->
    exists fR FR : R -> R,
      KdeQR.proper_pair fR FR /\ FR (Q2R m) = 0%R /\
      (forall lo hi : Q, pairs_within lo hi ps -> (m <= lo)%Q ->
         (forall x : R, (Q2R hi + Q2R h <= x)%R -> FR x = 1%R) /\
         RInt fR (Q2R m) (Q2R hi + Q2R h) = 1%R) /\
      forall x : Q,
        ((x < m)%Q -> kde_pdf k x = Some (XFin 0) /\ kde_cdf k x = Some (XFin 0)) /\
        ((m <= x)%Q -> exists p c : Q,
           kde_pdf k x = Some (XFin p) /\ kde_cdf k x = Some (XFin c) /\
           Q2R p = fR (Q2R x) /\ Q2R c = FR (Q2R x)).
  Proof.
    intro B. destruct (KdeQR.epan_kde_Q_lower ps h m pok hpos) as (A1 & A2 & PP & F0 & Lim).
    eexists; eexists. split; [exact PP|]. split; [exact F0|]. split; [exact Lim|].
    intro x. destruct (kde_lower_reflects k ok kern m x B) as [H1 H2]. split; [exact H1|].
    intro L. destruct (H2 L) as (p & c & P & C & E1 & E2). exists p, c. repeat split; try assumption.
    - rewrite (Qeq_eqR _ _ E1). apply A1.
    - rewrite (Qeq_eqR _ _ E2). apply A2.
  Qed.

  (* support (-inf, M) *)
  Theorem model_proper_upper (M : Q) : k_b k = BUpper M ->
    exists fR FR : R -> R,
      KdeQR.proper_pair fR FR /\ FR (Q2R M) = 1%R /\
      (forall lo hi : Q, pairs_within lo hi ps -> (hi <= M)%Q ->
         (forall x : R, (x <= Q2R lo - Q2R h)%R -> FR x = 0%R) /\
         RInt fR (Q2R lo - Q2R h) (Q2R M) = 1%R) /\
      forall x : Q,
        ((M <= x)%Q -> kde_pdf k x = Some (XFin 0) /\ kde_cdf k x = Some (XFin 1)) /\
        ((x < M)%Q -> exists p c : Q,
           kde_pdf k x = Some (XFin p) /\ kde_cdf k x = Some (XFin c) /\
           Q2R p = fR (Q2R x) /\ Q2R c = FR (Q2R x)).
  Proof.
    intro B. destruct (KdeQR.epan_kde_Q_upper ps h M pok hpos) as (A1 & A2 & PP & F1 & Lim).
    eexists; eexists. split; [exact PP|]. split; [exact F1|]. split; [exact Lim|].
    intro x. destruct (kde_upper_reflects k ok kern M x B) as [H1 H2]. split; [exact H1|].
    intro L. destruct (H2 L) as (p & c & P & C & E1 & E2). exists p, c. repeat split; try assumption.
    - rewrite (Qeq_eqR _ _ E1). apply A1.
    - rewrite (Qeq_eqR _ _ E2). apply A2.
  Qed.

  (* support [m, M), data inside: the density folded back at both boundaries *)
  Theorem model_proper_both (m M : Q) : k_b k = BBoth m M -> pairs_within m M ps -> (m < M)%Q ->
    exists fR FR : R -> R,
      KdeQR.proper_pair fR FR /\ FR (Q2R m) = 0%R /\ FR (Q2R M) = 1%R /\
      (forall x : R, (Q2R m <= x <= Q2R M)%R -> (0 <= FR x <= 1)%R) /\
      RInt fR (Q2R m) (Q2R M) = 1%R /\
      forall x : Q,
        ((x < m)%Q -> kde_pdf k x = Some (XFin 0) /\ kde_cdf k x = Some (XFin 0)) /\
        ((M <= x)%Q -> kde_pdf k x = Some (XFin 0) /\ kde_cdf k x = Some (XFin 1)) /\
        ((m <= x)%Q -> (x < M)%Q -> exists p c : Q,
           kde_pdf k x = Some (XFin p) /\ kde_cdf k x = Some (XFin c) /\
           Q2R p = fR (Q2R x) /\ Q2R c = FR (Q2R x)).
  Proof.
    intros B Hin mM.
    assert (HN : (h <= inject_Z (Z.of_nat (k_fuel k)) * period m M)%Q).
    { assert (Fu : k_fuel k = img_fuel h m M) by (unfold k_fuel; rewrite B, kern; reflexivity).
      destruct (img_fuel_enough h m M) as [K1 K2]; [apply Qlt_le_weak, hpos | exact mM |].
      rewrite Fu. set (K0 := (img_fuel h m M - 3)%nat) in *.
      assert (L : (Qofnat K0 <= Qofnat (img_fuel h m M))%Q) by (unfold Qofnat; rewrite <- Zle_Qle; lia).
      unfold img_d, period, Qofnat in *.
      assert (D : (0 < 2 * (M - m))%Q) by (apply Qmult_lt_0_compat; [reflexivity | unfold Qminus; rewrite <- Qlt_minus_iff; exact mM]).
      apply Qle_trans with (inject_Z (Z.of_nat K0) * (2 * (M - m)))%Q.
      - apply Qle_trans with (h + 2 * (M - m))%Q; [|exact K2].
        rewrite <- (Qplus_0_r h) at 1. apply Qplus_le_r. apply Qlt_le_weak, D.
      - apply Qmult_le_compat_r; [exact L | apply Qlt_le_weak, D]. }
    destruct (KdeQR.epan_kde_Q_both ps h m M (k_fuel k) pok hpos Hin HN)
      as (A1 & A2 & PP & F0 & F1 & Rg & Mass & _).
    eexists; eexists. split; [exact PP|]. split; [exact F0|]. split; [exact F1|].
    split; [exact Rg|]. split; [exact Mass|].
    intro x. destruct (kde_both_is_fold k ok kern m M x B Hin) as (H1 & H2 & H3).
    split; [exact H1|]. split; [exact H2|].
    intros L1 L2. destruct (H3 L1 L2) as (p & c & P & C & E).
    destruct (E (k_fuel k) (Nat.le_refl _)) as [E1 E2].
    exists p, c. repeat split; try assumption.
    - rewrite (Qeq_eqR _ _ E1). apply A1.
    - rewrite (Qeq_eqR _ _ E2). apply A2.
  Qed.
End Capstone.


(* ====================================================================== *)
(* grouped statements for Properties/C12.v (one Print Assumptions per group) *)
(* ====================================================================== *)
Local Open Scope R_scope.

(* the Epanechnikov kernel over the reals: K' = k everywhere, total mass 1 *)
Lemma R_epanechnikov_kernel : forall h : R, 0 < h ->
  (forall x : R, is_derive (RealSpec.KdeR.epan_cdf h) x (RealSpec.KdeR.epan_pdf h x)) /\
  (forall x : R, 0 <= RealSpec.KdeR.epan_pdf h x) /\
  (forall a b : R, a <= b -> RealSpec.KdeR.epan_cdf h a <= RealSpec.KdeR.epan_cdf h b) /\
  RInt (RealSpec.KdeR.epan_pdf h) (- h) h = 1.
Proof.
  intros h Hh.
  split; [apply Proofs.KdeR.epan_cdf_derive, Hh|].
  split; [apply Proofs.KdeR.epan_pdf_nonneg, Hh|].
  split; [apply Proofs.KdeR.epan_cdf_monotone, Hh | apply Proofs.KdeR.epan_mass_one, Hh].
Qed.

(* ANY kernel pair K' = k >= 0 (continuous), any weighted sample with positive weights *)
Lemma R_kernel_average : forall k K : R -> R, (forall x : R, is_derive K x (k x)) ->
  (forall x : R, 0 <= k x) -> (forall x : R, continuous k x) ->
  forall d : RealSpec.KdeR.sample, RealSpec.KdeR.sample_ok d ->
  (forall x : R, is_derive (RealSpec.KdeR.kde_mix K d) x (RealSpec.KdeR.kde_mix k d x)) /\
  (forall x : R, 0 <= RealSpec.KdeR.kde_mix k d x) /\
  (forall a b : R, a <= b -> RealSpec.KdeR.kde_mix K d a <= RealSpec.KdeR.kde_mix K d b) /\
  (forall a b : R, RInt (RealSpec.KdeR.kde_mix k d) a b = RealSpec.KdeR.kde_mix K d b - RealSpec.KdeR.kde_mix K d a) /\
  (is_lim K m_infty 0 -> is_lim K p_infty 1 ->
   is_lim (RealSpec.KdeR.kde_mix K d) m_infty 0 /\ is_lim (RealSpec.KdeR.kde_mix K d) p_infty 1).
Proof.
  intros k K HK Hk Hc d Hd.
  split; [intro x; apply Proofs.KdeR.kde_cdf_derive, HK|].
  split; [intro x; apply Proofs.KdeR.kde_pdf_nonneg; assumption|].
  split; [apply (Proofs.KdeR.kde_cdf_monotone k K); assumption|].
  split; [intros a b; apply (Proofs.KdeR.kde_integral k K); assumption|].
  intros L0 L1. apply (Proofs.KdeQR.kde_cdf_limits K d L0 L1 Hd).
Qed.

(* reflection at one boundary, for ANY pair F' = f with f continuous *)
Lemma R_reflection : forall f F : R -> R, (forall x : R, is_derive F x (f x)) ->
  (forall x : R, continuous f x) ->
  (forall m x : R, is_derive (RealSpec.KdeR.refl_low_cdf F m) x (RealSpec.KdeR.refl_low_pdf f m x)) /\
  (forall M x : R, is_derive (RealSpec.KdeR.refl_high_cdf F M) x (RealSpec.KdeR.refl_high_pdf f M x)) /\
  (forall m : R, RealSpec.KdeR.refl_low_cdf F m m = 0) /\
  (forall M : R, RealSpec.KdeR.refl_high_cdf F M M = 1) /\
  (forall m b : R, RInt (RealSpec.KdeR.refl_low_pdf f m) m b = RealSpec.KdeR.refl_low_cdf F m b) /\
  (forall M a : R, RInt (RealSpec.KdeR.refl_high_pdf f M) a M = 1 - RealSpec.KdeR.refl_high_cdf F M a).
Proof.
  intros f F HF Hc.
  split; [intros m x; apply Proofs.KdeR.refl_low_derive, HF|].
  split; [intros M x; apply Proofs.KdeR.refl_high_derive, HF|].
  split; [intro m; apply Proofs.KdeR.refl_low_cdf_at_min|].
  split; [intro M; apply Proofs.KdeR.refl_high_cdf_at_max|].
  split; [intros m b; apply (Proofs.KdeR.refl_low_integral f F); assumption|].
  intros M a. apply (Proofs.KdeR.refl_high_integral f F); assumption.
Qed.

(* the image sums, for ANY pair F' = f with f continuous and every order N *)
Lemma R_images : forall f F : R -> R, (forall x : R, is_derive F x (f x)) ->
  (forall x : R, continuous f x) -> forall (m M : R) (N : nat),
  (forall x : R, is_derive (RealSpec.KdeR.img_cdf F m M N) x (RealSpec.KdeR.img_pdf f m M N x)) /\
  (forall a b : R, RInt (RealSpec.KdeR.img_pdf f m M N) a b =
                   RealSpec.KdeR.img_cdf F m M N b - RealSpec.KdeR.img_cdf F m M N a) /\
  RealSpec.KdeR.img_cdf F m M N m = 0 /\
  RealSpec.KdeR.img_cdf F m M N M =
    F (M + INR N * RealSpec.KdeR.img_period m M) - F (M - (INR N + 1) * RealSpec.KdeR.img_period m M).
Proof.
  intros f F HF Hc m M N.
  split; [intro x; apply Proofs.KdeR.img_derive, HF|].
  split; [intros a b; apply (Proofs.KdeR.img_integral f F); assumption|].
  split; [apply Proofs.KdeR.img_cdf_at_min | apply Proofs.KdeR.img_cdf_at_max].
Qed.

(* the Gaussian kernel NormalDist{0,h}: kernel pair; the estimate in every boundary setting *)
Lemma R_gaussian : forall h : R, 0 < h ->
  ((forall x : R, is_derive (RealSpec.Normal.Phi 0 h) x (RealSpec.Normal.phi 0 h x)) /\
   (forall x : R, 0 < RealSpec.Normal.phi 0 h x) /\
   (forall x : R, continuous (RealSpec.Normal.phi 0 h) x) /\
   (forall x : R, 0 < RealSpec.Normal.Phi 0 h x < 1) /\
   is_lim (RealSpec.Normal.Phi 0 h) m_infty 0 /\ is_lim (RealSpec.Normal.Phi 0 h) p_infty 1) /\
  forall d : RealSpec.KdeR.sample, RealSpec.KdeR.sample_ok d ->
    Proofs.KdeQR.proper_pair (Proofs.KdeQR.gauss_kde_pdf h d) (Proofs.KdeQR.gauss_kde_cdf h d) /\
    (is_lim (Proofs.KdeQR.gauss_kde_cdf h d) m_infty 0 /\ is_lim (Proofs.KdeQR.gauss_kde_cdf h d) p_infty 1) /\
    (forall m : R, is_lim (fun b : R => RInt (RealSpec.KdeR.refl_low_pdf (Proofs.KdeQR.gauss_kde_pdf h d) m) m b) p_infty 1) /\
    (forall M : R, is_lim (fun a : R => RInt (RealSpec.KdeR.refl_high_pdf (Proofs.KdeQR.gauss_kde_pdf h d) M) a M) m_infty 1) /\
    (forall (m M : R) (N : nat), m < M ->
       0 < RInt (RealSpec.KdeR.img_pdf (Proofs.KdeQR.gauss_kde_pdf h d) m M N) m M < 1) /\
    (forall m M : R, m < M ->
       is_lim_seq (fun N : nat => RInt (RealSpec.KdeR.img_pdf (Proofs.KdeQR.gauss_kde_pdf h d) m M N) m M) 1).
Proof.
  intros h Hh. split; [apply Proofs.KdeQR.gauss_kernel_pair, Hh|].
  intros d Hd. split; [apply Proofs.KdeQR.gauss_kde_proper; assumption|].
  split; [apply Proofs.KdeQR.gauss_kde_cdf_limits; assumption|].
  split; [intro m; apply Proofs.KdeQR.gauss_refl_low_mass_one; assumption|].
  split; [intro M; apply Proofs.KdeQR.gauss_refl_high_mass_one; assumption|].
  split; [intros m M N L; apply Proofs.KdeQR.gauss_img_mass_defect; assumption|].
  intros m M L. apply Proofs.KdeQR.gauss_img_mass_limit; assumption.
Qed.

(* the 10th-power form of the rules is the stated formula; min of deviations = min of variances *)
Lemma R_bandwidth_formula :
  (forall (s : R) (s2 n : Q), (0 < n)%Q -> Q2R s2 = s * s ->
     Q2R (bw10 s2 n) = (106 / 100 * s * Rpower (Q2R n) (- (1 / 5))) ^ 10) /\
  (forall a b : R, 0 <= a -> 0 <= b -> Rmin a b * Rmin a b = Rmin (a * a) (b * b)).
Proof. split; [exact Proofs.KdeQR.Q2R_bw10 | exact Proofs.KdeQR.Rmin_sq]. Qed.

(* the rational definitions are the real ones at rational points *)
Lemma Q2R_bridge :
  (forall h x : Q, (0 < h)%Q -> Q2R (epan_pdf h x) = RealSpec.KdeR.epan_pdf (Q2R h) (Q2R x)) /\
  (forall h x : Q, (0 < h)%Q -> Q2R (epan_cdf h x) = RealSpec.KdeR.epan_cdf (Q2R h) (Q2R x)) /\
  (forall (g : Q -> Q) (gR : R -> R) (ps : list (Q * Q)) (x : Q),
     (forall q : Q, Q2R (g q) = gR (Q2R q)) -> pairs_ok ps ->
     Q2R (wavg g ps x) = RealSpec.KdeR.kde_mix gR (Proofs.KdeQR.sampleR ps) (Q2R x)) /\
  (forall (f : Q -> Q) (fR : R -> R) (m M : Q) (N : nat) (x : Q),
     (forall q : Q, Q2R (f q) = fR (Q2R q)) ->
     Q2R (fold_pdf f m M N x) = RealSpec.KdeR.img_pdf fR (Q2R m) (Q2R M) N (Q2R x)) /\
  (forall (F : Q -> Q) (FR : R -> R) (m M : Q) (N : nat) (x : Q),
     (forall q : Q, Q2R (F q) = FR (Q2R q)) ->
     Q2R (fold_cdf F m M N x) = RealSpec.KdeR.img_cdf FR (Q2R m) (Q2R M) N (Q2R x)).
Proof.
  split; [exact Proofs.KdeQR.Q2R_epan_pdf|]. split; [exact Proofs.KdeQR.Q2R_epan_cdf|].
  split; [exact Proofs.KdeQR.Q2R_wavg|]. split; [exact Proofs.KdeQR.Q2R_fold_pdf | exact Proofs.KdeQR.Q2R_fold_cdf].
Qed.

(* the four capstones in one statement *)
Lemma model_is_a_distribution : forall k : kde, kde_ok k -> k_kernel k = KEpan ->
  (k_b k = BNone ->
   exists fR FR : R -> R,
     Proofs.KdeQR.proper_pair fR FR /\ (forall x : R, 0 <= FR x <= 1) /\
     (forall lo hi : Q, pairs_within lo hi (kde_ps k) ->
        (forall x : R, x <= Q2R lo - Q2R (k_h k) -> FR x = 0) /\
        (forall x : R, Q2R hi + Q2R (k_h k) <= x -> FR x = 1) /\
        RInt fR (Q2R lo - Q2R (k_h k)) (Q2R hi + Q2R (k_h k)) = 1) /\
     forall x : Q, exists p c : Q,
       kde_pdf k x = Some (XFin p) /\ kde_cdf k x = Some (XFin c) /\
       Q2R p = fR (Q2R x) /\ Q2R c = FR (Q2R x)) /\
  (forall m : Q, k_b k = BLower m ->
   exists fR FR : R -> R,
     Proofs.KdeQR.proper_pair fR FR /\ FR (Q2R m) = 0 /\
     (forall lo hi : Q, pairs_within lo hi (kde_ps k) -> (m <= lo)%Q ->
        (forall x : R, Q2R hi + Q2R (k_h k) <= x -> FR x = 1) /\
        RInt fR (Q2R m) (Q2R hi + Q2R (k_h k)) = 1) /\
     forall x : Q,
       ((x < m)%Q -> kde_pdf k x = Some (XFin 0%Q) /\ kde_cdf k x = Some (XFin 0%Q)) /\
       ((m <= x)%Q -> exists p c : Q,
          kde_pdf k x = Some (XFin p) /\ kde_cdf k x = Some (XFin c) /\
          Q2R p = fR (Q2R x) /\ Q2R c = FR (Q2R x))) /\
  (forall M : Q, k_b k = BUpper M ->
   exists fR FR : R -> R,
     Proofs.KdeQR.proper_pair fR FR /\ FR (Q2R M) = 1 /\
     (forall lo hi : Q, pairs_within lo hi (kde_ps k) -> (hi <= M)%Q ->
        (forall x : R, x <= Q2R lo - Q2R (k_h k) -> FR x = 0) /\
        RInt fR (Q2R lo - Q2R (k_h k)) (Q2R M) = 1) /\
     forall x : Q,
       ((M <= x)%Q -> kde_pdf k x = Some (XFin 0%Q) /\ kde_cdf k x = Some (XFin 1%Q)) /\
       ((x < M)%Q -> exists p c : Q,
          kde_pdf k x = Some (XFin p) /\ kde_cdf k x = Some (XFin c) /\
          Q2R p = fR (Q2R x) /\ Q2R c = FR (Q2R x))) /\
  (forall m M : Q, k_b k = BBoth m M -> pairs_within m M (kde_ps k) -> (m < M)%Q ->
   exists fR FR : R -> R,
     Proofs.KdeQR.proper_pair fR FR /\ FR (Q2R m) = 0 /\ FR (Q2R M) = 1 /\
     (forall x : R, Q2R m <= x <= Q2R M -> 0 <= FR x <= 1) /\
     RInt fR (Q2R m) (Q2R M) = 1 /\
     forall x : Q,
       ((x < m)%Q -> kde_pdf k x = Some (XFin 0%Q) /\ kde_cdf k x = Some (XFin 0%Q)) /\
       ((M <= x)%Q -> kde_pdf k x = Some (XFin 0%Q) /\ kde_cdf k x = Some (XFin 1%Q)) /\
       ((m <= x)%Q -> (x < M)%Q -> exists p c : Q,
          kde_pdf k x = Some (XFin p) /\ kde_cdf k x = Some (XFin c) /\
          Q2R p = fR (Q2R x) /\ Q2R c = FR (Q2R x))).
Proof.
  intros k ok kern.
  split; [apply (model_proper_unbounded k ok kern)|].
  split; [apply (model_proper_lower k ok kern)|].
  split; [apply (model_proper_upper k ok kern) | apply (model_proper_both k ok kern)].
Qed.

(* bridge facts in one statement *)
Lemma Q2R_bridge_and_rules :
  ((forall h x : Q, (0 < h)%Q -> Q2R (epan_pdf h x) = RealSpec.KdeR.epan_pdf (Q2R h) (Q2R x)) /\
   (forall h x : Q, (0 < h)%Q -> Q2R (epan_cdf h x) = RealSpec.KdeR.epan_cdf (Q2R h) (Q2R x)) /\
   (forall (g : Q -> Q) (gR : R -> R) (ps : list (Q * Q)) (x : Q),
      (forall q : Q, Q2R (g q) = gR (Q2R q)) -> pairs_ok ps ->
      Q2R (wavg g ps x) = RealSpec.KdeR.kde_mix gR (Proofs.KdeQR.sampleR ps) (Q2R x)) /\
   (forall (f : Q -> Q) (fR : R -> R) (m M : Q) (N : nat) (x : Q),
      (forall q : Q, Q2R (f q) = fR (Q2R q)) ->
      Q2R (fold_pdf f m M N x) = RealSpec.KdeR.img_pdf fR (Q2R m) (Q2R M) N (Q2R x)) /\
   (forall (F : Q -> Q) (FR : R -> R) (m M : Q) (N : nat) (x : Q),
      (forall q : Q, Q2R (F q) = FR (Q2R q)) ->
      Q2R (fold_cdf F m M N x) = RealSpec.KdeR.img_cdf FR (Q2R m) (Q2R M) N (Q2R x))) /\
  ((forall (s : R) (s2 n : Q), (0 < n)%Q -> Q2R s2 = s * s ->
      Q2R (bw10 s2 n) = (106 / 100 * s * Rpower (Q2R n) (- (1 / 5))) ^ 10) /\
   (forall a b : R, 0 <= a -> 0 <= b -> Rmin a b * Rmin a b = Rmin (a * a) (b * b))).
Proof. split; [exact Q2R_bridge | exact R_bandwidth_formula]. Qed.

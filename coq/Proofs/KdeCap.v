(* Proofs/KdeCap.v — capstone of C12: the values the executable model (Model/Kde.v) computes
   for the Epanechnikov kernel are, in every boundary setting, the values at rational points
   of a pair of REAL functions (fR, FR) that is a genuine probability distribution:
   FR' = fR everywhere, fR >= 0 and continuous, FR non-decreasing, integral of fR over any
   interval = difference of FR, total mass on the support = 1.
   Combines Proofs/Kde.v (model = rational spec, axiom-free) with Proofs/KdeQR.v (rational spec
   = real spec at rational points) and Proofs/KdeR.v (analysis of the real spec). *)
From Coq Require Import Reals QArith Qreals Lia.
From Coquelicot Require Import Coquelicot.
From MM Require Import Base.Num Model.Kde Spec.Kde Proofs.Kde.
From MM Require RealSpec.KdeR Proofs.KdeR Proofs.KdeQR.

Section Capstone.
  Variable k : kde.
  Hypothesis ok : kde_ok k.
  Hypothesis kern : k_kernel k = KEpan.

  Let h := k_h k.
  Let ps := kde_ps k.
  Let pok : pairs_ok ps := kde_ps_ok k ok.
  Let hpos : (0 < h)%Q. Proof. apply ok. Qed.

  (* no boundary *)
  Theorem model_proper_unbounded : k_b k = BNone ->
    exists fR FR : R -> R,
      KdeQR.proper_pair fR FR /\ (forall x : R, (0 <= FR x <= 1)%R) /\
      (forall lo hi : Q, pairs_within lo hi ps ->
         (forall x : R, (x <= Q2R lo - Q2R h)%R -> FR x = 0%R) /\
         (forall x : R, (Q2R hi + Q2R h <= x)%R -> FR x = 1%R) /\
         RInt fR (Q2R lo - Q2R h) (Q2R hi + Q2R h) = 1%R) /\
      forall x : Q, exists p c : Q,
        kde_pdf k x = Some (XFin p) /\ kde_cdf k x = Some (XFin c) /\
        Q2R p = fR (Q2R x) /\ Q2R c = FR (Q2R x).
  Proof.
    intro B. destruct (KdeQR.epan_kde_Q_proper ps h pok hpos) as (A1 & A2 & PP & Rg & Lim).
    eexists; eexists. split; [exact PP|]. split; [exact Rg|]. split; [exact Lim|].
    intro x. destruct (kde_unbounded_is_average k ok kern x B) as (p & c & P & C & E1 & E2).
    exists p, c. repeat split; try assumption.
    - rewrite (Qeq_eqR _ _ E1). apply A1.
    - rewrite (Qeq_eqR _ _ E2). apply A2.
  Qed.

  (* support [m, +inf) *)
  Theorem model_proper_lower (m : Q) : k_b k = BLower m ->
    exists fR FR : R -> R,
      KdeQR.proper_pair fR FR /\ FR (Q2R m) = 0%R /\
      (forall lo hi : Q, pairs_within lo hi ps -> (m <= lo)%Q ->
         (forall x : R, (Q2R hi + Q2R h <= x)%R -> FR x = 1%R) /\
         RInt fR (Q2R m) (Q2R hi + Q2R h) = 1%R) /\
      forall x : Q,
        ((x < m)%Q -> kde_pdf k x = Some (XFin 0) /\ kde_cdf k x = Some (XFin 0)) /\
        ((m <= x)%Q -> exists p c : Q,
           kde_pdf k x = Some (XFin p) /\ kde_cdf k x = Some (XFin c) /\
           Q2R p = fR (Q2R x) /\ Q2R c = FR (Q2R x)).
  Proof.
    intro B. destruct (KdeQR.epan_kde_Q_lower ps h m pok hpos) as (A1 & A2 & PP & F0 & Lim).
    eexists; eexists. split; [exact PP|]. split; [exact F0|]. split; [exact Lim|].
    intro x. destruct (kde_lower_reflects k ok kern m x B) as [H1 H2]. split; [exact H1|].
    intro L. destruct (H2 L) as (p & c & P & C & E1 & E2). exists p, c. repeat split; try assumption.
    - rewrite (Qeq_eqR _ _ E1). apply A1.
    - rewrite (Qeq_eqR _ _ E2). apply A2.
  Qed.

  (* support (-inf, M) *)
  Theorem model_proper_upper (M : Q) : k_b k = BUpper M ->
    exists fR FR : R -> R,
      KdeQR.proper_pair fR FR /\ FR (Q2R M) = 1%R /\
      (forall lo hi : Q, pairs_within lo hi ps -> (hi <= M)%Q ->
         (forall x : R, (x <= Q2R lo - Q2R h)%R -> FR x = 0%R) /\
         RInt fR (Q2R lo - Q2R h) (Q2R M) = 1%R) /\
      forall x : Q,
        ((M <= x)%Q -> kde_pdf k x = Some (XFin 0) /\ kde_cdf k x = Some (XFin 1)) /\
        ((x < M)%Q -> exists p c : Q,
           kde_pdf k x = Some (XFin p) /\ kde_cdf k x = Some (XFin c) /\
           Q2R p = fR (Q2R x) /\ Q2R c = FR (Q2R x)).
  Proof.
    intro B. destruct (KdeQR.epan_kde_Q_upper ps h M pok hpos) as (A1 & A2 & PP & F1 & Lim).
    eexists; eexists. split; [exact PP|]. split; [exact F1|]. split; [exact Lim|].
    intro x. destruct (kde_upper_reflects k ok kern M x B) as [H1 H2]. split; [exact H1|].
    intro L. destruct (H2 L) as (p & c & P & C & E1 & E2). exists p, c. repeat split; try assumption.
    - rewrite (Qeq_eqR _ _ E1). apply A1.
    - rewrite (Qeq_eqR _ _ E2). apply A2.
  Qed.

  (* support [m, M), data inside: the density folded back at both boundaries *)
  Theorem model_proper_both (m M : Q) : k_b k = BBoth m M -> pairs_within m M ps -> (m < M)%Q ->
    exists fR FR : R -> R,
      KdeQR.proper_pair fR FR /\ FR (Q2R m) = 0%R /\ FR (Q2R M) = 1%R /\
      (forall x : R, (Q2R m <= x <= Q2R M)%R -> (0 <= FR x <= 1)%R) /\
      RInt fR (Q2R m) (Q2R M) = 1%R /\
      forall x : Q,
        ((x < m)%Q -> kde_pdf k x = Some (XFin 0) /\ kde_cdf k x = Some (XFin 0)) /\
        ((M <= x)%Q -> kde_pdf k x = Some (XFin 0) /\ kde_cdf k x = Some (XFin 1)) /\
        ((m <= x)%Q -> (x < M)%Q -> exists p c : Q,
           kde_pdf k x = Some (XFin p) /\ kde_cdf k x = Some (XFin c) /\
           Q2R p = fR (Q2R x) /\ Q2R c = FR (Q2R x)).
  Proof.
    intros B Hin mM.
    assert (HN : (h <= inject_Z (Z.of_nat (k_fuel k)) * period m M)%Q).
    { assert (Fu : k_fuel k = img_fuel h m M) by (unfold k_fuel; rewrite B, kern; reflexivity).
      destruct (img_fuel_enough h m M) as [K1 K2]; [apply Qlt_le_weak, hpos | exact mM |].
      rewrite Fu. set (K0 := (img_fuel h m M - 3)%nat) in *.
      assert (L : (Qofnat K0 <= Qofnat (img_fuel h m M))%Q) by (unfold Qofnat; rewrite <- Zle_Qle; lia).
      unfold img_d, period, Qofnat in *.
      assert (D : (0 < 2 * (M - m))%Q) by (apply Qmult_lt_0_compat; [reflexivity | unfold Qminus; rewrite <- Qlt_minus_iff; exact mM]).
      apply Qle_trans with (inject_Z (Z.of_nat K0) * (2 * (M - m)))%Q.
      - apply Qle_trans with (h + 2 * (M - m))%Q; [|exact K2].
        rewrite <- (Qplus_0_r h) at 1. apply Qplus_le_r. apply Qlt_le_weak, D.
      - apply Qmult_le_compat_r; [exact L | apply Qlt_le_weak, D]. }
    destruct (KdeQR.epan_kde_Q_both ps h m M (k_fuel k) pok hpos Hin HN)
      as (A1 & A2 & PP & F0 & F1 & Rg & Mass & _).
    eexists; eexists. split; [exact PP|]. split; [exact F0|]. split; [exact F1|].
    split; [exact Rg|]. split; [exact Mass|].
    intro x. destruct (kde_both_is_fold k ok kern m M x B Hin) as (H1 & H2 & H3).
    split; [exact H1|]. split; [exact H2|].
    intros L1 L2. destruct (H3 L1 L2) as (p & c & P & C & E).
    destruct (E (k_fuel k) (Nat.le_refl _)) as [E1 E2].
    exists p, c. repeat split; try assumption.
    - rewrite (Qeq_eqR _ _ E1). apply A1.
    - rewrite (Qeq_eqR _ _ E2). apply A2.
  Qed.
End Capstone.

Print Assumptions model_proper_both.

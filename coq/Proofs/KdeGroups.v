(* Proofs/KdeGroups.v — the C12 theorems of Proofs/Kde.v and Proofs/KdeBw.v grouped by topic, one
   conjunction per topic, for Properties/C12.v (each Print Assumptions costs ~0.4 s of the
   quick tier; nothing new is proved here). *)
From MM Require Import Base.Num Model.Sample Model.Quantile Model.Kde Spec.Kde Proofs.Kde Proofs.KdeBw.
From MM Require Spec.Quantile Proofs.Quantile.
Local Open Scope Q_scope.

(* the Epanechnikov kernel of bandwidth h > 0 *)
Lemma G_epan_kernel : forall h : Q, 0 < h ->
  (forall x, 0 <= epan_pdf h x) /\
  (forall x, epan_pdf h x == 0 <-> x <= - h \/ h <= x) /\
  (forall a b, a <= b -> epan_cdf h a <= epan_cdf h b) /\
  (forall x, (x <= - h -> epan_cdf h x == 0) /\ (h <= x -> epan_cdf h x == 1)) /\
  (forall x, - h < x -> x < h ->
     epan_pdf h x == (3 # 4) / h * (1 - x * x / (h * h)) /\
     epan_cdf h x == (1 # 4) * (2 + 3 * (x / h) - (x / h) * (x / h) * (x / h))) /\
  epan_cdf h h - epan_cdf h (- h) == 1.
Proof.
  intros h Hh.
  split; [intro x; apply epan_pdf_nonneg, Hh|].
  split; [intro x; apply epan_pdf_zero_iff, Hh|].
  split; [intros a b; apply epan_cdf_mono, Hh|].
  split; [intro x; apply epan_cdf_ends, Hh|].
  split; [intros x; apply epan_pieces, Hh | apply epan_mass_one, Hh].
Qed.

(* the laws of a distribution, every boundary setting *)
Lemma G_pdf_laws : forall k : kde, kde_ok k -> k_kernel k = KEpan -> bounds_ok k ->
  forall x p : Q, kde_pdf k x = Some (XFin p) ->
    0 <= p /\ (below_min (k_b k) x = true \/ from_max (k_b k) x = true -> p == 0).
Proof.
  intros k ok kern bok x p H. split.
  - apply (kde_pdf_nonneg k ok kern bok x p H).
  - apply (kde_pdf_outside k ok kern bok x p H).
Qed.

Lemma G_cdf_laws : forall k : kde, kde_ok k -> k_kernel k = KEpan -> bounds_ok k ->
  (forall a b ca cb : Q, a <= b ->
     kde_cdf k a = Some (XFin ca) -> kde_cdf k b = Some (XFin cb) -> ca <= cb) /\
  (forall x c : Q, kde_cdf k x = Some (XFin c) ->
     (0 <= c /\ c <= 1) /\
     (below_min (k_b k) x = true -> c == 0) /\
     (from_max (k_b k) x = true -> below_min (k_b k) x = false -> c == 1) /\
     (match k_b k with BLower m | BBoth m _ => x == m | _ => False end -> c == 0)) /\
  (forall lo hi : Q, pairs_within lo hi (kde_ps k) ->
     match k_b k with BNone => True | BLower m => m <= lo | BUpper M => hi <= M | _ => False end ->
     (forall x c : Q, x <= lo - k_h k -> kde_cdf k x = Some (XFin c) -> c == 0) /\
     (forall x c : Q, hi + k_h k <= x -> kde_cdf k x = Some (XFin c) -> c == 1)).
Proof.
  intros k ok kern bok.
  split; [apply (kde_cdf_monotone k ok kern bok)|].
  split; [|apply (kde_cdf_limits k ok kern bok)].
  intros x c H. split; [apply (kde_cdf_range k ok kern bok x c H) | apply (kde_cdf_ends k ok kern bok x c H)].
Qed.

(* one boundary *)
Lemma G_lower : forall k : kde, kde_ok k -> k_kernel k = KEpan ->
  forall m : Q, k_b k = BLower m ->
  (forall x : Q,
    (x < m -> kde_pdf k x = Some (XFin 0) /\ kde_cdf k x = Some (XFin 0)) /\
    (m <= x -> exists p c : Q, kde_pdf k x = Some (XFin p) /\ kde_cdf k x = Some (XFin c) /\
       p == kde_f k x + kde_f k (2 * m - x) /\ c == kde_F k x - kde_F k (2 * m - x))) /\
  (exists c : Q, kde_cdf k m = Some (XFin c) /\ c == 0).
Proof.
  intros k ok kern m B. split; [intro x; apply kde_lower_reflects; assumption | apply kde_lower_cdf_at_min; assumption].
Qed.
Lemma G_upper : forall k : kde, kde_ok k -> k_kernel k = KEpan ->
  forall M : Q, k_b k = BUpper M ->
  (forall x : Q,
    (M <= x -> kde_pdf k x = Some (XFin 0) /\ kde_cdf k x = Some (XFin 1)) /\
    (x < M -> exists p c : Q, kde_pdf k x = Some (XFin p) /\ kde_cdf k x = Some (XFin c) /\
       p == kde_f k x + kde_f k (2 * M - x) /\ c == kde_F k x + (1 - kde_F k (2 * M - x)))) /\
  kde_F k M + (1 - kde_F k (2 * M - M)) == 1.
Proof.
  intros k ok kern M B. split; [intro x; apply kde_upper_reflects; assumption | apply kde_upper_cdf_at_max].
Qed.

(* the fuel argument *)
Lemma G_fuel_argument :
  (forall (t : nat -> Q) (fuel K : nat), absorbing t -> t K == 0 -> (K < fuel)%nat ->
     exists s : Q, series_q t 0 fuel 0 = Some s /\ forall K' : nat, (K <= K')%nat -> s == nat_sum t K') /\
  (forall r m M : Q, 0 <= r -> m < M ->
     let K0 := (img_fuel r m M - 3)%nat in
     (K0 < img_fuel r m M)%nat /\ r + img_d m M <= Qofnat K0 * img_d m M) /\
  (forall (ps : list (Q * Q)) (h m M x : Q), 0 < h -> pairs_within m M ps -> m <= x /\ x <= M ->
     forall y : Q -> Q, (forall z : Q, 0 <= y z) -> (forall s t : Q, s == t -> y s == y t) ->
     (forall z : Q, y z == 0 <-> (forall p : Q * Q, In p ps -> z - fst p <= - h \/ h <= z - fst p)) ->
     forall K0 : nat, h + img_d m M <= Qofnat K0 * img_d m M ->
     forall fuel : nat, (K0 < fuel)%nat ->
     exists v : Q, two_series fuel (pdf_upper y m M x) (pdf_lower y m M x) = Some v /\
                   forall N : nat, (K0 <= N)%nat -> v == fold_pdf y m M N x).
Proof.
  split; [exact series_q_value|]. split; [exact img_fuel_enough | exact two_series_pdf_is_fold].
Qed.

(* the folded distribution function at the two boundaries *)
Lemma G_fold_cdf_ends :
  (forall (F : Q -> Q) (m M : Q) (N : nat), (forall s t : Q, s == t -> F s == F t) ->
     fold_cdf F m M N m == 0 /\
     fold_cdf F m M N M == F (M + Qofnat N * period m M) - F (M - (Qofnat N + 1) * period m M)) /\
  (forall k : kde, kde_ok k -> k_kernel k = KEpan ->
     forall (m M : Q) (N : nat), k_b k = BBoth m M -> pairs_within m M (kde_ps k) -> m < M ->
     (k_fuel k <= N)%nat ->
     fold_cdf (kde_F k) m M N m == 0 /\ fold_cdf (kde_F k) m M N M == 1).
Proof.
  split; [|exact kde_both_cdf_ends].
  intros F m M N C. split; [apply fold_cdf_at_min, C | apply fold_cdf_at_max_telescopes, C].
Qed.

(* the delta kernel *)
Lemma G_delta_kernel : forall k : kde, kde_ok_delta k -> k_kernel k = KDelta ->
  (k_b k = BNone -> forall x : Q,
     (exists c : Q, kde_cdf k x = Some (XFin c) /\ c == wecdf (kde_ps k) x) /\
     ((exists p : Q * Q, In p (kde_ps k) /\ fst p == x) -> kde_pdf k x = Some (XInf false)) /\
     ((forall p : Q * Q, In p (kde_ps k) -> ~ fst p == x) -> kde_pdf k x = Some (XFin 0))) /\
  (forall m lo hi x : Q, k_b k = BLower m -> pairs_within lo hi (kde_ps k) -> m <= lo ->
     exists c : Q, kde_cdf k x = Some (XFin c) /\ (x <= m -> c == 0) /\ (m < x -> c == wecdf (kde_ps k) x)) /\
  (forall M lo hi x : Q, k_b k = BUpper M -> pairs_within lo hi (kde_ps k) -> hi <= M ->
     exists c : Q, kde_cdf k x = Some (XFin c) /\ (M <= x -> c == 1) /\ (x < M -> c == wecdf (kde_ps k) x)) /\
  (forall m M x : Q, k_b k = BBoth m M -> pairs_within m M (kde_ps k) -> m < M -> m <= x /\ x < M ->
     exists c : Q, kde_cdf k x = Some (XFin c) /\ (x == m -> c == 0) /\ (m < x -> c == wecdf (kde_ps k) x)).
Proof.
  intros k ok kern. split; [|split; [|split]].
  - intros B x. split; [apply delta_cdf_is_weighted_ecdf; assumption | apply delta_pdf_unbounded; assumption].
  - intros m lo hi x. apply delta_cdf_lower; assumption.
  - intros M lo hi x. apply delta_cdf_upper; assumption.
  - intros m M x B Hin mM X. apply (delta_cdf_both k ok kern m M B Hin mM x X).
Qed.

(* the bandwidth rules as 10th powers *)
Lemma G_bandwidth_rules :
  (forall s : sample, s_ws s = None -> (2 <= length (s_xs s))%nat ->
    (exists v : Q, bandwidth_silverman10 s = BwPow10 v /\
                   v == rule10 (Stream.var_def (s_xs s)) (Qofnat (length (s_xs s)))) /\
    (forall a b : Q, quantile s (3 # 4) = RVal a -> quantile s (1 # 4) = RVal b ->
       exists v : Q, bandwidth_scott10 s = BwPow10 v /\
         let r := (a - b) / (1349 # 1000) in
         v == rule10 (Qminb (Stream.var_def (s_xs s)) (r * r)) (Qofnat (length (s_xs s))))) /\
  (forall xs : list Q, (2 <= length xs)%nat ->
    exists a b v : Q,
      quantile (Proofs.Quantile.unsorted xs) (3 # 4) = RVal a /\
      quantile (Proofs.Quantile.unsorted xs) (1 # 4) = RVal b /\
      a == Spec.Quantile.hf_def third_f xs (3 # 4) /\ b == Spec.Quantile.hf_def third_f xs (1 # 4) /\
      b <= a /\
      bandwidth_scott10 (Proofs.Quantile.unsorted xs) = BwPow10 v /\
      let r := (a - b) / (1349 # 1000) in
      v == rule10 (Qminb (Stream.var_def xs) (r * r)) (Qofnat (length xs))).
Proof.
  split; [|exact scott_rule_unsorted].
  intros s W L. split; [apply silverman_rule; assumption|]. intros a b. apply scott_rule; assumption.
Qed.

(* Bounds: the checker, and the delta kernel's mass of a closed interval *)
Lemma G_bounds_checker :
  (forall (b : bconf) (lo hi : xreal) (mass : Q), kde_bounds_ok b lo hi mass = true ->
     exists l h : Q, lo = XFin l /\ hi = XFin h /\ l <= h /\ (98 # 100) <= mass /\
       match b with
       | BNone => True
       | BLower m => m <= l
       | BUpper M => h <= M
       | BBoth m M => m <= l /\ h <= M
       | BBad => False
       end) /\
  (forall (xs : list Q) (ws : option (list Q)) (lo hi : Q), ws_wf xs ws ->
     delta_mass_in xs ws lo hi ==
     Qsum (map (fun p => if Qle_bool lo (fst p) && Qle_bool (fst p) hi then snd p else 0) (kpairs xs ws))
     / wtotal (kpairs xs ws)).
Proof. split; [exact kde_bounds_ok_sound | exact delta_mass_in_spec]. Qed.

(* the KDE of the non-vacuity Examples of Properties/C12.v: sample {1,2,3}, weights {1,2,1}, h = 1 *)
Definition ex_k (b : bconf) : kde := mkKde [1; 2; 3] (Some [1; 2; 1]) KEpan 1 b.

(* Proofs/KdeQR.v — C12: the exact rational spec (Spec/Kde.v, Model/Kde.v) is the restriction
   of the real-number spec (RealSpec/KdeR.v) to rational points, so that every analytic theorem
   of Proofs/KdeR.v (derivative, non-negativity, integral, total mass) speaks about the very
   numbers the executable model computes.  Plus two analytic gaps: limits of the KDE
   distribution function for a kernel that is NOT compactly supported, and the Gaussian kernel
   as an instance of the abstract kernel / reflection sections.
   Everything is proved; the only axioms are those of the stdlib classical reals. *)
From Coq Require Import Reals Lra Psatz List Qreals.
From Coquelicot Require Import Coquelicot.
From MM Require Model.Kde RealSpec.Normal Proofs.NormalR.
From MM Require Import RealSpec.KdeR Proofs.KdeR.
From MM Require Import Base.Num Spec.Kde.
(* Name clashes: [epan_pdf], [epan_cdf] exist in Model.Kde (over Q) and RealSpec.KdeR (over R);
   [sym_sum] exists in Spec.Kde (Z-indexed, over Q) and RealSpec.KdeR (R-indexed, over R).
   They are always written qualified below: Model.Kde.epan_pdf / KdeR.epan_pdf,
   Spec.Kde.sym_sum / KdeR.sym_sum. *)
Local Open Scope R_scope.

(* ====================================================================================== *)
(* 0. Q2R tools                                                                            *)
(* ====================================================================================== *)

Lemma qr_0 : Q2R 0 = 0.
Proof. unfold Q2R; simpl; lra. Qed.
Lemma qr_1 : Q2R 1 = 1.
Proof. unfold Q2R; simpl; lra. Qed.
Lemma qr_2 : Q2R 2 = 2.
Proof. unfold Q2R; simpl; lra. Qed.
Lemma qr_3 : Q2R 3 = 3.
Proof. unfold Q2R; simpl; lra. Qed.
Lemma qr_3_4 : Q2R (3 # 4) = 3 / 4.
Proof. unfold Q2R; simpl; lra. Qed.
Lemma qr_1_4 : Q2R (1 # 4) = 1 / 4.
Proof. unfold Q2R; simpl; lra. Qed.

Lemma qr_inject_Z (n : Z) : Q2R (inject_Z n) = IZR n.
Proof. unfold Q2R, inject_Z; simpl. lra. Qed.

Lemma qr_Qofnat (n : nat) : Q2R (inject_Z (Z.of_nat n)) = INR n.
Proof. rewrite qr_inject_Z. symmetry. apply INR_IZR_INZ. Qed.

Lemma qr_pos (q : Q) : (0 < q)%Q -> 0 < Q2R q.
Proof. intros H. rewrite <- qr_0. apply Qlt_Rlt. exact H. Qed.

Lemma qr_neq0 (q : Q) : Q2R q <> 0 -> ~ (q == 0)%Q.
Proof. intros H E. apply H. rewrite <- qr_0. apply Qeq_eqR. exact E. Qed.

(* the strict test of Base.Num ([Qltb a b = negb (Qle_bool b a)]), read over R *)
Lemma qr_Qltb_true (a b : Q) : Qltb a b = true -> Q2R a < Q2R b.
Proof.
  unfold Qltb. intros H. apply Qlt_Rlt. apply Qnot_le_lt. intros Hle.
  apply Qle_bool_iff in Hle. rewrite Hle in H. discriminate H.
Qed.

Lemma qr_Qltb_false (a b : Q) : Qltb a b = false -> Q2R b <= Q2R a.
Proof.
  unfold Qltb. intros H. apply Qle_Rle. apply Qle_bool_iff.
  destruct (Qle_bool b a); [reflexivity | discriminate H].
Qed.

(* push Q2R through the field operations (division needs its own side condition) *)
Ltac q2r :=
  repeat (rewrite ?Q2R_plus, ?Q2R_minus, ?Q2R_mult, ?Q2R_opp,
            ?qr_0, ?qr_1, ?qr_2, ?qr_3, ?qr_3_4, ?qr_1_4, ?qr_inject_Z).

(* ====================================================================================== *)
(* 1. The Epanechnikov kernel of the model is the real one at rational points              *)
(* ====================================================================================== *)

(* density: both tests strict on both sides, as in kde.go *)
Theorem Q2R_epan_pdf : forall h x : Q, (0 < h)%Q ->
  Q2R (Model.Kde.epan_pdf h x) = KdeR.epan_pdf (Q2R h) (Q2R x).
Proof.
  intros h x Hh. pose proof (qr_pos h Hh) as HhR.
  assert (Hhh : ~ (h * h == 0)%Q) by (apply qr_neq0; q2r; nra).
  assert (Hh0 : ~ (h == 0)%Q) by (apply qr_neq0; lra).
  unfold Model.Kde.epan_pdf, KdeR.epan_pdf.
  destruct (Qltb (- h) x) eqn:E1; destruct (Qltb x h) eqn:E2; cbn [andb];
    try apply qr_Qltb_true in E1; try apply qr_Qltb_false in E1;
    try apply qr_Qltb_true in E2; try apply qr_Qltb_false in E2;
    rewrite Q2R_opp in E1;
    destruct (Rlt_dec (- Q2R h) (Q2R x)) as [L1|L1]; try lra;
    try (destruct (Rlt_dec (Q2R x) (Q2R h)) as [L2|L2]; try lra);
    try (apply qr_0).
  q2r. rewrite !Q2R_div by assumption. q2r. field. lra.
Qed.

(* distribution function: x = h takes the polynomial branch (value 1), x = -h gives 0 *)
Theorem Q2R_epan_cdf : forall h x : Q, (0 < h)%Q ->
  Q2R (Model.Kde.epan_cdf h x) = KdeR.epan_cdf (Q2R h) (Q2R x).
Proof.
  intros h x Hh. pose proof (qr_pos h Hh) as HhR.
  assert (Hh0 : ~ (h == 0)%Q) by (apply qr_neq0; lra).
  unfold Model.Kde.epan_cdf, KdeR.epan_cdf.
  destruct (Qltb h x) eqn:E1.
  - apply qr_Qltb_true in E1.
    destruct (Rle_dec (Q2R x) (- Q2R h)); [lra|].
    destruct (Rle_dec (Q2R x) (Q2R h)); [lra|]. apply qr_1.
  - apply qr_Qltb_false in E1.
    destruct (Qltb (- h) x) eqn:E2.
    + apply qr_Qltb_true in E2. rewrite Q2R_opp in E2.
      destruct (Rle_dec (Q2R x) (- Q2R h)); [lra|].
      destruct (Rle_dec (Q2R x) (Q2R h)); [|lra].
      cbv zeta. unfold epan_poly. q2r. rewrite !Q2R_div by assumption. q2r. field. lra.
    + apply qr_Qltb_false in E2. rewrite Q2R_opp in E2.
      destruct (Rle_dec (Q2R x) (- Q2R h)); [|lra]. apply qr_0.
Qed.

(* ====================================================================================== *)
(* 2. Weighted averages over a rational sample                                             *)
(* ====================================================================================== *)

(* the rational sample, read as a real sample *)
Definition sampleR (ps : list (Q * Q)) : KdeR.sample :=
  map (fun p => (Q2R (fst p), Q2R (snd p))) ps.

Lemma sampleR_ok (ps : list (Q * Q)) : pairs_ok ps -> sample_ok (sampleR ps).
Proof.
  intros [Hne Hall]. split.
  - destruct ps; [congruence | discriminate].
  - unfold sampleR. apply Forall_map.
    eapply Forall_impl; [|exact Hall]. intros p Hp. simpl. apply qr_pos. exact Hp.
Qed.

Lemma sampleR_within (lo hi : Q) (ps : list (Q * Q)) :
  pairs_within lo hi ps -> sample_within (Q2R lo) (Q2R hi) (sampleR ps).
Proof.
  intros Hall. unfold sample_within, sampleR. apply Forall_map.
  eapply Forall_impl; [|exact Hall]. intros p [H1 H2]. simpl.
  split; apply Qle_Rle; assumption.
Qed.

Lemma Q2R_Qsum (l : list Q) : Q2R (Qsum l) = fold_right Rplus 0 (map Q2R l).
Proof.
  induction l as [|q l IH]; simpl; [apply qr_0|]. rewrite Q2R_plus, IH. reflexivity.
Qed.

Lemma Q2R_wtotal (ps : list (Q * Q)) : Q2R (wtotal ps) = wsum (sampleR ps).
Proof.
  unfold wtotal. induction ps as [|p ps IH]; simpl; [apply qr_0|].
  rewrite Q2R_plus, IH. reflexivity.
Qed.

Lemma Q2R_msum (g : Q -> Q) (gR : R -> R) (ps : list (Q * Q)) (x : Q) :
  (forall q, Q2R (g q) = gR (Q2R q)) ->
  Q2R (Qsum (map (fun p => (snd p * g (x - fst p))%Q) ps)) = msum gR (sampleR ps) (Q2R x).
Proof.
  intros Hg. induction ps as [|p ps IH]; simpl; [apply qr_0|].
  rewrite Q2R_plus, IH, Q2R_mult, Hg, Q2R_minus. reflexivity.
Qed.

Lemma wtotal_neq0 (ps : list (Q * Q)) : pairs_ok ps -> ~ (wtotal ps == 0)%Q.
Proof.
  intros Hok. apply qr_neq0. rewrite Q2R_wtotal.
  pose proof (wsum_pos _ (sampleR_ok ps Hok)). lra.
Qed.

(* the weighted average of the Q spec is the kernel mixture of the R spec *)
Theorem Q2R_wavg (g : Q -> Q) (gR : R -> R) (ps : list (Q * Q)) (x : Q) :
  (forall q, Q2R (g q) = gR (Q2R q)) -> pairs_ok ps ->
  Q2R (wavg g ps x) = kde_mix gR (sampleR ps) (Q2R x).
Proof.
  intros Hg Hok. unfold wavg, kde_mix.
  rewrite Q2R_div by (apply wtotal_neq0; exact Hok).
  rewrite (Q2R_msum g gR ps x Hg), Q2R_wtotal. reflexivity.
Qed.

(* ====================================================================================== *)
(* 3. The image sums                                                                       *)
(* ====================================================================================== *)

Lemma Q2R_sym_sum (t : Z -> Q) (tR : R -> R) (N : nat) :
  (forall n : Z, Q2R (t n) = tR (IZR n)) ->
  Q2R (Spec.Kde.sym_sum t N) = KdeR.sym_sum tR N.
Proof.
  intros Ht. induction N as [|N IH].
  - cbn [Spec.Kde.sym_sum KdeR.sym_sum]. apply Ht.
  - cbn [Spec.Kde.sym_sum KdeR.sym_sum].
    rewrite !Q2R_plus, IH, !Ht. rewrite opp_IZR, <- INR_IZR_INZ. reflexivity.
Qed.

Lemma Q2R_period (m M : Q) : Q2R (period m M) = img_period (Q2R m) (Q2R M).
Proof. unfold period, img_period. q2r. reflexivity. Qed.

Theorem Q2R_fold_pdf (f : Q -> Q) (fR : R -> R) (m M : Q) (N : nat) (x : Q) :
  (forall q, Q2R (f q) = fR (Q2R q)) ->
  Q2R (fold_pdf f m M N x) = img_pdf fR (Q2R m) (Q2R M) N (Q2R x).
Proof.
  intros Hf. unfold fold_pdf, img_pdf. apply Q2R_sym_sum. intros n.
  rewrite Q2R_plus, !Hf. q2r. rewrite Q2R_period. reflexivity.
Qed.

Theorem Q2R_fold_cdf (F : Q -> Q) (FR : R -> R) (m M : Q) (N : nat) (x : Q) :
  (forall q, Q2R (F q) = FR (Q2R q)) ->
  Q2R (fold_cdf F m M N x) = img_cdf FR (Q2R m) (Q2R M) N (Q2R x).
Proof.
  intros HF. unfold fold_cdf, img_cdf. apply Q2R_sym_sum. intros n.
  rewrite Q2R_minus, !HF. q2r. rewrite Q2R_period. reflexivity.
Qed.

(* ====================================================================================== *)
(* 4. Capstones: the Epanechnikov KDE on rational data is a proper density /               *)
(*    distribution-function pair, in all four boundary configurations                      *)
(* ====================================================================================== *)

(* the rational function g is the restriction of the real function gR to rational points *)
Definition agree_on_Q (g : Q -> Q) (gR : R -> R) : Prop := forall q : Q, Q2R (g q) = gR (Q2R q).

(* F is a distribution function with density f on the whole real line: F' = f everywhere,
   f >= 0 and continuous, F non-decreasing, and the integral of f over any interval is the
   increment of F *)
Definition proper_pair (f F : R -> R) : Prop :=
  (forall x, is_derive F x (f x)) /\
  (forall x, 0 <= f x) /\
  (forall x, continuous f x) /\
  (forall a b, a <= b -> F a <= F b) /\
  (forall a b, @eq R (RInt f a b) (F b - F a)).

Lemma proper_pair_intro (f F : R -> R) :
  (forall x, is_derive F x (f x)) -> (forall x, 0 <= f x) -> (forall x, continuous f x) ->
  proper_pair f F.
Proof.
  intros HD Hn Hc.
  split; [exact HD|]. split; [exact Hn|]. split; [exact Hc|]. split.
  - apply (derive_nonneg_incr F f); assumption.
  - intros a b. apply RInt_derive_pair; assumption.
Qed.

Lemma refl_low_pdf_continuous (f : R -> R) (m x : R) :
  (forall y, continuous f y) -> continuous (refl_low_pdf f m) x.
Proof.
  intros Hc. unfold refl_low_pdf.
  apply (continuous_plus (V := R_NormedModule)); [apply Hc|].
  apply (continuous_affine' f (-1) (2 * m) (fun x => 2 * m - x)); [exact Hc|].
  intros y. ring.
Qed.

Lemma refl_high_pdf_continuous (f : R -> R) (M x : R) :
  (forall y, continuous f y) -> continuous (refl_high_pdf f M) x.
Proof. exact (refl_low_pdf_continuous f M x). Qed.

(* the real-number Epanechnikov KDE of the rational sample ps with rational bandwidth h *)
Definition epanR_pdf (h : Q) (ps : list (Q * Q)) : R -> R :=
  kde_mix (KdeR.epan_pdf (Q2R h)) (sampleR ps).
Definition epanR_cdf (h : Q) (ps : list (Q * Q)) : R -> R :=
  kde_mix (KdeR.epan_cdf (Q2R h)) (sampleR ps).

Lemma epanR_agree_pdf (ps : list (Q * Q)) (h : Q) : pairs_ok ps -> (0 < h)%Q ->
  agree_on_Q (wavg (Model.Kde.epan_pdf h) ps) (epanR_pdf h ps).
Proof.
  intros Hok Hh q. apply Q2R_wavg; [|exact Hok]. intros y. apply Q2R_epan_pdf. exact Hh.
Qed.

Lemma epanR_agree_cdf (ps : list (Q * Q)) (h : Q) : pairs_ok ps -> (0 < h)%Q ->
  agree_on_Q (wavg (Model.Kde.epan_cdf h) ps) (epanR_cdf h ps).
Proof.
  intros Hok Hh q. apply Q2R_wavg; [|exact Hok]. intros y. apply Q2R_epan_cdf. exact Hh.
Qed.

Lemma epanR_proper (ps : list (Q * Q)) (h : Q) : pairs_ok ps -> (0 < h)%Q ->
  proper_pair (epanR_pdf h ps) (epanR_cdf h ps).
Proof.
  intros Hok Hh. pose proof (qr_pos h Hh) as HhR. pose proof (sampleR_ok ps Hok) as HokR.
  apply proper_pair_intro.
  - apply epan_kde_cdf_derive. exact HhR.
  - apply epan_kde_pdf_nonneg; assumption.
  - apply epan_kde_pdf_continuous. exact HhR.
Qed.

(* ---- no boundary ---- *)
(* The unbounded Epanechnikov estimate: what the model computes at a rational point x,
   wavg (epan_pdf h) ps x and wavg (epan_cdf h) ps x, are the values at x of a real density fR
   and its distribution function FR: FR' = fR everywhere, fR >= 0, the integral of fR over
   [a,b] is FR b - FR a, FR has values in [0,1], is 0 left of lo - h and 1 right of hi + h,
   and the total mass is 1. *)
Theorem epan_kde_Q_proper (ps : list (Q * Q)) (h : Q) :
  pairs_ok ps -> (0 < h)%Q ->
  let fR := epanR_pdf h ps in
  let FR := epanR_cdf h ps in
  agree_on_Q (wavg (Model.Kde.epan_pdf h) ps) fR /\
  agree_on_Q (wavg (Model.Kde.epan_cdf h) ps) FR /\
  proper_pair fR FR /\
  (forall x, 0 <= FR x <= 1) /\
  (forall lo hi : Q, pairs_within lo hi ps ->
     (forall x, x <= Q2R lo - Q2R h -> FR x = 0) /\
     (forall x, Q2R hi + Q2R h <= x -> FR x = 1) /\
     @eq R (RInt fR (Q2R lo - Q2R h) (Q2R hi + Q2R h)) 1).
Proof.
  intros Hok Hh fR FR. pose proof (qr_pos h Hh) as HhR.
  pose proof (sampleR_ok ps Hok) as HokR.
  split; [apply epanR_agree_pdf; assumption|].
  split; [apply epanR_agree_cdf; assumption|].
  split; [apply epanR_proper; assumption|].
  split; [apply epan_kde_cdf_range; assumption|].
  intros lo hi Hin. pose proof (sampleR_within lo hi ps Hin) as HinR.
  destruct (epan_kde_cdf_limits (Q2R h) HhR (sampleR ps) HokR _ _ HinR) as [H0 H1].
  split; [exact H0|]. split; [exact H1|].
  apply (epan_kde_mass_one (Q2R h) HhR (sampleR ps) HokR _ _ HinR).
Qed.

(* ---- lower boundary m, support [m, +inf) ---- *)
(* Model: reflect_pdf/reflect_cdf (BLower m) return  y x + y (2m - x)  and  y x - y (2m - x)
   for x >= m.  These are the restrictions of a proper pair with FR m = 0; when all data lie
   in [lo, hi] with m <= lo the mass of [m, hi + h] is 1 and FR = 1 right of hi + h. *)
Theorem epan_kde_Q_lower (ps : list (Q * Q)) (h m : Q) :
  pairs_ok ps -> (0 < h)%Q ->
  let f := wavg (Model.Kde.epan_pdf h) ps in
  let F := wavg (Model.Kde.epan_cdf h) ps in
  let fR := refl_low_pdf (epanR_pdf h ps) (Q2R m) in
  let FR := refl_low_cdf (epanR_cdf h ps) (Q2R m) in
  agree_on_Q (fun x => f x + f (2 * m - x))%Q fR /\
  agree_on_Q (fun x => F x - F (2 * m - x))%Q FR /\
  proper_pair fR FR /\
  FR (Q2R m) = 0 /\
  (forall lo hi : Q, pairs_within lo hi ps -> (m <= lo)%Q ->
     (forall x, Q2R hi + Q2R h <= x -> FR x = 1) /\
     @eq R (RInt fR (Q2R m) (Q2R hi + Q2R h)) 1).
Proof.
  intros Hok Hh f F fR FR. pose proof (qr_pos h Hh) as HhR.
  pose proof (sampleR_ok ps Hok) as HokR.
  destruct (epanR_proper ps h Hok Hh) as (HD & Hn & Hc & _ & _).
  split.
  { intros q. unfold fR, refl_low_pdf, f. rewrite Q2R_plus.
    rewrite !(epanR_agree_pdf ps h Hok Hh). q2r. reflexivity. }
  split.
  { intros q. unfold FR, refl_low_cdf, F. rewrite Q2R_minus.
    rewrite !(epanR_agree_cdf ps h Hok Hh). q2r. reflexivity. }
  split.
  { apply proper_pair_intro.
    - intros x. apply refl_low_derive. exact HD.
    - intros x. apply refl_low_pdf_nonneg. exact Hn.
    - intros x. apply refl_low_pdf_continuous. exact Hc. }
  split; [apply refl_low_cdf_at_min|].
  intros lo hi Hin Hm. pose proof (sampleR_within lo hi ps Hin) as HinR.
  apply Qle_Rle in Hm.
  pose proof (sample_within_le _ _ _ HokR HinR) as Hlh.
  destruct (epan_kde_cdf_limits (Q2R h) HhR (sampleR ps) HokR _ _ HinR) as [H0 H1].
  split.
  - intros x Hx. unfold FR, refl_low_cdf, epanR_cdf. rewrite H1, H0 by lra. ring.
  - apply (epan_refl_low_mass_one (Q2R h) HhR (sampleR ps) HokR _ _ HinR). exact Hm.
Qed.

(* ---- upper boundary M, support (-inf, M) ---- *)
(* Model: reflect_pdf/reflect_cdf (BUpper M) return  y x + y (2M - x)  and
   y x + (1 - y (2M - x))  for x < M. *)
Theorem epan_kde_Q_upper (ps : list (Q * Q)) (h M : Q) :
  pairs_ok ps -> (0 < h)%Q ->
  let f := wavg (Model.Kde.epan_pdf h) ps in
  let F := wavg (Model.Kde.epan_cdf h) ps in
  let fR := refl_high_pdf (epanR_pdf h ps) (Q2R M) in
  let FR := refl_high_cdf (epanR_cdf h ps) (Q2R M) in
  agree_on_Q (fun x => f x + f (2 * M - x))%Q fR /\
  agree_on_Q (fun x => F x + (1 - F (2 * M - x)))%Q FR /\
  proper_pair fR FR /\
  FR (Q2R M) = 1 /\
  (forall lo hi : Q, pairs_within lo hi ps -> (hi <= M)%Q ->
     (forall x, x <= Q2R lo - Q2R h -> FR x = 0) /\
     @eq R (RInt fR (Q2R lo - Q2R h) (Q2R M)) 1).
Proof.
  intros Hok Hh f F fR FR. pose proof (qr_pos h Hh) as HhR.
  pose proof (sampleR_ok ps Hok) as HokR.
  destruct (epanR_proper ps h Hok Hh) as (HD & Hn & Hc & _ & _).
  split.
  { intros q. unfold fR, refl_high_pdf, f. rewrite Q2R_plus.
    rewrite !(epanR_agree_pdf ps h Hok Hh). q2r. reflexivity. }
  split.
  { intros q. unfold FR, refl_high_cdf, F. rewrite Q2R_plus, Q2R_minus.
    rewrite !(epanR_agree_cdf ps h Hok Hh). q2r. reflexivity. }
  split.
  { apply proper_pair_intro.
    - intros x. apply refl_high_derive. exact HD.
    - intros x. apply refl_high_pdf_nonneg. exact Hn.
    - intros x. apply refl_high_pdf_continuous. exact Hc. }
  split; [apply refl_high_cdf_at_max|].
  intros lo hi Hin HM. pose proof (sampleR_within lo hi ps Hin) as HinR.
  apply Qle_Rle in HM.
  pose proof (sample_within_le _ _ _ HokR HinR) as Hlh.
  destruct (epan_kde_cdf_limits (Q2R h) HhR (sampleR ps) HokR _ _ HinR) as [H0 H1].
  split.
  - intros x Hx. unfold FR, refl_high_cdf, epanR_cdf. rewrite H0, H1 by lra. ring.
  - apply (epan_refl_high_mass_one (Q2R h) HhR (sampleR ps) HokR _ _ HinR). exact HM.
Qed.

(* ---- both boundaries, support [m, M) ---- *)
(* Spec: fold_pdf / fold_cdf of the unbounded estimate, images n = -N .. N, with all data in
   [m, M] and enough images: h <= N * 2 (M - m).  The result is a proper pair with FR m = 0,
   FR M = 1, values in [0,1] on [m, M] and total mass 1 over [m, M]; more images change
   nothing on [m, M]. *)
Theorem epan_kde_Q_both (ps : list (Q * Q)) (h m M : Q) (N : nat) :
  pairs_ok ps -> (0 < h)%Q -> pairs_within m M ps ->
  (h <= inject_Z (Z.of_nat N) * period m M)%Q ->
  let fR := img_pdf (epanR_pdf h ps) (Q2R m) (Q2R M) N in
  let FR := img_cdf (epanR_cdf h ps) (Q2R m) (Q2R M) N in
  agree_on_Q (fold_pdf (wavg (Model.Kde.epan_pdf h) ps) m M N) fR /\
  agree_on_Q (fold_cdf (wavg (Model.Kde.epan_cdf h) ps) m M N) FR /\
  proper_pair fR FR /\
  FR (Q2R m) = 0 /\ FR (Q2R M) = 1 /\
  (forall x, Q2R m <= x <= Q2R M -> 0 <= FR x <= 1) /\
  @eq R (RInt fR (Q2R m) (Q2R M)) 1 /\
  (forall (N' : nat) (x : R), (N <= N')%nat -> Q2R m <= x <= Q2R M ->
     img_pdf (epanR_pdf h ps) (Q2R m) (Q2R M) N' x = fR x /\
     img_cdf (epanR_cdf h ps) (Q2R m) (Q2R M) N' x = FR x).
Proof.
  intros Hok Hh Hin HN fR FR. pose proof (qr_pos h Hh) as HhR.
  pose proof (sampleR_ok ps Hok) as HokR.
  pose proof (sampleR_within m M ps Hin) as HinR.
  assert (HNR : Q2R h <= INR N * img_period (Q2R m) (Q2R M)).
  { apply Qle_Rle in HN. rewrite Q2R_mult, qr_Qofnat, Q2R_period in HN. exact HN. }
  destruct (epanR_proper ps h Hok Hh) as (HD & Hn & Hc & _ & _).
  split.
  { intros q. apply Q2R_fold_pdf. apply epanR_agree_pdf; assumption. }
  split.
  { intros q. apply Q2R_fold_cdf. apply epanR_agree_cdf; assumption. }
  split.
  { apply proper_pair_intro.
    - intros x. apply img_derive. exact HD.
    - intros x. apply img_pdf_nonneg. exact Hn.
    - intros x. apply img_pdf_continuous. exact Hc. }
  split; [apply img_cdf_at_min|].
  split; [apply (epan_img_cdf_at_max (Q2R h) HhR (sampleR ps) HokR _ _ HinR N HNR)|].
  split; [apply (epan_img_cdf_range (Q2R h) HhR (sampleR ps) HokR _ _ HinR N HNR)|].
  split; [apply (epan_img_pdf_mass_one (Q2R h) HhR (sampleR ps) HokR _ _ HinR N HNR)|].
  intros N' x HNN Hx. split.
  - unfold fR, epanR_pdf. apply epan_img_pdf_stable; assumption.
  - unfold FR, epanR_cdf. apply epan_img_cdf_stable; assumption.
Qed.

(* ====================================================================================== *)
(* 5. Gap A: limits of the KDE distribution function for a kernel that is NOT compactly    *)
(*    supported                                                                            *)
(* ====================================================================================== *)

Lemma filterlim_shift_p (c : R) :
  filterlim (fun x => x - c) (Rbar_locally' p_infty) (Rbar_locally' p_infty).
Proof. intros P [A HA]. exists (A + c). intros x Hx. apply HA. lra. Qed.

Lemma filterlim_shift_m (c : R) :
  filterlim (fun x => x - c) (Rbar_locally' m_infty) (Rbar_locally' m_infty).
Proof. intros P [A HA]. exists (A + c). intros x Hx. apply HA. lra. Qed.

Lemma filterlim_opp_pm :
  filterlim Ropp (Rbar_locally' p_infty) (Rbar_locally' m_infty).
Proof. intros P [A HA]. exists (- A). intros x Hx. apply HA. lra. Qed.

Lemma filterlim_opp_mp :
  filterlim Ropp (Rbar_locally' m_infty) (Rbar_locally' p_infty).
Proof. intros P [A HA]. exists (- A). intros x Hx. apply HA. lra. Qed.

(* the un-normalised mixture at an infinite point e: if K tends to l, the weighted sum tends to
   l times the total weight *)
Lemma msum_lim (K : R -> R) (d : sample) (e : Rbar) (l : R) :
  (forall c, filterlim (fun x => x - c) (Rbar_locally' e) (Rbar_locally' e)) ->
  is_lim K e l -> is_lim (msum K d) e (l * wsum d).
Proof.
  intros Hshift HK. induction d as [|p d IH].
  - simpl. replace (l * 0) with 0 by ring. apply is_lim_const.
  - apply is_lim_ext with (fun x => snd p * K (x - fst p) + msum K d x); [reflexivity|].
    replace (l * wsum (p :: d)) with (snd p * l + l * wsum d) by (simpl; ring).
    apply is_lim_plus'; [|exact IH].
    change (Finite (snd p * l)) with (Rbar_mult (snd p) l).
    apply is_lim_scal_l.
    unfold is_lim in *.
    apply (filterlim_comp _ _ _ (fun x => x - fst p) K _ _ _ (Hshift (fst p)) HK).
Qed.

(* Gap A: a kernel distribution function with limits 0 at -inf and 1 at +inf gives a KDE
   distribution function with the same limits, for any well-formed weighted sample *)
Theorem kde_cdf_limits (K : R -> R) (d : sample) :
  is_lim K m_infty 0 -> is_lim K p_infty 1 -> sample_ok d ->
  is_lim (kde_mix K d) m_infty 0 /\ is_lim (kde_mix K d) p_infty 1.
Proof.
  intros H0 H1 Hok. pose proof (wsum_pos d Hok) as Hw. split.
  - apply is_lim_ext with (fun x => / wsum d * msum K d x).
    { intros y. unfold kde_mix, Rdiv. ring. }
    replace (Finite 0) with (Rbar_mult (/ wsum d) (0 * wsum d)) by (simpl; f_equal; ring).
    apply is_lim_scal_l. apply msum_lim; [exact filterlim_shift_m | exact H0].
  - apply is_lim_ext with (fun x => / wsum d * msum K d x).
    { intros y. unfold kde_mix, Rdiv. ring. }
    replace (Finite 1) with (Rbar_mult (/ wsum d) (1 * wsum d))
      by (simpl; f_equal; field; lra).
    apply is_lim_scal_l. apply msum_lim; [exact filterlim_shift_p | exact H1].
Qed.

(* consequences for one-sided reflection: the reflected distribution functions reach 1 / 0 at
   the open end, i.e. the reflected density has total mass 1 as an improper integral *)
Theorem refl_low_cdf_lim (F : R -> R) (m : R) :
  is_lim F m_infty 0 -> is_lim F p_infty 1 -> is_lim (refl_low_cdf F m) p_infty 1.
Proof.
  intros H0 H1. unfold refl_low_cdf.
  replace (Finite 1) with (Finite (1 - 0)) by (f_equal; ring).
  apply is_lim_minus'; [exact H1|].
  apply is_lim_ext with (fun x => F (- (x - 2 * m))).
  { intros y. f_equal. ring. }
  unfold is_lim in *.
  apply (filterlim_comp _ _ _ (fun x => - (x - 2 * m)) F _ (Rbar_locally' m_infty) _); [|exact H0].
  apply (filterlim_comp _ _ _ (fun x => x - 2 * m) Ropp _ (Rbar_locally' p_infty) _).
  - apply filterlim_shift_p.
  - exact filterlim_opp_pm.
Qed.

Theorem refl_high_cdf_lim (F : R -> R) (M : R) :
  is_lim F m_infty 0 -> is_lim F p_infty 1 -> is_lim (refl_high_cdf F M) m_infty 0.
Proof.
  intros H0 H1. unfold refl_high_cdf.
  replace (Finite 0) with (Finite (0 + (1 - 1))) by (f_equal; ring).
  apply is_lim_plus'; [exact H0|].
  apply is_lim_minus'; [apply is_lim_const|].
  apply is_lim_ext with (fun x => F (- (x - 2 * M))).
  { intros y. f_equal. ring. }
  unfold is_lim in *.
  apply (filterlim_comp _ _ _ (fun x => - (x - 2 * M)) F _ (Rbar_locally' p_infty) _); [|exact H1].
  apply (filterlim_comp _ _ _ (fun x => x - 2 * M) Ropp _ (Rbar_locally' m_infty) _).
  - apply filterlim_shift_m.
  - exact filterlim_opp_mp.
Qed.

(* ====================================================================================== *)
(* 6. Gap B: the Gaussian kernel                                                           *)
(* ====================================================================================== *)

(* ---- 6a. limits of the normal distribution function (not in Proofs/NormalR.v) ---- *)
(* NormalR.v proves  gE x ^2 + gG x = PI/4  with gE x = int_0^x exp(-t^2) dt and
   gG x = int_0^1 exp(-x^2 (1+t^2)) / (1+t^2) dt >= 0.  Here: gG x <= 1/(1+x^2), hence
   gE x -> sqrt(PI)/2 (the Gaussian integral) and Phi -> 1 at +inf, Phi -> 0 at -inf. *)

Lemma exp_neg_le (y : R) : 0 <= y -> exp (- y) <= / (1 + y).
Proof.
  intros Hy. rewrite exp_Ropp. apply Rinv_le_contravar; [lra|].
  destruct Hy as [Hy | <-]; [left; apply exp_ineq1; lra | rewrite exp_0; lra].
Qed.

Lemma gG_le (x : R) : NormalR.gG x <= / (1 + x * x).
Proof.
  unfold NormalR.gG.
  apply Rle_trans with (RInt (fun _ : R => / (1 + x * x)) 0 1).
  - apply RInt_le; [lra | apply NormalR.gf_ex_RInt | apply ex_RInt_const |].
    intros t _. unfold NormalR.gf.
    assert (H1 : 0 < 1 + t * t) by nra.
    assert (H2 : 0 <= x * x * (1 + t * t)) by nra.
    pose proof (exp_neg_le _ H2) as H3.
    replace (- (x * x) * (1 + t * t)) with (- (x * x * (1 + t * t))) by ring.
    assert (H4 : / (1 + x * x * (1 + t * t)) <= / (1 + x * x))
      by (apply Rinv_le_contravar; nra).
    assert (H5 : 0 < / (1 + t * t)) by (apply Rinv_0_lt_compat; exact H1).
    assert (H6 : / (1 + t * t) <= 1).
    { rewrite <- Rinv_1 at 2. apply Rinv_le_contravar; nra. }
    pose proof (exp_pos (- (x * x * (1 + t * t)))) as H7.
    unfold Rdiv. nra.
  - rewrite RInt_const. unfold scal; simpl; unfold mult; simpl. lra.
Qed.

Lemma gE_near (z : R) : 0 <= z ->
  sqrt PI / 2 - / (1 + z * z) * (2 / sqrt PI) <= NormalR.gE z <= sqrt PI / 2.
Proof.
  intros Hz. split; [|apply NormalR.gE_le; exact Hz].
  pose proof PI_RGT_0 as HPI.
  assert (Hp : 0 < sqrt PI) by (apply sqrt_lt_R0; lra).
  assert (Hpp : sqrt PI * sqrt PI = PI) by (apply sqrt_sqrt; lra).
  pose proof (NormalR.gE_le z Hz) as He1.
  destruct (NormalR.gauss_bound z Hz) as [He0 _]. fold (NormalR.gE z) in He0.
  pose proof (NormalR.gF_const z) as HF.
  pose proof (gG_le z) as Hg.
  set (p := sqrt PI) in *. set (e := NormalR.gE z) in *. set (c := / (1 + z * z)) in *.
  assert (Hk : 0 <= e * (p / 2 - e)) by (apply Rmult_le_pos; lra).
  apply Rmult_le_reg_r with (p / 2); [lra|].
  replace ((p / 2 - c * (2 / p)) * (p / 2)) with (p * p / 4 - c) by (field; lra).
  lra.
Qed.

Lemma Phi_std_near (z : R) : 0 < z -> 1 - 2 / PI * / z <= Normal.Phi 0 1 z <= 1.
Proof.
  intros Hz. split; [|left; apply NormalR.Phi_std_range_pos; lra].
  rewrite NormalR.Phi_std_gauss.
  pose proof PI_RGT_0 as HPI.
  assert (Hp : 0 < sqrt PI) by (apply sqrt_lt_R0; lra).
  assert (Hpp : sqrt PI * sqrt PI = PI) by (apply sqrt_sqrt; lra).
  assert (H2 : 0 < sqrt 2) by (apply sqrt_lt_R0; lra).
  assert (H22 : sqrt 2 * sqrt 2 = 2) by (apply sqrt_sqrt; lra).
  assert (Hz2 : 0 <= z / sqrt 2).
  { apply Rmult_le_pos; [lra|]. left. apply Rinv_0_lt_compat. exact H2. }
  destruct (gE_near _ Hz2) as [Hlo _].
  assert (Hw : z / sqrt 2 * (z / sqrt 2) = z * z / 2).
  { rewrite <- H22 at 3. field. lra. }
  rewrite Hw in Hlo.
  assert (Hc : / (1 + z * z / 2) <= / z) by (apply Rinv_le_contravar; nra).
  assert (Hip : 0 < / sqrt PI) by (apply Rinv_0_lt_compat; exact Hp).
  set (p := sqrt PI) in *. set (e := NormalR.gE (z / sqrt 2)) in *.
  set (c := / (1 + z * z / 2)) in *.
  assert (Hm : / p * (p / 2 - c * (2 / p)) <= / p * e)
    by (apply Rmult_le_compat_l; lra).
  replace (/ p * (p / 2 - c * (2 / p))) with (1 / 2 - 2 / (p * p) * c) in Hm by (field; lra).
  rewrite Hpp in Hm.
  assert (Hpi : 0 < 2 / PI) by (apply Rdiv_lt_0_compat; lra).
  assert (2 / PI * c <= 2 / PI * / z) by (apply Rmult_le_compat_l; lra).
  lra.
Qed.

Lemma Phi_std_lim_p : is_lim (Normal.Phi 0 1) p_infty 1.
Proof.
  apply (is_lim_le_le_loc (fun z => 1 - 2 / PI * / z) (fun _ => 1)).
  - exists 0. intros z Hz. apply Phi_std_near. exact Hz.
  - replace (Finite 1) with (Finite (1 - 2 / PI * 0)) by (f_equal; ring).
    apply is_lim_minus'; [apply is_lim_const|].
    change (Finite (2 / PI * 0)) with (Rbar_mult (2 / PI) (Rbar_inv p_infty)).
    apply is_lim_scal_l.
    apply (is_lim_inv (fun y => y) p_infty p_infty); [apply is_lim_id | discriminate].
  - apply is_lim_const.
Qed.

(* the normal distribution function N(0, h^2) tends to 1 at +inf and to 0 at -inf *)
Theorem Phi_lim_p (h : R) : 0 < h -> is_lim (Normal.Phi 0 h) p_infty 1.
Proof.
  intros Hh.
  apply is_lim_ext with (fun x => Normal.Phi 0 1 ((x - 0) / h)).
  { intros y. symmetry. apply NormalR.Phi_standard. exact Hh. }
  pose proof Phi_std_lim_p as HL. unfold is_lim in *.
  apply (filterlim_comp _ _ _ (fun x => (x - 0) / h) (Normal.Phi 0 1) _
           (Rbar_locally' p_infty) _); [|exact HL].
  intros P [A HA]. exists (A * h). intros x Hx. apply HA.
  apply Rmult_lt_reg_r with h; [exact Hh|].
  replace ((x - 0) / h * h) with x by (field; lra). exact Hx.
Qed.

Theorem Phi_lim_m (h : R) : 0 < h -> is_lim (Normal.Phi 0 h) m_infty 0.
Proof.
  intros Hh.
  apply is_lim_ext with (fun x => 1 - Normal.Phi 0 h (- x)).
  { intros y. pose proof (NormalR.Phi_symmetric 0 h Hh (- y)) as H.
    replace (0 - - y) with y in H by ring. replace (0 + - y) with (- y) in H by ring. lra. }
  replace (Finite 0) with (Finite (1 - 1)) by (f_equal; ring).
  apply is_lim_minus'; [apply is_lim_const|].
  pose proof (Phi_lim_p h Hh) as HL. unfold is_lim in *.
  apply (filterlim_comp _ _ _ Ropp (Normal.Phi 0 h) _ (Rbar_locally' p_infty) _);
    [exact filterlim_opp_mp | exact HL].
Qed.

(* ---- 6b. the Gaussian pair (phi 0 h, Phi 0 h) is a kernel in the sense of Section Kernel
        of Proofs/KdeR.v, with the limits needed by kde_cdf_limits ---- *)
Theorem gauss_kernel_pair (h : R) : 0 < h ->
  (forall x, is_derive (Normal.Phi 0 h) x (Normal.phi 0 h x)) /\
  (forall x, 0 < Normal.phi 0 h x) /\
  (forall x, continuous (Normal.phi 0 h) x) /\
  (forall x, 0 < Normal.Phi 0 h x < 1) /\
  is_lim (Normal.Phi 0 h) m_infty 0 /\ is_lim (Normal.Phi 0 h) p_infty 1.
Proof.
  intros Hh.
  split; [apply NormalR.Phi_derive; exact Hh|].
  split; [apply NormalR.phi_pos; exact Hh|].
  split; [apply NormalR.phi_continuous; exact Hh|].
  split; [intros x; apply NormalR.Phi_range; exact Hh|].
  split; [apply Phi_lim_m | apply Phi_lim_p]; exact Hh.
Qed.

(* strict positivity of a mixture of strictly positive terms *)
Lemma msum_pos_strict (g : R -> R) (d : sample) (x : R) :
  (forall y, 0 < g y) -> sample_ok d -> 0 < msum g d x.
Proof.
  intros Hg [Hne Hall]. destruct d as [|p d]; [congruence|].
  inversion Hall as [|p' d' Hp Hd]; subst. simpl.
  assert (0 < snd p * g (x - fst p)) by (apply Rmult_lt_0_compat; [exact Hp | apply Hg]).
  assert (0 <= msum g d x) by (apply msum_nonneg; [intros y; left; apply Hg | exact Hd]).
  lra.
Qed.

Lemma kde_mix_pos_strict (g : R -> R) (d : sample) (x : R) :
  (forall y, 0 < g y) -> sample_ok d -> 0 < kde_mix g d x.
Proof.
  intros Hg Hok. unfold kde_mix. apply Rdiv_lt_0_compat.
  - apply msum_pos_strict; assumption.
  - apply wsum_pos. exact Hok.
Qed.

Lemma filterlim_lin_p (M e : R) : 0 < e ->
  filterlim (fun t => M + t * e) (Rbar_locally' p_infty) (Rbar_locally' p_infty).
Proof.
  intros He P [A HA]. exists ((A - M) / e). intros t Ht. apply HA.
  assert (H : (A - M) / e * e < t * e) by (apply Rmult_lt_compat_r; assumption).
  replace ((A - M) / e * e) with (A - M) in H by (field; lra). lra.
Qed.

Lemma filterlim_lin_m (M e : R) : 0 < e ->
  filterlim (fun t => M - (t + 1) * e) (Rbar_locally' p_infty) (Rbar_locally' m_infty).
Proof.
  intros He P [A HA]. exists ((M - A) / e). intros t Ht. apply HA.
  assert (H : (M - A) / e * e < t * e) by (apply Rmult_lt_compat_r; assumption).
  replace ((M - A) / e * e) with (M - A) in H by (field; lra). lra.
Qed.

Section GaussKDE.

Variable h : R.
Hypothesis h_pos : 0 < h.
Variable d : sample.
Hypothesis d_ok : sample_ok d.

(* the unbounded Gaussian KDE: density gk, distribution function gK *)
Definition gauss_kde_pdf : R -> R := kde_mix (Normal.phi 0 h) d.
Definition gauss_kde_cdf : R -> R := kde_mix (Normal.Phi 0 h) d.

Lemma gauss_phi_nonneg : forall x, 0 <= Normal.phi 0 h x.
Proof. intros x. left. apply NormalR.phi_pos. exact h_pos. Qed.

(* ---- no boundary ---- *)
Theorem gauss_kde_cdf_derive : forall x, is_derive gauss_kde_cdf x (gauss_kde_pdf x).
Proof. apply kde_cdf_derive. apply NormalR.Phi_derive. exact h_pos. Qed.

Theorem gauss_kde_pdf_pos : forall x, 0 < gauss_kde_pdf x.
Proof.
  intros x. apply kde_mix_pos_strict; [apply NormalR.phi_pos; exact h_pos | exact d_ok].
Qed.

Theorem gauss_kde_pdf_nonneg : forall x, 0 <= gauss_kde_pdf x.
Proof. intros x. left. apply gauss_kde_pdf_pos. Qed.

Theorem gauss_kde_pdf_continuous : forall x, continuous gauss_kde_pdf x.
Proof. apply kde_pdf_continuous. apply NormalR.phi_continuous. exact h_pos. Qed.

Theorem gauss_kde_cdf_monotone : forall a b, a <= b -> gauss_kde_cdf a <= gauss_kde_cdf b.
Proof.
  apply (kde_cdf_monotone (Normal.phi 0 h) (Normal.Phi 0 h)).
  - apply NormalR.Phi_derive. exact h_pos.
  - exact gauss_phi_nonneg.
  - exact d_ok.
Qed.

Theorem gauss_kde_integral : forall a b,
  @eq R (RInt gauss_kde_pdf a b) (gauss_kde_cdf b - gauss_kde_cdf a).
Proof.
  intros a b. apply (kde_integral (Normal.phi 0 h) (Normal.Phi 0 h)).
  - apply NormalR.Phi_derive. exact h_pos.
  - apply NormalR.phi_continuous. exact h_pos.
Qed.

Theorem gauss_kde_proper : proper_pair gauss_kde_pdf gauss_kde_cdf.
Proof.
  apply proper_pair_intro.
  - exact gauss_kde_cdf_derive.
  - exact gauss_kde_pdf_nonneg.
  - exact gauss_kde_pdf_continuous.
Qed.

(* the distribution function never reaches 0 or 1 ... *)
Theorem gauss_kde_cdf_range : forall x, 0 < gauss_kde_cdf x < 1.
Proof.
  intros x. split.
  - apply kde_mix_pos_strict; [|exact d_ok].
    intros y. apply (NormalR.Phi_range 0 h y h_pos).
  - assert (H : 0 < kde_mix (fun y => 1 - Normal.Phi 0 h y) d x).
    { apply kde_mix_pos_strict; [|exact d_ok].
      intros y. pose proof (NormalR.Phi_range 0 h y h_pos). lra. }
    assert (E : kde_mix (fun y => 1 - Normal.Phi 0 h y) d x = 1 - gauss_kde_cdf x).
    { unfold gauss_kde_cdf, kde_mix. pose proof (wsum_pos d d_ok) as Hw.
      assert (Em : msum (fun y => 1 - Normal.Phi 0 h y) d x
                   = wsum d - msum (Normal.Phi 0 h) d x).
      { clear. induction d as [|p d' IH]; simpl; [ring|]. rewrite IH. ring. }
      rewrite Em. field. lra. }
    lra.
Qed.

(* ... but has the limits 0 and 1 (gap A applied to the Gaussian kernel): total mass one *)
Theorem gauss_kde_cdf_limits :
  is_lim gauss_kde_cdf m_infty 0 /\ is_lim gauss_kde_cdf p_infty 1.
Proof.
  apply kde_cdf_limits; [apply Phi_lim_m | apply Phi_lim_p | exact d_ok]; exact h_pos.
Qed.

(* ---- one boundary ---- *)
Theorem gauss_refl_low_derive (m x : R) :
  is_derive (refl_low_cdf gauss_kde_cdf m) x (refl_low_pdf gauss_kde_pdf m x).
Proof. apply refl_low_derive. exact gauss_kde_cdf_derive. Qed.

Theorem gauss_refl_low_pdf_nonneg (m x : R) : 0 <= refl_low_pdf gauss_kde_pdf m x.
Proof. apply refl_low_pdf_nonneg. exact gauss_kde_pdf_nonneg. Qed.

Theorem gauss_refl_low_cdf_at_min (m : R) : refl_low_cdf gauss_kde_cdf m m = 0.
Proof. apply refl_low_cdf_at_min. Qed.

Theorem gauss_refl_low_cdf_monotone (m : R) :
  forall a b, a <= b -> refl_low_cdf gauss_kde_cdf m a <= refl_low_cdf gauss_kde_cdf m b.
Proof.
  apply (refl_low_cdf_monotone gauss_kde_pdf gauss_kde_cdf).
  - exact gauss_kde_cdf_derive.
  - exact gauss_kde_pdf_nonneg.
Qed.

Theorem gauss_refl_low_integral (m b : R) :
  @eq R (RInt (refl_low_pdf gauss_kde_pdf m) m b) (refl_low_cdf gauss_kde_cdf m b).
Proof.
  apply (refl_low_integral gauss_kde_pdf gauss_kde_cdf).
  - exact gauss_kde_cdf_derive.
  - exact gauss_kde_pdf_continuous.
Qed.

(* total mass one on [m, +inf), as an improper integral *)
Theorem gauss_refl_low_mass_one (m : R) :
  is_lim (fun b => RInt (refl_low_pdf gauss_kde_pdf m) m b) p_infty 1.
Proof.
  apply is_lim_ext with (refl_low_cdf gauss_kde_cdf m).
  { intros b. symmetry. apply gauss_refl_low_integral. }
  destruct gauss_kde_cdf_limits as [H0 H1]. apply refl_low_cdf_lim; assumption.
Qed.

Theorem gauss_refl_high_derive (M x : R) :
  is_derive (refl_high_cdf gauss_kde_cdf M) x (refl_high_pdf gauss_kde_pdf M x).
Proof. apply refl_high_derive. exact gauss_kde_cdf_derive. Qed.

Theorem gauss_refl_high_pdf_nonneg (M x : R) : 0 <= refl_high_pdf gauss_kde_pdf M x.
Proof. apply refl_high_pdf_nonneg. exact gauss_kde_pdf_nonneg. Qed.

Theorem gauss_refl_high_cdf_at_max (M : R) : refl_high_cdf gauss_kde_cdf M M = 1.
Proof. apply refl_high_cdf_at_max. Qed.

Theorem gauss_refl_high_cdf_monotone (M : R) :
  forall a b, a <= b -> refl_high_cdf gauss_kde_cdf M a <= refl_high_cdf gauss_kde_cdf M b.
Proof.
  apply (refl_high_cdf_monotone gauss_kde_pdf gauss_kde_cdf).
  - exact gauss_kde_cdf_derive.
  - exact gauss_kde_pdf_nonneg.
Qed.

Theorem gauss_refl_high_integral (M a : R) :
  @eq R (RInt (refl_high_pdf gauss_kde_pdf M) a M) (1 - refl_high_cdf gauss_kde_cdf M a).
Proof.
  apply (refl_high_integral gauss_kde_pdf gauss_kde_cdf).
  - exact gauss_kde_cdf_derive.
  - exact gauss_kde_pdf_continuous.
Qed.

(* total mass one on (-inf, M), as an improper integral *)
Theorem gauss_refl_high_mass_one (M : R) :
  is_lim (fun a => RInt (refl_high_pdf gauss_kde_pdf M) a M) m_infty 1.
Proof.
  apply is_lim_ext with (fun a => 1 - refl_high_cdf gauss_kde_cdf M a).
  { intros a. symmetry. apply gauss_refl_high_integral. }
  replace (Finite 1) with (Finite (1 - 0)) by (f_equal; ring).
  apply is_lim_minus'; [apply is_lim_const|].
  destruct gauss_kde_cdf_limits as [H0 H1]. apply refl_high_cdf_lim; assumption.
Qed.

(* ---- both boundaries: finitely many images n = -N .. N ---- *)
Theorem gauss_img_derive (m M : R) (N : nat) (x : R) :
  is_derive (img_cdf gauss_kde_cdf m M N) x (img_pdf gauss_kde_pdf m M N x).
Proof. apply img_derive. exact gauss_kde_cdf_derive. Qed.

Theorem gauss_img_pdf_nonneg (m M : R) (N : nat) (x : R) :
  0 <= img_pdf gauss_kde_pdf m M N x.
Proof. apply img_pdf_nonneg. exact gauss_kde_pdf_nonneg. Qed.

Theorem gauss_img_cdf_monotone (m M : R) (N : nat) :
  forall a b, a <= b -> img_cdf gauss_kde_cdf m M N a <= img_cdf gauss_kde_cdf m M N b.
Proof.
  apply (img_cdf_monotone gauss_kde_pdf gauss_kde_cdf).
  - exact gauss_kde_cdf_derive.
  - exact gauss_kde_pdf_nonneg.
Qed.

Theorem gauss_img_cdf_at_min (m M : R) (N : nat) : img_cdf gauss_kde_cdf m M N m = 0.
Proof. apply img_cdf_at_min. Qed.

(* the exact telescoped value at the upper boundary; it is NOT 1 *)
Theorem gauss_img_cdf_at_max (m M : R) (N : nat) :
  img_cdf gauss_kde_cdf m M N M =
  gauss_kde_cdf (M + INR N * img_period m M) - gauss_kde_cdf (M - (INR N + 1) * img_period m M).
Proof. apply img_cdf_at_max. Qed.

Theorem gauss_img_integral (m M : R) (N : nat) (a b : R) :
  @eq R (RInt (img_pdf gauss_kde_pdf m M N) a b)
        (img_cdf gauss_kde_cdf m M N b - img_cdf gauss_kde_cdf m M N a).
Proof.
  apply (img_integral gauss_kde_pdf gauss_kde_cdf).
  - exact gauss_kde_cdf_derive.
  - exact gauss_kde_pdf_continuous.
Qed.

(* With finitely many images the mass of [m, M] is strictly between 0 and 1 (for m < M):
   the truncated image sum of a Gaussian KDE is never exactly normalised. *)
Theorem gauss_img_mass_defect (m M : R) (N : nat) :
  m < M ->
  0 < RInt (img_pdf gauss_kde_pdf m M N) m M < 1.
Proof.
  intros HmM. rewrite gauss_img_integral, gauss_img_cdf_at_min, gauss_img_cdf_at_max.
  set (a := M + INR N * img_period m M). set (b := M - (INR N + 1) * img_period m M).
  pose proof (gauss_kde_cdf_range a) as Ha. pose proof (gauss_kde_cdf_range b) as Hb.
  split; [|lra].
  assert (Hab : b < a).
  { unfold a, b, img_period. pose proof (pos_INR N). nra. }
  destruct (MVT_gen gauss_kde_cdf b a gauss_kde_pdf) as [c [_ Hc]].
  - intros x _. apply gauss_kde_cdf_derive.
  - intros x _. apply continuity_pt_filterlim.
    apply (ex_derive_continuous (V := R_NormedModule)). exists (gauss_kde_pdf x).
    apply gauss_kde_cdf_derive.
  - pose proof (gauss_kde_pdf_pos c) as Hp.
    assert (0 < gauss_kde_pdf c * (a - b)) by (apply Rmult_lt_0_compat; lra).
    change (0 < gauss_kde_cdf a - gauss_kde_cdf b - 0). lra.
Qed.

(* the missing mass vanishes as the number of images grows *)
Theorem gauss_img_mass_limit (m M : R) :
  m < M ->
  is_lim_seq (fun N => RInt (img_pdf gauss_kde_pdf m M N) m M) 1.
Proof.
  intros HmM.
  apply is_lim_seq_ext with
    (fun N => gauss_kde_cdf (M + INR N * img_period m M)
              - gauss_kde_cdf (M - (INR N + 1) * img_period m M)).
  { intros N. rewrite gauss_img_integral, gauss_img_cdf_at_min, gauss_img_cdf_at_max.
    symmetry. apply Rminus_0_r. }
  destruct gauss_kde_cdf_limits as [H0 H1].
  assert (Hd : 0 < img_period m M) by (unfold img_period; lra).
  replace (Finite 1) with (Finite (1 - 0)) by (f_equal; ring).
  apply is_lim_seq_minus'.
  - unfold is_lim_seq. unfold is_lim in H1.
    apply (filterlim_comp _ _ _ (fun N => M + INR N * img_period m M) gauss_kde_cdf
             Hierarchy.eventually (Rbar_locally' p_infty) _); [|exact H1].
    apply (filterlim_comp _ _ _ INR (fun t => M + t * img_period m M)
             Hierarchy.eventually (Rbar_locally' p_infty) _);
      [exact is_lim_seq_INR | apply filterlim_lin_p; exact Hd].
  - unfold is_lim_seq. unfold is_lim in H0.
    apply (filterlim_comp _ _ _ (fun N => M - (INR N + 1) * img_period m M) gauss_kde_cdf
             Hierarchy.eventually (Rbar_locally' m_infty) _); [|exact H0].
    apply (filterlim_comp _ _ _ INR (fun t => M - (t + 1) * img_period m M)
             Hierarchy.eventually (Rbar_locally' p_infty) _);
      [exact is_lim_seq_INR | apply filterlim_lin_m; exact Hd].
Qed.

End GaussKDE.

(* ====================================================================================== *)
(* 7. The bandwidth rules: the 10th power over R, and comparing on squares                 *)
(* ====================================================================================== *)

(* (1.06 * s * n^(-1/5))^10 = 1.06^10 * (s^2)^5 / n^2 : the real-number reading of
   Spec.Kde.rule10 / Model.Kde.bw10 (s2 = s*s the variance, n the sample size) *)
Theorem rule10_real (s n : R) : 0 < n ->
  (106 / 100 * s * Rpower n (- (1 / 5))) ^ 10 = (106 / 100) ^ 10 * (s * s) ^ 5 / (n * n).
Proof.
  intros Hn.
  assert (E : Rpower n (- (1 / 5)) ^ 10 = / (n * n)).
  { rewrite <- Rpower_pow by (apply exp_pos).
    rewrite Rpower_mult.
    replace (- (1 / 5) * INR 10) with (- INR 2) by (simpl; field).
    rewrite Rpower_Ropp, Rpower_pow by exact Hn. f_equal. ring. }
  rewrite !Rpow_mult_distr, E.
  replace (s ^ 10) with ((s * s) ^ 5) by ring.
  unfold Rdiv. ring.
Qed.

(* the same statement at rational arguments, connecting to the Q spec: Q2R (rule10 s2 n) *)
Lemma Q2R_Qpower_nat (q : Q) (k : nat) : Q2R (Qpower_nat q k) = Q2R q ^ k.
Proof. induction k as [|k IH]; simpl; [apply qr_1|]. rewrite Q2R_mult, IH. reflexivity. Qed.

Theorem Q2R_rule10 (s : R) (s2 n : Q) : (0 < n)%Q -> Q2R s2 = s * s ->
  Q2R (rule10 s2 n) = (106 / 100 * s * Rpower (Q2R n) (- (1 / 5))) ^ 10.
Proof.
  intros Hn Hs. pose proof (qr_pos n Hn) as HnR.
  rewrite rule10_real by exact HnR. unfold rule10.
  rewrite Q2R_div by (apply qr_neq0; rewrite Q2R_mult; nra).
  rewrite !Q2R_mult, !Q2R_Qpower_nat, Hs.
  replace (Q2R (106 # 100)) with (106 / 100) by (unfold Q2R; simpl; lra).
  reflexivity.
Qed.

(* BandwidthScott compares standard deviations, the model compares variances: for
   non-negative numbers the smaller square is the square of the smaller number *)
Theorem Rmin_sq (a b : R) : 0 <= a -> 0 <= b -> Rmin a b * Rmin a b = Rmin (a * a) (b * b).
Proof.
  intros Ha Hb. unfold Rmin.
  destruct (Rle_dec a b) as [H|H]; destruct (Rle_dec (a * a) (b * b)) as [H'|H'];
    try reflexivity; nra.
Qed.

Theorem Rlt_sq_iff (a b : R) : 0 <= a -> 0 <= b -> (a < b <-> a * a < b * b).
Proof. intros Ha Hb. split; intros H; nra. Qed.

(* the model's bw10 (qpow, c106) is the spec's rule10, hence also the real-number rule *)
Lemma qpow_Qpower_nat (q : Q) (k : nat) : Model.Kde.qpow q k = Qpower_nat q k.
Proof. induction k as [|k IH]; simpl; [reflexivity|]. rewrite IH. reflexivity. Qed.

Theorem Q2R_bw10 (s : R) (s2 n : Q) : (0 < n)%Q -> Q2R s2 = s * s ->
  Q2R (Model.Kde.bw10 s2 n) = (106 / 100 * s * Rpower (Q2R n) (- (1 / 5))) ^ 10.
Proof.
  intros Hn Hs. rewrite <- (Q2R_rule10 s s2 n Hn Hs).
  unfold Model.Kde.bw10, rule10, Model.Kde.c106. rewrite !qpow_Qpower_nat. reflexivity.
Qed.

(* ====================================================================================== *)
(* 8. The hypotheses of the capstones are satisfiable (the theorems are not vacuous)       *)
(* ====================================================================================== *)

Example capstone_hypotheses_inhabited :
  let ps := [((1 # 4)%Q, 1%Q); ((3 # 4)%Q, 2%Q)] in
  pairs_ok ps /\ pairs_within 0 1 ps /\ (0 < 1 # 2)%Q /\
  ((1 # 2) <= inject_Z (Z.of_nat 1) * period 0 1)%Q.
Proof.
  cbv zeta. split; [split; [discriminate|]|split; [|split]].
  - repeat constructor.
  - repeat constructor; simpl; unfold Qle; simpl; lia.
  - reflexivity.
  - unfold Qle; simpl; lia.
Qed.

(* and the agreement can be observed on that sample: the doubly bounded model density at
   x = 1/2 is the exact rational 9/8, hence so is the real image density there *)
Example capstone_instance :
  let ps := [((1 # 4)%Q, 1%Q); ((3 # 4)%Q, 2%Q)] in
  (fold_pdf (wavg (Model.Kde.epan_pdf (1 # 2)) ps) 0 1 1 (1 # 2) == 9 # 8)%Q /\
  img_pdf (epanR_pdf (1 # 2) ps) (Q2R 0) (Q2R 1) 1 (Q2R (1 # 2)) = 9 / 8.
Proof.
  cbv zeta. destruct capstone_hypotheses_inhabited as (Hok & Hin & Hh & HN).
  assert (E : (fold_pdf (wavg (Model.Kde.epan_pdf (1 # 2))
                 [((1 # 4)%Q, 1%Q); ((3 # 4)%Q, 2%Q)]) 0 1 1 (1 # 2) == 9 # 8)%Q)
    by (vm_compute; reflexivity).
  split; [exact E|].
  destruct (epan_kde_Q_both _ _ _ _ _ Hok Hh Hin HN) as [Hag _].
  rewrite <- (Hag (1 # 2)%Q). rewrite (Qeq_eqR _ _ E).
  unfold Q2R; simpl; lra.
Qed.

(* ====================================================================================== *)
(* Axioms used                                                                             *)
(* ====================================================================================== *)

Print Assumptions Q2R_epan_pdf.
Print Assumptions Q2R_wavg.
Print Assumptions Q2R_fold_cdf.
Print Assumptions epan_kde_Q_proper.
Print Assumptions epan_kde_Q_lower.
Print Assumptions epan_kde_Q_upper.
Print Assumptions epan_kde_Q_both.
Print Assumptions kde_cdf_limits.
Print Assumptions gauss_kernel_pair.
Print Assumptions gauss_kde_cdf_limits.
Print Assumptions gauss_img_mass_defect.
Print Assumptions gauss_img_mass_limit.
Print Assumptions Q2R_rule10.
Print Assumptions Q2R_bw10.

(* Proofs/KdeR.v — theorems about RealSpec/KdeR.v: the Epanechnikov kernel, kernel mixtures
   (KDE pdf / cdf), reflection at one boundary and the method of images at two boundaries.
   Everything is proved; the only axioms are those of the stdlib classical reals
   (sig_not_dec, sig_forall_dec, functional_extensionality_dep, classic)
   (see Print Assumptions at the end). *)
From Coq Require Import Reals Lra Psatz List.
From Coquelicot Require Import Coquelicot.
From MM Require Import RealSpec.KdeR.
Open Scope R_scope.

(* ====================================================================================== *)
(* 0. General tools                                                                        *)
(* ====================================================================================== *)

(* Equalities produced by Coquelicot often live at a structure carrier (R_UniformSpace, ...)
   that is convertible to R; [eqR] restates the goal at type R so that ring/field/lra apply. *)
Ltac eqR := match goal with |- @eq _ ?a ?b => change (@eq R a b) end.

(* Glueing two differentiable pieces at a point a: if f agrees with g on (a-δ, a] and with
   k on [a, a+δ), and g, k have the same derivative l at a, then f has derivative l at a. *)
Lemma is_derive_glue (f g k : R -> R) (a l delta : R) :
  0 < delta ->
  (forall x, a - delta < x <= a -> f x = g x) ->
  (forall x, a <= x < a + delta -> f x = k x) ->
  is_derive g a l -> is_derive k a l -> is_derive f a l.
Proof.
  intros Hdelta Hg Hk Dg Dk.
  apply is_derive_Reals in Dg. apply is_derive_Reals in Dk. apply is_derive_Reals.
  intros eps Heps.
  destruct (Dg eps Heps) as [d1 H1]. destruct (Dk eps Heps) as [d2 H2].
  assert (Hd : 0 < Rmin delta (Rmin d1 d2)).
  { apply Rmin_pos; [exact Hdelta|]. apply Rmin_pos; [apply d1 | apply d2]. }
  exists (mkposreal _ Hd). simpl. intros t Hne Hlt.
  assert (Ht0 : Rabs t < delta) by (eapply Rlt_le_trans; [exact Hlt | apply Rmin_l]).
  assert (Ht1 : Rabs t < d1).
  { eapply Rlt_le_trans; [exact Hlt|]. eapply Rle_trans; [apply Rmin_r | apply Rmin_l]. }
  assert (Ht2 : Rabs t < d2).
  { eapply Rlt_le_trans; [exact Hlt|]. eapply Rle_trans; [apply Rmin_r | apply Rmin_r]. }
  destruct (Rle_dec t 0) as [Hneg | Hpos].
  - rewrite (Hg (a + t)), (Hg a).
    + apply H1; assumption.
    + lra.
    + rewrite Rabs_left1 in Ht0 by exact Hneg. lra.
  - rewrite (Hk (a + t)), (Hk a).
    + apply H2; assumption.
    + lra.
    + rewrite Rabs_pos_eq in Ht0 by lra. lra.
Qed.

(* Local equality on an open interval around a, stated with an explicit radius. *)
Lemma is_derive_loc_eq (f g : R -> R) (a l delta : R) :
  0 < delta ->
  (forall x, a - delta < x < a + delta -> f x = g x) ->
  is_derive g a l -> is_derive f a l.
Proof.
  intros Hdelta Heq Dg.
  apply (is_derive_glue f g g a l delta Hdelta); try assumption;
    intros x Hx; apply Heq; lra.
Qed.

(* A function whose derivative is everywhere non-negative is non-decreasing. *)
Lemma derive_nonneg_incr (F f : R -> R) :
  (forall x, is_derive F x (f x)) -> (forall x, 0 <= f x) ->
  forall a b, a <= b -> F a <= F b.
Proof.
  intros HD Hf a b Hab.
  destruct (MVT_gen F a b f) as [c [_ Hc]].
  - intros x _. apply HD.
  - intros x _. apply continuity_pt_filterlim.
    apply (ex_derive_continuous (V := R_NormedModule)). exists (f x). apply HD.
  - assert (0 <= f c * (b - a)) by (apply Rmult_le_pos; [apply Hf | lra]). lra.
Qed.

(* Fundamental theorem of calculus in the form used below. *)
Lemma RInt_derive_pair (F f : R -> R) (a b : R) :
  (forall x, is_derive F x (f x)) -> (forall x, continuous f x) ->
  RInt f a b = F b - F a.
Proof.
  intros HD Hc.
  apply is_RInt_unique.
  apply (is_RInt_derive (V := R_CompleteNormedModule) F f a b); intros x _; [apply HD | apply Hc].
Qed.

(* Chain rule for an affine change of variable  x |-> s x + c. *)
Lemma is_derive_affine (F f : R -> R) (s c x : R) :
  (forall y, is_derive F y (f y)) ->
  is_derive (fun x => F (s * x + c)) x (s * f (s * x + c)).
Proof.
  intros HD.
  apply (is_derive_comp (V := R_NormedModule) F (fun x => s * x + c) x (f (s * x + c)) s).
  - apply HD.
  - auto_derive; [exact I | ring].
Qed.

(* Continuity under an affine change of variable. *)
Lemma continuous_affine (f : R -> R) (s c x : R) :
  (forall y, continuous f y) -> continuous (fun x => f (s * x + c)) x.
Proof.
  intros Hc.
  apply (continuous_comp (fun x => s * x + c) f).
  - apply (ex_derive_continuous (V := R_NormedModule)). auto_derive. exact I.
  - apply Hc.
Qed.

(* ====================================================================================== *)
(* A. The Epanechnikov kernel                                                              *)
(* ====================================================================================== *)

Section Epanechnikov.

Variable h : R.
Hypothesis h_pos : 0 < h.

Lemma epan_pdf_nonneg : forall x, 0 <= epan_pdf h x.
Proof.
  intros x. unfold epan_pdf.
  destruct (Rlt_dec (- h) x) as [H1|H1]; [|lra].
  destruct (Rlt_dec x h) as [H2|H2]; [|lra].
  apply Rmult_le_pos.
  - apply Rlt_le, Rdiv_lt_0_compat; lra.
  - assert (x * x / (h * h) <= 1); [|lra].
    apply Rmult_le_reg_r with (h * h); [nra|].
    unfold Rdiv. rewrite Rmult_assoc, Rinv_l by nra. nra.
Qed.

Lemma epan_cdf_left : forall x, x <= - h -> epan_cdf h x = 0.
Proof.
  intros x Hx. unfold epan_cdf. destruct (Rle_dec x (- h)); [reflexivity | lra].
Qed.

Lemma epan_poly_at_h : epan_poly h h = 1.
Proof. unfold epan_poly. field. lra. Qed.

Lemma epan_poly_at_mh : epan_poly h (- h) = 0.
Proof. unfold epan_poly. field. lra. Qed.

Lemma epan_cdf_right : forall x, h <= x -> epan_cdf h x = 1.
Proof.
  intros x Hx. unfold epan_cdf.
  destruct (Rle_dec x (- h)); [lra|].
  destruct (Rle_dec x h); [|reflexivity].
  replace x with h by lra. apply epan_poly_at_h.
Qed.

Lemma epan_cdf_mid : forall x, - h <= x <= h -> epan_cdf h x = epan_poly h x.
Proof.
  intros x Hx. unfold epan_cdf.
  destruct (Rle_dec x (- h)).
  - replace x with (- h) by lra. symmetry. apply epan_poly_at_mh.
  - destruct (Rle_dec x h); [reflexivity | lra].
Qed.

(* the polynomial piece and its derivative (the parabola epan_q), on all of R *)
Lemma epan_poly_derive : forall x, is_derive (epan_poly h) x (epan_q h x).
Proof.
  intros x. unfold epan_poly, epan_q. auto_derive; [lra|]. field. lra.
Qed.

Lemma epan_pdf_mid : forall x, - h < x < h -> epan_pdf h x = epan_q h x.
Proof.
  intros x Hx. unfold epan_pdf, epan_q.
  destruct (Rlt_dec (- h) x); [|lra]. destruct (Rlt_dec x h); [reflexivity | lra].
Qed.

Lemma epan_pdf_out : forall x, x <= - h \/ h <= x -> epan_pdf h x = 0.
Proof.
  intros x Hx. unfold epan_pdf.
  destruct (Rlt_dec (- h) x); [|reflexivity]. destruct (Rlt_dec x h); [lra | reflexivity].
Qed.

Lemma epan_q_at_h : epan_q h h = 0.
Proof. unfold epan_q. field. lra. Qed.

Lemma epan_q_at_mh : epan_q h (- h) = 0.
Proof. unfold epan_q. field. lra. Qed.

(* The distribution function is differentiable EVERYWHERE (also at the junctions x = -h, x = h,
   where both one-sided derivatives are 0), with derivative the density. *)
Theorem epan_cdf_derive : forall x, is_derive (epan_cdf h) x (epan_pdf h x).
Proof.
  intros x.
  destruct (Rlt_dec x (- h)) as [Hlo | Hlo].
  { (* x < -h *)
    rewrite epan_pdf_out by lra.
    apply (is_derive_loc_eq _ (fun _ => 0) x 0 (- h - x)); [lra | |].
    - intros y Hy. apply epan_cdf_left. lra.
    - apply (is_derive_const (V := R_NormedModule)). }
  destruct (Req_dec x (- h)) as [Hlo' | Hlo'].
  { (* x = -h *)
    subst x. rewrite epan_pdf_out by lra.
    apply (is_derive_glue _ (fun _ => 0) (epan_poly h) (- h) 0 h h_pos).
    - intros y Hy. apply epan_cdf_left. lra.
    - intros y Hy. apply epan_cdf_mid. lra.
    - apply (is_derive_const (V := R_NormedModule)).
    - rewrite <- epan_q_at_mh. apply epan_poly_derive. }
  destruct (Rlt_dec x h) as [Hhi | Hhi].
  { (* -h < x < h *)
    rewrite epan_pdf_mid by lra.
    apply (is_derive_loc_eq _ (epan_poly h) x _ (Rmin (x + h) (h - x))).
    - apply Rmin_pos; lra.
    - intros y Hy. apply epan_cdf_mid.
      pose proof (Rmin_l (x + h) (h - x)). pose proof (Rmin_r (x + h) (h - x)). lra.
    - apply epan_poly_derive. }
  destruct (Req_dec x h) as [Hhi' | Hhi'].
  { (* x = h *)
    subst x. rewrite epan_pdf_out by lra.
    apply (is_derive_glue _ (epan_poly h) (fun _ => 1) h 0 h h_pos).
    - intros y Hy. apply epan_cdf_mid. lra.
    - intros y Hy. apply epan_cdf_right. lra.
    - rewrite <- epan_q_at_h. apply epan_poly_derive.
    - apply (is_derive_const (V := R_NormedModule)). }
  (* h < x *)
  rewrite epan_pdf_out by lra.
  apply (is_derive_loc_eq _ (fun _ => 1) x 0 (x - h)); [lra | |].
  - intros y Hy. apply epan_cdf_right. lra.
  - apply (is_derive_const (V := R_NormedModule)).
Qed.

Theorem epan_cdf_monotone : forall a b, a <= b -> epan_cdf h a <= epan_cdf h b.
Proof.
  apply (derive_nonneg_incr (epan_cdf h) (epan_pdf h)).
  - apply epan_cdf_derive.
  - apply epan_pdf_nonneg.
Qed.

Lemma epan_cdf_range : forall x, 0 <= epan_cdf h x <= 1.
Proof.
  intros x. split.
  - rewrite <- (epan_cdf_left (Rmin x (- h))) by apply Rmin_r.
    apply epan_cdf_monotone, Rmin_l.
  - rewrite <- (epan_cdf_right (Rmax x h)) by apply Rmax_r.
    apply epan_cdf_monotone, Rmax_l.
Qed.

(* the density is the positive part of the parabola *)
Lemma epan_pdf_posp : forall x, epan_pdf h x = (epan_q h x + Rabs (epan_q h x)) / 2.
Proof.
  intros x.
  assert (Hq : epan_q h x = 3 / (4 * h * (h * h)) * (h * h - x * x)).
  { unfold epan_q. field. lra. }
  assert (Hc : 0 < 3 / (4 * h * (h * h))).
  { apply Rdiv_lt_0_compat; [lra|]. apply Rmult_lt_0_compat; nra. }
  destruct (Rle_dec x (- h)) as [H1|H1]; [|destruct (Rle_dec h x) as [H2|H2]].
  - rewrite epan_pdf_out by lra.
    rewrite Rabs_left1; [lra|]. rewrite Hq.
    assert (h * h - x * x <= 0) by nra.
    set (c := 3 / (4 * h * (h * h))) in *. nra.
  - rewrite epan_pdf_out by lra.
    rewrite Rabs_left1; [lra|]. rewrite Hq.
    assert (h * h - x * x <= 0) by nra.
    set (c := 3 / (4 * h * (h * h))) in *. nra.
  - rewrite epan_pdf_mid by lra.
    rewrite Rabs_pos_eq; [lra|]. rewrite Hq.
    assert (0 <= h * h - x * x) by nra.
    set (c := 3 / (4 * h * (h * h))) in *. nra.
Qed.

Lemma epan_q_continuous : forall x, continuous (epan_q h) x.
Proof.
  intros x. apply (ex_derive_continuous (V := R_NormedModule)).
  unfold epan_q. auto_derive. lra.
Qed.

Theorem epan_pdf_continuous : forall x, continuous (epan_pdf h) x.
Proof.
  intros x.
  apply continuous_ext with (fun x => / 2 * (epan_q h x + Rabs (epan_q h x))).
  - intros y. rewrite epan_pdf_posp. unfold Rdiv. apply Rmult_comm.
  - apply (continuous_scal_r (V := R_NormedModule) (/ 2)).
    apply (continuous_plus (V := R_NormedModule)).
    + apply epan_q_continuous.
    + apply continuous_Rabs_comp, epan_q_continuous.
Qed.

(* total mass one: the density integrates to 1 over its support [-h, h] *)
Theorem epan_mass_one : RInt (epan_pdf h) (- h) h = 1.
Proof.
  rewrite (RInt_derive_pair (epan_cdf h) (epan_pdf h)).
  - rewrite epan_cdf_right, epan_cdf_left by lra. eqR. ring.
  - apply epan_cdf_derive.
  - apply epan_pdf_continuous.
Qed.

(* the distribution function IS the integral of the density from the left end of the support *)
Theorem epan_cdf_is_integral : forall x, epan_cdf h x = RInt (epan_pdf h) (- h) x.
Proof.
  intros x.
  rewrite (RInt_derive_pair (epan_cdf h) (epan_pdf h)).
  - rewrite (epan_cdf_left (- h)) by lra. eqR. ring.
  - apply epan_cdf_derive.
  - apply epan_pdf_continuous.
Qed.

(* the density is even *)
Lemma epan_pdf_even : forall x, epan_pdf h (- x) = epan_pdf h x.
Proof.
  intros x.
  destruct (Rle_dec x (- h)); [|destruct (Rle_dec h x)].
  - rewrite !epan_pdf_out by lra. reflexivity.
  - rewrite !epan_pdf_out by lra. reflexivity.
  - rewrite !epan_pdf_mid by lra. unfold epan_q. field. lra.
Qed.

End Epanechnikov.

(* ====================================================================================== *)
(* B. Kernel mixtures: the unbounded KDE pdf and cdf                                       *)
(* ====================================================================================== *)

(* chain rule / continuity for an affine argument written in any form u with u y = s y + c *)
Lemma is_derive_affine' (F f : R -> R) (s c : R) (u : R -> R) (x l : R) :
  (forall y, is_derive F y (f y)) ->
  (forall y, u y = s * y + c) ->
  l = s * f (u x) ->
  is_derive (fun x => F (u x)) x l.
Proof.
  intros HD Hu Hl. subst l.
  apply is_derive_ext with (fun x => F (s * x + c)).
  - intros y. rewrite Hu. reflexivity.
  - rewrite Hu. apply is_derive_affine. exact HD.
Qed.

Lemma continuous_affine' (f : R -> R) (s c : R) (u : R -> R) (x : R) :
  (forall y, continuous f y) ->
  (forall y, u y = s * y + c) ->
  continuous (fun x => f (u x)) x.
Proof.
  intros Hc Hu.
  apply continuous_ext with (fun x => f (s * x + c)).
  - intros y. rewrite Hu. reflexivity.
  - apply continuous_affine. exact Hc.
Qed.

(* ---- the total weight ---- *)

Lemma wsum_nonneg (d : sample) : List.Forall (fun p => 0 < snd p) d -> 0 <= wsum d.
Proof.
  induction 1 as [|p d Hp Hd IH]; simpl; lra.
Qed.

Lemma wsum_pos (d : sample) : sample_ok d -> 0 < wsum d.
Proof.
  intros [Hne Hall]. destruct d as [|p d]; [congruence|].
  inversion Hall as [|p' d' Hp Hd]; subst. simpl.
  pose proof (wsum_nonneg d Hd). lra.
Qed.

(* ---- the un-normalised mixture, for an arbitrary g ---- *)

Lemma msum_nonneg (g : R -> R) (d : sample) (x : R) :
  (forall y, 0 <= g y) -> List.Forall (fun p => 0 < snd p) d -> 0 <= msum g d x.
Proof.
  intros Hg. induction 1 as [|p d Hp Hd IH]; simpl; [lra|].
  pose proof (Hg (x - fst p)). nra.
Qed.

Lemma msum_le_wsum (g : R -> R) (d : sample) (x : R) :
  (forall y, g y <= 1) -> List.Forall (fun p => 0 < snd p) d -> msum g d x <= wsum d.
Proof.
  intros Hg. induction 1 as [|p d Hp Hd IH]; simpl; [lra|].
  pose proof (Hg (x - fst p)). nra.
Qed.

Lemma msum_all_zero (g : R -> R) (d : sample) (x : R) :
  (forall p, In p d -> g (x - fst p) = 0) -> msum g d x = 0.
Proof.
  induction d as [|p d IH]; intros H; simpl; [reflexivity|].
  rewrite (H p) by (left; reflexivity). rewrite IH; [ring|].
  intros q Hq. apply H. right. exact Hq.
Qed.

Lemma msum_all_one (g : R -> R) (d : sample) (x : R) :
  (forall p, In p d -> g (x - fst p) = 1) -> msum g d x = wsum d.
Proof.
  induction d as [|p d IH]; intros H; simpl; [reflexivity|].
  rewrite (H p) by (left; reflexivity). rewrite IH; [ring|].
  intros q Hq. apply H. right. exact Hq.
Qed.

Lemma msum_derive (G g : R -> R) (d : sample) (x : R) :
  (forall y, is_derive G y (g y)) -> is_derive (msum G d) x (msum g d x).
Proof.
  intros HD. induction d as [|p d IH].
  - apply is_derive_ext with (fun _ => 0); [reflexivity|].
    apply (is_derive_const (V := R_NormedModule)).
  - apply is_derive_ext with (fun x => snd p * G (x - fst p) + msum G d x); [reflexivity|].
    apply (is_derive_plus (V := R_NormedModule)); [|exact IH].
    apply is_derive_scal.
    apply (is_derive_affine' G g 1 (- fst p) (fun x => x - fst p)); [exact HD | |].
    + intros y. ring.
    + ring.
Qed.

Lemma msum_continuous (g : R -> R) (d : sample) (x : R) :
  (forall y, continuous g y) -> continuous (msum g d) x.
Proof.
  intros Hc. induction d as [|p d IH].
  - apply continuous_ext with (fun _ => 0); [reflexivity|]. apply continuous_const.
  - apply continuous_ext with (fun x => snd p * g (x - fst p) + msum g d x); [reflexivity|].
    apply (continuous_plus (V := R_NormedModule)); [|exact IH].
    apply (continuous_scal_r (V := R_NormedModule) (snd p)).
    apply (continuous_affine' g 1 (- fst p) (fun x => x - fst p)); [exact Hc|].
    intros y. ring.
Qed.

(* ---- the mixture, for an arbitrary derivative pair ---- *)

Lemma kde_mix_derive (G g : R -> R) (d : sample) (x : R) :
  (forall y, is_derive G y (g y)) -> is_derive (kde_mix G d) x (kde_mix g d x).
Proof.
  intros HD. unfold kde_mix.
  apply is_derive_ext with (fun x => / wsum d * msum G d x).
  - intros y. unfold Rdiv. apply Rmult_comm.
  - replace (msum g d x / wsum d) with (/ wsum d * msum g d x) by (unfold Rdiv; ring).
    apply is_derive_scal. apply msum_derive. exact HD.
Qed.

Lemma kde_mix_continuous (g : R -> R) (d : sample) (x : R) :
  (forall y, continuous g y) -> continuous (kde_mix g d) x.
Proof.
  intros Hc. unfold kde_mix.
  apply continuous_ext with (fun x => / wsum d * msum g d x).
  - intros y. unfold Rdiv. apply Rmult_comm.
  - apply (continuous_scal_r (V := R_NormedModule) (/ wsum d)).
    apply msum_continuous. exact Hc.
Qed.

Lemma kde_mix_nonneg (g : R -> R) (d : sample) (x : R) :
  (forall y, 0 <= g y) -> sample_ok d -> 0 <= kde_mix g d x.
Proof.
  intros Hg Hok. unfold kde_mix.
  apply Rmult_le_pos.
  - apply msum_nonneg; [exact Hg | apply Hok].
  - apply Rlt_le, Rinv_0_lt_compat, wsum_pos, Hok.
Qed.

Lemma kde_mix_le_1 (g : R -> R) (d : sample) (x : R) :
  (forall y, g y <= 1) -> sample_ok d -> kde_mix g d x <= 1.
Proof.
  intros Hg Hok. unfold kde_mix.
  pose proof (wsum_pos d Hok) as Hw.
  apply Rmult_le_reg_r with (wsum d); [exact Hw|].
  unfold Rdiv. rewrite Rmult_assoc, Rinv_l, Rmult_1_r, Rmult_1_l by lra.
  apply msum_le_wsum; [exact Hg | apply Hok].
Qed.

Section Kernel.

(* an abstract kernel: density k, distribution function K *)
Variables (k K : R -> R).
Hypothesis K_derive : forall x, is_derive K x (k x).
Hypothesis k_nonneg : forall x, 0 <= k x.
Hypothesis k_cont : forall x, continuous k x.

(* a well-formed weighted sample *)
Variable d : sample.
Hypothesis d_ok : sample_ok d.

Theorem kde_pdf_nonneg : forall x, 0 <= kde_mix k d x.
Proof. intros x. apply kde_mix_nonneg; assumption. Qed.

Theorem kde_cdf_derive : forall x, is_derive (kde_mix K d) x (kde_mix k d x).
Proof. intros x. apply kde_mix_derive. exact K_derive. Qed.

Theorem kde_pdf_continuous : forall x, continuous (kde_mix k d) x.
Proof. intros x. apply kde_mix_continuous. exact k_cont. Qed.

Theorem kde_cdf_monotone : forall a b, a <= b -> kde_mix K d a <= kde_mix K d b.
Proof.
  apply (derive_nonneg_incr (kde_mix K d) (kde_mix k d)).
  - exact kde_cdf_derive.
  - exact kde_pdf_nonneg.
Qed.

Theorem kde_integral : forall a b,
  RInt (kde_mix k d) a b = kde_mix K d b - kde_mix K d a.
Proof.
  intros a b. apply RInt_derive_pair.
  - exact kde_cdf_derive.
  - exact kde_pdf_continuous.
Qed.

Theorem kde_integral_nonneg : forall a b, a <= b -> 0 <= RInt (kde_mix k d) a b.
Proof.
  intros a b Hab. rewrite kde_integral.
  pose proof (kde_cdf_monotone a b Hab). lra.
Qed.

(* if the kernel distribution function has values in [0,1], so has the KDE cdf *)
Theorem kde_cdf_range :
  (forall x, 0 <= K x <= 1) -> forall x, 0 <= kde_mix K d x <= 1.
Proof.
  intros HK x. split.
  - apply kde_mix_nonneg; [intros y; apply HK | exact d_ok].
  - apply kde_mix_le_1; [intros y; apply HK | exact d_ok].
Qed.

(* compact support of radius r: K = 0 left of -r and K = 1 right of r.
   Then the KDE cdf is 0 left of lo - r and 1 right of hi + r, for any lower bound lo and
   upper bound hi of the data points (in particular lo = min x_i, hi = max x_i). *)
Theorem kde_cdf_limits_compact (r lo hi : R) :
  (forall x, x <= - r -> K x = 0) -> (forall x, r <= x -> K x = 1) ->
  sample_within lo hi d ->
  (forall x, x <= lo - r -> kde_mix K d x = 0) /\
  (forall x, hi + r <= x -> kde_mix K d x = 1).
Proof.
  intros HK0 HK1 Hin.
  unfold sample_within in Hin. rewrite Forall_forall in Hin.
  split; intros x Hx; unfold kde_mix.
  - rewrite msum_all_zero; [unfold Rdiv; ring|].
    intros p Hp. apply HK0. pose proof (Hin p Hp). lra.
  - rewrite msum_all_one.
    + pose proof (wsum_pos d d_ok). field. lra.
    + intros p Hp. apply HK1. pose proof (Hin p Hp). lra.
Qed.

(* same for the density: k = 0 outside (-r, r) makes the KDE pdf vanish outside
   (lo - r, hi + r) *)
Theorem kde_pdf_support_compact (r lo hi : R) :
  (forall x, x <= - r \/ r <= x -> k x = 0) ->
  sample_within lo hi d ->
  forall x, x <= lo - r \/ hi + r <= x -> kde_mix k d x = 0.
Proof.
  intros Hk0 Hin x Hx.
  unfold sample_within in Hin. rewrite Forall_forall in Hin.
  unfold kde_mix. rewrite msum_all_zero; [unfold Rdiv; ring|].
  intros p Hp. apply Hk0. pose proof (Hin p Hp). lra.
Qed.

End Kernel.

(* ---- instantiation with the Epanechnikov pair ---- *)

Section EpanKDE.

Variable h : R.
Hypothesis h_pos : 0 < h.
Variable d : sample.
Hypothesis d_ok : sample_ok d.

Theorem epan_kde_pdf_nonneg : forall x, 0 <= kde_mix (epan_pdf h) d x.
Proof. exact (kde_pdf_nonneg (epan_pdf h) (epan_pdf_nonneg h h_pos) d d_ok). Qed.

Theorem epan_kde_cdf_derive :
  forall x, is_derive (kde_mix (epan_cdf h) d) x (kde_mix (epan_pdf h) d x).
Proof. exact (kde_cdf_derive (epan_pdf h) (epan_cdf h) (epan_cdf_derive h h_pos) d). Qed.

Theorem epan_kde_pdf_continuous : forall x, continuous (kde_mix (epan_pdf h) d) x.
Proof. exact (kde_pdf_continuous (epan_pdf h) (epan_pdf_continuous h h_pos) d). Qed.

Theorem epan_kde_cdf_monotone :
  forall a b, a <= b -> kde_mix (epan_cdf h) d a <= kde_mix (epan_cdf h) d b.
Proof.
  exact (kde_cdf_monotone (epan_pdf h) (epan_cdf h) (epan_cdf_derive h h_pos)
           (epan_pdf_nonneg h h_pos) d d_ok).
Qed.

Theorem epan_kde_integral : forall a b,
  RInt (kde_mix (epan_pdf h) d) a b = kde_mix (epan_cdf h) d b - kde_mix (epan_cdf h) d a.
Proof.
  exact (kde_integral (epan_pdf h) (epan_cdf h) (epan_cdf_derive h h_pos)
           (epan_pdf_continuous h h_pos) d).
Qed.

Theorem epan_kde_cdf_range : forall x, 0 <= kde_mix (epan_cdf h) d x <= 1.
Proof. exact (kde_cdf_range (epan_cdf h) d d_ok (epan_cdf_range h h_pos)). Qed.

Theorem epan_kde_cdf_limits (lo hi : R) :
  sample_within lo hi d ->
  (forall x, x <= lo - h -> kde_mix (epan_cdf h) d x = 0) /\
  (forall x, hi + h <= x -> kde_mix (epan_cdf h) d x = 1).
Proof.
  exact (kde_cdf_limits_compact (epan_cdf h) d d_ok h lo hi
           (epan_cdf_left h) (epan_cdf_right h h_pos)).
Qed.

Theorem epan_kde_pdf_support (lo hi : R) :
  sample_within lo hi d ->
  forall x, x <= lo - h \/ hi + h <= x -> kde_mix (epan_pdf h) d x = 0.
Proof.
  exact (kde_pdf_support_compact (epan_pdf h) d h lo hi (epan_pdf_out h)).
Qed.

(* total mass one of the unbounded Epanechnikov KDE *)
Theorem epan_kde_mass_one (lo hi : R) :
  sample_within lo hi d ->
  RInt (kde_mix (epan_pdf h) d) (lo - h) (hi + h) = 1.
Proof.
  intros Hin. rewrite epan_kde_integral.
  destruct (epan_kde_cdf_limits lo hi Hin) as [H0 H1].
  rewrite (H0 (lo - h)), (H1 (hi + h)) by lra. eqR. ring.
Qed.

End EpanKDE.

(* ====================================================================================== *)
(* C. Boundary reflection, for an arbitrary derivative pair (f, F)                         *)
(* ====================================================================================== *)

(* ---- symmetric finite sums ---- *)

Lemma sym_sum_ext (t t' : R -> R) (N : nat) :
  (forall n, t n = t' n) -> sym_sum t N = sym_sum t' N.
Proof.
  intros H. induction N as [|N IH]; cbn [sym_sum]; [apply H|].
  rewrite IH, !H. reflexivity.
Qed.

Lemma sym_sum_zero (t : R -> R) (N : nat) :
  (forall n, t n = 0) -> sym_sum t N = 0.
Proof.
  intros H. induction N as [|N IH]; cbn [sym_sum]; [apply H|].
  rewrite IH, !H. ring.
Qed.

Lemma sym_sum_nonneg (t : R -> R) (N : nat) :
  (forall n, 0 <= t n) -> 0 <= sym_sum t N.
Proof.
  intros H. induction N as [|N IH]; cbn [sym_sum]; [apply H|].
  pose proof (H (INR (S N))). pose proof (H (- INR (S N))). lra.
Qed.

Lemma sym_sum_derive (T t : R -> R -> R) (N : nat) (x : R) :
  (forall n, is_derive (T n) x (t n x)) ->
  is_derive (fun x => sym_sum (fun n => T n x) N) x (sym_sum (fun n => t n x) N).
Proof.
  intros H. induction N as [|N IH]; cbn [sym_sum].
  - apply H.
  - apply (is_derive_plus (V := R_NormedModule)); [|apply H].
    apply (is_derive_plus (V := R_NormedModule)); [exact IH | apply H].
Qed.

Lemma sym_sum_continuous (t : R -> R -> R) (N : nat) (x : R) :
  (forall n, continuous (t n) x) ->
  continuous (fun x => sym_sum (fun n => t n x) N) x.
Proof.
  intros H. induction N as [|N IH]; cbn [sym_sum].
  - apply H.
  - apply (continuous_plus (V := R_NormedModule)); [|apply H].
    apply (continuous_plus (V := R_NormedModule)); [exact IH | apply H].
Qed.

Section Reflection.

(* any density / distribution function pair; in kde.go it is the unbounded KDE pair *)
Variables (f F : R -> R).
Hypothesis F_derive : forall x, is_derive F x (f x).
Hypothesis f_nonneg : forall x, 0 <= f x.

(* ---- one boundary, support [m, +inf) ---- *)

Theorem refl_low_derive (m x : R) :
  is_derive (refl_low_cdf F m) x (refl_low_pdf f m x).
Proof.
  unfold refl_low_cdf, refl_low_pdf.
  evar_last.
  - apply (is_derive_minus (V := R_NormedModule)).
    + apply F_derive.
    + apply (is_derive_affine' F f (-1) (2 * m) (fun x => 2 * m - x));
        [exact F_derive | intros y; ring | reflexivity].
  - unfold minus, plus, opp. simpl. ring.
Qed.

Theorem refl_low_cdf_at_min (m : R) : refl_low_cdf F m m = 0.
Proof.
  unfold refl_low_cdf. replace (2 * m - m) with m by ring. ring.
Qed.

Theorem refl_low_pdf_nonneg (m x : R) : 0 <= refl_low_pdf f m x.
Proof.
  unfold refl_low_pdf. pose proof (f_nonneg x). pose proof (f_nonneg (2 * m - x)). lra.
Qed.

Theorem refl_low_cdf_monotone (m : R) :
  forall a b, a <= b -> refl_low_cdf F m a <= refl_low_cdf F m b.
Proof.
  apply (derive_nonneg_incr (refl_low_cdf F m) (refl_low_pdf f m)).
  - apply refl_low_derive.
  - apply refl_low_pdf_nonneg.
Qed.

(* on the support the reflected distribution function is non-negative *)
Theorem refl_low_cdf_nonneg (m x : R) : m <= x -> 0 <= refl_low_cdf F m x.
Proof.
  intros Hx. rewrite <- (refl_low_cdf_at_min m). apply refl_low_cdf_monotone. exact Hx.
Qed.

(* the reflected density is even about the boundary *)
Theorem refl_low_pdf_symmetric (m t : R) :
  refl_low_pdf f m (m + t) = refl_low_pdf f m (m - t).
Proof.
  unfold refl_low_pdf.
  replace (2 * m - (m + t)) with (m - t) by ring.
  replace (2 * m - (m - t)) with (m + t) by ring. ring.
Qed.

(* ---- one boundary, support (-inf, M) ---- *)

Theorem refl_high_derive (M x : R) :
  is_derive (refl_high_cdf F M) x (refl_high_pdf f M x).
Proof.
  unfold refl_high_cdf, refl_high_pdf.
  evar_last.
  - apply (is_derive_plus (V := R_NormedModule)).
    + apply F_derive.
    + apply (is_derive_minus (V := R_NormedModule)).
      * apply (is_derive_const (V := R_NormedModule)).
      * apply (is_derive_affine' F f (-1) (2 * M) (fun x => 2 * M - x));
          [exact F_derive | intros y; ring | reflexivity].
  - unfold minus, plus, opp, zero. simpl. ring.
Qed.

Theorem refl_high_cdf_at_max (M : R) : refl_high_cdf F M M = 1.
Proof.
  unfold refl_high_cdf. replace (2 * M - M) with M by ring. ring.
Qed.

Theorem refl_high_pdf_nonneg (M x : R) : 0 <= refl_high_pdf f M x.
Proof.
  unfold refl_high_pdf. pose proof (f_nonneg x). pose proof (f_nonneg (2 * M - x)). lra.
Qed.

Theorem refl_high_cdf_monotone (M : R) :
  forall a b, a <= b -> refl_high_cdf F M a <= refl_high_cdf F M b.
Proof.
  apply (derive_nonneg_incr (refl_high_cdf F M) (refl_high_pdf f M)).
  - apply refl_high_derive.
  - apply refl_high_pdf_nonneg.
Qed.

(* on the support the reflected distribution function is at most 1 *)
Theorem refl_high_cdf_le_1 (M x : R) : x <= M -> refl_high_cdf F M x <= 1.
Proof.
  intros Hx. rewrite <- (refl_high_cdf_at_max M). apply refl_high_cdf_monotone. exact Hx.
Qed.

Theorem refl_high_pdf_symmetric (M t : R) :
  refl_high_pdf f M (M + t) = refl_high_pdf f M (M - t).
Proof.
  unfold refl_high_pdf.
  replace (2 * M - (M + t)) with (M - t) by ring.
  replace (2 * M - (M - t)) with (M + t) by ring. ring.
Qed.

(* mass of the reflected density over [m, b] / [a, M] (needs continuity of f) *)
Theorem refl_low_integral (m b : R) :
  (forall x, continuous f x) ->
  RInt (refl_low_pdf f m) m b = refl_low_cdf F m b.
Proof.
  intros Hc.
  rewrite (RInt_derive_pair (refl_low_cdf F m) (refl_low_pdf f m)).
  - rewrite refl_low_cdf_at_min. eqR. ring.
  - apply refl_low_derive.
  - intros x. unfold refl_low_pdf.
    apply (continuous_plus (V := R_NormedModule)); [apply Hc|].
    apply (continuous_affine' f (-1) (2 * m) (fun x => 2 * m - x)); [exact Hc|].
    intros y. ring.
Qed.

Theorem refl_high_integral (M a : R) :
  (forall x, continuous f x) ->
  RInt (refl_high_pdf f M) a M = 1 - refl_high_cdf F M a.
Proof.
  intros Hc.
  rewrite (RInt_derive_pair (refl_high_cdf F M) (refl_high_pdf f M)).
  - rewrite refl_high_cdf_at_max. reflexivity.
  - apply refl_high_derive.
  - intros x. unfold refl_high_pdf.
    apply (continuous_plus (V := R_NormedModule)); [apply Hc|].
    apply (continuous_affine' f (-1) (2 * M) (fun x => 2 * M - x)); [exact Hc|].
    intros y. ring.
Qed.

(* ---- two boundaries: the method of images, truncated to the images n = -N .. N ---- *)

Theorem img_derive (m M : R) (N : nat) (x : R) :
  is_derive (img_cdf F m M N) x (img_pdf f m M N x).
Proof.
  unfold img_cdf, img_pdf.
  apply (sym_sum_derive
           (fun n x => F (x + n * img_period m M) - F (2 * m - x + n * img_period m M))
           (fun n x => f (x + n * img_period m M) + f (2 * m - x + n * img_period m M))).
  intros n. set (c := n * img_period m M).
  evar_last.
  - apply (is_derive_minus (V := R_NormedModule)).
    + apply (is_derive_affine' F f 1 c (fun x => x + c));
        [exact F_derive | intros y; ring | reflexivity].
    + apply (is_derive_affine' F f (-1) (2 * m + c) (fun x => 2 * m - x + c));
        [exact F_derive | intros y; ring | reflexivity].
  - unfold minus, plus, opp. simpl. ring.
Qed.

Theorem img_pdf_nonneg (m M : R) (N : nat) (x : R) : 0 <= img_pdf f m M N x.
Proof.
  unfold img_pdf. apply sym_sum_nonneg. intros n.
  pose proof (f_nonneg (x + n * img_period m M)).
  pose proof (f_nonneg (2 * m - x + n * img_period m M)). lra.
Qed.

Theorem img_cdf_monotone (m M : R) (N : nat) :
  forall a b, a <= b -> img_cdf F m M N a <= img_cdf F m M N b.
Proof.
  apply (derive_nonneg_incr (img_cdf F m M N) (img_pdf f m M N)).
  - apply img_derive.
  - apply img_pdf_nonneg.
Qed.

(* at the lower boundary every image pair cancels *)
Theorem img_cdf_at_min (m M : R) (N : nat) : img_cdf F m M N m = 0.
Proof.
  unfold img_cdf. apply sym_sum_zero. intros n.
  replace (2 * m - m + n * img_period m M) with (m + n * img_period m M) by ring. ring.
Qed.

(* at the upper boundary the sum telescopes: the term n is F (M + n d) - F (M + (n-1) d) *)
Theorem img_cdf_at_max (m M : R) (N : nat) :
  img_cdf F m M N M =
  F (M + INR N * img_period m M) - F (M - (INR N + 1) * img_period m M).
Proof.
  unfold img_cdf. induction N as [|N IH].
  - cbn [sym_sum]. simpl INR.
    replace (2 * m - M + 0 * img_period m M) with (M - (0 + 1) * img_period m M)
      by (unfold img_period; ring).
    reflexivity.
  - cbn [sym_sum]. rewrite IH. rewrite !S_INR.
    replace (2 * m - M + (INR N + 1) * img_period m M) with (M + INR N * img_period m M)
      by (unfold img_period; ring).
    replace (M + - (INR N + 1) * img_period m M) with (M - (INR N + 1) * img_period m M)
      by ring.
    replace (2 * m - M + - (INR N + 1) * img_period m M)
      with (M - (INR N + 1 + 1) * img_period m M)
      by (unfold img_period; ring).
    ring.
Qed.

(* total mass one, as soon as the outermost images are beyond the support of F' *)
Theorem img_mass_one (m M : R) (N : nat) :
  F (M + INR N * img_period m M) = 1 ->
  F (M - (INR N + 1) * img_period m M) = 0 ->
  img_cdf F m M N M = 1.
Proof.
  intros H1 H0. rewrite img_cdf_at_max, H1, H0. ring.
Qed.

Theorem img_pdf_continuous (m M : R) (N : nat) (x : R) :
  (forall y, continuous f y) -> continuous (img_pdf f m M N) x.
Proof.
  intros Hc. unfold img_pdf.
  apply (sym_sum_continuous
           (fun n x => f (x + n * img_period m M) + f (2 * m - x + n * img_period m M))).
  intros n. set (c := n * img_period m M).
  apply (continuous_plus (V := R_NormedModule)).
  - apply (continuous_affine' f 1 c (fun x => x + c)); [exact Hc | intros y; ring].
  - apply (continuous_affine' f (-1) (2 * m + c) (fun x => 2 * m - x + c));
      [exact Hc | intros y; ring].
Qed.

Theorem img_integral (m M : R) (N : nat) (a b : R) :
  (forall y, continuous f y) ->
  RInt (img_pdf f m M N) a b = img_cdf F m M N b - img_cdf F m M N a.
Proof.
  intros Hc. apply RInt_derive_pair.
  - apply img_derive.
  - intros x. apply img_pdf_continuous. exact Hc.
Qed.

Theorem img_pdf_mass_one (m M : R) (N : nat) :
  (forall y, continuous f y) ->
  F (M + INR N * img_period m M) = 1 ->
  F (M - (INR N + 1) * img_period m M) = 0 ->
  RInt (img_pdf f m M N) m M = 1.
Proof.
  intros Hc H1 H0.
  rewrite img_integral by exact Hc.
  rewrite img_cdf_at_min, img_mass_one by assumption. eqR. ring.
Qed.

(* under the same hypotheses the doubly reflected cdf has values in [0,1] on [m, M] *)
Theorem img_cdf_range (m M : R) (N : nat) (x : R) :
  F (M + INR N * img_period m M) = 1 ->
  F (M - (INR N + 1) * img_period m M) = 0 ->
  m <= x <= M -> 0 <= img_cdf F m M N x <= 1.
Proof.
  intros H1 H0 Hx. split.
  - rewrite <- (img_cdf_at_min m M N). apply img_cdf_monotone. lra.
  - rewrite <- (img_mass_one m M N H1 H0). apply img_cdf_monotone. lra.
Qed.

(* the image density is even about the lower boundary *)
Theorem img_pdf_symmetric_min (m M : R) (N : nat) (t : R) :
  img_pdf f m M N (m + t) = img_pdf f m M N (m - t).
Proof.
  unfold img_pdf. apply sym_sum_ext. intros n.
  replace (2 * m - (m + t) + n * img_period m M) with (m - t + n * img_period m M) by ring.
  replace (2 * m - (m - t) + n * img_period m M) with (m + t + n * img_period m M) by ring.
  ring.
Qed.

End Reflection.

(* ====================================================================================== *)
(* D. Compact support: finitely many images, and the Epanechnikov KDE on [m, M]            *)
(* ====================================================================================== *)

Lemma sample_within_le (lo hi : R) (d : sample) :
  sample_ok d -> sample_within lo hi d -> lo <= hi.
Proof.
  intros [Hne _] Hin. destruct d as [|p d]; [congruence|].
  inversion Hin as [|p' d' Hp Hd]; subst. lra.
Qed.

Lemma img_period_nonneg (m M : R) : m <= M -> 0 <= img_period m M.
Proof. unfold img_period. lra. Qed.

Lemma INR_mult_le (N N' : nat) (c : R) :
  0 <= c -> (N <= N')%nat -> INR N * c <= INR N' * c.
Proof.
  intros Hc Hle. apply Rmult_le_compat_r; [exact Hc | apply le_INR, Hle].
Qed.

(* If f vanishes outside (m - r, M + r) and r <= N d, then on [m, M] the images beyond
   index N contribute nothing: the truncated sum is already the full (two-sided infinite)
   sum.  "For a compactly supported kernel only finitely many images are non-zero." *)
Theorem img_pdf_stable (f : R -> R) (m M r : R) (N N' : nat) (x : R) :
  (forall y, y <= m - r \/ M + r <= y -> f y = 0) ->
  m <= x <= M ->
  r <= INR N * img_period m M ->
  (N <= N')%nat ->
  img_pdf f m M N' x = img_pdf f m M N x.
Proof.
  intros Hf Hx Hr Hle.
  assert (Hd : 0 <= img_period m M) by (apply img_period_nonneg; lra).
  induction Hle as [|N' Hle IH]; [reflexivity|].
  rewrite <- IH. unfold img_pdf. cbn [sym_sum]. rewrite S_INR.
  pose proof (INR_mult_le N N' _ Hd Hle) as HN.
  assert (Hc : r <= INR N' * img_period m M) by lra.
  replace (- (INR N' + 1) * img_period m M)
    with (- (INR N' * img_period m M + img_period m M)) by ring.
  replace ((INR N' + 1) * img_period m M)
    with (INR N' * img_period m M + img_period m M) by ring.
  clear IH HN. set (c := INR N' * img_period m M) in *. clearbody c.
  remember (img_period m M) as e eqn:He. unfold img_period in He.
  rewrite (Hf (x + (c + e))) by (right; lra).
  rewrite (Hf (2 * m - x + (c + e))) by (right; lra).
  rewrite (Hf (x + - (c + e))) by (left; lra).
  rewrite (Hf (2 * m - x + - (c + e))) by (left; lra).
  ring.
Qed.

Theorem img_cdf_stable (F : R -> R) (m M r : R) (N N' : nat) (x : R) :
  (forall y, y <= m - r -> F y = 0) -> (forall y, M + r <= y -> F y = 1) ->
  m <= x <= M ->
  r <= INR N * img_period m M ->
  (N <= N')%nat ->
  img_cdf F m M N' x = img_cdf F m M N x.
Proof.
  intros HF0 HF1 Hx Hr Hle.
  assert (Hd : 0 <= img_period m M) by (apply img_period_nonneg; lra).
  induction Hle as [|N' Hle IH]; [reflexivity|].
  rewrite <- IH. unfold img_cdf. cbn [sym_sum]. rewrite S_INR.
  pose proof (INR_mult_le N N' _ Hd Hle) as HN.
  assert (Hc : r <= INR N' * img_period m M) by lra.
  replace (- (INR N' + 1) * img_period m M)
    with (- (INR N' * img_period m M + img_period m M)) by ring.
  replace ((INR N' + 1) * img_period m M)
    with (INR N' * img_period m M + img_period m M) by ring.
  clear IH HN. set (c := INR N' * img_period m M) in *. clearbody c.
  remember (img_period m M) as e eqn:He. unfold img_period in He.
  rewrite (HF1 (x + (c + e))) by lra.
  rewrite (HF1 (2 * m - x + (c + e))) by lra.
  rewrite (HF0 (x + - (c + e))) by lra.
  rewrite (HF0 (2 * m - x + - (c + e))) by lra.
  ring.
Qed.

(* hence the two-sided series converges (it is eventually constant) to the truncated sum *)
Theorem img_pdf_series_limit (f : R -> R) (m M r : R) (N : nat) (x : R) :
  (forall y, y <= m - r \/ M + r <= y -> f y = 0) ->
  m <= x <= M ->
  r <= INR N * img_period m M ->
  is_lim_seq (fun N' => img_pdf f m M N' x) (img_pdf f m M N x).
Proof.
  intros Hf Hx Hr.
  apply is_lim_seq_ext_loc with (fun _ => img_pdf f m M N x).
  - exists N. intros n Hn. symmetry. apply (img_pdf_stable f m M r); assumption.
  - apply is_lim_seq_const.
Qed.

Theorem img_cdf_series_limit (F : R -> R) (m M r : R) (N : nat) (x : R) :
  (forall y, y <= m - r -> F y = 0) -> (forall y, M + r <= y -> F y = 1) ->
  m <= x <= M ->
  r <= INR N * img_period m M ->
  is_lim_seq (fun N' => img_cdf F m M N' x) (img_cdf F m M N x).
Proof.
  intros HF0 HF1 Hx Hr.
  apply is_lim_seq_ext_loc with (fun _ => img_cdf F m M N x).
  - exists N. intros n Hn. symmetry. apply (img_cdf_stable F m M r); assumption.
  - apply is_lim_seq_const.
Qed.

(* kde.go evaluates the images as two one-sided series (w = 2 (x - m)):
     upper:  n = 0, 1, ...  term  y(x + n d) + y(x + n d - w)
     lower:  n = 0, 1, ...  term  y(x - (n+1) d - w) + y(x - (n+1) d)
   Their partial sums are exactly the symmetric truncation img_pdf. *)
Theorem img_pdf_go_series (f : R -> R) (m M : R) (N : nat) (x : R) :
  let d := img_period m M in
  let w := 2 * (x - m) in
  sum_f_R0 (fun n => f (x + INR n * d) + f (x + INR n * d - w)) (S N) +
  sum_f_R0 (fun n => f (x - (INR n + 1) * d - w) + f (x - (INR n + 1) * d)) N
  = img_pdf f m M (S N) x.
Proof.
  intros d w. unfold img_pdf. fold d.
  assert (E : forall a b, a = b -> f a = f b) by (intros; subst; reflexivity).
  induction N as [|N IH].
  - simpl sum_f_R0. cbn [sym_sum]. simpl INR.
    rewrite (E (x + 0 * d - w) (2 * m - x + 0 * d)) by (unfold w; ring).
    rewrite (E (x + 1 * d - w) (2 * m - x + 1 * d)) by (unfold w; ring).
    rewrite (E (x - (0 + 1) * d - w) (2 * m - x + - (1) * d)) by (unfold w; ring).
    rewrite (E (x - (0 + 1) * d) (x + - (1) * d)) by ring.
    ring.
  - rewrite (tech5 _ (S N)).
    rewrite (tech5 (fun n => _ (x - (INR n + 1) * d - w) + _ (x - (INR n + 1) * d)) N)
      || rewrite (tech5 (fun n => _ (x - (INR n + 1) * d) - _ (x - (INR n + 1) * d - w)) N).
    cbn [sym_sum] in *. rewrite <- IH.
    rewrite (E (x + INR (S (S N)) * d - w) (2 * m - x + INR (S (S N)) * d))
      by (unfold w; ring).
    rewrite (E (x - (INR (S N) + 1) * d - w) (2 * m - x + - INR (S (S N)) * d))
      by (unfold w; rewrite (S_INR (S N)); ring).
    rewrite (E (x - (INR (S N) + 1) * d) (x + - INR (S (S N)) * d))
      by (rewrite (S_INR (S N)); ring).
    ring.
Qed.

Theorem img_cdf_go_series (F : R -> R) (m M : R) (N : nat) (x : R) :
  let d := img_period m M in
  let w := 2 * (x - m) in
  sum_f_R0 (fun n => F (x + INR n * d) - F (x + INR n * d - w)) (S N) +
  sum_f_R0 (fun n => F (x - (INR n + 1) * d) - F (x - (INR n + 1) * d - w)) N
  = img_cdf F m M (S N) x.
Proof.
  intros d w. unfold img_cdf. fold d.
  assert (E : forall a b, a = b -> F a = F b) by (intros; subst; reflexivity).
  induction N as [|N IH].
  - simpl sum_f_R0. cbn [sym_sum]. simpl INR.
    rewrite (E (x + 0 * d - w) (2 * m - x + 0 * d)) by (unfold w; ring).
    rewrite (E (x + 1 * d - w) (2 * m - x + 1 * d)) by (unfold w; ring).
    rewrite (E (x - (0 + 1) * d - w) (2 * m - x + - (1) * d)) by (unfold w; ring).
    rewrite (E (x - (0 + 1) * d) (x + - (1) * d)) by ring.
    ring.
  - rewrite (tech5 _ (S N)).
    rewrite (tech5 (fun n => _ (x - (INR n + 1) * d - w) + _ (x - (INR n + 1) * d)) N)
      || rewrite (tech5 (fun n => _ (x - (INR n + 1) * d) - _ (x - (INR n + 1) * d - w)) N).
    cbn [sym_sum] in *. rewrite <- IH.
    rewrite (E (x + INR (S (S N)) * d - w) (2 * m - x + INR (S (S N)) * d))
      by (unfold w; ring).
    rewrite (E (x - (INR (S N) + 1) * d - w) (2 * m - x + - INR (S (S N)) * d))
      by (unfold w; rewrite (S_INR (S N)); ring).
    rewrite (E (x - (INR (S N) + 1) * d) (x + - INR (S (S N)) * d))
      by (rewrite (S_INR (S N)); ring).
    ring.
Qed.

(* ---- the Epanechnikov KDE with data inside [m, M], reflected at both boundaries ---- *)

Section EpanImages.

Variable h : R.
Hypothesis h_pos : 0 < h.
Variable d : sample.
Hypothesis d_ok : sample_ok d.
Variables m M : R.
Hypothesis d_in : sample_within m M d.
Variable N : nat.
(* enough images: N d >= h  (in particular whenever N d >= (M - m) + h) *)
Hypothesis N_large : h <= INR N * img_period m M.

Lemma epan_img_upper : kde_mix (epan_cdf h) d (M + INR N * img_period m M) = 1.
Proof.
  destruct (epan_kde_cdf_limits h h_pos d d_ok m M d_in) as [_ H1].
  apply H1. lra.
Qed.

Lemma epan_img_lower : kde_mix (epan_cdf h) d (M - (INR N + 1) * img_period m M) = 0.
Proof.
  destruct (epan_kde_cdf_limits h h_pos d d_ok m M d_in) as [H0 _].
  pose proof (sample_within_le m M d d_ok d_in) as HmM.
  apply H0. unfold img_period in *. lra.
Qed.

Theorem epan_img_cdf_at_max : img_cdf (kde_mix (epan_cdf h) d) m M N M = 1.
Proof. apply img_mass_one; [apply epan_img_upper | apply epan_img_lower]. Qed.

Theorem epan_img_cdf_at_min : img_cdf (kde_mix (epan_cdf h) d) m M N m = 0.
Proof. apply img_cdf_at_min. Qed.

Theorem epan_img_derive : forall x,
  is_derive (img_cdf (kde_mix (epan_cdf h) d) m M N) x
            (img_pdf (kde_mix (epan_pdf h) d) m M N x).
Proof.
  intros x. apply img_derive. apply epan_kde_cdf_derive. exact h_pos.
Qed.

Theorem epan_img_pdf_nonneg : forall x, 0 <= img_pdf (kde_mix (epan_pdf h) d) m M N x.
Proof.
  intros x. apply img_pdf_nonneg. apply epan_kde_pdf_nonneg; assumption.
Qed.

(* the boundary-corrected density integrates to one over [m, M] *)
Theorem epan_img_pdf_mass_one :
  RInt (img_pdf (kde_mix (epan_pdf h) d) m M N) m M = 1.
Proof.
  apply (img_pdf_mass_one (kde_mix (epan_pdf h) d) (kde_mix (epan_cdf h) d)).
  - apply epan_kde_cdf_derive. exact h_pos.
  - apply epan_kde_pdf_continuous. exact h_pos.
  - apply epan_img_upper.
  - apply epan_img_lower.
Qed.

Theorem epan_img_cdf_range : forall x,
  m <= x <= M -> 0 <= img_cdf (kde_mix (epan_cdf h) d) m M N x <= 1.
Proof.
  intros x Hx.
  apply (img_cdf_range (kde_mix (epan_pdf h) d) (kde_mix (epan_cdf h) d)).
  - apply epan_kde_cdf_derive. exact h_pos.
  - apply epan_kde_pdf_nonneg; assumption.
  - apply epan_img_upper.
  - apply epan_img_lower.
  - exact Hx.
Qed.

(* more images change nothing on [m, M] *)
Theorem epan_img_pdf_stable : forall N' x,
  (N <= N')%nat -> m <= x <= M ->
  img_pdf (kde_mix (epan_pdf h) d) m M N' x = img_pdf (kde_mix (epan_pdf h) d) m M N x.
Proof.
  intros N' x Hle Hx.
  apply (img_pdf_stable _ m M h); try assumption.
  apply epan_kde_pdf_support; assumption.
Qed.

Theorem epan_img_cdf_stable : forall N' x,
  (N <= N')%nat -> m <= x <= M ->
  img_cdf (kde_mix (epan_cdf h) d) m M N' x = img_cdf (kde_mix (epan_cdf h) d) m M N x.
Proof.
  intros N' x Hle Hx.
  destruct (epan_kde_cdf_limits h h_pos d d_ok m M d_in) as [H0 H1].
  apply (img_cdf_stable _ m M h); assumption.
Qed.

End EpanImages.

(* the hypothesis in the form asked for: N d >= (M - m) + h *)
Corollary epan_img_pdf_mass_one' (h : R) (d : sample) (m M : R) (N : nat) :
  0 < h -> sample_ok d -> sample_within m M d ->
  (M - m) + h <= INR N * img_period m M ->
  RInt (img_pdf (kde_mix (epan_pdf h) d) m M N) m M = 1.
Proof.
  intros Hh Hok Hin HN.
  apply epan_img_pdf_mass_one; try assumption.
  pose proof (sample_within_le m M d Hok Hin). lra.
Qed.

(* ====================================================================================== *)
(* E. Extras: one-sided reflection of the Epanechnikov KDE; exactness of the               *)
(*    "stop at the first zero term" rule of the Go helper `series`                          *)
(* ====================================================================================== *)

(* ---- a few more facts about the Epanechnikov kernel ---- *)

Lemma epan_pdf_pos (h x : R) : 0 < h -> - h < x < h -> 0 < epan_pdf h x.
Proof.
  intros Hh Hx. rewrite epan_pdf_mid by assumption.
  assert (Hq : epan_q h x = 3 / (4 * h * (h * h)) * (h * h - x * x)).
  { unfold epan_q. field. lra. }
  rewrite Hq. apply Rmult_lt_0_compat.
  - apply Rdiv_lt_0_compat; [lra|]. apply Rmult_lt_0_compat; nra.
  - nra.
Qed.

Lemma epan_pdf_zero_iff (h x : R) :
  0 < h -> (epan_pdf h x = 0 <-> (x <= - h \/ h <= x)).
Proof.
  intros Hh. split.
  - intros H0.
    destruct (Rle_dec x (- h)) as [|H1]; [left; assumption|].
    destruct (Rle_dec h x) as [|H2]; [right; assumption|].
    pose proof (epan_pdf_pos h x Hh). lra.
  - apply epan_pdf_out.
Qed.

(* symmetry of the distribution function, and its value at the centre *)
Lemma epan_cdf_sym (h x : R) : 0 < h -> epan_cdf h (- x) = 1 - epan_cdf h x.
Proof.
  intros Hh.
  destruct (Rle_dec x (- h)) as [H1|H1]; [|destruct (Rle_dec h x) as [H2|H2]].
  - rewrite (epan_cdf_right h Hh (- x)), (epan_cdf_left h x) by lra. ring.
  - rewrite (epan_cdf_left h (- x)), (epan_cdf_right h Hh x) by lra. ring.
  - rewrite !(epan_cdf_mid h Hh) by lra. unfold epan_poly. field. lra.
Qed.

Lemma epan_cdf_centre (h : R) : 0 < h -> epan_cdf h 0 = 1 / 2.
Proof.
  intros Hh. rewrite (epan_cdf_mid h Hh) by lra. unfold epan_poly. field. lra.
Qed.

Lemma epan_pdf_centre (h : R) : 0 < h -> epan_pdf h 0 = 3 / (4 * h).
Proof.
  intros Hh. rewrite epan_pdf_mid by lra. unfold epan_q. field. lra.
Qed.

(* ---- a mixture of non-negative terms vanishes only if every term vanishes ---- *)

Lemma msum_zero_inv (g : R -> R) (d : sample) (x : R) :
  (forall y, 0 <= g y) -> List.Forall (fun p => 0 < snd p) d ->
  msum g d x = 0 -> forall p, In p d -> g (x - fst p) = 0.
Proof.
  intros Hg Hall. induction Hall as [|q d Hq Hd IH]; intros H0 p Hp; [destruct Hp|].
  simpl in H0.
  pose proof (msum_nonneg g d x Hg Hd) as Hrest.
  pose proof (Hg (x - fst q)) as Hgq.
  assert (Hprod : 0 <= snd q * g (x - fst q)) by (apply Rmult_le_pos; lra).
  destruct Hp as [->|Hp].
  - assert (Hz : snd p * g (x - fst p) = 0) by lra.
    apply Rmult_integral in Hz. destruct Hz; lra.
  - apply IH; [lra | exact Hp].
Qed.

Lemma kde_mix_zero_iff (g : R -> R) (d : sample) (x : R) :
  (forall y, 0 <= g y) -> sample_ok d ->
  (kde_mix g d x = 0 <-> forall p, In p d -> g (x - fst p) = 0).
Proof.
  intros Hg Hok. pose proof (wsum_pos d Hok) as Hw. split.
  - intros H0. apply msum_zero_inv; [exact Hg | apply Hok |].
    unfold kde_mix, Rdiv in H0. apply Rmult_integral in H0.
    destruct H0 as [H0|H0]; [exact H0|].
    pose proof (Rinv_0_lt_compat _ Hw). lra.
  - intros H. unfold kde_mix. rewrite msum_all_zero by exact H. unfold Rdiv. ring.
Qed.

(* ---- one-sided reflection of the Epanechnikov KDE: total mass one ---- *)

Section EpanOneSided.

Variable h : R.
Hypothesis h_pos : 0 < h.
Variable d : sample.
Hypothesis d_ok : sample_ok d.
Variables lo hi : R.
Hypothesis d_in : sample_within lo hi d.

(* support [m, +inf) with all data >= m *)
Theorem epan_refl_low_mass_one (m : R) :
  m <= lo ->
  RInt (refl_low_pdf (kde_mix (epan_pdf h) d) m) m (hi + h) = 1.
Proof.
  intros Hm.
  pose proof (sample_within_le lo hi d d_ok d_in) as Hlh.
  destruct (epan_kde_cdf_limits h h_pos d d_ok lo hi d_in) as [H0 H1].
  rewrite (refl_low_integral (kde_mix (epan_pdf h) d) (kde_mix (epan_cdf h) d)).
  - unfold refl_low_cdf. rewrite H1, H0 by lra. eqR. ring.
  - apply epan_kde_cdf_derive. exact h_pos.
  - apply epan_kde_pdf_continuous. exact h_pos.
Qed.

(* support (-inf, M) with all data <= M *)
Theorem epan_refl_high_mass_one (M : R) :
  hi <= M ->
  RInt (refl_high_pdf (kde_mix (epan_pdf h) d) M) (lo - h) M = 1.
Proof.
  intros HM.
  pose proof (sample_within_le lo hi d d_ok d_in) as Hlh.
  destruct (epan_kde_cdf_limits h h_pos d d_ok lo hi d_in) as [H0 H1].
  rewrite (refl_high_integral (kde_mix (epan_pdf h) d) (kde_mix (epan_cdf h) d)).
  - unfold refl_high_cdf. rewrite H0, H1 by lra. eqR. ring.
  - apply epan_kde_cdf_derive. exact h_pos.
  - apply epan_kde_pdf_continuous. exact h_pos.
Qed.

End EpanOneSided.

(* ---- the Go helper `series` (alg.go) adds terms a 0, a 1, ... until the running sum stops
   changing; in exact arithmetic that is: until the first term that is 0.  This is the true
   infinite sum provided "a zero term is followed only by zero terms". ---- *)

Lemma zero_absorbing (a : nat -> R) :
  (forall k, a k = 0 -> a (S k) = 0) ->
  forall n n', (n <= n')%nat -> a n = 0 -> a n' = 0.
Proof.
  intros Hstep n n' Hle Hn. induction Hle as [|n' Hle IH]; [exact Hn|].
  apply Hstep, IH.
Qed.

Theorem series_stop_exact (a : nat -> R) (n : nat) :
  (forall k, a k = 0 -> a (S k) = 0) -> a n = 0 ->
  forall n', (n <= n')%nat -> sum_f_R0 a n' = sum_f_R0 a n.
Proof.
  intros Hstep Hn n' Hle. induction Hle as [|n' Hle IH]; [reflexivity|].
  rewrite tech5, IH.
  rewrite (zero_absorbing a Hstep n (S n')); [ring | | exact Hn].
  apply le_S, Hle.
Qed.

Corollary series_stop_limit (a : nat -> R) (n : nat) :
  (forall k, a k = 0 -> a (S k) = 0) -> a n = 0 ->
  is_lim_seq (sum_f_R0 a) (sum_f_R0 a n).
Proof.
  intros Hstep Hn.
  apply is_lim_seq_ext_loc with (fun _ => sum_f_R0 a n).
  - exists n. intros n' Hle. symmetry. apply series_stop_exact; assumption.
  - apply is_lim_seq_const.
Qed.

(* The two pdf series of KDE.PDF (Epanechnikov kernel, data and x inside [m, M]) have the
   absorbing-zero property, so stopping at the first zero term loses nothing. *)
Section EpanSeriesStop.

Variable h : R.
Hypothesis h_pos : 0 < h.
Variable d : sample.
Hypothesis d_ok : sample_ok d.
Variables m M : R.
Hypothesis d_in : sample_within m M d.
Variable x : R.
Hypothesis x_in : m <= x <= M.

Let f := kde_mix (epan_pdf h) d.
Let e := img_period m M.
Let w := 2 * (x - m).

(* the terms exactly as written in kde.go *)
Let upper (n : nat) : R := f (x + INR n * e) + f (x + INR n * e - w).
Let lower (n : nat) : R := f (x - (INR n + 1) * e - w) + f (x - (INR n + 1) * e).

Lemma epan_series_f_nonneg : forall y, 0 <= f y.
Proof. intros y. apply epan_kde_pdf_nonneg; assumption. Qed.

Lemma epan_series_f_zero_iff (y : R) :
  f y = 0 <-> forall p, In p d -> y - fst p <= - h \/ h <= y - fst p.
Proof.
  unfold f. rewrite kde_mix_zero_iff; [|apply epan_pdf_nonneg, h_pos | exact d_ok].
  split; intros H p Hp; apply (epan_pdf_zero_iff h _ h_pos), H, Hp.
Qed.

Lemma sum2_nonneg_zero_iff (a b : R) : 0 <= a -> 0 <= b -> (a + b = 0 <-> a = 0 /\ b = 0).
Proof. intros; split; [split|]; lra. Qed.

Theorem epan_pdf_upper_absorbing : forall n, upper n = 0 -> upper (S n) = 0.
Proof.
  intros n. unfold upper.
  rewrite !sum2_nonneg_zero_iff by apply epan_series_f_nonneg. rewrite !epan_series_f_zero_iff.
  intros [Ha Hb].
  pose proof (pos_INR n) as Hn.
  assert (He : 0 <= e) by (apply img_period_nonneg; lra).
  assert (Hc : 0 <= INR n * e) by (apply Rmult_le_pos; assumption).
  unfold sample_within in d_in. rewrite Forall_forall in d_in.
  rewrite S_INR.
  split; intros p Hp; specialize (Ha p Hp); specialize (Hb p Hp);
    specialize (d_in p Hp); right;
    replace ((INR n + 1) * e) with (INR n * e + e) by ring;
    unfold w in *; subst e; set (c := INR n * img_period m M) in *; clearbody c;
    unfold img_period in *; lra.
Qed.

Theorem epan_pdf_lower_absorbing : forall n, lower n = 0 -> lower (S n) = 0.
Proof.
  intros n. unfold lower.
  rewrite !sum2_nonneg_zero_iff by apply epan_series_f_nonneg. rewrite !epan_series_f_zero_iff.
  intros [Ha Hb].
  pose proof (pos_INR n) as Hn.
  assert (He : 0 <= e) by (apply img_period_nonneg; lra).
  assert (Hc : 0 <= INR n * e) by (apply Rmult_le_pos; assumption).
  unfold sample_within in d_in. rewrite Forall_forall in d_in.
  rewrite S_INR.
  split; intros p Hp; specialize (Ha p Hp); specialize (Hb p Hp);
    specialize (d_in p Hp); left;
    replace ((INR n + 1 + 1) * e) with (INR n * e + e + e) by ring;
    replace ((INR n + 1) * e) with (INR n * e + e) in Ha, Hb by ring;
    unfold w in *; subst e; set (c := INR n * img_period m M) in *; clearbody c;
    unfold img_period in *; lra.
Qed.

(* If `series` stops the upper series at index nu and the lower one at index nl (first zero
   terms), the value KDE.PDF returns is the symmetric image sum for EVERY truncation order
   beyond both, i.e. the full two-sided sum. *)
Theorem epan_pdf_series_stop_exact (nu nl N : nat) :
  upper nu = 0 -> lower nl = 0 -> (nu <= S N)%nat -> (nl <= N)%nat ->
  sum_f_R0 upper nu + sum_f_R0 lower nl = img_pdf f m M (S N) x.
Proof.
  intros Hu Hl Hnu Hnl.
  rewrite <- (series_stop_exact upper nu epan_pdf_upper_absorbing Hu (S N) Hnu).
  rewrite <- (series_stop_exact lower nl epan_pdf_lower_absorbing Hl N Hnl).
  apply (img_pdf_go_series f m M N x).
Qed.

End EpanSeriesStop.

(* ====================================================================================== *)
(* Axioms used                                                                             *)
(* ====================================================================================== *)

Print Assumptions epan_cdf_derive.
Print Assumptions kde_integral.
Print Assumptions img_pdf_mass_one.
Print Assumptions epan_img_pdf_mass_one.
Print Assumptions epan_pdf_series_stop_exact.

(* Proofs/KdeSeriesStop.v — where `series` (stats/alg.go:107-114) stops in exact arithmetic, and
   what that means for the doubly bounded estimate when data lies OUTSIDE
   [BoundaryMin, BoundaryMax] (outside the property's quantifier; meta/C12.json "partial").
   Over Q, closed under the global context. *)
From Coq Require Import QArith Lqa Lia.
From MM Require Import Base.Num Model.Sample Model.Quantile Model.Kde Spec.Kde Proofs.Kde.
Local Open Scope Q_scope.

(* `series` returns exactly the sum of the terms BEFORE the first zero term (index K), whatever
   comes after it; it runs out of fuel exactly when none of the first [fuel] terms is zero *)
Lemma series_q_first_zero_gen (t : nat -> Q) (fuel : nat) : forall (n : nat) (acc s : Q),
  series_q t n fuel acc = Some s ->
  exists K : nat, (n <= K < n + fuel)%nat /\ t K == 0 /\
    (forall i : nat, (n <= i < K)%nat -> ~ t i == 0) /\
    s + nat_sum t n == acc + nat_sum t K.
Proof.
  induction fuel as [|fuel IH]; intros n acc s H; cbn [series_q] in H; [discriminate|].
  destruct (Qeq_bool (t n) 0) eqn:E.
  - injection H as <-. apply Qeq_bool_iff in E. exists n. split; [lia|]. split; [exact E|]. split; [intros i Hi; lia | lra].
  - apply Qeq_bool_false in E. destruct (IH (S n) _ s H) as (K & HK & Z & NZ & S).
    exists K. split; [lia|]. split; [exact Z|]. split.
    + intros i Hi. destruct (Nat.eq_dec i n) as [->|Ne]; [exact E | apply NZ; lia].
    + cbn [nat_sum] in S. rewrite Qred_correct in S. lra.
Qed.

Lemma series_q_none_iff (t : nat -> Q) (fuel : nat) : forall (n : nat) (acc : Q),
  series_q t n fuel acc = None <-> (forall i : nat, (n <= i < n + fuel)%nat -> ~ t i == 0).
Proof.
  induction fuel as [|fuel IH]; intros n acc; cbn [series_q].
  - split; [intros _ i Hi; lia | reflexivity].
  - destruct (Qeq_bool (t n) 0) eqn:E.
    + apply Qeq_bool_iff in E. split; [discriminate|]. intro H. exfalso. apply (H n); [lia | exact E].
    + apply Qeq_bool_false in E. rewrite IH. split; intros H i Hi.
      * destruct (Nat.eq_dec i n) as [->|Ne]; [exact E | apply H; lia].
      * apply H. lia.
Qed.

Theorem series_q_first_zero (t : nat -> Q) (fuel : nat) :
  (forall s : Q, series_q t 0 fuel 0 = Some s ->
     exists K : nat, (K < fuel)%nat /\ t K == 0 /\ (forall i : nat, (i < K)%nat -> ~ t i == 0) /\
                     s == nat_sum t K) /\
  (series_q t 0 fuel 0 = None <-> (forall i : nat, (i < fuel)%nat -> ~ t i == 0)).
Proof.
  split.
  - intros s H. destruct (series_q_first_zero_gen t fuel 0%nat 0 s H) as (K & HK & Z & NZ & S).
    exists K. split; [lia|]. split; [exact Z|]. split; [intros i Hi; apply NZ; lia|]. cbn [nat_sum] in S. lra.
  - rewrite series_q_none_iff. split; intros H i Hi; apply H; lia.
Qed.

(* Data outside the boundaries: sample {9/10, 2}, h = 1/4, support [0, 1), x = 1/10.
   Term 0 of both "upper" series is zero (no data point within h of x = 1/10 or of its mirror
   image -1/10), so `series` stops at once and KDE.PDF = KDE.CDF = 0; term 1 is NOT zero: the
   images 2 + 1/10 and 2 - 1/10 are within h of the data point 2 that lies outside [0, 1].
   The symmetric image sums of order k_fuel (and of every larger order: the kernel is
   compact) are 63/25 resp. 71/250.  With data outside, the model (and the code: same numbers
   from the float implementation) is NOT the image sum. *)
Definition outside_kde : kde := mkKde [9 # 10; 2] None KEpan (1 # 4) (BBoth 0 1).

Theorem kde_both_data_outside_refuted :
  exists (k : kde) (m M x : Q) (N : nat) (p c : Q),
    kde_ok k /\ k_kernel k = KEpan /\ k_b k = BBoth m M /\ m < M /\ ~ pairs_within m M (kde_ps k) /\
    m <= x /\ x < M /\ (k_fuel k <= N)%nat /\
    kde_pdf k x = Some (XFin p) /\ kde_cdf k x = Some (XFin c) /\
    ~ p == fold_pdf (kde_f k) m M N x /\ ~ c == fold_cdf (kde_F k) m M N x /\
    (* the cause: term 0 of the series is zero, term 1 is not *)
    pdf_upper (mix (epan_pdf (k_h k)) (k_xs k) (k_ws k)) m M x 0 == 0 /\
    ~ pdf_upper (mix (epan_pdf (k_h k)) (k_xs k) (k_ws k)) m M x 1 == 0 /\
    cdf_upper (mix (epan_cdf (k_h k)) (k_xs k) (k_ws k)) m M x 0 == 0 /\
    ~ cdf_upper (mix (epan_cdf (k_h k)) (k_xs k) (k_ws k)) m M x 1 == 0.
Proof.
  exists outside_kde, 0, 1, (1 # 10), 5%nat, 0, 0.
  split. { repeat split; try discriminate; try exact I; cbn; lra. }
  split; [reflexivity|]. split; [reflexivity|]. split; [lra|].
  split. { intro H. inversion H as [|? ? _ H2]. inversion H2 as [|? ? [_ H3] _]. cbn in H3. lra. }
  split; [lra|]. split; [lra|]. split; [vm_compute; lia|].
  split; [vm_compute; reflexivity|]. split; [vm_compute; reflexivity|].
  split. { apply Qeq_bool_false. vm_compute. reflexivity. }
  split. { apply Qeq_bool_false. vm_compute. reflexivity. }
  split. { apply Qeq_bool_iff. vm_compute. reflexivity. }
  split. { apply Qeq_bool_false. vm_compute. reflexivity. }
  split. { apply Qeq_bool_iff. vm_compute. reflexivity. }
  apply Qeq_bool_false. vm_compute. reflexivity.
Qed.

(* grouped for Properties/C12.v *)
Lemma G_series_stop_data_outside :
  (forall (t : nat -> Q) (fuel : nat),
     (forall s : Q, series_q t 0 fuel 0 = Some s ->
        exists K : nat, (K < fuel)%nat /\ t K == 0 /\ (forall i : nat, (i < K)%nat -> ~ t i == 0) /\
                        s == nat_sum t K) /\
     (series_q t 0 fuel 0 = None <-> (forall i : nat, (i < fuel)%nat -> ~ t i == 0))) /\
  (exists (k : kde) (m M x : Q) (N : nat) (p c : Q),
    kde_ok k /\ k_kernel k = KEpan /\ k_b k = BBoth m M /\ m < M /\ ~ pairs_within m M (kde_ps k) /\
    m <= x /\ x < M /\ (k_fuel k <= N)%nat /\
    kde_pdf k x = Some (XFin p) /\ kde_cdf k x = Some (XFin c) /\
    ~ p == fold_pdf (kde_f k) m M N x /\ ~ c == fold_cdf (kde_F k) m M N x /\
    pdf_upper (mix (epan_pdf (k_h k)) (k_xs k) (k_ws k)) m M x 0 == 0 /\
    ~ pdf_upper (mix (epan_pdf (k_h k)) (k_xs k) (k_ws k)) m M x 1 == 0 /\
    cdf_upper (mix (epan_cdf (k_h k)) (k_xs k) (k_ws k)) m M x 0 == 0 /\
    ~ cdf_upper (mix (epan_cdf (k_h k)) (k_xs k) (k_ws k)) m M x 1 == 0).
Proof. split; [exact series_q_first_zero | exact kde_both_data_outside_refuted]. Qed.

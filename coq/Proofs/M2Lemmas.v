(* Proofs/M2Lemmas.v — bridging lemmas used by the per-case certificate goals (M2):
   they rewrite the RealSpec definitions into forms that Coq-Interval's [interval] /
   [integral] tactics evaluate directly (integer powers instead of Rpower, Horner sums
   with integer literals instead of factorials in nat). *)
From Coq Require Import Reals Lra ZArith.
From Coquelicot Require Import Coquelicot.
From MM Require Import RealSpec.Normal RealSpec.TDist RealSpec.Beta RealSpec.Gamma.
From MM Require Import Proofs.NormalR Proofs.TDistR Proofs.BetaR Proofs.GammaR.
Open Scope R_scope.

(* ---------- partial exponential sum in Horner form, integer literals ---------- *)
(* hz x i acc = sum_{l<i} x^l/l! + x^i/i! * acc *)
Fixpoint hz (x : R) (i : nat) (acc : R) : R :=
  match i with
  | O => acc
  | S i' => hz x i' (1 + x / IZR (Z.of_nat (S i')) * acc)
  end.

Definition expsum_lt (i : nat) (x : R) : R := match i with O => 0 | S k => expsum k x end.

Lemma hz_spec : forall x i acc, hz x i acc = expsum_lt i x + x ^ i / INR (fact i) * acc.
Proof.
  intros x i; induction i as [|i IH]; intro acc.
  - simpl. field.
  - cbn [hz]. rewrite IH. rewrite <- INR_IZR_INZ.
    assert (Hf : INR (fact i) <> 0) by apply INR_fact_neq_0.
    assert (Hs : INR (S i) <> 0) by (apply not_0_INR; discriminate).
    rewrite fact_simpl, mult_INR.
    destruct i as [|k].
    + simpl. field.
    + cbn [expsum_lt expsum]. rewrite (fact_simpl k), mult_INR.
      assert (Hk : INR (fact k) <> 0) by apply INR_fact_neq_0.
      assert (Hsk : INR (S k) <> 0) by (apply not_0_INR; discriminate).
      rewrite (fact_simpl k), mult_INR in Hf.
      simpl pow. field. repeat split; assumption.
Qed.

Lemma expsum_horner : forall n x, expsum n x = hz x n 1.
Proof.
  intros n x. rewrite hz_spec. destruct n as [|k].
  - simpl. field.
  - cbn [expsum_lt expsum]. field. apply INR_fact_neq_0.
Qed.

(* P(n+1, x) and Q(n+1, x) in certificate form *)
Lemma Pgamma_cert_form : forall n x, Pgamma_nat n x = 1 - exp (- x) * hz x n 1.
Proof. intros. rewrite Pgamma_closed_form. unfold Pgamma_int. now rewrite expsum_horner. Qed.
Lemma Qgamma_cert_form : forall n x, 1 - Pgamma_nat n x = exp (- x) * hz x n 1.
Proof. intros. rewrite Pgamma_cert_form. ring. Qed.

(* ---------- Student t with integer / half-integer degrees of freedom ---------- *)
Lemma PI2_bounds : - PI / 2 <= 0 /\ 0 <= PI / 2 /\ - PI / 2 <= PI / 2 /\ PI / 2 <= PI / 2.
Proof. generalize PI_RGT_0; intro; repeat split; lra. Qed.

Lemma tnorm_pow_form : forall (n : nat) nu, nu = INR n + 1 ->
  tnorm nu = RInt (fun th => cos th ^ n) 0 (PI / 2).
Proof.
  intros n nu H. unfold tnorm. destruct PI2_bounds as (A & B & C & D).
  apply (tkernel_pow n nu 0 (PI / 2) H); assumption.
Qed.

Lemma tcdf_pow_form : forall (n : nat) nu x, nu = INR n + 1 ->
  tcdf nu x = 1 / 2 + 1 / 2 * (RInt (fun th => cos th ^ n) 0 (atan (x / sqrt nu)) / RInt (fun th => cos th ^ n) 0 (PI / 2)).
Proof.
  intros n nu x H. unfold tcdf. rewrite (tnorm_pow_form n nu H).
  destruct PI2_bounds as (A & B & C & D). destruct (atan_bound (x / sqrt nu)) as [L U].
  rewrite (tkernel_pow n nu 0 (atan (x / sqrt nu)) H); try assumption; try lra.
Qed.

Lemma tpdf_pow_form : forall (n : nat) nu x, nu = INR n + 1 ->
  tpdf nu x = Rpower (1 + x * x / nu) (- (nu + 1) / 2) / (2 * sqrt nu * RInt (fun th => cos th ^ n) 0 (PI / 2)).
Proof. intros n nu x H. unfold tpdf. now rewrite (tnorm_pow_form n nu H). Qed.

Lemma tnorm_half_form : forall (p : nat) nu, nu = INR p / 2 + 1 ->
  tnorm nu = RInt (fun th => sqrt (cos th) ^ p) 0 (PI / 2).
Proof.
  intros p nu H. unfold tnorm. destruct PI2_bounds as (A & B & C & D).
  apply (tkernel_half p nu 0 (PI / 2) H); assumption.
Qed.

Lemma tcdf_half_form : forall (p : nat) nu x, nu = INR p / 2 + 1 ->
  tcdf nu x = 1 / 2 + 1 / 2 * (RInt (fun th => sqrt (cos th) ^ p) 0 (atan (x / sqrt nu)) / RInt (fun th => sqrt (cos th) ^ p) 0 (PI / 2)).
Proof.
  intros p nu x H. unfold tcdf. rewrite (tnorm_half_form p nu H).
  destruct PI2_bounds as (A & B & C & D). destruct (atan_bound (x / sqrt nu)) as [L U].
  rewrite (tkernel_half p nu 0 (atan (x / sqrt nu)) H); try assumption; try lra.
Qed.

Lemma tpdf_half_form : forall (p : nat) nu x, nu = INR p / 2 + 1 ->
  tpdf nu x = Rpower (1 + x * x / nu) (- (nu + 1) / 2) / (2 * sqrt nu * RInt (fun th => sqrt (cos th) ^ p) 0 (PI / 2)).
Proof. intros p nu x H. unfold tpdf. now rewrite (tnorm_half_form p nu H). Qed.

(* INR of a literal as an integer literal: side conditions [nu = INR n + 1] are closed by
   [rewrite INR_IZR_INZ; simpl; lra] *)
Lemma INR_lit : forall n : nat, INR n = IZR (Z.of_nat n).
Proof. exact INR_IZR_INZ. Qed.

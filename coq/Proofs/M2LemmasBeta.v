(* Proofs/M2LemmasBeta.v — bridging lemma for certificate goals about RealSpec/BetaGen.v at
   half-integer parameters a = p/2, b = q/2 with p, q >= 1 (so including a = 1/2 or b = 1/2, where
   RealSpec/Beta.v's ratio of integrals is improper): Ibeta_gen as a combination of three PROPER
   integrals of sqrt-power kernels that Coq-Interval's [integral] evaluates. *)
From Coq Require Import Reals Lra ssreflect.
From Coquelicot Require Import Coquelicot.
From MM Require Import RealSpec.Beta RealSpec.BetaGen Proofs.BetaR Proofs.BetaGen.
Open Scope R_scope.

Definition hk (p q : nat) (t : R) : R := sqrt t ^ p * sqrt (1 - t) ^ q / (1 - t).

Lemma bpart_half : forall (p q : nat) a b t, a = INR p / 2 -> b = INR q / 2 -> 0 < t < 1 ->
  bpart a b t = hk p q t.
Proof.
  intros p q a b t -> -> [H0 H1]. unfold bpart, hk.
  assert (E1 : rpow0 (INR p / 2) t = sqrt t ^ p).
  { rewrite (rpow0_Rpower (INR p / 2) t H0). apply Rpower_half_nat. exact H0. }
  assert (H1' : 0 < 1 - t) by lra.
  assert (E2 : Rpower (1 - t) (INR q / 2 - 1) = sqrt (1 - t) ^ q / (1 - t)).
  { rewrite (Rpower_pred (1 - t) (INR q / 2) H1'). rewrite (Rpower_half_nat q (1 - t) H1'). reflexivity. }
  rewrite E1 E2. unfold Rdiv. ring.
Qed.

Lemma bpart_RInt_half : forall (p q : nat) a b x, a = INR p / 2 -> b = INR q / 2 -> 0 < x < 1 ->
  RInt (bpart a b) 0 x = RInt (hk p q) 0 x.
Proof.
  intros p q a b x Ha Hb Hx. apply RInt_ext. intros t Ht.
  rewrite Rmin_left in Ht; [|lra]. rewrite Rmax_right in Ht; [|lra].
  apply (bpart_half p q a b t Ha Hb). lra.
Qed.

Definition BH (p q : nat) (a b : R) : R :=
  Rpower (1 / 2) (a + b) / a + (a + b) / a * RInt (hk p q) 0 (1 / 2).

Lemma Bhalf_half : forall (p q : nat) a b, a = INR p / 2 -> b = INR q / 2 -> Bhalf a b = BH p q a b.
Proof.
  intros p q a b Ha Hb. unfold Bhalf, BH.
  rewrite (bpart_RInt_half p q a b (1 / 2) Ha Hb); [reflexivity | lra].
Qed.

Lemma Ibeta_gen_half_form : forall (p q : nat) a b x, a = INR p / 2 -> b = INR q / 2 ->
  (1 <= p)%nat -> (1 <= q)%nat -> 0 < x < 1 ->
  Ibeta_gen x a b =
  (sqrt x ^ p * sqrt (1 - x) ^ q / a + (a + b) / a * RInt (fun t => sqrt t ^ p * sqrt (1 - t) ^ q / (1 - t)) 0 x) /
  ((Rpower (1 / 2) (a + b) / a + (a + b) / a * RInt (fun t => sqrt t ^ p * sqrt (1 - t) ^ q / (1 - t)) 0 (1 / 2)) +
   (Rpower (1 / 2) (b + a) / b + (b + a) / b * RInt (fun t => sqrt t ^ q * sqrt (1 - t) ^ p / (1 - t)) 0 (1 / 2))).
Proof.
  intros p q a b x Ha Hb Hp Hq Hx.
  assert (Ha0 : 0 < a).
  { rewrite Ha. apply Rdiv_lt_0_compat; [|lra]. apply lt_0_INR. exact Hp. }
  rewrite Ibeta_gen_Hpart; [|exact Ha0|lra].
  unfold Hpart, Btotal.
  rewrite (Bhalf_half p q a b Ha Hb) (Bhalf_half q p b a Hb Ha). unfold BH.
  rewrite (bpart_RInt_half p q a b x Ha Hb Hx).
  rewrite rpow0_Rpower; [|lra].
  rewrite {1}Ha {1}Hb. rewrite !Rpower_half_nat; try lra.
  reflexivity.
Qed.

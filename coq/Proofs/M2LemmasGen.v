(* Proofs/M2LemmasGen.v — bridging lemmas for certificate goals about RealSpec/TDistGen.v at
   V = 1/2, the one half-integer below 1: tcdf_gen / tpdf_gen as ratios of integrals of
   1/sqrt(cos) and sqrt(cos)^3 that Coq-Interval's [integral] evaluates. *)
From Coq Require Import Reals Lra ssreflect.
From Coquelicot Require Import Coquelicot.
From MM Require Import RealSpec.TDist RealSpec.TDistGen Proofs.TDistR Proofs.TDistGen Proofs.M2Lemmas.
Open Scope R_scope.

Lemma tkernel_half_inv : forall a b, - PI / 2 < a < PI / 2 -> - PI / 2 < b < PI / 2 ->
  RInt (tkernel (1 / 2)) a b = RInt (fun th => / sqrt (cos th)) a b.
Proof.
  intros a b Ha Hb. apply RInt_ext. intros x Hx.
  assert (Hc : 0 < cos x) by (apply (cos_pos_between a b); auto; lra).
  unfold tkernel. replace (1 / 2 - 1) with (- / 2) by field.
  rewrite Rpower_Ropp Rpower_sqrt //.
Qed.

Lemma tnorm_gen_half : tnorm_gen (1 / 2) = 3 * RInt (fun th => sqrt (cos th) ^ 3) 0 (PI / 2).
Proof.
  unfold tnorm_gen. replace ((1 / 2 + 1) / (1 / 2)) with 3 by field. f_equal.
  destruct PI2_bounds as (A & B & C & D).
  apply (tkernel_half 3 (1 / 2 + 2) 0 (PI / 2)); try assumption. simpl. lra.
Qed.

Lemma tcdf_gen_half_form : forall x,
  tcdf_gen (1 / 2) x =
  1 / 2 + 1 / 2 * (RInt (fun th => / sqrt (cos th)) 0 (atan (x / sqrt (1 / 2))) /
                   (3 * RInt (fun th => sqrt (cos th) ^ 3) 0 (PI / 2))).
Proof.
  intros x. unfold tcdf_gen. rewrite tnorm_gen_half.
  generalize PI_RGT_0 => HPI.
  rewrite (tkernel_half_inv 0 (atan (x / sqrt (1 / 2)))); [reflexivity | lra | apply atan_bound].
Qed.

Lemma tpdf_gen_half_form : forall x,
  tpdf_gen (1 / 2) x =
  Rpower (1 + x * x / (1 / 2)) (- (1 / 2 + 1) / 2) /
  (2 * sqrt (1 / 2) * (3 * RInt (fun th => sqrt (cos th) ^ 3) 0 (PI / 2))).
Proof. intros x. unfold tpdf_gen. now rewrite tnorm_gen_half. Qed.

(* Proofs/Marks.v — NodeMarks refines a set of integers. *)
From Coq Require Import List ZArith NArith Lia Bool.
From MM Require Import Model.Marks Spec.MarkSet.
Import ListNotations.

Lemma nth_error_repeat_0 : forall n k, nth_error (repeat 0%N n) k = if (k <? n)%nat then Some 0%N else None.
Proof.
  induction n as [|n IH]; intros [|k]; simpl; auto.
  rewrite IH. reflexivity.
Qed.

Lemma new_spec : forall i, m_test m_new i = false.
Proof.
  intros i. unfold m_test, m_new. destruct (i <? 0)%Z; auto.
  rewrite nth_error_repeat_0. destruct (_ <? _)%nat; auto.
Qed.

(* ------------------------------------------------------------------ *)
(* 1. abstraction                                                      *)
(* ------------------------------------------------------------------ *)

Definition m_abs (m : marks) (i : Z) : Prop :=
  (0 <= i)%Z /\ exists w, nth_error m (N.to_nat (Z.to_N i / 32)) = Some w /\ N.testbit w (Z.to_N i mod 32) = true.

Lemma test_spec : forall m i, m_test m i = true <-> m_abs m i.
Proof.
  intros m i. unfold m_test, m_abs.
  destruct (Z.ltb_spec i 0) as [Hneg|Hpos].
  - split; [discriminate|]. intros [H0 _]. lia.
  - cbv zeta. destruct (nth_error m (N.to_nat (Z.to_N i / 32))) as [w|] eqn:Ew.
    + split.
      * intros Hb. split; [exact Hpos|]. exists w. split; [reflexivity|exact Hb].
      * intros [_ [w' [Hw' Hb]]]. inversion Hw'; subst w'. exact Hb.
    + split; [discriminate|]. intros [_ [w' [Hw' _]]]. discriminate.
Qed.

(* the word at index q, 0 when out of range: Test reads exactly one bit of it *)
Definition wd (m : marks) (q : N) : N := nth (N.to_nat q) m 0%N.

Definition n_test (m : marks) (n : N) : bool := N.testbit (wd m (n / 32)) (n mod 32).

Lemma wd_nth_error : forall m q,
  wd m q = match nth_error m (N.to_nat q) with Some w => w | None => 0%N end.
Proof.
  intros m q. unfold wd.
  destruct (nth_error m (N.to_nat q)) as [w|] eqn:Ew.
  - apply nth_error_nth. exact Ew.
  - apply nth_overflow. apply nth_error_None. exact Ew.
Qed.

Lemma m_test_wd : forall m j,
  m_test m j = if (j <? 0)%Z then false else n_test m (Z.to_N j).
Proof.
  intros m j. unfold m_test, n_test. destruct (j <? 0)%Z; [reflexivity|].
  cbv zeta. rewrite wd_nth_error.
  destruct (nth_error m (N.to_nat (Z.to_N j / 32))) as [w|]; [reflexivity|].
  rewrite N.bits_0. reflexivity.
Qed.

Lemma m_test_nonneg : forall m j, (0 <= j)%Z -> m_test m j = n_test m (Z.to_N j).
Proof.
  intros m j Hj. rewrite m_test_wd. destruct (Z.ltb_spec j 0) as [H|H]; [lia|reflexivity].
Qed.

Lemma m_test_neg : forall m j, (j < 0)%Z -> m_test m j = false.
Proof.
  intros m j Hj. rewrite m_test_wd. destruct (Z.ltb_spec j 0) as [H|H]; [reflexivity|lia].
Qed.

(* ------------------------------------------------------------------ *)
(* 2. grow                                                             *)
(* ------------------------------------------------------------------ *)

Lemma pow2_loop_ge : forall fuel k n,
  (n <= k * 2 ^ N.of_nat fuel)%N -> (n <= pow2_loop fuel k n)%N.
Proof.
  induction fuel as [|f IH]; intros k n Hn.
  - simpl in *. lia.
  - cbn [pow2_loop]. destruct (N.ltb_spec k n) as [Hlt|Hge]; [|exact Hge].
    apply IH. rewrite Nat2N.inj_succ, N.pow_succ_r' in Hn. lia.
Qed.

Lemma pow2_loop_pow2 : forall fuel k n,
  (exists e, k = (2 ^ e)%N) -> exists e, pow2_loop fuel k n = (2 ^ e)%N.
Proof.
  induction fuel as [|f IH]; intros k n [e He].
  - exists e. exact He.
  - cbn [pow2_loop]. destruct (k <? n)%N; [|exists e; exact He].
    apply IH. exists (N.succ e). rewrite N.pow_succ_r'. lia.
Qed.

Lemma pos_size_nat_gt : forall p, (Npos p < 2 ^ N.of_nat (Pos.size_nat p))%N.
Proof.
  induction p as [q IH|q IH|]; cbn [Pos.size_nat].
  - rewrite Nat2N.inj_succ, N.pow_succ_r'.
    change (Npos q~1) with (2 * Npos q + 1)%N. lia.
  - rewrite Nat2N.inj_succ, N.pow_succ_r'.
    change (Npos q~0) with (2 * Npos q)%N. lia.
  - simpl. lia.
Qed.

Lemma size_nat_gt : forall n, (n < 2 ^ N.of_nat (N.size_nat n))%N.
Proof.
  intros [|p]; [simpl; lia|]. apply pos_size_nat_gt.
Qed.

Lemma pow2_ge_spec : forall n, (n <= pow2_ge n)%N /\ exists e, pow2_ge n = (2 ^ e)%N.
Proof.
  intros n. unfold pow2_ge. split.
  - apply pow2_loop_ge. rewrite Nat2N.inj_succ, N.pow_succ_r'.
    pose proof (size_nat_gt n) as H. lia.
  - apply pow2_loop_pow2. exists 0%N. reflexivity.
Qed.

Lemma grow_length : forall m i, length (m_grow m i) = N.to_nat (pow2_ge (i / 32 + 1)).
Proof.
  intros m i. unfold m_grow. cbv zeta.
  rewrite app_length, firstn_length, repeat_length. lia.
Qed.

Lemma grow_covers : forall m i, (N.to_nat (i / 32) < length (m_grow m i))%nat.
Proof.
  intros m i. rewrite grow_length.
  destruct (pow2_ge_spec (i / 32 + 1)) as [Hge _]. lia.
Qed.

Lemma grow_preserves : forall m i, (length m <= N.to_nat (i / 32))%nat ->
  forall k, (k < length m)%nat -> nth_error (m_grow m i) k = nth_error m k.
Proof.
  intros m i Hlen k Hk.
  pose proof (grow_covers m i) as Hc. rewrite grow_length in Hc.
  unfold m_grow. cbv zeta.
  rewrite firstn_all2 by lia. apply nth_error_app1. exact Hk.
Qed.

Lemma grow_new_words : forall m i k, (length m <= k < length (m_grow m i))%nat ->
  nth_error (m_grow m i) k = Some 0%N.
Proof.
  intros m i k Hk. rewrite grow_length in Hk.
  unfold m_grow. cbv zeta.
  rewrite firstn_all2 by lia. rewrite nth_error_app2 by lia.
  rewrite nth_error_repeat_0.
  destruct (Nat.ltb_spec (k - length m) (N.to_nat (pow2_ge (i / 32 + 1)) - length m)) as [H|H];
    [reflexivity|lia].
Qed.

Lemma wd_grow : forall m i q, (length m <= N.to_nat (i / 32))%nat -> wd (m_grow m i) q = wd m q.
Proof.
  intros m i q Hlen. rewrite !wd_nth_error.
  destruct (Nat.lt_ge_cases (N.to_nat q) (length m)) as [Hlt|Hge].
  - rewrite grow_preserves by assumption. reflexivity.
  - assert (Hn : nth_error m (N.to_nat q) = None) by (apply nth_error_None; exact Hge).
    rewrite Hn.
    destruct (Nat.lt_ge_cases (N.to_nat q) (length (m_grow m i))) as [Hlt2|Hge2].
    + rewrite grow_new_words by lia. reflexivity.
    + assert (Hn2 : nth_error (m_grow m i) (N.to_nat q) = None) by (apply nth_error_None; exact Hge2).
      rewrite Hn2. reflexivity.
Qed.

(* ------------------------------------------------------------------ *)
(* 3/4. Mark, Unmark                                                   *)
(* ------------------------------------------------------------------ *)

Lemma nth_error_upd : forall m q f k,
  nth_error (m_upd m q f) k =
  if (k =? q)%nat then option_map f (nth_error m k) else nth_error m k.
Proof.
  induction m as [|w t IH]; intros [|q] f [|k]; simpl; auto.
  - destruct (k =? q)%nat; reflexivity.
Qed.

Lemma upd_length : forall m q f, length (m_upd m q f) = length m.
Proof.
  induction m as [|w t IH]; intros [|q] f; simpl; auto.
Qed.

Lemma wd_upd : forall m q f k, (q < length m)%nat ->
  wd (m_upd m q f) k = if (N.to_nat k =? q)%nat then f (wd m k) else wd m k.
Proof.
  intros m q f k Hq. rewrite !wd_nth_error, nth_error_upd.
  destruct (Nat.eqb_spec (N.to_nat k) q) as [He|Hne]; [|reflexivity].
  destruct (nth_error m (N.to_nat k)) as [w|] eqn:Ew; [reflexivity|].
  apply nth_error_None in Ew. lia.
Qed.

Lemma id_split : forall n i : N,
  n = i <-> (n / 32 = i / 32 /\ n mod 32 = i mod 32)%N.
Proof.
  intros n i. split.
  - intros ->. split; reflexivity.
  - intros [Hd Hm]. rewrite (N.div_mod' n 32), (N.div_mod' i 32), Hd, Hm. reflexivity.
Qed.

Lemma divmod32 : forall q r : N, (r < 32)%N ->
  ((32 * q + r) / 32 = q /\ (32 * q + r) mod 32 = r)%N.
Proof.
  intros q r Hr. split; symmetry.
  - apply (N.div_unique _ 32 q r); [exact Hr|reflexivity].
  - apply (N.mod_unique _ 32 q r); [exact Hr|reflexivity].
Qed.

Lemma mod32_lt : forall n : N, (n mod 32 < 32)%N.
Proof. intros n. apply N.mod_lt. discriminate. Qed.

(* the state Mark updates: grown if necessary, same words, index in range *)
Definition m_pre (m : marks) (i : N) : marks :=
  if (length m <=? N.to_nat (i / 32))%nat then m_grow m i else m.

Lemma m_mark_pre : forall m i,
  m_mark m i = m_upd (m_pre m i) (N.to_nat (i / 32)) (fun w => N.lor w (N.shiftl 1 (i mod 32))).
Proof. reflexivity. Qed.

Lemma pre_covers : forall m i, (N.to_nat (i / 32) < length (m_pre m i))%nat.
Proof.
  intros m i. unfold m_pre.
  destruct (Nat.leb_spec (length m) (N.to_nat (i / 32))) as [H|H]; [apply grow_covers|exact H].
Qed.

Lemma wd_pre : forall m i q, wd (m_pre m i) q = wd m q.
Proof.
  intros m i q. unfold m_pre.
  destruct (Nat.leb_spec (length m) (N.to_nat (i / 32))) as [H|H]; [|reflexivity].
  apply wd_grow. exact H.
Qed.

Lemma mark_n : forall m i n, n_test (m_mark m i) n = (n =? i)%N || n_test m n.
Proof.
  intros m i n. rewrite m_mark_pre. unfold n_test.
  rewrite wd_upd by apply pre_covers. rewrite wd_pre.
  destruct (Nat.eqb_spec (N.to_nat (n / 32)) (N.to_nat (i / 32))) as [Hq|Hq].
  - assert (Hd : (n / 32 = i / 32)%N) by lia.
    rewrite N.lor_spec, N.shiftl_1_l, N.pow2_bits_eqb.
    destruct (N.eqb_spec n i) as [Hni|Hni];
      destruct (N.eqb_spec (i mod 32) (n mod 32)) as [Hr|Hr].
    + apply orb_true_r.
    + subst n. congruence.
    + exfalso. apply Hni. apply id_split. split; [exact Hd|symmetry; exact Hr].
    + apply orb_false_r.
  - destruct (N.eqb_spec n i) as [Hni|Hni]; [|reflexivity].
    subst n. congruence.
Qed.

Lemma zeqb_neqb : forall (j : Z) (i : N), (0 <= j)%Z -> (j =? Z.of_N i)%Z = (Z.to_N j =? i)%N.
Proof.
  intros j i Hj.
  destruct (Z.eqb_spec j (Z.of_N i)) as [H1|H1]; destruct (N.eqb_spec (Z.to_N j) i) as [H2|H2];
    try reflexivity; lia.
Qed.

Lemma mark_spec : forall m i j, m_test (m_mark m i) j = (j =? Z.of_N i)%Z || m_test m j.
Proof.
  intros m i j. destruct (Z.lt_ge_cases j 0) as [Hj|Hj].
  - rewrite !m_test_neg by exact Hj.
    destruct (Z.eqb_spec j (Z.of_N i)) as [H|H]; [lia|reflexivity].
  - rewrite !m_test_nonneg by exact Hj. rewrite zeqb_neqb by exact Hj. apply mark_n.
Qed.

Lemma unmark_n : forall m i n, n_test (m_unmark m i) n = negb (n =? i)%N && n_test m n.
Proof.
  intros m i n. unfold m_unmark. cbv zeta.
  destruct (Nat.leb_spec (length m) (N.to_nat (i / 32))) as [Hlen|Hlen].
  - destruct (N.eqb_spec n i) as [Hni|Hni]; [|reflexivity].
    subst n. unfold n_test, wd. rewrite nth_overflow by exact Hlen.
    rewrite N.bits_0. reflexivity.
  - unfold n_test. rewrite wd_upd by exact Hlen.
    destruct (Nat.eqb_spec (N.to_nat (n / 32)) (N.to_nat (i / 32))) as [Hq|Hq].
    + assert (Hd : (n / 32 = i / 32)%N) by lia.
      rewrite N.ldiff_spec, N.shiftl_1_l, N.pow2_bits_eqb.
      destruct (N.eqb_spec n i) as [Hni|Hni];
        destruct (N.eqb_spec (i mod 32) (n mod 32)) as [Hr|Hr]; simpl.
      * apply andb_false_r.
      * subst n. congruence.
      * exfalso. apply Hni. apply id_split. split; [exact Hd|symmetry; exact Hr].
      * apply andb_true_r.
    + destruct (N.eqb_spec n i) as [Hni|Hni]; [|reflexivity].
      subst n. congruence.
Qed.

Lemma unmark_spec : forall m i j,
  m_test (m_unmark m i) j = negb (j =? Z.of_N i)%Z && m_test m j.
Proof.
  intros m i j. destruct (Z.lt_ge_cases j 0) as [Hj|Hj].
  - rewrite !m_test_neg by exact Hj. apply eq_sym, andb_false_r.
  - rewrite !m_test_nonneg by exact Hj. rewrite zeqb_neqb by exact Hj. apply unmark_n.
Qed.

(* ------------------------------------------------------------------ *)
(* 5. the uint32 invariant, ctz, Next                                  *)
(* ------------------------------------------------------------------ *)

Definition words_ok (m : marks) : Prop := Forall (fun w => (w < 2 ^ 32)%N) m.

Lemma lt_pow2_bits : forall a n : N,
  (a < 2 ^ n)%N <-> (forall k, (n <= k)%N -> N.testbit a k = false).
Proof.
  intros a n. destruct (N.eq_dec a 0) as [Ha|Ha].
  - subst a. split.
    + intros _ k _. apply N.bits_0.
    + intros _. assert (H : (2 ^ n <> 0)%N) by (apply N.pow_nonzero; discriminate). lia.
  - assert (Hpos : (0 < a)%N) by lia. split.
    + intros Hlt k Hk. apply N.bits_above_log2.
      apply (N.log2_lt_pow2 a n Hpos) in Hlt. lia.
    + intros Hbits. apply (N.log2_lt_pow2 a n Hpos).
      destruct (N.lt_ge_cases (N.log2 a) n) as [Hl|Hl]; [exact Hl|].
      pose proof (N.bit_log2 a Ha) as Hb.
      rewrite (Hbits _ Hl) in Hb. discriminate.
Qed.

Lemma Forall_upd : forall (P : N -> Prop) f, (forall w, P w -> P (f w)) ->
  forall m q, Forall P m -> Forall P (m_upd m q f).
Proof.
  intros P f Hf. induction m as [|w t IH]; intros [|q] Hm; simpl; auto;
    inversion Hm as [|w' t' Hw Ht]; subst; constructor; auto.
Qed.

Lemma Forall_firstn_N : forall (P : N -> Prop) k m, Forall P m -> Forall P (firstn k m).
Proof.
  intros P. induction k as [|k IH]; intros [|w t] Hm; simpl; auto.
  inversion Hm as [|w' t' Hw Ht]; subst. constructor; auto.
Qed.

Lemma Forall_repeat_N : forall (P : N -> Prop) x n, P x -> Forall P (repeat x n).
Proof.
  intros P x n Hx. induction n as [|n IH]; simpl; constructor; auto.
Qed.

Lemma zero_lt_pow32 : (0 < 2 ^ 32)%N.
Proof. reflexivity. Qed.

Lemma words_ok_new : words_ok m_new.
Proof. apply Forall_repeat_N. exact zero_lt_pow32. Qed.

Lemma words_ok_grow : forall m i, words_ok m -> words_ok (m_grow m i).
Proof.
  intros m i Hm. unfold m_grow, words_ok. cbv zeta. apply Forall_app. split.
  - apply Forall_firstn_N. exact Hm.
  - apply Forall_repeat_N. exact zero_lt_pow32.
Qed.

Lemma words_ok_mark : forall m i, words_ok m -> words_ok (m_mark m i).
Proof.
  intros m i Hm. rewrite m_mark_pre. apply Forall_upd.
  - intros w Hw. apply lt_pow2_bits. intros k Hk.
    rewrite N.lor_spec, N.shiftl_1_l, N.pow2_bits_eqb.
    rewrite (proj1 (lt_pow2_bits w 32) Hw k Hk).
    pose proof (mod32_lt i) as Hr.
    destruct (N.eqb_spec (i mod 32) k) as [He|He]; [lia|reflexivity].
  - unfold m_pre. destruct (length m <=? N.to_nat (i / 32))%nat; [|exact Hm].
    apply words_ok_grow. exact Hm.
Qed.

Lemma words_ok_unmark : forall m i, words_ok m -> words_ok (m_unmark m i).
Proof.
  intros m i Hm. unfold m_unmark. cbv zeta.
  destruct (length m <=? N.to_nat (i / 32))%nat; [exact Hm|].
  apply Forall_upd; [|exact Hm].
  intros w Hw. apply lt_pow2_bits. intros k Hk.
  rewrite N.ldiff_spec. rewrite (proj1 (lt_pow2_bits w 32) Hw k Hk). reflexivity.
Qed.

Lemma wd_ok : forall m q, words_ok m -> (wd m q < 2 ^ 32)%N.
Proof.
  intros m q Hm. unfold wd.
  destruct (Nat.lt_ge_cases (N.to_nat q) (length m)) as [Hlt|Hge].
  - unfold words_ok in Hm. rewrite Forall_forall in Hm. apply Hm. apply nth_In. exact Hlt.
  - rewrite nth_overflow by exact Hge. exact zero_lt_pow32.
Qed.

(* ctz *)
Lemma ctz_pos_spec : forall p,
  N.testbit (Npos p) (ctz_pos p) = true /\
  forall k, (k < ctz_pos p)%N -> N.testbit (Npos p) k = false.
Proof.
  induction p as [q IH|q IH|]; cbn [ctz_pos].
  - split; [reflexivity|]. intros k Hk. lia.
  - destruct IH as [IH1 IH2].
    change (Npos q~0) with (2 * Npos q)%N. split.
    + rewrite N.testbit_even_succ by lia. exact IH1.
    + intros k Hk. destruct (N.eq_dec k 0) as [Hk0|Hk0].
      * subst k. apply N.testbit_even_0.
      * replace k with (N.succ (N.pred k)) by lia.
        rewrite N.testbit_even_succ by lia. apply IH2. lia.
  - split; [reflexivity|]. intros k Hk. lia.
Qed.

Lemma ctz_spec : forall w, w <> 0%N ->
  N.testbit w (ctz w) = true /\ forall k, (k < ctz w)%N -> N.testbit w k = false.
Proof.
  intros [|p] Hw; [congruence|]. apply ctz_pos_spec.
Qed.

Lemma bit_true_lt : forall w k n, (w < 2 ^ n)%N -> N.testbit w k = true -> (k < n)%N.
Proof.
  intros w k n Hw Hb. destruct (N.lt_ge_cases k n) as [H|H]; [exact H|].
  rewrite (proj1 (lt_pow2_bits w n) Hw k H) in Hb. discriminate.
Qed.

(* scan *)
Lemma nth_skipn_N : forall a (m : list N) k d, nth k (skipn a m) d = nth (a + k) m d.
Proof.
  induction a as [|a IH]; intros [|w t] k d; simpl; auto.
  destruct k; reflexivity.
Qed.

Lemma scan_spec : forall l bi,
  (m_scan l bi = (-1)%Z /\ forall k, nth k l 0%N = 0%N) \/
  (exists k, nth k l 0%N <> 0%N /\ (forall k', (k' < k)%nat -> nth k' l 0%N = 0%N) /\
             m_scan l bi = Z.of_N (32 * (bi + N.of_nat k) + ctz (nth k l 0%N))).
Proof.
  induction l as [|b t IH]; intros bi.
  - left. split; [reflexivity|]. intros [|k]; reflexivity.
  - cbn [m_scan]. destruct (N.eqb_spec b 0) as [Hb|Hb].
    + destruct (IH (bi + 1)%N) as [[Hs Hz]|[k [Hnz [Hlow Hs]]]].
      * left. split; [exact Hs|]. intros [|k]; simpl; [exact Hb|apply Hz].
      * right. exists (S k). split; [exact Hnz|]. split.
        -- intros [|k'] Hk'; simpl; [exact Hb|]. apply Hlow. lia.
        -- rewrite Hs. cbn [nth]. f_equal. lia.
    + right. exists O. split; [exact Hb|]. split.
      * intros k' Hk'. lia.
      * cbn [nth]. f_equal. lia.
Qed.

Lemma wd_skipn : forall m q k,
  nth k (skipn (S (N.to_nat q)) m) 0%N = wd m (q + 1 + N.of_nat k).
Proof.
  intros m q k. unfold wd. rewrite nth_skipn_N. f_equal. lia.
Qed.

Lemma n_test_at : forall m q r, (r < 32)%N -> n_test m (32 * q + r) = N.testbit (wd m q) r.
Proof.
  intros m q r Hr. unfold n_test. destruct (divmod32 q r Hr) as [Hd Hm]. rewrite Hd, Hm. reflexivity.
Qed.

(* Next on the clamped non-negative start index *)
Definition n_next (m : marks) (n : N) : Z :=
  match nth_error m (N.to_nat (n / 32)) with
  | None => (-1)%Z
  | Some w =>
      let b0 := N.shiftr w (n mod 32) in
      if (b0 =? 0)%N then m_scan (skipn (S (N.to_nat (n / 32))) m) (n / 32 + 1)%N
      else Z.of_N (n + ctz b0)
  end.

Lemma m_next_n_next : forall m i,
  m_next m i = n_next m (Z.to_N (if (i + 1 <? 0)%Z then 0%Z else (i + 1)%Z)).
Proof. reflexivity. Qed.

(* quotient/remainder as plain variables (keeps / and mod out of lia's sight) *)
Lemma dm32 : forall k : N, exists K M : N,
  k = (32 * K + M)%N /\ (M < 32)%N /\ (k / 32 = K)%N /\ (k mod 32 = M)%N.
Proof.
  intros k. exists (k / 32)%N, (k mod 32)%N.
  split; [apply N.div_mod'|]. split; [apply mod32_lt|]. split; reflexivity.
Qed.

Lemma n_next_spec : forall m n, words_ok m ->
  (n_next m n = (-1)%Z /\ forall k, (n <= k)%N -> n_test m k = false) \/
  (exists r, n_next m n = Z.of_N r /\ (n <= r)%N /\ n_test m r = true /\
             forall k, (n <= k < r)%N -> n_test m k = false).
Proof.
  intros m n Hok. unfold n_next.
  destruct (dm32 n) as (q & r0 & Hn & Hr0 & Hq & Hr0'). rewrite Hq, Hr0'. clear Hq Hr0'.
  destruct (nth_error m (N.to_nat q)) as [w|] eqn:Ew.
  - (* the word holding bit n *)
    assert (Hwd : wd m q = w) by (rewrite wd_nth_error, Ew; reflexivity).
    pose proof (wd_ok m q Hok) as Hw. rewrite Hwd in Hw.
    cbv zeta. destruct (N.eqb_spec (N.shiftr w r0) 0) as [Hb0|Hb0].
    + (* nothing left in this word *)
      assert (Hsame : forall M, (r0 <= M)%N -> N.testbit w M = false).
      { intros M HM. replace M with ((M - r0) + r0)%N by lia.
        rewrite <- N.shiftr_spec', Hb0. apply N.bits_0. }
      destruct (scan_spec (skipn (S (N.to_nat q)) m) (q + 1)%N)
        as [[Hs Hz]|[k0 [Hnz [Hlow Hs]]]].
      * left. split; [exact Hs|]. intros k Hk.
        destruct (dm32 k) as (K & M & HkKM & HM & _ & _). subst k.
        rewrite n_test_at by exact HM.
        destruct (N.eq_dec K q) as [HKq|HKq].
        -- subst K. rewrite Hwd. apply Hsame. lia.
        -- replace K with (q + 1 + N.of_nat (N.to_nat (K - q - 1)))%N by lia.
           rewrite <- wd_skipn, Hz. apply N.bits_0.
      * right. rewrite wd_skipn in Hnz, Hs.
        remember (q + 1 + N.of_nat k0)%N as q1 eqn:Hq1.
        pose proof (wd_ok m q1 Hok) as Hw1.
        destruct (ctz_spec _ Hnz) as [Hc1 Hc2].
        pose proof (bit_true_lt _ _ _ Hw1 Hc1) as Hc.
        exists (32 * q1 + ctz (wd m q1))%N.
        split; [exact Hs|]. split; [lia|]. split.
        -- rewrite n_test_at by exact Hc. exact Hc1.
        -- intros k [Hk1 Hk2].
           destruct (dm32 k) as (K & M & HkKM & HM & _ & _). subst k.
           rewrite n_test_at by exact HM.
           destruct (N.eq_dec K q) as [HKq|HKq].
           ++ subst K. rewrite Hwd. apply Hsame. lia.
           ++ destruct (N.eq_dec K q1) as [HKq1|HKq1].
              ** rewrite HKq1. apply Hc2. lia.
              ** assert (HK : (N.to_nat (K - q - 1) < k0)%nat) by lia.
                 replace K with (q + 1 + N.of_nat (N.to_nat (K - q - 1)))%N by lia.
                 rewrite <- wd_skipn, (Hlow _ HK). apply N.bits_0.
    + (* a bit at or after n in this word *)
      destruct (ctz_spec _ Hb0) as [Hc1 Hc2].
      rewrite N.shiftr_spec' in Hc1.
      pose proof (bit_true_lt _ _ _ Hw Hc1) as Hc.
      right. exists (n + ctz (N.shiftr w r0))%N.
      split; [reflexivity|]. split; [lia|]. split.
      * replace (n + ctz (N.shiftr w r0))%N with (32 * q + (ctz (N.shiftr w r0) + r0))%N by lia.
        rewrite n_test_at by exact Hc. rewrite Hwd. exact Hc1.
      * intros k [Hk1 Hk2].
        replace k with (32 * q + ((k - n) + r0))%N by lia.
        rewrite n_test_at by lia. rewrite Hwd, <- N.shiftr_spec'. apply Hc2. lia.
  - (* past the end *)
    left. split; [reflexivity|]. intros k Hk.
    apply nth_error_None in Ew.
    destruct (dm32 k) as (K & M & HkKM & HM & _ & _). subst k.
    rewrite n_test_at by exact HM.
    unfold wd. rewrite nth_overflow by lia. apply N.bits_0.
Qed.

Lemma next_spec : forall m i, words_ok m ->
  let r := m_next m i in
  (r = (-1)%Z /\ forall j, (i < j)%Z -> m_test m j = false) \/
  ((i < r)%Z /\ (0 <= r)%Z /\ m_test m r = true /\
   forall j, (i < j < r)%Z -> m_test m j = false).
Proof.
  intros m i Hok. cbv zeta. rewrite m_next_n_next.
  remember (Z.to_N (if (i + 1 <? 0)%Z then 0%Z else (i + 1)%Z)) as n eqn:En.
  assert (Hn : Z.of_N n = Z.max 0 (i + 1)).
  { subst n. destruct (Z.ltb_spec (i + 1) 0) as [H|H]; lia. }
  clear En.
  destruct (n_next_spec m n Hok) as [[Hr Hnone]|[r [Hr [Hnr [Hrt Hbelow]]]]]; rewrite Hr.
  - left. split; [reflexivity|]. intros j Hj.
    destruct (Z.lt_ge_cases j 0) as [Hj0|Hj0]; [apply m_test_neg; exact Hj0|].
    rewrite m_test_nonneg by exact Hj0. apply Hnone. lia.
  - right. split; [lia|]. split; [lia|]. split.
    + rewrite m_test_nonneg by lia. rewrite N2Z.id. exact Hrt.
    + intros j Hj.
      destruct (Z.lt_ge_cases j 0) as [Hj0|Hj0]; [apply m_test_neg; exact Hj0|].
      rewrite m_test_nonneg by exact Hj0. apply Hbelow. lia.
Qed.

(* ------------------------------------------------------------------ *)
(* 6. the reference set and the history theorem                        *)
(* ------------------------------------------------------------------ *)

Lemma zs_mem_In : forall s j, zs_mem s j = true <-> In j s.
Proof.
  intros s j. unfold zs_mem. rewrite existsb_exists. split.
  - intros [x [Hx He]]. apply Z.eqb_eq in He. subst x. exact Hx.
  - intros Hj. exists j. split; [exact Hj|apply Z.eqb_refl].
Qed.

Lemma zs_mem_not_In : forall s j, ~ In j s -> zs_mem s j = false.
Proof.
  intros s j Hj. destruct (zs_mem s j) eqn:E; [|reflexivity].
  exfalso. apply Hj. apply zs_mem_In. exact E.
Qed.

Definition zs_pick (i best j : Z) : Z :=
  if ((i <? j) && ((best <? 0) || (j <? best)))%Z then j else best.

Lemma zs_next_fold : forall s i, zs_next s i = fold_left (zs_pick i) s (-1)%Z.
Proof. reflexivity. Qed.

Lemma zs_fold_spec : forall i s best,
  (forall x, In x s -> (0 <= x)%Z) ->
  (best = (-1)%Z \/ (i < best /\ 0 <= best)%Z) ->
  let r := fold_left (zs_pick i) s best in
  (r = (-1)%Z /\ best = (-1)%Z /\ forall x, In x s -> ~ (i < x)%Z) \/
  ((i < r)%Z /\ (0 <= r)%Z /\ (r = best \/ In r s) /\
   (best <> (-1)%Z -> (r <= best)%Z) /\ forall x, In x s -> (i < x)%Z -> (r <= x)%Z).
Proof.
  intros i. induction s as [|a t IH]; intros best Hs Hbest; cbv zeta.
  - simpl. destruct Hbest as [Hb|Hb].
    + left. split; [exact Hb|]. split; [exact Hb|]. intros x [].
    + right. split; [lia|]. split; [lia|]. split; [left; reflexivity|].
      split; [lia|]. intros x [].
  - cbn [fold_left].
    assert (Ha : (0 <= a)%Z) by (apply Hs; left; reflexivity).
    assert (Ht : forall x, In x t -> (0 <= x)%Z) by (intros x Hx; apply Hs; right; exact Hx).
    assert (Hpick : (zs_pick i best a = best /\ (~ (i < a)%Z \/ (best <> (-1)%Z /\ best <= a)%Z)) \/
                    (zs_pick i best a = a /\ (i < a)%Z /\ (best = (-1)%Z \/ a < best)%Z)).
    { unfold zs_pick.
      destruct (Z.ltb_spec i a) as [H1|H1]; destruct (Z.ltb_spec best 0) as [H2|H2];
        destruct (Z.ltb_spec a best) as [H3|H3]; simpl; lia. }
    destruct Hpick as [[Hp Hwhy]|[Hp [Hia Hwhy]]]; rewrite Hp.
    + specialize (IH best Ht Hbest). cbv zeta in IH.
      destruct IH as [[Hr [Hb Hnone]]|[Hir [Hr0 [Hin [Hle Hmin]]]]].
      * left. split; [exact Hr|]. split; [exact Hb|].
        intros x [Hx|Hx]; [subst x; lia|apply Hnone; exact Hx].
      * right. split; [exact Hir|]. split; [exact Hr0|]. split.
        { destruct Hin as [Hin|Hin]; [left; exact Hin|right; right; exact Hin]. }
        split; [exact Hle|].
        intros x [Hx|Hx] Hix; [subst x; lia|apply Hmin; assumption].
    + assert (Hbest' : a = (-1)%Z \/ (i < a /\ 0 <= a)%Z) by (right; lia).
      specialize (IH a Ht Hbest'). cbv zeta in IH.
      destruct IH as [[Hr [Hb Hnone]]|[Hir [Hr0 [Hin [Hle Hmin]]]]]; [lia|].
      right. split; [exact Hir|]. split; [exact Hr0|]. split.
      { right. destruct Hin as [Hin|Hin]; [left; symmetry; exact Hin|right; exact Hin]. }
      split; [lia|].
      intros x [Hx|Hx] Hix; [subst x; lia|apply Hmin; assumption].
Qed.

Lemma zs_next_spec : forall s i, (forall x, In x s -> (0 <= x)%Z) ->
  let r := zs_next s i in
  (r = (-1)%Z /\ forall j, (i < j)%Z -> zs_mem s j = false) \/
  ((i < r)%Z /\ (0 <= r)%Z /\ zs_mem s r = true /\
   forall j, (i < j < r)%Z -> zs_mem s j = false).
Proof.
  intros s i Hs. cbv zeta. rewrite zs_next_fold.
  pose proof (zs_fold_spec i s (-1)%Z Hs (or_introl eq_refl)) as H. cbv zeta in H.
  destruct H as [[Hr [_ Hnone]]|[Hir [Hr0 [Hin [_ Hmin]]]]].
  - left. split; [exact Hr|]. intros j Hj. apply zs_mem_not_In.
    intros Hin. exact (Hnone j Hin Hj).
  - right. split; [exact Hir|]. split; [exact Hr0|]. split.
    + apply zs_mem_In. destruct Hin as [Hin|Hin]; [lia|exact Hin].
    + intros j Hj. apply zs_mem_not_In. intros Hjs.
      pose proof (Hmin j Hjs) as Hle. lia.
Qed.

Lemma zs_mem_add : forall s i j, zs_mem (zs_add s i) j = (j =? i)%Z || zs_mem s j.
Proof. reflexivity. Qed.

Lemma zs_mem_remove : forall s i j,
  zs_mem (zs_remove s i) j = negb (j =? i)%Z && zs_mem s j.
Proof.
  intros s i j. unfold zs_remove, zs_mem. induction s as [|a t IH]; simpl.
  - apply eq_sym, andb_false_r.
  - destruct (Z.eqb_spec a i) as [Hai|Hai]; simpl.
    + rewrite IH. subst a. destruct (Z.eqb_spec j i) as [Hji|Hji]; reflexivity.
    + rewrite IH. destruct (Z.eqb_spec j a) as [Hja|Hja]; simpl; [|reflexivity].
      subst a. destruct (Z.eqb_spec j i) as [Hji|Hji]; [contradiction|reflexivity].
Qed.

Definition sim (m : marks) (s : zset) : Prop :=
  words_ok m /\ (forall x, In x s -> (0 <= x)%Z) /\ forall j, m_test m j = zs_mem s j.

Lemma sim_new : sim m_new [].
Proof.
  split; [exact words_ok_new|]. split; [intros x []|].
  intros j. rewrite new_spec. reflexivity.
Qed.

Lemma sim_mark : forall m s i, sim m s -> sim (m_mark m i) (zs_add s (Z.of_N i)).
Proof.
  intros m s i [Hok [Hs Ht]]. split; [apply words_ok_mark; exact Hok|]. split.
  - intros x [Hx|Hx]; [lia|apply Hs; exact Hx].
  - intros j. rewrite mark_spec, zs_mem_add, Ht. reflexivity.
Qed.

Lemma sim_unmark : forall m s i, sim m s -> sim (m_unmark m i) (zs_remove s (Z.of_N i)).
Proof.
  intros m s i [Hok [Hs Ht]]. split; [apply words_ok_unmark; exact Hok|]. split.
  - intros x Hx. unfold zs_remove in Hx. apply filter_In in Hx. apply Hs. exact (proj1 Hx).
  - intros j. rewrite unmark_spec, zs_mem_remove, Ht. reflexivity.
Qed.

Lemma sim_next : forall m s i, sim m s -> m_next m i = zs_next s i.
Proof.
  intros m s i [Hok [Hs Ht]].
  pose proof (next_spec m i Hok) as Hm. pose proof (zs_next_spec s i Hs) as Hz.
  cbv zeta in Hm, Hz.
  remember (m_next m i) as r1 eqn:E1. remember (zs_next s i) as r2 eqn:E2. clear E1 E2.
  destruct Hm as [[Hr1 Hn1]|[Hi1 [H01 [Ht1 Hb1]]]];
    destruct Hz as [[Hr2 Hn2]|[Hi2 [H02 [Ht2 Hb2]]]].
  - lia.
  - rewrite <- Ht, (Hn1 _ Hi2) in Ht2. discriminate.
  - rewrite Ht, (Hn2 _ Hi1) in Ht1. discriminate.
  - destruct (Z.lt_trichotomy r1 r2) as [Hlt|[Heq|Hgt]]; [|exact Heq|].
    + rewrite Ht, (Hb2 r1 (conj Hi1 Hlt)) in Ht1. discriminate.
    + rewrite <- Ht, (Hb1 r2 (conj Hi2 Hgt)) in Ht2. discriminate.
Qed.

Lemma sim_run : forall ops m s, sim m s -> m_run m ops = zs_run s ops.
Proof.
  induction ops as [|o t IH]; intros m s Hsim; [reflexivity|].
  destruct o as [i|i|i|i]; cbn [m_run zs_run m_step zs_step].
  - f_equal. apply IH. apply sim_mark. exact Hsim.
  - f_equal. apply IH. apply sim_unmark. exact Hsim.
  - destruct Hsim as [Hok [Hs Ht]]. rewrite Ht. f_equal. apply IH.
    split; [exact Hok|]. split; assumption.
  - rewrite (sim_next m s i Hsim). f_equal. apply IH. exact Hsim.
Qed.

Theorem marks_history : forall ops, m_run m_new ops = zs_run [] ops.
Proof. intros ops. apply sim_run. exact sim_new. Qed.

(* the remark in Model/Marks.v: every word a history produces is a uint32 *)
Fixpoint m_exec (m : marks) (ops : list mop) : marks :=
  match ops with
  | [] => m
  | o :: t => m_exec (fst (m_step m o)) t
  end.

Lemma words_bounded : forall ops m, words_ok m -> words_ok (m_exec m ops).
Proof.
  induction ops as [|o t IH]; intros m Hok; [exact Hok|].
  cbn [m_exec]. apply IH. destruct o as [i|i|i|i]; cbn [m_step fst].
  - apply words_ok_mark. exact Hok.
  - apply words_ok_unmark. exact Hok.
  - exact Hok.
  - exact Hok.
Qed.

Print Assumptions marks_history.
Print Assumptions next_spec.
Print Assumptions mark_spec.

(* Proofs/Marks.v — NodeMarks refines a set of integers. *)
From Coq Require Import List ZArith NArith Lia Bool.
From MM Require Import Model.Marks Spec.MarkSet.
Import ListNotations.

Lemma nth_error_repeat_0 : forall n k, nth_error (repeat 0%N n) k = if (k <? n)%nat then Some 0%N else None.
Proof.
  induction n as [|n IH]; intros [|k]; simpl; auto.
  rewrite IH. reflexivity.
Qed.

Lemma new_spec : forall i, m_test m_new i = false.
Proof.
  intros i. unfold m_test, m_new. destruct (i <? 0)%Z; auto.
  rewrite nth_error_repeat_0. destruct (_ <? _)%nat; auto.
Qed.

(* Proofs/Mathx.v — lemmas about the exact model of mathx (Model/Mathx.v). *)
From Coq Require Import Lia Lqa.
From MM Require Import Base.Num Model.Mathx.
Local Open Scope Z_scope.

(* ---------- Sign ---------- *)
Lemma sign_cases : forall x : xreal,
  match x with
  | XNaN => sign_model x = XNaN
  | XInf true => sign_model x = XFin (-1)%Q
  | XInf false => sign_model x = XFin 1%Q
  | XFin q => (q == 0 -> sign_model x = XFin 0)%Q /\ (q < 0 -> sign_model x = XFin (-1))%Q /\ (0 < q -> sign_model x = XFin 1)%Q
  end.
Proof.
  intros [ | [|] | q]; simpl; try reflexivity.
  unfold Qeqb, Qltb.
  repeat split; intro H.
  - apply Qeq_bool_iff in H. now rewrite H.
  - destruct (Qeq_bool q 0) eqn:E. { apply Qeq_bool_iff in E. rewrite E in H. now apply Qlt_irrefl in H. }
    destruct (Qle_bool 0 q) eqn:E2. { apply Qle_bool_iff in E2. exfalso. apply (Qlt_irrefl q). eapply Qlt_le_trans; eauto. }
    reflexivity.
  - destruct (Qeq_bool q 0) eqn:E. { apply Qeq_bool_iff in E. rewrite E in H. now apply Qlt_irrefl in H. }
    destruct (Qle_bool 0 q) eqn:E2; [reflexivity|].
    exfalso. assert (Qle_bool 0 q = true) by (apply Qle_bool_iff; now apply Qlt_le_weak). congruence.
Qed.

(* ================================================================== *)
(* A. Binomial coefficients (Pascal's triangle [binom])                *)
(* ================================================================== *)
Lemma binom_0_r : forall n, binom n 0 = 1.
Proof. destruct n; reflexivity. Qed.

Lemma binom_pascal : forall n k, binom (S n) (S k) = binom n k + binom n (S k).
Proof. reflexivity. Qed.

Lemma binom_out : forall n k, (n < k)%nat -> binom n k = 0.
Proof.
  induction n as [|n IH]; destruct k as [|k]; simpl; intros H; try lia.
  rewrite !IH by lia. reflexivity.
Qed.

Lemma binom_diag : forall n, binom n n = 1.
Proof.
  induction n as [|n IH]; [reflexivity|].
  rewrite binom_pascal, IH, binom_out by lia. reflexivity.
Qed.

Lemma binom_nonneg : forall n k, 0 <= binom n k.
Proof.
  induction n as [|n IH]; destruct k as [|k]; simpl; try lia.
  specialize (IH k) as H1. specialize (IH (S k)) as H2. lia.
Qed.

Lemma binom_pos : forall n k, (k <= n)%nat -> 0 < binom n k.
Proof.
  induction n as [|n IH]; destruct k as [|k]; simpl; intros H; try lia.
  specialize (IH k ltac:(lia)) as H1. specialize (binom_nonneg n (S k)) as H2. lia.
Qed.

(* absorption: (k+1) C(n,k+1) = (n-k) C(n,k) — for ALL n, k (both sides 0 when k >= n) *)
Lemma binom_absorb : forall n k,
  binom n (S k) * Z.of_nat (S k) = binom n k * (Z.of_nat n - Z.of_nat k).
Proof.
  induction n as [|n IH]; intros k.
  - destruct k; simpl; lia.
  - destruct k as [|k].
    + rewrite binom_pascal, !binom_0_r. specialize (IH O). rewrite binom_0_r in IH. lia.
    + rewrite (binom_pascal n (S k)), (binom_pascal n k).
      specialize (IH k) as H0. specialize (IH (S k)) as H1.
      set (b0 := binom n k) in *. set (b1 := binom n (S k)) in *. set (b2 := binom n (S (S k))) in *.
      rewrite !Nat2Z.inj_succ in *. nia.
Qed.

Lemma factZ_pos : forall n, 0 < factZ n.
Proof. induction n as [|n IH]; [reflexivity|]. change (factZ (S n)) with (Z.of_nat (S n) * factZ n). lia. Qed.

Lemma factZ_S : forall n, factZ (S n) = Z.of_nat (S n) * factZ n.
Proof. reflexivity. Qed.

Lemma binom_fact : forall n k, (k <= n)%nat -> binom n k * factZ k * factZ (n - k) = factZ n.
Proof.
  intros n k. induction k as [|k IH]; intros H.
  - rewrite binom_0_r, Nat.sub_0_r. change (factZ 0) with 1. lia.
  - specialize (IH ltac:(lia)).
    replace (n - k)%nat with (S (n - S k)) in IH by lia.
    rewrite factZ_S in IH. rewrite factZ_S.
    specialize (binom_absorb n k) as A.
    replace (Z.of_nat (S (n - S k))) with (Z.of_nat n - Z.of_nat k) in IH by lia.
    rewrite <- IH.
    transitivity (binom n (S k) * Z.of_nat (S k) * factZ k * factZ (n - S k)); [ring|].
    rewrite A. ring.
Qed.

Lemma binom_sym : forall n k, (k <= n)%nat -> binom n k = binom n (n - k).
Proof.
  intros n k H.
  specialize (binom_fact n k H) as F1.
  specialize (binom_fact n (n - k) ltac:(lia)) as F2.
  replace (n - (n - k))%nat with k in F2 by lia.
  specialize (factZ_pos k) as P1. specialize (factZ_pos (n - k)) as P2.
  apply (Z.mul_cancel_r _ _ (factZ k * factZ (n - k))); [nia|].
  lia.
Qed.

(* ================================================================== *)
(* B. The multiplicative row recurrence computes Pascal's triangle     *)
(* ================================================================== *)
Lemma binom_step_div : forall n j,
  binom n j * (Z.of_nat n - Z.of_nat j) / (Z.of_nat j + 1) = binom n (S j).
Proof.
  intros n j. rewrite <- binom_absorb.
  replace (Z.of_nat j + 1) with (Z.of_nat (S j)) by lia.
  apply Z.div_mul. lia.
Qed.

Lemma binom_row_from_correct : forall n cnt j,
  binom_row_from (Z.of_nat n) (Z.of_nat j) (binom n j) cnt = map (binom n) (seq j (S cnt)).
Proof.
  intros n. induction cnt as [|cnt IH]; intros j.
  - reflexivity.
  - change (binom_row_from (Z.of_nat n) (Z.of_nat j) (binom n j) (S cnt))
      with (binom n j :: binom_row_from (Z.of_nat n) (Z.of_nat j + 1)
                            (binom n j * (Z.of_nat n - Z.of_nat j) / (Z.of_nat j + 1)) cnt).
    rewrite binom_step_div.
    replace (Z.of_nat j + 1) with (Z.of_nat (S j)) by lia.
    rewrite IH. reflexivity.
Qed.

Lemma binom_row_correct : forall n, binom_row n = map (binom n) (seq 0 (S n)).
Proof.
  intros n. unfold binom_row.
  change 0 with (Z.of_nat 0). rewrite <- (binom_0_r n) at 1.
  apply binom_row_from_correct.
Qed.

Lemma binomZ_correct : forall n k, (k <= n)%nat -> binomZ n k = binom n k.
Proof.
  intros n k H. unfold binomZ. rewrite binom_row_correct.
  rewrite <- (binom_out n (S n)) at 1 by lia.
  rewrite map_nth, seq_nth by lia. reflexivity.
Qed.

(* out of the row the table lookup gives the default 0, which is also C(n,k) *)
Lemma binomZ_correct_all : forall n k, binomZ n k = binom n k.
Proof.
  intros n k. destruct (le_lt_dec k n) as [H|H]; [now apply binomZ_correct|].
  unfold binomZ. rewrite binom_row_correct, nth_overflow, binom_out; auto.
  rewrite map_length, seq_length. lia.
Qed.

(* ================================================================== *)
(* C. The falling factorial is C(n,k) * k!  — for ALL n, k             *)
(* ================================================================== *)
Lemma prod_up_acc : forall cnt lo acc, prod_up lo cnt acc = acc * prod_up lo cnt 1.
Proof.
  induction cnt as [|cnt IH]; intros lo acc; [simpl; lia|].
  change (prod_up lo (S cnt) acc) with (prod_up (lo + 1) cnt (acc * lo)).
  change (prod_up lo (S cnt) 1) with (prod_up (lo + 1) cnt (1 * lo)).
  rewrite (IH (lo + 1) (acc * lo)), (IH (lo + 1) (1 * lo)). ring.
Qed.

Lemma falling_factorial_div_all : forall n k,
  prod_up (Z.of_nat n - (Z.of_nat k - 1)) k 1 = binom n k * factZ k.
Proof.
  intros n. induction k as [|k IH].
  - rewrite binom_0_r. reflexivity.
  - change (prod_up (Z.of_nat n - (Z.of_nat (S k) - 1)) (S k) 1)
      with (prod_up (Z.of_nat n - (Z.of_nat (S k) - 1) + 1) k (1 * (Z.of_nat n - (Z.of_nat (S k) - 1)))).
    rewrite prod_up_acc.
    replace (Z.of_nat n - (Z.of_nat (S k) - 1) + 1) with (Z.of_nat n - (Z.of_nat k - 1)) by lia.
    rewrite IH, factZ_S.
    specialize (binom_absorb n k) as A.
    transitivity (binom n (S k) * Z.of_nat (S k) * factZ k); [|ring].
    rewrite A. replace (Z.of_nat n - (Z.of_nat (S k) - 1)) with (Z.of_nat n - Z.of_nat k) by lia. ring.
Qed.

Lemma falling_factorial_div : forall n k, (k <= n)%nat ->
  prod_up (Z.of_nat n - (Z.of_nat k - 1)) k 1 = binom n k * factZ k.
Proof. intros n k _. apply falling_factorial_div_all. Qed.

Lemma falling_factorial_quot : forall n k,
  Z.quot (prod_up (Z.of_nat n - (Z.of_nat k - 1)) k 1) (factZ k) = binom n k.
Proof.
  intros n k. rewrite falling_factorial_div_all. apply Z.quot_mul.
  specialize (factZ_pos k). lia.
Qed.

(* ================================================================== *)
(* D. No int64 overflow for n <= 20 (finite sweep), sharp at 21        *)
(* ================================================================== *)
Definition no_overflow_at (n k : Z) : bool :=
  let p := prod_up (n - (k - 1)) (Z.to_nat k) 1 in
  (prod_up64 (n - (k - 1)) (Z.to_nat k) 1 =? p) && (0 <=? p) && (p <? 2 ^ 63).

Definition no_overflow_sweep : bool :=
  forallb (fun n => forallb (fun k => no_overflow_at (Z.of_nat n) (Z.of_nat k)) (seq 1 (n - 1))) (seq 0 21).

Lemma no_overflow_sweep_ok : no_overflow_sweep = true.
Proof. vm_compute. reflexivity. Qed.

Lemma choose_small_no_overflow : forall n k, 0 < k < n -> n <= 20 ->
  prod_up64 (n - (k - 1)) (Z.to_nat k) 1 = prod_up (n - (k - 1)) (Z.to_nat k) 1 /\
  0 <= prod_up (n - (k - 1)) (Z.to_nat k) 1 < 2 ^ 63.
Proof.
  intros n k Hk Hn.
  specialize no_overflow_sweep_ok as S. unfold no_overflow_sweep in S.
  rewrite forallb_forall in S.
  specialize (S (Z.to_nat n)). 
  assert (In (Z.to_nat n) (seq 0 21)) as Hin by (apply in_seq; lia).
  specialize (S Hin). rewrite forallb_forall in S.
  specialize (S (Z.to_nat k)).
  assert (In (Z.to_nat k) (seq 1 (Z.to_nat n - 1))) as Hin2 by (apply in_seq; lia).
  specialize (S Hin2). rewrite !Z2Nat.id in S by lia.
  unfold no_overflow_at in S.
  apply andb_prop in S. destruct S as [S S3]. apply andb_prop in S. destruct S as [S1 S2].
  apply Z.eqb_eq in S1. apply Z.leb_le in S2. apply Z.ltb_lt in S3.
  split; [exact S1 | split; assumption].
Qed.

(* the bound 20 is sharp: at n = 21 the int64 product wraps around *)
Lemma choose_small_overflows_at_21 :
  exists k, 0 < k < 21 /\ prod_up64 (21 - (k - 1)) (Z.to_nat k) 1 <> prod_up (21 - (k - 1)) (Z.to_nat k) 1.
Proof. exists 20. split; [lia|]. vm_compute. discriminate. Qed.

Lemma choose_small_exact : forall n k, 0 < k < n -> n <= 20 ->
  choose_small n k = binom (Z.to_nat n) (Z.to_nat k).
Proof.
  intros n k Hk Hn. unfold choose_small.
  destruct (choose_small_no_overflow n k Hk Hn) as [E _]. rewrite E.
  rewrite <- (Z2Nat.id n) at 1 by lia. rewrite <- (Z2Nat.id k) at 1 by lia.
  apply falling_factorial_quot.
Qed.

(* ================================================================== *)
(* E. Choose / Lchoose                                                 *)
(* ================================================================== *)
Definition choose_value (r : choose_res) : Z := match r with CExact z | CApprox z => z end.

Lemma choose_is_binomial : forall n k, 0 <= n -> 0 <= k <= n ->
  choose_value (choose_model n k) = binom (Z.to_nat n) (Z.to_nat k).
Proof.
  intros n k Hn Hk. unfold choose_model.
  destruct (k =? 0) eqn:E0; simpl.
  { apply Z.eqb_eq in E0. subst k. simpl. now rewrite binom_0_r. }
  destruct (k =? n) eqn:E1; simpl.
  { apply Z.eqb_eq in E1. subst k. now rewrite binom_diag. }
  apply Z.eqb_neq in E0, E1.
  destruct (k <? 0) eqn:E2; [apply Z.ltb_lt in E2; lia|].
  destruct (n <? k) eqn:E3; [apply Z.ltb_lt in E3; lia|]. simpl.
  destruct (n <=? 20) eqn:E4; simpl.
  - apply Z.leb_le in E4. apply choose_small_exact; lia.
  - apply binomZ_correct. lia.
Qed.

Lemma choose_exact_small : forall n k, 0 <= n <= 20 -> exists z, choose_model n k = CExact z.
Proof.
  intros n k Hn. unfold choose_model.
  destruct ((k =? 0) || (k =? n)); [eauto|].
  destruct ((k <? 0) || (n <? k)); [eauto|].
  destruct (n <=? 20) eqn:E; [eauto|]. apply Z.leb_gt in E. lia.
Qed.

(* exact for n <= 20, with the value: the float result is exactly C(n,k) (0 above the row) *)
Lemma choose_exact_small_value : forall n k, 0 <= n <= 20 -> 0 <= k ->
  choose_model n k = CExact (binom (Z.to_nat n) (Z.to_nat k)).
Proof.
  intros n k Hn Hk.
  destruct (Z_le_gt_dec k n) as [Hkn|Hkn].
  - destruct (choose_exact_small n k Hn) as [z Hz].
    specialize (choose_is_binomial n k ltac:(lia) ltac:(lia)) as B.
    rewrite Hz in B. simpl in B. now rewrite Hz, B.
  - rewrite binom_out by lia. unfold choose_model.
    destruct (k =? 0) eqn:E0; [apply Z.eqb_eq in E0; lia|].
    destruct (k =? n) eqn:E1; [apply Z.eqb_eq in E1; lia|]. simpl.
    assert (E : (n <? k) = true) by (apply Z.ltb_lt; lia). rewrite E, orb_true_r. reflexivity.
Qed.

Lemma choose_out_of_range : forall n k, 0 <= n -> (k < 0 \/ n < k) -> choose_model n k = CExact 0.
Proof.
  intros n k Hn Hk. unfold choose_model.
  destruct (k =? 0) eqn:E0; [apply Z.eqb_eq in E0; lia|].
  destruct (k =? n) eqn:E1; [apply Z.eqb_eq in E1; lia|]. simpl.
  destruct Hk as [Hk|Hk].
  - apply Z.ltb_lt in Hk. rewrite Hk. reflexivity.
  - apply Z.ltb_lt in Hk. rewrite Hk, orb_true_r. reflexivity.
Qed.

Lemma choose_symmetric : forall n k, 0 <= n -> 0 <= k <= n ->
  choose_value (choose_model n k) = choose_value (choose_model n (n - k)).
Proof.
  intros n k Hn Hk. rewrite !choose_is_binomial by lia.
  rewrite Z2Nat.inj_sub by lia. apply binom_sym. lia.
Qed.

Lemma lchoose_is_log_choose : forall n k, 0 <= n ->
  (0 < k < n -> lchoose_model n k = LLogOf (choose_value (choose_model n k))) /\
  ((k = 0 \/ k = n) -> lchoose_model n k = LZero /\ choose_value (choose_model n k) = 1) /\
  ((k < 0 \/ n < k) -> lchoose_model n k = LNaN).
Proof.
  intros n k Hn. repeat split.
  - intros Hk. rewrite choose_is_binomial by lia. unfold lchoose_model.
    destruct (k =? 0) eqn:E0; [apply Z.eqb_eq in E0; lia|].
    destruct (k =? n) eqn:E1; [apply Z.eqb_eq in E1; lia|]. simpl.
    destruct (k <? 0) eqn:E2; [apply Z.ltb_lt in E2; lia|].
    destruct (n <? k) eqn:E3; [apply Z.ltb_lt in E3; lia|]. simpl.
    f_equal. apply binomZ_correct. lia.
  - unfold lchoose_model. destruct H as [H|H]; subst k.
    + reflexivity.
    + rewrite Z.eqb_refl, orb_true_r. reflexivity.
  - unfold choose_model. destruct H as [H|H]; subst k.
    + reflexivity.
    + rewrite Z.eqb_refl, orb_true_r. reflexivity.
  - intros Hk. unfold lchoose_model.
    destruct (k =? 0) eqn:E0; [apply Z.eqb_eq in E0; lia|].
    destruct (k =? n) eqn:E1; [apply Z.eqb_eq in E1; lia|]. simpl.
    destruct Hk as [Hk|Hk].
    + apply Z.ltb_lt in Hk. rewrite Hk. reflexivity.
    + apply Z.ltb_lt in Hk. rewrite Hk, orb_true_r. reflexivity.
Qed.

(* the checker reads C(n,k) from the row table *)
Lemma choose_row_lookup : forall n k,
  nth (Z.to_nat k) (binom_row (Z.to_nat n)) 0 = binomZ (Z.to_nat n) (Z.to_nat k).
Proof. reflexivity. Qed.

(* ON RECORD: for NEGATIVE n the Go code (and the model) return 1 when k = n or k = 0;
   the theorems above assume 0 <= n. *)
Lemma choose_negative_n_example : choose_model (-1) (-1) = CExact 1.
Proof. reflexivity. Qed.

(* ================================================================== *)
(* G. Gamma and Beta at integer / half-integer arguments               *)
(* ================================================================== *)
Local Open Scope Q_scope.

Lemma gamma_half_fuel_indep : forall f1 f2 m, (1 <= m)%Z ->
  (m <= 2 * Z.of_nat f1)%Z -> (m <= 2 * Z.of_nat f2)%Z ->
  gamma_half_fuel f1 m = gamma_half_fuel f2 m.
Proof.
  induction f1 as [|f1 IH]; intros f2 m H1 Hf1 Hf2; [lia|].
  destruct f2 as [|f2]; [lia|].
  simpl. destruct (m =? 1)%Z eqn:E1; [reflexivity|].
  destruct (m =? 2)%Z eqn:E2; [reflexivity|].
  apply Z.eqb_neq in E1, E2.
  rewrite (IH f2 (m - 2)%Z) by lia. reflexivity.
Qed.

Lemma gamma_half_one : gamma_half 1 = (1, true).
Proof. reflexivity. Qed.

Lemma gamma_half_two : gamma_half 2 = (1, false).
Proof. reflexivity. Qed.

Lemma gamma_half_unfold : forall m, (3 <= m)%Z ->
  gamma_half m = (Qred (((m - 2)%Z # 2) * fst (gamma_half (m - 2))), snd (gamma_half (m - 2))).
Proof.
  intros m Hm. unfold gamma_half.
  destruct (Z.to_nat m) as [|f] eqn:Ef; [lia|].
  simpl.
  destruct (m =? 1)%Z eqn:E1; [apply Z.eqb_eq in E1; lia|].
  destruct (m =? 2)%Z eqn:E2; [apply Z.eqb_eq in E2; lia|].
  rewrite (gamma_half_fuel_indep f (Z.to_nat (m - 2)) (m - 2)%Z) by lia.
  destruct (gamma_half_fuel (Z.to_nat (m - 2)) (m - 2)%Z) as [q s]. reflexivity.
Qed.

(* Gamma(z+1) = z Gamma(z) at z = (m-2)/2 *)
Lemma gamma_half_step : forall m, (3 <= m)%Z ->
  fst (gamma_half m) == ((m - 2)%Z # 2) * fst (gamma_half (m - 2)) /\
  snd (gamma_half m) = snd (gamma_half (m - 2)).
Proof.
  intros m Hm. rewrite (gamma_half_unfold m Hm). cbv beta iota delta [fst snd]. split; [apply Qred_correct | reflexivity].
Qed.

(* Gamma(a) = (a-1)! *)
Lemma gamma_half_even : forall a, (1 <= a)%nat ->
  fst (gamma_half (2 * Z.of_nat a)) == inject_Z (factZ (a - 1)) /\
  snd (gamma_half (2 * Z.of_nat a)) = false.
Proof.
  intros a Ha. destruct a as [|a]; [lia|]. clear Ha.
  induction a as [|a [IH1 IH2]].
  - split; reflexivity.
  - destruct (gamma_half_step (2 * Z.of_nat (S (S a)))) as [S1 S2]; [lia|].
    replace (2 * Z.of_nat (S (S a)) - 2)%Z with (2 * Z.of_nat (S a))%Z in * by lia.
    split; [|congruence].
    rewrite S1, IH1.
    replace (S (S a) - 1)%nat with (S a) by lia. replace (S a - 1)%nat with a by lia.
    rewrite factZ_S. rewrite inject_Z_mult.
    apply Qmult_comp; [|reflexivity].
    unfold Qeq, inject_Z. simpl Qnum. simpl Qden. lia.
Qed.

(* Beta(a,b) = Gamma(a) Gamma(b) / Gamma(a+b) = (a-1)! (b-1)! / (a+b-1)!  at integers *)
Lemma beta_gamma_identity_int : forall a b, (1 <= a)%nat -> (1 <= b)%nat ->
  fst (beta_half (2 * Z.of_nat a) (2 * Z.of_nat b)) ==
    inject_Z (factZ (a - 1) * factZ (b - 1)) / inject_Z (factZ (a + b - 1)) /\
  snd (beta_half (2 * Z.of_nat a) (2 * Z.of_nat b)) = false.
Proof.
  intros a b Ha Hb.
  destruct (gamma_half_even a Ha) as [A1 A2].
  destruct (gamma_half_even b Hb) as [B1 B2].
  destruct (gamma_half_even (a + b) ltac:(lia)) as [C1 C2].
  unfold beta_half.
  replace (2 * Z.of_nat a + 2 * Z.of_nat b)%Z with (2 * Z.of_nat (a + b))%Z by lia.
  destruct (gamma_half (2 * Z.of_nat a)) as [qa sa].
  destruct (gamma_half (2 * Z.of_nat b)) as [qb sb].
  destruct (gamma_half (2 * Z.of_nat (a + b))) as [qc sc].
  cbv beta iota zeta delta [fst snd] in *. subst sa. split; [|reflexivity].
  rewrite Qred_correct, A1, B1, C1, inject_Z_mult. reflexivity.
Qed.

(* the general statement behind the model: beta_half IS Gamma Gamma / Gamma of the table *)
Lemma beta_half_is_gamma_ratio : forall ma mb,
  fst (beta_half ma mb) == fst (gamma_half ma) * fst (gamma_half mb) / fst (gamma_half (ma + mb)) /\
  snd (beta_half ma mb) = snd (gamma_half ma) && snd (gamma_half mb).
Proof.
  intros ma mb. unfold beta_half.
  destruct (gamma_half ma) as [qa sa]. destruct (gamma_half mb) as [qb sb].
  destruct (gamma_half (ma + mb)) as [qc sc]. cbv beta iota zeta delta [fst snd]. split; [apply Qred_correct | reflexivity].
Qed.

(* ================================================================== *)
(* H. Decision structure of BetaInc / GammaInc                         *)
(* ================================================================== *)
Lemma Qltb_true : forall x y, Qltb x y = true <-> x < y.
Proof.
  intros x y. unfold Qltb. rewrite negb_true_iff.
  split; intro H.
  - apply Qnot_le_lt. intro L. apply Qle_bool_iff in L. congruence.
  - destruct (Qle_bool y x) eqn:E; [|reflexivity]. apply Qle_bool_iff in E.
    exfalso. apply (Qlt_irrefl x). eapply Qlt_le_trans; eauto.
Qed.

Lemma Qltb_false : forall x y, Qltb x y = false <-> y <= x.
Proof.
  intros x y. unfold Qltb. rewrite negb_false_iff. apply Qle_bool_iff.
Qed.

Lemma Qleb_true : forall x y, Qleb x y = true <-> x <= y.
Proof. intros. apply Qle_bool_iff. Qed.

Lemma betainc_switch_in_unit : forall a b, 0 < a -> 0 < b ->
  0 < (a + 1) / (a + b + 2) /\ (a + 1) / (a + b + 2) < 1.
Proof.
  intros a b Ha Hb.
  assert (0 < a + b + 2) as Hd by lra.
  split.
  - apply Qlt_shift_div_l; [exact Hd|]. lra.
  - apply Qlt_shift_div_r; [exact Hd|]. lra.
Qed.

Lemma betainc_edges : forall a b, 0 < a -> 0 < b ->
  betainc_end_value 0 a b = Some 0 /\ betainc_end_value 1 a b = Some 1.
Proof.
  intros a b Ha Hb.
  destruct (betainc_switch_in_unit a b Ha Hb) as [H0 H1].
  unfold betainc_end_value, betainc_branch_of.
  change (Qeqb 0 0) with true. change (Qeqb 1 0) with false. change (Qeqb 1 1) with true.
  change (Qltb 0 0) with false. change (Qltb 1 0) with false. change (Qltb 1 1) with false.
  simpl orb.
  apply Qltb_true in H0. rewrite H0.
  apply Qlt_le_weak, Qltb_false in H1. rewrite H1.
  split; reflexivity.
Qed.

Lemma betainc_nan_outside : forall x a b, x < 0 \/ 1 < x -> betainc_branch_of x a b = BNaN.
Proof.
  intros x a b [H|H]; apply Qltb_true in H; unfold betainc_branch_of; rewrite H; [|rewrite orb_true_r]; reflexivity.
Qed.

(* inside [0,1] the code never returns NaN by the range test *)
Lemma betainc_not_nan_inside : forall x a b, 0 <= x <= 1 -> betainc_branch_of x a b <> BNaN.
Proof.
  intros x a b [H0 H1]. unfold betainc_branch_of.
  apply Qltb_false in H0, H1. rewrite H0, H1. simpl.
  destruct (Qltb x ((a + 1) / (a + b + 2))); discriminate.
Qed.

Lemma gammainc_nan_domain : forall a x,
  gammainc_branch_of (XFin a) (XFin x) = GNaN <-> (a <= 0 \/ x < 0).
Proof.
  intros a x. unfold gammainc_branch_of.
  destruct (Qleb a 0) eqn:Ea; simpl.
  - apply Qleb_true in Ea. tauto.
  - destruct (Qltb x 0) eqn:Ex.
    + apply Qltb_true in Ex. tauto.
    + split.
      * destruct (Qltb x (a + 1)); discriminate.
      * intros [H|H].
        -- apply Qleb_true in H. congruence.
        -- apply Qltb_true in H. congruence.
Qed.

Lemma gammainc_nan_args : forall v,
  gammainc_branch_of XNaN v = GNaN /\ gammainc_branch_of v XNaN = GNaN /\
  gammainc_branch_of (XInf true) v = GNaN /\ gammainc_branch_of v (XInf true) = GNaN.
Proof. intros [ | [|] | q]; repeat split; reflexivity. Qed.

(* non-NaN cases at infinite arguments: a = +inf, x finite >= 0 -> series; x = +inf -> cont. fraction *)
Lemma gammainc_inf_args : forall q,
  (0 <= q -> gammainc_branch_of (XInf false) (XFin q) = GSeries) /\
  (0 < q -> gammainc_branch_of (XFin q) (XInf false) = GContFrac) /\
  gammainc_branch_of (XInf false) (XInf false) = GContFrac.
Proof.
  intros q. repeat split.
  - intros H. simpl. apply Qltb_false in H. rewrite H. reflexivity.
  - intros H. simpl. destruct (Qleb q 0) eqn:E; [|reflexivity].
    apply Qleb_true in E. exfalso. apply (Qlt_irrefl 0). eapply Qlt_le_trans; eauto.
Qed.
Local Close Scope Q_scope.

(* ================================================================== *)
(* F. Closed form of BetaInc at integer parameters, over Q             *)
(* ================================================================== *)
Local Open Scope Q_scope.

Lemma Qpow_compat : forall x y n, x == y -> Qpow x n == Qpow y n.
Proof.
  intros x y n E. induction n as [|n IH]; simpl; [reflexivity|]. rewrite IH, E. reflexivity.
Qed.

Lemma Qpow_0 : forall n, Qpow 0 (S n) == 0.
Proof. intros n. simpl. apply Qmult_0_l. Qed.

Lemma Qpow_1 : forall n, Qpow 1 n == 1.
Proof. induction n as [|n IH]; simpl; [reflexivity|]. rewrite IH. reflexivity. Qed.

Lemma ibeta_term_compat : forall n j x y, x == y -> ibeta_term n j x == ibeta_term n j y.
Proof.
  intros n j x y E. unfold ibeta_term.
  rewrite (Qpow_compat x y j E), (Qpow_compat (1 - x) (1 - y) (n - j)); [reflexivity|].
  rewrite E. reflexivity.
Qed.

Lemma ibeta_sum_from_compat : forall n cnt a x y, x == y ->
  ibeta_sum_from n a cnt x == ibeta_sum_from n a cnt y.
Proof.
  intros n. induction cnt as [|cnt IH]; intros a x y E; simpl; [reflexivity|].
  rewrite (ibeta_term_compat n a x y E), (IH (S a) x y E). reflexivity.
Qed.

Lemma ibeta_int_compat : forall a b x y, x == y -> ibeta_int a b x == ibeta_int a b y.
Proof. intros. unfold ibeta_int. now apply ibeta_sum_from_compat. Qed.

Lemma ibeta_sum_from_at_0 : forall n cnt j, (1 <= j)%nat -> ibeta_sum_from n j cnt 0 == 0.
Proof.
  intros n. induction cnt as [|cnt IH]; intros j Hj; simpl; [reflexivity|].
  rewrite IH by lia. unfold ibeta_term.
  destruct j as [|j]; [lia|]. rewrite Qpow_0. ring.
Qed.

Lemma ibeta_int_0 : forall a b, (1 <= a)%nat -> (1 <= b)%nat -> ibeta_int a b 0 == 0.
Proof. intros a b Ha _. unfold ibeta_int. now apply ibeta_sum_from_at_0. Qed.

Lemma ibeta_sum_from_at_1 : forall n cnt j, (j + S cnt = S n)%nat -> ibeta_sum_from n j (S cnt) 1 == 1.
Proof.
  intros n. induction cnt as [|cnt IH]; intros j Hj.
  - assert (j = n) by lia. subst j. simpl. unfold ibeta_term.
    rewrite binom_diag, Qpow_1, Nat.sub_diag. simpl. ring.
  - change (ibeta_sum_from n j (S (S cnt)) 1) with (ibeta_term n j 1 + ibeta_sum_from n (S j) (S cnt) 1).
    rewrite IH by lia. unfold ibeta_term.
    replace (n - j)%nat with (S (n - S j)) by lia.
    rewrite (Qpow_compat (1 - 1) 0) by reflexivity. rewrite Qpow_0. ring.
Qed.

Lemma ibeta_int_1 : forall a b, (1 <= a)%nat -> (1 <= b)%nat -> ibeta_int a b 1 == 1.
Proof.
  intros a b _ Hb. unfold ibeta_int. destruct b as [|b]; [lia|].
  apply ibeta_sum_from_at_1. lia.
Qed.

(* --- the integer recurrence of the fast version --- *)
Local Open Scope Z_scope.
(* T_j = C(n,j) p^j r^(n-j) *)
Definition Tz (n : nat) (p r : Z) (j : nat) : Z :=
  binom n j * p ^ Z.of_nat j * r ^ Z.of_nat (n - j).
Fixpoint Tz_sum (n : nat) (p r : Z) (j cnt : nat) : Z :=
  match cnt with O => 0 | S c => Tz n p r j + Tz_sum n p r (S j) c end.

(* each division of the recurrence is exact *)
Lemma Tz_step : forall n p r j, (j < n)%nat -> 0 < r ->
  Tz n p r j * (Z.of_nat n - Z.of_nat j) * p / ((Z.of_nat j + 1) * r) = Tz n p r (S j).
Proof.
  intros n p r j Hj Hr.
  assert (E : Tz n p r j * (Z.of_nat n - Z.of_nat j) * p = Tz n p r (S j) * ((Z.of_nat j + 1) * r)).
  { unfold Tz. specialize (binom_absorb n j) as A.
    replace (n - j)%nat with (S (n - S j)) by lia.
    rewrite !Nat2Z.inj_succ, !Z.pow_succ_r by lia.
    rewrite Nat2Z.inj_succ in A.
    transitivity (binom n j * (Z.of_nat n - Z.of_nat j) * (p ^ Z.of_nat j * p * (r * r ^ Z.of_nat (n - S j)))); [ring|].
    rewrite <- A. ring. }
  rewrite E. apply Z.div_mul. nia.
Qed.

Lemma ibeta_terms_fast_sum : forall n p r, 0 < r -> forall cnt j acc, (j + cnt <= S n)%nat ->
  ibeta_terms_fast (Z.of_nat n) p r (Z.of_nat j) (Tz n p r j) cnt acc = acc + Tz_sum n p r j cnt.
Proof.
  intros n p r Hr. induction cnt as [|cnt IH]; intros j acc Hj.
  - simpl. lia.
  - change (ibeta_terms_fast (Z.of_nat n) p r (Z.of_nat j) (Tz n p r j) (S cnt) acc)
      with (ibeta_terms_fast (Z.of_nat n) p r (Z.of_nat j + 1)
              (Tz n p r j * (Z.of_nat n - Z.of_nat j) * p / ((Z.of_nat j + 1) * r)) cnt (acc + Tz n p r j)).
    destruct cnt as [|cnt].
    + simpl. lia.
    + rewrite Tz_step by lia.
      replace (Z.of_nat j + 1) with (Z.of_nat (S j)) by lia.
      rewrite IH by lia.
      change (Tz_sum n p r j (S (S cnt))) with (Tz n p r j + Tz_sum n p r (S j) (S cnt)). ring.
Qed.

Local Open Scope Q_scope.
Lemma Qpow_frac : forall u v j, (0 < v)%Z ->
  Qpow (inject_Z u / inject_Z v) j == inject_Z (u ^ Z.of_nat j) / inject_Z (v ^ Z.of_nat j).
Proof.
  intros u v j Hv.
  assert (Hv' : ~ inject_Z v == 0).
  { intro E. unfold Qeq, inject_Z in E. simpl in E. lia. }
  induction j as [|j IH].
  - simpl. reflexivity.
  - change (Qpow (inject_Z u / inject_Z v) (S j)) with (inject_Z u / inject_Z v * Qpow (inject_Z u / inject_Z v) j).
    rewrite IH, Nat2Z.inj_succ, !Z.pow_succ_r, !inject_Z_mult by lia.
    assert (Hvj : ~ inject_Z (v ^ Z.of_nat j) == 0).
    { intro E. unfold Qeq, inject_Z in E. simpl in E.
      assert (0 < v ^ Z.of_nat j)%Z by (apply Z.pow_pos_nonneg; lia). lia. }
    field. split; assumption.
Qed.

Lemma ibeta_term_frac : forall n j p q, (j <= n)%nat -> (0 < q)%Z ->
  ibeta_term n j (inject_Z p / inject_Z q) ==
  inject_Z (Tz n p (q - p) j) / inject_Z (q ^ Z.of_nat n).
Proof.
  intros n j p q Hj Hq. unfold ibeta_term, Tz.
  assert (Hq' : ~ inject_Z q == 0).
  { intro E. unfold Qeq, inject_Z in E. simpl in E. lia. }
  assert (E1 : 1 - inject_Z p / inject_Z q == inject_Z (q - p) / inject_Z q).
  { unfold Zminus. rewrite inject_Z_plus, inject_Z_opp. field. exact Hq'. }
  rewrite (Qpow_compat _ _ (n - j) E1), !Qpow_frac by lia.
  assert (En : (q ^ Z.of_nat n = q ^ Z.of_nat j * q ^ Z.of_nat (n - j))%Z).
  { rewrite <- Z.pow_add_r by lia. f_equal. lia. }
  rewrite En, !inject_Z_mult.
  assert (H1 : ~ inject_Z (q ^ Z.of_nat j) == 0).
  { intro E. unfold Qeq, inject_Z in E. simpl in E.
    assert (0 < q ^ Z.of_nat j)%Z by (apply Z.pow_pos_nonneg; lia). lia. }
  assert (H2 : ~ inject_Z (q ^ Z.of_nat (n - j)) == 0).
  { intro E. unfold Qeq, inject_Z in E. simpl in E.
    assert (0 < q ^ Z.of_nat (n - j))%Z by (apply Z.pow_pos_nonneg; lia). lia. }
  field. split; assumption.
Qed.

Lemma ibeta_sum_from_frac : forall n p q, (0 < q)%Z -> forall cnt j, (j + cnt <= S n)%nat ->
  ibeta_sum_from n j cnt (inject_Z p / inject_Z q) ==
  inject_Z (Tz_sum n p (q - p) j cnt) / inject_Z (q ^ Z.of_nat n).
Proof.
  intros n p q Hq. 
  assert (H1 : ~ inject_Z (q ^ Z.of_nat n) == 0).
  { intro E. unfold Qeq, inject_Z in E. simpl in E.
    assert (0 < q ^ Z.of_nat n)%Z by (apply Z.pow_pos_nonneg; lia). lia. }
  induction cnt as [|cnt IH]; intros j Hj.
  - simpl. field. exact H1.
  - change (ibeta_sum_from n j (S cnt) (inject_Z p / inject_Z q))
      with (ibeta_term n j (inject_Z p / inject_Z q) + ibeta_sum_from n (S j) cnt (inject_Z p / inject_Z q)).
    change (Tz_sum n p (q - p) j (S cnt)) with (Tz n p (q - p) j + Tz_sum n p (q - p) (S j) cnt)%Z.
    rewrite IH, ibeta_term_frac, inject_Z_plus by lia.
    field. exact H1.
Qed.

(* the fast evaluation used by the checker equals the specification-level closed form *)
Theorem ibeta_int_fast_correct : forall a b x, (1 <= a)%nat -> (1 <= b)%nat -> 0 <= x <= 1 ->
  ibeta_int_fast a b x == ibeta_int a b x.
Proof.
  intros a b x Ha Hb [Hx0 Hx1]. unfold ibeta_int_fast.
  destruct x as [p d]. cbv beta iota zeta delta [Qnum Qden].
  assert (Hp : (0 <= p)%Z) by (unfold Qle in Hx0; simpl in Hx0; lia).
  assert (Hpq : (p <= Z.pos d)%Z) by (unfold Qle in Hx1; simpl in Hx1; lia).
  destruct (p <=? 0)%Z eqn:E0.
  { apply Z.leb_le in E0. assert (p = 0%Z) by lia. subst p.
    rewrite (ibeta_int_compat a b (0 # d) 0) by reflexivity.
    symmetry. now apply ibeta_int_0. }
  apply Z.leb_gt in E0.
  destruct (Z.pos d - p <=? 0)%Z eqn:E1.
  { apply Z.leb_le in E1. assert (p = Z.pos d) by lia. subst p.
    rewrite (ibeta_int_compat a b (Z.pos d # d) 1) by (unfold Qeq; simpl; lia).
    symmetry. now apply ibeta_int_1. }
  apply Z.leb_gt in E1.
  rewrite Qred_correct.
  set (n := (a + b - 1)%nat).
  rewrite binomZ_correct by (unfold n; lia).
  change (binom n a * p ^ Z.of_nat a * (Z.pos d - p) ^ Z.of_nat (n - a))%Z with (Tz n p (Z.pos d - p) a).
  rewrite ibeta_terms_fast_sum by (unfold n; lia).
  rewrite Z.add_0_l.
  rewrite (ibeta_int_compat a b (p # d) (inject_Z p / inject_Z (Z.pos d))) by apply Qmake_Qdiv.
  unfold ibeta_int. fold n.
  rewrite ibeta_sum_from_frac by (unfold n; lia).
  rewrite Qmake_Qdiv, Z2Pos.id by (apply Z.pow_pos_nonneg; lia).
  reflexivity.
Qed.
Local Close Scope Q_scope.

(* conjunction referenced by Properties/C08.v *)
Lemma ibeta_int_ends : forall a b, (1 <= a)%nat -> (1 <= b)%nat ->
  (ibeta_int a b 0 == 0 /\ ibeta_int a b 1 == 1)%Q.
Proof. intros a b Ha Hb. split; [now apply ibeta_int_0 | now apply ibeta_int_1]. Qed.

(* Proofs/Mathx.v — lemmas about the exact model of mathx (Model/Mathx.v). *)
From Coq Require Import Lia Lqa.
From MM Require Import Base.Num Model.Mathx.
Local Open Scope Z_scope.

(* ---------- Sign ---------- *)
Lemma sign_cases : forall x : xreal,
  match x with
  | XNaN => sign_model x = XNaN
  | XInf true => sign_model x = XFin (-1)%Q
  | XInf false => sign_model x = XFin 1%Q
  | XFin q => (q == 0 -> sign_model x = XFin 0)%Q /\ (q < 0 -> sign_model x = XFin (-1))%Q /\ (0 < q -> sign_model x = XFin 1)%Q
  end.
Proof.
  intros [ | [|] | q]; simpl; try reflexivity.
  unfold Qeqb, Qltb.
  repeat split; intro H.
  - apply Qeq_bool_iff in H. now rewrite H.
  - destruct (Qeq_bool q 0) eqn:E. { apply Qeq_bool_iff in E. rewrite E in H. now apply Qlt_irrefl in H. }
    destruct (Qle_bool 0 q) eqn:E2. { apply Qle_bool_iff in E2. exfalso. apply (Qlt_irrefl q). eapply Qlt_le_trans; eauto. }
    reflexivity.
  - destruct (Qeq_bool q 0) eqn:E. { apply Qeq_bool_iff in E. rewrite E in H. now apply Qlt_irrefl in H. }
    destruct (Qle_bool 0 q) eqn:E2; [reflexivity|].
    exfalso. assert (Qle_bool 0 q = true) by (apply Qle_bool_iff; now apply Qlt_le_weak). congruence.
Qed.

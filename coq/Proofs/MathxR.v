(* Proofs/MathxR.v — the exact Q model of mathx (Model/Mathx.v) against the real-number
   specification (RealSpec/Beta.v, Proofs/BetaR.v), and the decision structure of
   BetaInc / GammaInc with the continued fraction and the series as abstract functions. *)
From Coq Require Import Reals Lra Psatz Lia QArith Qreals.
From Coquelicot Require Import Coquelicot.
From MM Require Import Base.Num Model.Mathx Proofs.Mathx RealSpec.Beta Proofs.BetaR RealSpec.Gamma Proofs.GammaR.
Local Open Scope R_scope.

(* ================================================================== *)
(* I. Q model -> real closed form                                      *)
(* ================================================================== *)
Lemma Q2R_0' : Q2R 0 = 0.
Proof. unfold Q2R; simpl; lra. Qed.
Lemma Q2R_1' : Q2R 1 = 1.
Proof. unfold Q2R; simpl; lra. Qed.

Lemma Q2R_inject_Z : forall z, Q2R (inject_Z z) = IZR z.
Proof. intros z. unfold Q2R, inject_Z. simpl. lra. Qed.

Lemma Q2R_Qpow : forall x n, Q2R (Qpow x n) = Q2R x ^ n.
Proof.
  intros x. induction n as [|n IH]; simpl.
  - apply Q2R_1'.
  - rewrite Q2R_mult, IH. reflexivity.
Qed.

Lemma IZR_factZ : forall n, IZR (factZ n) = INR (fact n).
Proof.
  induction n as [|n IH]; [simpl; lra|].
  rewrite factZ_S, mult_IZR, IH, <- INR_IZR_INZ, fact_simpl, mult_INR. reflexivity.
Qed.

(* Pascal's triangle is the factorial quotient of the real-number library *)
Lemma IZR_binom : forall n k, (k <= n)%nat -> IZR (binom n k) = Binomial.C n k.
Proof.
  intros n k H. unfold Binomial.C.
  specialize (binom_fact n k H) as F.
  apply (f_equal IZR) in F. rewrite !mult_IZR, !IZR_factZ in F.
  rewrite <- F.
  assert (INR (fact k) <> 0) by apply INR_fact_neq_0.
  assert (INR (fact (n - k)) <> 0) by apply INR_fact_neq_0.
  field. split; assumption.
Qed.

Lemma Q2R_ibeta_term : forall j k x, Q2R (ibeta_term (j + k) j x) = bterm j k (Q2R x).
Proof.
  intros j k x. unfold ibeta_term, bterm.
  replace (j + k - j)%nat with k by lia.
  rewrite !Q2R_mult, !Q2R_Qpow, Q2R_inject_Z, Q2R_minus, Q2R_1', IZR_binom by lia.
  reflexivity.
Qed.

Lemma Q2R_ibeta_sum_from : forall k j x,
  Q2R (ibeta_sum_from (j + k) j (S k) x) = tailsum j k (Q2R x).
Proof.
  induction k as [|k IH]; intros j x.
  - simpl ibeta_sum_from. simpl tailsum. rewrite Q2R_plus, Q2R_0', Q2R_ibeta_term. reflexivity.
  - change (ibeta_sum_from (j + S k) j (S (S k)) x)
      with (ibeta_term (j + S k) j x + ibeta_sum_from (j + S k) (S j) (S k) x)%Q.
    change (tailsum j (S k) (Q2R x)) with (bterm j (S k) (Q2R x) + tailsum (S j) k (Q2R x)).
    rewrite Q2R_plus, Q2R_ibeta_term.
    replace (j + S k)%nat with (S j + k)%nat by lia. rewrite IH. reflexivity.
Qed.

Theorem ibeta_int_Q2R : forall a b x, (1 <= a)%nat -> (1 <= b)%nat ->
  Q2R (ibeta_int a b x) = Ibeta_sum a b (Q2R x).
Proof.
  intros a b x _ Hb. destruct b as [|k]; [lia|].
  rewrite Ibeta_sum_tailsum. unfold ibeta_int.
  replace (a + S k - 1)%nat with (a + k)%nat by lia.
  apply Q2R_ibeta_sum_from.
Qed.

Lemma Q_unit_R : forall x : Q, (0 <= x <= 1)%Q -> 0 <= Q2R x <= 1.
Proof.
  intros x [H0 H1]. apply Qle_Rle in H0, H1. rewrite Q2R_0' in H0. rewrite Q2R_1' in H1. lra.
Qed.

(* the model's closed form IS the textbook ratio of integrals *)
Theorem ibeta_int_is_integral : forall a b x, (1 <= a)%nat -> (1 <= b)%nat -> (0 <= x <= 1)%Q ->
  Q2R (ibeta_int a b x) = Ibeta_R (Q2R x) (INR a) (INR b).
Proof.
  intros a b x Ha Hb Hx. rewrite ibeta_int_Q2R by assumption.
  symmetry. apply Ibeta_closed_form; try assumption. now apply Q_unit_R.
Qed.

Theorem ibeta_int_range : forall a b x, (1 <= a)%nat -> (1 <= b)%nat -> (0 <= x <= 1)%Q ->
  (0 <= ibeta_int a b x <= 1)%Q.
Proof.
  intros a b x Ha Hb Hx.
  destruct (Ibeta_sum_range a b (Q2R x) Ha Hb (Q_unit_R x Hx)) as [L U].
  rewrite <- ibeta_int_Q2R in L, U by assumption.
  split; apply Rle_Qle; [rewrite Q2R_0' | rewrite Q2R_1']; assumption.
Qed.

Theorem ibeta_int_monotone : forall a b x y, (1 <= a)%nat -> (1 <= b)%nat ->
  (0 <= x <= y)%Q -> (y <= 1)%Q -> (ibeta_int a b x <= ibeta_int a b y)%Q.
Proof.
  intros a b x y Ha Hb [Hx Hxy] Hy.
  apply Rle_Qle. rewrite !ibeta_int_Q2R by assumption.
  apply Qle_Rle in Hx, Hxy, Hy. rewrite Q2R_0' in Hx. rewrite Q2R_1' in Hy.
  apply Ibeta_sum_monotone; try assumption; lra.
Qed.

Theorem ibeta_int_reflection : forall a b x, (1 <= a)%nat -> (1 <= b)%nat -> (0 <= x <= 1)%Q ->
  (ibeta_int a b x + ibeta_int b a (1 - x) == 1)%Q.
Proof.
  intros a b x Ha Hb Hx. apply eqR_Qeq.
  assert (HxR := Q_unit_R x Hx).
  rewrite Q2R_plus, !ibeta_int_Q2R, Q2R_minus, Q2R_1' by assumption.
  rewrite <- !Ibeta_closed_form by (assumption || lra).
  apply Ibeta_R_reflect; try apply INR_ge_1; assumption.
Qed.

(* ================================================================== *)
(* J. Decision structure with abstract continued fraction / series     *)
(* ================================================================== *)
Section BetaIncStruct.
  (* I: the regularized incomplete beta function; bt: the prefactor
     x^a (1-x)^b / B(a,b) (beta.go:41-46); cf: the continued fraction (beta.go:58-93) *)
  Variables (I bt cf : R -> R -> R -> R).

  (* beta.go:27-52 *)
  Definition betainc_struct (x a b : R) : option R :=
    match Rlt_dec x 0 with
    | left _ => None
    | right _ =>
      match Rlt_dec 1 x with
      | left _ => None
      | right _ =>
        Some (match Rlt_dec x ((a + 1) / (a + b + 2)) with
              | left _ => bt x a b * cf x a b / a
              | right _ => 1 - bt x a b * cf (1 - x) b a / b
              end)
      end
    end.

  Hypothesis cf_spec : forall x a b, 0 <= x <= 1 -> 0 < a -> 0 < b ->
    bt x a b * cf x a b / a = I x a b.
  Hypothesis bt_sym : forall x a b, bt x a b = bt (1 - x) b a.
  Hypothesis I_refl : forall x a b, 0 <= x <= 1 -> 0 < a -> 0 < b ->
    I x a b + I (1 - x) b a = 1.

  (* both branches return I_x(a,b): the symmetry transform swaps exactly (x,a,b) -> (1-x,b,a) *)
  Theorem betainc_branches_agree : forall x a b, 0 <= x <= 1 -> 0 < a -> 0 < b ->
    betainc_struct x a b = Some (I x a b).
  Proof.
    intros x a b Hx Ha Hb. unfold betainc_struct.
    destruct (Rlt_dec x 0) as [H|_]; [lra|].
    destruct (Rlt_dec 1 x) as [H|_]; [lra|].
    f_equal. destruct (Rlt_dec x ((a + 1) / (a + b + 2))) as [_|_].
    - apply cf_spec; assumption.
    - rewrite bt_sym, cf_spec by (assumption || lra).
      specialize (I_refl x a b Hx Ha Hb). lra.
  Qed.

  Theorem betainc_struct_nan : forall x a b, x < 0 \/ 1 < x -> betainc_struct x a b = None.
  Proof.
    intros x a b Hx. unfold betainc_struct.
    destruct (Rlt_dec x 0) as [H|H0]; [reflexivity|].
    destruct (Rlt_dec 1 x) as [H|H1]; [reflexivity|]. lra.
  Qed.
End BetaIncStruct.

Section GammaIncStruct.
  (* ser: the series (gamma.go:45-66), cfq: the continued fraction for Q (gamma.go:68-96) *)
  Variables (ser cfq : R -> R -> R).

  (* gamma.go:13-27 and 29-43 *)
  Definition gammainc_struct (a x : R) : R :=
    match Rlt_dec x (a + 1) with left _ => ser a x | right _ => 1 - cfq a x end.
  Definition gammainccomp_struct (a x : R) : R :=
    match Rlt_dec x (a + 1) with left _ => 1 - ser a x | right _ => cfq a x end.

  (* P + Q = 1 on both branches, for ANY ser and cfq *)
  Theorem gammainc_complement : forall a x, gammainc_struct a x + gammainccomp_struct a x = 1.
  Proof.
    intros a x. unfold gammainc_struct, gammainccomp_struct.
    destruct (Rlt_dec x (a + 1)); lra.
  Qed.

  Variable P : R -> R -> R.
  Hypothesis ser_spec : forall a x, ser a x = P a x.
  Hypothesis cfq_spec : forall a x, cfq a x = 1 - P a x.

  Theorem gammainc_branches_agree : forall a x,
    gammainc_struct a x = P a x /\ gammainccomp_struct a x = 1 - P a x.
  Proof.
    intros a x. unfold gammainc_struct, gammainccomp_struct.
    destruct (Rlt_dec x (a + 1)); rewrite ?ser_spec, ?cfq_spec; lra.
  Qed.
End GammaIncStruct.

(* ================================================================== *)
(* Conjunctions referenced by Properties/C08.v                         *)
(* ================================================================== *)
(* GammaInc at a = n+1 (closed form 1 - e^-x sum_{k<=n} x^k/k!): in [0,1], monotone, P + Q = 1 *)
Lemma gamma_int_laws : forall n x y,
  (0 <= x -> 0 <= Pgamma_int n x <= 1) /\
  (0 <= x <= y -> Pgamma_int n x <= Pgamma_int n y) /\
  Pgamma_int n x + Qgamma_int n x = 1 /\
  1 - Pgamma_nat n x = Qgamma_int n x.
Proof.
  intros n x y. repeat split.
  - apply Pgamma_int_range; assumption.
  - apply Pgamma_int_range; assumption.
  - apply Pgamma_int_monotone.
  - apply Pgamma_complement.
  - apply Qgamma_closed_form.
Qed.

(* the regularized incomplete beta function (ratio of integrals) for REAL a, b >= 1 *)
Lemma ibeta_real_laws : forall a b x y, 1 <= a -> 1 <= b ->
  (0 <= x <= 1 -> 0 <= Ibeta_R x a b <= 1) /\
  (0 <= x <= y -> y <= 1 -> Ibeta_R x a b <= Ibeta_R y a b) /\
  (0 <= x <= 1 -> Ibeta_R x a b + Ibeta_R (1 - x) b a = 1) /\
  Ibeta_R 0 a b = 0 /\ Ibeta_R 1 a b = 1.
Proof.
  intros a b x y Ha Hb. repeat split.
  - apply Ibeta_R_range; assumption.
  - apply Ibeta_R_range; assumption.
  - intros; apply Ibeta_R_monotone; assumption.
  - intros; apply Ibeta_R_reflect; assumption.
  - apply Ibeta_R_0.
  - apply Ibeta_R_1; assumption.
Qed.

(* non-vacuity of the hypotheses of Section BetaIncStruct (a toy instance: I = x) *)
Lemma betainc_struct_hyps_satisfiable :
  exists I bt cf : R -> R -> R -> R,
    (forall x a b, 0 <= x <= 1 -> 0 < a -> 0 < b -> bt x a b * cf x a b / a = I x a b) /\
    (forall x a b, bt x a b = bt (1 - x) b a) /\
    (forall x a b, 0 <= x <= 1 -> 0 < a -> 0 < b -> I x a b + I (1 - x) b a = 1).
Proof.
  exists (fun x _ _ => x), (fun _ _ _ => 1), (fun x a _ => x * a).
  repeat split; intros.
  - field. lra.
  - ring.
Qed.

(* Proofs/NormalLim.v — the normal distribution function at infinity, its quantile function.
     * the Gaussian integral: int_0^x exp(-t^2) dt -> sqrt(PI)/2 with the explicit gap
       0 <= sqrt(PI)/2 - int_0^x <= 2/sqrt(PI) * exp(-x^2)       (gE_gap)
     * an explicit tail bound  1 - Phi mu sigma x <= 2/PI * exp(-z^2/2), z = (x-mu)/sigma >= 0
     * Phi -> 1 at +infinity, Phi -> 0 at -infinity
     * every p in (0,1) has exactly one quantile; any exact inverse of Phi is strictly
       increasing, is mu + sigma * (standard quantile), and is symmetric about mu
   No axioms beyond the stdlib real numbers. *)
From Coq Require Import Reals Lra Psatz ssreflect.
From Coquelicot Require Import Coquelicot.
From MM Require Import RealSpec.Normal Proofs.NormalR.
Open Scope R_scope.

Lemma exp_le_mono : forall a b, a <= b -> exp a <= exp b.
Proof. intros a b [H | ->]; [left; now apply exp_increasing | right; reflexivity]. Qed.

Lemma gf_le : forall x t, gf x t <= exp (- (x * x)).
Proof.
  intros x t. unfold gf.
  assert (H1 : 1 <= 1 + t * t) by nra.
  assert (H2 : exp (- (x * x) * (1 + t * t)) <= exp (- (x * x))) by (apply exp_le_mono; nra).
  apply Rle_trans with (2 := H2).
  generalize (exp_pos (- (x * x) * (1 + t * t))) => HE.
  apply Rle_div_l; [lra | nra].
Qed.

Lemma gG_le : forall x, gG x <= exp (- (x * x)).
Proof.
  intros x. unfold gG.
  replace (exp (- (x * x))) with (RInt (fun _ : R => exp (- (x * x))) 0 1).
  - apply RInt_le; [lra | apply gf_ex_RInt | apply ex_RInt_const | intros t _; apply gf_le].
  - rewrite RInt_const. rewrite /scal /= /mult /=. ring.
Qed.

(* the Gaussian integral with an explicit rate *)
Theorem gE_gap : forall x, 0 <= x ->
  0 <= sqrt PI / 2 - gE x <= 2 / sqrt PI * exp (- (x * x)).
Proof.
  intros x Hx.
  generalize (gF_const x) (gG_pos x) (gG_le x) (gE_le x Hx) PI_RGT_0 (exp_pos (- (x * x))) => HF HG0 HG1 HL HPI HE.
  destruct (gauss_bound x Hx) as [G0 _]. fold (gE x) in G0.
  assert (Hs : sqrt PI * sqrt PI = PI) by (apply sqrt_sqrt; lra).
  assert (HP : 0 < sqrt PI) by (apply sqrt_lt_R0; lra).
  split; [lra|].
  replace (2 / sqrt PI * exp (- (x * x))) with (exp (- (x * x)) / (sqrt PI / 2)) by (field; lra).
  apply Rle_div_r; [lra|].
  set (s := sqrt PI / 2) in *. set (g := gE x) in *. set (G := gG x) in *.
  assert (s * s = PI / 4) by (unfold s; nra).
  assert (0 <= (s - g) * g) by (apply Rmult_le_pos; lra).
  nra.
Qed.

Lemma Phi_std_tail : forall z, 0 <= z -> 1 - Phi 0 1 z <= 2 / PI * exp (- (z * z) / 2).
Proof.
  intros z Hz. rewrite Phi_std_gauss.
  generalize PI_RGT_0 => HPI.
  assert (H2 : 0 < sqrt 2) by (apply sqrt_lt_R0; lra).
  assert (HP : 0 < sqrt PI) by (apply sqrt_lt_R0; lra).
  assert (Hs : sqrt PI * sqrt PI = PI) by (apply sqrt_sqrt; lra).
  assert (Hz2 : 0 <= z / sqrt 2).
  { apply Rmult_le_pos; auto. left; now apply Rinv_0_lt_compat. }
  destruct (gE_gap _ Hz2) as [_ G].
  replace (z / sqrt 2 * (z / sqrt 2)) with (z * z / 2) in G.
  2:{ assert (E : sqrt 2 * sqrt 2 = 2) by (apply sqrt_sqrt; lra).
      replace (z / sqrt 2 * (z / sqrt 2)) with (z * z / (sqrt 2 * sqrt 2)) by (field; lra). now rewrite E. }
  replace (- (z * z) / 2) with (- (z * z / 2)) by field.
  set (E := exp (- (z * z / 2))) in *. set (g := gE (z / sqrt 2)) in *.
  replace (1 - (1 / 2 + / sqrt PI * g)) with ((sqrt PI / 2 - g) / sqrt PI) by (field; lra).
  replace (2 / PI * E) with ((2 / sqrt PI * E) / sqrt PI) by (rewrite -{3}Hs; field; lra).
  apply Rmult_le_compat_r; [left; now apply Rinv_0_lt_compat | exact G].
Qed.

(* explicit bound for the upper tail of every normal distribution *)
Theorem Phi_tail_bound : forall mu sigma x, 0 < sigma -> mu <= x ->
  1 - Phi mu sigma x <= 2 / PI * exp (- ((x - mu) / sigma * ((x - mu) / sigma)) / 2).
Proof.
  intros mu sigma x Hs Hx. rewrite (Phi_standard mu sigma x Hs).
  apply Phi_std_tail. apply Rmult_le_pos; [lra | left; now apply Rinv_0_lt_compat].
Qed.

Lemma Phi_std_upper_small : forall eps z, 0 < eps -> 1 + 2 / eps < z -> 1 - eps < Phi 0 1 z.
Proof.
  intros eps z He Hz.
  assert (H2e : 0 < 2 / eps) by (apply Rdiv_lt_0_compat; lra).
  assert (Hz0 : 0 <= z) by lra.
  generalize (Phi_std_tail z Hz0) PI_RGT_0 => HT HPI.
  set (u := z * z / 2).
  assert (Hu : 1 / eps < u).
  { unfold u. assert (2 / eps < z * z) by nra.
    replace (1 / eps) with (2 / eps / 2) by (field; lra). lra. }
  assert (Hu0 : 0 < u) by (assert (0 < 1 / eps) by (apply Rdiv_lt_0_compat; lra); lra).
  assert (HE : exp (- (z * z) / 2) < eps).
  { replace (- (z * z) / 2) with (- u) by (unfold u; field).
    rewrite exp_Ropp. assert (HX : 1 + u < exp u) by (apply exp_ineq1; lra).
    assert (/ exp u < / (1 / eps)).
    { apply Rinv_lt_contravar; [|lra].
      apply Rmult_lt_0_compat; [apply Rdiv_lt_0_compat; lra | apply exp_pos]. }
    replace (/ (1 / eps)) with eps in H by (field; lra). exact H. }
  assert (2 / PI < 1).
  { generalize PI2_1 => HP1. apply Rlt_div_l; lra. }
  assert (0 < exp (- (z * z) / 2)) by apply exp_pos.
  nra.
Qed.

Lemma Phi_upper_small : forall mu sigma eps x, 0 < sigma -> 0 < eps ->
  mu + sigma * (1 + 2 / eps) < x -> 1 - eps < Phi mu sigma x < 1.
Proof.
  intros mu sigma eps x Hs He Hx. split; [|apply Phi_range; exact Hs].
  rewrite (Phi_standard mu sigma x Hs). apply Phi_std_upper_small; [exact He|].
  apply Rlt_div_r; [exact Hs|]. lra.
Qed.

Lemma Phi_lower_small : forall mu sigma eps x, 0 < sigma -> 0 < eps ->
  x < mu - sigma * (1 + 2 / eps) -> 0 < Phi mu sigma x < eps.
Proof.
  intros mu sigma eps x Hs He Hx. split; [apply Phi_range; exact Hs|].
  generalize (Phi_symmetric mu sigma Hs (mu - x)).
  replace (mu - (mu - x)) with x by ring.
  assert (Hy : mu + sigma * (1 + 2 / eps) < mu + (mu - x)) by lra.
  generalize (Phi_upper_small mu sigma eps _ Hs He Hy). lra.
Qed.

(* "tends to 1 at +inf and to 0 at -inf" *)
Theorem Phi_lim_p_infty : forall mu sigma, 0 < sigma -> is_lim (Phi mu sigma) p_infty 1.
Proof.
  intros mu sigma Hs. apply is_lim_spec. intros eps. simpl.
  exists (mu + sigma * (1 + 2 / eps)). intros x Hx.
  destruct (Phi_upper_small mu sigma eps x Hs (cond_pos eps) Hx) as [A B].
  apply Rabs_def1; lra.
Qed.

Theorem Phi_lim_m_infty : forall mu sigma, 0 < sigma -> is_lim (Phi mu sigma) m_infty 0.
Proof.
  intros mu sigma Hs. apply is_lim_spec. intros eps. simpl.
  exists (mu - sigma * (1 + 2 / eps)). intros x Hx.
  destruct (Phi_lower_small mu sigma eps x Hs (cond_pos eps) Hx) as [A B].
  apply Rabs_def1; lra.
Qed.

(* ---------------------------------------------------------------------------------------- *)
(* The quantile function: what NormalDist.InvCDF approximates                                *)
(* ---------------------------------------------------------------------------------------- *)

Lemma Phi_continuity : forall mu sigma, 0 < sigma -> continuity (Phi mu sigma).
Proof.
  intros mu sigma Hs x. apply continuity_pt_filterlim.
  apply: ex_derive_continuous. eexists. apply Phi_derive. exact Hs.
Qed.

Lemma Phi_injective : forall mu sigma x y, 0 < sigma -> Phi mu sigma x = Phi mu sigma y -> x = y.
Proof.
  intros mu sigma x y Hs E.
  destruct (Rtotal_order x y) as [H | [H | H]]; auto.
  - generalize (Phi_increasing mu sigma Hs x y H); lra.
  - generalize (Phi_increasing mu sigma Hs y x H); lra.
Qed.

(* every probability strictly between 0 and 1 has exactly one quantile *)
Theorem Phi_quantile_exists : forall mu sigma p, 0 < sigma -> 0 < p < 1 ->
  exists x, Phi mu sigma x = p /\ forall y, Phi mu sigma y = p -> y = x.
Proof.
  intros mu sigma p Hs [Hp0 Hp1].
  set (e := Rmin p (1 - p) / 2).
  assert (He : 0 < e) by (unfold e; apply Rdiv_lt_0_compat; [apply Rmin_pos; lra | lra]).
  assert (He1 : e < p /\ e < 1 - p).
  { unfold e. generalize (Rmin_l p (1 - p)) (Rmin_r p (1 - p)) (Rmin_pos p (1 - p) Hp0 ltac:(lra)). lra. }
  set (a := mu - sigma * (1 + 2 / e) - 1). set (b := mu + sigma * (1 + 2 / e) + 1).
  destruct (Phi_lower_small mu sigma e a Hs He ltac:(unfold a; lra)) as [A0 A1].
  destruct (Phi_upper_small mu sigma e b Hs He ltac:(unfold b; lra)) as [B0 B1].
  assert (Hab : a < b).
  { unfold a, b. assert (0 < sigma * (1 + 2 / e)); [|lra].
    apply Rmult_lt_0_compat; [exact Hs|]. assert (0 < 2 / e) by (apply Rdiv_lt_0_compat; lra). lra. }
  destruct (IVT_gen (Phi mu sigma) a b p (Phi_continuity mu sigma Hs)) as [x [_ Hx]].
  { rewrite Rmin_left; [|lra]. rewrite Rmax_right; lra. }
  exists x. split; [exact Hx|]. intros y Hy. apply (Phi_injective mu sigma); [exact Hs | lra].
Qed.

(* an exact inverse exists (informatively, from the intermediate value theorem): the hypothesis
   [q_inverts] of the quantile lemmas below is satisfiable for every mu and sigma > 0 *)
Lemma Phi_quantile_sig : forall mu sigma p, 0 < sigma -> 0 < p < 1 -> { x : R | Phi mu sigma x = p }.
Proof.
  intros mu sigma p Hs [Hp0 Hp1].
  set (e := Rmin p (1 - p) / 2).
  assert (He : 0 < e) by (unfold e; apply Rdiv_lt_0_compat; [apply Rmin_pos; lra | lra]).
  assert (He1 : e < p /\ e < 1 - p).
  { unfold e. generalize (Rmin_l p (1 - p)) (Rmin_r p (1 - p)) (Rmin_pos p (1 - p) Hp0 ltac:(lra)). lra. }
  set (a := mu - sigma * (1 + 2 / e) - 1). set (b := mu + sigma * (1 + 2 / e) + 1).
  destruct (Phi_lower_small mu sigma e a Hs He ltac:(unfold a; lra)) as [A0 A1].
  destruct (Phi_upper_small mu sigma e b Hs He ltac:(unfold b; lra)) as [B0 B1].
  destruct (IVT_gen (Phi mu sigma) a b p (Phi_continuity mu sigma Hs)) as [x [_ Hx]].
  { rewrite Rmin_left; [|lra]. rewrite Rmax_right; lra. }
  exists x. exact Hx.
Qed.

Lemma quantile_hyp_satisfiable : forall mu sigma, 0 < sigma ->
  exists q : R -> R, forall p, 0 < p < 1 -> Phi mu sigma (q p) = p.
Proof.
  intros mu sigma Hs.
  exists (fun p => match Rlt_dec 0 p, Rlt_dec p 1 with
                   | left a, left b => proj1_sig (Phi_quantile_sig mu sigma p Hs (conj a b))
                   | _, _ => 0 end).
  intros p [H0 H1]. destruct (Rlt_dec 0 p) as [a | a]; [|contradiction].
  destruct (Rlt_dec p 1) as [b | b]; [|contradiction].
  apply proj2_sig.
Qed.

(* Specification of InvCDF on (0,1): ANY function q with Phi (q p) = p ... *)
Section Quantile.
Variables (mu sigma : R) (q : R -> R).
Hypothesis sigma_pos : 0 < sigma.
Hypothesis q_inverts : forall p, 0 < p < 1 -> Phi mu sigma (q p) = p.

(* ... is strictly increasing in p, *)
Lemma quantile_increasing : forall p1 p2, 0 < p1 -> p1 < p2 -> p2 < 1 -> q p1 < q p2.
Proof.
  intros p1 p2 H1 H12 H2.
  destruct (Rlt_le_dec (q p1) (q p2)) as [H | H]; auto. exfalso.
  generalize (Phi_monotone mu sigma sigma_pos _ _ H).
  rewrite !q_inverts; lra.
Qed.

(* ... also inverts the other way round (q (Phi x) = x), *)
Lemma quantile_left_inverse : forall x, q (Phi mu sigma x) = x.
Proof.
  intros x. apply (Phi_injective mu sigma); [exact sigma_pos|].
  apply q_inverts. apply Phi_range. exact sigma_pos.
Qed.

(* ... is the Galois adjoint of the CDF (the generic definition of a quantile), *)
Lemma quantile_galois : forall p x, 0 < p < 1 -> (p <= Phi mu sigma x <-> q p <= x).
Proof.
  intros p x Hp. split; intros H.
  - destruct (Rle_lt_dec (q p) x) as [L | L]; auto. exfalso.
    generalize (Phi_increasing mu sigma sigma_pos _ _ L). rewrite q_inverts; lra.
  - rewrite -(q_inverts p Hp). now apply Phi_monotone.
Qed.

(* ... is symmetric about mu (the code uses one rational approximation for both tails), *)
Lemma quantile_symmetric : forall p, 0 < p < 1 -> q (1 - p) = 2 * mu - q p.
Proof.
  intros p Hp. apply (Phi_injective mu sigma); [exact sigma_pos|].
  rewrite q_inverts; [|lra].
  generalize (Phi_symmetric mu sigma sigma_pos (q p - mu)).
  replace (mu - (q p - mu)) with (2 * mu - q p) by ring.
  replace (mu + (q p - mu)) with (q p) by ring.
  rewrite (q_inverts p Hp). lra.
Qed.

(* ... maps 1/2 to mu, *)
Lemma quantile_median : q (1 / 2) = mu.
Proof.
  apply (Phi_injective mu sigma); [exact sigma_pos|].
  rewrite q_inverts; [|lra]. now rewrite Phi_centre.
Qed.

(* ... and is x * sigma + mu for the standard quantile x ("Adjust from standard normal",
   normaldist.go:124). *)
Lemma quantile_location_scale : forall q0 : R -> R,
  (forall p, 0 < p < 1 -> Phi 0 1 (q0 p) = p) ->
  forall p, 0 < p < 1 -> q p = q0 p * sigma + mu.
Proof.
  intros q0 H0 p Hp. apply (Phi_injective mu sigma); [exact sigma_pos|].
  rewrite (q_inverts p Hp) (Phi_standard mu sigma _ sigma_pos).
  replace ((q0 p * sigma + mu - mu) / sigma) with (q0 p) by (field; lra).
  now rewrite H0.
Qed.
End Quantile.

(* Rand: if z is a draw with distribution function Phi 0 1 then z*sigma+mu has Phi mu sigma:
   {z*sigma+mu <= x} = {z <= (x-mu)/sigma} and Phi mu sigma x = Phi 0 1 ((x-mu)/sigma) *)
Lemma normal_rand_law : forall mu sigma z x, 0 < sigma ->
  (z * sigma + mu <= x <-> z <= (x - mu) / sigma) /\
  Phi mu sigma (z * sigma + mu) = Phi 0 1 z.
Proof.
  intros mu sigma z x Hs. split.
  - split; intros H.
    + apply Rle_div_r; lra.
    + apply Rle_div_r in H; lra.
  - rewrite (Phi_standard mu sigma _ Hs). f_equal. field. lra.
Qed.

Print Assumptions Phi_lim_p_infty.
Print Assumptions Phi_quantile_exists.
